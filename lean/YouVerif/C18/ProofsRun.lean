/-
C18 — frame facts of the operations and lifting of the invariant to runs.
-/
import YouVerif.C18.ProofsReserve
namespace YouVerif.C18

/-- the part of the state only `Schedule` and `Results` may change -/
structure Frame (s s' : State) : Prop where
  cfg : s'.cfg = s.cfg
  origin : s'.origin = s.origin
  ret : s'.ret = s.ret
  offset : s'.offset = s.offset
  sched : s'.sched = s.sched

theorem frame_setPools (s : State) (k : Kind) (p : Pools) : Frame s (s.setPools k p) := ⟨rfl, rfl, rfl, rfl, rfl⟩

theorem reserve_frame (s : State) (k : Kind) (l p c : Nat) : Frame s (reserve s k l p c).1 := by
  simp only [reserve]
  split
  · exact ⟨rfl, rfl, rfl, rfl, rfl⟩
  · split
    · exact ⟨rfl, rfl, rfl, rfl, rfl⟩
    · split
      · exact ⟨rfl, rfl, rfl, rfl, rfl⟩
      · split <;> exact ⟨rfl, rfl, rfl, rfl, rfl⟩

theorem deliver_frame (s : State) (k : Kind) (p : Nat) (bs : List Nat) : Frame s (deliver s k p bs).1 := by
  simp only [deliver]
  split
  · exact ⟨rfl, rfl, rfl, rfl, rfl⟩
  · exact ⟨rfl, rfl, rfl, rfl, rfl⟩

theorem cancel_frame (s : State) (k : Kind) (p : Nat) : Frame s (cancel s k p).1 := ⟨rfl, rfl, rfl, rfl, rfl⟩
theorem expire_frame (s : State) (k : Kind) (l : List Nat) : Frame s (expire s k l).1 := ⟨rfl, rfl, rfl, rfl, rfl⟩
theorem revoke_frame (s : State) (p : Nat) : Frame s (revoke s p) := ⟨rfl, rfl, rfl, rfl, rfl⟩

/-- runs that respect the downloader's call discipline -/
def DisciplinedRun : State → List Op → Prop
  | _, [] => True
  | s, op :: ops => Disciplined s op ∧ DisciplinedRun (step s op) ops

theorem inv_run {s : State} (hi : Inv s) (ops : List Op) (hd : DisciplinedRun s ops) : Inv (run s ops) := by
  induction ops generalizing s with
  | nil => exact hi
  | cons op ops ih => exact ih (inv_step hi op hd.1) hd.2

/-- the batches `Results` returned along a run, in order -/
def batches : State → List Op → List (List Result)
  | _, [] => []
  | s, .results :: ops => (results s).2 :: batches (step s .results) ops
  | s, .schedule hs f :: ops => batches (step s (.schedule hs f)) ops
  | s, .reserve k l p c :: ops => batches (step s (.reserve k l p c)) ops
  | s, .deliver k p bs :: ops => batches (step s (.deliver k p bs)) ops
  | s, .cancel k p :: ops => batches (step s (.cancel k p)) ops
  | s, .expire k ps :: ops => batches (step s (.expire k ps)) ops
  | s, .revoke p :: ops => batches (step s (.revoke p)) ops

/-- the ghost field `ret` is exactly the concatenation of everything `Results` returned -/
theorem ret_run (s : State) (ops : List Op) : (run s ops).ret = s.ret ++ (batches s ops).flatten := by
  induction ops generalizing s with
  | nil => simp [run, batches]
  | cons op ops ih =>
    have hrun : run s (op :: ops) = run (step s op) ops := rfl
    rw [hrun, ih]
    cases op with
    | results => simp [batches, step, results]
    | schedule hs f => simp only [batches]; rw [show (step s (.schedule hs f)).ret = s.ret from (scheduleLoop_frame hs f s).2.2.1]
    | reserve k l p c => simp only [batches]; rw [show (step s (.reserve k l p c)).ret = s.ret from (reserve_frame s k l p c).ret]
    | deliver k p bs => simp only [batches]; rw [show (step s (.deliver k p bs)).ret = s.ret from (deliver_frame s k p bs).ret]
    | cancel k p => simp only [batches]; rfl
    | expire k ps => simp only [batches]; rfl
    | revoke p => simp only [batches]; rfl

end YouVerif.C18
