/-
C18 — no task is lost: as long as no operation answered errInvalidChain, every scheduled, not yet
returned header is present in the queue, an in-flight request or the done pool of every active kind.
-/
import YouVerif.C18.ProofsRun
namespace YouVerif.C18

def Active (s : State) (k : Kind) : Prop := k = .body ∨ s.cfg.fast = true

def Full (s : State) : Prop :=
  s.failed = false → ∀ k, Active s k → ∀ h ∈ s.sched, s.offset ≤ h.num → 0 < occ (s.pools k) h

theorem occ_pos_iff (p : Pools) (x : Header) :
    0 < occ p x ↔ x ∈ p.queue ∨ x ∈ pendAll p.pend ∨ x ∈ p.done := by
  simp only [occ, mem_iff_count_pos]; omega

theorem mem_pushAll {x : Header} {hs q : List Header} : x ∈ pushAll hs q ↔ x ∈ hs ∨ x ∈ q := by
  simp only [mem_iff_count_pos, count_pushAll]; omega

theorem full_init (c m : Nat) (f : Bool) (o : Nat) : Full (init c m f o) := by
  intro _ k _ h hm; simp [init] at hm

theorem full_schedOne {s : State} (hf : Full s) (h : Header) : Full (schedOne s h) := by
  intro hfail k hact x hx hlo
  have hx' : x ∈ s.sched ++ [h] := hx
  rw [occ_schedOne]
  rcases List.mem_append.mp hx' with hm | hm
  · have := hf hfail k hact x hm hlo; omega
  · have : x = h := by simpa using hm
    have ha : k = .body ∨ s.cfg.fast = true := hact
    simp [this, ha]

theorem full_scheduleLoop {s : State} (hf : Full s) (hs : List Header) (f : Nat) : Full (scheduleLoop hs f s).1 := by
  induction hs generalizing f s with
  | nil => exact hf
  | cons h t ih =>
    simp only [scheduleLoop, schedOneFast_eq]
    split
    · exact hf
    · split
      · exact hf
      · split
        · exact ih hf f
        · split
          · exact ih hf f
          · exact ih (full_schedOne hf h) (f + 1)

theorem full_reshuffle {s s' : State} (hf : Full s) (hfr : Frame s s') (hfail : s'.failed = s.failed)
    (hp : ∀ k, Reshuffle (s.pools k) (s'.pools k)) : Full s' := by
  intro hfl k hact x hx hlo
  rw [(hp k).occ]
  rw [hfr.sched] at hx; rw [hfr.offset] at hlo
  exact hf (by rw [← hfail]; exact hfl) k (by unfold Active at *; rw [← hfr.cfg]; exact hact) x hx hlo

theorem takeResults_mem (c : Cache) : ∀ (n o : Nat) (r : Result), r ∈ takeResults c o n →
    ∃ j, j < n ∧ cget c (o + j) = some r := by
  intro n
  induction n with
  | zero => intro o r hr; simp [takeResults] at hr
  | succ n ih =>
    intro o r hr
    simp only [takeResults] at hr
    split at hr
    · simp at hr
    · rename_i r0 hr0
      rcases List.mem_cons.mp hr with rfl | hm
      · exact ⟨0, by omega, by simpa using hr0⟩
      · obtain ⟨j, hj, hc⟩ := ih (o + 1) r hm
        exact ⟨j + 1, by omega, by rw [← hc]; congr 1; omega⟩

theorem full_results {s : State} (hi : Inv s) (hf : Full s) : Full (results s).1 := by
  intro hfail k hact x hx hlo
  let n := min (countProc s.cache s.offset s.cfg.cacheLen 0) s.cfg.maxProc
  have hlo' : s.offset + n ≤ x.num := hlo
  have hocc := hf hfail k hact x hx (by omega)
  show 0 < occ { s.pools k with done := removeHeaders (takeResults s.cache s.offset n) (s.pools k).done } x
  have hnot : ¬ ∃ r ∈ takeResults s.cache s.offset n, r.header = x := by
    rintro ⟨r, hr, rfl⟩
    obtain ⟨j, hj, hc⟩ := takeResults_mem s.cache n s.offset r hr
    have := (hi.cacheOK _ _ hc).num
    omega
  simp only [occ, count_removeHeaders, hnot, if_false] at hocc ⊢
  exact hocc

/-- the pop loop keeps every task it touches unless it exits with errInvalidChain -/
theorem reserveLoop_keeps (cfg : Cfg) (k : Kind) (offset count : Nat) (lack : List Header) (x : Header) :
    ∀ (q : List Header) (a : RAcc),
      (reserveLoop cfg k offset count lack q a).2.err = false →
      (x ∈ q ∨ x ∈ a.send ∨ x ∈ a.skip ∨ x ∈ a.done) →
      (x ∈ (reserveLoop cfg k offset count lack q a).1 ∨ x ∈ (reserveLoop cfg k offset count lack q a).2.send ∨
       x ∈ (reserveLoop cfg k offset count lack q a).2.skip ∨ x ∈ (reserveLoop cfg k offset count lack q a).2.done) := by
  intro q
  induction q with
  | nil => intro a _ hx; simpa [reserveLoop] using hx
  | cons h q ih =>
    intro a herr hx
    simp only [reserveLoop] at herr ⊢
    split at herr
    · rename_i hcond
      simp only [hcond, if_true]
      split at herr
      · simp at herr
      · rename_i hwin
        simp only [hwin, if_false]
        split at herr
        · rename_i hn
          simp only [hn, if_true]
          apply ih _ herr
          dsimp only
          rcases hx with hx | hx | hx | hx
          · rcases List.mem_cons.mp hx with rfl | hx
            · exact Or.inr (Or.inr (Or.inr (mem_insertSet.mpr (Or.inl rfl))))
            · exact Or.inl hx
          · exact Or.inr (Or.inl hx)
          · exact Or.inr (Or.inr (Or.inl hx))
          · exact Or.inr (Or.inr (Or.inr (mem_insertSet.mpr (Or.inr hx))))
        · rename_i hn
          simp only [hn, Bool.false_eq_true, if_false]
          split at herr
          · rename_i hl
            simp only [hl, if_true]
            apply ih _ herr
            dsimp only
            rcases hx with hx | hx | hx | hx
            · rcases List.mem_cons.mp hx with rfl | hx
              · exact Or.inr (Or.inr (Or.inl (by simp)))
              · exact Or.inl hx
            · exact Or.inr (Or.inl hx)
            · exact Or.inr (Or.inr (Or.inl (by simp [hx])))
            · exact Or.inr (Or.inr (Or.inr hx))
          · rename_i hl
            simp only [hl, if_false]
            apply ih _ herr
            dsimp only
            rcases hx with hx | hx | hx | hx
            · rcases List.mem_cons.mp hx with rfl | hx
              · exact Or.inr (Or.inl (by simp))
              · exact Or.inl hx
            · exact Or.inr (Or.inl (by simp [hx]))
            · exact Or.inr (Or.inr (Or.inl hx))
            · exact Or.inr (Or.inr (Or.inr hx))
    · rename_i hcond
      simp only [hcond, if_false]
      exact hx

theorem full_reserve {s : State} (hf : Full s) (k : Kind) (limit peer count : Nat) :
    Full (reserve s k limit peer count).1 := by
  simp only [reserve]
  split
  · exact hf
  · split
    · exact hf
    · generalize hres : reserveLoop s.cfg k s.offset count (lget s.lacking peer) (s.pools k).queue
          (RAcc.start (resultSlots s k limit) s.cache (s.pools k).pool (s.pools k).done) = res
      obtain ⟨q, a⟩ := res
      have hkeep := fun x => reserveLoop_keeps s.cfg k s.offset count (lget s.lacking peer) x (s.pools k).queue
          (RAcc.start (resultSlots s k limit) s.cache (s.pools k).pool (s.pools k).done)
      rw [hres] at hkeep
      dsimp only at hkeep ⊢
      split
      · intro hfail; exact absurd (show true = false from hfail) (by decide)
      · rename_i herr
        have herr' : a.err = false := by simpa using herr
        -- common part: where does a task of kind k end up
        have hwhere : ∀ x, 0 < occ (s.pools k) x →
            x ∈ q ∨ x ∈ a.send ∨ x ∈ a.skip ∨ x ∈ a.done ∨ x ∈ pendAll (s.pools k).pend := by
          intro x hx
          rcases (occ_pos_iff _ _).mp hx with h | h | h
          · rcases hkeep x herr' (Or.inl h) with h | h | h | h
            · exact Or.inl h
            · exact Or.inr (Or.inl h)
            · exact Or.inr (Or.inr (Or.inl h))
            · exact Or.inr (Or.inr (Or.inr (Or.inl h)))
          · exact Or.inr (Or.inr (Or.inr (Or.inr h)))
          · rcases hkeep x herr' (Or.inr (Or.inr (Or.inr (by simpa [RAcc.start] using h)))) with h | h | h | h
            · exact Or.inl h
            · exact Or.inr (Or.inl h)
            · exact Or.inr (Or.inr (Or.inl h))
            · exact Or.inr (Or.inr (Or.inr (Or.inl h)))
        split
        · rename_i hse
          have hse' : a.send = [] := by simpa using hse
          intro hfail k' hact x hx hlo
          have h0 := hf hfail k' hact x hx hlo
          by_cases hk : k' = k
          · subst hk
            rw [setPools_same, occ_pos_iff]
            rcases hwhere x h0 with h | h | h | h | h
            · exact Or.inl (mem_pushAll.mpr (Or.inr h))
            · rw [hse'] at h; simp at h
            · exact Or.inl (mem_pushAll.mpr (Or.inl h))
            · exact Or.inr (Or.inr h)
            · exact Or.inr (Or.inl h)
          · rw [setPools_other _ _ _ _ hk]; exact h0
        · intro hfail k' hact x hx hlo
          have h0 := hf hfail k' hact x hx hlo
          by_cases hk : k' = k
          · subst hk
            rw [setPools_same, occ_pos_iff]
            rcases hwhere x h0 with h | h | h | h | h
            · exact Or.inl (mem_pushAll.mpr (Or.inr h))
            · exact Or.inr (Or.inl (by simp [pendAll, h]))
            · exact Or.inl (mem_pushAll.mpr (Or.inl h))
            · exact Or.inr (Or.inr h)
            · exact Or.inr (Or.inl (by simp [pendAll, h]))
          · rw [setPools_other _ _ _ _ hk]; exact h0

/-- the assembly loop never drops a task -/
theorem deliverLoop_keeps (cfg : Cfg) (k : Kind) (offset : Nat) (x : Header) :
    ∀ (hs : List Header) (bs : List Nat) (a : DAcc), (x ∈ hs ∨ x ∈ a.done) →
      (x ∈ (deliverLoop cfg k offset hs bs a).1 ∨ x ∈ (deliverLoop cfg k offset hs bs a).2.1.done) := by
  intro hs
  induction hs with
  | nil => intro bs a hx; simpa [deliverLoop] using hx
  | cons h hs ih =>
    intro bs a hx
    cases bs with
    | nil => simpa [deliverLoop] using hx
    | cons b bs =>
      simp only [deliverLoop]
      split
      · exact hx
      · split
        · exact hx
        · split
          · exact hx
          · apply ih
            dsimp only
            rcases hx with hx | hx
            · rcases List.mem_cons.mp hx with rfl | hx
              · exact Or.inr (mem_insertSet.mpr (Or.inl rfl))
              · exact Or.inl hx
            · exact Or.inr (mem_insertSet.mpr (Or.inr hx))

theorem mem_pendAll_perase {x : Header} {pend : List (Nat × List Header)} {p : Nat} {hs : List Header}
    (hg : pget pend p = some hs) : x ∈ pendAll pend ↔ x ∈ hs ∨ x ∈ pendAll (perase pend p) := by
  simp only [mem_iff_count_pos, count_pendAll_perase x pend p hs hg]; omega

theorem full_deliver {s : State} (hf : Full s) (k : Kind) (peer : Nat) (bodies : List Nat) :
    Full (deliver s k peer bodies).1 := by
  simp only [deliver]
  split
  · exact hf
  · rename_i hs hg
    generalize hres : deliverLoop s.cfg k s.offset hs bodies (DAcc.start s.cache (s.pools k).pool (s.pools k).done) = res
    obtain ⟨rest, a, f⟩ := res
    have hkeep := fun x => deliverLoop_keeps s.cfg k s.offset x hs bodies (DAcc.start s.cache (s.pools k).pool (s.pools k).done)
    rw [hres] at hkeep
    dsimp only at hkeep ⊢
    intro hfail k' hact x hx hlo
    have hfail' : s.failed = false := by
      have : (s.failed || (f == Fail.invalidChain)) = false := hfail
      simp only [Bool.or_eq_false_iff] at this; exact this.1
    have h0 := hf hfail' k' hact x hx hlo
    by_cases hk : k' = k
    · subst hk
      rw [setPools_same, occ_pos_iff]
      rcases (occ_pos_iff _ _).mp h0 with h | h | h
      · exact Or.inl (mem_pushAll.mpr (Or.inr h))
      · rcases (mem_pendAll_perase hg).mp h with h | h
        · rcases hkeep x (Or.inl h) with h | h
          · exact Or.inl (mem_pushAll.mpr (Or.inl h))
          · exact Or.inr (Or.inr h)
        · exact Or.inr (Or.inl h)
      · rcases hkeep x (Or.inr (by simpa [DAcc.start] using h)) with h | h
        · exact Or.inl (mem_pushAll.mpr (Or.inl h))
        · exact Or.inr (Or.inr h)
    · rw [setPools_other _ _ _ _ hk]; exact h0

theorem full_step {s : State} (hi : Inv s) (hf : Full s) (op : Op) : Full (step s op) := by
  cases op with
  | schedule hs f => exact full_scheduleLoop hf hs f
  | reserve k l p c => exact full_reserve hf k l p c
  | deliver k p bs => exact full_deliver hf k p bs
  | cancel k p =>
    exact full_reshuffle hf (cancel_frame s k p) rfl (reshuffle_setPools s k _ (reshuffle_cancelPools _ p))
  | expire k ps =>
    exact full_reshuffle hf (expire_frame s k ps) rfl (reshuffle_setPools s k _ (reshuffle_expireLoop ps _ []))
  | revoke p => exact full_reshuffle hf (revoke_frame s p) rfl (fun k => reshuffle_cancelPools _ p)
  | results => exact full_results hi hf

theorem full_run {s : State} (hi : Inv s) (hf : Full s) (ops : List Op) (hd : DisciplinedRun s ops) :
    Full (run s ops) := by
  induction ops generalizing s with
  | nil => exact hf
  | cons op ops ih => exact ih (inv_step hi op hd.1) (full_step hi hf op) hd.2

theorem mem_drop_iff {s : State} (hi : Inv s) (h : Header) :
    h ∈ s.sched.drop s.ret.length ↔ h ∈ s.sched ∧ s.offset ≤ h.num := by
  constructor
  · intro hm
    obtain ⟨i, hi'⟩ := List.mem_iff_getElem?.mp hm
    rw [List.getElem?_drop] at hi'
    have := hi.schedNum _ _ hi'
    exact ⟨List.mem_iff_getElem?.mpr ⟨_, hi'⟩, by rw [hi.offsetEq]; omega⟩
  · rintro ⟨hm, hlo⟩
    obtain ⟨i, hi'⟩ := List.mem_iff_getElem?.mp hm
    have := hi.schedNum _ _ hi'
    have hoff := hi.offsetEq
    apply List.mem_iff_getElem?.mpr
    refine ⟨i - s.ret.length, ?_⟩
    rw [List.getElem?_drop]
    have : s.ret.length + (i - s.ret.length) = i := by omega
    rw [this]; exact hi'

end YouVerif.C18
