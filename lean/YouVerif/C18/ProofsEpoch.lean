/-
C18 — histories with several sync cycles on one queue object.  A `reset` puts the queue back into the
initial state of a fresh queue with the same sizing; therefore the part of any history after its last
reset is a run from `init`, and every theorem about runs applies to the current sync epoch verbatim.
-/
import YouVerif.C18.ProofsProgress
namespace YouVerif.C18

inductive Cmd
  | op (o : Op)
  | reset (offset : Nat) (fast : Bool)

def stepC (s : State) : Cmd → State
  | .op o => step s o
  | .reset off f => reset s off f

def runC (s : State) (cs : List Cmd) : State := cs.foldl stepC s

theorem step_sizes (s : State) (o : Op) :
    (step s o).cfg.cacheLen = s.cfg.cacheLen ∧ (step s o).cfg.maxProc = s.cfg.maxProc := by
  have h : (step s o).cfg = s.cfg := by
    cases o with
    | schedule hs f => exact (scheduleLoop_frame hs f s).1
    | reserve k l p c => exact (reserve_frame s k l p c).cfg
    | deliver k p bs => exact (deliver_frame s k p bs).cfg
    | cancel k p => rfl
    | expire k ps => rfl
    | revoke p => rfl
    | results => rfl
  rw [h]; exact ⟨rfl, rfl⟩

theorem runC_sizes (s : State) (cs : List Cmd) :
    (runC s cs).cfg.cacheLen = s.cfg.cacheLen ∧ (runC s cs).cfg.maxProc = s.cfg.maxProc := by
  induction cs generalizing s with
  | nil => exact ⟨rfl, rfl⟩
  | cons c cs ih =>
    have := ih (stepC s c)
    show (runC (stepC s c) cs).cfg.cacheLen = _ ∧ (runC (stepC s c) cs).cfg.maxProc = _
    cases c with
    | op o => rw [this.1, this.2]; exact step_sizes s o
    | reset off f => rw [this.1, this.2]; exact ⟨rfl, rfl⟩

theorem runC_ops (s : State) (ops : List Op) : runC s (ops.map .op) = run s ops := by
  induction ops generalizing s with
  | nil => rfl
  | cons o ops ih => exact ih (step s o)

theorem runC_append (s : State) (a b : List Cmd) : runC s (a ++ b) = runC (runC s a) b := by
  simp [runC, List.foldl_append]

/-- **epoch reduction**: whatever happened before (any operations, any earlier cycles, disciplined or not), after a
reset the queue behaves exactly like a fresh queue prepared at the new origin -/
theorem runC_epoch (s : State) (pre : List Cmd) (off : Nat) (f : Bool) (post : List Op) :
    runC s (pre ++ .reset off f :: post.map .op) = run (init s.cfg.cacheLen s.cfg.maxProc f off) post := by
  rw [runC_append]
  show runC (reset (runC s pre) off f) (post.map .op) = _
  rw [runC_ops]
  simp only [reset, (runC_sizes s pre).1, (runC_sizes s pre).2]

end YouVerif.C18
