/-
C18 — the per-tick ORDER of actions of Downloader.fetchParts (the `update` branch), as a small state machine on
top of the queue model:  peers.Len()==0 check → expire (time out overdue requests; setIdle / drop the peers;
abort if the master was dropped) → "nothing more to fetch" check → reserve for the idle peers until throttled →
"no peers available" check.  Deliveries (`deliver`) and the importer (`results`) are separate events.
Inputs that come from outside the queue (which requests are overdue, which peers are registered/idle and their
capacities, whether the header side has finished) are parameters of the tick.
-/
import YouVerif.C18.Model
namespace YouVerif.C18

inductive Act
  | expire (exp : List (Nat × Nat))
  | setIdle (p : Nat)
  | drop (p : Nat)
  | pending (n : Nat)
  | inflight (b : Bool)
  | idle (ps : List Nat)
  | throttle (b : Bool)
  | reserve (p count : Nat) (req : Option (List Header)) (progress : Bool) (err : Err)
deriving Repr

inductive Outcome | cont | done | noPeers | timeout | unavailable | invalid
deriving DecidableEq, Repr

structure TickIn where
  limit : Nat
  finished : Bool            -- the header side signalled completion (wake = false seen)
  npeers : Nat               -- d.peers.Len() at the start of the tick
  master : Nat               -- d.cancelPeer
  overdue : List Nat         -- peers whose request is older than the TTL now
  known : List Nat           -- the overdue peers that are still registered
  idle : List (Nat × Nat)    -- idle(): (peer, capacity) in the order the loop visits them
  total : Nat                -- idle(): number of registered peers

/-- handling of the expiry report: `fails > 2` → setIdle, else drop; dropping the master aborts the sync -/
def handleExpired (known : List Nat) (master : Nat) : List (Nat × Nat) → List Act × Bool
  | [] => ([], false)
  | (p, fails) :: rest =>
    if p ∈ known then
      if fails > 2 then
        let (a, t) := handleExpired known master rest
        (Act.setIdle p :: a, t)
      else if p = master then ([Act.drop p], true)
      else
        let (a, t) := handleExpired known master rest
        (Act.drop p :: a, t)
    else handleExpired known master rest

structure RState where
  s : State
  acts : List Act
  progressed : Bool
  throttled : Bool
  running : Bool
  invalid : Bool

/-- the reservation loop over the idle peers -/
def reserveIdle (k : Kind) (limit : Nat) : List (Nat × Nat) → RState → RState
  | [], r => r
  | (p, cap) :: rest, r =>
    let t := shouldThrottle r.s k limit
    if t then { r with acts := r.acts ++ [Act.throttle true], throttled := true }
    else
      let n := pendingTasks r.s k
      if n = 0 then { r with acts := r.acts ++ [Act.throttle false, Act.pending 0] }
      else
        let (s', o) := reserve r.s k limit p cap
        let acts := r.acts ++ [Act.throttle false, Act.pending n, Act.reserve p cap o.req o.progress o.err]
        if o.err ≠ Err.ok then { r with s := s', acts := acts, invalid := true }
        else
          reserveIdle k limit rest
            { r with s := s', acts := acts, progressed := r.progressed || o.progress,
                     running := r.running || o.req.isSome }

def tick (k : Kind) (i : TickIn) (s : State) : State × List Act × Outcome :=
  if i.npeers = 0 then (s, [], .noPeers)
  else
    let (s1, exp) := expire s k i.overdue
    let (hacts, aborted) := handleExpired i.known i.master exp
    let acts := Act.expire exp :: hacts
    if aborted then (s1, acts, .timeout)
    else
      let n := pendingTasks s1 k
      if n = 0 then
        let b := inFlight s1 k
        (s1, acts ++ [Act.pending 0, Act.inflight b], if !b && i.finished then .done else .cont)
      else
        let running := inFlight s1 k
        let r := reserveIdle k i.limit i.idle
          { s := s1, acts := acts ++ [Act.pending n, Act.inflight running, Act.idle (i.idle.map (·.1))],
            progressed := false, throttled := false, running := running, invalid := false }
        if r.invalid then (r.s, r.acts, .invalid)
        else if !r.progressed && !r.throttled && !r.running && i.idle.length == i.total then
          let n' := pendingTasks r.s k
          (r.s, r.acts ++ [Act.pending n'], if n' > 0 then .unavailable else .cont)
        else (r.s, r.acts, .cont)

end YouVerif.C18
