/-
C18 — the pop loop of reserveHeaders, one iteration at a time (named accumulators + step lemmas for `Inv`).
-/
import YouVerif.C18.ProofsHonest
namespace YouVerif.C18

def RAcc.failA (a : RAcc) : RAcc := { a with err := true }
def RAcc.noopA (cfg : Cfg) (k : Kind) (a : RAcc) (h : Header) : RAcc :=
  { a with space := a.space - 1, cache := complete (allocSlot cfg a.cache h) k h none, done := insertSet h a.done,
           pool := removeAll h a.pool, progress := true }
def RAcc.skipA (cfg : Cfg) (a : RAcc) (h : Header) : RAcc :=
  { a with proc := a.proc + 1, cache := allocSlot cfg a.cache h, skip := a.skip ++ [h] }
def RAcc.sendA (cfg : Cfg) (a : RAcc) (h : Header) : RAcc :=
  { a with proc := a.proc + 1, cache := allocSlot cfg a.cache h, send := a.send ++ [h] }

theorem reserveLoop_cons (cfg : Cfg) (k : Kind) (offset count : Nat) (lack : List Header) (h : Header)
    (q : List Header) (a : RAcc) :
    reserveLoop cfg k offset count lack (h :: q) a =
      if a.proc < a.space ∧ a.send.length < count then
        if h.num < offset ∨ offset + cfg.cacheLen ≤ h.num then (q, a.failA)
        else if isNoop k h = true then reserveLoop cfg k offset count lack q (a.noopA cfg k h)
        else if h ∈ lack then reserveLoop cfg k offset count lack q (a.skipA cfg h)
        else reserveLoop cfg k offset count lack q (a.sendA cfg h)
      else (h :: q, a) := by
  simp only [reserveLoop, RAcc.failA, RAcc.noopA, RAcc.skipA, RAcc.sendA]

section steps
variable {s : State} {k : Kind} {h : Header} {q : List Header} {a : RAcc}

theorem mid_head_facts (hi : Inv (midR s k (h :: q) a)) : h ∈ s.sched ∧ s.offset ≤ h.num := by
  have hocc : 0 < occ ((midR s k (h :: q) a).pools k) h := by
    rw [midR_same, occ_mid, List.count_cons_self]; omega
  exact hi.occSched k h hocc

theorem inv_mid_alloc (hi : Inv (midR s k (h :: q) a)) (hhi : h.num < s.offset + s.cfg.cacheLen) :
    Inv { midR s k (h :: q) a with cache := allocSlot s.cfg a.cache h } :=
  hi.alloc h rfl rfl rfl rfl rfl rfl rfl (mid_head_facts hi).1 (mid_head_facts hi).2 hhi

theorem inv_mid_fail (hact : k = .body ∨ s.cfg.fast = true) (hi : Inv (midR s k (h :: q) a)) :
    Inv (midR s k q a.failA) := by
  refine hi.repoolK k hact rfl rfl rfl rfl rfl rfl
    (fun k' hk => by rw [midR_other _ _ _ _ _ hk, midR_other _ _ _ _ _ hk]) ?_ ?_ ?_
  · intro x; rw [midR_same, midR_same, occ_mid, occ_mid, List.count_cons]; simp only [RAcc.failA]; omega
  · rw [midR_same, midR_same]; rfl
  · intro x hx; rw [midR_same] at hx ⊢; exact hx

theorem inv_mid_noop (hact : k = .body ∨ s.cfg.fast = true) (hi : Inv (midR s k (h :: q) a))
    (hhi : h.num < s.offset + s.cfg.cacheLen) (hnoop : isNoop k h = true) :
    Inv (midR s k q (a.noopA s.cfg k h)) := by
  refine (inv_mid_alloc hi hhi).complete k h none rfl rfl rfl rfl rfl hact rfl
    (fun k' hk => by
      show (midR s k q _).pools k' = (midR s k (h :: q) a).pools k'
      rw [midR_other _ _ _ _ _ hk, midR_other _ _ _ _ _ hk])
    ?_ ?_ ?_ (cget_allocSlot_self _ _ _) (Or.inl ⟨rfl, by simpa [isNoop] using hnoop⟩)
  · show ((midR s k q _).pools k).done = insertSet h ((midR s k (h :: q) a).pools k).done
    rw [midR_same, midR_same]; rfl
  · intro x hx
    show x ∈ ((midR s k (h :: q) a).pools k).pool
    rw [midR_same] at hx ⊢
    exact mem_removeAll hx
  · intro x
    show ((midR s k q _).pools k).queue.count x + (pendAll ((midR s k q _).pools k).pend).count x + _ ≤
      ((midR s k (h :: q) a).pools k).queue.count x + (pendAll ((midR s k (h :: q) a).pools k).pend).count x
    rw [midR_same, midR_same]
    simp only [List.count_cons, RAcc.noopA]
    by_cases hx : x = h
    · subst hx; simp; omega
    · have : ¬ (h == x) = true := by simpa using fun e => hx e.symm
      simp [hx, this]

theorem inv_mid_skip (hact : k = .body ∨ s.cfg.fast = true) (hi : Inv (midR s k (h :: q) a))
    (hhi : h.num < s.offset + s.cfg.cacheLen) : Inv (midR s k q (a.skipA s.cfg h)) := by
  refine (inv_mid_alloc hi hhi).repoolK k hact rfl rfl rfl rfl rfl rfl
    (fun k' hk => by
      show (midR s k q _).pools k' = (midR s k (h :: q) a).pools k'
      rw [midR_other _ _ _ _ _ hk, midR_other _ _ _ _ _ hk]) ?_ ?_ ?_
  · intro x
    show occ ((midR s k q _).pools k) x ≤ occ ((midR s k (h :: q) a).pools k) x
    rw [midR_same, midR_same, occ_mid, occ_mid]
    simp only [RAcc.skipA, List.count_append, List.count_cons, List.count_nil]; omega
  · show ((midR s k q _).pools k).done = ((midR s k (h :: q) a).pools k).done
    rw [midR_same, midR_same]; rfl
  · intro x hx
    show x ∈ ((midR s k (h :: q) a).pools k).pool
    rw [midR_same] at hx ⊢; exact hx

theorem inv_mid_send (hact : k = .body ∨ s.cfg.fast = true) (hi : Inv (midR s k (h :: q) a))
    (hhi : h.num < s.offset + s.cfg.cacheLen) : Inv (midR s k q (a.sendA s.cfg h)) := by
  refine (inv_mid_alloc hi hhi).repoolK k hact rfl rfl rfl rfl rfl rfl
    (fun k' hk => by
      show (midR s k q _).pools k' = (midR s k (h :: q) a).pools k'
      rw [midR_other _ _ _ _ _ hk, midR_other _ _ _ _ _ hk]) ?_ ?_ ?_
  · intro x
    show occ ((midR s k q _).pools k) x ≤ occ ((midR s k (h :: q) a).pools k) x
    rw [midR_same, midR_same, occ_mid, occ_mid]
    simp only [RAcc.sendA, List.count_append, List.count_cons, List.count_nil]; omega
  · show ((midR s k q _).pools k).done = ((midR s k (h :: q) a).pools k).done
    rw [midR_same, midR_same]; rfl
  · intro x hx
    show x ∈ ((midR s k (h :: q) a).pools k).pool
    rw [midR_same] at hx ⊢; exact hx

end steps

end YouVerif.C18
