/-
C18 — progress: an honest round (time out everything, let one honest peer reserve and answer, collect
results) hands at least one more block to the importer while one is outstanding.
-/
import YouVerif.C18.ProofsGood
namespace YouVerif.C18

/-- a correct answer to the peer's pending request: for every requested header a list hashing to its root -/
def honestAnswer (s : State) (k : Kind) (p : Nat) : List Nat := ((pget (s.pools k).pend p).getD []).map (root k)

def allPeers (s : State) (k : Kind) : List Nat := (s.pools k).pend.map (·.1)

/-- the honest peer `p` reserves tasks of kind `k` and answers them correctly -/
def serve (k : Kind) (p limit count : Nat) (s : State) : State :=
  let s3 := (reserve s k limit p count).1
  (deliver s3 k p (honestAnswer s3 k p)).1

/-- one honest round: every in-flight request times out, the honest peer `p` reserves and answers correctly
(bodies, then receipts), the importer collects results -/
def honestRound (p limit count : Nat) (s : State) : State :=
  let s1 := (expire s .body (allPeers s .body)).1
  let s2 := (expire s1 .rcpt (allPeers s1 .rcpt)).1
  (results (serve .rcpt p limit count (serve .body p limit count s2))).1

def honestRounds (p limit count : Nat) : Nat → State → State
  | 0, s => s
  | n + 1, s => honestRounds p limit count n (honestRound p limit count s)

/-! ### small facts -/

theorem finishedCount_le (c : Cache) (d : List Header) (o : Nat) : ∀ f i, finishedCount c d o f i ≤ f := by
  intro f
  induction f with
  | zero => intro i; simp [finishedCount]
  | succ f ih =>
    intro i
    simp only [finishedCount]
    split
    · omega
    · have := ih (i + 1); split <;> omega

theorem reserveLoop_mono (cfg : Cfg) (k : Kind) (offset count : Nat) (lack : List Header) (x : Header) :
    ∀ (q : List Header) (a : RAcc),
      (x ∈ a.send → x ∈ (reserveLoop cfg k offset count lack q a).2.send) ∧
      (x ∈ a.done → x ∈ (reserveLoop cfg k offset count lack q a).2.done) := by
  intro q
  induction q with
  | nil => intro a; simp [reserveLoop]
  | cons h q ih =>
    intro a
    rw [reserveLoop_cons]
    split
    · split
      · exact ⟨fun h => h, fun h => h⟩
      · split
        · have := ih (a.noopA cfg k h)
          exact ⟨fun hx => this.1 hx, fun hx => this.2 (mem_insertSet.mpr (Or.inr hx))⟩
        · split
          · have := ih (a.skipA cfg h)
            exact ⟨fun hx => this.1 hx, fun hx => this.2 hx⟩
          · have := ih (a.sendA cfg h)
            exact ⟨fun hx => this.1 (by show x ∈ a.send ++ [h]; simp [hx]), fun hx => this.2 hx⟩
    · exact ⟨fun h => h, fun h => h⟩

theorem reserve_lacking (s : State) (k : Kind) (l p c : Nat) : (reserve s k l p c).1.lacking = s.lacking := by
  simp only [reserve]
  split
  · rfl
  · split
    · rfl
    · split
      · rfl
      · split <;> rfl

theorem reserve_other (s : State) (k k' : Kind) (l p c : Nat) (hk : k' ≠ k) :
    (reserve s k l p c).1.pools k' = s.pools k' := by
  simp only [reserve]
  split
  · rfl
  · split
    · rfl
    · split
      · exact setPools_other _ _ _ _ hk
      · split <;> exact setPools_other _ _ _ _ hk

theorem deliver_other (s : State) (k k' : Kind) (p : Nat) (bs : List Nat) (hk : k' ≠ k) :
    (deliver s k p bs).1.pools k' = s.pools k' := by
  simp only [deliver]
  split
  · rfl
  · exact setPools_other _ _ _ _ hk

/-! ### the honest peer's reservation takes the head block -/

theorem reserve_head {s : State} (hg : Good s) (k : Kind) (x0 : Header) (q : List Header) (limit p count : Nat)
    (hq : (s.pools k).queue = x0 :: q) (hpend : (s.pools k).pend = []) (hx0 : x0.num = s.offset)
    (hc : 0 < s.cfg.cacheLen) (hl0 : 0 < limit) (hl : limit ≤ s.cfg.cacheLen) (hcnt : 0 < count)
    (hlack : lget s.lacking p = []) :
    x0 ∈ ((reserve s k limit p count).1.pools k).done ∨
    ∃ hs, pget ((reserve s k limit p count).1.pools k).pend p = some hs ∧ x0 ∈ hs := by
  have hi := hg.inv
  have hf := fullU_of_full hg.full hg.ok
  have hact := active_of_queue hi k (by rw [hq]; rfl)
  -- the loop does not fail
  obtain ⟨_, _, _, herr⟩ := reserveLoop_good s k count (lget s.lacking p) limit
    (limit - min limit (s.sched.length - s.ret.length)) hact hl (slack_all_in hi limit)
    (s.pools k).queue (RAcc.start (resultSlots s k limit) s.cache (s.pools k).pool (s.pools k).done)
    (mid0_inv hi k hact _) (mid0_ext hg.ext k _) (mid0_fullU hf k _) rfl
    (by have := slots_le hi hg.ext hf k hact limit; show resultSlots s k limit - 0 ≤ _; omega)
  -- at least one free slot: the head block is not complete
  have hx0q : x0 ∈ (s.pools k).queue := by rw [hq]; simp
  have hx0s := (hi.occSched k x0 ((occ_pos_iff _ _).mpr (Or.inl hx0q))).1
  have hx0nd : x0 ∉ (s.pools k).done := by
    intro hd
    have := hi.occLe k x0
    have := (mem_iff_count_pos _ _).mp hd
    have := (mem_iff_count_pos _ _).mp hx0q
    simp only [occ] at *; omega
  have hspace : 1 ≤ resultSlots s k limit := by
    simp only [resultSlots, pendingCount, hpend, pendAll, List.filter_nil, List.length_nil]
    obtain ⟨f, rfl⟩ : ∃ f, limit = f + 1 := ⟨limit - 1, by omega⟩
    simp only [finishedCount, Nat.add_zero]
    cases hc0 : cget s.cache s.offset with
    | none => simp only []; omega
    | some r =>
      have hr : r.header = x0 := hi.entry_header hx0s (by rw [hx0]; exact hc0)
      have := finishedCount_le s.cache (s.pools k).done s.offset f (0 + 1)
      simp only [hr, hx0nd, if_false]
      omega
  -- unfold reserve
  simp only [reserve, hq, hpend, pget, List.isEmpty_cons, Bool.false_eq_true, if_false, Option.isSome_none]
  rw [hq] at herr
  have hfirst : ¬ (x0.num < s.offset ∨ s.offset + s.cfg.cacheLen ≤ x0.num) := by omega
  have hcond : (RAcc.start (resultSlots s k limit) s.cache (s.pools k).pool (s.pools k).done).proc <
      (RAcc.start (resultSlots s k limit) s.cache (s.pools k).pool (s.pools k).done).space ∧
      (RAcc.start (resultSlots s k limit) s.cache (s.pools k).pool (s.pools k).done).send.length < count := by
    simp only [RAcc.start, List.length_nil]; omega
  have hnl : x0 ∉ lget s.lacking p := by rw [hlack]; simp
  -- where the head block is after the loop
  have hwhere : x0 ∈ (reserveLoop s.cfg k s.offset count (lget s.lacking p) (x0 :: q)
        (RAcc.start (resultSlots s k limit) s.cache (s.pools k).pool (s.pools k).done)).2.done ∨
      x0 ∈ (reserveLoop s.cfg k s.offset count (lget s.lacking p) (x0 :: q)
        (RAcc.start (resultSlots s k limit) s.cache (s.pools k).pool (s.pools k).done)).2.send := by
    rw [reserveLoop_cons]
    simp only [hcond, and_self, if_true, hfirst, if_false, hnl]
    split
    · exact Or.inl ((reserveLoop_mono _ _ _ _ _ x0 q _).2 (mem_insertSet.mpr (Or.inl rfl)))
    · exact Or.inr ((reserveLoop_mono _ _ _ _ _ x0 q _).1 (by show x0 ∈ [] ++ [x0]; simp))
  generalize reserveLoop s.cfg k s.offset count (lget s.lacking p) (x0 :: q)
    (RAcc.start (resultSlots s k limit) s.cache (s.pools k).pool (s.pools k).done) = res at herr hwhere
  obtain ⟨q', a⟩ := res
  dsimp only at herr hwhere ⊢
  simp only [herr, Bool.false_eq_true, if_false]
  split
  · rename_i hse
    have hse' : a.send = [] := by simpa using hse
    rcases hwhere with h | h
    · left; rw [setPools_same]; exact h
    · rw [hse'] at h; simp at h
  · rcases hwhere with h | h
    · left; rw [setPools_same]; exact h
    · right; rw [setPools_same]; exact ⟨a.send, by simp [pget], h⟩

end YouVerif.C18

namespace YouVerif.C18

theorem reserve_done_mono (s : State) (k : Kind) (l p c : Nat) (x : Header) (hx : x ∈ (s.pools k).done) :
    x ∈ ((reserve s k l p c).1.pools k).done := by
  simp only [reserve]
  split
  · exact hx
  · split
    · exact hx
    · have hm := (reserveLoop_mono s.cfg k s.offset c (lget s.lacking p) x (s.pools k).queue
        (RAcc.start (resultSlots s k l) s.cache (s.pools k).pool (s.pools k).done)).2 hx
      generalize reserveLoop s.cfg k s.offset c (lget s.lacking p) (s.pools k).queue
        (RAcc.start (resultSlots s k l) s.cache (s.pools k).pool (s.pools k).done) = res at hm
      obtain ⟨q, a⟩ := res
      dsimp only at hm ⊢
      split
      · rw [setPools_same]; exact hm
      · split <;> (rw [setPools_same]; exact hm)

theorem deliverLoop_done_mono (cfg : Cfg) (k : Kind) (offset : Nat) (x : Header) :
    ∀ (hs : List Header) (bs : List Nat) (a : DAcc), x ∈ a.done → x ∈ (deliverLoop cfg k offset hs bs a).2.1.done := by
  intro hs
  induction hs with
  | nil => intro bs a hx; simpa [deliverLoop] using hx
  | cons h hs ih =>
    intro bs a hx
    cases bs with
    | nil => simpa [deliverLoop] using hx
    | cons b bs =>
      simp only [deliverLoop]
      split
      · exact hx
      · split
        · exact hx
        · split
          · exact hx
          · exact ih bs _ (mem_insertSet.mpr (Or.inr hx))

theorem deliver_done_mono (s : State) (k : Kind) (p : Nat) (bs : List Nat) (x : Header)
    (hx : x ∈ (s.pools k).done) : x ∈ ((deliver s k p bs).1.pools k).done := by
  simp only [deliver]
  split
  · exact hx
  · rename_i hs hg
    have hm := deliverLoop_done_mono s.cfg k s.offset x hs bs (DAcc.start s.cache (s.pools k).pool (s.pools k).done) hx
    generalize deliverLoop s.cfg k s.offset hs bs (DAcc.start s.cache (s.pools k).pool (s.pools k).done) = res at hm
    obtain ⟨rest, a, f⟩ := res
    dsimp only at hm ⊢
    rw [setPools_same]; exact hm

/-- an honest answer completes every header of the request -/
theorem deliver_honest_done {s : State} (hg : Good s) (k : Kind) (p : Nat) (hs : List Header)
    (hg' : pget (s.pools k).pend p = some hs) (x : Header) (hx : x ∈ hs) :
    x ∈ ((deliver s k p (honestAnswer s k p)).1.pools k).done := by
  have hsl := slotted_of_pending hg.inv hg.ext k p hs hg'
  obtain ⟨r1, _, _⟩ := deliverLoop_honest s.cfg k s.offset hs (DAcc.start s.cache (s.pools k).pool (s.pools k).done) hsl
  have hk := deliverLoop_keeps s.cfg k s.offset x hs (hs.map (root k))
    (DAcc.start s.cache (s.pools k).pool (s.pools k).done) (Or.inl hx)
  simp only [deliver, honestAnswer, hg', Option.getD_some]
  generalize deliverLoop s.cfg k s.offset hs (hs.map (root k))
    (DAcc.start s.cache (s.pools k).pool (s.pools k).done) = res at r1 hk
  obtain ⟨rest, a, f⟩ := res
  dsimp only at r1 hk ⊢
  rw [setPools_same]
  rcases hk with h | h
  · rw [r1] at h; simp at h
  · exact h

theorem lget_cons_self (p : Nat) (v : List Header) (t : List (Nat × List Header)) : lget ((p, v) :: t) p = v := by
  simp [lget, pget]

theorem deliver_honest_lacking (s : State) (k : Kind) (p : Nat) (hl : lget s.lacking p = []) :
    lget (deliver s k p (honestAnswer s k p)).1.lacking p = [] := by
  simp only [deliver]
  split
  · exact hl
  · rename_i hs hg
    simp only [honestAnswer, hg, Option.getD_some]
    cases hs with
    | nil =>
      show lget (if ([] : List Nat).isEmpty then markLacking s.lacking p [] else s.lacking) p = []
      simp only [List.isEmpty_nil, if_true, markLacking, List.foldl_nil, lget_cons_self]; exact hl
    | cons h t =>
      show lget (if (List.map (root k) (h :: t)).isEmpty then markLacking s.lacking p (h :: t) else s.lacking) p = []
      simp only [List.map_cons, List.isEmpty_cons, Bool.false_eq_true, if_false]; exact hl

section serve
variable {s : State} {k : Kind} {p limit count : Nat}

theorem serve_good (hg : Good s) (hl : limit ≤ s.cfg.cacheLen) : Good (serve k p limit count s) := by
  have h3 : Good (reserve s k limit p count).1 := good_step hg (.reserve k limit p count) hl
  exact good_step h3 (.deliver k p _) trivial

theorem serve_frame : Frame s (serve k p limit count s) := by
  have f1 := reserve_frame s k limit p count
  have f2 := deliver_frame (reserve s k limit p count).1 k p (honestAnswer (reserve s k limit p count).1 k p)
  exact ⟨f2.cfg.trans f1.cfg, f2.origin.trans f1.origin, f2.ret.trans f1.ret, f2.offset.trans f1.offset,
         f2.sched.trans f1.sched⟩

theorem serve_other (k' : Kind) (hk : k' ≠ k) : (serve k p limit count s).pools k' = s.pools k' := by
  simp only [serve]; rw [deliver_other _ _ _ _ _ hk, reserve_other _ _ _ _ _ _ hk]

theorem serve_lacking (hl : lget s.lacking p = []) : lget (serve k p limit count s).lacking p = [] := by
  simp only [serve]
  exact deliver_honest_lacking _ k p (by rw [reserve_lacking]; exact hl)

theorem serve_done_mono (x : Header) (hx : x ∈ (s.pools k).done) : x ∈ ((serve k p limit count s).pools k).done := by
  simp only [serve]
  exact deliver_done_mono _ k p _ x (reserve_done_mono s k limit p count x hx)

/-- after the honest peer served kind `k`, the head block's component of that kind is complete -/
theorem serve_head_done (hg : Good s) (hact : Active s k) (hpend : (s.pools k).pend = [])
    (x0 : Header) (hx0s : x0 ∈ s.sched) (hx0 : x0.num = s.offset)
    (hc : 0 < s.cfg.cacheLen) (hl0 : 0 < limit) (hl : limit ≤ s.cfg.cacheLen) (hcnt : 0 < count)
    (hlack : lget s.lacking p = []) :
    x0 ∈ ((serve k p limit count s).pools k).done := by
  have hi := hg.inv
  have hocc := fullU_of_full hg.full hg.ok k hact x0 hx0s (by omega)
  rcases (occ_pos_iff _ _).mp hocc with hq | hq | hq
  · -- queued: it is the head of the sorted queue
    cases hqq : (s.pools k).queue with
    | nil => rw [hqq] at hq; simp at hq
    | cons h0 q =>
      have hsorted := hg.ext.sorted k
      rw [hqq] at hsorted hq
      have hh0 : h0 = x0 := by
        have h0q : h0 ∈ (s.pools k).queue := by rw [hqq]; simp
        obtain ⟨h0s, h0lo⟩ := hi.occSched k h0 ((occ_pos_iff _ _).mpr (Or.inl h0q))
        apply hi.sched_inj h0s hx0s
        rcases List.mem_cons.mp hq with rfl | hq'
        · rfl
        · simp only [Sorted, List.pairwise_cons] at hsorted
          have := hsorted.1 x0 hq'; omega
      subst hh0
      have h3g : Good (reserve s k limit p count).1 := good_step hg (.reserve k limit p count) hl
      rcases reserve_head hg k h0 q limit p count hqq hpend hx0 hc hl0 hl hcnt hlack with hd | ⟨hs, hp, hm⟩
      · simp only [serve]; exact deliver_done_mono _ k p _ h0 hd
      · simp only [serve]; exact deliver_honest_done h3g k p hs hp h0 hm
  · rw [hpend] at hq; simp [pendAll] at hq
  · exact serve_done_mono x0 hq

end serve

theorem expire_all_pend_nil (p : Pools) (out : List (Nat × Nat)) :
    (expireLoop (p.pend.map (·.1)) p out).1.pend = [] := by
  obtain ⟨pool, queue, pend, done⟩ := p
  induction pend generalizing queue out with
  | nil => simp [expireLoop]
  | cons e t ih =>
    obtain ⟨k, v⟩ := e
    simp only [List.map_cons, expireLoop, pget, if_true, perase]
    exact ih _ _

theorem expire_all_pend (s : State) (k : Kind) : ((expire s k (allPeers s k)).1.pools k).pend = [] := by
  simp only [expire, allPeers]
  rw [setPools_same]
  exact expire_all_pend_nil _ _

theorem results_sched (s : State) : (results s).1.sched = s.sched := rfl
theorem results_cfg (s : State) : (results s).1.cfg = s.cfg := rfl
theorem results_lacking (s : State) : (results s).1.lacking = s.lacking := rfl
theorem results_ret (s : State) : (results s).1.ret = s.ret ++ (results s).2 := rfl

theorem honestRound_unfold (p limit count : Nat) (s : State) :
    honestRound p limit count s =
      (results (serve .rcpt p limit count (serve .body p limit count
        (expire (expire s .body (allPeers s .body)).1 .rcpt (allPeers (expire s .body (allPeers s .body)).1 .rcpt)).1))).1 :=
  rfl

/-- **one honest round returns at least one block** while one is outstanding -/
theorem round_progress {s : State} (hg : Good s) (p limit count : Nat)
    (hc : 0 < s.cfg.cacheLen) (hm : 0 < s.cfg.maxProc) (hl0 : 0 < limit) (hl : limit ≤ s.cfg.cacheLen)
    (hcnt : 0 < count) (hlack : lget s.lacking p = []) :
    Good (honestRound p limit count s) ∧ (honestRound p limit count s).sched = s.sched ∧
    (honestRound p limit count s).cfg = s.cfg ∧ lget (honestRound p limit count s).lacking p = [] ∧
    s.ret.length ≤ (honestRound p limit count s).ret.length ∧
    (s.ret.length < s.sched.length → s.ret.length + 1 ≤ (honestRound p limit count s).ret.length) := by
  rw [honestRound_unfold]
  generalize hs1 : (expire s .body (allPeers s .body)).1 = s1
  generalize hs2 : (expire s1 .rcpt (allPeers s1 .rcpt)).1 = s2
  generalize hs4 : serve .body p limit count s2 = s4
  generalize hs6 : serve .rcpt p limit count s4 = s6
  have g1 : Good s1 := by rw [← hs1]; exact good_step hg (.expire .body _) trivial
  have g2 : Good s2 := by rw [← hs2]; exact good_step g1 (.expire .rcpt _) trivial
  have f1 : Frame s s1 := by rw [← hs1]; exact expire_frame s .body _
  have f2 : Frame s1 s2 := by rw [← hs2]; exact expire_frame s1 .rcpt _
  have hl2 : limit ≤ s2.cfg.cacheLen := by rw [f2.cfg, f1.cfg]; exact hl
  have g4 : Good s4 := by rw [← hs4]; exact serve_good g2 hl2
  have f4 : Frame s2 s4 := by rw [← hs4]; exact serve_frame
  have hl4 : limit ≤ s4.cfg.cacheLen := by rw [f4.cfg]; exact hl2
  have g6 : Good s6 := by rw [← hs6]; exact serve_good g4 hl4
  have f6 : Frame s4 s6 := by rw [← hs6]; exact serve_frame
  have hpb : (s2.pools .body).pend = [] := by
    rw [← hs2]
    show (((expire s1 .rcpt (allPeers s1 .rcpt)).1).pools .body).pend = []
    have : ((expire s1 .rcpt (allPeers s1 .rcpt)).1).pools .body = s1.pools .body := by
      simp only [expire]; exact setPools_other _ _ _ _ (by decide)
    rw [this, ← hs1]
    exact expire_all_pend s .body
  have hpr2 : (s2.pools .rcpt).pend = [] := by rw [← hs2]; exact expire_all_pend s1 .rcpt
  have hpr4 : (s4.pools .rcpt).pend = [] := by
    rw [← hs4, show (serve .body p limit count s2).pools .rcpt = s2.pools .rcpt from serve_other .rcpt (by decide)]
    exact hpr2
  have hla2 : lget s2.lacking p = [] := by
    rw [← hs2, ← hs1]; exact hlack
  have hla4 : lget s4.lacking p = [] := by rw [← hs4]; exact serve_lacking hla2
  have hla6 : lget s6.lacking p = [] := by rw [← hs6]; exact serve_lacking hla4
  have hsched6 : s6.sched = s.sched := f6.sched.trans (f4.sched.trans (f2.sched.trans f1.sched))
  have hret6 : s6.ret = s.ret := f6.ret.trans (f4.ret.trans (f2.ret.trans f1.ret))
  have hoff6 : s6.offset = s.offset := f6.offset.trans (f4.offset.trans (f2.offset.trans f1.offset))
  have hcfg6 : s6.cfg = s.cfg := f6.cfg.trans (f4.cfg.trans (f2.cfg.trans f1.cfg))
  have hcfg2 : s2.cfg = s.cfg := f2.cfg.trans f1.cfg
  have g7 : Good (results s6).1 := good_step g6 .results trivial
  refine ⟨g7, (results_sched s6).trans hsched6, (results_cfg s6).trans hcfg6,
    by rw [results_lacking]; exact hla6, ?_, ?_⟩
  · rw [results_ret, hret6, List.length_append]; omega
  · intro hout
    rw [results_ret, hret6, List.length_append]
    -- the head block
    have hlt : s.ret.length < s.sched.length := hout
    let x0 := s.sched[s.ret.length]
    have hx0s : x0 ∈ s.sched := List.getElem_mem hlt
    have hx0n : x0.num = s.offset := by
      have := hg.inv.schedNum s.ret.length x0 (List.getElem?_eq_getElem hlt)
      rw [hg.inv.offsetEq]; exact this
    -- body component complete after serving bodies, stays complete
    have hb4 : x0 ∈ (s4.pools .body).done := by
      rw [← hs4]
      exact serve_head_done g2 (Or.inl rfl) hpb x0 (by rw [f2.sched, f1.sched]; exact hx0s)
        (by rw [f2.offset, f1.offset]; exact hx0n) (by rw [hcfg2]; exact hc) hl0 hl2 hcnt hla2
    have hb6 : x0 ∈ (s6.pools .body).done := by
      rw [← hs6, show (serve .rcpt p limit count s4).pools .body = s4.pools .body from serve_other .body (by decide)]
      exact hb4
    have hr6 : s6.cfg.fast = true → x0 ∈ (s6.pools .rcpt).done := by
      intro hf
      have hf4 : s4.cfg.fast = true := by rw [← f6.cfg]; exact hf
      rw [← hs6]
      exact serve_head_done g4 (Or.inr hf4) hpr4 x0 (by rw [f4.sched, f2.sched, f1.sched]; exact hx0s)
        (by rw [f4.offset, f2.offset, f1.offset]; exact hx0n) (by rw [f4.cfg, hcfg2]; exact hc) hl0 hl4 hcnt hla4
    -- its slot is complete
    obtain ⟨r, hr⟩ := g6.inv.doneCached .body x0 hb6
    have hrh : r.header = x0 := g6.inv.entry_header (by rw [hsched6]; exact hx0s) hr
    have hpend : r.pending ≤ 0 := by
      rw [(g6.inv.cacheOK _ _ hr).pending, hrh]
      simp only [pendingSpec, hb6, if_true]
      cases hf : s6.cfg.fast with
      | true => simp [hr6 hf]
      | false => simp
    have hne : (results s6).2 ≠ [] := by
      have hr' : cget s6.cache s6.offset = some r := by rw [hoff6, ← hx0n]; exact hr
      have hc6 : 0 < s6.cfg.cacheLen := by rw [hcfg6]; exact hc
      have hm6 : 0 < s6.cfg.maxProc := by rw [hcfg6]; exact hm
      simp only [results]
      obtain ⟨c, hc'⟩ : ∃ c, s6.cfg.cacheLen = c + 1 := ⟨s6.cfg.cacheLen - 1, by omega⟩
      have h1 : 1 ≤ countProc s6.cache s6.offset s6.cfg.cacheLen 0 := by
        rw [hc']
        simp only [countProc, Nat.add_zero, hr']
        have : ¬ r.pending > 0 := by omega
        simp only [this, if_false]; omega
      obtain ⟨n, hn⟩ : ∃ n, min (countProc s6.cache s6.offset s6.cfg.cacheLen 0) s6.cfg.maxProc = n + 1 :=
        ⟨min (countProc s6.cache s6.offset s6.cfg.cacheLen 0) s6.cfg.maxProc - 1, by omega⟩
      rw [hn]
      simp [takeResults, hr']
    have : 0 < (results s6).2.length := List.length_pos_iff.mpr hne
    omega

end YouVerif.C18

namespace YouVerif.C18

theorem rounds_progress (p limit count : Nat) :
    ∀ (n : Nat) (s : State), Good s → 0 < s.cfg.cacheLen → 0 < s.cfg.maxProc → 0 < limit → limit ≤ s.cfg.cacheLen →
      0 < count → lget s.lacking p = [] →
      Good (honestRounds p limit count n s) ∧ (honestRounds p limit count n s).sched = s.sched ∧
      min s.sched.length (s.ret.length + n) ≤ (honestRounds p limit count n s).ret.length := by
  intro n
  induction n with
  | zero => intro s hg _ _ _ _ _ _; exact ⟨hg, rfl, by simp [honestRounds]; omega⟩
  | succ n ih =>
    intro s hg hc hm hl0 hl hcnt hlack
    obtain ⟨g', hs', hcfg', hla', hle, hstep⟩ := round_progress hg p limit count hc hm hl0 hl hcnt hlack
    obtain ⟨g'', hs'', hret''⟩ := ih (honestRound p limit count s) g' (by rw [hcfg']; exact hc) (by rw [hcfg']; exact hm)
      hl0 (by rw [hcfg']; exact hl) hcnt hla'
    refine ⟨g'', hs''.trans hs', ?_⟩
    show min s.sched.length (s.ret.length + (n + 1)) ≤ (honestRounds p limit count n (honestRound p limit count s)).ret.length
    rw [hs'] at hret''
    by_cases hout : s.ret.length < s.sched.length
    · have := hstep hout; omega
    · omega

end YouVerif.C18
