/-
C18 — reserveHeaders and deliver preserve the extended invariant and never answer errInvalidChain
(under the call discipline): the throttle keeps every popped header inside the result window.
-/
import YouVerif.C18.ProofsWindow
namespace YouVerif.C18

theorem isSome_cget_allocSlot (cfg : Cfg) (c : Cache) (h : Header) (n : Nat) :
    (cget (allocSlot cfg c h) n).isSome = true ↔ (n = h.num ∨ (cget c n).isSome = true) := by
  simp only [allocSlot]
  cases hg : cget c h.num with
  | none =>
    simp only [cget_cset]
    by_cases hn : n = h.num
    · simp [hn]
    · simp [hn]
  | some r =>
    constructor
    · exact Or.inr
    · rintro (rfl | h')
      · rw [hg]; rfl
      · exact h'

theorem mem_pendAll_mid {x : Header} {send skip : List Header} {pend : List (Nat × List Header)} :
    x ∈ pendAll ((0, send) :: (0, skip) :: pend) ↔ x ∈ send ∨ x ∈ skip ∨ x ∈ pendAll pend := by
  simp [pendAll, or_assoc]

section steps
variable {s : State} {k : Kind} {h : Header} {q : List Header} {a : RAcc}

theorem ext_mid_step (hact : k = .body ∨ s.cfg.fast = true)
    (hi : Inv (midR s k (h :: q) a)) (he : Ext (midR s k (h :: q) a)) (hf : FullU (midR s k (h :: q) a))
    (a' : RAcc)
    (hkeys : ∀ n, (cget a'.cache n).isSome = true ↔ (n = h.num ∨ (cget a.cache n).isSome = true))
    (hph : ∀ x, x ∈ a'.send ∨ x ∈ a'.skip → x = h ∨ x ∈ a.send ∨ x ∈ a.skip) :
    Ext (midR s k q a') := by
  have hsorted : Sorted (h :: q) := by have := he.sorted k; rw [midR_same] at this; exact this
  obtain ⟨hhs, hlo⟩ := mid_head_facts hi
  refine ⟨?_, ?_, ?_⟩
  · intro k' x hx
    show (cget a'.cache x.num).isSome = true
    by_cases hk : k' = k
    · subst hk
      rw [midR_same] at hx
      rcases mem_pendAll_mid.mp hx with h1 | h1 | h1
      · rcases hph x (Or.inl h1) with rfl | h2 | h2
        · exact (hkeys _).mpr (Or.inl rfl)
        · exact (hkeys _).mpr (Or.inr (he.pendCached k' x (by rw [midR_same]; exact mem_pendAll_mid.mpr (Or.inl h2))))
        · exact (hkeys _).mpr (Or.inr (he.pendCached k' x (by rw [midR_same]; exact mem_pendAll_mid.mpr (Or.inr (Or.inl h2)))))
      · rcases hph x (Or.inr h1) with rfl | h2 | h2
        · exact (hkeys _).mpr (Or.inl rfl)
        · exact (hkeys _).mpr (Or.inr (he.pendCached k' x (by rw [midR_same]; exact mem_pendAll_mid.mpr (Or.inl h2))))
        · exact (hkeys _).mpr (Or.inr (he.pendCached k' x (by rw [midR_same]; exact mem_pendAll_mid.mpr (Or.inr (Or.inl h2)))))
      · exact (hkeys _).mpr (Or.inr (he.pendCached k' x (by rw [midR_same]; exact mem_pendAll_mid.mpr (Or.inr (Or.inr h1)))))
    · rw [midR_other _ _ _ _ _ hk] at hx
      exact (hkeys _).mpr (Or.inr (he.pendCached k' x (by rw [midR_other _ _ _ _ _ hk]; exact hx)))
  · intro k'
    by_cases hk : k' = k
    · subst hk; rw [midR_same]
      simp only [Sorted, List.pairwise_cons] at hsorted; exact hsorted.2
    · rw [midR_other _ _ _ _ _ hk]; have := he.sorted k'; rw [midR_other _ _ _ _ _ hk] at this; exact this
  · intro n hn hs
    have hn' : s.offset ≤ n := hn
    have hs' : (cget a'.cache (n + 1)).isSome = true := hs
    show (cget a'.cache n).isSome = true
    rcases (hkeys _).mp hs' with h1 | h1
    · -- the slot just allocated: its predecessor is in flight or done, hence has a slot
      obtain ⟨i, hi'⟩ := List.mem_iff_getElem?.mp hhs
      have hnum := hi.schedNum i h hi'
      have horg : (midR s k (h :: q) a).origin = s.origin := rfl
      have hoff := hi.offsetEq
      have hoff' : s.offset = s.origin + (midR s k (h :: q) a).ret.length := hoff
      have hipos : 1 ≤ i := by rw [horg] at hnum; omega
      have hlt : i - 1 < s.sched.length := by
        have : i < s.sched.length := by
          rcases Nat.lt_or_ge i s.sched.length with hh | hh
          · exact hh
          · have : s.sched[i]? = none := List.getElem?_eq_none hh
            rw [this] at hi'; cases hi'
        omega
      have hx : (midR s k (h :: q) a).sched[i - 1]? = some s.sched[i - 1] := List.getElem?_eq_getElem hlt
      have hxnum := hi.schedNum (i - 1) _ hx
      have hxn : (s.sched[i - 1]).num = n := by rw [horg] at hxnum hnum; omega
      have hxs : s.sched[i - 1] ∈ s.sched := List.getElem_mem hlt
      have hocc := hf k hact _ hxs (by show s.offset ≤ _; omega)
      rw [midR_same] at hocc
      rcases (occ_pos_iff _ _).mp hocc with h2 | h2 | h2
      · exfalso
        have h2' : s.sched[i - 1] ∈ h :: q := h2
        rcases List.mem_cons.mp h2' with h3 | h3
        · rw [h3] at hxn; omega
        · simp only [Sorted, List.pairwise_cons] at hsorted
          have := hsorted.1 _ h3; omega
      · have := he.pendCached k _ (by rw [midR_same]; exact h2)
        rw [hxn] at this
        exact (hkeys _).mpr (Or.inr this)
      · obtain ⟨r, hr⟩ := hi.doneCached k _ (by rw [midR_same]; exact h2)
        rw [hxn] at hr
        exact (hkeys _).mpr (Or.inr (by show (cget a.cache n).isSome = true; rw [show a.cache = (midR s k (h :: q) a).cache from rfl, hr]; rfl))
    · exact (hkeys _).mpr (Or.inr (he.pref n hn' h1))

theorem fullU_mid_step (hf : FullU (midR s k (h :: q) a)) (a' : RAcc)
    (hmem : ∀ x, (x ∈ h :: q ∨ x ∈ a.send ∨ x ∈ a.skip ∨ x ∈ a.done) →
                 (x ∈ q ∨ x ∈ a'.send ∨ x ∈ a'.skip ∨ x ∈ a'.done)) :
    FullU (midR s k q a') := by
  intro k' hact x hx hlo
  have h0 := hf k' hact x hx hlo
  by_cases hk : k' = k
  · subst hk
    rw [midR_same, occ_pos_iff] at h0 ⊢
    have hm : x ∈ h :: q ∨ x ∈ a.send ∨ x ∈ a.skip ∨ x ∈ a.done ∨ x ∈ pendAll (s.pools k').pend := by
      rcases h0 with h1 | h1 | h1
      · exact Or.inl h1
      · rcases mem_pendAll_mid.mp h1 with h2 | h2 | h2
        · exact Or.inr (Or.inl h2)
        · exact Or.inr (Or.inr (Or.inl h2))
        · exact Or.inr (Or.inr (Or.inr (Or.inr h2)))
      · exact Or.inr (Or.inr (Or.inr (Or.inl h1)))
    have hm' : x ∈ q ∨ x ∈ a'.send ∨ x ∈ a'.skip ∨ x ∈ a'.done ∨ x ∈ pendAll (s.pools k').pend := by
      rcases hm with h1 | h1 | h1 | h1 | h1
      · rcases hmem x (Or.inl h1) with h2 | h2 | h2 | h2
        · exact Or.inl h2
        · exact Or.inr (Or.inl h2)
        · exact Or.inr (Or.inr (Or.inl h2))
        · exact Or.inr (Or.inr (Or.inr (Or.inl h2)))
      · rcases hmem x (Or.inr (Or.inl h1)) with h2 | h2 | h2 | h2
        · exact Or.inl h2
        · exact Or.inr (Or.inl h2)
        · exact Or.inr (Or.inr (Or.inl h2))
        · exact Or.inr (Or.inr (Or.inr (Or.inl h2)))
      · rcases hmem x (Or.inr (Or.inr (Or.inl h1))) with h2 | h2 | h2 | h2
        · exact Or.inl h2
        · exact Or.inr (Or.inl h2)
        · exact Or.inr (Or.inr (Or.inl h2))
        · exact Or.inr (Or.inr (Or.inr (Or.inl h2)))
      · rcases hmem x (Or.inr (Or.inr (Or.inr h1))) with h2 | h2 | h2 | h2
        · exact Or.inl h2
        · exact Or.inr (Or.inl h2)
        · exact Or.inr (Or.inr (Or.inl h2))
        · exact Or.inr (Or.inr (Or.inr (Or.inl h2)))
      · exact Or.inr (Or.inr (Or.inr (Or.inr h1)))
    rcases hm' with h1 | h1 | h1 | h1 | h1
    · exact Or.inl h1
    · exact Or.inr (Or.inl (mem_pendAll_mid.mpr (Or.inl h1)))
    · exact Or.inr (Or.inl (mem_pendAll_mid.mpr (Or.inr (Or.inl h1))))
    · exact Or.inr (Or.inr h1)
    · exact Or.inr (Or.inl (mem_pendAll_mid.mpr (Or.inr (Or.inr h1))))
  · rw [midR_other _ _ _ _ _ hk] at h0 ⊢; exact h0

end steps

/-- the whole pop loop: invariants carried through, and no errInvalidChain, provided the free-slot budget is
covered by queued tasks inside the window plus slack -/
theorem reserveLoop_good (s : State) (k : Kind) (count : Nat) (lack : List Header) (limit slack : Nat)
    (hact : k = .body ∨ s.cfg.fast = true) (hl : limit ≤ s.cfg.cacheLen)
    (hslack : 1 ≤ slack → ∀ x ∈ s.sched, x.num < s.offset + limit) :
    ∀ (q : List Header) (a : RAcc),
      Inv (midR s k q a) → Ext (midR s k q a) → FullU (midR s k q a) → a.err = false →
      a.space - a.proc ≤ (q.countP (inWin (s.offset + limit)) : Int) + (slack : Int) →
      Inv (midR s k (reserveLoop s.cfg k s.offset count lack q a).1 (reserveLoop s.cfg k s.offset count lack q a).2) ∧
      Ext (midR s k (reserveLoop s.cfg k s.offset count lack q a).1 (reserveLoop s.cfg k s.offset count lack q a).2) ∧
      FullU (midR s k (reserveLoop s.cfg k s.offset count lack q a).1 (reserveLoop s.cfg k s.offset count lack q a).2) ∧
      (reserveLoop s.cfg k s.offset count lack q a).2.err = false := by
  intro q
  induction q with
  | nil => intro a hi he hf herr _; exact ⟨hi, he, hf, herr⟩
  | cons h q ih =>
    intro a hi he hf herr hbud
    rw [reserveLoop_cons]
    split
    · rename_i hcond
      obtain ⟨hhs, hlo⟩ := mid_head_facts hi
      have hsorted : Sorted (h :: q) := by have := he.sorted k; rw [midR_same] at this; exact this
      -- the popped header is inside the window
      have hin : h.num < s.offset + limit := by
        by_cases hs : 1 ≤ slack
        · exact hslack hs h hhs
        · have hpos : 0 < (h :: q).countP (inWin (s.offset + limit)) := by
            have := hcond.1; omega
          obtain ⟨x, hx, hp⟩ := List.countP_pos_iff.mp hpos
          have hp' : x.num < s.offset + limit := by simpa [inWin] using hp
          rcases List.mem_cons.mp hx with rfl | hx
          · exact hp'
          · simp only [Sorted, List.pairwise_cons] at hsorted
            have := hsorted.1 x hx; omega
      have hhi : h.num < s.offset + s.cfg.cacheLen := by omega
      have hwin : ¬ (h.num < s.offset ∨ s.offset + s.cfg.cacheLen ≤ h.num) := by omega
      have hcnt : (h :: q).countP (inWin (s.offset + limit)) = q.countP (inWin (s.offset + limit)) + 1 := by
        rw [List.countP_cons]; simp [inWin, hin]
      simp only [hwin, if_false]
      split
      · rename_i hnoop
        refine ih _ (inv_mid_noop hact hi hhi hnoop) ?_ ?_ ?_ ?_
        · refine ext_mid_step hact hi he hf _ ?_ ?_
          · intro n
            show (cget (YouVerif.C18.complete (allocSlot s.cfg a.cache h) k h none) n).isSome = true ↔ _
            rw [isSome_cget_complete, isSome_cget_allocSlot]
          · intro x hx; exact Or.inr hx
        · refine fullU_mid_step hf _ ?_
          intro x hx
          rcases hx with h1 | h1 | h1 | h1
          · rcases List.mem_cons.mp h1 with rfl | h1
            · exact Or.inr (Or.inr (Or.inr (mem_insertSet.mpr (Or.inl rfl))))
            · exact Or.inl h1
          · exact Or.inr (Or.inl h1)
          · exact Or.inr (Or.inr (Or.inl h1))
          · exact Or.inr (Or.inr (Or.inr (mem_insertSet.mpr (Or.inr h1))))
        · exact herr
        · show a.space - 1 - a.proc ≤ _
          rw [hcnt] at hbud; omega
      · split
        · refine ih _ (inv_mid_skip hact hi hhi) ?_ ?_ ?_ ?_
          · refine ext_mid_step hact hi he hf _ ?_ ?_
            · intro n
              show (cget (allocSlot s.cfg a.cache h) n).isSome = true ↔ _
              rw [isSome_cget_allocSlot]
            · intro x hx
              rcases hx with h1 | h1
              · exact Or.inr (Or.inl h1)
              · have h1' : x ∈ a.skip ++ [h] := h1
                rcases List.mem_append.mp h1' with h2 | h2
                · exact Or.inr (Or.inr h2)
                · exact Or.inl (by simpa using h2)
          · refine fullU_mid_step hf _ ?_
            intro x hx
            rcases hx with h1 | h1 | h1 | h1
            · rcases List.mem_cons.mp h1 with rfl | h1
              · exact Or.inr (Or.inr (Or.inl (by show x ∈ a.skip ++ [x]; simp)))
              · exact Or.inl h1
            · exact Or.inr (Or.inl h1)
            · exact Or.inr (Or.inr (Or.inl (by show x ∈ a.skip ++ [h]; simp [h1])))
            · exact Or.inr (Or.inr (Or.inr h1))
          · exact herr
          · show a.space - (a.proc + 1) ≤ _
            rw [hcnt] at hbud; omega
        · refine ih _ (inv_mid_send hact hi hhi) ?_ ?_ ?_ ?_
          · refine ext_mid_step hact hi he hf _ ?_ ?_
            · intro n
              show (cget (allocSlot s.cfg a.cache h) n).isSome = true ↔ _
              rw [isSome_cget_allocSlot]
            · intro x hx
              rcases hx with h1 | h1
              · have h1' : x ∈ a.send ++ [h] := h1
                rcases List.mem_append.mp h1' with h2 | h2
                · exact Or.inr (Or.inl h2)
                · exact Or.inl (by simpa using h2)
              · exact Or.inr (Or.inr h1)
          · refine fullU_mid_step hf _ ?_
            intro x hx
            rcases hx with h1 | h1 | h1 | h1
            · rcases List.mem_cons.mp h1 with rfl | h1
              · exact Or.inr (Or.inl (by show x ∈ a.send ++ [x]; simp))
              · exact Or.inl h1
            · exact Or.inr (Or.inl (by show x ∈ a.send ++ [h]; simp [h1]))
            · exact Or.inr (Or.inr (Or.inl h1))
            · exact Or.inr (Or.inr (Or.inr h1))
          · exact herr
          · show a.space - (a.proc + 1) ≤ _
            rw [hcnt] at hbud; omega
    · exact ⟨hi, he, hf, herr⟩

end YouVerif.C18

namespace YouVerif.C18

theorem mid0_inv {s : State} (hi : Inv s) (k : Kind) (hact : k = .body ∨ s.cfg.fast = true) (space : Int) :
    Inv (midR s k (s.pools k).queue (RAcc.start space s.cache (s.pools k).pool (s.pools k).done)) := by
  refine hi.repoolK k hact rfl rfl rfl rfl rfl rfl (fun k' hk => midR_other _ _ _ _ _ hk) ?_ ?_ ?_
  · intro x; rw [midR_same, occ_mid]; simp [occ, RAcc.start]
  · rw [midR_same]; rfl
  · intro x hx; rw [midR_same] at hx; exact hx

theorem mid0_ext {s : State} (he : Ext s) (k : Kind) (space : Int) :
    Ext (midR s k (s.pools k).queue (RAcc.start space s.cache (s.pools k).pool (s.pools k).done)) := by
  refine ⟨?_, ?_, he.pref⟩
  · intro k' x hx
    by_cases hk : k' = k
    · subst hk; rw [midR_same] at hx
      rcases mem_pendAll_mid.mp hx with h | h | h
      · simp [RAcc.start] at h
      · simp [RAcc.start] at h
      · exact he.pendCached k' x h
    · rw [midR_other _ _ _ _ _ hk] at hx; exact he.pendCached k' x hx
  · intro k'
    by_cases hk : k' = k
    · subst hk; rw [midR_same]; exact he.sorted k'
    · rw [midR_other _ _ _ _ _ hk]; exact he.sorted k'

theorem mid0_fullU {s : State} (hf : FullU s) (k : Kind) (space : Int) :
    FullU (midR s k (s.pools k).queue (RAcc.start space s.cache (s.pools k).pool (s.pools k).done)) := by
  intro k' hact x hx hlo
  have h0 := hf k' hact x hx hlo
  by_cases hk : k' = k
  · subst hk
    rw [midR_same, occ_mid]
    simp only [occ, RAcc.start, List.count_nil] at h0 ⊢; omega
  · rw [midR_other _ _ _ _ _ hk]; exact h0

/-- reserveHeaders keeps the extended invariant and does not answer errInvalidChain -/
theorem reserve_ext {s : State} (hi : Inv s) (hf : FullU s) (he : Ext s) (hfail : s.failed = false)
    (k : Kind) (limit peer count : Nat) (hl : limit ≤ s.cfg.cacheLen) :
    Ext (reserve s k limit peer count).1 ∧ (reserve s k limit peer count).1.failed = false := by
  simp only [reserve]
  split
  · exact ⟨he, hfail⟩
  · rename_i hq
    split
    · exact ⟨he, hfail⟩
    · have hact := active_of_queue hi k (by simpa using hq)
      have hbud := slots_le hi he hf k hact limit
      obtain ⟨_, he', _, herr⟩ := reserveLoop_good s k count (lget s.lacking peer) limit
        (limit - min limit (s.sched.length - s.ret.length)) hact hl (slack_all_in hi limit)
        (s.pools k).queue (RAcc.start (resultSlots s k limit) s.cache (s.pools k).pool (s.pools k).done)
        (mid0_inv hi k hact _) (mid0_ext he k _) (mid0_fullU hf k _) rfl
        (by show resultSlots s k limit - 0 ≤ _; omega)
      generalize hres : reserveLoop s.cfg k s.offset count (lget s.lacking peer) (s.pools k).queue
          (RAcc.start (resultSlots s k limit) s.cache (s.pools k).pool (s.pools k).done) = res at he' herr
      obtain ⟨q, a⟩ := res
      dsimp only at he' herr ⊢
      have hsq : Sorted q := by have := he'.sorted k; rw [midR_same] at this; exact this
      have hpc : ∀ x, x ∈ a.send ∨ x ∈ pendAll (s.pools k).pend → (cget a.cache x.num).isSome = true := by
        intro x hx
        refine he'.pendCached k x ?_
        rw [midR_same]
        rcases hx with h | h
        · exact mem_pendAll_mid.mpr (Or.inl h)
        · exact mem_pendAll_mid.mpr (Or.inr (Or.inr h))
      simp only [herr, Bool.false_eq_true, if_false]
      split
      · refine ⟨⟨?_, ?_, he'.pref⟩, hfail⟩
        · intro k' x hx
          by_cases hk : k' = k
          · subst hk; rw [setPools_same] at hx; exact hpc x (Or.inr hx)
          · rw [setPools_other _ _ _ _ hk] at hx
            exact he'.pendCached k' x (by rw [midR_other _ _ _ _ _ hk]; exact hx)
        · intro k'
          by_cases hk : k' = k
          · subst hk; rw [setPools_same]; exact sorted_pushAll hsq
          · rw [setPools_other _ _ _ _ hk]; have := he'.sorted k'; rw [midR_other _ _ _ _ _ hk] at this; exact this
      · refine ⟨⟨?_, ?_, he'.pref⟩, hfail⟩
        · intro k' x hx
          by_cases hk : k' = k
          · subst hk; rw [setPools_same] at hx
            have hx' : x ∈ a.send ++ pendAll (s.pools k').pend := hx
            rcases List.mem_append.mp hx' with h | h
            · exact hpc x (Or.inl h)
            · exact hpc x (Or.inr h)
          · rw [setPools_other _ _ _ _ hk] at hx
            exact he'.pendCached k' x (by rw [midR_other _ _ _ _ _ hk]; exact hx)
        · intro k'
          by_cases hk : k' = k
          · subst hk; rw [setPools_same]; exact sorted_pushAll hsq
          · rw [setPools_other _ _ _ _ hk]; have := he'.sorted k'; rw [midR_other _ _ _ _ _ hk] at this; exact this

end YouVerif.C18

namespace YouVerif.C18

/-- with slotted headers the assembly loop never answers errInvalidChain and keeps the set of allocated slots -/
theorem deliverLoop_slotted (cfg : Cfg) (k : Kind) (offset : Nat) :
    ∀ (hs : List Header) (bs : List Nat) (a : DAcc), Slotted cfg offset a.cache hs →
      (deliverLoop cfg k offset hs bs a).2.2 ≠ Fail.invalidChain ∧
      (∀ n, (cget (deliverLoop cfg k offset hs bs a).2.1.cache n).isSome = (cget a.cache n).isSome) ∧
      (∀ x, x ∈ (deliverLoop cfg k offset hs bs a).1 → x ∈ hs) := by
  intro hs
  induction hs with
  | nil => intro bs a _; simp [deliverLoop]
  | cons h hs ih =>
    intro bs a hsl
    cases bs with
    | nil => simp [deliverLoop]
    | cons b bs =>
      obtain ⟨h1, h2, h3⟩ := hsl h (by simp)
      have hw : ¬ (h.num < offset ∨ offset + cfg.cacheLen ≤ h.num) := by omega
      have hn : ¬ (cget a.cache h.num).isNone = true := by
        cases hc : cget a.cache h.num with
        | none => rw [hc] at h3; cases h3
        | some r => simp
      simp only [deliverLoop, hw, if_false, hn, Bool.false_eq_true]
      split
      · exact ⟨by simp, fun _ => rfl, fun x hx => hx⟩
      · have hsl' : Slotted cfg offset (YouVerif.C18.complete a.cache k h (some b)) hs := by
          intro x hx
          obtain ⟨x1, x2, x3⟩ := hsl x (by simp [hx])
          exact ⟨x1, x2, by rw [isSome_cget_complete]; exact x3⟩
        obtain ⟨r1, r2, r3⟩ := ih bs (⟨YouVerif.C18.complete a.cache k h (some b), removeAll h a.pool, insertSet h a.done, a.accepted + 1⟩ : DAcc) hsl'
        refine ⟨r1, ?_, fun x hx => List.mem_cons_of_mem _ (r3 x hx)⟩
        intro n; rw [r2 n]; exact isSome_cget_complete a.cache k h (some b) n

theorem mem_pendAll_of_pget {pend : List (Nat × List Header)} {p : Nat} {hs : List Header} {x : Header}
    (hg : pget pend p = some hs) (hx : x ∈ hs) : x ∈ pendAll pend :=
  (mem_pendAll_perase hg).mpr (Or.inl hx)

theorem slotted_of_pending {s : State} (hi : Inv s) (he : Ext s) (k : Kind) (peer : Nat) (hs : List Header)
    (hg : pget (s.pools k).pend peer = some hs) : Slotted s.cfg s.offset s.cache hs := by
  intro h hh
  have hm := mem_pendAll_of_pget hg hh
  have hocc : 0 < occ (s.pools k) h := (occ_pos_iff _ _).mpr (Or.inr (Or.inl hm))
  have hc := he.pendCached k h hm
  cases hr : cget s.cache h.num with
  | none => rw [hr] at hc; cases hc
  | some r =>
    have e := hi.cacheOK _ _ hr
    exact ⟨(hi.occSched k h hocc).2, e.hi, by rfl⟩

/-- deliver keeps the extended invariant and does not answer errInvalidChain -/
theorem deliver_ext {s : State} (hi : Inv s) (he : Ext s) (hfail : s.failed = false)
    (k : Kind) (peer : Nat) (bodies : List Nat) :
    Ext (deliver s k peer bodies).1 ∧ (deliver s k peer bodies).1.failed = false := by
  simp only [deliver]
  split
  · exact ⟨he, hfail⟩
  · rename_i hs hg
    obtain ⟨r1, r2, r3⟩ := deliverLoop_slotted s.cfg k s.offset hs bodies
      (DAcc.start s.cache (s.pools k).pool (s.pools k).done) (slotted_of_pending hi he k peer hs hg)
    generalize deliverLoop s.cfg k s.offset hs bodies (DAcc.start s.cache (s.pools k).pool (s.pools k).done) = res
      at r1 r2 r3
    obtain ⟨rest, a, f⟩ := res
    dsimp only at r1 r2 r3 ⊢
    have hkeys : ∀ n, (cget a.cache n).isSome = (cget s.cache n).isSome := r2
    refine ⟨⟨?_, ?_, ?_⟩, ?_⟩
    · intro k' x hx
      show (cget a.cache x.num).isSome = true
      rw [hkeys]
      by_cases hk : k' = k
      · subst hk; rw [setPools_same] at hx
        exact he.pendCached k' x (mem_pendAll_perase_sub hx)
      · rw [setPools_other _ _ _ _ hk] at hx; exact he.pendCached k' x hx
    · intro k'
      by_cases hk : k' = k
      · subst hk; rw [setPools_same]; exact sorted_pushAll (he.sorted k')
      · rw [setPools_other _ _ _ _ hk]; exact he.sorted k'
    · intro n hn hsome
      show (cget a.cache n).isSome = true
      have hsome' : (cget a.cache (n + 1)).isSome = true := hsome
      rw [hkeys] at hsome' ⊢
      exact he.pref n hn hsome'
    · show (s.failed || (f == Fail.invalidChain)) = false
      rw [hfail]
      cases f <;> simp_all

theorem reserve_err_failed (s : State) (k : Kind) (l p c : Nat) :
    (reserve s k l p c).2.err = Err.invalidchain → (reserve s k l p c).1.failed = true := by
  simp only [reserve]
  split
  · intro h; cases h
  · split
    · intro h; cases h
    · split
      · intro _; rfl
      · split <;> (intro h; cases h)

/-! ### the strengthened invariant of disciplined runs -/

structure Good (s : State) : Prop where
  inv : Inv s
  full : Full s
  ext : Ext s
  ok : s.failed = false

theorem good_init (c m : Nat) (f : Bool) (o : Nat) : Good (init c m f o) :=
  ⟨inv_init _ _ _ _, full_init _ _ _ _, ext_init _ _ _ _, rfl⟩

theorem good_step {s : State} (hg : Good s) (op : Op) (hd : Disciplined s op) : Good (step s op) := by
  refine ⟨inv_step hg.inv op hd, full_step hg.inv hg.full op, ?_, ?_⟩
  · cases op with
    | schedule hs f => exact ext_scheduleLoop hg.ext hs f
    | reserve k l p c => exact (reserve_ext hg.inv (fullU_of_full hg.full hg.ok) hg.ext hg.ok k l p c hd).1
    | deliver k p bs => exact (deliver_ext hg.inv hg.ext hg.ok k p bs).1
    | cancel k p => exact hg.ext.calm rfl rfl (calm_setPools s k _ (calm_cancelPools _ p))
    | expire k ps => exact hg.ext.calm rfl rfl (calm_setPools s k _ (calm_expireLoop ps _ []))
    | revoke p => exact hg.ext.calm rfl rfl (fun k => calm_cancelPools _ p)
    | results => exact ext_results hg.inv hg.ext
  · cases op with
    | schedule hs f => exact (scheduleLoop_frame hs f s).2.2.2.2.trans hg.ok
    | reserve k l p c => exact (reserve_ext hg.inv (fullU_of_full hg.full hg.ok) hg.ext hg.ok k l p c hd).2
    | deliver k p bs => exact (deliver_ext hg.inv hg.ext hg.ok k p bs).2
    | cancel k p => exact hg.ok
    | expire k ps => exact hg.ok
    | revoke p => exact hg.ok
    | results => exact hg.ok

theorem good_run {s : State} (hg : Good s) (ops : List Op) (hd : DisciplinedRun s ops) : Good (run s ops) := by
  induction ops generalizing s with
  | nil => exact hg
  | cons op ops ih => exact ih (good_step hg op hd.1) hd.2

end YouVerif.C18
