/-
C18 — property theorems: block download delivers every block once, in order, with a matching body.

All statements are about `run (init …) ops` for EVERY operation list `ops` that respects the call
discipline of the downloader (`DisciplinedRun`: Schedule is called with `from` = offset + number of
headers accepted so far; the window length passed to a reservation is at most the cache length).
`batches` is the list of batches `Results` returned along the run.
-/
import YouVerif.C18.ProofsRun
namespace YouVerif.C18

/-- Results never hands out more than `maxResultsProcess` items. -/
theorem results_batch_bounded (s : State) : (results s).2.length ≤ s.cfg.maxProc := by
  have h : ∀ (c : Cache) (o n : Nat), (takeResults c o n).length ≤ n := by
    intro c o n
    induction n generalizing o with
    | zero => simp [takeResults]
    | succ n ih =>
      simp only [takeResults]
      split
      · simp
      · simp only [List.length_cons]; have := ih (o + 1); omega
  simp only [results]
  exact Nat.le_trans (h _ _ _) (Nat.min_le_right _ _)

/-- **In order, once, gap-free, from the origin.**  The concatenation of all batches ever returned is a prefix
of the scheduled header chain, and the i-th scheduled header has number `offset + i`: so block numbers handed
to the importer are `offset, offset+1, …` without gap or repetition. -/
theorem results_in_order_once (cacheLen maxProc : Nat) (fast : Bool) (offset : Nat) (ops : List Op)
    (hd : DisciplinedRun (init cacheLen maxProc fast offset) ops) :
    let s := run (init cacheLen maxProc fast offset) ops
    let out := (batches (init cacheLen maxProc fast offset) ops).flatten
    out.map (·.header) = s.sched.take out.length ∧
    (∀ i h, s.sched[i]? = some h → h.num = offset + i) ∧
    (∀ i r, out[i]? = some r → r.header.num = offset + i) := by
  intro s out
  have hi : Inv s := inv_run (inv_init _ _ _ _) ops hd
  have hret : s.ret = out := by
    have := ret_run (init cacheLen maxProc fast offset) ops
    rw [show (init cacheLen maxProc fast offset).ret = [] from rfl, List.nil_append] at this
    exact this
  have horg : s.origin = offset := by
    have : ∀ (t : State) (l : List Op), (run t l).origin = t.origin := by
      intro t l
      induction l generalizing t with
      | nil => rfl
      | cons op l ih =>
        show (run (step t op) l).origin = t.origin
        rw [ih]
        cases op with
        | schedule hs f => exact (scheduleLoop_frame hs f t).2.1
        | reserve k l p c => exact (reserve_frame t k l p c).origin
        | deliver k p bs => exact (deliver_frame t k p bs).origin
        | cancel k p => rfl
        | expire k ps => rfl
        | revoke p => rfl
        | results => rfl
    exact this _ _
  have h1 : out.map (·.header) = s.sched.take out.length := by rw [← hret]; exact hi.retEq
  have h2 : ∀ i h, s.sched[i]? = some h → h.num = offset + i := by
    intro i h hh; rw [← horg]; exact hi.schedNum i h hh
  refine ⟨h1, h2, ?_⟩
  intro i r hr
  have : (out.map (·.header))[i]? = some r.header := by simp [hr]
  rw [h1, List.getElem?_take] at this
  split at this
  · exact h2 i _ this
  · cases this

/-- **Matching body.**  Every result ever returned carries a transaction list whose `DeriveSha` digest is the
header's transaction root (no list ⇔ empty root), and in fast/light mode a receipt list matching the receipt root. -/
theorem body_matches (cacheLen maxProc : Nat) (fast : Bool) (offset : Nat) (ops : List Op)
    (hd : DisciplinedRun (init cacheLen maxProc fast offset) ops) :
    ∀ r ∈ (batches (init cacheLen maxProc fast offset) ops).flatten,
      optRoot r.txs = r.header.txRoot ∧ (fast = true → optRoot r.rcs = r.header.rcRoot) := by
  intro r hr
  have hi : Inv (run (init cacheLen maxProc fast offset) ops) := inv_run (inv_init _ _ _ _) ops hd
  have hret : (run (init cacheLen maxProc fast offset) ops).ret = (batches (init cacheLen maxProc fast offset) ops).flatten := by
    have := ret_run (init cacheLen maxProc fast offset) ops
    rw [show (init cacheLen maxProc fast offset).ret = [] from rfl, List.nil_append] at this
    exact this
  have hcfg : (run (init cacheLen maxProc fast offset) ops).cfg.fast = fast := by
    have : ∀ (t : State) (l : List Op), (run t l).cfg = t.cfg := by
      intro t l
      induction l generalizing t with
      | nil => rfl
      | cons op l ih =>
        show (run (step t op) l).cfg = t.cfg
        rw [ih]
        cases op with
        | schedule hs f => exact (scheduleLoop_frame hs f t).1
        | reserve k l p c => exact (reserve_frame t k l p c).cfg
        | deliver k p bs => exact (deliver_frame t k p bs).cfg
        | cancel k p => rfl
        | expire k ps => rfl
        | revoke p => rfl
        | results => rfl
    rw [this]; rfl
  have := hi.retOK r (by rw [hret]; exact hr)
  rw [hcfg] at this
  exact this

end YouVerif.C18
