/-
C18 — property theorems: block download delivers every block once, in order, with a matching body.

All statements are about `run (init …) ops` for EVERY operation list `ops` that respects the call
discipline of the downloader (`DisciplinedRun`: Schedule is called with `from` = offset + number of
headers accepted so far; the window length passed to a reservation is at most the cache length).
`batches` is the list of batches `Results` returned along the run.
-/
import YouVerif.C18.ProofsLoop
import YouVerif.C18.ProofsFetcher
namespace YouVerif.C18

/-- Results never hands out more than `maxResultsProcess` items. -/
theorem results_batch_bounded (s : State) : (results s).2.length ≤ s.cfg.maxProc := by
  have h : ∀ (c : Cache) (o n : Nat), (takeResults c o n).length ≤ n := by
    intro c o n
    induction n generalizing o with
    | zero => simp [takeResults]
    | succ n ih =>
      simp only [takeResults]
      split
      · simp
      · simp only [List.length_cons]; have := ih (o + 1); omega
  simp only [results]
  exact Nat.le_trans (h _ _ _) (Nat.min_le_right _ _)

/-- **In order, once, gap-free, from the origin.**  The concatenation of all batches ever returned is a prefix
of the scheduled header chain, and the i-th scheduled header has number `offset + i`: so block numbers handed
to the importer are `offset, offset+1, …` without gap or repetition. -/
theorem results_in_order_once (cacheLen maxProc : Nat) (fast : Bool) (offset : Nat) (ops : List Op)
    (hd : DisciplinedRun (init cacheLen maxProc fast offset) ops) :
    let s := run (init cacheLen maxProc fast offset) ops
    let out := (batches (init cacheLen maxProc fast offset) ops).flatten
    out.map (·.header) = s.sched.take out.length ∧
    (∀ i h, s.sched[i]? = some h → h.num = offset + i) ∧
    (∀ i r, out[i]? = some r → r.header.num = offset + i) := by
  intro s out
  have hi : Inv s := inv_run (inv_init _ _ _ _) ops hd
  have hret : s.ret = out := by
    have := ret_run (init cacheLen maxProc fast offset) ops
    rw [show (init cacheLen maxProc fast offset).ret = [] from rfl, List.nil_append] at this
    exact this
  have horg : s.origin = offset := by
    have : ∀ (t : State) (l : List Op), (run t l).origin = t.origin := by
      intro t l
      induction l generalizing t with
      | nil => rfl
      | cons op l ih =>
        show (run (step t op) l).origin = t.origin
        rw [ih]
        cases op with
        | schedule hs f => exact (scheduleLoop_frame hs f t).2.1
        | reserve k l p c => exact (reserve_frame t k l p c).origin
        | deliver k p bs => exact (deliver_frame t k p bs).origin
        | cancel k p => rfl
        | expire k ps => rfl
        | revoke p => rfl
        | results => rfl
    exact this _ _
  have h1 : out.map (·.header) = s.sched.take out.length := by rw [← hret]; exact hi.retEq
  have h2 : ∀ i h, s.sched[i]? = some h → h.num = offset + i := by
    intro i h hh; rw [← horg]; exact hi.schedNum i h hh
  refine ⟨h1, h2, ?_⟩
  intro i r hr
  have : (out.map (·.header))[i]? = some r.header := by simp [hr]
  rw [h1, List.getElem?_take] at this
  split at this
  · exact h2 i _ this
  · cases this

/-- **Matching body.**  Every result ever returned carries a transaction list whose `DeriveSha` digest is the
header's transaction root (no list ⇔ empty root), and in fast/light mode a receipt list matching the receipt root. -/
theorem body_matches (cacheLen maxProc : Nat) (fast : Bool) (offset : Nat) (ops : List Op)
    (hd : DisciplinedRun (init cacheLen maxProc fast offset) ops) :
    ∀ r ∈ (batches (init cacheLen maxProc fast offset) ops).flatten,
      optRoot r.txs = r.header.txRoot ∧ (fast = true → optRoot r.rcs = r.header.rcRoot) := by
  intro r hr
  have hi : Inv (run (init cacheLen maxProc fast offset) ops) := inv_run (inv_init _ _ _ _) ops hd
  have hret : (run (init cacheLen maxProc fast offset) ops).ret = (batches (init cacheLen maxProc fast offset) ops).flatten := by
    have := ret_run (init cacheLen maxProc fast offset) ops
    rw [show (init cacheLen maxProc fast offset).ret = [] from rfl, List.nil_append] at this
    exact this
  have hcfg : (run (init cacheLen maxProc fast offset) ops).cfg.fast = fast := by
    have : ∀ (t : State) (l : List Op), (run t l).cfg = t.cfg := by
      intro t l
      induction l generalizing t with
      | nil => rfl
      | cons op l ih =>
        show (run (step t op) l).cfg = t.cfg
        rw [ih]
        cases op with
        | schedule hs f => exact (scheduleLoop_frame hs f t).1
        | reserve k l p c => exact (reserve_frame t k l p c).cfg
        | deliver k p bs => exact (deliver_frame t k p bs).cfg
        | cancel k p => rfl
        | expire k ps => rfl
        | revoke p => rfl
        | results => rfl
    rw [this]; rfl
  have := hi.retOK r (by rw [hret]; exact hr)
  rw [hcfg] at this
  exact this

/-- **No task lost, none duplicated.**  For each kind (bodies; receipts in fast/light mode) a header occurs at most
once across the task queue, all in-flight requests and the done pool, and only if it is scheduled and not yet
returned; and every scheduled, not yet returned header occurs exactly once: it is in exactly one of
task queue | the request of exactly one peer | done pool.  (Unconditional: by `never_invalid_chain` the only
operation outcome that drops tasks — errInvalidChain in reserveHeaders — cannot occur under the call discipline.) -/
theorem no_task_lost (cacheLen maxProc : Nat) (fast : Bool) (offset : Nat) (ops : List Op)
    (hd : DisciplinedRun (init cacheLen maxProc fast offset) ops) :
    let s := run (init cacheLen maxProc fast offset) ops
    let out := (batches (init cacheLen maxProc fast offset) ops).flatten
    (∀ k h, occ (s.pools k) h ≤ 1) ∧
    (∀ k h, 0 < occ (s.pools k) h → h ∈ s.sched.drop out.length) ∧
    (∀ k, (k = .body ∨ fast = true) → ∀ h ∈ s.sched.drop out.length, occ (s.pools k) h = 1) := by
  intro s out
  have hg : Good s := good_run (good_init _ _ _ _) ops hd
  have hi : Inv s := hg.inv
  have hf : Full s := hg.full
  have hfail : s.failed = false := hg.ok
  have hret : s.ret = out := by
    have := ret_run (init cacheLen maxProc fast offset) ops
    rw [show (init cacheLen maxProc fast offset).ret = [] from rfl, List.nil_append] at this
    exact this
  have hcfg : s.cfg.fast = fast := by
    have : ∀ (t : State) (l : List Op), (run t l).cfg = t.cfg := by
      intro t l
      induction l generalizing t with
      | nil => rfl
      | cons op l ih =>
        show (run (step t op) l).cfg = t.cfg
        rw [ih]
        cases op with
        | schedule hs f => exact (scheduleLoop_frame hs f t).1
        | reserve k l p c => exact (reserve_frame t k l p c).cfg
        | deliver k p bs => exact (deliver_frame t k p bs).cfg
        | cancel k p => rfl
        | expire k ps => rfl
        | revoke p => rfl
        | results => rfl
    show (run (init cacheLen maxProc fast offset) ops).cfg.fast = fast
    rw [this]; rfl
  refine ⟨hi.occLe, ?_, ?_⟩
  · intro k h hp
    rw [← hret]; exact (mem_drop_iff hi h).mpr (hi.occSched k h hp)
  · intro k hact h hm
    rw [← hret] at hm
    obtain ⟨hs, hlo⟩ := (mem_drop_iff hi h).mp hm
    have h1 := hf hfail k (by unfold Active; rw [hcfg]; exact hact) h hs hlo
    have h2 := hi.occLe k h
    omega

/-- **Hash linkage.**  The scheduled chain (of which, by `results_in_order_once`, everything handed to the importer is a
prefix) is hash-linked: each accepted header's parent hash is the hash of the header accepted before it
(`headerHead`; a zero hash means "unset" in the Go code, real Keccak hashes are never zero). Holds for every run. -/
theorem scheduled_chain_linked (cacheLen maxProc : Nat) (fast : Bool) (offset : Nat) (ops : List Op) :
    let s := run (init cacheLen maxProc fast offset) ops
    ∀ i a b, s.sched[i]? = some a → s.sched[i + 1]? = some b → a.hash ≠ 0 → b.parent = a.hash :=
  (link_run (link_init _ _ _ _) ops).chain

/-! ### progress -/

/-- **Progress.**  From every state reachable under the call discipline, honest rounds drain the schedule: in a round
(`honestRound`, defined in ProofsProgress.lean) every in-flight request times out (`expire` of all peers, both kinds),
one honest peer `p` — any peer with an empty lacking set — reserves with any capacity `count > 0` and any window
`0 < limit ≤ cacheLen` and answers with lists hashing to the requested roots (bodies, then receipts), and the importer
calls `Results`.  After as many rounds as blocks are outstanding, everything scheduled has been handed to the importer,
in order.  (Measure: the number of outstanding blocks drops in every round, `round_progress`.) -/
theorem progress (cacheLen maxProc : Nat) (fast : Bool) (offset : Nat) (ops : List Op)
    (hd : DisciplinedRun (init cacheLen maxProc fast offset) ops) (hc : 0 < cacheLen) (hm : 0 < maxProc)
    (p limit count : Nat) (hl0 : 0 < limit) (hl : limit ≤ cacheLen) (hcnt : 0 < count) :
    let s := run (init cacheLen maxProc fast offset) ops
    lget s.lacking p = [] →
    (honestRounds p limit count (s.sched.length - s.ret.length) s).ret.map (·.header) = s.sched := by
  intro s hlack
  have hg : Good s := good_run (good_init _ _ _ _) ops hd
  have hcfg : s.cfg = ⟨cacheLen, maxProc, fast⟩ := by
    have : ∀ (t : State) (l : List Op), (run t l).cfg = t.cfg := by
      intro t l
      induction l generalizing t with
      | nil => rfl
      | cons op l ih =>
        show (run (step t op) l).cfg = t.cfg
        rw [ih]
        cases op with
        | schedule hs f => exact (scheduleLoop_frame hs f t).1
        | reserve k l p c => exact (reserve_frame t k l p c).cfg
        | deliver k p bs => exact (deliver_frame t k p bs).cfg
        | cancel k p => rfl
        | expire k ps => rfl
        | revoke p => rfl
        | results => rfl
    show (run (init cacheLen maxProc fast offset) ops).cfg = _
    rw [this]; rfl
  obtain ⟨g', hs', hlen⟩ := rounds_progress p limit count (s.sched.length - s.ret.length) s hg
    (by rw [hcfg]; exact hc) (by rw [hcfg]; exact hm) hl0 (by rw [hcfg]; exact hl) hcnt hlack
  have hle := hg.inv.ret_le
  have hle' := g'.inv.ret_le
  rw [hs'] at hle'
  have heq : (honestRounds p limit count (s.sched.length - s.ret.length) s).ret.length = s.sched.length := by omega
  have := g'.inv.retEq
  rw [hs', heq, List.take_length] at this
  exact this

/-- one round of `progress`: while a block is outstanding, an honest round returns at least one more block -/
theorem progress_round (cacheLen maxProc : Nat) (fast : Bool) (offset : Nat) (ops : List Op)
    (hd : DisciplinedRun (init cacheLen maxProc fast offset) ops) (hc : 0 < cacheLen) (hm : 0 < maxProc)
    (p limit count : Nat) (hl0 : 0 < limit) (hl : limit ≤ cacheLen) (hcnt : 0 < count) :
    let s := run (init cacheLen maxProc fast offset) ops
    lget s.lacking p = [] → s.ret.length < s.sched.length →
    s.ret.length + 1 ≤ (honestRound p limit count s).ret.length := by
  intro s hlack hout
  have hg : Good s := good_run (good_init _ _ _ _) ops hd
  have hcfg : s.cfg = ⟨cacheLen, maxProc, fast⟩ := by
    have : ∀ (t : State) (l : List Op), (run t l).cfg = t.cfg := by
      intro t l
      induction l generalizing t with
      | nil => rfl
      | cons op l ih =>
        show (run (step t op) l).cfg = t.cfg
        rw [ih]
        cases op with
        | schedule hs f => exact (scheduleLoop_frame hs f t).1
        | reserve k l p c => exact (reserve_frame t k l p c).cfg
        | deliver k p bs => exact (deliver_frame t k p bs).cfg
        | cancel k p => rfl
        | expire k ps => rfl
        | revoke p => rfl
        | results => rfl
    show (run (init cacheLen maxProc fast offset) ops).cfg = _
    rw [this]; rfl
  exact (round_progress hg p limit count (by rw [hcfg]; exact hc) (by rw [hcfg]; exact hm) hl0
    (by rw [hcfg]; exact hl) hcnt hlack).2.2.2.2.2 hout

/-- **The window check never fires.**  Under the call discipline neither reserveHeaders nor deliver ever answers
errInvalidChain: throttling by `resultSlots` keeps every popped header inside the result window, and every header in
flight has a result slot.  (Counting argument: free slots ≤ queued tasks inside the window + window positions beyond
the scheduled chain; the task queue is sorted; allocated slots form a prefix of the window.) -/
theorem never_invalid_chain (cacheLen maxProc : Nat) (fast : Bool) (offset : Nat) (ops : List Op)
    (hd : DisciplinedRun (init cacheLen maxProc fast offset) ops) :
    (run (init cacheLen maxProc fast offset) ops).failed = false :=
  (good_run (good_init _ _ _ _) ops hd).ok

/-- per-operation form of `never_invalid_chain`: the answers themselves are never errInvalidChain -/
theorem reserve_never_invalid_chain (cacheLen maxProc : Nat) (fast : Bool) (offset : Nat) (ops : List Op)
    (hd : DisciplinedRun (init cacheLen maxProc fast offset) ops) (k : Kind) (limit peer count : Nat)
    (hl : limit ≤ cacheLen) :
    (reserve (run (init cacheLen maxProc fast offset) ops) k limit peer count).2.err ≠ Err.invalidchain := by
  have hg := good_run (good_init _ _ _ _) ops hd
  have hcfg : (run (init cacheLen maxProc fast offset) ops).cfg.cacheLen = cacheLen := by
    have : ∀ (t : State) (l : List Op), (run t l).cfg = t.cfg := by
      intro t l
      induction l generalizing t with
      | nil => rfl
      | cons op l ih =>
        show (run (step t op) l).cfg = t.cfg
        rw [ih]
        cases op with
        | schedule hs f => exact (scheduleLoop_frame hs f t).1
        | reserve k l p c => exact (reserve_frame t k l p c).cfg
        | deliver k p bs => exact (deliver_frame t k p bs).cfg
        | cancel k p => rfl
        | expire k ps => rfl
        | revoke p => rfl
        | results => rfl
    rw [this]; rfl
  have h2 := (reserve_ext hg.inv (fullU_of_full hg.full hg.ok) hg.ext hg.ok k limit peer count (by rw [hcfg]; exact hl)).2
  intro herr
  have := reserve_err_failed _ k limit peer count herr
  rw [h2] at this; cases this

/-- the three structural invariants behind `never_invalid_chain`, for every disciplined run:
headers in flight have result slots; the task queues are sorted by number; the allocated slots are a prefix of the window -/
theorem window_invariants (cacheLen maxProc : Nat) (fast : Bool) (offset : Nat) (ops : List Op)
    (hd : DisciplinedRun (init cacheLen maxProc fast offset) ops) :
    let s := run (init cacheLen maxProc fast offset) ops
    (∀ k h, h ∈ pendAll (s.pools k).pend → (cget s.cache h.num).isSome = true) ∧
    (∀ k, (s.pools k).queue.Pairwise (fun a b => a.num ≤ b.num)) ∧
    (∀ n, s.offset ≤ n → (cget s.cache (n + 1)).isSome = true → (cget s.cache n).isSome = true) := by
  intro s
  have hg := good_run (good_init _ _ _ _) ops hd
  exact ⟨hg.ext.pendCached, hg.ext.sorted, hg.ext.pref⟩

/-- (step of `progress`, kept as a lemma of independent use): once the block at the head of the window is complete, `Results` returns it. -/
theorem progress_results_partial (s : State) (r : Result) (hc : 0 < s.cfg.cacheLen) (hm : 0 < s.cfg.maxProc)
    (h : cget s.cache s.offset = some r) (hp : r.pending ≤ 0) : (results s).2 ≠ [] := by
  simp only [results]
  obtain ⟨c, hc'⟩ : ∃ c, s.cfg.cacheLen = c + 1 := ⟨s.cfg.cacheLen - 1, by omega⟩
  have h1 : 1 ≤ countProc s.cache s.offset s.cfg.cacheLen 0 := by
    rw [hc']
    simp only [countProc, Nat.add_zero, h]
    have : ¬ r.pending > 0 := by omega
    simp only [this, if_false]; omega
  obtain ⟨n, hn⟩ : ∃ n, min (countProc s.cache s.offset s.cfg.cacheLen 0) s.cfg.maxProc = n + 1 :=
    ⟨min (countProc s.cache s.offset s.cfg.cacheLen 0) s.cfg.maxProc - 1, by omega⟩
  rw [hn]
  simp [takeResults, h]

/-- (step of `progress`): a timeout of all peers empties the request pool — by `no_task_lost`
(Reshuffle keeps every occurrence) all their tasks are back in the queue. -/
theorem progress_expire_all_partial (p : Pools) (out : List (Nat × Nat)) :
    (expireLoop (p.pend.map (·.1)) p out).1.pend = [] :=
  expire_all_pend_nil p out

/-- (step of `progress`): an honest answer — for every header of the peer's pending request a list hashing
to its root — is accepted in full with no error, provided the requested headers have result slots in the window
(which reservation establishes). -/
theorem progress_honest_delivery_partial (s : State) (k : Kind) (p : Nat) (hs : List Header)
    (hg : pget (s.pools k).pend p = some hs) (hsl : Slotted s.cfg s.offset s.cache hs) :
    (deliver s k p (honestAnswer s k p)).2 = (hs.length, Err.ok) := by
  obtain ⟨r1, r2, r3⟩ := deliverLoop_honest s.cfg k s.offset hs
    (DAcc.start s.cache (s.pools k).pool (s.pools k).done) hsl
  simp only [deliver, honestAnswer, hg, Option.getD_some]
  generalize deliverLoop s.cfg k s.offset hs (hs.map (root k))
    (DAcc.start s.cache (s.pools k).pool (s.pools k).done) = res at r1 r2 r3
  obtain ⟨rest, a, f⟩ := res
  simp only at r1 r2 r3
  subst r2
  simp [r3, DAcc.start]

/-- (lower half of `never_invalid_chain`, kept for reference): no task below the result window is ever queued,
in flight or done, so the `index < 0` check can not fire. -/
theorem tasks_not_below_window_partial (cacheLen maxProc : Nat) (fast : Bool) (offset : Nat) (ops : List Op)
    (hd : DisciplinedRun (init cacheLen maxProc fast offset) ops) :
    let s := run (init cacheLen maxProc fast offset) ops
    ∀ k h, 0 < occ (s.pools k) h → s.offset ≤ h.num := by
  intro s k h hp
  exact ((inv_run (inv_init _ _ _ _) ops hd).occSched k h hp).2

/-! ### several sync cycles on one queue object (Reset) -/

/-- **Epoch reduction.**  For ANY history `pre` on a queue object (earlier cycles, aborted with results still cached,
undisciplined calls, anything), after a new cycle is started (`reset off f` = Close + Reset + peers reset + Prepare) the
state reached by further operations `post` is exactly the state a fresh queue reaches: so `results_in_order_once`,
`body_matches`, `no_task_lost`, `never_invalid_chain`, `progress` … hold for the current sync epoch verbatim. -/
theorem epoch_is_fresh_run (cacheLen maxProc : Nat) (fast0 : Bool) (offset0 : Nat) (pre : List Cmd)
    (off : Nat) (f : Bool) (post : List Op) :
    runC (init cacheLen maxProc fast0 offset0) (pre ++ .reset off f :: post.map .op) =
      run (init cacheLen maxProc f off) post :=
  runC_epoch _ pre off f post

/-- `results_in_order_once` and `body_matches` per sync epoch: what `Results` hands out after the last reset is a prefix
of the chain scheduled in THIS epoch, numbered from THIS epoch's origin, with matching bodies — nothing of an earlier,
aborted cycle can leak into it. -/
theorem results_in_order_once_epoch (cacheLen maxProc : Nat) (fast0 : Bool) (offset0 : Nat) (pre : List Cmd)
    (off : Nat) (f : Bool) (post : List Op) (hd : DisciplinedRun (init cacheLen maxProc f off) post) :
    let s := runC (init cacheLen maxProc fast0 offset0) (pre ++ .reset off f :: post.map .op)
    let out := (batches (init cacheLen maxProc f off) post).flatten
    s.ret = out ∧
    out.map (·.header) = s.sched.take out.length ∧
    (∀ i r, out[i]? = some r → r.header.num = off + i) ∧
    (∀ r ∈ out, optRoot r.txs = r.header.txRoot ∧ (f = true → optRoot r.rcs = r.header.rcRoot)) ∧
    s.failed = false := by
  intro s out
  have hs : s = run (init cacheLen maxProc f off) post := runC_epoch _ pre off f post
  have h1 := results_in_order_once cacheLen maxProc f off post hd
  have h2 := body_matches cacheLen maxProc f off post hd
  have h3 := never_invalid_chain cacheLen maxProc f off post hd
  have hret : (run (init cacheLen maxProc f off) post).ret = out := by
    have := ret_run (init cacheLen maxProc f off) post
    rw [show (init cacheLen maxProc f off).ret = [] from rfl, List.nil_append] at this
    exact this
  rw [hs]
  exact ⟨hret, h1.1, h1.2.2, h2, h3⟩

/-! ### the fetch loop (Downloader.fetchParts) -/

/-- **Progress of the fetch loop.**  `tick` (ModelLoop.lean) is the per-tick order of actions of `fetchParts`:
expire overdue requests FIRST, then the "nothing more to fetch" check, then throttle-guarded reservation for the idle
peers.  From every state reachable under the call discipline, rounds of: a tick of the body loop in which every
in-flight request is overdue and the honest peer `p` (empty lacking set, any capacity > 0) is the idle peer, `p`'s
correct answer, the same for the receipt loop, `Results` — hand the whole scheduled chain to the importer after as many
rounds as blocks are outstanding, for every value of the loop's other inputs (`finished`, registered peers, peer
count ≠ 0, `total`), provided the master peer `m` is not among the stalled ones (else the real loop aborts the sync).
In particular a stalled request that is the only thing outstanding while the task queue is empty is timed out and its
work handed to `p` — the tick reaches `expire` before it looks at `pending()`. -/
theorem fetch_loop_progress (cacheLen maxProc : Nat) (fast : Bool) (offset : Nat) (ops : List Op)
    (hd : DisciplinedRun (init cacheLen maxProc fast offset) ops) (hc : 0 < cacheLen) (hmp : 0 < maxProc)
    (m p limit cap : Nat) (fin : Bool) (known : List Nat) (np total : Nat) (hnp : np ≠ 0)
    (hl0 : 0 < limit) (hl : limit ≤ cacheLen) (hcap : 0 < cap) :
    let s := run (init cacheLen maxProc fast offset) ops
    lget s.lacking p = [] → (∀ k, m ∉ allPeersOf s k) →
    (loopRounds m p limit cap fin known np total (s.sched.length - s.ret.length) s).ret.map (·.header) = s.sched := by
  intro s hlack hm
  have hg : Good s := good_run (good_init _ _ _ _) ops hd
  have hsz := runC_sizes (init cacheLen maxProc fast offset) (ops.map .op)
  rw [runC_ops] at hsz
  have hc' : 0 < s.cfg.cacheLen := by rw [show s.cfg.cacheLen = cacheLen from hsz.1]; exact hc
  have hm' : 0 < s.cfg.maxProc := by rw [show s.cfg.maxProc = maxProc from hsz.2]; exact hmp
  have hl' : limit ≤ s.cfg.cacheLen := by rw [show s.cfg.cacheLen = cacheLen from hsz.1]; exact hl
  obtain ⟨g', hs', hlen⟩ := loop_rounds_progress m p limit cap fin known np total hnp
    (s.sched.length - s.ret.length) s hg hm hc' hm' hl0 hl' hcap hlack
  have hle := hg.inv.ret_le
  have hle' := g'.inv.ret_le
  rw [hs'] at hle'
  have heq : (loopRounds m p limit cap fin known np total (s.sched.length - s.ret.length) s).ret.length =
      s.sched.length := by omega
  have := g'.inv.retEq
  rw [hs', heq, List.take_length] at this
  exact this

/-- the tick is what the round is made of: with `p` the only idle peer its effect on the queue is
"expire the overdue requests, then reserve for `p` unless nothing is queued or the window is full" -/
theorem tick_expires_before_anything_else (k : Kind) (i : TickIn) (s : State) (p cap : Nat) (hn : i.npeers ≠ 0)
    (hidle : i.idle = [(p, cap)]) (hm : i.master ∉ i.overdue) :
    (tick k i s).1 = guardedReserve (expire s k i.overdue).1 k i.limit p cap :=
  tick_state k i s p cap hn hidle hm

/-! ### announcement/propagation path (you/fetcher/fetcher.go): dedupe discipline -/

/-- **Imported at most once** (model of the fetcher's `queued`/queue/in-flight bookkeeping, ModelFetcher.lean; tied to
the code only through the harness' fetcher oracle): for every interleaving of deliveries (any peers, any repetitions),
import-loop iterations and import completions (successful or failed), a block is handed to the importer only when no
earlier hand-over of it is still in flight and it is not imported yet. -/
theorem imported_at_most_once (evs : List Fetcher.Ev) (h : Nat) :
    (Fetcher.fstep (Fetcher.frun {} evs) .pop).2 = some h →
    h ∉ (Fetcher.frun {} evs).inflight ∧ h ∉ (Fetcher.frun {} evs).chain := by
  intro hp
  have hi := Fetcher.finv_run Fetcher.finv_init evs
  generalize Fetcher.frun {} evs = s at hp hi
  simp only [Fetcher.fstep] at hp
  cases hq : s.queue with
  | nil => rw [hq] at hp; cases hp
  | cons x q =>
    rw [hq] at hp
    simp only [] at hp
    split at hp
    · cases hp
    · rename_i hc
      have : x = h := by simpa using hp
      subst this
      exact ⟨hi.disjoint x (by rw [hq]; exact List.mem_cons_self), hc⟩

/-- the seeded variant (forgetBlock at every pop) breaks it: second copy delivered while the first import is in flight
(test by evaluation) -/
example :
    let evs : List Fetcher.Ev := [.deliver 7, .pop, .deliver 7]
    let s := evs.foldl (fun s e => (Fetcher.fstepHoisted s e).1) ({} : Fetcher.FState)
    (Fetcher.fstepHoisted s .pop).2 = some 7 ∧ 7 ∈ s.inflight := by decide

/-! ### non-vacuity: a concrete disciplined run with faults (tests, evaluated by `decide`) -/

instance (s : State) (op : Op) : Decidable (Disciplined s op) := by
  cases op <;> simp only [Disciplined] <;> infer_instance

instance : (s : State) → (ops : List Op) → Decidable (DisciplinedRun s ops)
  | _, [] => isTrue trivial
  | s, op :: ops =>
    have := instDecidableDisciplinedRun (step s op) ops
    by simp only [DisciplinedRun]; infer_instance

def hdr (n tx : Nat) : Header := { num := n, hash := n + 100, parent := n + 99, txRoot := tx, rcRoot := 0, numNil := false }

/-- schedule 10,11,12 (11 is an empty block); peer 1 gets 10 and 12 and answers the first one wrongly;
peer 2 answers correctly after the retry; Results (batch limit 2) returns 10,11 and then 12 -/
def demoOps : List Op :=
  [ .schedule [hdr 10 7, hdr 11 0, hdr 12 9] 10,
    .reserve .body 4 1 5,
    .deliver .body 1 [8, 9],
    .results,
    .reserve .body 4 2 5,
    .deliver .body 2 [7, 9],
    .results,
    .results ]

example : DisciplinedRun (init 4 2 false 10) demoOps := by decide
example : ((batches (init 4 2 false 10) demoOps).flatten.map (·.header.num)) = [10, 11, 12] := by decide
example : (run (init 4 2 false 10) demoOps).failed = false := by decide
example : ((honestRounds 9 4 3 3 (run (init 4 2 true 10) [.schedule [hdr 10 7, hdr 11 0, hdr 12 9] 10])).ret.map (·.header.num))
    = [10, 11, 12] := by decide

/-- test: a staller holds the tail (queue empty, its request the only thing outstanding); one tick of the model times it
out and hands the work to the idle honest peer -/
example :
    let s0 := run (init 8 4 false 1) [.schedule [hdr 1 5, hdr 2 6] 1, .reserve .body 8 7 2]
    let t := tick .body { limit := 8, finished := true, npeers := 2, master := 1, overdue := [7], known := [7],
                          idle := [(1, 2)], total := 2 } s0
    pendingTasks s0 .body = 0 ∧ (pget (t.1.pools .body).pend 1).isSome = true ∧ t.2.2 = Outcome.cont := by decide

end YouVerif.C18
