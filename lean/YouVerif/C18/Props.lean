/-
C18 — property theorems (block download delivers every block once, in order, with a matching body).
-/
import YouVerif.C18.Model
namespace YouVerif.C18

/-- Results never hands out more than `maxResultsProcess` items. -/
theorem results_batch_bounded (s : State) : (results s).2.length ≤ s.cfg.maxProc := by
  have h : ∀ (c : Cache) (o n : Nat), (takeResults c o n).length ≤ n := by
    intro c o n
    induction n generalizing o with
    | zero => simp [takeResults]
    | succ n ih =>
      simp only [takeResults]
      split
      · simp
      · simp only [List.length_cons]; have := ih (o + 1); omega
  simp only [results]
  exact Nat.le_trans (h _ _ _) (Nat.min_le_right _ _)

end YouVerif.C18
