/-
C18 — every operation of the queue model preserves the bookkeeping invariant.
-/
import YouVerif.C18.ProofsInv
namespace YouVerif.C18

theorem inv_init (cacheLen maxProc : Nat) (fast : Bool) (offset : Nat) : Inv (init cacheLen maxProc fast offset) where
  schedNum := by intro i h hh; simp [init] at hh
  offsetEq := by simp [init]
  retEq := by simp [init]
  retOK := by intro r hr; simp [init] at hr
  occLe := by intro k h; simp [init, occ, pendAll]
  occSched := by intro k h hp; simp [init, occ, pendAll] at hp
  poolSched := by intro k h hm; simp [init] at hm
  cacheOK := by intro n r hc; simp [init, cget] at hc
  doneCached := by intro k h hm; simp [init] at hm
  slow := by intro _; simp [init]

/-! ### Schedule -/

theorem occ_schedOne (s : State) (h x : Header) (k : Kind) :
    occ ((schedOne s h).pools k) x =
      occ (s.pools k) x + (if (k = .body ∨ s.cfg.fast = true) ∧ x = h then 1 else 0) := by
  simp only [schedOne]
  by_cases ha : k = .body ∨ s.cfg.fast = true
  · simp only [ha, if_true, true_and, occ, count_insertSorted, List.count_cons]
    by_cases hx : x = h
    · subst hx; simp; omega
    · have : ¬ (h == x) = true := by simpa using fun e => hx e.symm
      simp [hx, this]
  · simp [ha]

theorem done_schedOne (s : State) (h : Header) (k : Kind) :
    ((schedOne s h).pools k).done = (s.pools k).done := by
  simp only [schedOne]; split <;> rfl

theorem inv_schedOne {s : State} (hi : Inv s) (h : Header) (hn : h.num = s.origin + s.sched.length) :
    Inv (schedOne s h) := by
  have hocc0 : ∀ k, occ (s.pools k) h = 0 := by
    intro k
    cases hz : occ (s.pools k) h with
    | zero => rfl
    | succ m =>
      have := (hi.occSched k h (by omega)).1
      have := hi.sched_lt this
      omega
  have hspec : ∀ x, pendingSpec (schedOne s h) x = pendingSpec s x := by
    intro x; simp only [pendingSpec, done_schedOne]; rfl
  exact
  { schedNum := by
      intro i x hx
      show x.num = s.origin + i
      have hx' : (s.sched ++ [h])[i]? = some x := hx
      by_cases hlt : i < s.sched.length
      · rw [List.getElem?_append_left hlt] at hx'
        exact hi.schedNum i x hx'
      · rw [List.getElem?_append_right (by omega)] at hx'
        have : i - s.sched.length = 0 := by
          cases hd : i - s.sched.length with
          | zero => rfl
          | succ m => rw [hd] at hx'; simp at hx'
        rw [this] at hx'
        simp only [List.getElem?_cons_zero, Option.some.injEq] at hx'
        subst hx'; omega
    offsetEq := hi.offsetEq
    retEq := by
      show s.ret.map (·.header) = (s.sched ++ [h]).take s.ret.length
      rw [List.take_append_of_le_length hi.ret_le]; exact hi.retEq
    retOK := hi.retOK
    occLe := by
      intro k x
      rw [occ_schedOne]
      by_cases hx : x = h
      · subst hx; rw [hocc0 k]; split <;> omega
      · have := hi.occLe k x
        simp only [hx, and_false, if_false]; omega
    occSched := by
      intro k x hp
      show x ∈ s.sched ++ [h] ∧ s.offset ≤ x.num
      by_cases hx : x = h
      · subst hx
        refine ⟨by simp, ?_⟩
        have := hi.offsetEq; have := hi.ret_le; omega
      · rw [occ_schedOne] at hp
        simp only [hx, and_false, if_false, Nat.add_zero] at hp
        have := hi.occSched k x hp
        exact ⟨by simp [this.1], this.2⟩
    poolSched := by
      intro k x hm
      show x ∈ s.sched ++ [h]
      simp only [schedOne] at hm
      split at hm
      · simp only [List.mem_cons] at hm
        rcases hm with rfl | hm
        · simp
        · simp [hi.poolSched k x hm]
      · simp [hi.poolSched k x hm]
    cacheOK := by
      intro n r hc
      have e := hi.cacheOK n r hc
      exact { num := e.num, sched := by show r.header ∈ s.sched ++ [h]; simp [e.sched], lo := e.lo, hi := e.hi,
              pending := by rw [hspec]; exact e.pending,
              content := fun k hm => by rw [done_schedOne] at hm; exact e.content k hm,
              fresh := fun k hm => by rw [done_schedOne] at hm; exact e.fresh k hm }
    doneCached := by
      intro k x hm
      rw [done_schedOne] at hm
      exact hi.doneCached k x hm
    slow := by
      intro hf
      have hf' : s.cfg.fast = false := hf
      have : (schedOne s h).pools .rcpt = s.pools .rcpt := by
        simp [schedOne, hf']
      rw [this]; exact hi.slow hf' }

theorem scheduleLoop_frame (hs : List Header) (f : Nat) (s : State) :
    (scheduleLoop hs f s).1.cfg = s.cfg ∧ (scheduleLoop hs f s).1.origin = s.origin ∧
    (scheduleLoop hs f s).1.ret = s.ret ∧ (scheduleLoop hs f s).1.offset = s.offset ∧
    (scheduleLoop hs f s).1.failed = s.failed := by
  induction hs generalizing f s with
  | nil => simp [scheduleLoop]
  | cons h t ih =>
    simp only [scheduleLoop, schedOneFast_eq]
    split
    · simp
    · split
      · simp
      · split
        · exact ih f s
        · split
          · exact ih f s
          · have := ih (f + 1) (schedOne s h)
            simpa [schedOne] using this

theorem inv_scheduleLoop {s : State} (hi : Inv s) (hs : List Header) (f : Nat)
    (hf : f = s.origin + s.sched.length) : Inv (scheduleLoop hs f s).1 := by
  induction hs generalizing f s with
  | nil => exact hi
  | cons h t ih =>
    simp only [scheduleLoop, schedOneFast_eq]
    split
    · exact hi
    · rename_i hc1
      split
      · exact hi
      · split
        · exact ih hi f hf
        · split
          · exact ih hi f hf
          · have hnum : h.num = f := by
              have : ¬ h.num ≠ f := fun e => hc1 (Or.inr e)
              exact Classical.not_not.mp this
            have hi' := inv_schedOne hi h (by omega)
            exact ih hi' (f + 1) (by simp [schedOne]; omega)

theorem inv_schedule {s : State} (hi : Inv s) (hs : List Header) (f : Nat)
    (hf : f = s.origin + s.sched.length) : Inv (schedule s hs f).1 :=
  inv_scheduleLoop hi hs f hf

/-! ### cancel / expire / Revoke: tasks only move between the request pool and the queue -/

/-- `p'` holds the same tasks as `p`, possibly moved from requests back to the queue -/
structure Reshuffle (p p' : Pools) : Prop where
  occ : ∀ x, occ p' x = occ p x
  done : p'.done = p.done
  pool : p'.pool = p.pool
  idle : p.pend = [] → p' = p

theorem Reshuffle.refl (p : Pools) : Reshuffle p p := ⟨fun _ => rfl, rfl, rfl, fun _ => rfl⟩

theorem Reshuffle.trans {p p' p'' : Pools} (a : Reshuffle p p') (b : Reshuffle p' p'') : Reshuffle p p'' :=
  ⟨fun x => (b.occ x).trans (a.occ x), b.done.trans a.done, b.pool.trans a.pool,
   fun h => by have e := a.idle h; subst e; exact b.idle h⟩

theorem reshuffle_requeue (p : Pools) (peer : Nat) (hs : List Header) (hg : pget p.pend peer = some hs) :
    Reshuffle p { p with queue := pushAll hs p.queue, pend := perase p.pend peer } where
  occ := fun x => by
    simp only [occ, count_pushAll, count_pendAll_perase x p.pend peer hs hg]; omega
  done := rfl
  pool := rfl
  idle := fun h => by rw [h] at hg; simp [pget] at hg

theorem reshuffle_cancelPools (p : Pools) (peer : Nat) : Reshuffle p (cancelPools p peer).1 := by
  simp only [cancelPools]
  split
  · exact Reshuffle.refl p
  · rename_i hs hg; exact reshuffle_requeue p peer hs hg

theorem reshuffle_expireLoop (l : List Nat) (p : Pools) (out : List (Nat × Nat)) :
    Reshuffle p (expireLoop l p out).1 := by
  induction l generalizing p out with
  | nil => exact Reshuffle.refl p
  | cons a t ih =>
    simp only [expireLoop]
    split
    · exact ih p out
    · rename_i hs hg
      exact (reshuffle_requeue p a hs hg).trans (ih _ _)

theorem Inv.reshuffle {s s' : State} (hi : Inv s)
    (hcfg : s'.cfg = s.cfg) (hoff : s'.offset = s.offset) (horg : s'.origin = s.origin)
    (hsched : s'.sched = s.sched) (hret : s'.ret = s.ret) (hcache : s'.cache = s.cache)
    (hp : ∀ k, Reshuffle (s.pools k) (s'.pools k)) : Inv s' :=
  hi.repool hcfg hoff horg hsched hret hcache (fun k h => Nat.le_of_eq ((hp k).occ h)) (fun k => (hp k).done)
    (fun k h hm => by rw [(hp k).pool] at hm; exact hm)
    (fun hf => by
      have e := (hp .rcpt).idle (hi.slow hf).2.1
      rw [e]; exact ⟨(hi.slow hf).1, (hi.slow hf).2.1, (hi.slow hf).2.2.2⟩)

theorem reshuffle_setPools (s : State) (k : Kind) (p' : Pools) (h : Reshuffle (s.pools k) p') (k' : Kind) :
    Reshuffle (s.pools k') ((s.setPools k p').pools k') := by
  simp only [State.setPools]
  split
  · rename_i e; subst e; exact h
  · exact Reshuffle.refl _

theorem inv_cancel {s : State} (hi : Inv s) (k : Kind) (peer : Nat) : Inv (cancel s k peer).1 :=
  hi.reshuffle rfl rfl rfl rfl rfl rfl (reshuffle_setPools s k _ (reshuffle_cancelPools _ peer))

theorem inv_expire {s : State} (hi : Inv s) (k : Kind) (l : List Nat) : Inv (expire s k l).1 :=
  hi.reshuffle rfl rfl rfl rfl rfl rfl (reshuffle_setPools s k _ (reshuffle_expireLoop l _ []))

theorem inv_revoke {s : State} (hi : Inv s) (peer : Nat) : Inv (revoke s peer) :=
  hi.reshuffle rfl rfl rfl rfl rfl rfl (fun k => reshuffle_cancelPools _ peer)

end YouVerif.C18
