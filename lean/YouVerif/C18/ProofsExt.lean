/-
C18 — the extended invariant needed for "the window check never fires" and for progress:
in-flight headers have result slots, the task queues are sorted by number, the allocated slots form
a prefix of the window.  Preservation by Schedule, cancel, expire, Revoke and Results.
-/
import YouVerif.C18.ProofsMid
namespace YouVerif.C18

def Sorted (l : List Header) : Prop := l.Pairwise (fun a b => a.num ≤ b.num)

theorem mem_insertSorted {x h : Header} {q : List Header} : x ∈ insertSorted h q ↔ x = h ∨ x ∈ q := by
  simp only [mem_iff_count_pos, count_insertSorted, List.count_cons]
  by_cases hx : x = h
  · subst hx; simp
  · have : ¬ (h == x) = true := by simpa using fun e => hx e.symm
    simp [hx, this]

theorem sorted_insertSorted {h : Header} {q : List Header} (hs : Sorted q) : Sorted (insertSorted h q) := by
  induction q with
  | nil => simp [insertSorted, Sorted]
  | cons x xs ih =>
    simp only [Sorted, List.pairwise_cons] at hs
    simp only [insertSorted]
    split
    · rename_i hlt
      simp only [Sorted, List.pairwise_cons]
      refine ⟨?_, hs⟩
      intro a' ha'
      rcases List.mem_cons.mp ha' with rfl | ha'
      · omega
      · have := hs.1 a' ha'; omega
    · rename_i hlt
      simp only [Sorted, List.pairwise_cons]
      refine ⟨?_, ih hs.2⟩
      intro a' ha'
      rcases mem_insertSorted.mp ha' with rfl | ha'
      · omega
      · exact hs.1 a' ha'

theorem sorted_pushAll {hs q : List Header} (h : Sorted q) : Sorted (pushAll hs q) := by
  induction hs generalizing q with
  | nil => exact h
  | cons x xs ih => exact ih (sorted_insertSorted h)

structure Ext (s : State) : Prop where
  pendCached : ∀ k h, h ∈ pendAll (s.pools k).pend → (cget s.cache h.num).isSome = true
  sorted : ∀ k, Sorted (s.pools k).queue
  pref : ∀ n, s.offset ≤ n → (cget s.cache (n + 1)).isSome = true → (cget s.cache n).isSome = true

/-- unconditional form of `Full` -/
def FullU (s : State) : Prop :=
  ∀ k, Active s k → ∀ h ∈ s.sched, s.offset ≤ h.num → 0 < occ (s.pools k) h

theorem fullU_of_full {s : State} (hf : Full s) (h : s.failed = false) : FullU s := hf h

theorem ext_init (c m : Nat) (f : Bool) (o : Nat) : Ext (init c m f o) where
  pendCached := by intro k h hm; simp [init, pendAll] at hm
  sorted := by intro k; simp [init, Sorted]
  pref := by intro n _ h; simp [init, cget] at h

/-! ### Schedule -/

theorem pend_schedOne (s : State) (h : Header) (k : Kind) : ((schedOne s h).pools k).pend = (s.pools k).pend := by
  simp only [schedOne]; split <;> rfl

theorem ext_schedOne {s : State} (he : Ext s) (h : Header) : Ext (schedOne s h) where
  pendCached := by
    intro k x hx; rw [pend_schedOne] at hx; exact he.pendCached k x hx
  sorted := by
    intro k
    simp only [schedOne]
    split
    · exact sorted_insertSorted (he.sorted k)
    · exact he.sorted k
  pref := he.pref

theorem ext_scheduleLoop {s : State} (he : Ext s) (hs : List Header) (f : Nat) : Ext (scheduleLoop hs f s).1 := by
  induction hs generalizing f s with
  | nil => exact he
  | cons h t ih =>
    simp only [scheduleLoop, schedOneFast_eq]
    split
    · exact he
    · split
      · exact he
      · split
        · exact ih he f
        · split
          · exact ih he f
          · exact ih (ext_schedOne he h) (f + 1)

/-! ### cancel / expire / Revoke -/

theorem mem_pendAll_perase_sub {x : Header} {pend : List (Nat × List Header)} {p : Nat}
    (hx : x ∈ pendAll (perase pend p)) : x ∈ pendAll pend := by
  induction pend with
  | nil => simp [perase, pendAll] at hx
  | cons e t ih =>
    obtain ⟨k, v⟩ := e
    simp only [perase] at hx
    split at hx
    · simp [pendAll, hx]
    · simp only [pendAll, List.mem_append] at hx ⊢
      rcases hx with hx | hx
      · exact Or.inl hx
      · exact Or.inr (ih hx)

/-- the request pool only shrinks and the queue stays sorted -/
structure Calm (p p' : Pools) : Prop where
  pend : ∀ x, x ∈ pendAll p'.pend → x ∈ pendAll p.pend
  sorted : Sorted p.queue → Sorted p'.queue

theorem Calm.refl (p : Pools) : Calm p p := ⟨fun _ h => h, fun h => h⟩
theorem Calm.trans {p p' p'' : Pools} (a : Calm p p') (b : Calm p' p'') : Calm p p'' :=
  ⟨fun x h => a.pend x (b.pend x h), fun h => b.sorted (a.sorted h)⟩

theorem calm_cancelPools (p : Pools) (peer : Nat) : Calm p (cancelPools p peer).1 := by
  simp only [cancelPools]
  split
  · exact Calm.refl p
  · exact ⟨fun x h => mem_pendAll_perase_sub h, fun h => sorted_pushAll h⟩

theorem calm_expireLoop (l : List Nat) (p : Pools) (out : List (Nat × Nat)) : Calm p (expireLoop l p out).1 := by
  induction l generalizing p out with
  | nil => exact Calm.refl p
  | cons a t ih =>
    simp only [expireLoop]
    split
    · exact ih p out
    · exact Calm.trans ⟨fun x h => mem_pendAll_perase_sub h, fun h => sorted_pushAll h⟩ (ih _ _)

theorem Ext.calm {s s' : State} (he : Ext s) (hoff : s'.offset = s.offset) (hcache : s'.cache = s.cache)
    (hp : ∀ k, Calm (s.pools k) (s'.pools k)) : Ext s' where
  pendCached := by intro k x hx; rw [hcache]; exact he.pendCached k x ((hp k).pend x hx)
  sorted := fun k => (hp k).sorted (he.sorted k)
  pref := by rw [hoff, hcache]; exact he.pref

theorem calm_setPools (s : State) (k : Kind) (p' : Pools) (h : Calm (s.pools k) p') (k' : Kind) :
    Calm (s.pools k') ((s.setPools k p').pools k') := by
  simp only [State.setPools]
  split
  · rename_i e; subst e; exact h
  · exact Calm.refl _

/-! ### Results -/

theorem complete_entry_done {s : State} (hi : Inv s) {n : Nat} {r : Result} (hc : cget s.cache n = some r)
    (hp : r.pending ≤ 0) :
    r.header ∈ (s.pools .body).done ∧ (s.cfg.fast = true → r.header ∈ (s.pools .rcpt).done) := by
  have e := hi.cacheOK _ _ hc
  have hpe := e.pending
  simp only [pendingSpec] at hpe
  constructor
  · apply Classical.byContradiction; intro hnb
    simp only [hnb, if_false] at hpe
    split at hpe <;> (try split at hpe) <;> omega
  · intro hf
    apply Classical.byContradiction; intro hnb
    simp only [hf, if_true, hnb, if_false] at hpe
    split at hpe <;> omega

theorem ext_results {s : State} (hi : Inv s) (he : Ext s) : Ext (results s).1 := by
  let n := min (countProc s.cache s.offset s.cfg.cacheLen 0) s.cfg.maxProc
  have hnle : n ≤ countProc s.cache s.offset s.cfg.cacheLen 0 := Nat.min_le_left _ _
  show Ext { s with pools := fun k => { s.pools k with done := removeHeaders (takeResults s.cache s.offset n) (s.pools k).done },
                    cache := ceraseRange s.cache s.offset n, offset := s.offset + n,
                    ret := s.ret ++ takeResults s.cache s.offset n }
  exact
  { pendCached := by
      intro k x hx
      have hx' : x ∈ pendAll (s.pools k).pend := hx
      show (cget (ceraseRange s.cache s.offset n) x.num).isSome = true
      have hocc : 0 < occ (s.pools k) x := (occ_pos_iff _ _).mpr (Or.inr (Or.inl hx'))
      obtain ⟨hxs, hlo⟩ := hi.occSched k x hocc
      have hout : ¬ (s.offset ≤ x.num ∧ x.num < s.offset + n) := by
        rintro ⟨_, hlt⟩
        obtain ⟨r, h1, h2⟩ := countProc_spec s.cache s.offset s.cfg.cacheLen 0 (x.num - s.offset) (by omega)
        have hk : s.offset + (0 + (x.num - s.offset)) = x.num := by omega
        rw [hk] at h1
        have hrx : r.header = x := hi.entry_header hxs h1
        obtain ⟨d1, d2⟩ := complete_entry_done hi h1 h2
        rw [hrx] at d1 d2
        have hle := hi.occLe k x
        have hp := (mem_iff_count_pos _ _).mp hx'
        cases k with
        | body =>
          have := (mem_iff_count_pos _ _).mp d1
          simp only [occ] at hle; omega
        | rcpt =>
          cases hf : s.cfg.fast with
          | true =>
            have := (mem_iff_count_pos _ _).mp (d2 hf)
            simp only [occ] at hle; omega
          | false =>
            rw [(hi.slow hf).2.1] at hx'; simp [pendAll] at hx'
      rw [cget_ceraseRange]; simp only [hout, if_false]
      exact he.pendCached k x hx'
    sorted := he.sorted
    pref := by
      intro m hm hs
      have hm' : s.offset + n ≤ m := hm
      have hs' : (cget (ceraseRange s.cache s.offset n) (m + 1)).isSome = true := hs
      show (cget (ceraseRange s.cache s.offset n) m).isSome = true
      rw [cget_ceraseRange] at hs' ⊢
      have h1 : ¬ (s.offset ≤ m + 1 ∧ m + 1 < s.offset + n) := by omega
      have h2 : ¬ (s.offset ≤ m ∧ m < s.offset + n) := by omega
      simp only [h1, if_false] at hs'
      simp only [h2, if_false]
      exact he.pref m (by omega) hs' }

end YouVerif.C18
