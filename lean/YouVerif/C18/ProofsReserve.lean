/-
C18 — `reserveHeaders` and `deliver` preserve the invariant.  The loops are handled through
intermediate states in which the lists under construction (`send`, `skip`, the undelivered rest of a
request) are treated as two extra in-flight requests.
-/
import YouVerif.C18.ProofsResults
namespace YouVerif.C18

theorem Inv.repoolK {s s' : State} (hi : Inv s) (k : Kind) (hact : k = .body ∨ s.cfg.fast = true)
    (hcfg : s'.cfg = s.cfg) (hoff : s'.offset = s.offset) (horg : s'.origin = s.origin)
    (hsched : s'.sched = s.sched) (hret : s'.ret = s.ret) (hcache : s'.cache = s.cache)
    (hother : ∀ k', k' ≠ k → s'.pools k' = s.pools k')
    (hocc : ∀ x, occ (s'.pools k) x ≤ occ (s.pools k) x)
    (hdone : (s'.pools k).done = (s.pools k).done)
    (hpool : ∀ x ∈ (s'.pools k).pool, x ∈ (s.pools k).pool) : Inv s' :=
  hi.repool hcfg hoff horg hsched hret hcache
    (fun k' x => by
      by_cases hk : k' = k
      · subst hk; exact hocc x
      · rw [hother k' hk]; exact Nat.le_refl _)
    (fun k' => by
      by_cases hk : k' = k
      · subst hk; exact hdone
      · rw [hother k' hk])
    (fun k' x hm => by
      by_cases hk : k' = k
      · subst hk; exact hpool x hm
      · rw [hother k' hk] at hm; exact hm)
    (fun hf => by
      have hk : k = .body := by
        rcases hact with h | h
        · exact h
        · rw [hf] at h; cases h
      have : s'.pools .rcpt = s.pools .rcpt := hother _ (by rw [hk]; decide)
      rw [this]; exact ⟨(hi.slow hf).1, (hi.slow hf).2.1, (hi.slow hf).2.2.2⟩)

/-! ### reserveHeaders -/

/-- intermediate state of the pop loop: `send` and `skip` count as in-flight requests -/
def midR (s : State) (k : Kind) (q : List Header) (a : RAcc) : State :=
  { s with cache := a.cache,
           pools := fun k' =>
             if k' = k then
               { queue := q, pool := a.pool, done := a.done, pend := (0, a.send) :: (0, a.skip) :: (s.pools k).pend }
             else s.pools k' }

theorem midR_same (s : State) (k : Kind) (q : List Header) (a : RAcc) :
    (midR s k q a).pools k =
      { queue := q, pool := a.pool, done := a.done, pend := (0, a.send) :: (0, a.skip) :: (s.pools k).pend } := by
  simp [midR]

theorem midR_other (s : State) (k k' : Kind) (q : List Header) (a : RAcc) (h : k' ≠ k) :
    (midR s k q a).pools k' = s.pools k' := by
  simp [midR, h]

theorem cget_allocSlot_self (cfg : Cfg) (c : Cache) (h : Header) : ∃ r, cget (allocSlot cfg c h) h.num = some r := by
  simp only [allocSlot]
  cases hg : cget c h.num with
  | none => exact ⟨{ pending := comps cfg, header := h, txs := none, rcs := none }, by simp [cget_cset]⟩
  | some r => exact ⟨r, hg⟩

theorem mem_removeAll {x h : Header} {l : List Header} : x ∈ removeAll h l → x ∈ l := by
  simp only [removeAll, List.mem_filter]; exact fun h => h.1

theorem occ_mid (q : List Header) (pool done send skip : List Header) (pend : List (Nat × List Header)) (x : Header) :
    occ { queue := q, pool := pool, done := done, pend := (0, send) :: (0, skip) :: pend } x =
      q.count x + send.count x + skip.count x + (pendAll pend).count x + done.count x := by
  simp only [occ, pendAll, List.count_append]; omega

theorem reserveLoop_inv (s : State) (k : Kind) (count : Nat) (lack : List Header)
    (hact : k = .body ∨ s.cfg.fast = true) :
    ∀ (q : List Header) (a : RAcc), Inv (midR s k q a) →
      Inv (midR s k (reserveLoop s.cfg k s.offset count lack q a).1 (reserveLoop s.cfg k s.offset count lack q a).2) := by
  intro q
  induction q with
  | nil => intro a hi; exact hi
  | cons h q ih =>
    intro a hi
    simp only [reserveLoop]
    split
    · split
      · -- errInvalidChain: the popped header is dropped
        refine hi.repoolK k hact rfl rfl rfl rfl rfl rfl (fun k' hk => by rw [midR_other _ _ _ _ _ hk, midR_other _ _ _ _ _ hk]) ?_ ?_ ?_
        · intro x; dsimp only; rw [midR_same, midR_same, occ_mid, occ_mid, List.count_cons]; dsimp only; omega
        · dsimp only; rw [midR_same, midR_same]
        · intro x hx; dsimp only at hx; rw [midR_same] at hx ⊢; exact hx
      · rename_i hwin
        have hocc : 0 < occ ((midR s k (h :: q) a).pools k) h := by
          rw [midR_same, occ_mid, List.count_cons_self]; omega
        obtain ⟨hhs, hlo⟩ := hi.occSched k h hocc
        have hlo' : s.offset ≤ h.num := hlo
        have hhi' : h.num < s.offset + s.cfg.cacheLen := by omega
        -- allocate the slot
        have hi1 : Inv { midR s k (h :: q) a with cache := allocSlot s.cfg a.cache h } :=
          hi.alloc h rfl rfl rfl rfl rfl rfl rfl hhs hlo' hhi'
        split
        · -- noop: complete immediately
          rename_i hnoop
          apply ih
          refine hi1.complete k h none rfl rfl rfl rfl rfl hact rfl
            (fun k' hk => by
              show (midR s k q _).pools k' = (midR s k (h :: q) a).pools k'
              rw [midR_other _ _ _ _ _ hk, midR_other _ _ _ _ _ hk])
            ?_ ?_ ?_ (cget_allocSlot_self _ _ _) (Or.inl ⟨rfl, by simpa [isNoop] using hnoop⟩)
          · show ((midR s k q _).pools k).done = insertSet h ((midR s k (h :: q) a).pools k).done
            rw [midR_same, midR_same]
          · intro x hx
            show x ∈ ((midR s k (h :: q) a).pools k).pool
            rw [midR_same] at hx ⊢
            exact mem_removeAll hx
          · intro x
            show ((midR s k q _).pools k).queue.count x + (pendAll ((midR s k q _).pools k).pend).count x + _ ≤
              ((midR s k (h :: q) a).pools k).queue.count x + (pendAll ((midR s k (h :: q) a).pools k).pend).count x
            rw [midR_same, midR_same]
            simp only [List.count_cons]
            by_cases hx : x = h
            · subst hx; simp; omega
            · have : ¬ (h == x) = true := by simpa using fun e => hx e.symm
              simp [hx, this]
        · split
          · -- the peer lacks it: skipped
            apply ih
            refine hi1.repoolK k hact rfl rfl rfl rfl rfl rfl
              (fun k' hk => by
                show (midR s k q _).pools k' = (midR s k (h :: q) a).pools k'
                rw [midR_other _ _ _ _ _ hk, midR_other _ _ _ _ _ hk]) ?_ ?_ ?_
            · intro x
              show occ ((midR s k q _).pools k) x ≤ occ ((midR s k (h :: q) a).pools k) x
              rw [midR_same, midR_same, occ_mid, occ_mid, List.count_append, List.count_cons]
              simp only [List.count_cons, List.count_nil]; omega
            · show ((midR s k q _).pools k).done = ((midR s k (h :: q) a).pools k).done
              rw [midR_same, midR_same]
            · intro x hx
              show x ∈ ((midR s k (h :: q) a).pools k).pool
              rw [midR_same] at hx ⊢; exact hx
          · -- requested from the peer
            apply ih
            refine hi1.repoolK k hact rfl rfl rfl rfl rfl rfl
              (fun k' hk => by
                show (midR s k q _).pools k' = (midR s k (h :: q) a).pools k'
                rw [midR_other _ _ _ _ _ hk, midR_other _ _ _ _ _ hk]) ?_ ?_ ?_
            · intro x
              show occ ((midR s k q _).pools k) x ≤ occ ((midR s k (h :: q) a).pools k) x
              rw [midR_same, midR_same, occ_mid, occ_mid, List.count_append, List.count_cons]
              simp only [List.count_cons, List.count_nil]; omega
            · show ((midR s k q _).pools k).done = ((midR s k (h :: q) a).pools k).done
              rw [midR_same, midR_same]
            · intro x hx
              show x ∈ ((midR s k (h :: q) a).pools k).pool
              rw [midR_same] at hx ⊢; exact hx
    · exact hi

theorem setPools_same (s : State) (k : Kind) (p : Pools) : (s.setPools k p).pools k = p := by
  simp [State.setPools]

theorem setPools_other (s : State) (k k' : Kind) (p : Pools) (h : k' ≠ k) : (s.setPools k p).pools k' = s.pools k' := by
  simp [State.setPools, h]

theorem active_of_queue {s : State} (hi : Inv s) (k : Kind) (hq : (s.pools k).queue.isEmpty = false) :
    k = .body ∨ s.cfg.fast = true := by
  cases k with
  | body => exact Or.inl rfl
  | rcpt =>
    cases hf : s.cfg.fast with
    | true => exact Or.inr rfl
    | false => rw [(hi.slow hf).1] at hq; simp at hq

theorem active_of_pend {s : State} (hi : Inv s) (k : Kind) (peer : Nat) (hs : List Header)
    (hq : pget (s.pools k).pend peer = some hs) : k = .body ∨ s.cfg.fast = true := by
  cases k with
  | body => exact Or.inl rfl
  | rcpt =>
    cases hf : s.cfg.fast with
    | true => exact Or.inr rfl
    | false => rw [(hi.slow hf).2.1] at hq; simp [pget] at hq

theorem inv_reserve {s : State} (hi : Inv s) (k : Kind) (limit peer count : Nat) :
    Inv (reserve s k limit peer count).1 := by
  simp only [reserve]
  split
  · exact hi
  · rename_i hq
    split
    · exact hi
    · have hact := active_of_queue hi k (by simpa using hq)
      generalize ha0 : RAcc.start (resultSlots s k limit) s.cache (s.pools k).pool (s.pools k).done = a0
      have hmid0 : Inv (midR s k (s.pools k).queue a0) := by
        refine hi.repoolK k hact rfl rfl rfl rfl rfl (by subst ha0; rfl)
          (fun k' hk => midR_other _ _ _ _ _ hk) ?_ ?_ ?_
        · intro x; rw [midR_same, occ_mid]; subst ha0; simp [occ, RAcc.start]
        · rw [midR_same]; subst ha0; rfl
        · intro x hx; rw [midR_same] at hx; subst ha0; exact hx
      have hloop := reserveLoop_inv s k count (lget s.lacking peer) hact _ _ hmid0
      generalize hres : reserveLoop s.cfg k s.offset count (lget s.lacking peer) (s.pools k).queue a0 = res at hloop
      obtain ⟨q, a⟩ := res
      dsimp only at hloop ⊢
      split
      · -- errInvalidChain
        refine hloop.repoolK k hact rfl rfl rfl rfl rfl rfl
          (fun k' hk => by rw [setPools_other _ _ _ _ hk, midR_other _ _ _ _ _ hk]) ?_ ?_ ?_
        · intro x; rw [setPools_same, midR_same, occ_mid]; simp only [occ]; omega
        · rw [setPools_same, midR_same]
        · intro x hx; rw [setPools_same] at hx; rw [midR_same]; exact hx
      · split
        · rename_i hse
          refine hloop.repoolK k hact rfl rfl rfl rfl rfl rfl
            (fun k' hk => by rw [setPools_other _ _ _ _ hk, midR_other _ _ _ _ _ hk]) ?_ ?_ ?_
          · intro x; rw [setPools_same, midR_same, occ_mid]; simp only [occ, count_pushAll]; omega
          · rw [setPools_same, midR_same]
          · intro x hx; rw [setPools_same] at hx; rw [midR_same]; exact hx
        · refine hloop.repoolK k hact rfl rfl rfl rfl rfl rfl
            (fun k' hk => by rw [setPools_other _ _ _ _ hk, midR_other _ _ _ _ _ hk]) ?_ ?_ ?_
          · intro x; rw [setPools_same, midR_same, occ_mid]; simp only [occ, count_pushAll, count_pendAll_cons]; omega
          · rw [setPools_same, midR_same]
          · intro x hx; rw [setPools_same] at hx; rw [midR_same]; exact hx

/-! ### deliver -/

/-- intermediate state of the assembly loop: the not yet assembled rest of the request is still in flight -/
def midD (s : State) (k : Kind) (peer : Nat) (rest : List Header) (a : DAcc) : State :=
  { s with cache := a.cache,
           pools := fun k' =>
             if k' = k then
               { queue := (s.pools k).queue, pool := a.pool, done := a.done,
                 pend := (0, rest) :: perase (s.pools k).pend peer }
             else s.pools k' }

theorem midD_same (s : State) (k : Kind) (peer : Nat) (rest : List Header) (a : DAcc) :
    (midD s k peer rest a).pools k =
      { queue := (s.pools k).queue, pool := a.pool, done := a.done,
        pend := (0, rest) :: perase (s.pools k).pend peer } := by
  simp [midD]

theorem midD_other (s : State) (k k' : Kind) (peer : Nat) (rest : List Header) (a : DAcc) (h : k' ≠ k) :
    (midD s k peer rest a).pools k' = s.pools k' := by
  simp [midD, h]

theorem deliverLoop_inv (s : State) (k : Kind) (peer : Nat) (hact : k = .body ∨ s.cfg.fast = true) :
    ∀ (hs : List Header) (bs : List Nat) (a : DAcc), Inv (midD s k peer hs a) →
      Inv (midD s k peer (deliverLoop s.cfg k s.offset hs bs a).1 (deliverLoop s.cfg k s.offset hs bs a).2.1) := by
  intro hs
  induction hs with
  | nil => intro bs a hi; simpa [deliverLoop] using hi
  | cons h hs ih =>
    intro bs a hi
    cases bs with
    | nil => simpa [deliverLoop] using hi
    | cons b bs =>
      simp only [deliverLoop]
      split
      · exact hi
      · split
        · exact hi
        · rename_i hsome
          split
          · exact hi
          · rename_i hb
            have hb' : b = root k h := Classical.not_not.mp hb
            apply ih
            refine hi.complete k h (some b) rfl rfl rfl rfl rfl hact rfl
              (fun k' hk => by
                show (midD s k peer hs _).pools k' = (midD s k peer (h :: hs) a).pools k'
                rw [midD_other _ _ _ _ _ _ hk, midD_other _ _ _ _ _ _ hk])
              ?_ ?_ ?_ ?_ (Or.inr (by rw [hb']))
            · show ((midD s k peer hs _).pools k).done = insertSet h ((midD s k peer (h :: hs) a).pools k).done
              rw [midD_same, midD_same]
            · intro x hx
              show x ∈ ((midD s k peer (h :: hs) a).pools k).pool
              rw [midD_same] at hx ⊢
              exact mem_removeAll hx
            · intro x
              show ((midD s k peer hs _).pools k).queue.count x + (pendAll ((midD s k peer hs _).pools k).pend).count x + _ ≤
                ((midD s k peer (h :: hs) a).pools k).queue.count x + (pendAll ((midD s k peer (h :: hs) a).pools k).pend).count x
              rw [midD_same, midD_same]
              simp only [count_pendAll_cons, List.count_cons]
              by_cases hx : x = h
              · subst hx; simp; omega
              · have : ¬ (h == x) = true := by simpa using fun e => hx e.symm
                simp [hx, this]
            · show ∃ r, cget a.cache h.num = some r
              cases hc : cget a.cache h.num with
              | none => simp [hc] at hsome
              | some r => exact ⟨r, rfl⟩

theorem inv_deliver {s : State} (hi : Inv s) (k : Kind) (peer : Nat) (bodies : List Nat) :
    Inv (deliver s k peer bodies).1 := by
  simp only [deliver]
  split
  · exact hi
  · rename_i hs hg
    have hact := active_of_pend hi k peer hs hg
    generalize ha0 : DAcc.start s.cache (s.pools k).pool (s.pools k).done = a0
    have hmid0 : Inv (midD s k peer hs a0) := by
      refine hi.repoolK k hact rfl rfl rfl rfl rfl (by subst ha0; rfl)
        (fun k' hk => midD_other _ _ _ _ _ _ hk) ?_ ?_ ?_
      · intro x; rw [midD_same]; subst ha0
        simp only [occ, count_pendAll_cons, count_pendAll_perase x _ peer hs hg, DAcc.start]; omega
      · rw [midD_same]; subst ha0; rfl
      · intro x hx; rw [midD_same] at hx; subst ha0; exact hx
    have hloop := deliverLoop_inv s k peer hact hs bodies a0 hmid0
    generalize hres : deliverLoop s.cfg k s.offset hs bodies a0 = res at hloop
    obtain ⟨rest, a, f⟩ := res
    dsimp only at hloop ⊢
    refine hloop.repoolK k hact rfl rfl rfl rfl rfl rfl
      (fun k' hk => by rw [setPools_other _ _ _ _ hk, midD_other _ _ _ _ _ _ hk]) ?_ ?_ ?_
    · intro x; rw [setPools_same, midD_same]; simp only [occ, count_pushAll, count_pendAll_cons]; omega
    · rw [setPools_same, midD_same]
    · intro x hx; rw [setPools_same] at hx; rw [midD_same]; exact hx

/-! ### all operations -/

/-- the call discipline of the downloader: `Schedule` is always called with `from` = offset + headers accepted so far
(processHeaders passes `origin` and adds the chunk length; it aborts the sync on any shortfall). -/
def Disciplined (s : State) : Op → Prop
  | .schedule _ f => f = s.origin + s.sched.length
  | .reserve _ limit _ _ => limit ≤ s.cfg.cacheLen
  | _ => True

theorem inv_step {s : State} (hi : Inv s) (op : Op) (hd : Disciplined s op) : Inv (step s op) := by
  cases op with
  | schedule hs f => exact inv_schedule hi hs f hd
  | reserve k l p c => exact inv_reserve hi k l p c
  | deliver k p bs => exact inv_deliver hi k p bs
  | cancel k p => exact inv_cancel hi k p
  | expire k ps => exact inv_expire hi k ps
  | revoke p => exact inv_revoke hi p
  | results => exact inv_results hi

end YouVerif.C18
