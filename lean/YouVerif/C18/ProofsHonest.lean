/-
C18 — an honest answer to a pending request is accepted in full.
-/
import YouVerif.C18.ProofsLink
namespace YouVerif.C18

theorem isSome_cget_complete (c : Cache) (k : Kind) (h : Header) (b : Option Nat) (n : Nat) :
    (cget (YouVerif.C18.complete c k h b) n).isSome = (cget c n).isSome := by
  unfold YouVerif.C18.complete
  cases hc : cget c h.num with
  | none => rfl
  | some r =>
    simp only [cget_cset]
    by_cases hn : n = h.num
    · subst hn; simp [hc]
    · simp [hn]

/-- every header of `hs` lies in the result window and has a slot -/
def Slotted (cfg : Cfg) (offset : Nat) (c : Cache) (hs : List Header) : Prop :=
  ∀ h ∈ hs, offset ≤ h.num ∧ h.num < offset + cfg.cacheLen ∧ (cget c h.num).isSome = true

theorem deliverLoop_honest (cfg : Cfg) (k : Kind) (offset : Nat) :
    ∀ (hs : List Header) (a : DAcc), Slotted cfg offset a.cache hs →
      (deliverLoop cfg k offset hs (hs.map (root k)) a).1 = [] ∧
      (deliverLoop cfg k offset hs (hs.map (root k)) a).2.2 = Fail.none ∧
      (deliverLoop cfg k offset hs (hs.map (root k)) a).2.1.accepted = a.accepted + hs.length := by
  intro hs
  induction hs with
  | nil => intro a _; simp [deliverLoop]
  | cons h hs ih =>
    intro a hsl
    obtain ⟨h1, h2, h3⟩ := hsl h (by simp)
    have hw : ¬ (h.num < offset ∨ offset + cfg.cacheLen ≤ h.num) := by omega
    have hn : ¬ (cget a.cache h.num).isNone = true := by
      cases hc : cget a.cache h.num with
      | none => rw [hc] at h3; cases h3
      | some r => simp
    simp only [List.map_cons, deliverLoop, hw, if_false, hn, ne_eq, not_true_eq_false, Bool.false_eq_true]
    have hsl' : Slotted cfg offset (YouVerif.C18.complete a.cache k h (some (root k h))) hs := by
      intro x hx
      obtain ⟨x1, x2, x3⟩ := hsl x (by simp [hx])
      exact ⟨x1, x2, by rw [isSome_cget_complete]; exact x3⟩
    obtain ⟨r1, r2, r3⟩ := ih (⟨YouVerif.C18.complete a.cache k h (some (root k h)), removeAll h a.pool, insertSet h a.done, a.accepted + 1⟩ : DAcc) hsl'
    refine ⟨r1, r2, ?_⟩
    rw [r3]; simp only [List.length_cons]; omega

end YouVerif.C18
