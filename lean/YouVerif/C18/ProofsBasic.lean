/-
C18 — basic lemmas about the association lists, the sorted queue and the set-like lists of the model.
Everything is phrased with `List.count`, so that pool bookkeeping becomes linear arithmetic.
-/
import YouVerif.C18.Model
namespace YouVerif.C18

theorem schedOneFast_eq (s : State) (h : Header) : schedOneFast s h = schedOne s h := by
  simp only [schedOneFast, schedOne, addTask]
  congr 1
  funext k
  cases k with
  | body => simp
  | rcpt => cases s.cfg.fast <;> simp

/-! ### cache -/

theorem cget_cerase (c : Cache) (n m : Nat) : cget (cerase c n) m = if m = n then none else cget c m := by
  induction c with
  | nil => simp [cerase, cget]
  | cons e t ih =>
    obtain ⟨k, v⟩ := e
    simp only [cerase]
    by_cases hk : k = n
    · subst hk; simp only [if_true, ih, cget]
      by_cases hm : m = k
      · simp [hm]
      · have : ¬ k = m := fun h => hm h.symm
        simp [hm, this]
    · simp only [hk, if_false, cget, ih]
      by_cases hkm : k = m
      · subst hkm; simp [hk]
      · simp [hkm]

theorem cget_cset (c : Cache) (n m : Nat) (r : Result) :
    cget (cset c n r) m = if m = n then some r else cget c m := by
  simp only [cset, cget, cget_cerase]
  by_cases h : n = m
  · simp [h]
  · have : ¬ m = n := fun e => h e.symm
    simp [h, this]

theorem cget_ceraseRange (c : Cache) (lo n m : Nat) :
    cget (ceraseRange c lo n) m = if lo ≤ m ∧ m < lo + n then none else cget c m := by
  induction c with
  | nil => simp [ceraseRange, cget]
  | cons e t ih =>
    obtain ⟨k, v⟩ := e
    simp only [ceraseRange] at ih ⊢
    simp only [List.filter_cons]
    cases hb : (decide (k < lo) || decide (lo + n ≤ k)) with
    | true =>
      simp only [if_true, cget, ih]
      by_cases hkm : k = m
      · subst hkm
        simp only [Bool.or_eq_true, decide_eq_true_eq] at hb
        have : ¬ (lo ≤ k ∧ k < lo + n) := by omega
        simp [this]
      · simp [hkm]
    | false =>
      simp only [Bool.false_eq_true, if_false, ih, cget]
      by_cases hkm : k = m
      · subst hkm
        simp only [Bool.or_eq_false_iff, decide_eq_false_iff_not] at hb
        have : lo ≤ k ∧ k < lo + n := by omega
        simp [this]
      · simp [hkm]

/-! ### counting -/

theorem count_insertSorted (x h : Header) (q : List Header) :
    (insertSorted h q).count x = (h :: q).count x := by
  induction q with
  | nil => simp [insertSorted]
  | cons y ys ih =>
    simp only [insertSorted]
    split
    · rfl
    · simp only [List.count_cons] at ih ⊢
      omega

theorem count_pushAll (x : Header) (hs q : List Header) :
    (pushAll hs q).count x = hs.count x + q.count x := by
  induction hs generalizing q with
  | nil => simp [pushAll]
  | cons h t ih =>
    simp only [pushAll, List.foldl_cons] at ih ⊢
    rw [ih, count_insertSorted]
    simp only [List.count_cons]
    omega

theorem count_insertSet (x h : Header) (l : List Header) :
    (insertSet h l).count x = if h ∈ l then l.count x else (h :: l).count x := by
  simp only [insertSet]; split <;> rfl

theorem count_removeAll (x h : Header) (l : List Header) :
    (removeAll h l).count x = if x = h then 0 else l.count x := by
  induction l with
  | nil => simp [removeAll]
  | cons y ys ih =>
    simp only [removeAll, List.filter_cons] at ih ⊢
    by_cases hy : y = h
    · subst hy
      simp only [ne_eq, not_true_eq_false, decide_false, Bool.false_eq_true, if_false, ih, List.count_cons]
      by_cases hx : x = y
      · simp [hx]
      · have : ¬ y = x := fun e => hx e.symm
        simp [hx, this]
    · simp only [ne_eq, hy, not_false_eq_true, decide_true, if_true, List.count_cons, ih]
      by_cases hx : x = h
      · subst hx; simp [hy]
      · simp [hx]

theorem count_removeHeaders (x : Header) (rs : List Result) (l : List Header) :
    (removeHeaders rs l).count x = if (∃ r ∈ rs, r.header = x) then 0 else l.count x := by
  induction l with
  | nil => simp [removeHeaders]
  | cons y ys ih =>
    simp only [removeHeaders, List.filter_cons] at ih ⊢
    by_cases hy : (rs.any fun r => r.header == y) = true
    · simp only [hy, Bool.not_true, Bool.false_eq_true, if_false, ih, List.count_cons]
      by_cases hx : (∃ r ∈ rs, r.header = x)
      · simp [hx]
      · simp only [hx, if_false]
        have : ¬ (y == x) = true := by
          intro e
          have e' : y = x := by simpa using e
          subst e'
          apply hx
          simpa using hy
        simp [this]
    · have hy' : ¬ ∃ r ∈ rs, r.header = y := by simpa using hy
      simp only [hy, Bool.not_false, if_true, List.count_cons, ih]
      by_cases hx : (∃ r ∈ rs, r.header = x)
      · have : ¬ (y == x) = true := by
          intro e
          have e' : y = x := by simpa using e
          subst e'
          exact hy' hx
        simp [hx, this]
      · simp [hx]

theorem mem_iff_count_pos (x : Header) (l : List Header) : x ∈ l ↔ 0 < l.count x := by
  simp [List.count_pos_iff]

/-! ### pending pool -/

theorem count_pendAll_cons (x : Header) (p : Nat) (hs : List Header) (t : List (Nat × List Header)) :
    (pendAll ((p, hs) :: t)).count x = hs.count x + (pendAll t).count x := by
  simp [pendAll, List.count_append]

theorem count_pendAll_perase (x : Header) (pend : List (Nat × List Header)) (p : Nat) (hs : List Header)
    (h : pget pend p = some hs) :
    (pendAll pend).count x = hs.count x + (pendAll (perase pend p)).count x := by
  induction pend with
  | nil => simp [pget] at h
  | cons e t ih =>
    obtain ⟨k, v⟩ := e
    simp only [pget] at h
    simp only [perase]
    by_cases hk : k = p
    · simp only [hk, if_true, Option.some.injEq] at h ⊢
      subst h
      simp [pendAll, List.count_append]
    · simp only [hk, if_false] at h ⊢
      simp only [pendAll, List.count_append, ih h]
      omega

theorem pget_none_perase_of_none (pend : List (Nat × List Header)) (p q : Nat) (h : pget pend q = none) :
    pget (perase pend p) q = none := by
  induction pend with
  | nil => simp [perase, pget]
  | cons e t ih =>
    obtain ⟨k, v⟩ := e
    simp only [pget] at h
    simp only [perase]
    by_cases hkq : k = q
    · simp [hkq] at h
    · simp only [hkq, if_false] at h
      by_cases hk : k = p
      · simp [hk, h]
      · simp [hk, pget, hkq, ih h]

end YouVerif.C18
