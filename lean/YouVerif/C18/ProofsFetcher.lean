import YouVerif.C18.ModelFetcher
namespace YouVerif.C18.Fetcher

structure FInv (s : FState) : Prop where
  inflightQueued : ∀ h ∈ s.inflight, h ∈ s.queued
  queueQueued : ∀ h ∈ s.queue, h ∈ s.queued
  disjoint : ∀ h ∈ s.queue, h ∉ s.inflight
  queueNodup : s.queue.Nodup
  chainFree : ∀ h ∈ s.inflight, h ∉ s.chain

theorem finv_init : FInv {} :=
  ⟨by intro h hm; simp at hm, by intro h hm; simp at hm, by intro h hm; simp at hm, by simp, by intro h hm; simp at hm⟩

theorem finv_step {s : FState} (hi : FInv s) (e : Ev) : FInv (fstep s e).1 := by
  cases e with
  | deliver h =>
    simp only [fstep]
    split
    · exact hi
    · rename_i hq
      refine ⟨?_, ?_, ?_, ?_, hi.chainFree⟩
      · intro x hx; exact List.mem_cons_of_mem _ (hi.inflightQueued x hx)
      · intro x hx
        rcases List.mem_append.mp hx with h1 | h1
        · exact List.mem_cons_of_mem _ (hi.queueQueued x h1)
        · have : x = h := by simpa using h1
          rw [this]; exact List.mem_cons_self
      · intro x hx
        rcases List.mem_append.mp hx with h1 | h1
        · exact hi.disjoint x h1
        · have : x = h := by simpa using h1
          rw [this]; exact fun hin => hq (hi.inflightQueued h hin)
      · rw [List.nodup_append]
        refine ⟨hi.queueNodup, by simp, ?_⟩
        intro a ha b hb
        have : b = h := by simpa using hb
        rw [this]; intro e; rw [e] at ha; exact hq (hi.queueQueued h ha)
  | pop =>
    simp only [fstep]
    cases hq : s.queue with
    | nil => simp only []; exact hi
    | cons h q =>
      have hnd := hi.queueNodup
      rw [hq, List.nodup_cons] at hnd
      have hhq : h ∈ s.queue := by rw [hq]; exact List.mem_cons_self
      simp only []
      split
      · refine ⟨?_, ?_, ?_, hnd.2, hi.chainFree⟩
        · intro x hx
          have hxh : x ≠ h := fun e => hi.disjoint h hhq (e ▸ hx)
          simp [List.mem_filter, hi.inflightQueued x hx, hxh]
        · intro x hx
          have hxh : x ≠ h := fun e => hnd.1 (e ▸ hx)
          have : x ∈ s.queue := by rw [hq]; exact List.mem_cons_of_mem _ hx
          simp [List.mem_filter, hi.queueQueued x this, hxh]
        · intro x hx; exact hi.disjoint x (by rw [hq]; exact List.mem_cons_of_mem _ hx)
      · rename_i hc
        refine ⟨?_, ?_, ?_, hnd.2, ?_⟩
        · intro x hx
          rcases List.mem_cons.mp hx with rfl | h1
          · exact hi.queueQueued x hhq
          · exact hi.inflightQueued x h1
        · intro x hx; exact hi.queueQueued x (by rw [hq]; exact List.mem_cons_of_mem _ hx)
        · intro x hx hin
          rcases List.mem_cons.mp hin with rfl | h1
          · exact hnd.1 hx
          · exact hi.disjoint x (by rw [hq]; exact List.mem_cons_of_mem _ hx) h1
        · intro x hx
          rcases List.mem_cons.mp hx with rfl | h1
          · exact hc
          · exact hi.chainFree x h1
  | finish h ok =>
    simp only [fstep]
    split
    · rename_i hin
      refine ⟨?_, ?_, ?_, hi.queueNodup, ?_⟩
      · intro x hx
        obtain ⟨h1, h2⟩ := List.mem_filter.mp hx
        have hxh : x ≠ h := by simpa using h2
        simp [List.mem_filter, hi.inflightQueued x h1, hxh]
      · intro x hx
        have hxh : x ≠ h := fun e => hi.disjoint x hx (e ▸ hin)
        simp [List.mem_filter, hi.queueQueued x hx, hxh]
      · intro x hx hin'
        exact hi.disjoint x hx (List.mem_filter.mp hin').1
      · intro x hx
        obtain ⟨h1, h2⟩ := List.mem_filter.mp hx
        have hxh : x ≠ h := by simpa using h2
        cases ok with
        | true => simp only [if_true, List.mem_cons, not_or]; exact ⟨hxh, hi.chainFree x h1⟩
        | false => exact hi.chainFree x h1
    · exact hi

theorem finv_run {s : FState} (hi : FInv s) (evs : List Ev) : FInv (frun s evs) := by
  induction evs generalizing s with
  | nil => exact hi
  | cons e t ih => exact ih (finv_step hi e)

end YouVerif.C18.Fetcher
