import YouVerif.C15.ProofsStep
open YouVerif.C15
namespace YouVerif.C15.Proofs
open Gen

theorem natOfBytes_append (l : List Byte) (b : Byte) : natOfBytes (l ++ [b]) = natOfBytes l * 256 + b.toNat := by
  simp [natOfBytes, List.foldl_append]

theorem bytes_roundtrip : ∀ (n v : Nat), natOfBytes (bytesOfNat n v) = v % 256^n := by
  intro n; induction n with
  | zero => intro v; simp [bytesOfNat, natOfBytes, Nat.mod_one]
  | succ n ih =>
    intro v
    have e : v % 256^(n+1) = v % 256 + 256 * (v / 256 % 256^n) := by rw [Nat.pow_succ', Nat.mod_mul]
    rw [bytesOfNat, natOfBytes_append, ih, UInt8.toNat_ofNat', e]
    generalize v / 256 % 256 ^ n = q
    omega

theorem bytesOfNat_length : ∀ (n v : Nat), (bytesOfNat n v).length = n := by
  intro n; induction n with
  | zero => intro v; rfl
  | succ n ih => intro v; simp [bytesOfNat, ih]

theorem memRead_memWrite (m : List Byte) (off : Nat) (bs : List Byte) (h : off + bs.length ≤ m.length) :
    memRead (memWrite m off bs) off bs.length = bs := by
  unfold memRead memWrite
  have hl : (m.take off).length = off := by simp; omega
  rw [List.append_assoc, List.drop_append_of_le_length (by omega)]
  have : List.drop off (List.take off m) = [] := by
    apply List.drop_eq_nil_of_le; omega
  rw [this, List.nil_append, List.take_append_of_le_length (by omega), List.take_length]

theorem memResize_length (m : List Byte) (n : Nat) : n ≤ (memResize m n).length := by
  unfold memResize; split
  · simp; omega
  · omega

theorem memWrite_length (m : List Byte) (off : Nat) (bs : List Byte) (h : off + bs.length ≤ m.length) :
    (memWrite m off bs).length = m.length := by
  unfold memWrite; simp; omega


set_option maxRecDepth 100000 in
theorem table_mem :
    (table[0x51]?).map Spec.view = some { valid := true, constGas := 3, minStack := 1, maxStack := 1024, halts := false, jumps := false, reverts := false, writes := false, exec := .opMload, dyn := .pureMemoryGascost, mem := .memoryMLoad } ∧
    (table[0x52]?).map Spec.view = some { valid := true, constGas := 3, minStack := 2, maxStack := 1026, halts := false, jumps := false, reverts := false, writes := false, exec := .opMstore, dyn := .pureMemoryGascost, mem := .memoryMStore } ∧
    (table[0x54]?).map Spec.view = some { valid := true, constGas := 800, minStack := 1, maxStack := 1024, halts := false, jumps := false, reverts := false, writes := false, exec := .opSload, dyn := .none, mem := .none } ∧
    (table[0x55]?).map Spec.view = some { valid := true, constGas := 0, minStack := 2, maxStack := 1026, halts := false, jumps := false, reverts := false, writes := true, exec := .opSstore, dyn := .gasSStoreEIP2200, mem := .none } := by
  decide

/-- size the memory is grown to for a 32-byte access at `off` -/
def msize32 (off : Int) : Nat := ((off + 32).toNat + 31) / 32 * 32

theorem step_mstore (code : Array Byte) (s s1 : VM) (off v : Int) (rest : List Int)
    (hcode : (code.getD s.pc 0).toNat = 0x52) (hst : s.stack = off :: v :: rest)
    (h : step code s = .next s1) :
    s1.stack = rest ∧ s1.mem = memWrite (memResize s.mem (msize32 off)) off.toNat (bytesOfNat 32 v.natAbs) ∧ s1.store = s.store := by
  obtain ⟨info, hinfo, hview⟩ := Option.map_eq_some_iff.1 table_mem.2.1
  simp only [Spec.view, Spec.View.mk.injEq] at hview
  obtain ⟨hv, hcg, hmin, hmax, hh, hj, hr, _, hex, hdyn, hmem⟩ := hview
  unfold step at h
  simp only [hcode, hinfo, hv, hcg, hmin, hmax, hh, hj, hr, hmem, hdyn, hex, hst, Bool.not_true, Bool.false_eq_true,
    if_false, memRequest, calcMemSize, Bool.or_self, dynamicGas, execute, applyExec, memorySize] at h
  repeat' split at h
  all_goals first | (cases h; done) | skip
  rename_i h1 h2 h3 _ msz heq1 _ g mg rf heq2 h4
  cases h
  refine ⟨rfl, ?_, rfl⟩
  have hm : msz = msize32 off := by
    simp only [show ¬ (32:Int) = 0 by decide, if_false] at heq1
    split at heq1
    · cases heq1
    · split at heq1
      · cases heq1
      · cases heq1; rfl
  rw [hm]


theorem step_mload (code : Array Byte) (s s1 : VM) (off : Int) (rest : List Int)
    (hcode : (code.getD s.pc 0).toNat = 0x51) (hst : s.stack = off :: rest)
    (h : step code s = .next s1) :
    s1.stack = Int.ofNat (natOfBytes (memRead (memResize s.mem (msize32 off)) off.toNat 32)) :: rest := by
  obtain ⟨info, hinfo, hview⟩ := Option.map_eq_some_iff.1 table_mem.1
  simp only [Spec.view, Spec.View.mk.injEq] at hview
  obtain ⟨hv, hcg, hmin, hmax, hh, hj, hr, _, hex, hdyn, hmem⟩ := hview
  unfold step at h
  simp only [hcode, hinfo, hv, hcg, hmin, hmax, hh, hj, hr, hmem, hdyn, hex, hst, Bool.not_true, Bool.false_eq_true,
    if_false, memRequest, calcMemSize, Bool.or_self, dynamicGas, execute, applyExec, memorySize] at h
  repeat' split at h
  all_goals first | (cases h; done) | skip
  rename_i h1 h2 h3 _ msz heq1 _ g mg rf heq2 h4
  cases h
  have hm : msz = msize32 off := by
    simp only [show ¬ (32:Int) = 0 by decide, if_false] at heq1
    split at heq1
    · cases heq1
    · split at heq1
      · cases heq1
      · cases heq1; rfl
  rw [hm]

theorem step_sstore (code : Array Byte) (s s1 : VM) (k v : Int) (rest : List Int)
    (hcode : (code.getD s.pc 0).toNat = 0x55) (hst : s.stack = k :: v :: rest)
    (h : step code s = .next s1) :
    s1.stack = rest ∧ s1.store = (hashKey k, hashKey v) :: s.store ∧ s1.orig = s.orig ∧ s1.mem = s.mem := by
  obtain ⟨info, hinfo, hview⟩ := Option.map_eq_some_iff.1 table_mem.2.2.2
  simp only [Spec.view, Spec.View.mk.injEq] at hview
  obtain ⟨hv, hcg, hmin, hmax, hh, hj, hr, _, hex, hdyn, hmem⟩ := hview
  unfold step at h
  simp only [hcode, hinfo, hv, hcg, hmin, hmax, hh, hj, hr, hmem, hdyn, hex, hst, Bool.not_true, Bool.false_eq_true,
    if_false, memRequest, Bool.or_self, dynamicGas, execute, applyExec, memorySize_zero, memResize_zero] at h
  repeat' split at h
  all_goals first | (cases h; done) | skip
  all_goals (cases h; exact ⟨rfl, rfl, rfl, rfl⟩)

theorem step_sload (code : Array Byte) (s s1 : VM) (k : Int) (rest : List Int)
    (hcode : (code.getD s.pc 0).toNat = 0x54) (hst : s.stack = k :: rest)
    (h : step code s = .next s1) :
    s1.stack = Int.ofNat (s.current (hashKey k)) :: rest := by
  obtain ⟨info, hinfo, hview⟩ := Option.map_eq_some_iff.1 table_mem.2.2.1
  simp only [Spec.view, Spec.View.mk.injEq] at hview
  obtain ⟨hv, hcg, hmin, hmax, hh, hj, hr, _, hex, hdyn, hmem⟩ := hview
  unfold step at h
  simp only [hcode, hinfo, hv, hcg, hmin, hmax, hh, hj, hr, hmem, hdyn, hex, hst, Bool.not_true, Bool.false_eq_true,
    if_false, memRequest, Bool.or_self, dynamicGas, execute, applyExec, memorySize_zero, memResize_zero] at h
  repeat' split at h
  all_goals first | (cases h; done) | skip
  all_goals (cases h; rfl)

theorem memResize_of_le (m : List Byte) (n : Nat) (h : n ≤ m.length) : memResize m n = m := by
  unfold memResize; rw [if_neg (by omega)]

theorem msize32_ge (off : Int) (h : 0 ≤ off) : off.toNat + 32 ≤ msize32 off := by
  unfold msize32; omega

/-- MSTORE then MLOAD at the same offset reads back the stored word -/
theorem mstore_mload (code1 code2 : Array Byte) (s s1 s2 s3 : VM) (off v : Int) (rest rest2 : List Int)
    (hoff : 0 ≤ off) (hv : 0 ≤ v ∧ v < 2^256)
    (h1c : (code1.getD s.pc 0).toNat = 0x52) (h1s : s.stack = off :: v :: rest) (h1 : step code1 s = .next s1)
    (hmem : s2.mem = s1.mem)
    (h2c : (code2.getD s2.pc 0).toNat = 0x51) (h2s : s2.stack = off :: rest2) (h2 : step code2 s2 = .next s3) :
    s3.stack = v :: rest2 := by
  obtain ⟨_, hm1, _⟩ := step_mstore code1 s s1 off v rest h1c h1s h1
  have h3 := step_mload code2 s2 s3 off rest2 h2c h2s h2
  rw [h3, hmem, hm1]
  have hge := msize32_ge off hoff
  have hlen1 := memResize_length s.mem (msize32 off)
  have hb : (bytesOfNat 32 v.natAbs).length = 32 := bytesOfNat_length _ _
  have hwl : (memWrite (memResize s.mem (msize32 off)) off.toNat (bytesOfNat 32 v.natAbs)).length
      = (memResize s.mem (msize32 off)).length := memWrite_length _ _ _ (by omega)
  have hres : memResize (memWrite (memResize s.mem (msize32 off)) off.toNat (bytesOfNat 32 v.natAbs)) (msize32 off)
      = memWrite (memResize s.mem (msize32 off)) off.toNat (bytesOfNat 32 v.natAbs) :=
    memResize_of_le _ _ (by omega)
  have hrd := memRead_memWrite (memResize s.mem (msize32 off)) off.toNat (bytesOfNat 32 v.natAbs) (by omega)
  rw [hb] at hrd
  rw [hres, hrd, bytes_roundtrip]
  have hnat : v.natAbs % 256^32 = v.natAbs := by
    apply Nat.mod_eq_of_lt
    have e : (256:Nat)^32 = 115792089237316195423570985008687907853269984665640564039457584007913129639936 := by norm_num
    have e' : (2:Int)^256 = 115792089237316195423570985008687907853269984665640564039457584007913129639936 := by norm_num
    rw [e]; rw [e'] at hv; omega
  rw [hnat, Int.ofNat_eq_natCast, Int.natAbs_of_nonneg hv.1]

theorem lookup_cons_self (k v : Nat) (m : List (Nat × Nat)) : lookup ((k, v) :: m) k = some v := by
  simp [lookup, List.find?]

/-- SSTORE then SLOAD of the same key reads back the stored word -/
theorem sstore_sload (code1 code2 : Array Byte) (s s1 s2 s3 : VM) (k v : Int) (rest rest2 : List Int)
    (hv : 0 ≤ v ∧ v < 2^256)
    (h1c : (code1.getD s.pc 0).toNat = 0x55) (h1s : s.stack = k :: v :: rest) (h1 : step code1 s = .next s1)
    (hstore : s2.store = s1.store)
    (h2c : (code2.getD s2.pc 0).toNat = 0x54) (h2s : s2.stack = k :: rest2) (h2 : step code2 s2 = .next s3) :
    s3.stack = v :: rest2 := by
  obtain ⟨_, hs1, _, _⟩ := step_sstore code1 s s1 k v rest h1c h1s h1
  have h3 := step_sload code2 s2 s3 k rest2 h2c h2s h2
  rw [h3]
  congr 1
  simp only [VM.current, hstore, hs1, lookup_cons_self, Option.getD_some, hashKey, Int.ofNat_eq_natCast]
  omega

end YouVerif.C15.Proofs
