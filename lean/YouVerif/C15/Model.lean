/-
C15 — executable model of the EVM interpreter loop (core/vm/interpreter.go `Run`) restricted to straight-line
programs over: the translated computational opcodes (bodies and table facts come from `Gen`, regenerated from
/repo), and hand-modelled PUSH1..32, DUP1..16, SWAP1..16, POP, MLOAD, MSTORE, MSTORE8, SLOAD, SSTORE, PC, MSIZE,
GAS, JUMPDEST, RETURN, STOP (instructions.go, stack.go, memory.go, gas_table.go).  Core Lean only.

Every per-opcode fact the loop uses (valid, min/max stack, constant gas, which execute / dynamic-gas /
memory-size function, halts) is read from the live jump table `Gen.table`; the only thing derived from the
opcode number is the closure parameter of makePush/makeDup/makeSwap (not visible in a function value).
Anything else (calls, jumps, logs, copies, environment) yields `Step.unsupported`.
-/
import YouVerif.C15.Gen
namespace YouVerif.C15
open Gen

abbrev Byte := UInt8

/-- big-endian bytes → Nat -/
def natOfBytes (bs : List Byte) : Nat := bs.foldl (fun acc b => acc * 256 + b.toNat) 0

/-- the `n` low-order bytes of `v`, big-endian (what `Memory.Set32`/`ReadBits` and `common.BigToHash` keep) -/
def bytesOfNat : Nat → Nat → List Byte
  | 0, _ => []
  | n + 1, v => bytesOfNat n (v / 256) ++ [UInt8.ofNat (v % 256)]

structure VM where
  stack : List Int := []            -- top first; `Stack.data` reversed
  mem : List Byte := []             -- `Memory.store`
  memGas : Nat := 0                 -- `Memory.lastGasCost`
  store : List (Nat × Nat) := []    -- storage written by this execution (latest first)
  orig : List (Nat × Nat) := []     -- committed storage
  gas : Nat := 0
  refund : Nat := 0
  pc : Nat := 0

inductive Fail where
  | invalid | underflow | overflow | oog | gasOverflow
  deriving DecidableEq, Repr

inductive Step where
  | next (s : VM)
  | halt (ret : List Byte) (s : VM)
  | fail (f : Fail)
  | unsupported (op : Nat)

def lookup (m : List (Nat × Nat)) (k : Nat) : Option Nat := (m.find? (·.1 == k)).map (·.2)

def VM.committed (s : VM) (k : Nat) : Nat := (lookup s.orig k).getD 0
def VM.current (s : VM) (k : Nat) : Nat := (lookup s.store k).getD (s.committed k)

/-- `common.BigToHash`: the low 32 bytes of `|x|` -/
def hashKey (x : Int) : Nat := x.natAbs % 2 ^ 256

def memResize (m : List Byte) (n : Nat) : List Byte :=
  if m.length < n then m ++ List.replicate (n - m.length) 0 else m

def memWrite (m : List Byte) (off : Nat) (bs : List Byte) : List Byte :=
  m.take off ++ bs ++ m.drop (off + bs.length)

def memRead (m : List Byte) (off n : Nat) : List Byte := (m.drop off).take n

/-- `calcMemSize` (common.go) -/
def calcMemSize (off l : Int) : Int := if l = 0 then 0 else off + l

/-- the `memorySize` function of the operation applied to the stack (memory_table.go) -/
def memRequest : MemSize → List Int → Option Int
  | .none, _ => some 0
  | .memoryMLoad, off :: _ => some (calcMemSize off 32)
  | .memoryMStore, off :: _ => some (calcMemSize off 32)
  | .memoryMStore8, off :: _ => some (calcMemSize off 1)
  | .memoryReturn, off :: l :: _ => some (calcMemSize off l)
  | _, _ => none

/-- interpreter.go: `bigUint64` overflow, then `SafeMul(toWordSize(memSize), 32)` -/
def memorySize (req : Int) : Except Fail Nat :=
  if req ≥ 2 ^ 64 then .error .gasOverflow
  else if req > 2 ^ 64 - 32 then .error .gasOverflow
  else .ok ((req.toNat + 31) / 32 * 32)

/-- gas_table.go `memoryGasCost`: (fee, new lastGasCost) -/
def memoryGasCost (s : VM) (newSize : Nat) : Except Fail (Nat × Nat) :=
  if newSize = 0 then .ok (0, s.memGas)
  else if newSize > 0xffffffffe0 then .error .oog
  else
    let words := (newSize + 31) / 32
    if words * 32 > s.mem.length then
      let total := words * 3 + words * words / 512
      .ok (total - s.memGas, total)
    else .ok (0, s.memGas)

/-- gas_table.go `gasSStoreEIP2200`: (gas, new refund counter) -/
def gasSStore2200 (s : VM) (key value : Nat) : Except Fail (Nat × Nat) :=
  if s.gas ≤ 2300 then .error .oog else
  let current := s.current key
  if current = value then .ok (800, s.refund) else
  let original := s.committed key
  if original = current then
    if original = 0 then .ok (20000, s.refund)
    else if value = 0 then .ok (5000, s.refund + 15000)
    else .ok (5000, s.refund)
  else
    let r := s.refund
    let r := if original ≠ 0 then
               (if current = 0 then r - 15000 else if value = 0 then r + 15000 else r)
             else r
    let r := if original = value then (if original = 0 then r + 19200 else r + 4200) else r
    .ok (800, r)

/-- dynamic gas of the operation: (gas, new lastGasCost, new refund) -/
def dynamicGas (d : DynGas) (s : VM) (memSize : Nat) : Option (Except Fail (Nat × Nat × Nat)) :=
  match d, s.stack with
  | .none, _ => some (.ok (0, s.memGas, s.refund))
  | .pureMemoryGascost, _ => some ((memoryGasCost s memSize).map fun (g, m) => (g, m, s.refund))
  | .gasExp, _ :: e :: _ => some (.ok ((((Big.bitLen e).toNat + 7) / 8) * 50 + 10, s.memGas, s.refund))
  | .gasSStoreEIP2200, k :: v :: _ => some ((gasSStore2200 s (hashKey k) (hashKey v)).map fun (g, r) => (g, s.memGas, r))
  | _, _ => none

/-- the bytes a PUSHn reads: `code[pc+1 .. pc+n]`, zero beyond the end of the code -/
def pushData (code : Array Byte) (pc n : Nat) : List Byte :=
  (List.range n).map fun i => code.getD (pc + 1 + i) 0

inductive Exe where
  | cont (s : VM)                  -- continue; pc not yet advanced
  | halt (ret : List Byte) (s : VM)
  | unsupported

/-- the `execute` function of the operation -/
def execute (info : OpInfo) (code : Array Byte) (s : VM) : Exe :=
  match applyExec info.exec s.stack with
  | some st => .cont { s with stack := st }
  | none =>
    match info.exec, s.stack with
    | .opStop, _ => .halt [] s
    | .opPop, _ :: rest => .cont { s with stack := rest }
    | .opMload, off :: rest =>
        .cont { s with stack := Int.ofNat (natOfBytes (memRead s.mem off.toNat 32)) :: rest }
    | .opMstore, off :: v :: rest =>
        .cont { s with stack := rest, mem := memWrite s.mem off.toNat (bytesOfNat 32 v.natAbs) }
    | .opMstore8, off :: v :: rest =>
        .cont { s with stack := rest, mem := memWrite s.mem off.toNat [UInt8.ofNat (v.natAbs % 256)] }
    | .opSload, k :: rest => .cont { s with stack := Int.ofNat (s.current (hashKey k)) :: rest }
    | .opSstore, k :: v :: rest => .cont { s with stack := rest, store := (hashKey k, hashKey v) :: s.store }
    | .opPc, st => .cont { s with stack := Int.ofNat s.pc :: st }
    | .opMsize, st => .cont { s with stack := Int.ofNat s.mem.length :: st }
    | .opGas, st => .cont { s with stack := Int.ofNat s.gas :: st }
    | .opJumpdest, _ => .cont s
    | .makePush, st =>
        let n := info.op - 0x5f
        .cont { s with stack := Int.ofNat (natOfBytes (pushData code s.pc n)) :: st, pc := s.pc + n }
    | .makeDup, st =>
        match st[info.op - 0x80]? with
        | some v => .cont { s with stack := v :: st }
        | none => .unsupported
    | .makeSwap, a :: rest =>
        let n := info.op - 0x90
        match rest[n]? with
        | some b => .cont { s with stack := b :: rest.set n a }
        | none => .unsupported
    | .opReturn, off :: l :: _ =>
        .halt (if l = 0 then [] else memRead s.mem off.toNat l.toNat) s
    | _, _ => .unsupported

/-- one iteration of the interpreter loop -/
def step (code : Array Byte) (s : VM) : Step :=
  let op := (code.getD s.pc 0).toNat          -- `contract.GetOp`: STOP beyond the end
  match table[op]? with
  | none => .fail .invalid
  | some info =>
  if !info.valid then .fail .invalid
  else if s.stack.length < info.minStack then .fail .underflow
  else if s.stack.length > info.maxStack then .fail .overflow
  else if s.gas < info.constGas then .fail .oog
  else
    let s := { s with gas := s.gas - info.constGas }
    match memRequest info.mem s.stack with
    | none => .unsupported op
    | some req =>
    match memorySize req with
    | .error f => .fail f
    | .ok msz =>
    match dynamicGas info.dyn s msz with
    | none => .unsupported op
    | some (.error f) => .fail f
    | some (.ok (g, memGas, refund)) =>
    if s.gas < g then .fail .oog
    else
      -- `mem.Resize(memorySize)` (a no-op for size 0, so the `if memorySize > 0` guard is not modelled)
      let s := { s with gas := s.gas - g, memGas := memGas, refund := refund, mem := memResize s.mem msz }
      if info.jumps || info.reverts then .unsupported op else
      match execute info code s with
      | .unsupported => .unsupported op
      | .halt ret s => if info.halts then .halt ret s else .unsupported op
      | .cont s => if info.halts then .unsupported op else .next { s with pc := s.pc + 1 }

inductive Outcome where
  | ok (ret : List Byte) (s : VM)
  | fail (f : Fail)
  | unsupported (op : Nat)
  | outOfFuel

/-- run at most `fuel` steps (a straight-line program of `n` bytes halts within `n + 1` steps) -/
def run (code : Array Byte) : Nat → VM → Outcome
  | 0, _ => .outOfFuel
  | fuel + 1, s =>
    match step code s with
    | .next s' => run code fuel s'
    | .halt ret s' => .ok ret s'
    | .fail f => .fail f
    | .unsupported op => .unsupported op

def exec (code : Array Byte) (gas : Nat) (orig : List (Nat × Nat)) : Outcome :=
  run code (code.size + 1) { gas := gas, orig := orig }

end YouVerif.C15
