import YouVerif.C15.Model
namespace YouVerif.C15.Props
open YouVerif.C15

set_option maxRecDepth 100000 in
theorem table_has_256_entries : Gen.table.length = 256 := by decide

end YouVerif.C15.Props
