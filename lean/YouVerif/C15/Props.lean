/-
C15 — property theorems.  "Every EVM computational opcode computes its specified 256-bit function".

`Gen.*` is regenerated from /repo on every check run (opcode bodies of core/vm/instructions.go, helpers of
common/math, the live Istanbul jump table); `Spec.*` (ModelSpec.lean, ModelTableSpec.lean) is the Yellow-Paper
specification; `step` (Model.lean) is the interpreter loop of core/vm/interpreter.go.
-/
import YouVerif.C15.ProofsStep
import YouVerif.C15.ProofsMem
namespace YouVerif.C15.Props
open YouVerif.C15 YouVerif.C15.Proofs

/-! ### 1. each translated opcode body computes the specified function, for ALL 256-bit operands
(operands are passed as the interpreter holds them: non-negative integers below 2^256; first operand = top of stack) -/

theorem opAdd_spec (x y : BitVec 256) : Gen.opAdd x.toNat y.toNat = (Spec.add x y).toNat := Proofs.opAdd_spec x y
theorem opMul_spec (x y : BitVec 256) : Gen.opMul x.toNat y.toNat = (Spec.mul x y).toNat := Proofs.opMul_spec x y
theorem opSub_spec (x y : BitVec 256) : Gen.opSub x.toNat y.toNat = (Spec.sub x y).toNat := Proofs.opSub_spec x y
/-- division by zero gives 0 -/
theorem opDiv_spec (x y : BitVec 256) : Gen.opDiv x.toNat y.toNat = (Spec.div x y).toNat := Proofs.opDiv_spec x y
/-- division by zero gives 0; truncation towards zero; −2^255 / −1 = −2^255 -/
theorem opSdiv_spec (x y : BitVec 256) : Gen.opSdiv x.toNat y.toNat = (Spec.sdiv x y).toNat := Proofs.opSdiv_spec x y
theorem opMod_spec (x y : BitVec 256) : Gen.opMod x.toNat y.toNat = (Spec.mod x y).toNat := Proofs.opMod_spec x y
/-- the result takes the sign of the dividend -/
theorem opSmod_spec (x y : BitVec 256) : Gen.opSmod x.toNat y.toNat = (Spec.smod x y).toNat := Proofs.opSmod_spec x y
theorem opAddmod_spec (x y m : BitVec 256) : Gen.opAddmod x.toNat y.toNat m.toNat = (Spec.addmod x y m).toNat :=
  Proofs.opAddmod_spec x y m
theorem opMulmod_spec (x y m : BitVec 256) : Gen.opMulmod x.toNat y.toNat m.toNat = (Spec.mulmod x y m).toNat :=
  Proofs.opMulmod_spec x y m
/-- the square-and-multiply loop over the machine words of the exponent computes `x ^ y mod 2^256` -/
theorem opExp_spec (x y : BitVec 256) : Gen.opExp x.toNat y.toNat = (Spec.exp x y).toNat := Proofs.opExp_spec x y
/-- index ≥ 31 leaves the value unchanged -/
theorem opSignExtend_spec (b x : BitVec 256) : Gen.opSignExtend b.toNat x.toNat = (Spec.signextend b x).toNat :=
  Proofs.opSignExtend_spec b x
theorem opLt_spec (x y : BitVec 256) : Gen.opLt x.toNat y.toNat = (Spec.lt x y).toNat := Proofs.opLt_spec x y
theorem opGt_spec (x y : BitVec 256) : Gen.opGt x.toNat y.toNat = (Spec.gt x y).toNat := Proofs.opGt_spec x y
theorem opSlt_spec (x y : BitVec 256) : Gen.opSlt x.toNat y.toNat = (Spec.slt x y).toNat := Proofs.opSlt_spec x y
theorem opSgt_spec (x y : BitVec 256) : Gen.opSgt x.toNat y.toNat = (Spec.sgt x y).toNat := Proofs.opSgt_spec x y
theorem opEq_spec (x y : BitVec 256) : Gen.opEq x.toNat y.toNat = (Spec.eq x y).toNat := Proofs.opEq_spec x y
theorem opIszero_spec (x : BitVec 256) : Gen.opIszero x.toNat = (Spec.iszero x).toNat := Proofs.opIszero_spec x
theorem opAnd_spec (x y : BitVec 256) : Gen.opAnd x.toNat y.toNat = (Spec.and x y).toNat := Proofs.opAnd_spec x y
theorem opOr_spec (x y : BitVec 256) : Gen.opOr x.toNat y.toNat = (Spec.or x y).toNat := Proofs.opOr_spec x y
theorem opXor_spec (x y : BitVec 256) : Gen.opXor x.toNat y.toNat = (Spec.xor x y).toNat := Proofs.opXor_spec x y
theorem opNot_spec (x : BitVec 256) : Gen.opNot x.toNat = (Spec.not x).toNat := Proofs.opNot_spec x
/-- index ≥ 32 gives 0 -/
theorem opByte_spec (i x : BitVec 256) : Gen.opByte i.toNat x.toNat = (Spec.byte i x).toNat := Proofs.opByte_spec i x
/-- shifts ≥ 256 give 0 -/
theorem opSHL_spec (s x : BitVec 256) : Gen.opSHL s.toNat x.toNat = (Spec.shl s x).toNat := Proofs.opSHL_spec s x
theorem opSHR_spec (s x : BitVec 256) : Gen.opSHR s.toNat x.toNat = (Spec.shr s x).toNat := Proofs.opSHR_spec s x
/-- shifts ≥ 256 give 0 or −1 by the sign -/
theorem opSAR_spec (s x : BitVec 256) : Gen.opSAR s.toNat x.toNat = (Spec.sar s x).toNat := Proofs.opSAR_spec s x

/-! ### 2. the jump table sends every computational opcode to the right function with the specified flags and fee -/

/-- for every opcode of the computational groups the live table entry is exactly the expected one: valid,
the specified static fee, δ operands required and room for one result, not halting/jumping/reverting/writing,
no memory function, executed by the Go function the specification names -/
theorem table_facts : ∀ op ∈ Spec.computational,
    (Gen.table[op]?).map Spec.view = some (Spec.expectedView op) := Proofs.table_view

/-- constant gas = the specified static fee (EXP: its fee, static part included, is charged by `gasExp`) -/
theorem gas_table : ∀ op ∈ Spec.computational, op ≠ 0x0a →
    (Gen.table[op]?).map (fun i => (i.constGas, i.dyn)) = some (Spec.staticGas op, Gen.DynGas.none) := by
  intro op hop hne
  obtain ⟨info, hinfo, hview⟩ := Option.map_eq_some_iff.1 (Proofs.table_view op hop)
  simp only [Spec.view, Spec.expectedView, Spec.View.mk.injEq, hne, if_false] at hview
  simp [hinfo, hview.2.1, hview.2.2.2.2.2.2.2.2.2.1]

/-! ### 3. stack frame: on a stack of words the function named by the table consumes exactly its operands,
leaves the specified result, and every other item is untouched; results are again words (in range) -/

theorem stack_frame (op : Nat) (hop : op ∈ Spec.computational) (ws ws' : List (BitVec 256))
    (happ : Spec.apply op ws = some ws') :
    Gen.applyExec (Spec.execOf op) (enc ws) = some (enc ws') := Proofs.applyExec_spec op hop ws ws' happ

/-- every item of an encoded stack — in particular every result — is in `[0, 2^256)` -/
theorem result_in_range (ws : List (BitVec 256)) : ∀ v ∈ enc ws, 0 ≤ v ∧ v < 2 ^ 256 := by
  intro v hv
  simp only [enc, List.mem_map] at hv
  obtain ⟨w, _, rfl⟩ := hv
  have := w.isLt
  omega

/-! ### 4. the interpreter loop: one step on a computational opcode, anywhere in any program -/

/-- With `ws` on the stack (at most 1024 items), enough operands and at least the specified gas, one iteration
of the interpreter loop on a computational opcode replaces the operands by the specified result, leaves the
rest of the stack, memory, storage and refund counter untouched, charges exactly the specified gas
(static fee; EXP: 10 + 50 per exponent byte) and advances the program counter by one. -/
theorem computational_step (code : Array Byte) (s : VM) (op : Nat) (ws ws' : List (BitVec 256))
    (hop : op ∈ Spec.computational) (hcode : (code.getD s.pc 0).toNat = op)
    (hstack : s.stack = enc ws) (hlen : ws.length ≤ 1024)
    (happ : Spec.apply op ws = some ws') (hgas : Spec.gas op ws ≤ s.gas) :
    step code s = .next { s with stack := enc ws', gas := s.gas - Spec.gas op ws, pc := s.pc + 1 } :=
  Proofs.computational_step code s op ws ws' hop hcode hstack hlen happ hgas


/-- program level: running any program from a state that is at a computational opcode is running it from the
state with the specified result, the specified gas charged and everything else untouched — whatever the rest of
the program stores or returns is computed from the specified value -/
theorem computational_run (code : Array Byte) (s : VM) (op : Nat) (ws ws' : List (BitVec 256)) (fuel : Nat)
    (hop : op ∈ Spec.computational) (hcode : (code.getD s.pc 0).toNat = op)
    (hstack : s.stack = enc ws) (hlen : ws.length ≤ 1024)
    (happ : Spec.apply op ws = some ws') (hgas : Spec.gas op ws ≤ s.gas) :
    run code (fuel + 1) s =
      run code fuel { s with stack := enc ws', gas := s.gas - Spec.gas op ws, pc := s.pc + 1 } := by
  rw [run, Proofs.computational_step code s op ws ws' hop hcode hstack hlen happ hgas]

/-- too few operands: the step fails with a stack underflow (and the caller consumes all gas) -/
theorem computational_underflow (code : Array Byte) (s : VM) (op : Nat)
    (hop : op ∈ Spec.computational) (hcode : (code.getD s.pc 0).toNat = op)
    (hlen : s.stack.length < Spec.arityOf op) : step code s = .fail .underflow :=
  Proofs.computational_underflow code s op hop hcode hlen

/-- less than the specified gas: the step fails with out-of-gas, never with a result -/
theorem computational_out_of_gas (code : Array Byte) (s : VM) (op : Nat) (ws ws' : List (BitVec 256))
    (hop : op ∈ Spec.computational) (hcode : (code.getD s.pc 0).toNat = op)
    (hstack : s.stack = enc ws) (hlen : ws.length ≤ 1024)
    (happ : Spec.apply op ws = some ws') (hgas : s.gas < Spec.gas op ws) :
    step code s = .fail .oog :=
  Proofs.computational_out_of_gas code s op ws ws' hop hcode hstack hlen happ hgas

/-! ### 5. memory and storage opcodes read back what was written
(stated on successful steps: `step … = .next …` means the stack and gas checks of the loop passed) -/

/-- MSTORE(off, v) followed — after any steps that leave the memory unchanged — by MLOAD(off) yields `v`;
other stack items of the loading state are untouched -/
theorem mstore_mload (code1 code2 : Array Byte) (s s1 s2 s3 : VM) (off v : Int) (rest rest2 : List Int)
    (hoff : 0 ≤ off) (hv : 0 ≤ v ∧ v < 2^256)
    (h1c : (code1.getD s.pc 0).toNat = 0x52) (h1s : s.stack = off :: v :: rest) (h1 : step code1 s = .next s1)
    (hmem : s2.mem = s1.mem)
    (h2c : (code2.getD s2.pc 0).toNat = 0x51) (h2s : s2.stack = off :: rest2) (h2 : step code2 s2 = .next s3) :
    s3.stack = v :: rest2 :=
  Proofs.mstore_mload code1 code2 s s1 s2 s3 off v rest rest2 hoff hv h1c h1s h1 hmem h2c h2s h2

/-- SSTORE(k, v) followed — after any steps that leave the written storage unchanged — by SLOAD(k) yields `v` -/
theorem sstore_sload (code1 code2 : Array Byte) (s s1 s2 s3 : VM) (k v : Int) (rest rest2 : List Int)
    (hv : 0 ≤ v ∧ v < 2^256)
    (h1c : (code1.getD s.pc 0).toNat = 0x55) (h1s : s.stack = k :: v :: rest) (h1 : step code1 s = .next s1)
    (hstore : s2.store = s1.store)
    (h2c : (code2.getD s2.pc 0).toNat = 0x54) (h2s : s2.stack = k :: rest2) (h2 : step code2 s2 = .next s3) :
    s3.stack = v :: rest2 :=
  Proofs.sstore_sload code1 code2 s s1 s2 s3 k v rest rest2 hv h1c h1s h1 hstore h2c h2s h2

/-- the hypotheses of `mstore_mload` are satisfiable: `MSTORE` then `MLOAD` at offset 5 (test on literals) -/
example : ∃ s1 s3, step #[0x52, 0x51] { stack := [5, 77, 9], gas := 100 } = .next s1 ∧
    step #[0x52, 0x51] { s1 with stack := [5, 9] } = .next s3 ∧ s3.stack = [77, 9] := by
  refine ⟨_, _, rfl, rfl, ?_⟩
  decide

/-! ### non-vacuity and test vectors (tests on literals, by evaluation) -/

example : Spec.apply 0x05 [BitVec.ofInt 256 (-2^255), BitVec.ofInt 256 (-1)] = some [BitVec.ofInt 256 (-2^255)] := by decide
example : Spec.apply 0x07 [BitVec.ofInt 256 (-8), BitVec.ofInt 256 3] = some [BitVec.ofInt 256 (-2)] := by decide
example : Spec.apply 0x04 [5, 0] = some [0] := by decide
example : Spec.signextend 0 0xff = BitVec.ofInt 256 (-1) := by decide
example : Spec.signextend 0 0x7f = 0x7f := by decide
example : Spec.signextend 31 0xff = 0xff := by decide
example : Spec.byte 31 0x1234 = 0x34 := by decide
example : Spec.byte 32 0x1234 = 0 := by decide
example : Spec.shl 256 1 = 0 := by decide
example : Spec.shl 255 1 = BitVec.ofNat 256 (2^255) := by decide
example : Spec.sar 300 (BitVec.ofInt 256 (-5)) = BitVec.ofInt 256 (-1) := by decide
example : Spec.sar 1 (BitVec.ofInt 256 (-5)) = BitVec.ofInt 256 (-3) := by decide
example : Gen.opExp 3 300 = (3 ^ 300 : Int) % 2 ^ 256 := by decide
example : Gen.opSdiv (2^255) (2^256 - 1) = 2^255 := by decide
/-- the hypotheses of `computational_step` are satisfiable: `PUSH1 5 PUSH1 7 ADD` after two steps -/
example : step #[0x60, 5, 0x60, 7, 0x01] { stack := enc [7, 5], gas := 10, pc := 4 } =
    .next { stack := enc [12], gas := 7, pc := 5 } :=
  computational_step _ _ 0x01 [7, 5] [12] (by decide) (by decide) rfl (by decide) (by decide) (by decide)

end YouVerif.C15.Props
