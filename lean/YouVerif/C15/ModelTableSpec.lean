/-
C15 — what the specification expects from the jump table for the computational groups: which translated Go
function must execute which opcode number, how many operands it takes, and the entry's flags.  Part of the
statement of `table_facts` / `computational_step` (Props.lean).  Core Lean only.
-/
import YouVerif.C15.Gen
import YouVerif.C15.ModelSpec
namespace YouVerif.C15.Spec
open Gen

/-- the Go function that must execute the opcode -/
def execOf : Nat → Exec
  | 0x01 => .opAdd | 0x02 => .opMul | 0x03 => .opSub | 0x04 => .opDiv | 0x05 => .opSdiv | 0x06 => .opMod
  | 0x07 => .opSmod | 0x08 => .opAddmod | 0x09 => .opMulmod | 0x0a => .opExp | 0x0b => .opSignExtend
  | 0x10 => .opLt | 0x11 => .opGt | 0x12 => .opSlt | 0x13 => .opSgt | 0x14 => .opEq | 0x15 => .opIszero
  | 0x16 => .opAnd | 0x17 => .opOr | 0x18 => .opXor | 0x19 => .opNot | 0x1a => .opByte
  | 0x1b => .opSHL | 0x1c => .opSHR | 0x1d => .opSAR
  | _ => .none

/-- number of operands δ -/
def arityOf (op : Nat) : Nat :=
  if op = 0x08 ∨ op = 0x09 then 3 else if op = 0x15 ∨ op = 0x19 then 1 else 2

/-- the facts of a table entry the interpreter loop uses -/
structure View where
  valid : Bool
  constGas : Nat
  minStack : Nat
  maxStack : Nat
  halts : Bool
  jumps : Bool
  reverts : Bool
  writes : Bool
  exec : Exec
  dyn : DynGas
  mem : MemSize
  deriving DecidableEq, Repr

def view (i : OpInfo) : View :=
  { valid := i.valid, constGas := i.constGas, minStack := i.minStack, maxStack := i.maxStack, halts := i.halts,
    jumps := i.jumps, reverts := i.reverts, writes := i.writes, exec := i.exec, dyn := i.dyn, mem := i.mem }

/-- the entry the specification expects: valid, static fee (EXP: charged by its dynamic function),
δ operands required, room for α = 1 result below the 1024 limit, no halting/jumping/reverting/writing, no memory -/
def expectedView (op : Nat) : View :=
  { valid := true, constGas := if op = 0x0a then 0 else staticGas op, minStack := arityOf op,
    maxStack := 1023 + arityOf op, halts := false, jumps := false, reverts := false, writes := false,
    exec := execOf op, dyn := if op = 0x0a then .gasExp else .none, mem := .none }

end YouVerif.C15.Spec
