import YouVerif.C15.ProofsExp
import YouVerif.C15.ModelTableSpec
open YouVerif.C15
namespace YouVerif.C15.Proofs
open Gen

set_option maxRecDepth 100000 in
theorem table_view : ∀ op ∈ Spec.computational, (table[op]?).map Spec.view = some (Spec.expectedView op) := by
  decide

/-- stack of words as the interpreter holds it -/
def enc (ws : List W) : List Int := ws.map (fun w => (w.toNat : Int))

theorem applyExec_spec (op : Nat) (hop : op ∈ Spec.computational) (ws ws' : List W)
    (happ : Spec.apply op ws = some ws') : applyExec (Spec.execOf op) (enc ws) = some (enc ws') := by
  simp only [Spec.computational, List.mem_cons, List.not_mem_nil, or_false] at hop
  rcases hop with rfl|rfl|rfl|rfl|rfl|rfl|rfl|rfl|rfl|rfl|rfl|rfl|rfl|rfl|rfl|rfl|rfl|rfl|rfl|rfl|rfl|rfl|rfl|rfl|rfl <;>
  rcases ws with _ | ⟨x, _ | ⟨y, _ | ⟨z, r⟩⟩⟩ <;>
  simp only [Spec.apply, Option.some.injEq, reduceCtorEq] at happ <;>
  subst happ <;>
  simp only [Spec.execOf, applyExec, enc, List.map_cons, List.map_nil,
    opAdd_spec, opMul_spec, opSub_spec, opDiv_spec, opSdiv_spec, opMod_spec, opSmod_spec, opAddmod_spec, opMulmod_spec,
    opExp_spec, opSignExtend_spec, opLt_spec, opGt_spec, opSlt_spec, opSgt_spec, opEq_spec, opIszero_spec, opAnd_spec,
    opOr_spec, opXor_spec, opNot_spec, opByte_spec, opSHL_spec, opSHR_spec, opSAR_spec]

theorem enc_length (ws : List W) : (enc ws).length = ws.length := by simp [enc]

theorem apply_arity (op : Nat) (hop : op ∈ Spec.computational) (ws ws' : List W)
    (happ : Spec.apply op ws = some ws') : Spec.arityOf op ≤ ws.length ∧ ws'.length + Spec.arityOf op = ws.length + 1 := by
  simp only [Spec.computational, List.mem_cons, List.not_mem_nil, or_false] at hop
  rcases hop with rfl|rfl|rfl|rfl|rfl|rfl|rfl|rfl|rfl|rfl|rfl|rfl|rfl|rfl|rfl|rfl|rfl|rfl|rfl|rfl|rfl|rfl|rfl|rfl|rfl <;>
  rcases ws with _ | ⟨x, _ | ⟨y, _ | ⟨z, r⟩⟩⟩ <;>
  simp only [Spec.apply, Option.some.injEq, reduceCtorEq] at happ <;>
  subst happ <;>
  simp [Spec.arityOf]

theorem bitLen_bytes (e : Nat) : ((Big.bitLen (e:Int)).toNat + 7) / 8 = Spec.byteLen e := by
  simp only [Big.bitLen, Spec.byteLen, Int.natAbs_natCast]
  by_cases h : e = 0
  · simp [h]
  · simp only [h, if_false, Int.ofNat_eq_natCast, Int.toNat_natCast]; omega

theorem memorySize_zero : memorySize 0 = .ok 0 := by decide

theorem memResize_zero (m : List Byte) : memResize m 0 = m := by simp [memResize]

theorem computational_step (code : Array Byte) (s : VM) (op : Nat) (ws ws' : List W)
    (hop : op ∈ Spec.computational) (hcode : (code.getD s.pc 0).toNat = op)
    (hstack : s.stack = enc ws) (hlen : ws.length ≤ 1024)
    (happ : Spec.apply op ws = some ws') (hgas : Spec.gas op ws ≤ s.gas) :
    step code s = .next { s with stack := enc ws', gas := s.gas - Spec.gas op ws, pc := s.pc + 1 } := by
  obtain ⟨info, hinfo, hview⟩ := Option.map_eq_some_iff.1 (table_view op hop)
  obtain ⟨har, _⟩ := apply_arity op hop ws ws' happ
  have hexec := applyExec_spec op hop ws ws' happ
  simp only [Spec.view, Spec.expectedView, Spec.View.mk.injEq] at hview
  obtain ⟨hv, hcg, hmin, hmax, hh, hj, hr, _, hex, hdyn, hmem⟩ := hview
  unfold step
  simp only [hcode, hinfo, hv, hmin, hmax, hh, hj, hr, hmem, hstack, enc_length, Bool.not_true, Bool.false_eq_true,
    if_false, memRequest, memorySize_zero, memResize_zero, Bool.or_self]
  have har1 : 1 ≤ Spec.arityOf op := by unfold Spec.arityOf; split_ifs <;> omega
  rw [if_neg (by omega), if_neg (by omega)]
  by_cases hE : op = 0x0a
  · subst hE
    rcases ws with _ | ⟨x, _ | ⟨y, r⟩⟩ <;> simp only [Spec.apply, reduceCtorEq] at happ
    simp only [Spec.gas, if_true, Spec.Gexp, Spec.Gexpbyte] at hgas
    simp only [hcg, hdyn, if_true, Nat.not_lt_zero, if_false, Nat.sub_zero, dynamicGas, enc, List.map_cons, bitLen_bytes]
    rw [if_neg (by omega)]
    simp only [Nat.lt_irrefl, if_false, execute, hex]
    rw [show (↑(BitVec.toNat x) :: ↑(BitVec.toNat y) :: List.map (fun w : W => (w.toNat : Int)) r) = enc (x :: y :: r) from rfl, hexec]
    simp only [Spec.gas, if_true, Spec.Gexp, Spec.Gexpbyte]
    congr 2
    omega
  · have hgas' : Spec.gas op ws = Spec.staticGas op := by simp [Spec.gas, hE]
    simp only [hcg, hdyn, hE, if_false, dynamicGas]
    rw [if_neg (by omega)]
    simp only [Nat.not_lt_zero, if_false, Nat.sub_zero, Nat.lt_irrefl, execute, hex, hexec, hgas']


theorem computational_underflow (code : Array Byte) (s : VM) (op : Nat)
    (hop : op ∈ Spec.computational) (hcode : (code.getD s.pc 0).toNat = op)
    (hlen : s.stack.length < Spec.arityOf op) : step code s = .fail .underflow := by
  obtain ⟨info, hinfo, hview⟩ := Option.map_eq_some_iff.1 (table_view op hop)
  simp only [Spec.view, Spec.expectedView, Spec.View.mk.injEq] at hview
  obtain ⟨hv, hcg, hmin, hmax, hh, hj, hr, _, hex, hdyn, hmem⟩ := hview
  unfold step
  simp only [hcode, hinfo, hv, hmin, Bool.not_true, Bool.false_eq_true, if_false, hlen, if_true]

theorem computational_out_of_gas (code : Array Byte) (s : VM) (op : Nat) (ws ws' : List W)
    (hop : op ∈ Spec.computational) (hcode : (code.getD s.pc 0).toNat = op)
    (hstack : s.stack = enc ws) (hlen : ws.length ≤ 1024)
    (happ : Spec.apply op ws = some ws') (hgas : s.gas < Spec.gas op ws) :
    step code s = .fail .oog := by
  obtain ⟨info, hinfo, hview⟩ := Option.map_eq_some_iff.1 (table_view op hop)
  obtain ⟨har, _⟩ := apply_arity op hop ws ws' happ
  simp only [Spec.view, Spec.expectedView, Spec.View.mk.injEq] at hview
  obtain ⟨hv, hcg, hmin, hmax, hh, hj, hr, _, hex, hdyn, hmem⟩ := hview
  unfold step
  simp only [hcode, hinfo, hv, hmin, hmax, hh, hj, hr, hmem, hstack, enc_length, Bool.not_true, Bool.false_eq_true,
    if_false, memRequest, memorySize_zero, memResize_zero, Bool.or_self]
  have har1 : 1 ≤ Spec.arityOf op := by unfold Spec.arityOf; split_ifs <;> omega
  rw [if_neg (by omega), if_neg (by omega)]
  by_cases hE : op = 0x0a
  · subst hE
    rcases ws with _ | ⟨x, _ | ⟨y, r⟩⟩ <;> simp only [Spec.apply, reduceCtorEq] at happ
    simp only [Spec.gas, if_true, Spec.Gexp, Spec.Gexpbyte] at hgas
    simp only [hcg, hdyn, if_true, Nat.not_lt_zero, if_false, Nat.sub_zero, dynamicGas, enc, List.map_cons, bitLen_bytes]
    rw [if_pos (by omega)]
  · have hgas' : Spec.gas op ws = Spec.staticGas op := by simp [Spec.gas, hE]
    simp only [hcg, hE, if_false]
    rw [if_pos (by omega)]


end YouVerif.C15.Proofs
