import YouVerif.C15.Model
import YouVerif.C15.ModelSpec
import Mathlib.Tactic.Ring
import Mathlib.Tactic.Linarith
import Mathlib.Tactic.Positivity
import Mathlib.Tactic.NormNum
open YouVerif.C15

namespace YouVerif.C15.Proofs

theorem tt256m1_eq : Gen.math_tt256m1 = 2^256 - 1 := by decide
theorem tt256_eq : Gen.math_tt256 = 2^256 := by decide
theorem tt255_eq : Gen.math_tt255 = 2^255 := by decide
theorem vm_tt255_eq : Gen.vm_tt255 = 2^255 := by decide
theorem bigZero_eq : Gen.vm_bigZero = 0 := by decide
theorem Big1_eq : Gen.Big1 = 1 := by decide
theorem Big32_eq : Gen.Big32 = 32 := by decide
theorem Big256_eq : Gen.Big256 = 256 := by decide

/-- all-ones mask with the bits of `m` removed -/
theorem andNot_mask (k m : Nat) : Big.andNotNat (2^k - 1) m = 2^k - 1 - m % 2^k := by
  unfold Big.andNotNat
  apply Nat.eq_of_testBit_eq
  intro i
  have hlt : m % 2^k < 2^k := Nat.mod_lt _ (Nat.two_pow_pos k)
  have : 2^k - 1 - m % 2^k = 2^k - (m % 2^k + 1) := by omega
  rw [this, Nat.testBit_two_pow_sub_succ hlt]
  simp only [Nat.testBit_xor, Nat.testBit_and, Nat.testBit_two_pow_sub_one, Nat.testBit_mod_two_pow]
  by_cases h : i < k <;> simp [h]

theorem pow_cast (k : Nat) : ((2:Int)^k - 1) = Int.ofNat (2^k - 1) := by
  have : 1 ≤ 2^k := Nat.one_le_two_pow
  simp only [Int.ofNat_eq_natCast]
  push_cast [Nat.cast_sub this]
  rfl

theorem and_mask (v : Int) (k : Nat) : Big.and v (2^k - 1) = v % 2^k := by
  rw [pow_cast]
  cases v with
  | ofNat m =>
    simp only [Big.and, Nat.and_two_pow_sub_one_eq_mod]
    simp [Int.ofNat_eq_natCast]
  | negSucc m =>
    simp only [Big.and, andNot_mask]
    have hpos : (0:Int) < 2^k := by positivity
    rw [Int.negSucc_emod m hpos]
    have hlt : m % 2^k < 2^k := Nat.mod_lt _ (Nat.two_pow_pos k)
    simp only [Int.ofNat_eq_natCast]
    have h1 : 1 ≤ 2^k := Nat.one_le_two_pow
    have h2 : m % 2^k ≤ 2^k - 1 := by omega
    push_cast [Nat.cast_sub h2, Nat.cast_sub h1]
    rfl

theorem U256_eq (v : Int) : Gen.U256 v = v % 2^256 := by
  simp only [Gen.U256, tt256m1_eq]
  exact and_mask v 256

abbrev W := BitVec 256


theorem lt256 (x : W) : (x.toNat : Int) < 2^256 := by have := x.isLt; omega

theorem cmp_lt (a b : Int) : Big.cmp a b < 0 ↔ a < b := by unfold Big.cmp; split <;> [skip; split] <;> omega
theorem cmp_gt (a b : Int) : Big.cmp a b > 0 ↔ a > b := by unfold Big.cmp; split <;> [skip; split] <;> omega
theorem cmp_eq (a b : Int) : Big.cmp a b = 0 ↔ a = b := by unfold Big.cmp; split <;> [skip; split] <;> omega
theorem cmp_ge (a b : Int) : Big.cmp a b ≥ 0 ↔ a ≥ b := by unfold Big.cmp; split <;> [skip; split] <;> omega
theorem sign_eq_zero (a : Int) : Big.sign a = 0 ↔ a = 0 := by unfold Big.sign; split <;> [skip; split] <;> omega
theorem sign_ne_zero (a : Int) : Big.sign a ≠ 0 ↔ a ≠ 0 := by rw [Ne, sign_eq_zero]
theorem sign_pos (a : Int) : Big.sign a > 0 ↔ a > 0 := by unfold Big.sign; split <;> [skip; split] <;> omega
theorem sign_neg (a : Int) : Big.sign a < 0 ↔ a < 0 := by unfold Big.sign; split <;> [skip; split] <;> omega
theorem sign_nonneg (a : Int) : Big.sign a ≥ 0 ↔ a ≥ 0 := by unfold Big.sign; split <;> [skip; split] <;> omega
theorem wrapU64_0 : Big.wrapU64 0 = 0 := by decide
theorem wrapU64_1 : Big.wrapU64 1 = 1 := by decide

theorem toNat_ne_zero {y : W} (h : y ≠ 0) : y.toNat ≠ 0 := fun h' => h (BitVec.eq_of_toNat_eq (by simpa using h'))

theorem opDiv_spec (x y : W) : Gen.opDiv x.toNat y.toNat = (Spec.div x y).toNat := by
  simp only [Gen.opDiv, sign_ne_zero, Spec.div, U256_eq, wrapU64_0]
  by_cases hy : y = 0
  · subst hy; simp
  · have hy' := toNat_ne_zero hy
    have hy'' : (y.toNat : Int) ≠ 0 := by omega
    simp only [hy, hy'', ne_eq, not_false_eq_true, if_true, if_false, Big.div, BitVec.toNat_ofNat]
    have h1 : x.toNat / y.toNat ≤ x.toNat := Nat.div_le_self _ _
    have := x.isLt
    rw [Nat.mod_eq_of_lt (by omega)]
    rw [← Int.natCast_div]
    generalize x.toNat / y.toNat = q at *
    rw [Int.emod_eq_of_lt (by omega) (by omega)]

theorem opMod_spec (x y : W) : Gen.opMod x.toNat y.toNat = (Spec.mod x y).toNat := by
  simp only [Gen.opMod, sign_eq_zero, Spec.mod, U256_eq, wrapU64_0]
  by_cases hy : y = 0
  · subst hy; simp
  · have hy' := toNat_ne_zero hy
    have hy'' : (y.toNat : Int) ≠ 0 := by omega
    simp only [hy, hy'', if_false, Big.mod, BitVec.toNat_ofNat]
    have h1 : x.toNat % y.toNat < y.toNat := Nat.mod_lt _ (by omega)
    have := y.isLt
    rw [Nat.mod_eq_of_lt (by omega)]
    rw [← Int.natCast_mod]
    generalize x.toNat % y.toNat = q at *
    rw [Int.emod_eq_of_lt (by omega) (by omega)]

theorem opAddmod_spec (x y m : W) : Gen.opAddmod x.toNat y.toNat m.toNat = (Spec.addmod x y m).toNat := by
  simp only [Gen.opAddmod, cmp_gt, bigZero_eq, Spec.addmod, U256_eq, wrapU64_0, Big.add]
  by_cases hm : m = 0
  · subst hm; simp
  · have hm' := toNat_ne_zero hm
    have h0 : (m.toNat : Int) > 0 := by omega
    have hm'' : (m.toNat : Int) ≠ 0 := by omega
    simp only [hm, h0, hm'', if_true, if_false, Big.mod, BitVec.toNat_ofNat]
    have h1 : (x.toNat + y.toNat) % m.toNat < m.toNat := Nat.mod_lt _ (by omega)
    have := m.isLt
    rw [Nat.mod_eq_of_lt (by omega)]
    rw [← Int.natCast_add, ← Int.natCast_mod]
    generalize (x.toNat + y.toNat) % m.toNat = q at *
    rw [Int.emod_eq_of_lt (by omega) (by omega)]

theorem opMulmod_spec (x y m : W) : Gen.opMulmod x.toNat y.toNat m.toNat = (Spec.mulmod x y m).toNat := by
  simp only [Gen.opMulmod, cmp_gt, bigZero_eq, Spec.mulmod, U256_eq, wrapU64_0, Big.mul]
  by_cases hm : m = 0
  · subst hm; simp
  · have hm' := toNat_ne_zero hm
    have h0 : (m.toNat : Int) > 0 := by omega
    have hm'' : (m.toNat : Int) ≠ 0 := by omega
    simp only [hm, h0, hm'', if_true, if_false, Big.mod, BitVec.toNat_ofNat]
    have h1 : (x.toNat * y.toNat) % m.toNat < m.toNat := Nat.mod_lt _ (by omega)
    have := m.isLt
    rw [Nat.mod_eq_of_lt (by omega)]
    rw [← Int.natCast_mul, ← Int.natCast_mod]
    generalize (x.toNat * y.toNat) % m.toNat = q at *
    rw [Int.emod_eq_of_lt (by omega) (by omega)]



theorem ofBool_toNat (p : Prop) [Decidable p] : ((Spec.ofBool (decide p)).toNat : Int) = if p then 1 else 0 := by
  by_cases h : p <;> simp [Spec.ofBool, h]

theorem opNot_spec (x : W) : Gen.opNot x.toNat = (Spec.not x).toNat := by
  simp only [Gen.opNot, Big.not, U256_eq, Spec.not, BitVec.toNat_not]
  have := x.isLt
  omega

theorem and_natCast (m n : Nat) : Big.and (m : Int) (n : Int) = ((m &&& n : Nat) : Int) := rfl
theorem or_natCast (m n : Nat) : Big.or (m : Int) (n : Int) = ((m ||| n : Nat) : Int) := rfl
theorem xor_natCast (m n : Nat) : Big.xor (m : Int) (n : Int) = ((m ^^^ n : Nat) : Int) := rfl

theorem opAnd_spec (x y : W) : Gen.opAnd x.toNat y.toNat = (Spec.and x y).toNat := by
  simp only [Gen.opAnd, and_natCast, Spec.and, BitVec.toNat_and]
theorem opOr_spec (x y : W) : Gen.opOr x.toNat y.toNat = (Spec.or x y).toNat := by
  simp only [Gen.opOr, or_natCast, Spec.or, BitVec.toNat_or]
theorem opXor_spec (x y : W) : Gen.opXor x.toNat y.toNat = (Spec.xor x y).toNat := by
  simp only [Gen.opXor, xor_natCast, Spec.xor, BitVec.toNat_xor]

theorem opLt_spec (x y : W) : Gen.opLt x.toNat y.toNat = (Spec.lt x y).toNat := by
  simp only [Gen.opLt, cmp_lt, wrapU64_0, wrapU64_1, Spec.lt, ofBool_toNat]
  split_ifs <;> omega
theorem opGt_spec (x y : W) : Gen.opGt x.toNat y.toNat = (Spec.gt x y).toNat := by
  simp only [Gen.opGt, cmp_gt, wrapU64_0, wrapU64_1, Spec.gt, ofBool_toNat]
  split_ifs <;> omega
theorem opEq_spec (x y : W) : Gen.opEq x.toNat y.toNat = (Spec.eq x y).toNat := by
  simp only [Gen.opEq, cmp_eq, wrapU64_0, wrapU64_1, Spec.eq, ofBool_toNat]
  by_cases h : x = y
  · subst h; simp
  · have : x.toNat ≠ y.toNat := fun h' => h (BitVec.eq_of_toNat_eq h')
    simp only [h, if_false]; split_ifs <;> omega
theorem opIszero_spec (x : W) : Gen.opIszero x.toNat = (Spec.iszero x).toNat := by
  simp only [Gen.opIszero, sign_pos, wrapU64_0, wrapU64_1, Spec.iszero, ofBool_toNat]
  by_cases h : x = 0
  · subst h; simp
  · have : x.toNat ≠ 0 := fun h' => h (BitVec.eq_of_toNat_eq (by simpa using h'))
    simp only [h, if_false]; split_ifs <;> omega

/-- the signed value, as the Go code computes it -/
theorem toInt_eq (x : W) : x.toInt = if (x.toNat : Int) < 2^255 then (x.toNat : Int) else (x.toNat : Int) - 2^256 := by
  rw [BitVec.toInt_eq_toNat_cond]
  split <;> split <;> omega

theorem opSlt_spec (x y : W) : Gen.opSlt x.toNat y.toNat = (Spec.slt x y).toNat := by
  simp only [Gen.opSlt, cmp_lt, cmp_ge, vm_tt255_eq, wrapU64_0, wrapU64_1, Spec.slt, ofBool_toNat, toInt_eq]
  have := x.isLt; have := y.isLt
  split_ifs <;> omega

theorem opSgt_spec (x y : W) : Gen.opSgt x.toNat y.toNat = (Spec.sgt x y).toNat := by
  simp only [Gen.opSgt, cmp_lt, cmp_gt, cmp_ge, vm_tt255_eq, wrapU64_0, wrapU64_1, Spec.sgt, ofBool_toNat, toInt_eq]
  have := x.isLt; have := y.isLt
  split_ifs <;> omega
theorem S256_toInt (x : W) : Gen.S256 x.toNat = x.toInt := by
  simp only [Gen.S256, cmp_lt, tt255_eq, tt256_eq, Big.sub, toInt_eq]

/-- truncated division through absolute values, as the Go code computes it -/
theorem tdiv_abs (X Y : Int) :
    Int.tdiv X Y = if (X < 0 ↔ Y < 0) then (X.natAbs : Int) / (Y.natAbs : Int) else -((X.natAbs : Int) / (Y.natAbs : Int)) := by
  rcases Int.le_total 0 X with hx | hx <;> rcases Int.le_total 0 Y with hy | hy
  · rw [Int.natAbs_of_nonneg hx, Int.natAbs_of_nonneg hy, Int.tdiv_eq_ediv_of_nonneg hx]
    have : (X < 0 ↔ Y < 0) := by omega
    rw [if_pos this]
  · obtain ⟨n, hn, rfl⟩ : ∃ n : Int, 0 ≤ n ∧ Y = -n := ⟨-Y, by omega, by omega⟩
    rw [Int.natAbs_of_nonneg hx, Int.natAbs_neg, Int.natAbs_of_nonneg hn, Int.tdiv_neg, Int.tdiv_eq_ediv_of_nonneg hx]
    by_cases h0 : n = 0
    · subst h0; simp
    · have : ¬ (X < 0 ↔ -n < 0) := by omega
      rw [if_neg this]
  · obtain ⟨m, hm, rfl⟩ : ∃ m : Int, 0 ≤ m ∧ X = -m := ⟨-X, by omega, by omega⟩
    rw [Int.natAbs_neg, Int.natAbs_of_nonneg hm, Int.natAbs_of_nonneg hy, Int.neg_tdiv, Int.tdiv_eq_ediv_of_nonneg hm]
    by_cases h0 : m = 0
    · subst h0; simp
    · have : ¬ (-m < 0 ↔ Y < 0) := by omega
      rw [if_neg this]
  · obtain ⟨m, hm, rfl⟩ : ∃ m : Int, 0 ≤ m ∧ X = -m := ⟨-X, by omega, by omega⟩
    obtain ⟨n, hn, rfl⟩ : ∃ n : Int, 0 ≤ n ∧ Y = -n := ⟨-Y, by omega, by omega⟩
    rw [Int.natAbs_neg, Int.natAbs_neg, Int.natAbs_of_nonneg hm, Int.natAbs_of_nonneg hn, Int.neg_tdiv_neg, Int.tdiv_eq_ediv_of_nonneg hm]
    by_cases h0 : m = 0
    · subst h0; simp
    by_cases h1 : n = 0
    · subst h1; simp
    · have : (-m < 0 ↔ -n < 0) := by omega
      rw [if_pos this]

theorem toInt_eq_zero (y : W) : y.toInt = 0 ↔ y = 0 := by
  constructor
  · intro h; apply BitVec.eq_of_toInt_eq; simpa using h
  · intro h; subst h; simp

theorem ofInt_toNat (v : Int) : ((BitVec.ofInt 256 v).toNat : Int) = v % 2^256 := by
  rw [BitVec.toNat_ofInt, Int.toNat_of_nonneg (Int.emod_nonneg _ (by norm_num))]
  norm_num

theorem sign_ne (X Y : Int) (hx : X ≠ 0) (hy : Y ≠ 0) : Big.sign X ≠ Big.sign Y ↔ ¬ (X < 0 ↔ Y < 0) := by
  unfold Big.sign; split_ifs <;> omega

theorem opSdiv_spec (x y : W) : Gen.opSdiv x.toNat y.toNat = (Spec.sdiv x y).toNat := by
  simp only [Gen.opSdiv, S256_toInt, sign_eq_zero, Spec.sdiv, U256_eq, toInt_eq_zero]
  by_cases hy : y = 0
  · subst hy; simp
  by_cases hx : x = 0
  · subst hx; simp [hy]
  have hX : x.toInt ≠ 0 := fun h => hx ((toInt_eq_zero x).1 h)
  have hY : y.toInt ≠ 0 := fun h => hy ((toInt_eq_zero y).1 h)
  have hYa : ((y.toInt.natAbs : Nat) : Int) ≠ 0 := by omega
  simp only [hy, hx, or_self, if_false, ofInt_toNat, sign_ne _ _ hX hY, Big.abs, Big.div, Big.neg,
    Int.ofNat_eq_natCast, hYa, tdiv_abs]
  split_ifs <;> rfl

theorem tmod_abs (X Y : Int) :
    Int.tmod X Y = if X < 0 then -((X.natAbs : Int) % (Y.natAbs : Int)) else (X.natAbs : Int) % (Y.natAbs : Int) := by
  have habs : ∀ m : Int, 0 ≤ m → m.tmod Y = m % (Y.natAbs : Int) := by
    intro m hm
    rcases Int.le_total 0 Y with hy | hy
    · rw [Int.natAbs_of_nonneg hy, Int.tmod_eq_emod_of_nonneg hm]
    · obtain ⟨n, hn, rfl⟩ : ∃ n : Int, 0 ≤ n ∧ Y = -n := ⟨-Y, by omega, by omega⟩
      rw [Int.natAbs_neg, Int.natAbs_of_nonneg hn, Int.tmod_neg, Int.tmod_eq_emod_of_nonneg hm]
  rcases Int.le_total 0 X with hx | hx
  · rw [Int.natAbs_of_nonneg hx, habs X hx, if_neg (by omega)]
  · obtain ⟨m, hm, rfl⟩ : ∃ m : Int, 0 ≤ m ∧ X = -m := ⟨-X, by omega, by omega⟩
    rw [Int.natAbs_neg, Int.natAbs_of_nonneg hm, Int.neg_tmod, habs m hm]
    by_cases h0 : m = 0
    · subst h0; simp
    · rw [if_pos (by omega)]

theorem opSmod_spec (x y : W) : Gen.opSmod x.toNat y.toNat = (Spec.smod x y).toNat := by
  simp only [Gen.opSmod, S256_toInt, sign_eq_zero, sign_neg, Spec.smod, U256_eq, toInt_eq_zero]
  by_cases hy : y = 0
  · subst hy; simp
  have hY : y.toInt ≠ 0 := fun h => hy ((toInt_eq_zero y).1 h)
  have hYa : ((y.toInt.natAbs : Nat) : Int) ≠ 0 := by omega
  simp only [hy, if_false, ofInt_toNat, Big.abs, Big.mod, Big.neg, Int.ofNat_eq_natCast, hYa, tmod_abs]
  split_ifs <;> rfl

theorem U256_toNat (x : W) : Gen.U256 x.toNat = x.toNat := by
  rw [U256_eq]; have := x.isLt; omega

theorem uint64_small (n : Nat) (h : n < 2^64) : Big.wrapU64 (Big.uint64 (n:Int)) = n := by
  simp only [Big.wrapU64, Big.uint64, Int.natAbs_natCast, Int.ofNat_eq_natCast]
  omega

theorem opSHL_spec (s x : W) : Gen.opSHL s.toNat x.toNat = (Spec.shl s x).toNat := by
  simp only [Gen.opSHL, U256_toNat, cmp_ge, Big256_eq, wrapU64_0, Spec.shl, BitVec.toNat_ofNat]
  by_cases h : (s.toNat : Int) ≥ 256
  · rw [if_pos h]
    have h' : 256 ≤ s.toNat := by omega
    have : 2^256 ∣ x.toNat * 2^s.toNat := Nat.dvd_trans (Nat.pow_dvd_pow 2 h') (Nat.dvd_mul_left _ _)
    rw [Nat.mod_eq_zero_of_dvd this]; rfl
  · rw [if_neg h, uint64_small _ (by omega)]
    simp only [Big.lsh, Int.toNat_natCast, U256_eq]
    push_cast; rfl

theorem opSHR_spec (s x : W) : Gen.opSHR s.toNat x.toNat = (Spec.shr s x).toNat := by
  simp only [Gen.opSHR, U256_toNat, cmp_ge, Big256_eq, wrapU64_0, Spec.shr, BitVec.toNat_ofNat]
  have hx := x.isLt
  by_cases h : (s.toNat : Int) ≥ 256
  · rw [if_pos h]
    have h' : 256 ≤ s.toNat := by omega
    have : x.toNat < 2^s.toNat := Nat.lt_of_lt_of_le hx (Nat.pow_le_pow_right (by norm_num) h')
    rw [Nat.div_eq_of_lt this]; rfl
  · rw [if_neg h, uint64_small _ (by omega)]
    simp only [Big.rsh, Int.toNat_natCast, Int.shiftRight_eq_div_pow, U256_eq]
    push_cast; rfl

theorem toInt_bounds (x : W) : -2^255 ≤ x.toInt ∧ x.toInt < 2^255 := by
  rw [toInt_eq]; have := x.isLt; split <;> omega

theorem wrapI64_m1 : Big.wrapI64 (-1) = -1 := by decide

theorem ediv_big_pow (X : Int) (s : Nat) (hs : 256 ≤ s) (h1 : -2^255 ≤ X) (h2 : X < 2^255) :
    X / (2:Int)^s = if 0 ≤ X then 0 else -1 := by
  have hp : (2:Int)^256 ≤ 2^s := by
    have : (2:Nat)^256 ≤ 2^s := Nat.pow_le_pow_right (by norm_num) hs
    exact_mod_cast this
  have hpos : (0:Int) < 2^s := by positivity
  split_ifs with h
  · exact Int.ediv_eq_zero_of_lt h (by omega)
  · have := (Int.ediv_emod_unique (a := X) (b := 2^s) (q := -1) (r := X + 2^s) hpos).2 ⟨by ring, by omega, by omega⟩
    exact this.1

theorem opSAR_spec (s x : W) : Gen.opSAR s.toNat x.toNat = (Spec.sar s x).toNat := by
  simp only [Gen.opSAR, U256_toNat, S256_toInt, cmp_ge, Big256_eq, wrapU64_0, wrapI64_m1, sign_nonneg, Spec.sar, ofInt_toNat]
  obtain ⟨h1, h2⟩ := toInt_bounds x
  by_cases h : (s.toNat : Int) ≥ 256
  · rw [if_pos h, ediv_big_pow _ _ (by omega) h1 h2]
    simp only [U256_eq]
    split_ifs <;> first | rfl | omega
  · rw [if_neg h, uint64_small _ (by omega)]
    simp only [Big.rsh, Int.toNat_natCast, Int.shiftRight_eq_div_pow, U256_eq]
    push_cast; rfl

theorem opAdd_spec (x y : W) : Gen.opAdd x.toNat y.toNat = (Spec.add x y).toNat := by
  simp only [Gen.opAdd, Big.add, U256_eq, Spec.add, BitVec.toNat_ofNat]
  omega

theorem opMul_spec (x y : W) : Gen.opMul x.toNat y.toNat = (Spec.mul x y).toNat := by
  simp only [Gen.opMul, Big.mul, U256_eq, Spec.mul, BitVec.toNat_ofNat]
  push_cast; rfl

theorem opSub_spec (x y : W) : Gen.opSub x.toNat y.toNat = (Spec.sub x y).toNat := by
  simp only [Gen.opSub, Big.sub, U256_eq, Spec.sub, ofInt_toNat]

theorem wordsNat_get (w : Nat) : ∀ (fuel n j : Nat), n < 2^(w*fuel) →
    (Big.wordsNat w fuel n)[j]? = if n / 2^(w*j) = 0 then none else some ((n / 2^(w*j) % 2^w : Nat) : Int) := by
  intro fuel
  induction fuel with
  | zero =>
    intro n j h
    have : n = 0 := by simpa using h
    subst this
    simp [Big.wordsNat]
  | succ f ih =>
    intro n j h
    unfold Big.wordsNat
    by_cases h0 : n = 0
    · subst h0; simp
    · rw [if_neg h0]
      cases j with
      | zero => simp [h0]
      | succ j' =>
        have hlt : n / 2^w < 2^(w*f) := by
          apply Nat.div_lt_of_lt_mul
          rw [← Nat.pow_add]
          have : w + w * f = w * (f+1) := by ring
          rw [this]; exact h
        rw [List.getElem?_cons_succ, ih (n / 2^w) j' hlt]
        have : n / 2^w / 2^(w*j') = n / 2^(w*(j'+1)) := by
          rw [Nat.div_div_eq_div_mul, ← Nat.pow_add]
          congr 2; ring
        rw [this]

theorem bits_get (v j : Nat) :
    (Big.bits (v:Int))[j]? = if v / 2^(64*j) = 0 then none else some ((v / 2^(64*j) % 2^64 : Nat) : Int) := by
  unfold Big.bits
  rw [Int.natAbs_natCast]
  apply wordsNat_get
  have h1 : v < 2^(v.log2 + 1) := Nat.lt_log2_self
  exact Nat.lt_of_lt_of_le h1 (Nat.pow_le_pow_right (by norm_num) (by omega))

theorem byte_extract (A k : Nat) (hk : k ≤ 56) : A % 2^64 / 2^k % 2^8 = A / 2^k % 2^8 := by
  have e : (2:Nat)^64 = 2^k * 2^(64-k) := by rw [← Nat.pow_add]; congr 1; omega
  rw [e, Nat.mod_mul_right_div_self]
  apply Nat.mod_mod_of_dvd
  exact Nat.pow_dvd_pow 2 (by omega)

theorem wordBytes_eq : Gen.wordBytes = 8 := rfl

theorem bigEndianByteAt_eq (v n : Nat) (hn : n < 2^32) :
    Gen.bigEndianByteAt (v:Int) (n:Int) = ((v / 256^n % 256 : Nat) : Int) := by
  have hi : Int.tdiv (n:Int) 8 = ((n / 8 : Nat) : Int) := by
    rw [Int.tdiv_eq_ediv_of_nonneg (by omega)]; norm_cast
  have hr : Int.tmod (n:Int) 8 = ((n % 8 : Nat) : Int) := by
    rw [Int.tmod_eq_emod_of_nonneg (by omega)]; norm_cast
  have hsh : Big.wrapU64 (8 * Big.wrapU64 ((n % 8 : Nat) : Int)) = ((8 * (n % 8) : Nat) : Int) := by
    simp only [Big.wrapU64]; omega
  -- the target value through the word that contains the byte
  have key : v / 256^n % 256 = v / 2^(64*(n/8)) % 2^64 / 2^(8*(n%8)) % 2^8 := by
    rw [byte_extract _ _ (by omega), Nat.div_div_eq_div_mul, ← Nat.pow_add]
    have : (256:Nat)^n = 2^(64*(n/8) + 8*(n%8)) := by
      rw [show (256:Nat) = 2^8 by norm_num, ← Nat.pow_mul]; congr 1; omega
    rw [this]; norm_num
  simp only [Gen.bigEndianByteAt, wordBytes_eq, hi, hr, hsh, Big.len, Big.idx]
  have hget := bits_get v (n/8)
  by_cases hlen : ((n/8 : Nat) : Int) ≥ Int.ofNat (Big.bits (v:Int)).length
  · rw [if_pos hlen]
    have : (Big.bits (v:Int)).length ≤ n / 8 := by
      simp only [Int.ofNat_eq_natCast] at hlen; omega
    have hnone := List.getElem?_eq_none this
    rw [hnone] at hget
    have hz : v / 2^(64*(n/8)) = 0 := by
      by_contra hne; rw [if_neg hne] at hget; cases hget
    rw [key, hz]; simp [Big.wrapU8]
  · rw [if_neg hlen]
    have : n / 8 < (Big.bits (v:Int)).length := by
      simp only [Int.ofNat_eq_natCast] at hlen; omega
    have hsome := List.getElem?_eq_getElem this
    have hnz : ¬ v / 2^(64*(n/8)) = 0 := by
      intro hz; rw [if_pos hz, hsome] at hget; cases hget
    rw [if_neg hnz] at hget
    have hneg : ¬ ((n/8 : Nat) : Int) < 0 := by omega
    rw [if_neg hneg, Int.toNat_natCast, hget, key]
    simp only [Big.rsh, Int.toNat_natCast, Int.shiftRight_eq_div_pow, Big.wrapU8]
    norm_cast
    omega

theorem int64_small (n : Nat) (h : n < 2^63) : Big.int64 (n:Int) = n := by
  simp only [Big.int64, Big.uint64, Big.wrapI64, Int.natAbs_natCast, Int.ofNat_eq_natCast]
  have : ¬ ((n:Int) < 0) := by omega
  rw [if_neg this]
  omega

theorem opByte_spec (i x : W) : Gen.opByte i.toNat x.toNat = (Spec.byte i x).toNat := by
  simp only [Gen.opByte, cmp_lt, Big32_eq, wrapU64_0, Spec.byte]
  by_cases h : i.toNat < 32
  · have h' : (i.toNat : Int) < 32 := by omega
    rw [if_pos h', if_pos h, int64_small _ (by omega)]
    have e1 : Big.wrapI64 (Big.wrapI64 (i.toNat : Int)) = i.toNat := by simp only [Big.wrapI64]; omega
    have e2 : Big.wrapI64 32 = 32 := by decide
    rw [e1, e2]
    simp only [Gen.Byte]
    rw [if_neg (by omega)]
    have e3 : Big.wrapI64 (Big.wrapI64 (Big.wrapI64 (32 - 1) - (i.toNat : Int))) = ((31 - i.toNat : Nat) : Int) := by
      simp only [Big.wrapI64]; omega
    rw [e3, bigEndianByteAt_eq _ _ (by omega)]
    simp only [BitVec.toNat_ofNat]
    have hb : x.toNat / 256 ^ (31 - i.toNat) % 256 < 256 := Nat.mod_lt _ (by norm_num)
    generalize x.toNat / 256 ^ (31 - i.toNat) % 256 = b at hb
    simp only [Big.wrapU64, Big.wrapU8]
    omega
  · have h' : ¬ (i.toNat : Int) < 32 := by omega
    rw [if_neg h', if_neg h]; rfl

theorem or_not_mask (n k : Nat) : Big.or (n:Int) (Big.not ((2:Int)^k - 1)) = ((n % 2^k : Nat) : Int) - 2^k := by
  have h1 : 1 ≤ 2^k := Nat.one_le_two_pow
  have e : Big.not ((2:Int)^k - 1) = Int.negSucc (2^k - 1) := by
    rw [Int.negSucc_eq]; simp only [Big.not]; push_cast [Nat.cast_sub h1]; ring
  rw [e]
  show Int.negSucc (Big.andNotNat (2^k - 1) n) = _
  rw [andNot_mask, Int.negSucc_eq]
  have hlt : n % 2^k < 2^k := Nat.mod_lt _ (Nat.two_pow_pos k)
  have h2 : n % 2^k ≤ 2^k - 1 := by omega
  push_cast [Nat.cast_sub h2, Nat.cast_sub h1]
  ring

theorem and_mask_nat (n k : Nat) : Big.and (n:Int) ((2:Int)^k - 1) = ((n % 2^k : Nat) : Int) := by
  rw [and_mask]; norm_cast

theorem bit_natCast (n k : Nat) : Big.bit (n:Int) (k:Int) > 0 ↔ n.testBit k = true := by
  simp only [Big.bit]
  rw [if_neg (by omega)]
  show (if n.testBit (k:Int).toNat then (1:Int) else 0) > 0 ↔ _
  rw [Int.toNat_natCast]
  split_ifs with h <;> simp [h]

theorem opSignExtend_spec (b x : W) : Gen.opSignExtend b.toNat x.toNat = (Spec.signextend b x).toNat := by
  simp only [Gen.opSignExtend, cmp_lt, Spec.signextend, Big1_eq]
  have e31 : Big.wrapI64 31 = 31 := by decide
  rw [e31]
  by_cases h : 31 ≤ b.toNat
  · rw [if_neg (by omega), if_pos h]
  · rw [if_pos (by omega), if_neg h]
    have hbit : Big.wrapU64 (Big.wrapU64 (Big.wrapU64 (Big.uint64 (b.toNat:Int) * 8) + 7)) = ((8 * b.toNat + 7 : Nat) : Int) := by
      simp only [Big.wrapU64, Big.uint64, Int.natAbs_natCast, Int.ofNat_eq_natCast]; omega
    have hbit' : Big.wrapI64 ((8 * b.toNat + 7 : Nat) : Int) = ((8 * b.toNat + 7 : Nat) : Int) := by
      simp only [Big.wrapI64]; omega
    rw [hbit, hbit']
    simp only [bit_natCast]
    simp only [Big.lsh, Big.sub, Int.toNat_natCast, Int.one_mul, or_not_mask, and_mask_nat, U256_eq]
    generalize hk : 8 * b.toNat + 7 = k
    have hK : 8 * (b.toNat + 1) = k + 1 := by omega
    simp only [hK, Nat.add_sub_cancel]
    have hk247 : k ≤ 247 := by omega
    have hsucc : x.toNat % 2^(k+1) = x.toNat % 2^k + 2^k * (x.toNat / 2^k % 2) := Nat.mod_pow_succ
    have htb : x.toNat.testBit k = decide (x.toNat / 2^k % 2 = 1) := Nat.testBit_eq_decide_div_mod_eq
    have hlt : x.toNat % 2^k < 2^k := Nat.mod_lt _ (Nat.two_pow_pos k)
    have hP : (2:Nat)^k * 2 ≤ 2^256 := by
      rw [← Nat.pow_succ]; exact Nat.pow_le_pow_right (by norm_num) (by omega)
    have hP2 : (2:Int)^(k+1) = 2^k * 2 := by rw [pow_succ]
    by_cases hb : x.toNat / 2^k % 2 = 1
    · have : x.toNat.testBit k = true := by rw [htb]; simpa using hb
      rw [if_pos this]
      rw [hb, Nat.mul_one] at hsucc
      rw [if_neg (by omega), ofInt_toNat, hsucc]
      push_cast
      rw [hP2]
      generalize (2:Int)^k = P
      generalize (x.toNat : Int) % P = r
      have e : r + P - P * 2 = r - P := by ring
      rw [e]
    · have hb0 : x.toNat / 2^k % 2 = 0 := by omega
      have : ¬ x.toNat.testBit k = true := by rw [htb]; simpa using hb
      rw [if_neg this]
      rw [hb0, Nat.mul_zero, Nat.add_zero] at hsucc
      rw [if_pos (by omega), BitVec.toNat_ofNat, hsucc]
      push_cast; rfl

end YouVerif.C15.Proofs
