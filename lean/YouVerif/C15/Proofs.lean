import YouVerif.C15.Model
import YouVerif.C15.ModelSpec
import Mathlib.Tactic.Ring
import Mathlib.Tactic.Linarith
import Mathlib.Tactic.Positivity
import Mathlib.Tactic.NormNum
open YouVerif.C15

namespace YouVerif.C15.Proofs

theorem tt256m1_eq : Gen.math_tt256m1 = 2^256 - 1 := by decide
theorem tt256_eq : Gen.math_tt256 = 2^256 := by decide
theorem tt255_eq : Gen.math_tt255 = 2^255 := by decide
theorem vm_tt255_eq : Gen.vm_tt255 = 2^255 := by decide
theorem bigZero_eq : Gen.vm_bigZero = 0 := by decide
theorem Big1_eq : Gen.Big1 = 1 := by decide
theorem Big32_eq : Gen.Big32 = 32 := by decide
theorem Big256_eq : Gen.Big256 = 256 := by decide

/-- all-ones mask with the bits of `m` removed -/
theorem andNot_mask (k m : Nat) : Big.andNotNat (2^k - 1) m = 2^k - 1 - m % 2^k := by
  unfold Big.andNotNat
  apply Nat.eq_of_testBit_eq
  intro i
  have hlt : m % 2^k < 2^k := Nat.mod_lt _ (Nat.two_pow_pos k)
  have : 2^k - 1 - m % 2^k = 2^k - (m % 2^k + 1) := by omega
  rw [this, Nat.testBit_two_pow_sub_succ hlt]
  simp only [Nat.testBit_xor, Nat.testBit_and, Nat.testBit_two_pow_sub_one, Nat.testBit_mod_two_pow]
  by_cases h : i < k <;> simp [h]

theorem pow_cast (k : Nat) : ((2:Int)^k - 1) = Int.ofNat (2^k - 1) := by
  have : 1 ≤ 2^k := Nat.one_le_two_pow
  simp only [Int.ofNat_eq_natCast]
  push_cast [Nat.cast_sub this]
  rfl

theorem and_mask (v : Int) (k : Nat) : Big.and v (2^k - 1) = v % 2^k := by
  rw [pow_cast]
  cases v with
  | ofNat m =>
    simp only [Big.and, Nat.and_two_pow_sub_one_eq_mod]
    simp [Int.ofNat_eq_natCast]
  | negSucc m =>
    simp only [Big.and, andNot_mask]
    have hpos : (0:Int) < 2^k := by positivity
    rw [Int.negSucc_emod m hpos]
    have hlt : m % 2^k < 2^k := Nat.mod_lt _ (Nat.two_pow_pos k)
    simp only [Int.ofNat_eq_natCast]
    have h1 : 1 ≤ 2^k := Nat.one_le_two_pow
    have h2 : m % 2^k ≤ 2^k - 1 := by omega
    push_cast [Nat.cast_sub h2, Nat.cast_sub h1]
    rfl

theorem U256_eq (v : Int) : Gen.U256 v = v % 2^256 := by
  simp only [Gen.U256, tt256m1_eq]
  exact and_mask v 256

abbrev W := BitVec 256


theorem lt256 (x : W) : (x.toNat : Int) < 2^256 := by have := x.isLt; omega

theorem cmp_lt (a b : Int) : Big.cmp a b < 0 ↔ a < b := by unfold Big.cmp; split <;> [skip; split] <;> omega
theorem cmp_gt (a b : Int) : Big.cmp a b > 0 ↔ a > b := by unfold Big.cmp; split <;> [skip; split] <;> omega
theorem cmp_eq (a b : Int) : Big.cmp a b = 0 ↔ a = b := by unfold Big.cmp; split <;> [skip; split] <;> omega
theorem cmp_ge (a b : Int) : Big.cmp a b ≥ 0 ↔ a ≥ b := by unfold Big.cmp; split <;> [skip; split] <;> omega
theorem sign_eq_zero (a : Int) : Big.sign a = 0 ↔ a = 0 := by unfold Big.sign; split <;> [skip; split] <;> omega
theorem sign_ne_zero (a : Int) : Big.sign a ≠ 0 ↔ a ≠ 0 := by rw [Ne, sign_eq_zero]
theorem sign_pos (a : Int) : Big.sign a > 0 ↔ a > 0 := by unfold Big.sign; split <;> [skip; split] <;> omega
theorem sign_neg (a : Int) : Big.sign a < 0 ↔ a < 0 := by unfold Big.sign; split <;> [skip; split] <;> omega
theorem sign_nonneg (a : Int) : Big.sign a ≥ 0 ↔ a ≥ 0 := by unfold Big.sign; split <;> [skip; split] <;> omega
theorem wrapU64_0 : Big.wrapU64 0 = 0 := by decide
theorem wrapU64_1 : Big.wrapU64 1 = 1 := by decide

theorem toNat_ne_zero {y : W} (h : y ≠ 0) : y.toNat ≠ 0 := fun h' => h (BitVec.eq_of_toNat_eq (by simpa using h'))

theorem opDiv_spec (x y : W) : Gen.opDiv x.toNat y.toNat = (Spec.div x y).toNat := by
  simp only [Gen.opDiv, sign_ne_zero, Spec.div, U256_eq, wrapU64_0]
  by_cases hy : y = 0
  · subst hy; simp
  · have hy' := toNat_ne_zero hy
    have hy'' : (y.toNat : Int) ≠ 0 := by omega
    simp only [hy, hy'', ne_eq, not_false_eq_true, if_true, if_false, Big.div, BitVec.toNat_ofNat]
    have h1 : x.toNat / y.toNat ≤ x.toNat := Nat.div_le_self _ _
    have := x.isLt
    rw [Nat.mod_eq_of_lt (by omega)]
    rw [← Int.natCast_div]
    generalize x.toNat / y.toNat = q at *
    rw [Int.emod_eq_of_lt (by omega) (by omega)]

theorem opMod_spec (x y : W) : Gen.opMod x.toNat y.toNat = (Spec.mod x y).toNat := by
  simp only [Gen.opMod, sign_eq_zero, Spec.mod, U256_eq, wrapU64_0]
  by_cases hy : y = 0
  · subst hy; simp
  · have hy' := toNat_ne_zero hy
    have hy'' : (y.toNat : Int) ≠ 0 := by omega
    simp only [hy, hy'', if_false, Big.mod, BitVec.toNat_ofNat]
    have h1 : x.toNat % y.toNat < y.toNat := Nat.mod_lt _ (by omega)
    have := y.isLt
    rw [Nat.mod_eq_of_lt (by omega)]
    rw [← Int.natCast_mod]
    generalize x.toNat % y.toNat = q at *
    rw [Int.emod_eq_of_lt (by omega) (by omega)]

theorem opAddmod_spec (x y m : W) : Gen.opAddmod x.toNat y.toNat m.toNat = (Spec.addmod x y m).toNat := by
  simp only [Gen.opAddmod, cmp_gt, bigZero_eq, Spec.addmod, U256_eq, wrapU64_0, Big.add]
  by_cases hm : m = 0
  · subst hm; simp
  · have hm' := toNat_ne_zero hm
    have h0 : (m.toNat : Int) > 0 := by omega
    have hm'' : (m.toNat : Int) ≠ 0 := by omega
    simp only [hm, h0, hm'', if_true, if_false, Big.mod, BitVec.toNat_ofNat]
    have h1 : (x.toNat + y.toNat) % m.toNat < m.toNat := Nat.mod_lt _ (by omega)
    have := m.isLt
    rw [Nat.mod_eq_of_lt (by omega)]
    rw [← Int.natCast_add, ← Int.natCast_mod]
    generalize (x.toNat + y.toNat) % m.toNat = q at *
    rw [Int.emod_eq_of_lt (by omega) (by omega)]

theorem opMulmod_spec (x y m : W) : Gen.opMulmod x.toNat y.toNat m.toNat = (Spec.mulmod x y m).toNat := by
  simp only [Gen.opMulmod, cmp_gt, bigZero_eq, Spec.mulmod, U256_eq, wrapU64_0, Big.mul]
  by_cases hm : m = 0
  · subst hm; simp
  · have hm' := toNat_ne_zero hm
    have h0 : (m.toNat : Int) > 0 := by omega
    have hm'' : (m.toNat : Int) ≠ 0 := by omega
    simp only [hm, h0, hm'', if_true, if_false, Big.mod, BitVec.toNat_ofNat]
    have h1 : (x.toNat * y.toNat) % m.toNat < m.toNat := Nat.mod_lt _ (by omega)
    have := m.isLt
    rw [Nat.mod_eq_of_lt (by omega)]
    rw [← Int.natCast_mul, ← Int.natCast_mod]
    generalize (x.toNat * y.toNat) % m.toNat = q at *
    rw [Int.emod_eq_of_lt (by omega) (by omega)]



theorem ofBool_toNat (p : Prop) [Decidable p] : ((Spec.ofBool (decide p)).toNat : Int) = if p then 1 else 0 := by
  by_cases h : p <;> simp [Spec.ofBool, h]

theorem opNot_spec (x : W) : Gen.opNot x.toNat = (Spec.not x).toNat := by
  simp only [Gen.opNot, Big.not, U256_eq, Spec.not, BitVec.toNat_not]
  have := x.isLt
  omega

theorem and_natCast (m n : Nat) : Big.and (m : Int) (n : Int) = ((m &&& n : Nat) : Int) := rfl
theorem or_natCast (m n : Nat) : Big.or (m : Int) (n : Int) = ((m ||| n : Nat) : Int) := rfl
theorem xor_natCast (m n : Nat) : Big.xor (m : Int) (n : Int) = ((m ^^^ n : Nat) : Int) := rfl

theorem opAnd_spec (x y : W) : Gen.opAnd x.toNat y.toNat = (Spec.and x y).toNat := by
  simp only [Gen.opAnd, and_natCast, Spec.and, BitVec.toNat_and]
theorem opOr_spec (x y : W) : Gen.opOr x.toNat y.toNat = (Spec.or x y).toNat := by
  simp only [Gen.opOr, or_natCast, Spec.or, BitVec.toNat_or]
theorem opXor_spec (x y : W) : Gen.opXor x.toNat y.toNat = (Spec.xor x y).toNat := by
  simp only [Gen.opXor, xor_natCast, Spec.xor, BitVec.toNat_xor]

theorem opLt_spec (x y : W) : Gen.opLt x.toNat y.toNat = (Spec.lt x y).toNat := by
  simp only [Gen.opLt, cmp_lt, wrapU64_0, wrapU64_1, Spec.lt, ofBool_toNat]
  split_ifs <;> omega
theorem opGt_spec (x y : W) : Gen.opGt x.toNat y.toNat = (Spec.gt x y).toNat := by
  simp only [Gen.opGt, cmp_gt, wrapU64_0, wrapU64_1, Spec.gt, ofBool_toNat]
  split_ifs <;> omega
theorem opEq_spec (x y : W) : Gen.opEq x.toNat y.toNat = (Spec.eq x y).toNat := by
  simp only [Gen.opEq, cmp_eq, wrapU64_0, wrapU64_1, Spec.eq, ofBool_toNat]
  by_cases h : x = y
  · subst h; simp
  · have : x.toNat ≠ y.toNat := fun h' => h (BitVec.eq_of_toNat_eq h')
    simp only [h, if_false]; split_ifs <;> omega
theorem opIszero_spec (x : W) : Gen.opIszero x.toNat = (Spec.iszero x).toNat := by
  simp only [Gen.opIszero, sign_pos, wrapU64_0, wrapU64_1, Spec.iszero, ofBool_toNat]
  by_cases h : x = 0
  · subst h; simp
  · have : x.toNat ≠ 0 := fun h' => h (BitVec.eq_of_toNat_eq (by simpa using h'))
    simp only [h, if_false]; split_ifs <;> omega

/-- the signed value, as the Go code computes it -/
theorem toInt_eq (x : W) : x.toInt = if (x.toNat : Int) < 2^255 then (x.toNat : Int) else (x.toNat : Int) - 2^256 := by
  rw [BitVec.toInt_eq_toNat_cond]
  split <;> split <;> omega

theorem opSlt_spec (x y : W) : Gen.opSlt x.toNat y.toNat = (Spec.slt x y).toNat := by
  simp only [Gen.opSlt, cmp_lt, cmp_ge, vm_tt255_eq, wrapU64_0, wrapU64_1, Spec.slt, ofBool_toNat, toInt_eq]
  have := x.isLt; have := y.isLt
  split_ifs <;> omega

theorem opSgt_spec (x y : W) : Gen.opSgt x.toNat y.toNat = (Spec.sgt x y).toNat := by
  simp only [Gen.opSgt, cmp_lt, cmp_gt, cmp_ge, vm_tt255_eq, wrapU64_0, wrapU64_1, Spec.sgt, ofBool_toNat, toInt_eq]
  have := x.isLt; have := y.isLt
  split_ifs <;> omega
end YouVerif.C15.Proofs
