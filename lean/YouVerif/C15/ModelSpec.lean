/-
C15 — the SPECIFICATION the opcode bodies are proved against: the Yellow Paper (appendix H) definitions of the
computational opcodes, written directly over `BitVec 256` (unsigned value `toNat`, two's-complement value
`toInt`) with ordinary integer arithmetic, plus EIP-145 for the shifts.  Part of the trusted statement of C15.
Deliberately NOT Lean's SMT-LIB style `BitVec.sdiv/smod/udiv` (their division by zero differs from the EVM's).
Core Lean only.  First operand = top of the stack (μ_s[0]).
-/
namespace YouVerif.C15.Spec

abbrev Word := BitVec 256

def ofBool (b : Bool) : Word := if b then 1 else 0

def add (x y : Word) : Word := BitVec.ofNat 256 (x.toNat + y.toNat)
def mul (x y : Word) : Word := BitVec.ofNat 256 (x.toNat * y.toNat)
def sub (x y : Word) : Word := BitVec.ofInt 256 ((x.toNat : Int) - (y.toNat : Int))
/-- DIV: `0` if the divisor is `0`, else `⌊x / y⌋` -/
def div (x y : Word) : Word := if y = 0 then 0 else BitVec.ofNat 256 (x.toNat / y.toNat)
/-- SDIV: `0` if the divisor is `0`; signed division truncated towards zero; `-2^255 / -1` wraps to `-2^255` -/
def sdiv (x y : Word) : Word := if y = 0 then 0 else BitVec.ofInt 256 (Int.tdiv x.toInt y.toInt)
def mod (x y : Word) : Word := if y = 0 then 0 else BitVec.ofNat 256 (x.toNat % y.toNat)
/-- SMOD: `0` if the divisor is `0`; `sgn(x) · (|x| mod |y|)`, i.e. the truncated remainder -/
def smod (x y : Word) : Word := if y = 0 then 0 else BitVec.ofInt 256 (Int.tmod x.toInt y.toInt)
/-- ADDMOD: intermediate sum not subject to the 2^256 modulo -/
def addmod (x y m : Word) : Word := if m = 0 then 0 else BitVec.ofNat 256 ((x.toNat + y.toNat) % m.toNat)
def mulmod (x y m : Word) : Word := if m = 0 then 0 else BitVec.ofNat 256 ((x.toNat * y.toNat) % m.toNat)
/-- EXP: `x ^ y mod 2^256` -/
def exp (x y : Word) : Word := BitVec.ofNat 256 (x.toNat ^ y.toNat)

/-- SIGNEXTEND: `x` seen as a signed integer of `b + 1` bytes, extended to 256 bits; `x` itself when `b ≥ 31` -/
def signextend (b x : Word) : Word :=
  if 31 ≤ b.toNat then x else
    let k := 8 * (b.toNat + 1)
    let low := x.toNat % 2 ^ k
    if low < 2 ^ (k - 1) then BitVec.ofNat 256 low else BitVec.ofInt 256 ((low : Int) - 2 ^ k)

def lt (x y : Word) : Word := ofBool (decide (x.toNat < y.toNat))
def gt (x y : Word) : Word := ofBool (decide (x.toNat > y.toNat))
def slt (x y : Word) : Word := ofBool (decide (x.toInt < y.toInt))
def sgt (x y : Word) : Word := ofBool (decide (x.toInt > y.toInt))
def eq (x y : Word) : Word := ofBool (decide (x = y))
def iszero (x : Word) : Word := ofBool (decide (x = 0))
def and (x y : Word) : Word := x &&& y
def or (x y : Word) : Word := x ||| y
def xor (x y : Word) : Word := x ^^^ y
def not (x : Word) : Word := ~~~x

/-- BYTE: byte `i` of `x` counted from the most significant one; `0` for `i ≥ 32` -/
def byte (i x : Word) : Word :=
  if i.toNat < 32 then BitVec.ofNat 256 (x.toNat / 256 ^ (31 - i.toNat) % 256) else 0

/-- SHL (EIP-145): `(x · 2^s) mod 2^256` — hence `0` for `s ≥ 256` -/
def shl (s x : Word) : Word := BitVec.ofNat 256 (x.toNat * 2 ^ s.toNat)
/-- SHR: `⌊x / 2^s⌋` — hence `0` for `s ≥ 256` -/
def shr (s x : Word) : Word := BitVec.ofNat 256 (x.toNat / 2 ^ s.toNat)
/-- SAR: `⌊x_signed / 2^s⌋` (rounding towards minus infinity) — hence `0` or `-1` for `s ≥ 256` -/
def sar (s x : Word) : Word := BitVec.ofInt 256 (x.toInt / (2 : Int) ^ s.toNat)

/-! ### fee schedule (Yellow Paper appendix G, with EIP-160 and EIP-1884), by opcode number -/

def Gverylow : Nat := 3
def Glow : Nat := 5
def Gmid : Nat := 8
def Gexp : Nat := 10
def Gexpbyte : Nat := 50
def Gsload : Nat := 800
def Gbase : Nat := 2

/-- the opcodes of the computational groups: arithmetic 0x01-0x0b, comparison/bitwise/shift 0x10-0x1d -/
def computational : List Nat :=
  [0x01, 0x02, 0x03, 0x04, 0x05, 0x06, 0x07, 0x08, 0x09, 0x0a, 0x0b,
   0x10, 0x11, 0x12, 0x13, 0x14, 0x15, 0x16, 0x17, 0x18, 0x19, 0x1a, 0x1b, 0x1c, 0x1d]

/-- static fee of a computational opcode (EXP: `Gexp`, its per-byte part is `expGas`) -/
def staticGas (op : Nat) : Nat :=
  if op = 0x02 ∨ op = 0x04 ∨ op = 0x05 ∨ op = 0x06 ∨ op = 0x07 ∨ op = 0x0b then Glow
  else if op = 0x08 ∨ op = 0x09 then Gmid
  else if op = 0x0a then Gexp
  else Gverylow

/-- number of bytes of the exponent: `0` for `0`, else `1 + ⌊log256 e⌋` -/
def byteLen (e : Nat) : Nat := if e = 0 then 0 else e.log2 / 8 + 1

/-- total fee of a computational opcode on the given stack (only EXP depends on it) -/
def gas (op : Nat) (stack : List Word) : Nat :=
  if op = 0x0a then
    match stack with
    | _ :: e :: _ => Gexp + Gexpbyte * byteLen e.toNat
    | _ => Gexp
  else staticGas op

/-- stack items removed δ and the specified result, by opcode number -/
def apply (op : Nat) (stack : List Word) : Option (List Word) :=
  match op, stack with
  | 0x01, x :: y :: r => some (add x y :: r)
  | 0x02, x :: y :: r => some (mul x y :: r)
  | 0x03, x :: y :: r => some (sub x y :: r)
  | 0x04, x :: y :: r => some (div x y :: r)
  | 0x05, x :: y :: r => some (sdiv x y :: r)
  | 0x06, x :: y :: r => some (mod x y :: r)
  | 0x07, x :: y :: r => some (smod x y :: r)
  | 0x08, x :: y :: m :: r => some (addmod x y m :: r)
  | 0x09, x :: y :: m :: r => some (mulmod x y m :: r)
  | 0x0a, x :: y :: r => some (exp x y :: r)
  | 0x0b, x :: y :: r => some (signextend x y :: r)
  | 0x10, x :: y :: r => some (lt x y :: r)
  | 0x11, x :: y :: r => some (gt x y :: r)
  | 0x12, x :: y :: r => some (slt x y :: r)
  | 0x13, x :: y :: r => some (sgt x y :: r)
  | 0x14, x :: y :: r => some (eq x y :: r)
  | 0x15, x :: r => some (iszero x :: r)
  | 0x16, x :: y :: r => some (and x y :: r)
  | 0x17, x :: y :: r => some (or x y :: r)
  | 0x18, x :: y :: r => some (xor x y :: r)
  | 0x19, x :: r => some (not x :: r)
  | 0x1a, x :: y :: r => some (byte x y :: r)
  | 0x1b, x :: y :: r => some (shl x y :: r)
  | 0x1c, x :: y :: r => some (shr x y :: r)
  | 0x1d, x :: y :: r => some (sar x y :: r)
  | _, _ => none

end YouVerif.C15.Spec
