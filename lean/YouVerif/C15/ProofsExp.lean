import YouVerif.C15.Proofs
import Mathlib.Data.Int.ModEq
open YouVerif.C15
namespace YouVerif.C15.Proofs

abbrev M : Int := 2^256

theorem loop2_nat (i b r : Int) (w : Nat) (hw : w < 2^64) :
    Gen.Exp_loop2 i (b, r, (w:Int)) = ((b*b) % M, (if w % 2 = 1 then (r*b) % M else r), ((w/2 : Nat) : Int)) := by
  have hand : Big.and (w:Int) 1 = ((w % 2 : Nat) : Int) := by
    show Big.and (w:Int) ((1:Nat):Int) = _
    rw [and_natCast, Nat.and_one_is_mod]
  have hsh : Big.wrapU64 (Big.rsh (w:Int) 1) = ((w/2 : Nat) : Int) := by
    simp only [Big.wrapU64, Big.rsh, Int.shiftRight_eq_div_pow]
    norm_num
    omega
  simp only [Gen.Exp_loop2, hand, hsh, U256_eq, Big.mul]
  by_cases h : w % 2 = 1
  · rw [if_pos (by omega), if_pos h]
  · rw [if_neg (by omega), if_neg h]

theorem inner_inv : ∀ (j : Nat) (i b r : Int) (w : Nat), w < 2^64 →
    ∃ bj rj, Big.forN.go Gen.Exp_loop2 j i (b, r, (w:Int)) = (bj, rj, ((w / 2^j : Nat) : Int)) ∧
      bj ≡ b^(2^j) [ZMOD M] ∧ rj ≡ r * b^(w % 2^j) [ZMOD M] ∧ (0 ≤ r ∧ r < M → 0 ≤ rj ∧ rj < M) := by
  intro j; induction j with
  | zero =>
    intro i b r w _
    refine ⟨b, r, ?_, ?_, ?_, fun h => h⟩
    · simp [Big.forN.go]
    · simp
    · simp [Nat.mod_one]
  | succ j ih =>
    intro i b r w hw
    have hw2 : w / 2 < 2^64 := by omega
    simp only [Big.forN.go, loop2_nat i b r w hw]
    obtain ⟨bj, rj, h1, h2, h3, h4⟩ := ih (i+1) ((b*b) % M) (if w % 2 = 1 then (r*b) % M else r) (w/2) hw2
    refine ⟨bj, rj, ?_, ?_, ?_, ?_⟩
    · rw [h1, Nat.div_div_eq_div_mul, ← Nat.pow_succ']
    · refine h2.trans ?_
      have : (b*b) % M ≡ b^2 [ZMOD M] := by rw [pow_two]; exact Int.mod_modEq _ _
      refine (this.pow _).trans ?_
      rw [← pow_mul, ← Nat.pow_succ']
    · refine h3.trans ?_
      have hb : (b*b) % M ≡ b^2 [ZMOD M] := by rw [pow_two]; exact Int.mod_modEq _ _
      have hexp : w % 2^(j+1) = w % 2 + 2 * (w / 2 % 2^j) := by
        rw [Nat.pow_succ', Nat.mod_mul]
      rw [hexp, pow_add, pow_mul, ← mul_assoc]
      refine Int.ModEq.mul ?_ (hb.pow _)
      by_cases h : w % 2 = 1
      · rw [if_pos h, h, pow_one]; exact Int.mod_modEq _ _
      · have : w % 2 = 0 := by omega
        rw [if_neg h, this, pow_zero, mul_one]
    · intro hr
      apply h4
      have hM : (0:Int) < M := by norm_num [M]
      split_ifs
      · exact ⟨Int.emod_nonneg _ (by omega), Int.emod_lt_of_pos _ hM⟩
      · exact hr

/-- one 64-bit word of the exponent -/
theorem loop1_nat (b r : Int) (w : Nat) (hw : w < 2^64) :
    ∃ b' r', Gen.Exp_loop1 (w:Int) (b, r) = (b', r') ∧ b' ≡ b^(2^64) [ZMOD M] ∧ r' ≡ r * b^w [ZMOD M] ∧
      (0 ≤ r ∧ r < M → 0 ≤ r' ∧ r' < M) := by
  obtain ⟨bj, rj, h1, h2, h3, h4⟩ := inner_inv 64 0 b r w hw
  refine ⟨bj, rj, ?_, h2, ?_, h4⟩
  · simp only [Gen.Exp_loop1, Big.forN]
    have : (Gen.wordBits).toNat = 64 := rfl
    rw [this, h1]
  · rw [Nat.mod_eq_of_lt hw] at h3; exact h3

/-- value of a little-endian list of 64-bit words -/
def wordsVal : List Int → Nat
  | [] => 0
  | w :: ws => w.toNat + 2^64 * wordsVal ws

theorem outer_inv : ∀ (ws : List Int), (∀ w ∈ ws, 0 ≤ w ∧ w < 2^64) → ∀ (b r : Int),
    ∃ b' r', Big.forEach ws (b, r) Gen.Exp_loop1 = (b', r') ∧ r' ≡ r * b^(wordsVal ws) [ZMOD M] ∧
      (0 ≤ r ∧ r < M → 0 ≤ r' ∧ r' < M) := by
  intro ws; induction ws with
  | nil => intro _ b r; exact ⟨b, r, rfl, by simp [wordsVal], fun h => h⟩
  | cons w ws ih =>
    intro hws b r
    obtain ⟨hw0, hw1⟩ := hws w (List.mem_cons_self ..)
    obtain ⟨n, rfl⟩ := Int.eq_ofNat_of_zero_le hw0
    have hn : n < 2^64 := by omega
    obtain ⟨b1, r1, e1, hb1, hr1, hrange1⟩ := loop1_nat b r n hn
    obtain ⟨b2, r2, e2, hr2, hrange2⟩ := ih (fun w' hw' => hws w' (List.mem_cons_of_mem _ hw')) b1 r1
    refine ⟨b2, r2, ?_, ?_, fun h => hrange2 (hrange1 h)⟩
    · simp only [Big.forEach, List.foldl_cons, e1]
      exact e2
    · refine hr2.trans ?_
      simp only [wordsVal, Int.toNat_natCast]
      rw [pow_add, pow_mul, ← mul_assoc]
      exact Int.ModEq.mul hr1 (hb1.pow _)

theorem wordsNat_spec : ∀ (fuel n : Nat), n < 2^(64*fuel) →
    (∀ w ∈ Big.wordsNat 64 fuel n, 0 ≤ w ∧ w < 2^64) ∧ wordsVal (Big.wordsNat 64 fuel n) = n := by
  intro fuel; induction fuel with
  | zero =>
    intro n h
    have : n = 0 := by simpa using h
    subst this
    simp [Big.wordsNat, wordsVal]
  | succ f ih =>
    intro n h
    unfold Big.wordsNat
    by_cases h0 : n = 0
    · subst h0; simp [wordsVal]
    · rw [if_neg h0]
      have hlt : n / 2^64 < 2^(64*f) := by
        apply Nat.div_lt_of_lt_mul
        rw [← Nat.pow_add]
        have : 64 + 64 * f = 64 * (f+1) := by ring
        rw [this]; exact h
      obtain ⟨i1, i2⟩ := ih (n / 2^64) hlt
      constructor
      · intro w hw
        rcases List.mem_cons.1 hw with rfl | hw
        · simp only [Int.ofNat_eq_natCast]; omega
        · exact i1 w hw
      · simp only [wordsVal, i2, Int.ofNat_eq_natCast, Int.toNat_natCast]
        omega

theorem bits_spec (e : Nat) :
    (∀ w ∈ Big.bits (e:Int), 0 ≤ w ∧ w < 2^64) ∧ wordsVal (Big.bits (e:Int)) = e := by
  unfold Big.bits
  rw [Int.natAbs_natCast]
  apply wordsNat_spec
  have h1 : e < 2^(e.log2 + 1) := Nat.lt_log2_self
  exact Nat.lt_of_lt_of_le h1 (Nat.pow_le_pow_right (by norm_num) (by omega))

theorem Exp_spec (b : Int) (e : Nat) : (Gen.Exp b (e:Int)).1 = b^e % M := by
  obtain ⟨hws, hval⟩ := bits_spec e
  have h1 : Big.wrapI64 1 = 1 := by decide
  obtain ⟨b', r', heq, hr, hrange⟩ := outer_inv _ hws b 1
  simp only [Gen.Exp, h1, heq]
  rw [hval, one_mul] at hr
  obtain ⟨h0, hM⟩ := hrange ⟨by norm_num, by norm_num [M]⟩
  have : r' % M = b^e % M := hr
  rw [← this, Int.emod_eq_of_lt h0 hM]

theorem opExp_spec (x y : W) : Gen.opExp x.toNat y.toNat = (Spec.exp x y).toNat := by
  simp only [Gen.opExp, Exp_spec, Spec.exp, BitVec.toNat_ofNat]
  push_cast; rfl

end YouVerif.C15.Proofs
