/-
C15 — semantics of the `math/big` operations (and of Go's fixed-width integer conversions) that the
translated opcode bodies use, over Lean's `Int`.  Core Lean only (linked into the driver).

This file is hand-written and part of the trusted base of C15; every function here is compared with the
real `math/big` on random and boundary operands (negative ones included) by the harness on every run
(driver op `B`).  Receiver semantics: the translator turns `z.Op(x, y)` into `let z := Big.op x y`.

Go panics (`Div`/`Mod`/`Quo`/`Rem` by zero, index out of range, negative bit index) are totalised to the
value `poison = -1`, which is never a legal machine word or stack value: a reachable panic therefore
falsifies the `_spec` theorems of the opcode that reaches it, and the correspondence check sees a Go panic
against a model value.
-/
namespace YouVerif.C15.Big

def poison : Int := -1

/-- `m &^ n` on naturals (bits of `m` that are not in `n`). -/
def andNotNat (m n : Nat) : Nat := m ^^^ (m &&& n)

/-- `big.Int.And`: two's-complement semantics on negative operands (math/big/int.go `And`). -/
def and : Int → Int → Int
  | .ofNat m, .ofNat n => Int.ofNat (m &&& n)
  | .ofNat m, .negSucc n => Int.ofNat (andNotNat m n)
  | .negSucc m, .ofNat n => Int.ofNat (andNotNat n m)
  | .negSucc m, .negSucc n => .negSucc (m ||| n)

/-- `big.Int.Or`. -/
def or : Int → Int → Int
  | .ofNat m, .ofNat n => Int.ofNat (m ||| n)
  | .ofNat m, .negSucc n => .negSucc (andNotNat n m)
  | .negSucc m, .ofNat n => .negSucc (andNotNat m n)
  | .negSucc m, .negSucc n => .negSucc (m &&& n)

/-- `big.Int.Xor`. -/
def xor : Int → Int → Int
  | .ofNat m, .ofNat n => Int.ofNat (m ^^^ n)
  | .ofNat m, .negSucc n => .negSucc (m ^^^ n)
  | .negSucc m, .ofNat n => .negSucc (m ^^^ n)
  | .negSucc m, .negSucc n => Int.ofNat (m ^^^ n)

/-- `big.Int.Not`: `-x - 1`. -/
def not (x : Int) : Int := -x - 1

def add (x y : Int) : Int := x + y
def sub (x y : Int) : Int := x - y
def mul (x y : Int) : Int := x * y
def neg (x : Int) : Int := -x
def abs (x : Int) : Int := Int.ofNat x.natAbs

/-- `big.Int.Div`: Euclidean division (panics on a zero divisor). -/
def div (x y : Int) : Int := if y = 0 then poison else x / y
/-- `big.Int.Mod`: Euclidean modulus, always `≥ 0` (panics on a zero divisor). -/
def mod (x y : Int) : Int := if y = 0 then poison else x % y
/-- `big.Int.Quo`: truncated division. -/
def quo (x y : Int) : Int := if y = 0 then poison else Int.tdiv x y
/-- `big.Int.Rem`: truncated remainder (sign of the dividend). -/
def rem (x y : Int) : Int := if y = 0 then poison else Int.tmod x y

/-- `big.Int.Exp(x, y, nil)`: `x^y`, and `1` for `y ≤ 0`. -/
def exp (x y : Int) : Int := if y ≤ 0 then 1 else x ^ y.toNat

/-- `big.Int.Lsh(x, n)` with `n : uint`. -/
def lsh (x n : Int) : Int := x * 2 ^ n.toNat
/-- `big.Int.Rsh(x, n)`: arithmetic shift (rounds towards minus infinity). -/
def rsh (x n : Int) : Int := x >>> n.toNat

/-- `big.Int.Cmp`. -/
def cmp (x y : Int) : Int := if x < y then -1 else if x = y then 0 else 1
/-- `big.Int.Sign`. -/
def sign (x : Int) : Int := if x < 0 then -1 else if x = 0 then 0 else 1

/-- `big.Int.Bit(i)`: bit `i` of the two's-complement representation (panics on `i < 0`). -/
def bit (x i : Int) : Int :=
  if i < 0 then poison else
  match x with
  | .ofNat m => if m.testBit i.toNat then 1 else 0
  | .negSucc m => if m.testBit i.toNat then 0 else 1

/-- `big.Int.Uint64()`: the low 64 bits of `|x|` (the sign is ignored, as in math/big). -/
def uint64 (x : Int) : Int := Int.ofNat (x.natAbs % 2 ^ 64)

def wrapU64 (x : Int) : Int := x % 2 ^ 64
def wrapI64 (x : Int) : Int := (x + 2 ^ 63) % 2 ^ 64 - 2 ^ 63
def wrapU8 (x : Int) : Int := x % 256

/-- `big.Int.Int64()`: `v := int64(low64(|x|)); if x < 0 { v = -v }`. -/
def int64 (x : Int) : Int :=
  let v := wrapI64 (uint64 x)
  if x < 0 then wrapI64 (-v) else v

/-- `big.Int.BitLen()`: length of `|x|` in bits. -/
def bitLen (x : Int) : Int := if x.natAbs = 0 then 0 else Int.ofNat (x.natAbs.log2 + 1)

/-- little-endian `w`-bit words of `n`, at most `fuel` of them -/
def wordsNat (w : Nat) : Nat → Nat → List Int
  | 0, _ => []
  | fuel + 1, n => if n = 0 then [] else Int.ofNat (n % 2 ^ w) :: wordsNat w fuel (n / 2 ^ w)

/-- `big.Int.Bits()` on a 64-bit platform: the little-endian 64-bit words of `|x|`, normalised (no leading
zero word; `[]` for 0). -/
def bits (x : Int) : List Int := wordsNat 64 (x.natAbs.log2 / 64 + 1) x.natAbs

/-- slice indexing `ws[i]` (panics when out of range) -/
def idx (ws : List Int) (i : Int) : Int :=
  if i < 0 then poison else match ws[i.toNat]? with
    | some w => w
    | none => poison

def len (ws : List Int) : Int := Int.ofNat ws.length

/-- `for i := 0; i < n; i++ { st = f i st }` -/
def forN {σ : Type} (n : Int) (init : σ) (f : Int → σ → σ) : σ :=
  let rec go : Nat → Int → σ → σ
    | 0, _, st => st
    | k + 1, i, st => go k (i + 1) (f i st)
  go n.toNat 0 init

/-- `for _, w := range ws { st = f w st }` -/
def forEach {σ : Type} (ws : List Int) (init : σ) (f : Int → σ → σ) : σ :=
  ws.foldl (fun st w => f w st) init

end YouVerif.C15.Big
