/-
C17 — the contracts the accounting theorems assume of the two parameters of the model (the EVM and the
staking action handlers), and of a converter in general. Definitions only (core Lean).
-/
import YouVerif.C17.Model
namespace YouVerif.C17

/-- equality of `Except` values is decidable (used by the literal tests / witnesses) -/
instance instDecEqExcept {ε α : Type} [DecidableEq ε] [DecidableEq α] : DecidableEq (Except ε α) := fun a b =>
  match a, b with
  | .ok x, .ok y => if h : x = y then isTrue (by rw [h]) else isFalse (by intro e; cases e; exact h rfl)
  | .error x, .error y => if h : x = y then isTrue (by rw [h]) else isFalse (by intro e; cases e; exact h rfl)
  | .ok _, .error _ => isFalse (by intro e; cases e)
  | .error _, .ok _ => isFalse (by intro e; cases e)

/-- What `ApplyMessageEntry` relies on from a `TxConverter` (for one message), part 1: it returns no more gas
than it was given, and its errors are not among the up-front refusal reasons. -/
structure ConvSafe (conv : Converter) (m : Msg) : Prop where
  gas_le   : ∀ w r avail init, (conv m w r avail init).avail ≤ avail
  err_late : ∀ w r avail init e, (conv m w r avail init).err = some e →
               e = .insufficientBalance ∨ e = .moduleAddress ∨ e = .other

/-- part 2: when it reports no error, the `usedGas` it returns is what it really consumed
(`InitialGas - AvailableGas`). The staking converter before YouV4 does not satisfy this. -/
structure ConvContract (conv : Converter) (m : Msg) : Prop extends ConvSafe conv m where
  reported : ∀ w r avail init, avail ≤ init → init < U64 → (conv m w r avail init).err = none →
               (conv m w r avail init).reported = init - (conv m w r avail init).avail

/-- the sender's balance right after `buyGas` -/
def balAfterBuy (s : St) (m : Msg) : Int := (s.world.get m.sender).balance - ((m.f.gasLimit * m.f.price : Nat) : Int)

/-- the world right after `buyGas` -/
def worldAfterBuy (s : St) (m : Msg) : World := s.world.addBal m.sender (-((m.f.gasLimit * m.f.price : Nat) : Int))

/-- Contract of the EVM for one message (this is what property C16 is about; here it is an assumption, sampled
by the correspondence check): never returns more gas than given; `ErrInsufficientBalance` exactly when the
sender cannot cover the value, leaving everything untouched; a creation bumps the sender's nonce, a call does
not; the sender's balance drops by the value exactly when the run succeeds and the recipient is someone else;
nobody's nonce decreases. -/
structure EvmSpec (evm : Evm) (m : Msg) : Prop where
  gas_le   : ∀ w r g, (evm m w r g).gasLeft ≤ g
  insuff   : ∀ w r g, (evm m w r g).vmerr = .insufficientBalance ↔ (w.get m.sender).balance < (m.f.value : Int)
  untouched : ∀ w r g, (evm m w r g).vmerr = .insufficientBalance →
               (evm m w r g).world = w ∧ (evm m w r g).gasLeft = g ∧ (evm m w r g).refund = r
  nonce    : ∀ w r g, (evm m w r g).vmerr ≠ .insufficientBalance →
               ((evm m w r g).world.get m.sender).nonce =
                 if m.f.to.isSome then (w.get m.sender).nonce else ((w.get m.sender).nonce + 1) % U64
  balance  : ∀ w r g, m.f.to ≠ some m.sender →
               ((evm m w r g).world.get m.sender).balance =
                 (w.get m.sender).balance - (if (evm m w r g).vmerr = .none then (m.f.value : Int) else 0)
  nonce_mono : ∀ w r g a, a ≠ m.sender → (w.get a).nonce ≤ ((evm m w r g).world.get a).nonce

/-- Contract of the staking action handlers for one message: a handler never touches nonces; a failing handler
leaves the sender's balance alone; a successful one debits a non-negative amount (the stake). -/
structure HandlerSpec (h : Handler) (m : Msg) : Prop where
  nonce : ∀ a p w b, ((h a p m w).1.get b).nonce = (w.get b).nonce
  fail  : ∀ a p w, (h a p m w).2 = false → ((h a p m w).1.get m.sender).balance = (w.get m.sender).balance
  ok    : ∀ a p w, (h a p m w).2 = true → ((h a p m w).1.get m.sender).balance ≤ (w.get m.sender).balance

/-- both parameters of an environment respect their contracts for every message -/
structure EnvSpec (E : Env) : Prop where
  evm     : ∀ m, EvmSpec E.evm m
  handler : ∀ m, HandlerSpec E.handler m

/-- A family of EVM summaries that satisfy `EvmSpec` for every input (used for non-vacuity examples and for the
counterexample witnesses): after the `CanTransfer` guard the run succeeds, burns `cost` gas (or whatever is left)
and adds `refundAdd` to the refund counter — e.g. a contract that clears a storage slot is `cost = 5006`,
`refundAdd = 15000`; `evmPlain` is `cost = 0`, `refundAdd = 0`. -/
def evmCosting (dest : Addr) (cost refundAdd : Nat) : Evm := fun m w refund gas =>
  if (w.get m.sender).balance < (m.f.value : Int) then
    { world := w, refund := refund, gasLeft := gas, vmerr := .insufficientBalance }
  else
    if m.f.to.isNone && occupied (bumpIfCreate m w) dest then collisionOut (bumpIfCreate m w) refund   -- occupied address
    else { world := (bumpIfCreate m w).transfer m.sender dest m.f.value, refund := refund + refundAdd,
           gasLeft := gas - min gas cost, vmerr := .none }

/-- the errors that are raised before anything is touched -/
def Err.upFront : Err → Bool
  | .sender _ | .nonceTooHigh | .nonceTooLow | .insufficientBalanceForGas | .gasLimitReached => true
  | _ => false

end YouVerif.C17
