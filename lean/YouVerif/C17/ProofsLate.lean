/-
C17 helper lemmas: the late error raised by the converter (`vm.ErrInsufficientBalance` at top level).
-/
import YouVerif.C17.ProofsSpec
namespace YouVerif.C17
open YouVerif.Common

/-- what `ApplyMessageEntry` leaves behind when the *converter* returns an error -/
theorem entry_conv_err {conv : Converter} {basic : Nat} {s : St} {m : Msg} (hc : ConvSafe conv m)
    (hlim : m.f.gasLimit < U64) (hpool : s.pool < U64) {e : Err}
    (h : (applyMessageEntryWith conv basic s m).err = some e)
    (he : e = .insufficientBalance ∨ e = .moduleAddress ∨ e = .other) :
    ∃ ig, intrinsicGas basic m.f.data = some ig ∧ ig ≤ m.f.gasLimit ∧
      (s.world.get m.sender).nonce = m.f.nonce ∧
      ((m.f.gasLimit * m.f.price : Nat) : Int) ≤ (s.world.get m.sender).balance ∧
      m.f.gasLimit ≤ s.pool ∧
      (conv m (worldAfterBuy s m) s.refund (m.f.gasLimit - ig) m.f.gasLimit).err = some e ∧
      (applyMessageEntryWith conv basic s m).st =
        (let o := conv m (worldAfterBuy s m) s.refund (m.f.gasLimit - ig) m.f.gasLimit
         let refund := min ((m.f.gasLimit - o.avail) / 2) o.refund
         { world := o.world.addBal m.sender (((o.avail + refund) * m.f.price : Nat) : Int),
           refund := o.refund,
           pool := s.pool - m.f.gasLimit + (o.avail + refund) }) := by
  unfold applyMessageEntryWith at h ⊢
  cases hpc : preCheck s m with
  | error e' =>
    simp only [hpc, Option.some.injEq] at h
    have := preCheck_err hpc
    subst h
    rcases this with ⟨h1, _⟩ | ⟨h1, _⟩ | ⟨h1, _⟩ | ⟨h1, _⟩ <;> rcases he with he | he | he <;> simp [h1] at he
  | ok s1 =>
    obtain ⟨hn, hb, hp, hs1⟩ := preCheck_ok hpc
    simp only [hpc] at h ⊢
    cases hig : intrinsicGas basic m.f.data with
    | none =>
      simp only [hig, Option.some.injEq] at h; subst h
      rcases he with he | he | he <;> simp at he
    | some ig =>
      simp only [hig] at h ⊢
      by_cases hlt : m.f.gasLimit < ig
      · simp only [hlt, if_true, Option.some.injEq] at h; subst h
        rcases he with he | he | he <;> simp at he
      · simp only [hlt, if_false] at h ⊢
        have hw : s1.world = worldAfterBuy s m := by rw [hs1]
        have hr : s1.refund = s.refund := by rw [hs1]
        have hpl : s1.pool = s.pool - m.f.gasLimit := by rw [hs1]
        rw [hw, hr] at h ⊢
        have hav := hc.gas_le (worldAfterBuy s m) s.refund (m.f.gasLimit - ig) m.f.gasLimit
        refine ⟨ig, rfl, by omega, hn, hb, hp, ?_⟩
        generalize conv m (worldAfterBuy s m) s.refund (m.f.gasLimit - ig) m.f.gasLimit = o at h hav ⊢
        have hused : gasUsedOf m.f.gasLimit o.avail = m.f.gasLimit - o.avail := gasUsedOf_eq (by omega) hlim
        have hmod : (o.avail + min ((m.f.gasLimit - o.avail) / 2) o.refund) % U64 =
            o.avail + min ((m.f.gasLimit - o.avail) / 2) o.refund := by
          apply Nat.mod_eq_of_lt
          have : min ((m.f.gasLimit - o.avail) / 2) o.refund ≤ (m.f.gasLimit - o.avail) / 2 := Nat.min_le_left _ _
          omega
        have hnov : ¬ (s1.pool + (o.avail + min ((m.f.gasLimit - o.avail) / 2) o.refund) > maxU64) := by
          have : min ((m.f.gasLimit - o.avail) / 2) o.refund ≤ (m.f.gasLimit - o.avail) / 2 := Nat.min_le_left _ _
          unfold maxU64; unfold U64 at hpool; omega
        unfold finishEntry at h ⊢
        simp only [hused, hmod, hnov, if_false] at h ⊢
        exact ⟨h, by rw [hpl]⟩

/-- `vm.ErrInsufficientBalance` at top level (value above what is left after the gas purchase): the EVM touched
nothing and returned all gas, so `refundGas` leaves the sender charged the intrinsic gas, the pool short of it, and —
for a call — the nonce already bumped. -/
theorem late_insufficient_balance {E : Env} {s : St} {acc : Acc} {m : Msg}
    (hE : EvmSpec E.evm m) (hns : E.isStaking m = false)
    (hlim : m.f.gasLimit < U64) (hpool : s.pool < U64) (hr0 : s.refund = 0)
    (h : (applyMsg E s acc m).out = .error .insufficientBalance) :
    ∃ ig, intrinsicGas (E.basicGas m) m.f.data = some ig ∧ ig ≤ m.f.gasLimit ∧
      (s.world.get m.sender).nonce = m.f.nonce ∧
      (s.world.get m.sender).balance - ((m.f.gasLimit * m.f.price : Nat) : Int) < (m.f.value : Int) ∧
      (applyMsg E s acc m).st.pool = s.pool - ig ∧
      ((applyMsg E s acc m).st.world.get m.sender).balance =
        (s.world.get m.sender).balance - ((ig * m.f.price : Nat) : Int) ∧
      ((applyMsg E s acc m).st.world.get m.sender).nonce =
        (if m.f.to.isSome then (m.f.nonce + 1) % U64 else m.f.nonce) ∧
      (applyMsg E s acc m).acc = acc := by
  obtain ⟨herr, hst, hacc⟩ := applyMsg_err h
  have hconv : E.conv m = evmConv E.evm := by unfold Env.conv; simp [hns]
  unfold applyMessageEntry at herr hst
  rw [hconv] at herr hst
  obtain ⟨ig, hig, higl, hn, hb, hp, hoerr, hstate⟩ :=
    entry_conv_err (evmConv_safe hE.gas_le) hlim hpool herr (Or.inl rfl)
  rw [evmConv_apply] at hoerr hstate
  have hins : (E.evm m (callWorld m (worldAfterBuy s m)) s.refund (m.f.gasLimit - ig)).vmerr = .insufficientBalance := by
    unfold evmConvOut at hoerr
    split at hoerr
    · assumption
    · simp at hoerr
  obtain ⟨hwu, hgu, hru⟩ := hE.untouched _ _ _ hins
  have hlt := (hE.insuff _ _ _).mp hins
  rw [callWorld_balance, worldAfterBuy_get] at hlt
  simp only at hlt
  have hout : evmConvOut (E.evm m (callWorld m (worldAfterBuy s m)) s.refund (m.f.gasLimit - ig)) m.f.gasLimit =
      { world := callWorld m (worldAfterBuy s m), refund := s.refund, avail := m.f.gasLimit - ig, reported := 0,
        failed := false, err := some .insufficientBalance } := by
    unfold evmConvOut
    simp only [hins, if_true, hwu, hgu, hru]
  rw [hout] at hstate
  simp only [hr0, Nat.min_zero, Nat.add_zero] at hstate
  refine ⟨ig, hig, higl, hn, hlt, ?_, ?_, ?_, hacc⟩
  · rw [hst, hstate]; simp only; omega
  · rw [hst, hstate]
    simp only
    rw [get_addBal_same]
    simp only
    rw [callWorld_balance, worldAfterBuy_get]
    simp only
    have hsplit := split_mul m.f.price (show m.f.gasLimit = ig + (m.f.gasLimit - ig) by omega)
    omega
  · rw [hst, hstate]
    simp only
    rw [get_addBal_same]
    simp only
    rw [callWorld_nonce, worldAfterBuy_get]
    simp only
    rw [hn]

end YouVerif.C17
