/-
C17 helper lemmas: the RLP encoder is injective on the shape of the signing preimage
(a list of nine byte strings), without any axiom about hashing.
-/
import YouVerif.C17.Model
namespace YouVerif.C17
open YouVerif.Common

def f256 (acc : Nat) (b : UInt8) : Nat := acc * 256 + b.toNat

theorem natOfBytesBE_eq (l : List UInt8) : natOfBytesBE l = l.foldl f256 0 := rfl

theorem go_foldl (fuel : Nat) : ∀ (n : Nat) (acc : List UInt8), n < fuel →
    (bytesOfNatBE.go fuel n acc).foldl f256 0 = acc.foldl f256 n := by
  induction fuel with
  | zero => intro n acc h; omega
  | succ k ih =>
    intro n acc h
    unfold bytesOfNatBE.go
    by_cases h0 : n = 0
    · simp [h0]
    · simp only [h0, if_false]
      rw [ih (n / 256) _ (by omega)]
      simp only [List.foldl_cons, f256, UInt8.toNat_ofNat']
      congr 1
      omega

theorem natOfBytesBE_bytesOfNatBE (n : Nat) : natOfBytesBE (bytesOfNatBE n) = n := by
  unfold bytesOfNatBE
  rw [natOfBytesBE_eq, go_foldl (n+1) n [] (by omega)]
  rfl

theorem bytesOfNatBE_inj {a b : Nat} (h : bytesOfNatBE a = bytesOfNatBE b) : a = b := by
  have := congrArg natOfBytesBE h
  simpa [natOfBytesBE_bytesOfNatBE] using this
theorem go_length (fuel : Nat) : ∀ (n k : Nat) (acc : List UInt8), n < 256 ^ k →
    (bytesOfNatBE.go fuel n acc).length ≤ k + acc.length := by
  induction fuel with
  | zero => intro n k acc _; unfold bytesOfNatBE.go; omega
  | succ f ih =>
    intro n k acc h
    unfold bytesOfNatBE.go
    by_cases h0 : n = 0
    · simp [h0]
    · simp only [h0, if_false]
      cases k with
      | zero => simp at h; omega
      | succ k' =>
        have : n / 256 < 256 ^ k' := by
          rw [Nat.pow_succ] at h
          exact Nat.div_lt_of_lt_mul (by omega)
        have := ih (n / 256) k' (UInt8.ofNat (n % 256) :: acc) this
        simp only [List.length_cons] at this
        omega

theorem bytesOfNatBE_length_le {n k : Nat} (h : n < 256 ^ k) : (bytesOfNatBE n).length ≤ k := by
  have := go_length (n+1) n k [] h
  simpa [bytesOfNatBE] using this

theorem foldl_f256_lt (l : List UInt8) : ∀ z, l.foldl f256 z < (z + 1) * 256 ^ l.length := by
  induction l with
  | nil => intro z; simp
  | cons b t ih =>
    intro z
    simp only [List.foldl_cons, List.length_cons]
    have h1 := ih (f256 z b)
    have hb : b.toNat < 256 := UInt8.toNat_lt b
    have : (f256 z b + 1) ≤ (z + 1) * 256 := by unfold f256; omega
    calc List.foldl f256 (f256 z b) t < (f256 z b + 1) * 256 ^ t.length := h1
      _ ≤ ((z + 1) * 256) * 256 ^ t.length := Nat.mul_le_mul_right _ this
      _ = (z + 1) * 256 ^ (t.length + 1) := by rw [Nat.pow_succ, Nat.mul_assoc, Nat.mul_comm 256]

theorem natOfBytesBE_lt (l : List UInt8) : natOfBytesBE l < 256 ^ l.length := by
  have := foldl_f256_lt l 0
  show List.foldl f256 0 l < 256 ^ l.length
  simpa using this
theorem encode_str_single (b : UInt8) : Rlp.encode (.str [b]) =
    if b.toNat < 128 then [b] else Rlp.encodeLength 1 128 ++ [b] := by
  rw [Rlp.encode]

theorem encode_str_other (bs : List UInt8) (h : ∀ b, bs ≠ [b]) : Rlp.encode (.str bs) =
    Rlp.encodeLength bs.length 128 ++ bs := by
  rw [Rlp.encode]
  intro b hb; exact h b hb

theorem encode_list (is : List Rlp.Item) : Rlp.encode (.list is) =
    Rlp.encodeLength (Rlp.encodeList is).length 192 ++ Rlp.encodeList is := by
  rw [Rlp.encode]

theorem encodeList_nil : Rlp.encodeList [] = [] := by rw [Rlp.encodeList]
theorem encodeList_cons (i : Rlp.Item) (is : List Rlp.Item) :
    Rlp.encodeList (i :: is) = Rlp.encode i ++ Rlp.encodeList is := by
  rw [Rlp.encodeList]

/-- a decoder for the *head string* of a byte sequence (only what the injectivity proof needs) -/
def decStr : List UInt8 → Option (List UInt8 × List UInt8)
  | [] => none
  | b :: rest =>
    if b.toNat < 128 then some ([b], rest)
    else if b.toNat < 184 then some (rest.take (b.toNat - 128), rest.drop (b.toNat - 128))
    else if b.toNat < 192 then
      let ll := b.toNat - 183
      let n := natOfBytesBE (rest.take ll)
      some ((rest.drop ll).take n, (rest.drop ll).drop n)
    else none

theorem bytesOfNatBE_length_pos {n : Nat} (h : 0 < n) : 0 < (bytesOfNatBE n).length := by
  rcases hl : bytesOfNatBE n with _ | ⟨b, t⟩
  · have := natOfBytesBE_bytesOfNatBE n
    rw [hl] at this
    simp [natOfBytesBE] at this
    omega
  · simp

theorem decStr_encode (a x : List UInt8) (ha : a.length < U64) :
    decStr (Rlp.encode (.str a) ++ x) = some (a, x) := by
  by_cases hs : ∃ b, a = [b]
  · obtain ⟨b, rfl⟩ := hs
    rw [encode_str_single]
    by_cases hb : b.toNat < 128
    · simp [hb, decStr]
    · simp [hb, Rlp.encodeLength, decStr]
  · have hs' : ∀ b, a ≠ [b] := fun b hb => hs ⟨b, hb⟩
    rw [encode_str_other a hs']
    by_cases hl : a.length < 56
    · have hm : (128 + a.length) % 256 = 128 + a.length := Nat.mod_eq_of_lt (by omega)
      have n1 : ¬ (128 + a.length < 128) := by omega
      have n2 : 128 + a.length < 184 := by omega
      have e : 128 + a.length - 128 = a.length := by omega
      simp [Rlp.encodeLength, hl, decStr, hm, n1, n2, e]
    · have h8 : (bytesOfNatBE a.length).length ≤ 8 :=
        bytesOfNatBE_length_le (by unfold U64 at ha; omega)
      have h1 : 0 < (bytesOfNatBE a.length).length := bytesOfNatBE_length_pos (by omega)
      have hbyte : (UInt8.ofNat (128 + 55 + (bytesOfNatBE a.length).length)).toNat = 183 + (bytesOfNatBE a.length).length := by
        rw [UInt8.toNat_ofNat']; omega
      simp only [Rlp.encodeLength, hl, if_false, List.cons_append, List.append_assoc, decStr, hbyte]
      have e1 : ¬ (183 + (bytesOfNatBE a.length).length < 128) := by omega
      have e2 : ¬ (183 + (bytesOfNatBE a.length).length < 184) := by omega
      have e3 : (183 + (bytesOfNatBE a.length).length < 192) := by omega
      have e4 : 183 + (bytesOfNatBE a.length).length - 183 = (bytesOfNatBE a.length).length := by omega
      simp only [e1, e2, e3, if_true, if_false, e4, List.take_left', List.drop_left', natOfBytesBE_bytesOfNatBE]

theorem encode_str_ne_nil (a x : List UInt8) (ha : a.length < U64) : Rlp.encode (.str a) ++ x ≠ [] := by
  intro h
  have := decStr_encode a x ha
  rw [h] at this
  simp [decStr] at this

/-- the concatenated encodings of byte strings determine the strings -/
theorem encodeList_strs_inj : ∀ (l1 l2 : List (List UInt8)),
    (∀ s ∈ l1, s.length < U64) → (∀ s ∈ l2, s.length < U64) →
    Rlp.encodeList (l1.map .str) = Rlp.encodeList (l2.map .str) → l1 = l2 := by
  intro l1
  induction l1 with
  | nil =>
    intro l2 _ h2 h
    cases l2 with
    | nil => rfl
    | cons b t =>
      simp only [List.map_nil, List.map_cons, encodeList_nil, encodeList_cons] at h
      exact absurd h.symm (encode_str_ne_nil b _ (h2 b (by simp)))
  | cons a t ih =>
    intro l2 h1 h2 h
    cases l2 with
    | nil =>
      simp only [List.map_nil, List.map_cons, encodeList_nil, encodeList_cons] at h
      exact absurd h (encode_str_ne_nil a _ (h1 a (by simp)))
    | cons b t2 =>
      simp only [List.map_cons, encodeList_cons] at h
      have da := decStr_encode a (Rlp.encodeList (t.map .str)) (h1 a (by simp))
      have db := decStr_encode b (Rlp.encodeList (t2.map .str)) (h2 b (by simp))
      rw [h] at da
      rw [da] at db
      simp only [Option.some.injEq, Prod.mk.injEq] at db
      obtain ⟨hab, hrest⟩ := db
      have := ih t2 (fun s hs => h1 s (by simp [hs])) (fun s hs => h2 s (by simp [hs])) hrest
      rw [hab, this]

theorem bytesOfNatBE_length_mono {n m : Nat} (h : n ≤ m) : (bytesOfNatBE n).length ≤ (bytesOfNatBE m).length := by
  apply bytesOfNatBE_length_le
  have := natOfBytesBE_lt (bytesOfNatBE m)
  rw [natOfBytesBE_bytesOfNatBE] at this
  omega

theorem encodeLength_length (n off : Nat) :
    (Rlp.encodeLength n off).length = if n < 56 then 1 else 1 + (bytesOfNatBE n).length := by
  unfold Rlp.encodeLength
  split <;> simp <;> omega

theorem encodeLength_length_mono {n m : Nat} (off : Nat) (h : n ≤ m) :
    (Rlp.encodeLength n off).length ≤ (Rlp.encodeLength m off).length := by
  rw [encodeLength_length, encodeLength_length]
  have := bytesOfNatBE_length_mono h
  split <;> split <;> omega

/-- a list header followed by its payload determines the payload -/
theorem list_payload_inj (p1 p2 : List UInt8)
    (h : Rlp.encodeLength p1.length 192 ++ p1 = Rlp.encodeLength p2.length 192 ++ p2) : p1 = p2 := by
  have hlen := congrArg List.length h
  simp only [List.length_append] at hlen
  have hl : p1.length = p2.length := by
    rcases Nat.lt_trichotomy p1.length p2.length with hlt | heq | hgt
    · have := encodeLength_length_mono 192 (Nat.le_of_lt hlt); omega
    · exact heq
    · have := encodeLength_length_mono 192 (Nat.le_of_lt hgt); omega
  rw [hl] at h
  exact List.append_cancel_left h

theorem preimageItem_eq (f : TxFields) (n : Nat) : preimageItem f n =
    .list ([bytesOfNatBE f.nonce, bytesOfNatBE f.price, bytesOfNatBE f.gasLimit, f.to.getD [], bytesOfNatBE f.value,
            f.data, bytesOfNatBE n, bytesOfNatBE 0, bytesOfNatBE 0].map .str) := by
  simp [preimageItem, Rlp.ofNat]

theorem small_of_lt_U64 {n : Nat} (h : n < U64) : (bytesOfNatBE n).length < U64 := by
  have : (bytesOfNatBE n).length ≤ 8 := bytesOfNatBE_length_le (by unfold U64 at h; omega)
  unfold U64; omega

theorem preimage_strs_small (f : TxFields) (n : Nat) (hf : f.WF) (hn : n < U64) :
    ∀ s ∈ [bytesOfNatBE f.nonce, bytesOfNatBE f.price, bytesOfNatBE f.gasLimit, f.to.getD [], bytesOfNatBE f.value,
            f.data, bytesOfNatBE n, bytesOfNatBE 0, bytesOfNatBE 0], s.length < U64 := by
  obtain ⟨h1, h2, h3, h4, h5, h6⟩ := hf
  have h0 : (bytesOfNatBE 0).length < U64 := small_of_lt_U64 (by unfold U64; omega)
  have hto : (f.to.getD []).length < U64 := by
    cases ht : f.to with
    | none => simp [U64]
    | some a => simp [h6 a ht, U64]
  intro s hs
  simp only [List.mem_cons, List.mem_nil_iff, or_false] at hs
  rcases hs with rfl | rfl | rfl | rfl | rfl | rfl | rfl | rfl | rfl
  · exact small_of_lt_U64 h1
  · exact h3
  · exact small_of_lt_U64 h2
  · exact hto
  · exact h4
  · exact h5
  · exact small_of_lt_U64 hn
  · exact h0
  · exact h0

theorem to_inj (t1 t2 : Option Addr) (h1 : ∀ a, t1 = some a → a.length = 20) (h2 : ∀ a, t2 = some a → a.length = 20)
    (e : t1.getD [] = t2.getD []) : t1 = t2 := by
  cases t1 with
  | none =>
    cases t2 with
    | none => rfl
    | some b =>
      have hb := h2 b rfl
      simp only [Option.getD_none, Option.getD_some] at e
      subst e
      simp at hb
  | some a =>
    cases t2 with
    | none =>
      have ha := h1 a rfl
      simp only [Option.getD_none, Option.getD_some] at e
      subst e
      simp at ha
    | some b =>
      simp only [Option.getD_some] at e
      rw [e]

/-- The signing preimage is injective: equal preimage bytes mean equal fields and equal network id. -/
theorem preimage_injective (f₁ f₂ : TxFields) (n₁ n₂ : Nat) (h₁ : f₁.WF) (h₂ : f₂.WF) (hn₁ : n₁ < U64) (hn₂ : n₂ < U64)
    (h : preimage f₁ n₁ = preimage f₂ n₂) : f₁ = f₂ ∧ n₁ = n₂ := by
  unfold preimage at h
  rw [preimageItem_eq, preimageItem_eq, encode_list, encode_list] at h
  have hp := list_payload_inj _ _ h
  have hl := encodeList_strs_inj _ _ (preimage_strs_small f₁ n₁ h₁ hn₁) (preimage_strs_small f₂ n₂ h₂ hn₂) hp
  simp only [List.cons.injEq, and_true] at hl
  obtain ⟨e1, e2, e3, e4, e5, e6, e7⟩ := hl
  have hto : f₁.to = f₂.to := to_inj _ _ h₁.2.2.2.2.2 h₂.2.2.2.2.2 e4
  refine ⟨?_, bytesOfNatBE_inj e7⟩
  cases f₁; cases f₂
  simp only [TxFields.mk.injEq]
  simp only at e1 e2 e3 e5 e6 hto
  exact ⟨bytesOfNatBE_inj e1, bytesOfNatBE_inj e2, bytesOfNatBE_inj e3, hto, bytesOfNatBE_inj e5, e6⟩

end YouVerif.C17
