/-
C17 helper lemmas: accounting of preCheck / ApplyMessageEntry / ApplyTransaction.
-/
import YouVerif.C17.ModelSpec
namespace YouVerif.C17
open YouVerif.Common

/-! ### world lookups -/

theorem get_addBal_same (w : World) (a : Addr) (d : Int) :
    (w.addBal a d).get a = { w.get a with balance := (w.get a).balance + d } := by
  simp [World.addBal, World.get_set]

theorem get_addBal_other (w : World) {a b : Addr} (d : Int) (h : b ≠ a) : (w.addBal a d).get b = w.get b := by
  simp [World.addBal, World.get_set, h]

theorem get_setNonce_same (w : World) (a : Addr) (n : Nat) :
    (w.setNonce a n).get a = { w.get a with nonce := n } := by
  simp [World.setNonce, World.get_set]

theorem get_setNonce_other (w : World) {a b : Addr} (n : Nat) (h : b ≠ a) : (w.setNonce a n).get b = w.get b := by
  simp [World.setNonce, World.get_set, h]

/-! ### preCheck -/

theorem preCheck_ok {s : St} {m : Msg} {s1 : St} (h : preCheck s m = .ok s1) :
    (s.world.get m.sender).nonce = m.f.nonce ∧
    ((m.f.gasLimit * m.f.price : Nat) : Int) ≤ (s.world.get m.sender).balance ∧
    m.f.gasLimit ≤ s.pool ∧
    s1 = { s with pool := s.pool - m.f.gasLimit, world := worldAfterBuy s m } := by
  unfold preCheck at h
  simp only at h
  split at h
  · simp at h
  · split at h
    · simp at h
    · split at h
      · simp at h
      · split at h
        · simp at h
        · simp only [Except.ok.injEq] at h
          refine ⟨by omega, by omega, by omega, ?_⟩
          rw [← h]; rfl

theorem preCheck_err {s : St} {m : Msg} {e : Err} (h : preCheck s m = .error e) :
    (e = .nonceTooHigh ∧ (s.world.get m.sender).nonce < m.f.nonce) ∨
    (e = .nonceTooLow ∧ m.f.nonce < (s.world.get m.sender).nonce) ∨
    (e = .insufficientBalanceForGas ∧ (s.world.get m.sender).balance < ((m.f.gasLimit * m.f.price : Nat) : Int)) ∨
    (e = .gasLimitReached ∧ s.pool < m.f.gasLimit) := by
  unfold preCheck at h
  grind

theorem gasUsedOf_eq {initial avail : Nat} (h1 : avail ≤ initial) (h2 : initial < U64) :
    gasUsedOf initial avail = initial - avail := by
  unfold gasUsedOf; unfold U64 at *; omega

/-- what a successful `ApplyMessageEntry` did, in terms of the converter's output -/
theorem entry_ok {conv : Converter} {basic : Nat} {s : St} {m : Msg} (hc : ConvSafe conv m)
    (hlim : m.f.gasLimit < U64) (hpool : s.pool < U64)
    (h : (applyMessageEntryWith conv basic s m).err = none) :
    ∃ ig, intrinsicGas basic m.f.data = some ig ∧ ig ≤ m.f.gasLimit ∧
      (s.world.get m.sender).nonce = m.f.nonce ∧
      ((m.f.gasLimit * m.f.price : Nat) : Int) ≤ (s.world.get m.sender).balance ∧
      m.f.gasLimit ≤ s.pool ∧
      (conv m (worldAfterBuy s m) s.refund (m.f.gasLimit - ig) m.f.gasLimit).err = none ∧
      (conv m (worldAfterBuy s m) s.refund (m.f.gasLimit - ig) m.f.gasLimit).avail ≤ m.f.gasLimit - ig ∧
      (applyMessageEntryWith conv basic s m).gas =
        (conv m (worldAfterBuy s m) s.refund (m.f.gasLimit - ig) m.f.gasLimit).reported ∧
      (applyMessageEntryWith conv basic s m).failed =
        (conv m (worldAfterBuy s m) s.refund (m.f.gasLimit - ig) m.f.gasLimit).failed ∧
      (applyMessageEntryWith conv basic s m).st =
        (let o := conv m (worldAfterBuy s m) s.refund (m.f.gasLimit - ig) m.f.gasLimit
         let refund := min ((m.f.gasLimit - o.avail) / 2) o.refund
         { world := o.world.addBal m.sender (((o.avail + refund) * m.f.price : Nat) : Int),
           refund := o.refund,
           pool := s.pool - m.f.gasLimit + (o.avail + refund) }) := by
  unfold applyMessageEntryWith at h ⊢
  cases hpc : preCheck s m with
  | error e => simp [hpc] at h
  | ok s1 =>
    obtain ⟨hn, hb, hp, hs1⟩ := preCheck_ok hpc
    simp only [hpc] at h ⊢
    cases hig : intrinsicGas basic m.f.data with
    | none => simp [hig] at h
    | some ig =>
      simp only [hig] at h ⊢
      by_cases hlt : m.f.gasLimit < ig
      · simp [hlt] at h
      · simp only [hlt, if_false] at h ⊢
        have hw : s1.world = worldAfterBuy s m := by rw [hs1]
        have hr : s1.refund = s.refund := by rw [hs1]
        have hpl : s1.pool = s.pool - m.f.gasLimit := by rw [hs1]
        rw [hw, hr] at h ⊢
        have hav := hc.gas_le (worldAfterBuy s m) s.refund (m.f.gasLimit - ig) m.f.gasLimit
        generalize ho : conv m (worldAfterBuy s m) s.refund (m.f.gasLimit - ig) m.f.gasLimit = o at h hav ⊢
        have hused : gasUsedOf m.f.gasLimit o.avail = m.f.gasLimit - o.avail := gasUsedOf_eq (by omega) hlim
        have hmod : (o.avail + min ((m.f.gasLimit - o.avail) / 2) o.refund) % U64 =
            o.avail + min ((m.f.gasLimit - o.avail) / 2) o.refund := by
          apply Nat.mod_eq_of_lt
          have : min ((m.f.gasLimit - o.avail) / 2) o.refund ≤ (m.f.gasLimit - o.avail) / 2 := Nat.min_le_left _ _
          omega
        have hnov : ¬ (s1.pool + (o.avail + min ((m.f.gasLimit - o.avail) / 2) o.refund) > maxU64) := by
          have : min ((m.f.gasLimit - o.avail) / 2) o.refund ≤ (m.f.gasLimit - o.avail) / 2 := Nat.min_le_left _ _
          unfold maxU64; unfold U64 at hpool; omega
        unfold finishEntry at h ⊢
        simp only [hused, hmod, hnov, if_false] at h ⊢
        refine ⟨ig, rfl, by omega, hn, hb, hp, ?_⟩
        rw [ho]
        refine ⟨h, hav, rfl, rfl, ?_⟩
        rw [hpl]

/-- an up-front refusal leaves everything as it was -/
theorem entry_refused_unchanged {conv : Converter} {basic : Nat} {s : St} {m : Msg}
    (hc : ∀ w r avail init e, (conv m w r avail init).err = some e →
               e = .insufficientBalance ∨ e = .moduleAddress ∨ e = .other) {e : Err}
    (h : (applyMessageEntryWith conv basic s m).err = some e) (hu : e.upFront = true) :
    (applyMessageEntryWith conv basic s m).st = s ∧ (applyMessageEntryWith conv basic s m).gas = 0 := by
  unfold applyMessageEntryWith at h ⊢
  cases hpc : preCheck s m with
  | error e' => simp
  | ok s1 =>
    simp only [hpc] at h ⊢
    cases hig : intrinsicGas basic m.f.data with
    | none => simp only [hig, Option.some.injEq] at h; subst h; simp [Err.upFront] at hu
    | some ig =>
      simp only [hig] at h ⊢
      by_cases hlt : m.f.gasLimit < ig
      · simp only [hlt, if_true, Option.some.injEq] at h; subst h; simp [Err.upFront] at hu
      · simp only [hlt, if_false] at h ⊢
        unfold finishEntry at h
        simp only at h
        split at h
        · simp only [Option.some.injEq] at h; subst h; simp [Err.upFront] at hu
        · have := hc _ _ _ _ _ h
          rcases this with rfl | rfl | rfl <;> simp [Err.upFront] at hu

/-- errors raised after the gas purchase and before the converter runs leave exactly the purchase behind -/
theorem entry_late_error {conv : Converter} {basic : Nat} {s : St} {m : Msg} (hc : ConvSafe conv m) {e : Err}
    (h : (applyMessageEntryWith conv basic s m).err = some e)
    (he : e = .intrinsicOverflow ∨ e = .outOfGasIntrinsic) :
    (s.world.get m.sender).nonce = m.f.nonce ∧
    (applyMessageEntryWith conv basic s m).st =
      { s with pool := s.pool - m.f.gasLimit, world := worldAfterBuy s m } := by
  unfold applyMessageEntryWith at h ⊢
  cases hpc : preCheck s m with
  | error e' =>
    simp only [hpc, Option.some.injEq] at h
    have := preCheck_err hpc
    rcases he with rfl | rfl <;> rcases this with ⟨h1, _⟩ | ⟨h1, _⟩ | ⟨h1, _⟩ | ⟨h1, _⟩ <;> simp [h1] at h
  | ok s1 =>
    obtain ⟨hn, _, _, hs1⟩ := preCheck_ok hpc
    simp only [hpc] at h ⊢
    cases hig : intrinsicGas basic m.f.data with
    | none => simp [hs1, hn]
    | some ig =>
      simp only [hig] at h ⊢
      by_cases hlt : m.f.gasLimit < ig
      · simp [hlt, hs1, hn]
      · simp only [hlt, if_false] at h ⊢
        unfold finishEntry at h
        simp only at h
        split at h
        · simp only [Option.some.injEq] at h; subst h; simp at he
        · have := hc.err_late _ _ _ _ _ h
          rcases this with rfl | rfl | rfl <;> simp at he

/-- the block gas pool never grows -/
theorem entry_pool_le {conv : Converter} {basic : Nat} {s : St} {m : Msg} (hc : ConvSafe conv m)
    (hlim : m.f.gasLimit < U64) :
    (applyMessageEntryWith conv basic s m).st.pool ≤ s.pool := by
  unfold applyMessageEntryWith
  cases hpc : preCheck s m with
  | error e' => simp
  | ok s1 =>
    obtain ⟨_, _, hp, hs1⟩ := preCheck_ok hpc
    have hpl : s1.pool = s.pool - m.f.gasLimit := by rw [hs1]
    simp only
    cases hig : intrinsicGas basic m.f.data with
    | none => simp only; omega
    | some ig =>
      simp only
      by_cases hlt : m.f.gasLimit < ig
      · simp only [hlt, if_true]; omega
      · simp only [hlt, if_false]
        have hav := hc.gas_le s1.world s1.refund (m.f.gasLimit - ig) m.f.gasLimit
        generalize conv m s1.world s1.refund (m.f.gasLimit - ig) m.f.gasLimit = o at hav
        have hused : gasUsedOf m.f.gasLimit o.avail = m.f.gasLimit - o.avail := gasUsedOf_eq (by omega) hlim
        unfold finishEntry
        simp only [hused]
        have h1 : min ((m.f.gasLimit - o.avail) / 2) o.refund ≤ (m.f.gasLimit - o.avail) / 2 := Nat.min_le_left _ _
        have h2 : (o.avail + min ((m.f.gasLimit - o.avail) / 2) o.refund) % U64 ≤
            o.avail + min ((m.f.gasLimit - o.avail) / 2) o.refund := Nat.mod_le _ _
        split
        · simp only; omega
        · simp only; omega

/-! ### the two real converters -/

theorem evmConv_safe {evm : Evm} {m : Msg} (h : ∀ w r g, (evm m w r g).gasLeft ≤ g) : ConvSafe (evmConv evm) m where
  gas_le := by
    intro w r avail init
    unfold evmConv evmConvOut
    split <;> exact h _ _ _
  err_late := by
    intro w r avail init e he
    unfold evmConv evmConvOut at he
    split at he
    · simp only [Option.some.injEq] at he; exact Or.inl he.symm
    · simp at he

theorem evmConv_contract {evm : Evm} {m : Msg} (h : ∀ w r g, (evm m w r g).gasLeft ≤ g) :
    ConvContract (evmConv evm) m where
  toConvSafe := evmConv_safe h
  reported := by
    intro w r avail init ha hi he
    unfold evmConv evmConvOut at he ⊢
    split
    · rename_i hv; simp [hv] at he
    · simp only
      exact gasUsedOf_eq (Nat.le_trans (h _ _ _) ha) hi

theorem stakingConv_safe (addr : Addr) (version : Nat) (handler : Handler) (m : Msg) :
    ConvSafe (stakingConv addr version handler) m where
  gas_le := by
    intro w r avail init
    unfold stakingConv
    simp only
    repeat' split
    all_goals simp only
    all_goals omega
  err_late := by
    intro w r avail init e he
    unfold stakingConv at he
    simp only at he
    repeat' split at he
    all_goals simp at he
    all_goals simp [← he]

theorem stakingConv_contract (addr : Addr) (version : Nat) (handler : Handler) (m : Msg) (hv : 4 ≤ version) :
    ConvContract (stakingConv addr version handler) m where
  toConvSafe := stakingConv_safe addr version handler m
  reported := by
    intro w r avail init ha hi
    unfold stakingConv
    simp only
    repeat' split
    all_goals intro he
    all_goals simp only at he ⊢
    all_goals first
      | (simp at he; done)
      | omega
      | (apply gasUsedOf_eq <;> omega)

end YouVerif.C17
