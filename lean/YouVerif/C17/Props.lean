/-
C17 — property theorems (transactions are authentic, applied at most once, and charged exactly).
Helper lemmas live in Proofs*.lean.
-/
import YouVerif.C17.Model

namespace YouVerif.C17

/-- `preCheck` refuses only for the four up-front reasons. -/
theorem preCheck_refused_unchanged (s : St) (m : Msg) (e : Err) (h : preCheck s m = .error e) :
    e = .nonceTooHigh ∨ e = .nonceTooLow ∨ e = .insufficientBalanceForGas ∨ e = .gasLimitReached := by
  unfold preCheck at h
  grind

end YouVerif.C17
