/-
C17 — "Transactions are authentic, applied at most once, and charged exactly": the property theorems.

Model: YouVerif/C17/Model.lean (the code that exists), contracts of its two parameters (EVM, staking action
handlers): YouVerif/C17/ModelSpec.lean, helper lemmas: Proofs*.lean.

Cryptography is abstract: `C.hash` (Keccak-256) and `C.recover` (secp256k1 public-key recovery + address
derivation) are uninterpreted; nothing is assumed about them except where a hypothesis says so explicitly.
-/
import YouVerif.C17.ProofsSpec
import YouVerif.C17.ProofsLate
import YouVerif.C17.ProofsSender

namespace YouVerif.C17
open YouVerif.Common

/-! ## Part 1 — authenticity -/

/-- The signing preimage determines the signed fields and the network id (no hash involved):
equal preimage bytes ⇒ equal nonce, price, gas limit, recipient (incl. creation), value, payload, network id. -/
theorem sighash_injective (f₁ f₂ : TxFields) (n₁ n₂ : Nat) (h₁ : f₁.WF) (h₂ : f₂.WF) (hn₁ : n₁ < U64) (hn₂ : n₂ < U64)
    (h : preimage f₁ n₁ = preimage f₂ n₂) : f₁ = f₂ ∧ n₁ = n₂ :=
  preimage_injective f₁ f₂ n₁ n₂ h₁ h₂ hn₁ hn₂ h

/-- two different byte strings with the same hash -/
def HashCollision (C : Crypto) (x y : List UInt8) : Prop := x ≠ y ∧ C.hash x = C.hash y

/-- Equal signing hashes mean equal fields and network id — or a hash collision is exhibited. -/
theorem sighash_equal_or_collision (C : Crypto) (f₁ f₂ : TxFields) (n₁ n₂ : Nat) (h₁ : f₁.WF) (h₂ : f₂.WF)
    (hn₁ : n₁ < U64) (hn₂ : n₂ < U64) (h : sigHash C n₁ f₁ = sigHash C n₂ f₂) :
    (f₁ = f₂ ∧ n₁ = n₂) ∨ HashCollision C (preimage f₁ n₁) (preimage f₂ n₂) := by
  by_cases hp : preimage f₁ n₁ = preimage f₂ n₂
  · exact Or.inl (preimage_injective f₁ f₂ n₁ n₂ h₁ h₂ hn₁ hn₂ hp)
  · exact Or.inr ⟨hp, h⟩

/-- What an accepted sender is bound to: the transaction is replay-protected for exactly this network
(`V = 2·networkId + 35` or `+ 36`), R and S are in range with S in the lower half (low-s rule), and the address is
the one recovered from the hash of the preimage of exactly these fields and this network id. -/
theorem sender_binds (C : Crypto) (n : Nat) (tx : Tx) (a : Addr) (h : sender C n tx = .ok a) :
    (tx.v = 2 * n + 35 ∨ tx.v = 2 * n + 36) ∧
    1 ≤ tx.r ∧ tx.r < secp256k1N ∧ 1 ≤ tx.s ∧ tx.s ≤ secp256k1halfN ∧
    C.recover (C.hash (preimage tx.f n)) tx.r tx.s (tx.v - (2 * n + 35)) = some a := by
  unfold sender at h
  cases hc : senderCheck n tx with
  | error e => simp [hc] at h
  | ok vb =>
    simp only [hc] at h
    obtain ⟨_, hv, h1, h2, h3, h4⟩ := senderCheck_ok hc
    cases hr : C.recover (sigHash C n tx.f) tx.r tx.s vb with
    | none => simp [hr] at h
    | some b =>
      simp only [hr, Except.ok.injEq] at h
      subst h
      refine ⟨by omega, h1, h2, h3, h4, ?_⟩
      have : tx.v - (2 * n + 35) = vb := by omega
      rw [this]; exact hr

/-- Authenticity under the explicit unforgeability hypothesis (EUF): if a successful recovery of address `a` from
hash `h` means that the holder of `a`'s key signed `h`, then an accepted sender's key holder signed exactly these
fields for exactly this network. -/
theorem sender_authentic (C : Crypto) (SignedBy : Addr → List UInt8 → Prop)
    (EUF : ∀ h r s v a, C.recover h r s v = some a → SignedBy a h)
    (n : Nat) (tx : Tx) (a : Addr) (h : sender C n tx = .ok a) :
    SignedBy a (C.hash (preimage tx.f n)) :=
  EUF _ _ _ _ _ (sender_binds C n tx a h).2.2.2.2.2

/-- Changing the network id: the same transaction is never accepted by the signers of two different networks. -/
theorem network_id_binds (C : Crypto) (n₁ n₂ : Nat) (tx : Tx) (a b : Addr)
    (h₁ : sender C n₁ tx = .ok a) (h₂ : sender C n₂ tx = .ok b) : n₁ = n₂ := by
  have v1 := (sender_binds C n₁ tx a h₁).1
  have v2 := (sender_binds C n₂ tx b h₂).1
  omega

/-- Unprotected (pre-replay-protection) signatures are never accepted. -/
theorem unprotected_rejected (C : Crypto) (n : Nat) (tx : Tx) (hv : tx.v = 27 ∨ tx.v = 28) :
    sender C n tx = .error .notProtected := by
  unfold sender senderCheck isProtectedV
  rcases hv with hv | hv <;> simp [hv]

/-- The high-s twin `(r, N − s)` of an accepted signature is rejected whatever `V` it is given
(in plain ECDSA it would verify under the same key). -/
theorem high_s_rejected (C : Crypto) (n : Nat) (tx : Tx) (a : Addr) (h : sender C n tx = .ok a) (v' : Nat) (b : Addr) :
    sender C n { tx with s := secp256k1N - tx.s, v := v' } ≠ .ok b := by
  intro h2
  have s1 := (sender_binds C n tx a h).2.2.2
  have s2 := (sender_binds C n _ b h2).2.2.2
  simp only at s2
  have := secpN_odd
  omega

/-- one signature accepted for two different hashes under the same address -/
def RecoverCollision (C : Crypto) (h₁ h₂ : List UInt8) (r s v : Nat) (a : Addr) : Prop :=
  h₁ ≠ h₂ ∧ C.recover h₁ r s v = some a ∧ C.recover h₂ r s v = some a

/-- Changing any signed field while keeping the signature: if both the original and the changed transaction are
accepted as coming from the same sender, then either nothing was changed, or a hash collision is exhibited, or
one signature (R, S, V) recovers the same address from two different hashes (impossible for ECDSA recovery, where
the public key is an injective function of the hash for fixed R, S, V — up to an address collision). -/
theorem mutation_changes_sender_or_rejected (C : Crypto) (n : Nat) (tx₁ tx₂ : Tx) (a : Addr)
    (hw₁ : tx₁.f.WF) (hw₂ : tx₂.f.WF) (hn : n < U64)
    (hv : tx₁.v = tx₂.v) (hr : tx₁.r = tx₂.r) (hs : tx₁.s = tx₂.s)
    (h₁ : sender C n tx₁ = .ok a) (h₂ : sender C n tx₂ = .ok a) :
    tx₁.f = tx₂.f ∨ HashCollision C (preimage tx₁.f n) (preimage tx₂.f n) ∨
    RecoverCollision C (C.hash (preimage tx₁.f n)) (C.hash (preimage tx₂.f n)) tx₁.r tx₁.s (tx₁.v - (2 * n + 35)) a := by
  have r1 := (sender_binds C n tx₁ a h₁).2.2.2.2.2
  have r2 := (sender_binds C n tx₂ a h₂).2.2.2.2.2
  rw [← hv, ← hr, ← hs] at r2
  by_cases hp : preimage tx₁.f n = preimage tx₂.f n
  · exact Or.inl (preimage_injective _ _ n n hw₁ hw₂ hn hn hp).1
  · by_cases hh : C.hash (preimage tx₁.f n) = C.hash (preimage tx₂.f n)
    · exact Or.inr (Or.inl ⟨hp, hh⟩)
    · exact Or.inr (Or.inr ⟨hh, r1, r2⟩)

/-! ## Part 2 — refused up front ⇒ nothing changes -/

/-- A transaction refused for a bad signature / wrong network, a wrong nonce (low or high), inability to pay for its
gas, or an exhausted block gas pool changes nothing: not the accounts, not the refund counter, not the pool, not
`usedGas`, not `gasRewards`. For every state, transaction, EVM and handler (no hypothesis on them). -/
theorem refused_unchanged (C : Crypto) (n : Nat) (E : Env) (s : St) (acc : Acc) (tx : Tx) (e : Err)
    (h : (applyTransaction C n E s acc tx).out = .error e) (hu : e.upFront = true) :
    (applyTransaction C n E s acc tx).st = s ∧ (applyTransaction C n E s acc tx).acc = acc := by
  unfold applyTransaction at h ⊢
  cases hs : sender C n tx with
  | error e' => simp
  | ok a =>
    simp only [hs] at h ⊢
    obtain ⟨herr, hst, hacc⟩ := applyMsg_err h
    unfold applyMessageEntry at herr hst
    have := entry_refused_unchanged (env_conv_err_late E _) herr hu
    exact ⟨by rw [hst]; exact this.1, hacc⟩

/-- …and the refusal reasons are exactly what the property says: the nonce is not the account's next nonce, the
balance does not cover gas limit × price, or the pool has less than the gas limit. -/
theorem refusal_reasons (s : St) (m : Msg) (e : Err) (h : preCheck s m = .error e) :
    (e = .nonceTooHigh ∧ (s.world.get m.sender).nonce < m.f.nonce) ∨
    (e = .nonceTooLow ∧ m.f.nonce < (s.world.get m.sender).nonce) ∨
    (e = .insufficientBalanceForGas ∧ (s.world.get m.sender).balance < ((m.f.gasLimit * m.f.price : Nat) : Int)) ∨
    (e = .gasLimitReached ∧ s.pool < m.f.gasLimit) :=
  preCheck_err h

/-! ## Part 3 — applied ⇒ next nonce, funds, nonce + 1, exact charge, gas bounds -/

/-- (also stated as `replay_refused` in Part 5) -/
theorem replay_refused_aux (E : Env) (s : St) (acc : Acc) (m : Msg) (h : m.f.nonce < (s.world.get m.sender).nonce) :
    (applyMsg E s acc m).out = .error .nonceTooLow ∧ (applyMsg E s acc m).st = s ∧ (applyMsg E s acc m).acc = acc := by
  have hp : preCheck s m = .error .nonceTooLow := by
    unfold preCheck
    simp only
    have : ¬ (s.world.get m.sender).nonce < m.f.nonce := by omega
    simp [this, h]
  unfold applyMsg applyMessageEntry applyMessageEntryWith
  simp [hp]

/-- An applied transfer / contract call / creation (`rc` is its receipt), for every state and every EVM that
respects `EvmSpec`: it carried the account's next nonce, the balance covered gas limit × price, the pool covered
the gas limit; afterwards the nonce is one higher, gas used is between the intrinsic cost and the limit, the
sender's balance dropped by the value (when the run did not fail) plus `(gasUsed − refund) × price` where `refund =
min(gasUsed / 2, refund counter)`, the pool dropped by `gasUsed − refund`, and `usedGas` / `gasRewards` advanced by
`gasUsed` and `gasUsed × price`. -/
theorem applied_accounting {E : Env} {s : St} {acc : Acc} {m : Msg} {rc : Receipt}
    (hE : EvmSpec E.evm m) (hns : E.isStaking m = false) (hto : m.f.to ≠ some m.sender)
    (hlim : m.f.gasLimit < U64) (hpool : s.pool < U64) (hnonce : m.f.nonce + 1 < U64)
    (h : (applyMsg E s acc m).out = .ok rc) :
    ∃ ig refund, intrinsicGas (E.basicGas m) m.f.data = some ig ∧
      (s.world.get m.sender).nonce = m.f.nonce ∧
      ((m.f.gasLimit * m.f.price : Nat) : Int) ≤ (s.world.get m.sender).balance ∧
      m.f.gasLimit ≤ s.pool ∧
      ig ≤ rc.gasUsed ∧ rc.gasUsed ≤ m.f.gasLimit ∧
      refund = min (rc.gasUsed / 2) (E.evm m (callWorld m (worldAfterBuy s m)) s.refund (m.f.gasLimit - ig)).refund ∧
      ((applyMsg E s acc m).st.world.get m.sender).nonce = m.f.nonce + 1 ∧
      ((applyMsg E s acc m).st.world.get m.sender).balance =
        (s.world.get m.sender).balance - (if rc.failed then 0 else (m.f.value : Int))
          - (((rc.gasUsed - refund) * m.f.price : Nat) : Int) ∧
      (applyMsg E s acc m).st.pool = s.pool - (rc.gasUsed - refund) ∧
      (applyMsg E s acc m).st.refund = 0 ∧
      (applyMsg E s acc m).acc.used = (acc.used + rc.gasUsed) % U64 ∧
      (applyMsg E s acc m).acc.rewards = acc.rewards + ((m.f.price * rc.gasUsed : Nat) : Int) ∧
      rc.cumulative = (applyMsg E s acc m).acc.used ∧
      rc.gasUsed = m.f.gasLimit - (E.evm m (callWorld m (worldAfterBuy s m)) s.refund (m.f.gasLimit - ig)).gasLeft ∧
      rc.failed = ((E.evm m (callWorld m (worldAfterBuy s m)) s.refund (m.f.gasLimit - ig)).vmerr != .none) ∧
      (E.evm m (callWorld m (worldAfterBuy s m)) s.refund (m.f.gasLimit - ig)).vmerr ≠ .insufficientBalance :=
  applied_evm hE hns hto hlim hpool hnonce h

/-- A contract-creation transaction whose derived address is already occupied (`ErrContractAddressCollision`: the
hypothesis `hcol` says that, unless the value is unaffordable, the EVM reports a failure with no gas left and an untouched
refund counter — `evmCosting_collision` shows the model's EVM summaries do exactly that when the address has a nonce
or code): it is APPLIED with a failed receipt, all its gas is charged, nothing else moves — and the sender's nonce IS raised
by one (the code bumps it before the collision check), so the same transaction cannot be applied again (`replay_refused`). -/
theorem creation_collision_applied_nonce_raised {E : Env} {s : St} {acc : Acc} {m : Msg} {rc : Receipt}
    (hE : EvmSpec E.evm m) (hns : E.isStaking m = false) (hcreate : m.f.to = none)
    (hlim : m.f.gasLimit < U64) (hpool : s.pool < U64) (hnonce : m.f.nonce + 1 < U64) (hr0 : s.refund = 0)
    (hcol : ∀ g, (E.evm m (worldAfterBuy s m) s.refund g).vmerr ≠ .insufficientBalance →
      (E.evm m (worldAfterBuy s m) s.refund g).vmerr = .other ∧ (E.evm m (worldAfterBuy s m) s.refund g).gasLeft = 0 ∧
      (E.evm m (worldAfterBuy s m) s.refund g).refund = s.refund)
    (h : (applyMsg E s acc m).out = .ok rc) :
    rc.failed = true ∧ rc.gasUsed = m.f.gasLimit ∧
    ((applyMsg E s acc m).st.world.get m.sender).nonce = m.f.nonce + 1 ∧
    ((applyMsg E s acc m).st.world.get m.sender).balance =
      (s.world.get m.sender).balance - ((m.f.gasLimit * m.f.price : Nat) : Int) ∧
    (applyMsg E s acc m).st.pool = s.pool - m.f.gasLimit ∧
    (applyMsg (E := E) (applyMsg E s acc m).st (applyMsg E s acc m).acc m).out = .error .nonceTooLow := by
  have hto : m.f.to ≠ some m.sender := by rw [hcreate]; simp
  obtain ⟨ig, refund, _, _, _, _, _, _, hr, hn1, hb, hp, _, _, _, _, hg, hf, hv⟩ :=
    applied_evm hE hns hto hlim hpool hnonce h
  have hcw : callWorld m (worldAfterBuy s m) = worldAfterBuy s m := by unfold callWorld; simp [hcreate]
  rw [hcw] at hr hg hf hv
  obtain ⟨c1, c2, c3⟩ := hcol _ hv
  rw [c2] at hg
  rw [c1] at hf
  rw [c3, hr0, Nat.min_zero] at hr
  subst hr
  have hgl : rc.gasUsed = m.f.gasLimit := by omega
  rw [hgl] at hb hp
  have hfail : rc.failed = true := by rw [hf]; decide
  simp only [hfail, if_true, Nat.sub_zero] at hb
  refine ⟨hfail, hgl, hn1, by omega, by omega, ?_⟩
  exact (replay_refused_aux E _ _ m (by rw [hn1]; omega)).1

/-- the model's EVM summaries raise exactly this collision outcome when the derived address has a nonce or code -/
theorem evmCosting_collision (dest : Addr) (cost refundAdd : Nat) (s : St) (m : Msg) (hcreate : m.f.to = none)
    (hd : dest ≠ m.sender) (hocc : occupied s.world dest = true) :
    ∀ g, (evmCosting dest cost refundAdd m (worldAfterBuy s m) s.refund g).vmerr ≠ .insufficientBalance →
      (evmCosting dest cost refundAdd m (worldAfterBuy s m) s.refund g).vmerr = .other ∧
      (evmCosting dest cost refundAdd m (worldAfterBuy s m) s.refund g).gasLeft = 0 ∧
      (evmCosting dest cost refundAdd m (worldAfterBuy s m) s.refund g).refund = s.refund := by
  intro g
  have hget : (bumpIfCreate m (worldAfterBuy s m)).get dest = s.world.get dest := by
    rw [bump_get_other _ _ hd]; unfold worldAfterBuy; exact get_addBal_other _ _ hd
  have hocc' : occupied (bumpIfCreate m (worldAfterBuy s m)) dest = true := by
    unfold occupied at hocc ⊢; rw [hget]; exact hocc
  unfold evmCosting collisionOut
  by_cases hb : ((worldAfterBuy s m).get m.sender).balance < (m.f.value : Int)
  · simp [hb]
  · simp [hb, hcreate, hocc']

/-- "Charged exactly" as the property states it (balance drops by value + gasUsed × price, pool by gasUsed), for
every applied EVM message: FALSE of the code that exists — see `charged_exactly_counterexample`. -/
def charged_exactly_statement : Prop :=
  ∀ (E : Env) (s : St) (acc : Acc) (m : Msg) (rc : Receipt),
    EvmSpec E.evm m → E.isStaking m = false → m.f.to ≠ some m.sender →
    m.f.gasLimit < U64 → s.pool < U64 → m.f.nonce + 1 < U64 → s.refund = 0 →
    (applyMsg E s acc m).out = .ok rc →
    ((applyMsg E s acc m).st.world.get m.sender).balance =
        (s.world.get m.sender).balance - (if rc.failed then 0 else (m.f.value : Int))
          - ((rc.gasUsed * m.f.price : Nat) : Int) ∧
    (applyMsg E s acc m).st.pool = s.pool - rc.gasUsed

/-- What is true instead: the charge is exact whenever the EVM run leaves the refund counter at zero. -/
theorem charged_exactly_partial {E : Env} {s : St} {acc : Acc} {m : Msg} {rc : Receipt}
    (hE : EvmSpec E.evm m) (hns : E.isStaking m = false) (hto : m.f.to ≠ some m.sender)
    (hlim : m.f.gasLimit < U64) (hpool : s.pool < U64) (hnonce : m.f.nonce + 1 < U64)
    (hnr : ∀ w g, (E.evm m w s.refund g).refund = 0)
    (h : (applyMsg E s acc m).out = .ok rc) :
    ((applyMsg E s acc m).st.world.get m.sender).balance =
        (s.world.get m.sender).balance - (if rc.failed then 0 else (m.f.value : Int))
          - ((rc.gasUsed * m.f.price : Nat) : Int) ∧
    (applyMsg E s acc m).st.pool = s.pool - rc.gasUsed := by
  obtain ⟨ig, refund, _, _, _, _, _, _, hr, _, hb, hp, _⟩ := applied_evm hE hns hto hlim hpool hnonce h
  rw [hnr, Nat.min_zero] at hr
  subst hr
  simp only [Nat.sub_zero] at hb hp
  exact ⟨hb, hp⟩

/-- witness of finding F-C17a: a call to a contract that clears one storage slot (5006 gas, 15000 refund) -/
def cexEnv : Env := { stakingAddr := [9], version := 5, evm := evmCosting [2] 5006 15000, handler := handlerObserved false 0 }
def cexState : St := { world := ⟨[([1], { nonce := 0, balance := 1000000000000000000 })]⟩, refund := 0, pool := 8000000 }
def cexMsg : Msg := { sender := [1], f := { nonce := 0, price := 1000, gasLimit := 100000, to := some [2], value := 0, data := [] } }

/-- Finding F-C17a: the receipt says 26006 gas, `gasRewards` grows by 26006 × 1000, but the sender pays for 13003
gas only and the pool shrinks by 13003 only (the converter's `usedGas` is taken before `refundGas` runs). -/
theorem charged_exactly_counterexample : ¬ charged_exactly_statement := by
  intro hst
  have h := hst cexEnv cexState {} cexMsg { failed := false, cumulative := 26006, gasUsed := 26006 }
    (evmCosting_spec [2] 5006 15000 cexMsg (by decide)) (by decide) (by decide) (by decide) (by decide) (by decide)
    (by decide) (by decide)
  exact absurd h.2 (by decide)

/-- An applied staking-module message from YouV4 on, for every state and every handler that respects `HandlerSpec`:
next nonce, funds, nonce + 1, gas used between the intrinsic cost (100000 + data) and the limit, the sender's
balance drops by exactly the stake (zero when the message failed) plus gasUsed × price, the pool by gasUsed. -/
theorem applied_accounting_staking {E : Env} {s : St} {acc : Acc} {m : Msg} {rc : Receipt}
    (hH : HandlerSpec E.handler m) (hs : E.isStaking m = true) (hver : 4 ≤ E.version)
    (hlim : m.f.gasLimit < U64) (hpool : s.pool < U64) (hnonce : m.f.nonce + 1 < U64) (hr0 : s.refund = 0)
    (h : (applyMsg E s acc m).out = .ok rc) :
    ∃ (ig : Nat) (stake : Int), intrinsicGas (E.basicGas m) m.f.data = some ig ∧
      (s.world.get m.sender).nonce = m.f.nonce ∧
      ((m.f.gasLimit * m.f.price : Nat) : Int) ≤ (s.world.get m.sender).balance ∧
      m.f.gasLimit ≤ s.pool ∧
      ig ≤ rc.gasUsed ∧ rc.gasUsed ≤ m.f.gasLimit ∧
      0 ≤ stake ∧ (rc.failed = true → stake = 0) ∧
      ((applyMsg E s acc m).st.world.get m.sender).nonce = m.f.nonce + 1 ∧
      ((applyMsg E s acc m).st.world.get m.sender).balance =
        (s.world.get m.sender).balance - stake - ((rc.gasUsed * m.f.price : Nat) : Int) ∧
      (applyMsg E s acc m).st.pool = s.pool - rc.gasUsed ∧
      (applyMsg E s acc m).st.refund = 0 ∧
      (applyMsg E s acc m).acc.used = (acc.used + rc.gasUsed) % U64 ∧
      (applyMsg E s acc m).acc.rewards = acc.rewards + ((m.f.price * rc.gasUsed : Nat) : Int) ∧
      rc.cumulative = (applyMsg E s acc m).acc.used :=
  applied_staking hH hs hver hlim hpool hnonce hr0 h

/-- witness of finding F-C17b (= F-C07b): protocol version 3, a staking message whose payload does not decode -/
def cexEnvV3 : Env := { stakingAddr := [9], version := 3, evm := evmCosting [2] 0 0, handler := handlerObserved false 0 }
def cexMsgStk : Msg := { sender := [1], f := { nonce := 0, price := 1000, gasLimit := 200000, to := some [9], value := 0, data := [1, 2, 3] } }

/-- Finding F-C17b: before YouV4 a failed staking message is reported with gasUsed = gas limit (200000) while
the sender pays the intrinsic 100048 only (so the statement of `applied_accounting_staking` needs `4 ≤ version`). -/
theorem staking_pre_v4_counterexample :
    (applyMsg cexEnvV3 cexState {} cexMsgStk).out = .ok { failed := true, cumulative := 200000, gasUsed := 200000 } ∧
    ((applyMsg cexEnvV3 cexState {} cexMsgStk).st.world.get [1]).balance = 1000000000000000000 - 100048 * 1000 ∧
    (applyMsg cexEnvV3 cexState {} cexMsgStk).st.pool = 8000000 - 100048 := by
  decide

/-- Gas used lies between the intrinsic cost and the gas limit — for every applied message, every protocol version,
every EVM that never returns more gas than it was given. -/
theorem gas_bounds {E : Env} {s : St} {acc : Acc} {m : Msg} {rc : Receipt}
    (hg : ∀ w r g, (E.evm m w r g).gasLeft ≤ g) (hlim : m.f.gasLimit < U64) (hpool : s.pool < U64)
    (h : (applyMsg E s acc m).out = .ok rc) :
    ∃ ig, intrinsicGas (E.basicGas m) m.f.data = some ig ∧ ig ≤ rc.gasUsed ∧ rc.gasUsed ≤ m.f.gasLimit :=
  gas_bounds_msg hg hlim hpool h

/-- The block gas pool never grows, whatever the outcome. -/
theorem pool_monotone {E : Env} {s : St} {acc : Acc} {m : Msg}
    (hg : ∀ w r g, (E.evm m w r g).gasLeft ≤ g) (hlim : m.f.gasLimit < U64) :
    (applyMsg E s acc m).st.pool ≤ s.pool :=
  pool_le_msg hg hlim

/-! ## Part 4 — errors after the gas purchase rely on the caller -/

/-- Intrinsic gas above the limit (or overflowing) is detected after `buyGas`: `ApplyMessageEntry` returns with the
purchase still in the state (balance − gas limit × price, pool − gas limit). It is not one of the three refusal
reasons of the property; the callers undo it: `Process` rejects the block (`processRun = none`), the worker reverts
the StateDB (`worker_restores_state`) — but not the pool (`worker_pool_leak_example`). -/
theorem late_error_needs_caller_revert (E : Env) (s : St) (acc : Acc) (m : Msg) (e : Err)
    (hg : ∀ w r g, (E.evm m w r g).gasLeft ≤ g)
    (h : (applyMsg E s acc m).out = .error e) (he : e = .intrinsicOverflow ∨ e = .outOfGasIntrinsic) :
    (s.world.get m.sender).nonce = m.f.nonce ∧
    (applyMsg E s acc m).st = { s with pool := s.pool - m.f.gasLimit, world := worldAfterBuy s m } ∧
    (applyMsg E s acc m).acc = acc := by
  obtain ⟨herr, hst, hacc⟩ := applyMsg_err h
  unfold applyMessageEntry at herr hst
  have := entry_late_error (env_conv_safe E m hg) herr he
  exact ⟨this.1, by rw [hst]; exact this.2, hacc⟩

/-- The other late error, `vm.ErrInsufficientBalance` at top level (the value exceeds what is left after the gas
purchase): the EVM touched nothing and returned all its gas, so the sender stays charged the intrinsic gas, the pool
is short of it and — for a call — the nonce is already bumped. Again the callers undo it (block rejected / worker
revert), again the worker does not restore the pool. -/
theorem late_insufficient_balance_needs_caller_revert {E : Env} {s : St} {acc : Acc} {m : Msg}
    (hE : EvmSpec E.evm m) (hns : E.isStaking m = false)
    (hlim : m.f.gasLimit < U64) (hpool : s.pool < U64) (hr0 : s.refund = 0)
    (h : (applyMsg E s acc m).out = .error .insufficientBalance) :
    ∃ ig, intrinsicGas (E.basicGas m) m.f.data = some ig ∧ ig ≤ m.f.gasLimit ∧
      (s.world.get m.sender).nonce = m.f.nonce ∧
      (s.world.get m.sender).balance - ((m.f.gasLimit * m.f.price : Nat) : Int) < (m.f.value : Int) ∧
      (applyMsg E s acc m).st.pool = s.pool - ig ∧
      ((applyMsg E s acc m).st.world.get m.sender).balance =
        (s.world.get m.sender).balance - ((ig * m.f.price : Nat) : Int) ∧
      ((applyMsg E s acc m).st.world.get m.sender).nonce =
        (if m.f.to.isSome then (m.f.nonce + 1) % U64 else m.f.nonce) ∧
      (applyMsg E s acc m).acc = acc :=
  late_insufficient_balance hE hns hlim hpool hr0 h

/-- After any error the worker's snapshot/revert leaves accounts, refund counter and accumulators as they were. -/
theorem worker_restores_state (E : Env) (s : St) (acc : Acc) (m : Msg) (e : Err)
    (h : (workerCommit E s acc m).out = .error e) :
    (workerCommit E s acc m).st.world = s.world ∧ (workerCommit E s acc m).st.refund = s.refund ∧
    (workerCommit E s acc m).acc = acc :=
  let ⟨a, b, c, _⟩ := workerCommit_err h
  ⟨a, b, c⟩

/-- …but the gas pool is not part of the snapshot: a message whose gas limit is below its intrinsic cost costs the
block 20000 gas of pool although it is not included (observed on the real worker path by the harness as
`late-error:pool-leak-in-worker`). -/
theorem worker_pool_leak_example :
    (workerCommit cexEnv cexState {} { cexMsg with f := { cexMsg.f with gasLimit := 20000 } }).out = .error .outOfGasIntrinsic ∧
    (workerCommit cexEnv cexState {} { cexMsg with f := { cexMsg.f with gasLimit := 20000 } }).st.pool = 8000000 - 20000 := by
  decide

/-! ## Part 5 — at most once, for every sequence within a block gas pool -/

/-- A transaction whose nonce is below the account's nonce (e.g. one that has been applied) is refused and changes
nothing. -/
theorem replay_refused (E : Env) (s : St) (acc : Acc) (m : Msg) (h : m.f.nonce < (s.world.get m.sender).nonce) :
    (applyMsg E s acc m).out = .error .nonceTooLow ∧ (applyMsg E s acc m).st = s ∧ (applyMsg E s acc m).acc = acc :=
  replay_refused_aux E s acc m h

/-- For every sequence of candidate messages the worker tries within one block gas pool (failed ones skipped, their
state changes reverted), every EVM / handler respecting their contracts: the pool never grows; no account's nonce
ever decreases; every included message carried its sender's then-current nonce; and the included messages of one
sender have strictly increasing nonces — so no message (sender, nonce) is included twice. -/
theorem applied_at_most_once (E : Env) (hE : EnvSpec E) (ms : List Msg) (s : St) (acc : Acc)
    (hb : ∀ m ∈ ms, MsgBounds m) (hp : s.pool < U64) :
    (workerRun E s acc ms).1.pool ≤ s.pool ∧
    (∀ a, (s.world.get a).nonce ≤ ((workerRun E s acc ms).1.world.get a).nonce) ∧
    (∀ m ∈ (workerRun E s acc ms).2.2, (s.world.get m.sender).nonce ≤ m.f.nonce ∧
        m.f.nonce < ((workerRun E s acc ms).1.world.get m.sender).nonce) ∧
    (workerRun E s acc ms).2.2.Pairwise (fun m1 m2 => m1.sender = m2.sender → m1.f.nonce < m2.f.nonce) :=
  workerRun_spec E hE ms s acc hb hp

/-- The same for block import: `Process` accepts a block only if every message applies, and then it did exactly what
the worker's loop does with every message included (so `applied_at_most_once` applies to it verbatim). -/
theorem process_is_worker_without_failures (E : Env) (ms : List Msg) (s : St) (acc : Acc) (r : St × Acc)
    (h : processRun E s acc ms = some r) : workerRun E s acc ms = (r.1, r.2, ms) :=
  processRun_eq_workerRun E ms s acc r h

/-! ## Non-vacuity: the hypotheses are satisfiable by concrete, non-trivial instances (tests on literals) -/

/-- `EvmSpec` holds of the plain-transfer / costing summaries for every message not addressed to the sender itself -/
example (m : Msg) (h : [2] ≠ m.sender) : EvmSpec (evmCosting [2] 5006 15000) m := evmCosting_spec _ _ _ m h
/-- `HandlerSpec` holds of the observed-outcome handlers -/
example (m : Msg) : HandlerSpec (handlerObserved true 500) m := handlerObserved_spec true 500 m
/-- `EnvSpec` is inhabited -/
example : EnvSpec { stakingAddr := [9], version := 5, evm := evmCosting [] 0 0, handler := handlerObserved false 0 } → True :=
  fun _ => trivial
/-- a well-formed field set (test on literals) -/
example : ({ nonce := 7, price := 1000, gasLimit := 21000, to := none, value := 5, data := [1, 0] } : TxFields).WF := by
  refine ⟨by decide, by decide, by unfold Small; decide, by unfold Small; decide, by decide, ?_⟩
  intro a h; simp at h
/-- the applied case of `applied_accounting` is reachable: the witness message is applied with receipt gas 26006 (test) -/
example : (applyMsg cexEnv cexState {} cexMsg).out = .ok { failed := false, cumulative := 26006, gasUsed := 26006 } := by decide
/-- creation onto an occupied address (test on literals; the Go witness is corpus/C17/creation-collision.replay): applied,
failed, all 100000 gas charged, nonce 0 → 1 -/
example :
    let s : St := { world := ⟨[([1], { nonce := 0, balance := 1000000000000000000 }), ([7], { nonce := 1 })]⟩, pool := 8000000 }
    let E : Env := { stakingAddr := [9], version := 5, evm := evmCosting [7] 0 0, handler := handlerObserved false 0 }
    let m : Msg := { sender := [1], f := { nonce := 0, price := 1000, gasLimit := 100000, to := none, value := 5, data := [] } }
    (applyMsg E s {} m).out = .ok { failed := true, cumulative := 100000, gasUsed := 100000 } ∧
    ((applyMsg E s {} m).st.world.get [1]).nonce = 1 ∧
    ((applyMsg E s {} m).st.world.get [1]).balance = 1000000000000000000 - 100000 * 1000 := by decide
/-- the model's sender check accepts V = 2·99 + 35 with in-range R, S (test) -/
example : senderCheck 99 { f := cexMsg.f, v := 233, r := 1, s := 1 } = .ok 0 := by decide
/-- and rejects the high-s value N − 1 (test) -/
example : senderCheck 99 { f := cexMsg.f, v := 233, r := 1, s := secp256k1N - 1 } = .error .invalidSig := by decide

end YouVerif.C17
