/-
C17 helper lemmas about `senderCheck` / `sender`.
-/
import YouVerif.C17.ProofsRlp
namespace YouVerif.C17
open YouVerif.Common

theorem secpN_odd : secp256k1N = 2 * secp256k1halfN + 1 := by decide

theorem validate_true {v r s : Nat} (h : validateSignatureValues v r s = true) :
    1 ≤ r ∧ r < secp256k1N ∧ 1 ≤ s ∧ s ≤ secp256k1halfN ∧ (v = 0 ∨ v = 1) := by
  simp [validateSignatureValues] at h
  omega

theorem deriveNetworkId_of_shape {v n : Nat} (h : deriveNetworkId v = n) (hp : isProtectedV v = true)
    (hv : v = 2 * n + 35 ∨ v = 2 * n + 36 ∨ v + 19 = 2 * n ∨ v + 20 = 2 * n) : v = 2 * n + 35 ∨ v = 2 * n + 36 := by
  unfold deriveNetworkId at h
  simp [isProtectedV] at hp
  unfold U64 at h
  split at h
  · split at h
    · simp_all
    · omega
  · omega

theorem senderCheck_ok {n : Nat} {tx : Tx} {vb : Nat} (h : senderCheck n tx = .ok vb) :
    deriveNetworkId tx.v = n ∧ (tx.v = 2 * n + 35 ∧ vb = 0 ∨ tx.v = 2 * n + 36 ∧ vb = 1) ∧
    1 ≤ tx.r ∧ tx.r < secp256k1N ∧ 1 ≤ tx.s ∧ tx.s ≤ secp256k1halfN := by
  unfold senderCheck at h
  split at h
  · simp at h
  · rename_i hprot
    split at h
    · simp at h
    · rename_i hnet
      simp only at h
      split at h
      · simp at h
      · rename_i habs
        split at h
        · rename_i hval
          have hv := validate_true hval
          simp only [Except.ok.injEq] at h
          have hnet' : deriveNetworkId tx.v = n := by simpa using hnet
          have hprot' : isProtectedV tx.v = true := by simpa using hprot
          have hshape := deriveNetworkId_of_shape hnet' hprot' (by omega)
          refine ⟨hnet', ?_, hv.1, hv.2.1, hv.2.2.1, hv.2.2.2.1⟩
          omega
        · simp at h

end YouVerif.C17
