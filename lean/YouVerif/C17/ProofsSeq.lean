/-
C17 helper lemmas: sequences of applications within one block (worker loop, Process loop).
-/
import YouVerif.C17.ProofsEnv
namespace YouVerif.C17
open YouVerif.Common

theorem stakingConv_nonce_other {addr : Addr} {version : Nat} {handler : Handler} {m : Msg} (hH : HandlerSpec handler m)
    (w : World) (r avail init : Nat) (a : Addr) (ha : a ≠ m.sender) :
    ((stakingConv addr version handler m w r avail init).world.get a).nonce = (w.get a).nonce := by
  have hn := hH.nonce
  unfold stakingConv
  simp only
  split
  · rfl
  · split
    · simp [get_setNonce_other _ _ ha]
    · rename_i action payload _
      split
      · simp [get_setNonce_other _ _ ha]
      · by_cases hka : knownAction action = true
        · simp only [hka, if_true]
          have hn' := hn action payload (w.setNonce m.sender (((w.get m.sender).nonce + 1) % U64)) a
          rw [get_setNonce_other _ _ ha] at hn'
          generalize handler action payload m (w.setNonce m.sender (((w.get m.sender).nonce + 1) % U64)) = res at *
          obtain ⟨w2, ok⟩ := res
          simp only at hn' ⊢
          cases ok <;> simp [hn']
        · have hka' : knownAction action = false := by simpa using hka
          simp [hka', get_setNonce_other _ _ ha]

/-- nonces after a successfully applied message -/
theorem applied_nonce {E : Env} {s : St} {acc : Acc} {m : Msg} {rc : Receipt} (hE : EnvSpec E)
    (hlim : m.f.gasLimit < U64) (hpool : s.pool < U64) (hnonce : m.f.nonce + 1 < U64)
    (h : (applyMsg E s acc m).out = .ok rc) :
    (s.world.get m.sender).nonce = m.f.nonce ∧
    ((applyMsg E s acc m).st.world.get m.sender).nonce = m.f.nonce + 1 ∧
    ∀ a, a ≠ m.sender → (s.world.get a).nonce ≤ ((applyMsg E s acc m).st.world.get a).nonce := by
  obtain ⟨herr, _, hst, _⟩ := applyMsg_ok h
  unfold applyMessageEntry at herr hst
  obtain ⟨ig, _, _, hn, _, _, hoerr, _, _, _, hstate⟩ := entry_ok (env_conv_safe E m (hE.evm m).gas_le) hlim hpool herr
  rw [hst, hstate]
  simp only
  refine ⟨hn, ?_, ?_⟩
  · rw [get_addBal_same]
    simp only
    by_cases hs : E.isStaking m = true
    · have hconv : E.conv m = stakingConv E.stakingAddr E.version E.handler := by unfold Env.conv; simp [hs]
      rw [hconv] at hoerr ⊢
      obtain ⟨_, hon, _, _⟩ := stakingConv_ok (addr := E.stakingAddr) (version := E.version) (hE.handler m)
        (worldAfterBuy s m) s.refund (m.f.gasLimit - ig) m.f.gasLimit hoerr
      rw [hon, worldAfterBuy_get]
      simp only
      rw [hn]; apply Nat.mod_eq_of_lt; omega
    · have hf : E.isStaking m = false := by simpa using hs
      have hconv : E.conv m = evmConv E.evm := by unfold Env.conv; simp [hf]
      rw [hconv] at hoerr ⊢
      rw [evmConv_apply] at hoerr ⊢
      obtain ⟨hv, hw, _, _, _, _⟩ := evmConvOut_ok hoerr
      rw [hw, (hE.evm m).nonce _ _ _ hv, callWorld_nonce, worldAfterBuy_get]
      simp only
      rw [hn]
      split <;> (apply Nat.mod_eq_of_lt; omega)
  · intro a ha
    rw [get_addBal_other _ _ ha]
    have hbuy : ((worldAfterBuy s m).get a) = s.world.get a := by unfold worldAfterBuy; exact get_addBal_other _ _ ha
    by_cases hs : E.isStaking m = true
    · have hconv : E.conv m = stakingConv E.stakingAddr E.version E.handler := by unfold Env.conv; simp [hs]
      rw [hconv]
      rw [stakingConv_nonce_other (hE.handler m) _ _ _ _ a ha, hbuy]
      exact Nat.le_refl _
    · have hf : E.isStaking m = false := by simpa using hs
      have hconv : E.conv m = evmConv E.evm := by unfold Env.conv; simp [hf]
      rw [hconv] at hoerr ⊢
      rw [evmConv_apply] at hoerr ⊢
      obtain ⟨_, hw, _, _, _, _⟩ := evmConvOut_ok hoerr
      rw [hw]
      have := (hE.evm m).nonce_mono (callWorld m (worldAfterBuy s m)) s.refund (m.f.gasLimit - ig) a ha
      have hcw : (callWorld m (worldAfterBuy s m)).get a = s.world.get a := by
        unfold callWorld
        split
        · rw [get_setNonce_other _ _ ha, hbuy]
        · exact hbuy
      rw [hcw] at this
      exact this

/-! ### the worker's loop -/

theorem workerCommit_err {E : Env} {s : St} {acc : Acc} {m : Msg} {e : Err}
    (h : (workerCommit E s acc m).out = .error e) :
    (workerCommit E s acc m).st.world = s.world ∧ (workerCommit E s acc m).st.refund = s.refund ∧
    (workerCommit E s acc m).acc = acc ∧ (workerCommit E s acc m).st.pool = (applyMsg E s acc m).st.pool := by
  unfold workerCommit at h ⊢
  simp only at h ⊢
  cases ho : (applyMsg E s acc m).out with
  | ok rc => simp [ho] at h
  | error e' =>
    simp only
    exact ⟨trivial, trivial, (applyMsg_err ho).2.2, trivial⟩

theorem workerCommit_ok {E : Env} {s : St} {acc : Acc} {m : Msg} {rc : Receipt}
    (h : (workerCommit E s acc m).out = .ok rc) :
    workerCommit E s acc m = applyMsg E s acc m := by
  unfold workerCommit at h ⊢
  simp only at h ⊢
  cases ho : (applyMsg E s acc m).out with
  | ok rc => simp
  | error e' => simp [ho] at h

def MsgBounds (m : Msg) : Prop := m.f.gasLimit < U64 ∧ m.f.nonce + 1 < U64

/-- Within one block built by the worker: the pool never grows, no nonce ever decreases, every included message
carried the sender's then-current nonce, and two included messages of one sender have strictly increasing nonces
(so no message is included twice). -/
theorem workerRun_spec (E : Env) (hE : EnvSpec E) : ∀ (ms : List Msg) (s : St) (acc : Acc),
    (∀ m ∈ ms, MsgBounds m) → s.pool < U64 →
    (workerRun E s acc ms).1.pool ≤ s.pool ∧
    (∀ a, (s.world.get a).nonce ≤ ((workerRun E s acc ms).1.world.get a).nonce) ∧
    (∀ m ∈ (workerRun E s acc ms).2.2, (s.world.get m.sender).nonce ≤ m.f.nonce ∧
        m.f.nonce < ((workerRun E s acc ms).1.world.get m.sender).nonce) ∧
    (workerRun E s acc ms).2.2.Pairwise (fun m1 m2 => m1.sender = m2.sender → m1.f.nonce < m2.f.nonce) := by
  intro ms
  induction ms with
  | nil => intro s acc _ _; simp [workerRun]
  | cons m ms ih =>
    intro s acc hb hp
    have hbm : MsgBounds m := hb m (by simp)
    have hbs : ∀ m' ∈ ms, MsgBounds m' := fun m' hm' => hb m' (by simp [hm'])
    have hpool1 : (workerCommit E s acc m).st.pool ≤ s.pool := by
      have := pool_le_msg (E := E) (s := s) (acc := acc) (m := m) (hE.evm m).gas_le hbm.1
      unfold workerCommit
      simp only
      split <;> exact this
    unfold workerRun
    simp only
    cases ho : (workerCommit E s acc m).out with
    | error e =>
      simp only
      obtain ⟨hw, _, _, _⟩ := workerCommit_err ho
      have := ih (workerCommit E s acc m).st (workerCommit E s acc m).acc hbs (by omega)
      rw [hw] at this
      obtain ⟨h1, h2, h3, h4⟩ := this
      exact ⟨by omega, h2, h3, h4⟩
    | ok rc =>
      simp only
      have heq := workerCommit_ok ho
      rw [heq] at ho hpool1 ⊢
      obtain ⟨hn0, hn1, hno⟩ := applied_nonce hE hbm.1 hp hbm.2 ho
      obtain ⟨h1, h2, h3, h4⟩ := ih (applyMsg E s acc m).st (applyMsg E s acc m).acc hbs (by omega)
      have hmono : ∀ a, (s.world.get a).nonce ≤ ((applyMsg E s acc m).st.world.get a).nonce := by
        intro a
        by_cases ha : a = m.sender
        · subst ha; omega
        · exact hno a ha
      refine ⟨by omega, fun a => Nat.le_trans (hmono a) (h2 a), ?_, ?_⟩
      · intro m' hm'
        simp only [List.mem_cons] at hm'
        rcases hm' with rfl | hm'
        · have := h2 m'.sender
          omega
        · have := h3 m' hm'
          have := hmono m'.sender
          omega
      · rw [List.pairwise_cons]
        refine ⟨?_, h4⟩
        intro m' hm' hsame
        have := (h3 m' hm').1
        rw [← hsame] at this
        omega

end YouVerif.C17
