/-
C17 helper lemmas: the contracts of ModelSpec are satisfiable (instances), and the Process loop is the worker
loop without failures.
-/
import YouVerif.C17.ProofsSeq
namespace YouVerif.C17
open YouVerif.Common

theorem transfer_get_sender (w : World) (src dst : Addr) (v : Nat) (h : dst ≠ src) :
    (w.transfer src dst v).get src = { w.get src with balance := (w.get src).balance - (v : Int) } := by
  unfold World.transfer
  rw [get_addBal_other _ _ (Ne.symm h), get_addBal_same]
  simp only [Int.sub_eq_add_neg]

theorem transfer_nonce (w : World) (src dst a : Addr) (v : Nat) :
    ((w.transfer src dst v).get a).nonce = (w.get a).nonce := by
  unfold World.transfer
  by_cases h1 : a = dst
  · subst h1
    rw [get_addBal_same]
    simp only
    by_cases h2 : a = src
    · subst h2; rw [get_addBal_same]
    · rw [get_addBal_other _ _ h2]
  · rw [get_addBal_other _ _ h1]
    by_cases h2 : a = src
    · subst h2; rw [get_addBal_same]
    · rw [get_addBal_other _ _ h2]

theorem bump_get_sender (m : Msg) (w : World) : (bumpIfCreate m w).get m.sender =
    { w.get m.sender with nonce := if m.f.to.isSome then (w.get m.sender).nonce else ((w.get m.sender).nonce + 1) % U64 } := by
  unfold bumpIfCreate
  split
  · rfl
  · rw [get_setNonce_same]

theorem bump_get_other (m : Msg) (w : World) {a : Addr} (ha : a ≠ m.sender) : (bumpIfCreate m w).get a = w.get a := by
  unfold bumpIfCreate
  split
  · rfl
  · rw [get_setNonce_other _ _ ha]

theorem evmCosting_spec (dest : Addr) (cost refundAdd : Nat) (m : Msg) (hd : dest ≠ m.sender) :
    EvmSpec (evmCosting dest cost refundAdd) m where
  gas_le := by
    intro w r g; unfold evmCosting collisionOut
    by_cases hb : (w.get m.sender).balance < (m.f.value : Int)
    · simp [hb]
    · by_cases hc : (m.f.to.isNone && occupied (bumpIfCreate m w) dest) = true
      · simp [hb, hc]
      · simp only [hb, hc, if_false, Bool.false_eq_true]; omega
  insuff := by
    intro w r g; unfold evmCosting collisionOut
    by_cases hb : (w.get m.sender).balance < (m.f.value : Int)
    · simp [hb]
    · by_cases hc : (m.f.to.isNone && occupied (bumpIfCreate m w) dest) = true <;> simp [hb, hc]
  untouched := by
    intro w r g; unfold evmCosting collisionOut
    by_cases hb : (w.get m.sender).balance < (m.f.value : Int)
    · simp [hb]
    · by_cases hc : (m.f.to.isNone && occupied (bumpIfCreate m w) dest) = true <;> simp [hb, hc]
  nonce := by
    intro w r g; unfold evmCosting collisionOut
    by_cases hb : (w.get m.sender).balance < (m.f.value : Int)
    · simp [hb]
    · by_cases hc : (m.f.to.isNone && occupied (bumpIfCreate m w) dest) = true
      · simp only [hb, hc, if_true, if_false]
        intro _
        rw [bump_get_sender]
      · simp only [hb, hc, if_false, Bool.false_eq_true]
        intro _
        rw [transfer_nonce, bump_get_sender]
  balance := by
    intro w r g _; unfold evmCosting collisionOut
    by_cases hb : (w.get m.sender).balance < (m.f.value : Int)
    · simp [hb]
    · by_cases hc : (m.f.to.isNone && occupied (bumpIfCreate m w) dest) = true
      · simp only [hb, hc, if_true, if_false]
        rw [bump_get_sender]
        simp
      · simp only [hb, hc, if_false, if_true, Bool.false_eq_true]
        rw [transfer_get_sender _ _ _ _ hd, bump_get_sender]
  nonce_mono := by
    intro w r g a ha; unfold evmCosting collisionOut
    by_cases hb : (w.get m.sender).balance < (m.f.value : Int)
    · simp [hb]
    · by_cases hc : (m.f.to.isNone && occupied (bumpIfCreate m w) dest) = true
      · simp only [hb, hc, if_true, if_false]
        rw [bump_get_other _ _ ha]; exact Nat.le_refl _
      · simp only [hb, hc, if_false, Bool.false_eq_true]
        rw [transfer_nonce, bump_get_other _ _ ha]; exact Nat.le_refl _

theorem handlerObserved_spec (ok : Bool) (stake : Nat) (m : Msg) : HandlerSpec (handlerObserved ok stake) m where
  nonce := by
    intro a p w b; unfold handlerObserved
    cases ok
    · simp
    · simp only [if_true]
      by_cases hb : b = m.sender
      · subst hb; rw [get_addBal_same]
      · rw [get_addBal_other _ _ hb]
  fail := by
    intro a p w; unfold handlerObserved
    cases ok <;> simp
  ok := by
    intro a p w; unfold handlerObserved
    cases ok
    · simp
    · simp only [if_true]
      intro _
      rw [get_addBal_same]
      simp only
      omega

/-- `Process` (block import) either rejects the block or does exactly what the worker's loop does when every
message is included -/
theorem processRun_eq_workerRun (E : Env) : ∀ (ms : List Msg) (s : St) (acc : Acc) (r : St × Acc),
    processRun E s acc ms = some r → workerRun E s acc ms = (r.1, r.2, ms) := by
  intro ms
  induction ms with
  | nil => intro s acc r h; simp [processRun] at h; simp [workerRun, ← h]
  | cons m ms ih =>
    intro s acc r h
    unfold processRun at h
    simp only at h
    cases ho : (applyMsg E s acc m).out with
    | error e => simp [ho] at h
    | ok rc =>
      simp only [ho] at h
      have hw : workerCommit E s acc m = applyMsg E s acc m := by
        unfold workerCommit; simp [ho]
      unfold workerRun
      simp only [hw, ho]
      rw [ih _ _ r h]

end YouVerif.C17
