/-
C17 helper lemmas: the concrete environment (EVM converter + staking converter) at the level of
`applyMsg` / `applyTransaction`.
-/
import YouVerif.C17.ProofsAcct
namespace YouVerif.C17
open YouVerif.Common

theorem evmConv_err_late (evm : Evm) (m : Msg) : ∀ w r avail init e, (evmConv evm m w r avail init).err = some e →
    e = .insufficientBalance ∨ e = .moduleAddress ∨ e = .other := by
  intro w r avail init e he
  unfold evmConv evmConvOut at he
  split at he
  · simp only [Option.some.injEq] at he; exact Or.inl he.symm
  · simp at he

theorem env_conv_err_late (E : Env) (m : Msg) : ∀ w r avail init e, (E.conv m m w r avail init).err = some e →
    e = .insufficientBalance ∨ e = .moduleAddress ∨ e = .other := by
  unfold Env.conv
  by_cases hs : E.isStaking m = true
  · simp only [hs, if_true]; exact (stakingConv_safe _ _ _ m).err_late
  · have hf : E.isStaking m = false := by simpa using hs
    simp only [hf, Bool.false_eq_true, if_false]
    exact evmConv_err_late E.evm m

theorem env_conv_safe (E : Env) (m : Msg) (hg : ∀ w r g, (E.evm m w r g).gasLeft ≤ g) : ConvSafe (E.conv m) m := by
  unfold Env.conv
  split
  · exact stakingConv_safe _ _ _ m
  · exact evmConv_safe hg

theorem applyMsg_err {E : Env} {s : St} {acc : Acc} {m : Msg} {e : Err}
    (h : (applyMsg E s acc m).out = .error e) :
    (applyMessageEntry E s m).err = some e ∧ (applyMsg E s acc m).st = (applyMessageEntry E s m).st ∧
    (applyMsg E s acc m).acc = acc := by
  unfold applyMsg at h ⊢
  simp only at h ⊢
  cases he : (applyMessageEntry E s m).err with
  | none => simp [he] at h
  | some e' => simp [he] at h ⊢; exact h

theorem applyMsg_ok {E : Env} {s : St} {acc : Acc} {m : Msg} {rc : Receipt}
    (h : (applyMsg E s acc m).out = .ok rc) :
    (applyMessageEntry E s m).err = none ∧
    rc = { failed := (applyMessageEntry E s m).failed, cumulative := (acc.used + (applyMessageEntry E s m).gas) % U64,
           gasUsed := (applyMessageEntry E s m).gas } ∧
    (applyMsg E s acc m).st = { (applyMessageEntry E s m).st with refund := 0 } ∧
    (applyMsg E s acc m).acc = { used := (acc.used + (applyMessageEntry E s m).gas) % U64,
                                 rewards := acc.rewards + ((m.f.price * (applyMessageEntry E s m).gas : Nat) : Int) } := by
  unfold applyMsg at h ⊢
  simp only at h ⊢
  cases he : (applyMessageEntry E s m).err with
  | some e' => simp [he] at h
  | none => simp [he] at h ⊢; exact h.symm

theorem evmConvOut_ok {eo : EvmOut} {init : Nat} (h : (evmConvOut eo init).err = none) :
    eo.vmerr ≠ .insufficientBalance ∧ (evmConvOut eo init).world = eo.world ∧ (evmConvOut eo init).refund = eo.refund ∧
    (evmConvOut eo init).avail = eo.gasLeft ∧ (evmConvOut eo init).failed = (eo.vmerr != .none) ∧
    (evmConvOut eo init).reported = gasUsedOf init eo.gasLeft := by
  unfold evmConvOut at h ⊢
  split
  · rename_i hv; simp [hv] at h
  · rename_i hv; exact ⟨hv, rfl, rfl, rfl, rfl, rfl⟩

theorem evmConv_apply (evm : Evm) (m : Msg) (w : World) (r a i : Nat) :
    evmConv evm m w r a i = evmConvOut (evm m (callWorld m w) r a) i := rfl

theorem split_mul {a b c : Nat} (p : Nat) (h : a = b + c) : a * p = b * p + c * p := by
  subst h; exact Nat.add_mul b c p

theorem callWorld_balance (m : Msg) (w : World) : ((callWorld m w).get m.sender).balance = (w.get m.sender).balance := by
  unfold callWorld
  split
  · rw [get_setNonce_same]
  · rfl

theorem callWorld_nonce (m : Msg) (w : World) : ((callWorld m w).get m.sender).nonce =
    if m.f.to.isSome then ((w.get m.sender).nonce + 1) % U64 else (w.get m.sender).nonce := by
  unfold callWorld
  split
  · rw [get_setNonce_same]
  · rfl

theorem worldAfterBuy_get (s : St) (m : Msg) : (worldAfterBuy s m).get m.sender =
    { s.world.get m.sender with balance := (s.world.get m.sender).balance - ((m.f.gasLimit * m.f.price : Nat) : Int) } := by
  unfold worldAfterBuy
  rw [get_addBal_same]
  simp only [Int.sub_eq_add_neg]

/-- everything a successfully applied EVM message (transfer, call, creation) did -/
theorem applied_evm {E : Env} {s : St} {acc : Acc} {m : Msg} {rc : Receipt}
    (hE : EvmSpec E.evm m) (hns : E.isStaking m = false) (hto : m.f.to ≠ some m.sender)
    (hlim : m.f.gasLimit < U64) (hpool : s.pool < U64) (hnonce : m.f.nonce + 1 < U64)
    (h : (applyMsg E s acc m).out = .ok rc) :
    ∃ ig refund, intrinsicGas (E.basicGas m) m.f.data = some ig ∧
      (s.world.get m.sender).nonce = m.f.nonce ∧
      ((m.f.gasLimit * m.f.price : Nat) : Int) ≤ (s.world.get m.sender).balance ∧
      m.f.gasLimit ≤ s.pool ∧
      ig ≤ rc.gasUsed ∧ rc.gasUsed ≤ m.f.gasLimit ∧
      refund = min (rc.gasUsed / 2) (E.evm m (callWorld m (worldAfterBuy s m)) s.refund (m.f.gasLimit - ig)).refund ∧
      ((applyMsg E s acc m).st.world.get m.sender).nonce = m.f.nonce + 1 ∧
      ((applyMsg E s acc m).st.world.get m.sender).balance =
        (s.world.get m.sender).balance - (if rc.failed then 0 else (m.f.value : Int))
          - (((rc.gasUsed - refund) * m.f.price : Nat) : Int) ∧
      (applyMsg E s acc m).st.pool = s.pool - (rc.gasUsed - refund) ∧
      (applyMsg E s acc m).st.refund = 0 ∧
      (applyMsg E s acc m).acc.used = (acc.used + rc.gasUsed) % U64 ∧
      (applyMsg E s acc m).acc.rewards = acc.rewards + ((m.f.price * rc.gasUsed : Nat) : Int) ∧
      rc.cumulative = (applyMsg E s acc m).acc.used ∧
      rc.gasUsed = m.f.gasLimit - (E.evm m (callWorld m (worldAfterBuy s m)) s.refund (m.f.gasLimit - ig)).gasLeft ∧
      rc.failed = ((E.evm m (callWorld m (worldAfterBuy s m)) s.refund (m.f.gasLimit - ig)).vmerr != .none) ∧
      (E.evm m (callWorld m (worldAfterBuy s m)) s.refund (m.f.gasLimit - ig)).vmerr ≠ .insufficientBalance := by
  obtain ⟨herr, hrc, hst, hacc⟩ := applyMsg_ok h
  have hconv : E.conv m = evmConv E.evm := by unfold Env.conv; simp [hns]
  have hsafe : ConvSafe (evmConv E.evm) m := evmConv_safe hE.gas_le
  unfold applyMessageEntry at herr hrc hst hacc
  rw [hconv] at herr hrc hst hacc
  obtain ⟨ig, hig, higl, hn, hb, hp, hoerr, hoav, hgas, hfailed, hstate⟩ := entry_ok hsafe hlim hpool herr
  rw [evmConv_apply] at hoerr hoav hgas hfailed hstate
  generalize heo : E.evm m (callWorld m (worldAfterBuy s m)) s.refund (m.f.gasLimit - ig) = eo at *
  obtain ⟨hv, hw, hr, ha, hf, hrep⟩ := evmConvOut_ok hoerr
  have hgl : eo.gasLeft ≤ m.f.gasLimit - ig := by rw [← ha]; exact hoav
  have hused : gasUsedOf m.f.gasLimit eo.gasLeft = m.f.gasLimit - eo.gasLeft := gasUsedOf_eq (by omega) hlim
  have hg : rc.gasUsed = m.f.gasLimit - eo.gasLeft := by rw [hrc]; simp only; rw [hgas, hrep, hused]
  have hfl : rc.failed = (eo.vmerr != .none) := by rw [hrc]; simp only; rw [hfailed, hf]
  refine ⟨ig, min (rc.gasUsed / 2) eo.refund, hig, hn, hb, hp, by omega, by omega, by rw [heo], ?_, ?_, ?_, ?_, ?_, ?_, ?_,
    by rw [heo]; exact hg, by rw [heo]; exact hfl, by rw [heo]; exact hv⟩
  · -- nonce
    rw [hst, hstate]
    simp only [hw, ha, hr]
    rw [get_addBal_same]
    simp only
    have := hE.nonce (callWorld m (worldAfterBuy s m)) s.refund (m.f.gasLimit - ig)
    rw [heo] at this
    rw [this hv, callWorld_nonce, worldAfterBuy_get]
    simp only
    rw [hn]
    split <;> (apply Nat.mod_eq_of_lt; omega)
  · -- balance
    rw [hst, hstate]
    simp only [hw, ha, hr]
    rw [get_addBal_same]
    simp only
    have := hE.balance (callWorld m (worldAfterBuy s m)) s.refund (m.f.gasLimit - ig) hto
    rw [heo] at this
    rw [this, callWorld_balance, worldAfterBuy_get]
    simp only
    have hmin : min ((m.f.gasLimit - eo.gasLeft) / 2) eo.refund ≤ (m.f.gasLimit - eo.gasLeft) / 2 := Nat.min_le_left _ _
    rw [hg]
    have hsplit := split_mul m.f.price (show m.f.gasLimit =
      (m.f.gasLimit - eo.gasLeft - min ((m.f.gasLimit - eo.gasLeft) / 2) eo.refund) +
      (eo.gasLeft + min ((m.f.gasLimit - eo.gasLeft) / 2) eo.refund) by omega)
    have hfl' : (if rc.failed = true then (0 : Int) else (m.f.value : Int)) =
        (if eo.vmerr = VmErr.none then (m.f.value : Int) else 0) := by
      rw [hfl]; cases eo.vmerr <;> simp
    rw [hfl']
    omega
  · -- pool
    rw [hst, hstate]
    simp only [ha, hr]
    have hmin : min ((m.f.gasLimit - eo.gasLeft) / 2) eo.refund ≤ (m.f.gasLimit - eo.gasLeft) / 2 := Nat.min_le_left _ _
    rw [hg]
    omega
  · rw [hst]
  · rw [hacc, hrc]
  · rw [hacc, hrc]
  · rw [hacc, hrc]

/-- what the staking converter leaves behind when it raises no error -/
theorem stakingConv_ok {addr : Addr} {version : Nat} {handler : Handler} {m : Msg} (hH : HandlerSpec handler m)
    (w : World) (r avail init : Nat) :
    (stakingConv addr version handler m w r avail init).err = none →
    (stakingConv addr version handler m w r avail init).refund = r ∧
    ((stakingConv addr version handler m w r avail init).world.get m.sender).nonce = ((w.get m.sender).nonce + 1) % U64 ∧
    ((stakingConv addr version handler m w r avail init).world.get m.sender).balance ≤ (w.get m.sender).balance ∧
    ((stakingConv addr version handler m w r avail init).failed = true →
      ((stakingConv addr version handler m w r avail init).world.get m.sender).balance = (w.get m.sender).balance) := by
  have hn := hH.nonce
  have hf := hH.fail
  have hk := hH.ok
  unfold stakingConv
  simp only
  split
  · intro he; simp at he
  · split
    · intro _
      simp [get_setNonce_same]
    · rename_i action payload _
      split
      · intro _
        simp [get_setNonce_same]
      · by_cases hka : knownAction action = true
        · simp only [hka, if_true]
          have hn' := hn action payload (w.setNonce m.sender (((w.get m.sender).nonce + 1) % U64)) m.sender
          have hf' := hf action payload (w.setNonce m.sender (((w.get m.sender).nonce + 1) % U64))
          have hk' := hk action payload (w.setNonce m.sender (((w.get m.sender).nonce + 1) % U64))
          rw [get_setNonce_same] at hn' hf' hk'
          simp only at hn' hf' hk'
          generalize handler action payload m (w.setNonce m.sender (((w.get m.sender).nonce + 1) % U64)) = res at *
          obtain ⟨w2, ok⟩ := res
          simp only at hn' hf' hk' ⊢
          cases ok with
          | true =>
            simp only [if_true]
            intro _
            exact ⟨by first | trivial | rfl, hn', hk' rfl, fun h => by simp at h⟩
          | false =>
            simp only [Bool.false_eq_true, if_false]
            intro _
            exact ⟨by first | trivial | rfl, hn', Int.le_of_eq (hf' rfl), fun _ => hf' rfl⟩
        · have hka' : knownAction action = false := by simpa using hka
          simp only [hka', Bool.false_eq_true, if_false]
          intro _
          simp [get_setNonce_same]

/-- everything a successfully applied staking-module message did (from YouV4 on) -/
theorem applied_staking {E : Env} {s : St} {acc : Acc} {m : Msg} {rc : Receipt}
    (hH : HandlerSpec E.handler m) (hs : E.isStaking m = true) (hver : 4 ≤ E.version)
    (hlim : m.f.gasLimit < U64) (hpool : s.pool < U64) (hnonce : m.f.nonce + 1 < U64) (hr0 : s.refund = 0)
    (h : (applyMsg E s acc m).out = .ok rc) :
    ∃ (ig : Nat) (stake : Int), intrinsicGas (E.basicGas m) m.f.data = some ig ∧
      (s.world.get m.sender).nonce = m.f.nonce ∧
      ((m.f.gasLimit * m.f.price : Nat) : Int) ≤ (s.world.get m.sender).balance ∧
      m.f.gasLimit ≤ s.pool ∧
      ig ≤ rc.gasUsed ∧ rc.gasUsed ≤ m.f.gasLimit ∧
      0 ≤ stake ∧ (rc.failed = true → stake = 0) ∧
      ((applyMsg E s acc m).st.world.get m.sender).nonce = m.f.nonce + 1 ∧
      ((applyMsg E s acc m).st.world.get m.sender).balance =
        (s.world.get m.sender).balance - stake - ((rc.gasUsed * m.f.price : Nat) : Int) ∧
      (applyMsg E s acc m).st.pool = s.pool - rc.gasUsed ∧
      (applyMsg E s acc m).st.refund = 0 ∧
      (applyMsg E s acc m).acc.used = (acc.used + rc.gasUsed) % U64 ∧
      (applyMsg E s acc m).acc.rewards = acc.rewards + ((m.f.price * rc.gasUsed : Nat) : Int) ∧
      rc.cumulative = (applyMsg E s acc m).acc.used := by
  obtain ⟨herr, hrc, hst, hacc⟩ := applyMsg_ok h
  have hconv : E.conv m = stakingConv E.stakingAddr E.version E.handler := by unfold Env.conv; simp [hs]
  have hcon : ConvContract (stakingConv E.stakingAddr E.version E.handler) m := stakingConv_contract _ _ _ m hver
  unfold applyMessageEntry at herr hrc hst hacc
  rw [hconv] at herr hrc hst hacc
  obtain ⟨ig, hig, higl, hn, hb, hp, hoerr, hoav, hgas, hfailed, hstate⟩ := entry_ok hcon.toConvSafe hlim hpool herr
  have hrep := hcon.reported (worldAfterBuy s m) s.refund (m.f.gasLimit - ig) m.f.gasLimit (by omega) hlim hoerr
  obtain ⟨hor, hon, hob, hof⟩ := stakingConv_ok (addr := E.stakingAddr) (version := E.version) hH
    (worldAfterBuy s m) s.refund (m.f.gasLimit - ig) m.f.gasLimit hoerr
  generalize ho : stakingConv E.stakingAddr E.version E.handler m (worldAfterBuy s m) s.refund (m.f.gasLimit - ig)
    m.f.gasLimit = o at *
  have hg : rc.gasUsed = m.f.gasLimit - o.avail := by rw [hrc]; simp only; rw [hgas, hrep]
  have hfl : rc.failed = o.failed := by rw [hrc]; simp only; rw [hfailed]
  have hrefund : min ((m.f.gasLimit - o.avail) / 2) o.refund = 0 := by rw [hor, hr0]; exact Nat.min_zero _
  rw [worldAfterBuy_get] at hon hob hof
  simp only at hon hob hof
  refine ⟨ig, ((s.world.get m.sender).balance - ((m.f.gasLimit * m.f.price : Nat) : Int)) - (o.world.get m.sender).balance,
    hig, hn, hb, hp, by omega, by omega, by omega, ?_, ?_, ?_, ?_, ?_, ?_, ?_, ?_⟩
  · intro hf; rw [hfl] at hf; have := hof hf; omega
  · rw [hst, hstate]
    simp only
    rw [get_addBal_same]
    simp only
    rw [hon, hn]
    apply Nat.mod_eq_of_lt; omega
  · rw [hst, hstate]
    simp only [hrefund]
    rw [get_addBal_same]
    simp only
    rw [hg]
    have hsplit := split_mul m.f.price (show m.f.gasLimit = (m.f.gasLimit - o.avail) + (o.avail + 0) by omega)
    omega
  · rw [hst, hstate]
    simp only [hrefund]
    rw [hg]
    omega
  · rw [hst]
  · rw [hacc, hrc]
  · rw [hacc, hrc]
  · rw [hacc, hrc]

/-- gas used is between the intrinsic cost and the limit, for every protocol version -/
theorem conv_reported_bounds (E : Env) (m : Msg) (hg : ∀ w r g, (E.evm m w r g).gasLeft ≤ g)
    (w : World) (r ig : Nat) (hig : ig ≤ m.f.gasLimit) (hlim : m.f.gasLimit < U64)
    (he : (E.conv m m w r (m.f.gasLimit - ig) m.f.gasLimit).err = none) :
    ig ≤ (E.conv m m w r (m.f.gasLimit - ig) m.f.gasLimit).reported ∧
    (E.conv m m w r (m.f.gasLimit - ig) m.f.gasLimit).reported ≤ m.f.gasLimit := by
  revert he
  unfold Env.conv
  by_cases hs : E.isStaking m = true
  · simp only [hs, if_true]
    unfold stakingConv
    simp only
    repeat' split
    all_goals intro he
    all_goals simp only at he ⊢
    all_goals first
      | (simp at he; done)
      | omega
      | (rw [gasUsedOf_eq (by omega) hlim]; omega)
  · have hf : E.isStaking m = false := by simpa using hs
    simp only [hf, Bool.false_eq_true, if_false]
    intro he
    rw [evmConv_apply] at he ⊢
    have := hg (callWorld m w) r (m.f.gasLimit - ig)
    obtain ⟨_, _, _, _, _, hrep⟩ := evmConvOut_ok he
    rw [hrep, gasUsedOf_eq (by omega) hlim]
    omega

theorem gas_bounds_msg {E : Env} {s : St} {acc : Acc} {m : Msg} {rc : Receipt}
    (hg : ∀ w r g, (E.evm m w r g).gasLeft ≤ g) (hlim : m.f.gasLimit < U64) (hpool : s.pool < U64)
    (h : (applyMsg E s acc m).out = .ok rc) :
    ∃ ig, intrinsicGas (E.basicGas m) m.f.data = some ig ∧ ig ≤ rc.gasUsed ∧ rc.gasUsed ≤ m.f.gasLimit := by
  obtain ⟨herr, hrc, _, _⟩ := applyMsg_ok h
  unfold applyMessageEntry at herr hrc
  obtain ⟨ig, hig, higl, _, _, _, hoerr, _, hgas, _, _⟩ := entry_ok (env_conv_safe E m hg) hlim hpool herr
  have := conv_reported_bounds E m hg (worldAfterBuy s m) s.refund ig higl hlim hoerr
  refine ⟨ig, hig, ?_, ?_⟩ <;> (rw [hrc]; simp only; rw [hgas]; omega)

theorem pool_le_msg {E : Env} {s : St} {acc : Acc} {m : Msg}
    (hg : ∀ w r g, (E.evm m w r g).gasLeft ≤ g) (hlim : m.f.gasLimit < U64) :
    (applyMsg E s acc m).st.pool ≤ s.pool := by
  have := entry_pool_le (basic := E.basicGas m) (s := s) (env_conv_safe E m hg) hlim
  unfold applyMsg applyMessageEntry
  simp only
  split <;> exact this

end YouVerif.C17
