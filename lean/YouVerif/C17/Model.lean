/-
C17 — executable model of transaction authentication and accounting in go-youchain.

Modelled code (the code that exists, not what it should do):
  core/types/transaction_signing.go   YouSigner.Hash (signing preimage), YouSigner.Sender, recoverPlain
  core/types/transaction.go           isProtectedV, deriveNetworkId
  crypto/crypto.go                    ValidateSignatureValues (homestead = true)
  core/message_context.go             preCheck, buyGas, UseGas, refundGas, GasUsed
  core/gaspool.go                     SubGas, AddGas
  core/state_transition.go            IntrinsicGas, DefaultConverter / TransitionDb (EVM itself is a parameter)
  staking/tx_converter.go             TxConverter.ApplyMessage (the action handlers are a parameter)
  core/state_processor.go             GetConverter, ApplyMessageEntry, ApplyTransaction, the loop of Process,
  miner/worker.go                     commitTransaction (snapshot / revert of the state, not of the pool)

Core Lean only (the driver links this natively).
-/
import YouVerif.Common.Hex
import YouVerif.Common.Keccak
import YouVerif.Common.Rlp

namespace YouVerif.C17
open YouVerif.Common

/-! ## Basic types -/

/-- 2^64: Go's `uint64` arithmetic wraps at this modulus. -/
def U64 : Nat := 18446744073709551616
def maxU64 : Nat := 18446744073709551615

/-- An address is its 20 bytes (well-formedness `length = 20` is a hypothesis where it matters). -/
abbrev Addr := List UInt8

/-- The signed fields of a transaction (`txdata` without V, R, S). `price`, `value` are `*big.Int`
that came off the wire, hence non-negative. -/
structure TxFields where
  nonce    : Nat
  price    : Nat
  gasLimit : Nat
  to       : Option Addr       -- `none` = contract creation
  value    : Nat
  data     : List UInt8
  deriving DecidableEq, Repr, Inhabited

structure Tx where
  f : TxFields
  v : Nat
  r : Nat
  s : Nat
  deriving DecidableEq, Repr, Inhabited

/-! ## Signing preimage (`YouSigner.Hash`) -/

/-- `rlpHash([]interface{}{nonce, price, gasLimit, recipient, amount, payload, networkId, uint(0), uint(0)})`.
A nil `*common.Address` is encoded as the empty string, a non-nil one as its 20 bytes. -/
def preimageItem (f : TxFields) (networkId : Nat) : Rlp.Item :=
  .list [Rlp.ofNat f.nonce, Rlp.ofNat f.price, Rlp.ofNat f.gasLimit,
         .str (f.to.getD []), Rlp.ofNat f.value, .str f.data,
         Rlp.ofNat networkId, Rlp.ofNat 0, Rlp.ofNat 0]

def preimage (f : TxFields) (networkId : Nat) : List UInt8 := Rlp.encode (preimageItem f networkId)

/-- a `*big.Int` whose big-endian bytes fit in a Go slice -/
def Small (n : Nat) : Prop := (bytesOfNatBE n).length < U64

/-- well-formed fields: what the Go types guarantee (uint64 nonce and gas limit, 20-byte addresses, slices and
big integers that fit in memory) -/
def TxFields.WF (f : TxFields) : Prop :=
  f.nonce < U64 ∧ f.gasLimit < U64 ∧ Small f.price ∧ Small f.value ∧ f.data.length < U64 ∧
  ∀ a, f.to = some a → a.length = 20

/-! ## Sender (`YouSigner.Sender`, `recoverPlain`, `ValidateSignatureValues`) -/

def secp256k1N : Nat := 0xfffffffffffffffffffffffffffffffebaaedce6af48a03bbfd25e8cd0364141
def secp256k1halfN : Nat := secp256k1N / 2

inductive SenderErr where
  | notProtected | invalidNetworkId | invalidSig
  deriving DecidableEq, Repr, Inhabited

/-- `isProtectedV`: anything but 27 / 28 counts as protected -/
def isProtectedV (v : Nat) : Bool := !(v == 27 || v == 28)

/-- `deriveNetworkId`: the ≤ 64-bit branch computes `(v - 35) / 2` in `uint64` (wrapping below 35) -/
def deriveNetworkId (v : Nat) : Nat :=
  if v < U64 then
    if v == 27 || v == 28 then 0 else ((v + U64 - 35) % U64) / 2
  else (v - 35) / 2

/-- `crypto.ValidateSignatureValues(v, r, s, homestead = true)` -/
def validateSignatureValues (v r s : Nat) : Bool :=
  decide (1 ≤ r) && decide (1 ≤ s) && decide (s ≤ secp256k1halfN) &&
  decide (r < secp256k1N) && decide (s < secp256k1N) && (v == 0 || v == 1)

/-- The part of `Sender` before public-key recovery: either an error, or the recovery byte (0/1)
that is handed, with the signing hash and R, S, to `crypto.Ecrecover`.
`Vb = V - 2·networkId - 8` (a `big.Int`, may be negative); `Vb.BitLen() > 8` ⇒ invalid;
`byte(Vb.Uint64() - 27)` uses the absolute value and wraps. -/
def senderCheck (networkId : Nat) (tx : Tx) : Except SenderErr Nat :=
  if !isProtectedV tx.v then .error .notProtected
  else if deriveNetworkId tx.v != networkId then .error .invalidNetworkId
  else
    let vb : Int := (tx.v : Int) - 2 * (networkId : Int) - 8
    let a := vb.natAbs
    if a ≥ 256 then .error .invalidSig
    else
      let vbyte := (a + 256 - 27) % 256
      if validateSignatureValues vbyte tx.r tx.s then .ok vbyte else .error .invalidSig

/-- Public-key recovery is abstract: `recover hash r s v` is `crypto.Ecrecover` followed by the
Keccak/truncate step (`none` = recovery failed). The hash function is abstract as well. -/
structure Crypto where
  hash    : List UInt8 → List UInt8
  recover : List UInt8 → Nat → Nat → Nat → Option Addr

def sigHash (C : Crypto) (networkId : Nat) (f : TxFields) : List UInt8 := C.hash (preimage f networkId)

def sender (C : Crypto) (networkId : Nat) (tx : Tx) : Except SenderErr Addr :=
  match senderCheck networkId tx with
  | .error e => .error e
  | .ok vbyte =>
    match C.recover (sigHash C networkId tx.f) tx.r tx.s vbyte with
    | none => .error .invalidSig
    | some a => .ok a

/-! ## World state -/

structure Account where
  nonce   : Nat := 0
  balance : Int := 0
  hasCode : Bool := false      -- only what the creation-collision check needs to know about code
  deriving DecidableEq, Repr, Inhabited

/-- The accounts: an association list, newest binding first (a data structure, not a function, so that the
compiled driver evaluates every update once). Only `get`/`set` and the lemma `World.get_set` are used elsewhere. -/
structure World where
  entries : List (Addr × Account) := []
  deriving Inhabited

def World.get (w : World) (a : Addr) : Account :=
  match w.entries.find? (fun p => p.1 == a) with
  | some p => p.2
  | none => {}

def World.set (w : World) (a : Addr) (x : Account) : World := ⟨(a, x) :: w.entries⟩

theorem World.get_set (w : World) (a b : Addr) (x : Account) :
    (w.set a x).get b = if b = a then x else w.get b := by
  unfold World.get World.set
  by_cases h : b = a
  · subst h; simp
  · have h' : (a == b) = false := by simp [beq_eq_false_iff_ne]; exact fun e => h e.symm
    simp [h', h]

def World.addBal (w : World) (a : Addr) (d : Int) : World := w.set a { w.get a with balance := (w.get a).balance + d }
def World.setNonce (w : World) (a : Addr) (n : Nat) : World := w.set a { w.get a with nonce := n }
/-- `core.Transfer`: `SubBalance(sender)` then `AddBalance(recipient)` -/
def World.transfer (w : World) (src dst : Addr) (v : Nat) : World := (w.addBal src (-(v : Int))).addBal dst v

/-- What `ApplyMessageEntry` works on: accounts, the StateDB refund counter, the block gas pool. -/
structure St where
  world  : World
  refund : Nat := 0
  pool   : Nat
  deriving Inhabited

/-- the accumulators `ApplyTransaction` updates through pointers: `*usedGas` (uint64), `gasRewards` (big.Int) -/
structure Acc where
  used    : Nat := 0
  rewards : Int := 0
  deriving DecidableEq, Repr, Inhabited

inductive Err where
  | sender (e : SenderErr)
  | nonceTooHigh | nonceTooLow | insufficientBalanceForGas | gasLimitReached   -- refused up front, nothing touched
  | intrinsicOverflow        -- IntrinsicGas returned ErrOutOfGas (after buyGas)
  | outOfGasIntrinsic        -- UseGas(intrinsic) failed (after buyGas)
  | insufficientBalance      -- vm.ErrInsufficientBalance at top level (after buyGas, after the nonce bump of a call)
  | moduleAddress            -- staking converter called for another address (unreachable through GetConverter)
  | other                    -- any other converter error (e.g. ErrCancelled)
  | poolOverflow             -- `GasPool.AddGas` panics (`gas pool pushed above uint64`)
  deriving DecidableEq, Repr, Inhabited

/-- A message: a transaction with its recovered sender. -/
structure Msg where
  sender : Addr
  f      : TxFields
  deriving DecidableEq, Repr, Inhabited

/-! ## Gas constants (compared with `params.*` by the harness on every run) -/
def txGas : Nat := 21000
def txGasContractCreation : Nat := 53000
def txDataZeroGas : Nat := 4
def txDataNonZeroGas : Nat := 16
def txValidatorGas : Nat := 100000
def txValCreationGas : Nat := 900000

/-- `core.IntrinsicGas(basicGas, data)` with its two uint64 overflow guards (`none` = `vm.ErrOutOfGas`). -/
def intrinsicGas (basic : Nat) (data : List UInt8) : Option Nat :=
  if data.length = 0 then some basic else
  let nz := (data.filter (· != 0)).length
  if (maxU64 - basic) / txDataNonZeroGas < nz then none else
  let gas := basic + nz * txDataNonZeroGas
  let z := data.length - nz
  if (maxU64 - gas) / txDataZeroGas < z then none else
  some (gas + z * txDataZeroGas)

/-! ## Converters -/

/-- What a `TxConverter.ApplyMessage` leaves behind / returns. -/
structure ConvOut where
  world    : World
  refund   : Nat          -- StateDB refund counter afterwards
  avail    : Nat          -- `msgCtx.AvailableGas` afterwards
  reported : Nat          -- the `usedGas` it returns
  failed   : Bool
  err      : Option Err
  deriving Inhabited

/-- A converter sees the message, the state after `buyGas`, the gas available after the intrinsic
charge, and `InitialGas`. -/
abbrev Converter := Msg → World → (refund : Nat) → (avail : Nat) → (initial : Nat) → ConvOut

/-- `MessageContext.GasUsed()`: `InitialGas - AvailableGas` in uint64. -/
def gasUsedOf (initial avail : Nat) : Nat := (initial + U64 - avail % U64) % U64

/-! ### The EVM converter (`DefaultConverter.ApplyMessage` → `TransitionDb`) -/

inductive VmErr where
  | none | insufficientBalance | other
  deriving DecidableEq, Repr, Inhabited

/-- what `evm.Call` / `evm.Create` leave behind -/
structure EvmOut where
  world   : World
  refund  : Nat
  gasLeft : Nat
  vmerr   : VmErr
  deriving Inhabited

/-- The EVM is a parameter: `evm msg world refund gas`. -/
abbrev Evm := Msg → World → Nat → Nat → EvmOut

/-- a call bumps the sender's nonce *before* running the EVM; a creation leaves it to `evm.Create` -/
def callWorld (m : Msg) (w : World) : World :=
  if m.f.to.isSome then w.setNonce m.sender (((w.get m.sender).nonce + 1) % U64) else w

/-- what `TransitionDb` returns for a given EVM outcome -/
def evmConvOut (o : EvmOut) (initial : Nat) : ConvOut :=
  if o.vmerr = .insufficientBalance then
    { world := o.world, refund := o.refund, avail := o.gasLeft, reported := 0, failed := false, err := some .insufficientBalance }
  else
    { world := o.world, refund := o.refund, avail := o.gasLeft, reported := gasUsedOf initial o.gasLeft,
      failed := o.vmerr != .none, err := none }

def evmConv (evm : Evm) : Converter := fun m w refund avail initial =>
  evmConvOut (evm m (callWorld m w) refund avail) initial

/-- `evm.create` bumps the caller's nonce right after the `CanTransfer` guard (before the collision check); `evm.Call`
does not touch it -/
def bumpIfCreate (m : Msg) (w : World) : World :=
  if m.f.to.isSome then w else w.setNonce m.sender (((w.get m.sender).nonce + 1) % U64)

/-- `evm.create`'s collision check: the designated address already has a nonce or code -/
def occupied (w : World) (a : Addr) : Bool := (w.get a).nonce != 0 || (w.get a).hasCode

/-- what `evm.create` returns on `ErrContractAddressCollision`: the caller's nonce is ALREADY bumped (`w1`), nothing else
is touched, no gas comes back -/
def collisionOut (w1 : World) (refund : Nat) : EvmOut := { world := w1, refund := refund, gasLeft := 0, vmerr := .other }

/-- `evm.Call` to an address without code that is not a precompile (a plain transfer), and
`evm.Create` with empty init code, as far as nonces and balances go:
`CanTransfer` else `ErrInsufficientBalance` with all gas returned; then (creation only) the nonce bump and the
address-collision check (all gas lost, nonce stays bumped); then `Transfer`; nothing runs, no gas is used.
`dest` is the recipient (or the new contract's address). -/
def evmPlain (dest : Msg → World → Addr) : Evm := fun m w refund gas =>
  if (w.get m.sender).balance < (m.f.value : Int) then
    { world := w, refund := refund, gasLeft := gas, vmerr := .insufficientBalance }
  else
    if m.f.to.isNone && occupied (bumpIfCreate m w) (dest m w) then collisionOut (bumpIfCreate m w) refund
    else { world := (bumpIfCreate m w).transfer m.sender (dest m w) m.f.value, refund := refund, gasLeft := gas, vmerr := .none }

/-- An EVM run summarised by its outcome (used by the correspondence driver for calls and creations that
execute code): the `CanTransfer` guard and the creation-collision check are evaluated by the model, the rest is what was
observed — gas left, refund counter, whether the run failed; the value reaches `dest` exactly when the run succeeded. -/
def evmObserved (dest : Addr) (gasLeft refundAfter : Nat) (ok : Bool) : Evm := fun m w refund gas =>
  if (w.get m.sender).balance < (m.f.value : Int) then
    { world := w, refund := refund, gasLeft := gas, vmerr := .insufficientBalance }
  else
    if m.f.to.isNone && occupied (bumpIfCreate m w) dest then collisionOut (bumpIfCreate m w) refund
    else if ok then
      { world := (bumpIfCreate m w).transfer m.sender dest m.f.value, refund := refundAfter, gasLeft := gasLeft, vmerr := .none }
    else { world := bumpIfCreate m w, refund := refundAfter, gasLeft := gasLeft, vmerr := .other }

/-- A staking handler summarised by its outcome: success debits `stake` from the sender. -/
def handlerObserved (ok : Bool) (stake : Nat) : Nat → List UInt8 → Msg → World → World × Bool :=
  fun _ _ m w => if ok then (w.addBal m.sender (-(stake : Int)), true) else (w, false)

/-! ### The staking converter (`staking.TxConverter.ApplyMessage`) -/

/-- `rlp.DecodeBytes(data, &Message{Action uint8; Payload []byte})`: exactly one item, a list of exactly two
strings; the first a canonical unsigned integer of at most one byte. -/
def decodeStakingMsg (data : List UInt8) : Option (Nat × List UInt8) :=
  match Rlp.decode data with
  | .ok (.list [.str a, .str p]) =>
    match a with
    | [] => some (0, p)
    | [b] => if b = 0 then none else some (b.toNat, p)
    | _ => none
  | _ => none

/-- actions with a registered handler (`handlers` map in staking/tx_converter.go) -/
def knownAction (a : Nat) : Bool := (1 ≤ a && a ≤ 6) || (16 ≤ a && a ≤ 18)
def actionValidatorCreate : Nat := 1

/-- The action handlers are a parameter: `handler action payload msg world = (world', ok)`.
For an unknown action the converter uses a handler that fails without touching anything. -/
abbrev Handler := Nat → List UInt8 → Msg → World → World × Bool

def stakingConv (stakingAddr : Addr) (version : Nat) (handler : Handler) : Converter := fun m w refund avail initial =>
  if m.f.to != some stakingAddr then
    { world := w, refund := refund, avail := avail, reported := 0, failed := false, err := some .moduleAddress }
  else
  -- from now on the message is always accepted: bump the nonce
  let w1 := w.setNonce m.sender (((w.get m.sender).nonce + 1) % U64)
  -- a failed message reports InitialGas; only from YouV4 on is the remaining gas really consumed
  let failAll (w' : World) : ConvOut :=
    { world := w', refund := refund, avail := if version ≥ 4 then 0 else avail, reported := initial, failed := true, err := none }
  match decodeStakingMsg m.f.data with
  | none => failAll w1
  | some (action, payload) =>
    if version ≥ 5 ∧ action = actionValidatorCreate ∧ avail < txValCreationGas then
      { world := w1, refund := refund, avail := avail, reported := gasUsedOf initial avail, failed := true, err := none }
    else
      let avail1 := if version ≥ 5 ∧ action = actionValidatorCreate then avail - txValCreationGas else avail
      let (w2, ok) := if knownAction action then handler action payload m w1 else (w1, false)
      if ok then
        { world := w2, refund := refund, avail := avail1, reported := gasUsedOf initial avail1, failed := false, err := none }
      else
        { world := w2, refund := refund, avail := if version ≥ 4 then 0 else avail1, reported := initial, failed := true, err := none }

/-! ## `ApplyMessageEntry` -/

/-- `preCheck` = nonce check + `buyGas`. On error nothing has been touched. -/
def preCheck (s : St) (m : Msg) : Except Err St :=
  let acc := s.world.get m.sender
  if acc.nonce < m.f.nonce then .error .nonceTooHigh
  else if acc.nonce > m.f.nonce then .error .nonceTooLow
  else
    let mgval : Int := (m.f.gasLimit * m.f.price : Nat)
    if acc.balance < mgval then .error .insufficientBalanceForGas
    else if s.pool < m.f.gasLimit then .error .gasLimitReached
    else .ok { s with pool := s.pool - m.f.gasLimit, world := s.world.addBal m.sender (-mgval) }

/-- The registered converters: the staking module's address and the protocol version in force. -/
structure Env where
  stakingAddr : Addr
  version     : Nat
  evm         : Evm
  handler     : Handler

def Env.isStaking (E : Env) (m : Msg) : Bool := m.f.to == some E.stakingAddr

/-- `GetConverter(msg.To())` -/
def Env.conv (E : Env) (m : Msg) : Converter :=
  if E.isStaking m then stakingConv E.stakingAddr E.version E.handler else evmConv E.evm

/-- `c.IntrinsicGas(msg.Data(), msg.To())` of the selected converter -/
def Env.basicGas (E : Env) (m : Msg) : Nat :=
  if E.isStaking m then txValidatorGas
  else if m.f.to.isNone then txGasContractCreation else txGas

structure EntryResult where
  st     : St
  gas    : Nat
  failed : Bool
  err    : Option Err
  deriving Inhabited

/-- `refundGas` on the converter's output; then the values `ApplyMessageEntry` returns.
Note the order in the Go code: the converter's `usedGas` is computed *before* `refundGas` runs. -/
def finishEntry (s1 : St) (m : Msg) (o : ConvOut) : EntryResult :=
  let used := gasUsedOf m.f.gasLimit o.avail
  let refund := min (used / 2) o.refund
  let avail' := (o.avail + refund) % U64
  let world' := o.world.addBal m.sender ((avail' * m.f.price : Nat) : Int)
  if s1.pool + avail' > maxU64 then
    { st := { world := world', refund := o.refund, pool := s1.pool }, gas := 0, failed := false, err := some .poolOverflow }
  else
    { st := { world := world', refund := o.refund, pool := s1.pool + avail' }, gas := o.reported, failed := o.failed, err := o.err }

def applyMessageEntryWith (conv : Converter) (basic : Nat) (s : St) (m : Msg) : EntryResult :=
  match preCheck s m with
  | .error e => { st := s, gas := 0, failed := false, err := some e }
  | .ok s1 =>
    match intrinsicGas basic m.f.data with
    | none => { st := s1, gas := 0, failed := false, err := some .intrinsicOverflow }
    | some ig =>
      if m.f.gasLimit < ig then { st := s1, gas := 0, failed := false, err := some .outOfGasIntrinsic }
      else finishEntry s1 m (conv m s1.world s1.refund (m.f.gasLimit - ig) m.f.gasLimit)

def applyMessageEntry (E : Env) (s : St) (m : Msg) : EntryResult :=
  applyMessageEntryWith (E.conv m) (E.basicGas m) s m

/-! ## `ApplyTransaction` -/

structure Receipt where
  failed     : Bool
  cumulative : Nat
  gasUsed    : Nat
  deriving DecidableEq, Repr, Inhabited

structure TxResult where
  st      : St
  acc     : Acc
  out     : Except Err Receipt
  deriving Inhabited

/-- the sender-independent part of `ApplyTransaction` (after `AsMessage`) -/
def applyMsg (E : Env) (s : St) (acc : Acc) (m : Msg) : TxResult :=
  let r := applyMessageEntry E s m
  match r.err with
  | some e => { st := r.st, acc := acc, out := .error e }         -- state left as it is: the caller must revert
  | none =>
    let used' := (acc.used + r.gas) % U64
    { st := { r.st with refund := 0 }                              -- `statedb.Finalise(true)` clears the refund counter
      acc := { used := used', rewards := acc.rewards + ((m.f.price * r.gas : Nat) : Int) }
      out := .ok { failed := r.failed, cumulative := used', gasUsed := r.gas } }

def applyTransaction (C : Crypto) (networkId : Nat) (E : Env) (s : St) (acc : Acc) (tx : Tx) : TxResult :=
  match sender C networkId tx with
  | .error e => { st := s, acc := acc, out := .error (.sender e) }
  | .ok a => applyMsg E s acc { sender := a, f := tx.f }

/-! ## Callers -/

/-- `worker.commitTransaction`: snapshot, apply, on error `RevertToSnapshot` — which restores the StateDB
(accounts, refund counter) but **not** the gas pool, which is not part of the StateDB. -/
def workerCommit (E : Env) (s : St) (acc : Acc) (m : Msg) : TxResult :=
  let r := applyMsg E s acc m
  match r.out with
  | .ok _ => r
  | .error _ => { r with st := { world := s.world, refund := s.refund, pool := r.st.pool } }

/-- the worker's loop over candidate messages: failed ones are skipped; returns the included ones -/
def workerRun (E : Env) : St → Acc → List Msg → St × Acc × List Msg
  | s, acc, [] => (s, acc, [])
  | s, acc, m :: ms =>
    let r := workerCommit E s acc m
    match r.out with
    | .ok _ =>
      let (s', acc', inc) := workerRun E r.st r.acc ms
      (s', acc', m :: inc)
    | .error _ => workerRun E r.st r.acc ms

/-- the loop of `StateProcessor.Process`: the first error rejects the whole block -/
def processRun (E : Env) : St → Acc → List Msg → Option (St × Acc)
  | s, acc, [] => some (s, acc)
  | s, acc, m :: ms =>
    let r := applyMsg E s acc m
    match r.out with
    | .ok _ => processRun E r.st r.acc ms
    | .error _ => none

end YouVerif.C17
