/-
C01 — vocabulary of the property statements (no theorems here).
-/
import YouVerif.C01.Model
namespace YouVerif.C01

/-- entitled to vote / propose: an online member of the chamber -/
def Entitled (v : Val) : Prop := v.kind = Gen.kindChamber ∧ v.online = true

/-- `v` holds a valid sortition credential for (seed, role, index) worth exactly `seats ≥ 1` seats in a
committee of size `t` drawn from `total` stake: the proof really is `v`'s VRF output for that message, and
the quantile of its hash is the claimed number of seats. -/
def CredOK (C : Crypto) (v : Val) (seed role index : Nat) (proof : Option VrfProof) (seats t total : Nat) : Prop :=
  ∃ k h j, v.mainKey = some k ∧ proofToHash k seed role index proof = some h ∧
    C.ch h v.stake t total = some j ∧ 0 < j ∧ u32 j = seats

/-- the aggregate contains `v`'s genuine signature over exactly this payload -/
def SignedBy (v : Val) (pl : Payload) (agg : List SigAtom) : Prop :=
  ∃ bk, v.blsKey = some bk ∧ (bk, pl) ∈ agg

/-- `S` is a set of valid ballots for the block: pairwise distinct members of the look-back set (addressed by
their position in the sorted list), each entitled, each credentialed for (seed, step, index) with the seats it
claims under committee size `t`, each having signed this payload; every ballot is one of the packed votes. -/
structure ValidBallots (C : Crypto) (lb : LookBack) (seed step : Nat) (pl : Payload) (t : Nat)
    (votes : List Vote) (agg : List SigAtom) (S : List (Val × Vote)) : Prop where
  distinct : (S.map (·.1.addr)).Nodup
  member : ∀ p ∈ S, lb.sorted[p.2.idx]? = some p.1 ∧ p.1 ∈ lb.vals ∧ p.2 ∈ votes
  entitled : ∀ p ∈ S, Entitled p.1
  cred : ∀ p ∈ S, CredOK C p.1 seed step pl.index p.2.proof p.2.votes t lb.chamberStake
  signed : ∀ p ∈ S, SignedBy p.1 pl agg

/-- the same for the secp256k1 configuration (EnableBls = false): every ballot carries its own ECDSA signature,
which recovers to the member's key over exactly this payload -/
structure ValidBallotsSecp (C : Crypto) (lb : LookBack) (seed step : Nat) (pl : Payload) (t : Nat)
    (votes : List Vote) (S : List (Val × Vote)) : Prop where
  distinct : (S.map (·.1.addr)).Nodup
  member : ∀ p ∈ S, p.1 ∈ lb.vals ∧ p.2 ∈ votes
  entitled : ∀ p ∈ S, Entitled p.1
  cred : ∀ p ∈ S, CredOK C p.1 seed step pl.index p.2.proof p.2.votes t lb.chamberStake
  signed : ∀ p ∈ S, ∃ k, p.1.mainKey = some k ∧ p.2.sig = some (k, pl)

/-- total claimed (= credentialed) seats of a ballot set, as a natural number (no wrap-around) -/
def weight (S : List (Val × Vote)) : Nat := (S.map (·.2.votes)).sum

/-- the proposer credential: `v`'s VRF output for (seed, proposal step, index) has quantile `j ≥ 1` under the
proposer committee size `pT`; the header declares `j` sub-users and the priority derived from them -/
def ProposerOK (C : Crypto) (v : Val) (seed : Nat) (c : Cons) (pT total : Nat) : Prop :=
  ∃ k h j, v.mainKey = some k ∧ c.signer = .key k ∧ proofToHash k seed Gen.stepProposal c.roundIndex c.proof = some h ∧
    C.ch h v.stake pT total = some j ∧ 0 < c.subUsers ∧ u32 j = c.subUsers ∧ C.prio h j = c.priority

end YouVerif.C01
