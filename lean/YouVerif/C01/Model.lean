/-
C01 — executable model of the header verifier of consensus/ucon/consensus.go
(`verifyConsensusFieldMain`, `verifyVotes`, `VerifySideChainHeader`, `VerifySeal`/`verifySignature`),
`OverThreshold` (voter.go), `VrfVerifySortition` / `VrfVerifyPriority` (sortition.go),
`RecoverSignerInfo` (vote_bls.go), `Validators.sort` (core/state/validator.go) and the identity-element
guard of bls/bls.go.

Cryptography is symbolic: a VRF proof is the term (key, seed, role, index ↦ hash) it was really produced
from (or garbage); a BLS signature is the pair (key, payload); an aggregate is the list of the
signatures it is the sum of; `VerifyAggregatedOne` holds iff that list is a permutation of
"every listed public key signed the payload". The quantile function `choose` (gonum binomial CDF) and
`computePriority` (Keccak) are parameters of the model (`Crypto`).

Core Lean only (the driver links this file natively).
-/
import YouVerif.C01.GenConsts
import YouVerif.C01.GenFacts
namespace YouVerif.C01

abbrev U32 : Nat := 4294967296
abbrev U64 : Nat := 18446744073709551616

/-! ## Exact model of `uint32(float64(T) * c)` -/

/-- number of binary digits of `n`, by structural recursion on fuel (`fuel ≥` the number of digits) -/
def bitLenF : Nat → Nat → Nat
  | 0, _ => 0
  | fuel + 1, n => if n = 0 then 0 else bitLenF fuel (n / 2) + 1

/-- big enough for every product of a 53-bit mantissa with a 64-bit integer -/
def bitLen (n : Nat) : Nat := bitLenF 192 n

/-- round a natural number to 53 significant bits, ties to even (IEEE-754 binary64 rounding of an exact
value; no overflow or subnormals can occur in the range used) -/
def roundSig53 (p : Nat) : Nat :=
  let l := bitLen p
  if l ≤ 53 then p else
    let s := l - 53
    let q := p / 2 ^ s
    let r := p % 2 ^ s
    let half := 2 ^ (s - 1)
    let q' := if r > half ∨ (r = half ∧ q % 2 = 1) then q + 1 else q
    q' * 2 ^ s

/-- `float64(T)` for a uint64 `T`, as the integer it denotes -/
def f64OfU64 (t : Nat) : Nat := roundSig53 (t % U64)

/-- `⌊ fl(x · c) ⌋` for the float64 constant `c = man / 2^shift` and an integer-valued float64 `x` -/
def mulFloor (man shift x : Nat) : Nat := roundSig53 (man * x) / 2 ^ shift

/-- Go's `uint32(f)` for a non-negative float64 with integer part `n`, as compiled for amd64
(CVTTSD2SQ, then the low 32 bits; values ≥ 2^63 give the "integer indefinite" 0x8000…0 whose low half is 0) -/
def u32OfFloat (n : Nat) : Nat := if n < 2 ^ 63 then n % U32 else 0

/-- the number of seats `OverThreshold` compares the vote count with -/
def quorum (isPos : Bool) (t : Nat) : Nat :=
  if isPos then u32OfFloat (mulFloor Gen.posFracMan Gen.posFracShift (f64OfU64 t))
  else u32OfFloat (mulFloor Gen.certFracMan Gen.certFracShift (f64OfU64 t))

/-- `OverThreshold(count, threshold, isPos)` -/
def overThreshold (count t : Nat) (isPos : Bool) : Bool := decide (quorum isPos t ≤ count)

/-! ## Data -/

/-- one member of a look-back validator set -/
structure Val where
  addr : Nat              -- main address (derived from MainPubKey; 0 when the key bytes do not decode)
  stake : Nat
  token : Nat
  kind : Nat              -- params.KindOfRole(role): 1 chamber, 2 house, 0 otherwise
  online : Bool
  mainKey : Option Nat    -- id of the secp256k1/VRF key; none = MainPubKey bytes do not decode
  blsKey : Option Nat     -- id of the BLS key; none = BlsPubKey bytes do not decode
  deriving Repr, DecidableEq, Inhabited

/-- `Validator.Less` -/
def Val.less (a b : Val) : Bool :=
  let sa := a.stake % U64
  let sb := b.stake % U64
  if sa = sb then
    if a.token = b.token then decide (a.addr < b.addr) else decide (a.token < b.token)
  else decide (sa < sb)

/-- insertion into a list that is descending w.r.t. `less` -/
def insertDesc (v : Val) : List Val → List Val
  | [] => [v]
  | w :: ws => if w.less v then v :: w :: ws else w :: insertDesc v ws

/-- `Validators.sort` = `sort.Sort(sort.Reverse(...))`: descending by (stake, token, address) -/
def sortDesc : List Val → List Val
  | [] => []
  | v :: vs => insertDesc v (sortDesc vs)

structure LookBack where
  vals : List Val           -- as stored; the verifier indexes the SORTED list
  chamberStake : Nat        -- GetValidatorsStat().GetStakeByKind(KindChamber)
  deriving Repr, Inhabited

def LookBack.sorted (lb : LookBack) : List Val := sortDesc lb.vals

/-- what a VRF proof really is: made with `key` for the message MakeM(seed, role, index), output `hash` -/
structure VrfProof where
  key : Nat
  seed : Nat
  role : Nat
  index : Nat
  hash : Nat
  deriving Repr, DecidableEq

/-- `pk.ProofToHash(MakeM(seed, role, index), proof)` for the verifier key `key` -/
def proofToHash (key seed role index : Nat) : Option VrfProof → Option Nat
  | none => none
  | some p => if p.key = key ∧ p.seed = seed ∧ p.role = role ∧ p.index = index then some p.hash else none

/-- the signed vote payload blockHash ‖ round ‖ roundIndex -/
structure Payload where
  hash : Nat
  round : Nat
  index : Nat
  deriving Repr, DecidableEq

/-- a genuine signature: `key` signed `payload` -/
abbrev SigAtom := Nat × Payload

structure Vote where
  idx : Nat                       -- VoterIdx (uint32)
  votes : Nat                     -- Votes (uint32)
  proof : Option VrfProof         -- none = bytes that are no proof of anything
  sig : Option SigAtom            -- secp branch: the ECDSA signature carried by the vote (none = malformed / absent)
  deriving Repr, DecidableEq

/-- who a recoverable ECDSA signature over the *current* bytes recovers to -/
inductive Signer where
  | bad                 -- recovery fails
  | stranger            -- recovers to a key nobody in the look-back set owns
  | key (k : Nat)
  deriving Repr, DecidableEq

structure Cons where
  round : Nat
  roundIndex : Nat
  seed : Nat
  proof : Option VrfProof
  priority : Nat
  subUsers : Nat
  pT : Nat            -- declared ProposerThreshold
  vT : Nat            -- declared ValidatorThreshold
  cT : Nat            -- declared CertValThreshold
  signer : Signer
  deriving Repr

structure UC where
  roundIndex : Nat
  votes : List Vote
  agg : Option (List SigAtom)    -- none = aggregate bytes do not decode
  deriving Repr

structure LbHeader where
  cons : Option (Nat × Nat)      -- (seed, declared CertValThreshold); none = no decodable consensus data
  version : Nat
  deriving Repr

structure Header where
  number : Nat
  hash : Nat
  cons : Option Cons
  uc : Option UC                 -- header.Validator
  cert : Option UC               -- header.Certificate
  sealSigner : Signer            -- who header.Signature over header.Hash() recovers to
  parentOK : Bool
  deriving Repr

structure Params where
  enableBls : Bool
  pT : Nat
  vT : Nat
  cT : Nat
  deriving Repr, DecidableEq

/-- uninterpreted parts: `choose` (none = it panics) and `computePriority` -/
structure Crypto where
  ch : Nat → Nat → Nat → Nat → Option Int     -- hash, stake, committee size, total stake
  prio : Nat → Int → Nat

/-- which of the repaired checks are present (all true = the code as it is now) -/
structure Checks where
  thresholds : Bool        -- declared committee sizes must equal the protocol's        (F-C01a)
  voterEntitled : Bool     -- a vote counts only for an online chamber member           (F-C01b)
  proposerEntitled : Bool  -- proposer: online chamber member with ≥ 1 seat             (F-C01c)
  blsIdentity : Bool       -- identity aggregate / empty key list is a mismatch, not a panic (F-C01d)
  deriving Repr

/-- the checks present in the source NOW: regenerated from /repo's current text by the shape-fact translator
(GenFacts.lean), so a check that disappears from the Go code disappears from the model and from the driver too -/
def Checks.current : Checks :=
  ⟨Gen.srcThresholdsFromParams, Gen.srcVoterEntitled, Gen.srcProposerEntitled, Gen.srcBlsIdentity⟩

inductive Why where
  | consDecode | consSig | thresholds | priority | ucDecode | notEnough
  deriving Repr, DecidableEq

inductive Err where
  | lbcons | invalid (w : Why) | proposer | aggdec | signer | sigmismatch | version | ancestor | sealer | format
  deriving Repr, DecidableEq

inductive Res where
  | ok | err (e : Err) | crash
  deriving Repr, DecidableEq

def u32 (j : Int) : Nat := (j % 4294967296).toNat

/-- three-valued sortition check: `none` = the quantile function panics -/
def sortitionOK (C : Crypto) (key seed role index : Nat) (proof : Option VrfProof)
    (votes t stake total : Nat) : Option Bool :=
  if total = 0 then some false else
  match proofToHash key seed role index proof with
  | none => some false
  | some h =>
    match C.ch h stake t total with
    | none => none
    | some j => some (decide (0 < j) && decide (u32 j = votes))

def entitled (v : Val) : Bool := v.kind == Gen.kindChamber && v.online

/-! ## verifyVotes -/

structure CD where          -- commonData
  enableBls : Bool
  seed : Nat
  payload : Payload
  t : Nat                   -- validatorThreshold
  deriving Repr

structure VState where
  sta : List Nat            -- addresses already counted (staData)
  pubs : List Nat           -- blspubs
  count : Nat               -- uint32 accumulator
  deriving Repr, DecidableEq

inductive Step where
  | cont (s : VState)
  | stop (r : Res)
  deriving Repr, DecidableEq

def count1 (C : Crypto) (cd : CD) (step total : Nat) (st : VState) (val : Val) (mk : Nat) (v : Vote) : Step :=
  match sortitionOK C mk cd.seed step cd.payload.index v.proof v.votes cd.t val.stake total with
  | none => .stop .crash
  | some false => .cont st
  | some true => .cont { st with sta := val.addr :: st.sta, count := (st.count + v.votes) % U32 }

/-- one iteration of the loop of `verifyVotes`, BLS branch -/
def stepBls (ck : Checks) (C : Crypto) (cd : CD) (vs : List Val) (total step : Nat) (st : VState) (v : Vote) : Step :=
  match vs[v.idx]? with
  | none => .stop (.err .signer)
  | some val =>
    match val.blsKey, val.mainKey with
    | none, _ => .stop (.err .signer)
    | some _, none => .stop (.err .signer)
    | some bk, some mk =>
      if ck.voterEntitled && !entitled val then .cont st
      else if st.sta.contains val.addr then .cont st
      else count1 C cd step total { st with pubs := st.pubs ++ [bk] } val mk v

/-- one iteration, secp256k1 branch (EnableBls = false) -/
def stepSecp (ck : Checks) (C : Crypto) (cd : CD) (vs : List Val) (total step : Nat) (st : VState) (v : Vote) : Step :=
  match v.sig with
  | none => .cont st
  | some (k, pl) =>
    match (if pl = cd.payload then vs.find? (fun w => w.mainKey == some k) else none) with
    | none => if ck.voterEntitled then .cont st else .stop .crash      -- nil validator: skipped now, dereferenced before
    | some val =>
      if ck.voterEntitled && !entitled val then .cont st
      else if st.sta.contains val.addr then .cont st
      else count1 C cd step total st val k v

def loop (f : VState → Vote → Step) : List Vote → VState → Step
  | [], st => .cont st
  | v :: vs, st =>
    match f st v with
    | .cont st' => loop f vs st'
    | .stop r => .stop r

/-- is `xs` a permutation of `ys`? -/
def permB : List SigAtom → List SigAtom → Bool
  | [], ys => ys.isEmpty
  | x :: xs, ys => ys.contains x && permB xs (ys.erase x)

/-- `VerifyAggregatedOne(pubs, payload, agg)`, symbolically; `none` = nil dereference in the pairing code -/
def verifyAgg (ck : Checks) (pubs : List Nat) (pl : Payload) (agg : List SigAtom) : Option Bool :=
  if pubs.isEmpty || agg.isEmpty then (if ck.blsIdentity then some false else none)
  else some (permB (pubs.map fun k => (k, pl)) agg)

def verifyVotes (ck : Checks) (C : Crypto) (cd : CD) (lb : LookBack) (votes : List Vote)
    (agg : Option (List SigAtom)) (step : Nat) (isPos : Bool) : Res :=
  if cd.enableBls && agg.isNone then .err .aggdec else
  let vs := lb.sorted
  let f := if cd.enableBls then stepBls ck C cd vs lb.chamberStake step else stepSecp ck C cd vs lb.chamberStake step
  match loop f votes ⟨[], [], 0⟩ with
  | .stop r => r
  | .cont st =>
    if !overThreshold st.count cd.t isPos then .err (.invalid .notEnough)
    else if cd.enableBls then
      match verifyAgg ck st.pubs cd.payload (agg.getD []) with
      | none => .crash
      | some true => .ok
      | some false => .err .sigmismatch
    else .ok

/-! ## verifyConsensusFieldMain -/

def LookBack.byKey (lb : LookBack) : Signer → Option Val
  | .key k => lb.vals.find? (fun w => w.mainKey == some k)
  | _ => none

/-- `VrfVerifyPriority` (none = panic in choose) -/
def priorityOK (C : Crypto) (key seed index : Nat) (c : Cons) (stake total : Nat) : Option Bool :=
  if total % U64 = 0 then some false else
  match proofToHash key seed Gen.stepProposal index c.proof with
  | none => some false
  | some h =>
    match C.ch h stake c.pT total with
    | none => none
    | some j => some (decide (u32 j = c.subUsers) && decide (C.prio h j = c.priority))

def isCertRound (n : Nat) : Bool := decide (0 < n) && n % Gen.acochtFrequency == 0

def verifyMain (ck : Checks) (C : Crypto) (versions : Nat → Option Params) (cp : Params)
    (seedHdr : LbHeader) (lb : LookBack) (certHdr : Option LbHeader) (certLb : LookBack) (h : Header) : Res :=
  match seedHdr.cons with
  | none => .err .lbcons
  | some (seed, _) =>
  match h.cons with
  | none => .err (.invalid .consDecode)
  | some c =>
  if ck.thresholds && !(c.pT == cp.pT && c.vT == cp.vT && c.cT == cp.cT) then .err (.invalid .thresholds) else
  if c.signer == .bad then .err (.invalid .consSig) else
  match lb.byKey c.signer, c.signer with
  | some val, .key k =>
    if ck.proposerEntitled && !(entitled val && decide (0 < c.subUsers)) then .err .proposer else
    match priorityOK C k seed c.roundIndex c val.stake lb.chamberStake with
    | none => .crash
    | some false => .err (.invalid .priority)
    | some true =>
      match h.uc with
      | none => .err (.invalid .ucDecode)
      | some uc =>
        let cd : CD := { enableBls := cp.enableBls, seed := seed, payload := ⟨h.hash, c.round, uc.roundIndex⟩, t := c.vT }
        match verifyVotes ck C cd lb uc.votes uc.agg Gen.stepPrecommit true with
        | .ok =>
          if isCertRound h.number then
            match certHdr with
            | none => .err .lbcons
            | some ch =>
              match ch.cons with
              | none => .err .lbcons
              | some (cseed, ct) =>
                match versions ch.version with
                | none => .err .version
                | some yp =>
                  match h.cert with
                  | none => .err (.invalid .ucDecode)
                  | some cu =>
                    -- NB: the round index stays the one of header.Validator
                    verifyVotes ck C { cd with enableBls := yp.enableBls, seed := cseed, t := ct } certLb cu.votes cu.agg Gen.stepCertificate false
          else .ok
        | r => r
  | _, _ => .err .proposer

/-- `VerifySideChainHeader` -/
def verifySide (ck : Checks) (C : Crypto) (versions : Nat → Option Params) (cp : Params)
    (seedHdr : LbHeader) (lb : LookBack) (certHdr : Option LbHeader) (certLb : LookBack) (h : Header) : Res :=
  if !h.parentOK then .err .ancestor else verifyMain ck C versions cp seedHdr lb certHdr certLb h

/-- `VerifySeal` (`verifySignature`, then `verifyConsensusField` with the look-back data resolved) -/
def verifySeal (ck : Checks) (C : Crypto) (versions : Nat → Option Params) (cp : Params)
    (seedHdr : LbHeader) (lb : LookBack) (certHdr : Option LbHeader) (certLb : LookBack) (h : Header) : Res :=
  match h.cons with
  | none => .err .format
  | some c =>
    if c.signer == .bad then .err (.invalid .consSig)
    else if h.sealSigner == .bad || h.sealSigner == .stranger || h.sealSigner != c.signer then .err .sealer
    else verifyMain ck C versions cp seedHdr lb certHdr certLb h


/-! ## Look-back resolution (`verifyConsensusField`, `getLookBackHeader`, `getLookBackValReader`,
`GetLookBackBlockNumber`) for the entry points that resolve the look-back themselves -/

structure LbCfg where
  seedLookBack : Nat
  stakeLookBack : Nat
  deriving Repr

/-- `GetLookBackBlockNumber`: `num - cfg` when `num > cfg`, else the genesis block -/
def back (n k : Nat) : Nat := if n > k then n - k else 0

structure Heights where
  stake : Nat        -- validator set of the precommit voters and the proposer: LookBackStake
  seed : Nat         -- sortition seed: LookBackSeed
  certSeed : Nat     -- certificate seed: LookBackCertSeed = ACoCHTFrequency
  certStake : Nat    -- certificate validator set: LookBackCertStake = 2 * ACoCHTFrequency
  deriving Repr, DecidableEq

def lookBackHeights (cfg : LbCfg) (n : Nat) : Heights :=
  ⟨back n cfg.stakeLookBack, back n cfg.seedLookBack, back n Gen.acochtFrequency, back n (2 * Gen.acochtFrequency)⟩

/-- the canonical chain as the verifier reads it: the header at a height, and the validator set its ValRoot commits to -/
structure ChainView where
  header : Nat → Option LbHeader
  vals : Nat → Option LookBack

/-- `VerifySeal` / `VerifyHeader(seal)` with the look-back resolved from the chain -/
def verifySealResolved (ck : Checks) (C : Crypto) (versions : Nat → Option Params) (cp : Params) (cfg : LbCfg)
    (chain : ChainView) (h : Header) : Res :=
  let hs := lookBackHeights cfg h.number
  match chain.header hs.seed, chain.vals hs.stake with
  | some seedHdr, some lb =>
    if isCertRound h.number then
      match chain.header hs.certSeed, chain.vals hs.certStake with
      | some ch, some clb => verifySeal ck C versions cp seedHdr lb (some ch) clb h
      | _, _ => .err .ancestor
    else verifySeal ck C versions cp seedHdr lb none ⟨[], 0⟩ h
  | _, _ => .err .ancestor

end YouVerif.C01
