/-
C01 — property theorems. "A block header is accepted only with a protocol-sized quorum of valid precommits."
Statements are about the executable model in Model.lean (tied to /repo by the correspondence harness go/cmd/c01).
-/
import YouVerif.C01.Proofs
namespace YouVerif.C01.Props
open YouVerif.C01

/-- the uint32 accumulator never exceeds the true sum it stands for (wrap-around can only lose weight) -/
theorem count_wrap_harmless (a b : Nat) : (a + b) % U32 ≤ a + b := Nat.mod_le _ _

end YouVerif.C01.Props
