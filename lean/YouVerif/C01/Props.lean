/-
C01 — property theorems (only).
"A block header is accepted only with a protocol-sized quorum of valid precommits."

All statements are about the executable model in Model.lean (`verifySide` = VerifySideChainHeader,
`verifySeal` = VerifySeal, `verifyMain` = verifyConsensusFieldMain, `verifyVotes`, `stepBls` = one iteration of
the vote loop, `quorum`/`overThreshold` = OverThreshold with its float64 arithmetic), run with
`Checks.current` = the checks present in /repo now. The model is tied to /repo by the differential harness
go/cmd/c01 (same crafted headers through the real verifier and through this model); the constants
(`Gen.*`: quorum fractions as float64 bit patterns, step codes, shipped committee sizes) are regenerated
from the linked Go code on every run. Vocabulary (`Entitled`, `CredOK`, `SignedBy`, `ValidBallots`, `weight`,
`ProposerOK`) is in Spec.lean; `Accepted`, `HonestBallots` in Proofs.lean.

Cryptography is symbolic (Model.lean header); `C : Crypto` (the binomial quantile `choose` and
`computePriority`) is universally quantified in every theorem.
-/
import YouVerif.C01.Proofs
import YouVerif.C01.ProofsQuorum
namespace YouVerif.C01.Props
open YouVerif.C01

/-! ## Acceptance is sound -/

/-- **accept_sound.** If `VerifySideChainHeader` accepts a header (BLS configuration, which every shipped version
uses), then: the declared committee sizes are the protocol's; the proposer is an online chamber member of the
look-back set whose credential verifies under the PROTOCOL's proposer size with at least one seat and the
declared priority; and there is a set of pairwise distinct online chamber members of the look-back set, each
holding a valid sortition credential for (look-back seed, precommit step, declared round index) worth exactly
the seats it claims under the PROTOCOL's validator committee size, each having signed
(this block hash, round, index), whose seats add up — as natural numbers, no wrap-around — to at least the
quorum of the PROTOCOL's committee size. Moreover the aggregate contains no signature over anything else. -/
theorem accept_sound {C : Crypto} {versions : Nat → Option Params} {cp : Params} {seedHdr : LbHeader}
    {lb : LookBack} {certHdr : Option LbHeader} {certLb : LookBack} {h : Header} (hb : cp.enableBls = true)
    (hok : verifySide Checks.current C versions cp seedHdr lb certHdr certLb h = .ok) :
    ∃ seed ct c uc a S prop,
      seedHdr.cons = some (seed, ct) ∧ h.cons = some c ∧ h.uc = some uc ∧ uc.agg = some a ∧
      (c.pT = cp.pT ∧ c.vT = cp.vT ∧ c.cT = cp.cT) ∧
      (prop ∈ lb.vals ∧ Entitled prop ∧ ProposerOK C prop seed c cp.pT lb.chamberStake) ∧
      ValidBallots C lb seed Gen.stepPrecommit ⟨h.hash, c.round, uc.roundIndex⟩ cp.vT uc.votes a S ∧
      quorum true cp.vT ≤ weight S ∧ (∀ x ∈ a, x.2 = ⟨h.hash, c.round, uc.roundIndex⟩) := by
  unfold verifySide at hok
  split at hok
  · cases hok
  · exact (verifyMain_sound hb hok).ex

/-- the same through `VerifySeal` (which additionally checks the seal signature) -/
theorem accept_sound_seal {C : Crypto} {versions : Nat → Option Params} {cp : Params} {seedHdr : LbHeader}
    {lb : LookBack} {certHdr : Option LbHeader} {certLb : LookBack} {h : Header} (hb : cp.enableBls = true)
    (hok : verifySeal Checks.current C versions cp seedHdr lb certHdr certLb h = .ok) :
    Accepted C cp seedHdr lb h ∧ ∃ c, h.cons = some c ∧ h.sealSigner = c.signer := by
  unfold verifySeal at hok
  split at hok
  · cases hok
  · rename_i c hc
    split at hok
    · cases hok
    · split at hok
      · cases hok
      · rename_i hs
        refine ⟨verifyMain_sound hb hok, c, hc, ?_⟩
        simp at hs
        exact hs.2

/-- **A header that declares committee sizes other than the protocol's is never accepted** (F-C01a repaired). -/
theorem declared_sizes_must_be_protocol {C : Crypto} {versions : Nat → Option Params} {cp : Params} {seedHdr : LbHeader}
    {lb : LookBack} {certHdr : Option LbHeader} {certLb : LookBack} {h : Header} {c : Cons}
    (hc : h.cons = some c) (hne : c.vT ≠ cp.vT ∨ c.pT ≠ cp.pT ∨ c.cT ≠ cp.cT) :
    verifyMain Checks.current C versions cp seedHdr lb certHdr certLb h ≠ .ok := by
  intro hok
  unfold verifyMain at hok
  split at hok
  · cases hok
  · split at hok
    · cases hok
    · rename_i c' hc'
      have : c' = c := by rw [hc] at hc'; cases hc'; rfl
      subst this
      split at hok
      · cases hok
      · rename_i hthr
        simp [current_eq] at hthr
        rcases hne with h1 | h1 | h1
        · exact h1 hthr.1.2
        · exact h1 hthr.1.1
        · exact h1 hthr.2

/-- `verifyVotes` alone (any step, any quorum fraction): acceptance ⇒ a valid ballot set carrying a quorum. -/
theorem votes_accept_sound {C : Crypto} {cd : CD} {lb : LookBack} {votes : List Vote} {agg : Option (List SigAtom)}
    {step : Nat} {isPos : Bool} (hb : cd.enableBls = true)
    (h : verifyVotes Checks.current C cd lb votes agg step isPos = .ok) :
    ∃ a S, agg = some a ∧ ValidBallots C lb cd.seed step cd.payload cd.t votes a S ∧
      quorum isPos cd.t ≤ weight S ∧ (∀ x ∈ a, x.2 = cd.payload) :=
  verifyVotes_sound_bls hb h

/-- the secp256k1 configuration (EnableBls = false; reachable code, no shipped version uses it): acceptance ⇒ distinct
entitled members, each credentialed and each carrying its own signature over exactly this payload, with a quorum. -/
theorem votes_accept_sound_secp {C : Crypto} {cd : CD} {lb : LookBack} {votes : List Vote} {agg : Option (List SigAtom)}
    {step : Nat} {isPos : Bool} (hb : cd.enableBls = false)
    (h : verifyVotes Checks.current C cd lb votes agg step isPos = .ok) :
    ∃ S, ValidBallotsSecp C lb cd.seed step cd.payload cd.t votes S ∧ quorum isPos cd.t ≤ weight S :=
  verifyVotes_sound_secp hb h

/-- **Certificate rounds** (header number a positive multiple of ACoCHTFrequency): an accepted header additionally
carries a quorum (0.585 fraction) of valid certificate ballots of the certificate look-back set, for the seed and the
committee size recorded on the certificate look-back header (an ancestor that was itself accepted, hence — by
`declared_sizes_must_be_protocol` — declaring the protocol's size), under the BLS setting of that header's version. -/
theorem cert_accept_sound {C : Crypto} {versions : Nat → Option Params} {cp : Params} {seedHdr : LbHeader}
    {lb : LookBack} {certHdr : Option LbHeader} {certLb : LookBack} {h : Header}
    (hok : verifyMain Checks.current C versions cp seedHdr lb certHdr certLb h = .ok)
    (hcert : isCertRound h.number = true) :
    ∃ ch cseed ct yp cu c uc, certHdr = some ch ∧ ch.cons = some (cseed, ct) ∧ versions ch.version = some yp ∧
      h.cert = some cu ∧ h.cons = some c ∧ h.uc = some uc ∧
      (yp.enableBls = true → ∃ a S, cu.agg = some a ∧
        ValidBallots C certLb cseed Gen.stepCertificate ⟨h.hash, c.round, uc.roundIndex⟩ ct cu.votes a S ∧
        quorum false ct ≤ weight S) := by
  obtain ⟨ch, cseed, ct, yp, cu, c, uc, h1, h2, h3, h4, h5, h6, hv⟩ := verifyMain_cert hok hcert
  refine ⟨ch, cseed, ct, yp, cu, c, uc, h1, h2, h3, h4, h5, h6, ?_⟩
  intro hb
  obtain ⟨a, S, ha, hball, hq, _⟩ := verifyVotes_sound_bls (cd := { enableBls := yp.enableBls, seed := cseed, payload := ⟨h.hash, c.round, uc.roundIndex⟩, t := ct }) hb hv
  exact ⟨a, S, ha, hball, hq⟩

/-- **acceptance_uses_stake_height_set.** For the entry points that resolve the look-back themselves (`VerifySeal`,
`VerifyHeader(s)`): if the header at height N is accepted, then the chain has a header at N − SeedLookBack and a
validator set committed at N − StakeLookBack (0 when the chain is shorter), and all of `accept_sound` holds with the seed
of the FORMER and the validator set of the LATTER — the proposer and every counted voter are online chamber members of
the set at the stake look-back height, whatever other sets the chain holds elsewhere. In certificate rounds the
certificate seed is the one at N − ACoCHTFrequency and the certificate voters' set the one at N − 2·ACoCHTFrequency. -/
theorem acceptance_uses_stake_height_set {C : Crypto} {versions : Nat → Option Params} {cp : Params} {cfg : LbCfg}
    {chain : ChainView} {h : Header} (hb : cp.enableBls = true)
    (hok : verifySealResolved Checks.current C versions cp cfg chain h = .ok) :
    ∃ seedHdr lb, chain.header (back h.number cfg.seedLookBack) = some seedHdr ∧
      chain.vals (back h.number cfg.stakeLookBack) = some lb ∧ Accepted C cp seedHdr lb h ∧
      (isCertRound h.number = true → ∃ ch clb, chain.header (back h.number Gen.acochtFrequency) = some ch ∧
        chain.vals (back h.number (2 * Gen.acochtFrequency)) = some clb ∧
        verifySeal Checks.current C versions cp seedHdr lb (some ch) clb h = .ok) := by
  unfold verifySealResolved at hok
  simp only [lookBackHeights] at hok
  split at hok
  · rename_i seedHdr lb hs hl
    refine ⟨seedHdr, lb, hs, hl, ?_, ?_⟩
    · split at hok
      · split at hok
        · exact (accept_sound_seal hb hok).1
        · cases hok
      · exact (accept_sound_seal hb hok).1
    · intro hc
      rw [if_pos hc] at hok
      split at hok
      · rename_i ch clb h1 h2
        exact ⟨ch, clb, h1, h2, hok⟩
      · cases hok
  · cases hok

/-- the look-back heights are the protocol's distances (regenerated certificate period 32768): e.g. block 100 000 under
SeedLookBack 8 / StakeLookBack 128 reads the validators at 99 872, the seed at 99 992; block 65 536 reads its certificate
seed at 32 768 and its certificate validators at the genesis block -/
theorem look_back_heights_examples :
    lookBackHeights ⟨8, 128⟩ 100000 = ⟨99872, 99992, 67232, 34464⟩ ∧
    lookBackHeights ⟨8, 128⟩ 65536 = ⟨65408, 65528, 32768, 0⟩ ∧ lookBackHeights ⟨8, 16⟩ 5 = ⟨0, 0, 0, 0⟩ := by
  decide

/-! ## Votes that contribute nothing -/

/-- **dup_replay_contribute_nothing (duplicates).** A further vote of a member that has already been counted
leaves the counter and the counted set unchanged, whatever it claims. -/
theorem dup_replay_contribute_nothing {C : Crypto} {cd : CD} {vs : List Val} {total step : Nat} {st st' : VState}
    {v : Vote} {val : Val} (hval : vs[v.idx]? = some val) (hdup : val.addr ∈ st.sta)
    (h : stepBls Checks.current C cd vs total step st v = .cont st') :
    st'.count = st.count ∧ st'.sta = st.sta := by
  rcases stepBls_cases h with h1 | ⟨val', _, _, _, hv', _, hn, _⟩
  · exact ⟨h1.2, h1.1⟩
  · rw [hval] at hv'; cases hv'; exact absurd hdup hn

/-- **(replays / wrong block).** A signature made for another block hash, round or round index cannot be part of
an accepted aggregate: if the aggregate contains any signature whose payload is not exactly
(this hash, this round, this index), the votes are rejected. -/
theorem wrong_block_rejected {C : Crypto} {cd : CD} {lb : LookBack} {votes : List Vote} {a : List SigAtom}
    {step : Nat} {isPos : Bool} (hb : cd.enableBls = true) {x : SigAtom} (hx : x ∈ a) (hne : x.2 ≠ cd.payload) :
    verifyVotes Checks.current C cd lb votes (some a) step isPos ≠ .ok := by
  intro hok
  obtain ⟨a', _, ha, _, _, hall⟩ := verifyVotes_sound_bls hb hok
  cases ha
  exact hne (hall x hx)

/-- **wrong_step_or_block_rejected (wrong step / index / seed / key).** A vote whose sortition proof was made
for another step, round index or seed, or by another key than the indexed member's, is not counted. -/
theorem wrong_step_or_block_rejected {C : Crypto} {cd : CD} {vs : List Val} {total step : Nat} {st st' : VState}
    {v : Vote} {val : Val} {q : VrfProof} (hval : vs[v.idx]? = some val) (hq : v.proof = some q)
    (hbad : q.role ≠ step ∨ q.index ≠ cd.payload.index ∨ q.seed ≠ cd.seed ∨ val.mainKey ≠ some q.key)
    (h : stepBls Checks.current C cd vs total step st v = .cont st') :
    st'.count = st.count ∧ st'.sta = st.sta := by
  rcases stepBls_cases h with h1 | ⟨val', mk, hh, _, hv', _, _, hmk, hp, _⟩
  · exact ⟨h1.2, h1.1⟩
  · rw [hval] at hv'; cases hv'
    obtain ⟨q', hq', hk, hs, hr, hi, _⟩ := proofToHash_some hp
    rw [hq] at hq'; cases hq'
    rcases hbad with hb | hb | hb | hb
    · exact absurd hr hb
    · exact absurd hi hb
    · exact absurd hs hb
    · exact absurd (by rw [hmk, hk]) hb

/-- a vote without any valid proof is not counted -/
theorem garbage_proof_rejected {C : Crypto} {cd : CD} {vs : List Val} {total step : Nat} {st st' : VState}
    {v : Vote} (hq : v.proof = none)
    (h : stepBls Checks.current C cd vs total step st v = .cont st') :
    st'.count = st.count ∧ st'.sta = st.sta := by
  rcases stepBls_cases h with h1 | ⟨_, _, _, _, _, _, _, _, hp, _⟩
  · exact ⟨h1.2, h1.1⟩
  · rw [hq] at hp; simp [proofToHash] at hp

/-- **weight_inflation_rejected.** A vote claiming other seats than the quantile of its own VRF output (under the
committee size in use and the member's look-back stake), or whose quantile is 0, is not counted at all. -/
theorem weight_inflation_rejected {C : Crypto} {cd : CD} {vs : List Val} {total step : Nat} {st st' : VState}
    {v : Vote} {val : Val} {q : VrfProof} {j : Int} (hval : vs[v.idx]? = some val) (hq : v.proof = some q)
    (hj : C.ch q.hash val.stake cd.t total = some j) (hbad : j ≤ 0 ∨ u32 j ≠ v.votes)
    (h : stepBls Checks.current C cd vs total step st v = .cont st') :
    st'.count = st.count ∧ st'.sta = st.sta := by
  rcases stepBls_cases h with h1 | ⟨val', mk, hh, j', hv', _, _, _, hp, hj', hpos, hu, _⟩
  · exact ⟨h1.2, h1.1⟩
  · rw [hval] at hv'; cases hv'
    obtain ⟨q', hq', _, _, _, _, hhash⟩ := proofToHash_some hp
    rw [hq] at hq'; cases hq'
    rw [hhash, hj'] at hj; cases hj
    rcases hbad with hb | hb
    · omega
    · exact absurd hu hb

/-- **Non-member, offline and house signers contribute nothing** (F-C01b repaired): an index outside the
look-back list stops verification with an error; a member that is not an online chamber member is skipped. -/
theorem not_entitled_contributes_nothing {C : Crypto} {cd : CD} {vs : List Val} {total step : Nat} {st : VState}
    {v : Vote} :
    (vs[v.idx]? = none → stepBls Checks.current C cd vs total step st v = .stop (.err .signer)) ∧
    (∀ val st', vs[v.idx]? = some val → ¬ Entitled val →
      stepBls Checks.current C cd vs total step st v = .cont st' → st'.count = st.count ∧ st'.sta = st.sta) := by
  constructor
  · intro hn; unfold stepBls; simp [hn]
  · intro val st' hval hne h
    rcases stepBls_cases h with h1 | ⟨val', _, _, _, hv', he, _⟩
    · exact ⟨h1.2, h1.1⟩
    · rw [hval] at hv'; cases hv'; exact absurd he hne

/-! ## The uint32 accumulator -/

/-- **count_wrap_harmless.** The accumulator is the true weight modulo 2^32, hence never above it: wrap-around can
only lose weight, it can never help a header over the quorum (this is the step used inside `accept_sound`,
whose conclusion is about the un-wrapped sum). -/
theorem count_wrap_harmless {C : Crypto} {cd : CD} {lb : LookBack} {step : Nat} {all : List Vote} {st : VState}
    {S : List (Val × Vote)} (hinv : Inv C cd lb step all st S) : st.count ≤ weight S := by
  rw [hinv.count]; exact Nat.mod_le _ _

/-- the other direction does fail in the model: two honest members with 2^31 seats each wrap the counter to 0 and
an honest header is rejected. (Seats never exceed the member's stake, so this needs ≥ 2^32 units of online
chamber stake AND a committee size of that order; the protocol's sizes are 26/2000/4000.) -/
theorem count_wrap_can_reject_counterexample :
    let C : Crypto := { ch := fun _ _ _ _ => some 2147483648, prio := fun _ _ => 0 }
    let v1 : Val := ⟨1, 5000000000, 0, 1, true, some 1, some 1⟩
    let v2 : Val := ⟨2, 4000000000, 0, 1, true, some 2, some 2⟩
    let lb : LookBack := ⟨[v1, v2], 9000000000⟩
    let pl : Payload := ⟨7, 1, 1⟩
    let cd : CD := ⟨true, 9, pl, 2000⟩
    let votes : List Vote := [⟨0, 2147483648, some ⟨1, 9, 3, 1, 11⟩, none⟩, ⟨1, 2147483648, some ⟨2, 9, 3, 1, 12⟩, none⟩]
    verifyVotes Checks.current C cd lb votes (some [(1, pl), (2, pl)]) 3 true = .err (.invalid .notEnough) := by
  decide

/-! ## Honest headers verify -/

/-- **builder_header_accepted.** What honest participants produce is accepted by `VerifySideChainHeader`: the
proposer is an entitled member with a valid credential under the protocol's sizes, the declared sizes are the
protocol's, every ballot is an entitled member's genuine vote (packed in any order, aggregate = exactly their
signatures), the weight reaches the quorum and stays below 2^32. (Rounds without a certificate.) -/
theorem builder_header_accepted {C : Crypto} {versions : Nat → Option Params} {cp : Params} {seedHdr : LbHeader}
    {lb : LookBack} {certHdr : Option LbHeader} {certLb : LookBack} {h : Header}
    {seed ct ri : Nat} {c : Cons} {prop : Val} {S : List (Val × Vote)}
    (hb : cp.enableBls = true) (hpar : h.parentOK = true) (hseed : seedHdr.cons = some (seed, ct)) (hc : h.cons = some c)
    (hT : c.pT = cp.pT ∧ c.vT = cp.vT ∧ c.cT = cp.cT)
    (hprop : lb.byKey c.signer = some prop) (hE : Entitled prop)
    (hP : ProposerOK C prop seed c cp.pT lb.chamberStake) (htot : lb.chamberStake % U64 ≠ 0)
    (huc : h.uc = some ⟨ri, S.map (·.2), some ((blsKeys S).map fun k => (k, ⟨h.hash, c.round, ri⟩))⟩)
    (hS : S ≠ []) (hh : HonestBallots C lb seed Gen.stepPrecommit ⟨h.hash, c.round, ri⟩ cp.vT S)
    (hq : quorum true cp.vT ≤ weight S) (hw : weight S < U32) (hcert : isCertRound h.number = false) :
    verifySide Checks.current C versions cp seedHdr lb certHdr certLb h = .ok := by
  unfold verifySide
  simp only [hpar, Bool.not_true, Bool.false_eq_true, if_false]
  exact verifyMain_honest hb hseed hc hT hprop hE hP htot huc hS hh hq hw hcert

/-- vote-list level, any step and fraction (covers certificates) -/
theorem honest_votes_accepted {C : Crypto} {cd : CD} {lb : LookBack} {step : Nat} {isPos : Bool}
    {S : List (Val × Vote)} (hb : cd.enableBls = true) (hS : S ≠ [])
    (hh : HonestBallots C lb cd.seed step cd.payload cd.t S)
    (hq : quorum isPos cd.t ≤ weight S) (hw : weight S < U32) :
    verifyVotes Checks.current C cd lb (S.map (·.2)) (some ((blsKeys S).map fun k => (k, cd.payload))) step isPos = .ok :=
  verifyVotes_honest hb hS hh hq hw

/-! ## The quorum itself (exact float64 model of `uint32(float64(T) * 0.685)`) -/

/-- every shipped version of every network: 2000 seats → quorum 1370, certificates 4000 → 2340, proposer size 26,
BLS enabled (decided over the table regenerated from `params.Versions`) -/
theorem shipped_quorums :
    Gen.shipped.all (fun e => e.2.2.1 == true && e.2.2.2.1 == 26 &&
      quorum true e.2.2.2.2.1 == 1370 && quorum false e.2.2.2.2.2 == 2340) = true := by
  decide

/-- **quorum_exact.** For EVERY committee size a uint32 can hold, the float64 computation
`uint32(float64(T) * 0.685)` of `OverThreshold` equals the exact rational floor ⌊0.685·T⌋ = ⌊137·T/200⌋; the certificate
quorum `uint32(float64(T) * 0.585)` is ⌊0.585·T⌋ or one seat less (the float64 nearest to 0.585 lies below it).
The proof shows that `roundSig53` is a correct round-to-nearest (ProofsQuorum.lean, ported from the C03 owner's
`quorum_float_exact`) and is about the mantissas regenerated from the Go constants: another constant breaks it. -/
theorem quorum_exact (t : Nat) (ht : t < U32) :
    quorum true t = 137 * t / 200 ∧ quorum false t ≤ 117 * t / 200 ∧ 117 * t / 200 ≤ quorum false t + 1 := by
  have h1 := quorum685_exact t ht
  have h2 := quorum585_bounds t ht
  refine ⟨by omega, by omega, by omega⟩

/-- "one seat less" does occur: committee size 3400 gives a certificate quorum of 1988, not ⌊0.585·3400⌋ = 1989
(first such size; the shipped size 4000 gives exactly 2340, see `shipped_quorums`) -/
theorem cert_quorum_off_by_one : quorum false 3400 = 1988 ∧ 117 * 3400 / 200 = 1989 := by
  decide

/-- the precommit quorum is 0 exactly for the committee sizes 0 and 1: every size ≥ 2 needs at least one valid vote -/
theorem quorum_zero_only_below_two (t : Nat) (ht : t < U32) : quorum true t = 0 ↔ t ≤ 1 := by
  rw [(quorum_exact t ht).1]
  omega

/-! ## The source still has the shape the model was written against -/

/-- **source_shape_ok.** Every syntactic fact the model relies on holds of the CURRENT Go source (regenerated by the
go/ast translator go/cmd/c01/gen.go on every run): the four repaired checks — which also define `Checks.current`, the
configuration all theorems above are about —, the duplicate-signer check, the order of the vote loop (duplicate check,
sortition check, skip on failure, mark, `count += v.Votes`), the arguments of `VrfVerifySortition` / `VrfVerifyPriority`
(seed, round index, step, threshold, look-back stake, chamber stake), the seat check `uint32(j) != subUsers` and `j <= 0`,
the steps and kinds passed to `verifyVotes` (precommit/chamber/0.685, certificate/chamber/0.585), the `commonData` fields,
the `OverThreshold` gate and its `>=` comparison, the aggregate check and its payload, the certificate-round switch, and the
look-back resolution (which look-back type is passed where, and the distance each type stands for). -/
theorem source_shape_ok :
    Gen.sourceFacts.all (·.2) = true ∧ Gen.sourceFacts.length = 20 ∧ Checks.current = ⟨true, true, true, true⟩ :=
  ⟨by decide, by decide, current_eq⟩

/-! ## The defects that were repaired: each missing check makes the property false (model witnesses;
the same witnesses were replayed on the real verifier before the repair, see corpus/C01) -/

section legacy
/-- one small world: two chamber members, one house member, one offline chamber member; every VRF output is worth
1000 seats except hash 13 (0 seats) and committee sizes ≤ 1 -/
def wC : Crypto := { ch := fun h _ t _ => some (if t ≤ 1 then 0 else if h = 13 then 0 else 1000), prio := fun _ _ => 5 }
def wLb : LookBack := ⟨[⟨1, 9000, 0, 1, true, some 1, some 1⟩, ⟨2, 8000, 0, 1, true, some 2, some 2⟩,
                        ⟨3, 7000, 0, 2, true, some 3, some 3⟩, ⟨4, 6000, 0, 1, false, some 4, some 4⟩], 17000⟩
def wCp : Params := ⟨true, 26, 2000, 4000⟩
def wSeed : LbHeader := ⟨some (9, 4000), 1⟩
def wPl : Payload := ⟨7, 100, 1⟩
def wNoV : Nat → Option Params := fun _ => none
/-- consensus data of proposer 1 (selected, 1000 sub-users) declaring validator committee size `vT` -/
def wCons (vT : Nat) : Cons := ⟨100, 1, 0, some ⟨1, 9, 1, 1, 11⟩, 5, 1000, 26, vT, 4000, .key 1⟩
def wHeader (c : Cons) (votes : List Vote) (agg : List SigAtom) : Header :=
  ⟨100, 7, some c, some ⟨1, votes, some agg⟩, none, c.signer, true⟩
/-- precommit of the member at sorted position `i` holding key `k` (VRF output `h`), claiming 1000 seats -/
def wVote (i k h : Nat) : Vote := ⟨i, 1000, some ⟨k, 9, 3, 1, h⟩, none⟩
def wRun (ck : Checks) (h : Header) : Res := verifyMain ck wC wNoV wCp wSeed wLb none ⟨[], 0⟩ h

/-- F-C01a: without the threshold check a header declaring committee size 3 is accepted with ONE vote;
the current verifier rejects it -/
theorem legacy_declared_threshold_counterexample :
    wRun ⟨false, true, true, true⟩ (wHeader (wCons 3) [wVote 0 1 11] [(1, wPl)]) = .ok ∧
    wRun Checks.current (wHeader (wCons 3) [wVote 0 1 11] [(1, wPl)]) = .err (.invalid .thresholds) := by
  decide

/-- F-C01b: without the entitlement check the house member (position 2) and the offline member (position 3)
alone carry a block -/
theorem legacy_not_entitled_counterexample :
    wRun ⟨true, false, true, true⟩ (wHeader (wCons 2000) [wVote 2 3 11, wVote 3 4 12] [(3, wPl), (4, wPl)]) = .ok ∧
    wRun Checks.current (wHeader (wCons 2000) [wVote 2 3 11, wVote 3 4 12] [(3, wPl), (4, wPl)])
      = .err (.invalid .notEnough) := by
  decide

/-- F-C01c: without the proposer check the house member, NOT selected (VRF output 13 is worth 0 seats), proposes
with 0 declared sub-users -/
theorem legacy_proposer_counterexample :
    let c : Cons := ⟨100, 1, 0, some ⟨3, 9, 1, 1, 13⟩, 5, 0, 26, 2000, 4000, .key 3⟩
    wRun ⟨true, true, false, true⟩ (wHeader c [wVote 0 1 11, wVote 1 2 12] [(1, wPl), (2, wPl)]) = .ok ∧
    wRun Checks.current (wHeader c [wVote 0 1 11, wVote 1 2 12] [(1, wPl), (2, wPl)]) = .err .proposer := by
  decide

/-- F-C01d: without the identity guard the identity aggregate makes the verifier panic after the votes were counted -/
theorem legacy_identity_aggregate_counterexample :
    wRun ⟨true, true, true, false⟩ (wHeader (wCons 2000) [wVote 0 1 11, wVote 1 2 12] []) = .crash ∧
    wRun Checks.current (wHeader (wCons 2000) [wVote 0 1 11, wVote 1 2 12] []) = .err .sigmismatch := by
  decide
end legacy

/-! ## Non-vacuity: the hypotheses of the theorems above are met by concrete, non-trivial instances -/

/-- an accepted header exists (two distinct voters, 2000 seats ≥ 1370), so `accept_sound` is not vacuous -/
example : verifySide Checks.current wC wNoV wCp wSeed wLb none ⟨[], 0⟩
    (wHeader (wCons 2000) [wVote 0 1 11, wVote 1 2 12] [(2, wPl), (1, wPl)]) = .ok := by
  decide

/-- … and the same header with the second vote replaced by a duplicate of the first is rejected (test) -/
example : verifySide Checks.current wC wNoV wCp wSeed wLb none ⟨[], 0⟩
    (wHeader (wCons 2000) [wVote 0 1 11, wVote 0 1 11] [(1, wPl)]) = .err (.invalid .notEnough) := by
  decide

/-- … as is the one whose second signature was made for another block hash (test) -/
example : verifySide Checks.current wC wNoV wCp wSeed wLb none ⟨[], 0⟩
    (wHeader (wCons 2000) [wVote 0 1 11, wVote 1 2 12] [(1, wPl), (2, ⟨8, 100, 1⟩)]) = .err .sigmismatch := by
  decide

/-- `acceptance_uses_stake_height_set` is not vacuous, and the set matters: a chain holding the world's set at the stake
look-back height (100 − 16 = 84) and ANOTHER set (members 1 and 2 offline) at the seed height (92) accepts the header
voted by members 1 and 2; with the two sets swapped the same header is rejected (test) -/
example :
    let off : LookBack := ⟨[⟨1, 9000, 0, 1, false, some 1, some 1⟩, ⟨2, 8000, 0, 1, false, some 2, some 2⟩,
                            ⟨3, 7000, 0, 1, true, some 3, some 3⟩], 7000⟩
    let hdr := wHeader (wCons 2000) [wVote 0 1 11, wVote 1 2 12] [(1, wPl), (2, wPl)]
    let good : ChainView := { header := fun n => if n = 92 then some wSeed else if n = 84 then some ⟨some (5, 4000), 1⟩ else none,
                              vals := fun n => if n = 92 then some off else if n = 84 then some wLb else none }
    let swapped : ChainView := { good with vals := fun n => if n = 92 then some wLb else if n = 84 then some off else none }
    verifySealResolved Checks.current wC wNoV wCp ⟨8, 16⟩ good hdr = .ok ∧
    verifySealResolved Checks.current wC wNoV wCp ⟨8, 16⟩ swapped hdr = .err .proposer := by
  decide

/-- hypotheses of `dup_replay_contribute_nothing` / `wrong_step_or_block_rejected` / `weight_inflation_rejected` are
satisfiable: a state in which member 1 is counted, and a second, inflated vote of member 1 -/
example : stepBls Checks.current wC ⟨true, 9, wPl, 2000⟩ wLb.sorted 17000 3 ⟨[1], [1], 1000⟩
    ⟨0, 99999, some ⟨1, 9, 3, 1, 11⟩, none⟩ = .cont ⟨[1], [1], 1000⟩ ∧
    wLb.sorted[0]? = some ⟨1, 9000, 0, 1, true, some 1, some 1⟩ := by
  decide

/-- the hypotheses of `builder_header_accepted` hold of the accepted header above: its ballots are honest -/
example : HonestBallots wC wLb 9 Gen.stepPrecommit wPl 2000
    [(⟨1, 9000, 0, 1, true, some 1, some 1⟩, wVote 0 1 11), (⟨2, 8000, 0, 1, true, some 2, some 2⟩, wVote 1 2 12)] :=
  ⟨by decide, by decide, by decide, by simp [Entitled, Gen.kindChamber],
   by
    intro p hp
    simp only [List.mem_cons, List.mem_nil_iff, or_false] at hp
    rcases hp with rfl | rfl
    · exact ⟨1, 11, 1000, rfl, by decide, rfl, by decide, by decide⟩
    · exact ⟨2, 12, 1000, rfl, by decide, rfl, by decide, by decide⟩,
   by decide⟩

end YouVerif.C01.Props
