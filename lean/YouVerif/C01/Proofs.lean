/- C01 — helper lemmas for Props.lean -/
import YouVerif.C01.Model
namespace YouVerif.C01
end YouVerif.C01
