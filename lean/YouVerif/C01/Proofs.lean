/- C01 — helper lemmas for Props.lean -/
import YouVerif.C01.Spec
namespace YouVerif.C01

/-- all four repaired checks are present in the current source (breaks when the regenerated GenFacts says otherwise) -/
theorem current_eq : Checks.current = ⟨true, true, true, true⟩ := rfl

/-! ### sorting -/

theorem mem_insertDesc {v x : Val} {l : List Val} : x ∈ insertDesc v l ↔ x = v ∨ x ∈ l := by
  induction l with
  | nil => simp [insertDesc]
  | cons w ws ih =>
    unfold insertDesc
    split
    · simp
    · simp [ih]; constructor
      · rintro (h | h | h) <;> simp [h]
      · rintro (h | h | h) <;> simp [h]

theorem mem_sortDesc {x : Val} {l : List Val} : x ∈ sortDesc l ↔ x ∈ l := by
  induction l with
  | nil => simp [sortDesc]
  | cons v vs ih => simp [sortDesc, mem_insertDesc, ih]

theorem mem_vals_of_sorted_get {lb : LookBack} {i : Nat} {v : Val} (h : lb.sorted[i]? = some v) : v ∈ lb.vals := by
  have : v ∈ lb.sorted := List.mem_of_getElem? h
  exact mem_sortDesc.1 this

/-! ### aggregate check -/

theorem permB_mem {xs ys : List SigAtom} (h : permB xs ys = true) : ∀ x ∈ xs, x ∈ ys := by
  induction xs generalizing ys with
  | nil => intro x hx; cases hx
  | cons a as ih =>
    simp only [permB, Bool.and_eq_true] at h
    intro x hx
    cases hx with
    | head => exact List.contains_iff_mem.1 h.1 |> fun m => by simpa using m
    | tail _ hx' => exact List.mem_of_mem_erase (ih h.2 x hx')

theorem permB_length {xs ys : List SigAtom} (h : permB xs ys = true) : xs.length = ys.length := by
  induction xs generalizing ys with
  | nil => simp [permB] at h; simp [h]
  | cons a as ih =>
    simp only [permB, Bool.and_eq_true] at h
    have hm : a ∈ ys := by simpa using h.1
    have := ih h.2
    rw [List.length_erase_of_mem hm] at this
    have hp : 0 < ys.length := List.length_pos_of_mem hm
    simp; omega

theorem verifyAgg_true {ck : Checks} {pubs : List Nat} {pl : Payload} {agg : List SigAtom}
    (h : verifyAgg ck pubs pl agg = some true) : ∀ k ∈ pubs, (k, pl) ∈ agg := by
  unfold verifyAgg at h
  split at h
  · split at h <;> simp at h
  · simp only [Option.some.injEq] at h
    intro k hk
    exact permB_mem h (k, pl) (List.mem_map.2 ⟨k, hk, rfl⟩)

/-- an accepted aggregate contains nothing but signatures over this very payload -/
theorem verifyAgg_only_payload {ck : Checks} {pubs : List Nat} {pl : Payload} {agg : List SigAtom}
    (h : verifyAgg ck pubs pl agg = some true) : ∀ a ∈ agg, a.2 = pl := by
  unfold verifyAgg at h
  split at h
  · split at h <;> simp at h
  · simp only [Option.some.injEq] at h
    -- a permutation of a list all of whose payloads are `pl`
    have key : ∀ (xs ys : List SigAtom), permB xs ys = true → (∀ x ∈ xs, x.2 = pl) → ∀ y ∈ ys, y.2 = pl := by
      intro xs
      induction xs with
      | nil => intro ys h _ y hy; simp [permB] at h; simp [h] at hy
      | cons a as ih =>
        intro ys h hx y hy
        simp only [permB, Bool.and_eq_true] at h
        by_cases hya : y = a
        · exact hya ▸ hx a (List.mem_cons_self)
        · have : y ∈ ys.erase a := (List.mem_erase_of_ne hya).2 hy
          exact ih _ h.2 (fun x hx' => hx x (List.mem_cons_of_mem _ hx')) y this
    exact key _ _ h (by intro x hx; obtain ⟨k, _, rfl⟩ := List.mem_map.1 hx; rfl)

/-! ### the vote loop, BLS branch, with the checks that exist now -/

/-- loop invariant: the accumulator state is explained by a list of valid, distinct, entitled ballots -/
structure Inv (C : Crypto) (cd : CD) (lb : LookBack) (step : Nat) (all : List Vote) (st : VState) (S : List (Val × Vote)) : Prop where
  sta : st.sta = S.map (·.1.addr)
  distinct : (S.map (·.1.addr)).Nodup
  count : st.count = weight S % U32
  member : ∀ p ∈ S, lb.sorted[p.2.idx]? = some p.1 ∧ p.1 ∈ lb.vals ∧ p.2 ∈ all
  entitled : ∀ p ∈ S, Entitled p.1
  cred : ∀ p ∈ S, CredOK C p.1 cd.seed step cd.payload.index p.2.proof p.2.votes cd.t lb.chamberStake
  pubs : ∀ p ∈ S, ∃ bk, p.1.blsKey = some bk ∧ bk ∈ st.pubs

theorem entitled_iff {v : Val} : entitled v = true ↔ Entitled v := by
  simp [entitled, Entitled]

theorem sortitionOK_true {C : Crypto} {key seed role index : Nat} {proof : Option VrfProof} {votes t stake total : Nat}
    (h : sortitionOK C key seed role index proof votes t stake total = some true) :
    ∃ hh j, proofToHash key seed role index proof = some hh ∧ C.ch hh stake t total = some j ∧ 0 < j ∧ u32 j = votes := by
  unfold sortitionOK at h
  split at h
  · simp at h
  · split at h
    · simp at h
    · rename_i hh hp
      split at h
      · simp at h
      · rename_i j hj
        simp only [Option.some.injEq, Bool.and_eq_true, decide_eq_true_eq] at h
        exact ⟨hh, j, hp, hj, h.1, h.2⟩

theorem weight_cons (p : Val × Vote) (S : List (Val × Vote)) : weight (p :: S) = p.2.votes + weight S := by
  simp [weight]

theorem stepBls_inv {C : Crypto} {cd : CD} {lb : LookBack} {step : Nat} {all : List Vote}
    {st st' : VState} {S : List (Val × Vote)} {v : Vote}
    (hinv : Inv C cd lb step all st S) (hv : v ∈ all)
    (h : stepBls Checks.current C cd lb.sorted lb.chamberStake step st v = .cont st') :
    ∃ S', Inv C cd lb step all st' S' := by
  unfold stepBls at h
  split at h
  · cases h
  · rename_i val hval
    split at h
    · cases h
    · cases h
    · rename_i bk mk hbk hmk
      split at h
      · cases h; exact ⟨S, hinv⟩
      · rename_i hent
        split at h
        · cases h; exact ⟨S, hinv⟩
        · rename_i hdup
          unfold count1 at h
          split at h
          · cases h
          · -- sortition failed: only the key list grows
            cases h
            refine ⟨S, ⟨hinv.sta, hinv.distinct, hinv.count, hinv.member, hinv.entitled, hinv.cred, ?_⟩⟩
            intro p hp
            obtain ⟨b, hb, hm⟩ := hinv.pubs p hp
            exact ⟨b, hb, by simp [hm]⟩
          · rename_i hs
            cases h
            obtain ⟨hh, j, hp, hj, hpos, hu⟩ := sortitionOK_true hs
            have hent' : Entitled val := by
              have : entitled val = true := by
                simp [current_eq] at hent; exact hent
              exact entitled_iff.1 this
            have hnot : val.addr ∉ S.map (·.1.addr) := by
              rw [← hinv.sta]; simpa using hdup
            refine ⟨(val, v) :: S, ⟨?_, ?_, ?_, ?_, ?_, ?_, ?_⟩⟩
            · simp [hinv.sta]
            · simp only [List.map_cons, List.nodup_cons]; exact ⟨hnot, hinv.distinct⟩
            · show (st.count + v.votes) % U32 = weight ((val, v) :: S) % U32
              rw [weight_cons, hinv.count, Nat.mod_add_mod, Nat.add_comm]
            · intro p hp
              cases hp with
              | head => exact ⟨hval, mem_vals_of_sorted_get hval, hv⟩
              | tail _ hp' => exact hinv.member p hp'
            · intro p hp
              cases hp with
              | head => exact hent'
              | tail _ hp' => exact hinv.entitled p hp'
            · intro p hp
              cases hp with
              | head => exact ⟨mk, hh, j, hmk, hp, hj, hpos, hu⟩
              | tail _ hp' => exact hinv.cred p hp'
            · intro p hp
              cases hp with
              | head => exact ⟨bk, hbk, by simp⟩
              | tail _ hp' =>
                obtain ⟨b, hb, hm⟩ := hinv.pubs p hp'
                exact ⟨b, hb, by simp [hm]⟩

theorem loop_inv {C : Crypto} {cd : CD} {lb : LookBack} {step : Nat} {all : List Vote} :
    ∀ (vs : List Vote) (st st' : VState) (S : List (Val × Vote)),
      Inv C cd lb step all st S → (∀ v ∈ vs, v ∈ all) →
      loop (stepBls Checks.current C cd lb.sorted lb.chamberStake step) vs st = .cont st' →
      ∃ S', Inv C cd lb step all st' S' := by
  intro vs
  induction vs with
  | nil => intro st st' S hinv _ h; simp [loop] at h; cases h; exact ⟨S, hinv⟩
  | cons v vs ih =>
    intro st st' S hinv hall h
    simp only [loop] at h
    split at h
    · rename_i st1 hst1
      obtain ⟨S1, hinv1⟩ := stepBls_inv hinv (hall v List.mem_cons_self) hst1
      exact ih st1 st' S1 hinv1 (fun w hw => hall w (List.mem_cons_of_mem _ hw)) h
    · cases h

theorem inv_init (C : Crypto) (cd : CD) (lb : LookBack) (step : Nat) (all : List Vote) :
    Inv C cd lb step all ⟨[], [], 0⟩ [] :=
  ⟨rfl, by simp, by simp [weight], by simp, by simp, by simp, by simp⟩


theorem quorum_le_of_over {count t : Nat} {isPos : Bool} (h : overThreshold count t isPos = true) : quorum isPos t ≤ count := by
  simpa [overThreshold] using h

/-- `verifyVotes` (BLS branch, current checks): acceptance ⇒ a valid ballot set with a quorum of seats -/
theorem verifyVotes_sound_bls {C : Crypto} {cd : CD} {lb : LookBack} {votes : List Vote} {agg : Option (List SigAtom)}
    {step : Nat} {isPos : Bool} (hb : cd.enableBls = true)
    (h : verifyVotes Checks.current C cd lb votes agg step isPos = .ok) :
    ∃ a S, agg = some a ∧ ValidBallots C lb cd.seed step cd.payload cd.t votes a S ∧
      quorum isPos cd.t ≤ weight S ∧ (∀ x ∈ a, x.2 = cd.payload) := by
  unfold verifyVotes at h
  simp only [hb, Bool.true_and, if_true] at h
  split at h
  · cases h
  · rename_i hagg
    obtain ⟨a, rfl⟩ : ∃ a, agg = some a := by
      cases agg with
      | none => simp at hagg
      | some a => exact ⟨a, rfl⟩
    split at h
    · rename_i r hr; -- the loop stopped with an error/crash: not ok … unless r = ok, which a stop never is
      exact absurd h (by
        intro hk; subst hk
        -- a `stop` result is never `.ok`
        have : ∀ (vs : List Vote) (st : VState),
            loop (stepBls Checks.current C cd lb.sorted lb.chamberStake step) vs st ≠ .stop .ok := by
          intro vs
          induction vs with
          | nil => intro st; simp [loop]
          | cons v vs ih =>
            intro st
            simp only [loop]
            split
            · exact ih _
            · rename_i r' hr'
              intro hc; cases hc
              -- stepBls never stops with ok
              unfold stepBls at hr'
              split at hr'
              · cases hr'
              · split at hr'
                · cases hr'
                · cases hr'
                · split at hr'
                  · cases hr'
                  · split at hr'
                    · cases hr'
                    · unfold count1 at hr'
                      split at hr' <;> cases hr'
        exact this _ _ hr)
    · rename_i st hst
      obtain ⟨S, hinv⟩ := loop_inv votes _ st [] (inv_init C cd lb step votes) (fun v hv => hv) hst
      split at h
      · cases h
      · rename_i hover
        split at h
        · cases h
        · rename_i hv
          have hq : quorum isPos cd.t ≤ st.count := quorum_le_of_over (by simpa using hover)
          have hmem := verifyAgg_true hv
          refine ⟨a, S, rfl, ⟨hinv.distinct, hinv.member, hinv.entitled, hinv.cred, ?_⟩, ?_, ?_⟩
          · intro p hp
            obtain ⟨bk, hbk, hm⟩ := hinv.pubs p hp
            exact ⟨bk, hbk, by simpa using hmem bk hm⟩
          · rw [hinv.count] at hq
            exact Nat.le_trans hq (Nat.mod_le _ _)
          · simpa using verifyAgg_only_payload hv
        · cases h


theorem priorityOK_true {C : Crypto} {k seed index : Nat} {c : Cons} {stake total : Nat}
    (h : priorityOK C k seed index c stake total = some true) :
    ∃ hh j, proofToHash k seed Gen.stepProposal index c.proof = some hh ∧ C.ch hh stake c.pT total = some j ∧
      u32 j = c.subUsers ∧ C.prio hh j = c.priority := by
  unfold priorityOK at h
  split at h
  · simp at h
  · split at h
    · simp at h
    · rename_i hh hp
      split at h
      · simp at h
      · rename_i j hj
        simp only [Option.some.injEq, Bool.and_eq_true, decide_eq_true_eq] at h
        exact ⟨hh, j, hp, hj, h.1, h.2⟩

theorem byKey_some {lb : LookBack} {s : Signer} {v : Val} (h : lb.byKey s = some v) :
    ∃ k, s = .key k ∧ v ∈ lb.vals ∧ v.mainKey = some k := by
  cases s with
  | bad => simp [LookBack.byKey] at h
  | stranger => simp [LookBack.byKey] at h
  | key k =>
    simp only [LookBack.byKey] at h
    refine ⟨k, rfl, List.mem_of_find?_eq_some h, ?_⟩
    have := List.find?_some h
    simpa using this

/-- what `verifyMain` establishes before it looks at the certificate: the header-level acceptance facts -/
structure Accepted (C : Crypto) (cp : Params) (seedHdr : LbHeader) (lb : LookBack) (h : Header) : Prop where
  ex : ∃ seed ct c uc a S prop,
    seedHdr.cons = some (seed, ct) ∧ h.cons = some c ∧ h.uc = some uc ∧ uc.agg = some a ∧
    (c.pT = cp.pT ∧ c.vT = cp.vT ∧ c.cT = cp.cT) ∧
    (prop ∈ lb.vals ∧ Entitled prop ∧ ProposerOK C prop seed c cp.pT lb.chamberStake) ∧
    ValidBallots C lb seed Gen.stepPrecommit ⟨h.hash, c.round, uc.roundIndex⟩ cp.vT uc.votes a S ∧
    quorum true cp.vT ≤ weight S ∧ (∀ x ∈ a, x.2 = ⟨h.hash, c.round, uc.roundIndex⟩)

theorem verifyMain_sound {C : Crypto} {versions : Nat → Option Params} {cp : Params} {seedHdr : LbHeader}
    {lb : LookBack} {certHdr : Option LbHeader} {certLb : LookBack} {h : Header} (hb : cp.enableBls = true)
    (hok : verifyMain Checks.current C versions cp seedHdr lb certHdr certLb h = .ok) :
    Accepted C cp seedHdr lb h := by
  unfold verifyMain at hok
  split at hok
  · cases hok
  · rename_i seed ct hseed
    split at hok
    · cases hok
    · rename_i c hc
      split at hok
      · cases hok
      · rename_i hthr
        split at hok
        · cases hok
        · split at hok
          · rename_i val k hval hsig
            split at hok
            · cases hok
            · rename_i hent
              split at hok
              · cases hok
              · cases hok
              · rename_i hprio
                split at hok
                · cases hok
                · rename_i uc huc
                  -- the precommit verdict must be ok
                  dsimp only at hok
                  have hvv : verifyVotes Checks.current C
                      { enableBls := cp.enableBls, seed := seed, payload := ⟨h.hash, c.round, uc.roundIndex⟩, t := c.vT }
                      lb uc.votes uc.agg Gen.stepPrecommit true = .ok := by
                    cases hvv' : verifyVotes Checks.current C
                      { enableBls := cp.enableBls, seed := seed, payload := ⟨h.hash, c.round, uc.roundIndex⟩, t := c.vT }
                      lb uc.votes uc.agg Gen.stepPrecommit true with
                    | ok => rfl
                    | err e => rw [hvv'] at hok; simp at hok
                    | crash => rw [hvv'] at hok; simp at hok
                  obtain ⟨a, S, hagg, hball, hq, hpl⟩ := verifyVotes_sound_bls (cd := { enableBls := cp.enableBls, seed := seed, payload := ⟨h.hash, c.round, uc.roundIndex⟩, t := c.vT }) hb hvv
                  obtain ⟨hh, j, hp, hj, hu, hpr⟩ := priorityOK_true hprio
                  obtain ⟨k', hk', hmem, hmk⟩ := byKey_some hval
                  have hkk : k' = k := by rw [hsig] at hk'; cases hk'; rfl
                  subst hkk
                  have hT : c.pT = cp.pT ∧ c.vT = cp.vT ∧ c.cT = cp.cT := by
                    simp [current_eq] at hthr; exact ⟨hthr.1.1, hthr.1.2, hthr.2⟩
                  have hE : entitled val = true ∧ 0 < c.subUsers := by
                    simp [current_eq] at hent; exact ⟨hent.1, Nat.pos_of_ne_zero hent.2⟩
                  refine ⟨seed, ct, c, uc, a, S, val, hseed, hc, huc, hagg, hT, ⟨hmem, entitled_iff.1 hE.1, ?_⟩, ?_, ?_, hpl⟩
                  · exact ⟨k', hh, j, hmk, hsig, hp, hT.1 ▸ hj, hE.2, hu, hpr⟩
                  · simpa [hT.2.1] using hball
                  · simpa [hT.2.1] using hq
          · cases hok


/-! ### which votes move the counter (BLS branch, current checks) -/

/-- a vote that is processed without stopping either leaves the counter and the counted set alone, or it is
the first vote of an entitled member with a valid credential for exactly the claimed seats -/
theorem stepBls_cases {C : Crypto} {cd : CD} {vs : List Val} {total step : Nat} {st st' : VState} {v : Vote}
    (h : stepBls Checks.current C cd vs total step st v = .cont st') :
    (st'.sta = st.sta ∧ st'.count = st.count) ∨
    (∃ val mk hh j, vs[v.idx]? = some val ∧ Entitled val ∧ val.addr ∉ st.sta ∧ val.mainKey = some mk ∧
      proofToHash mk cd.seed step cd.payload.index v.proof = some hh ∧ C.ch hh val.stake cd.t total = some j ∧
      0 < j ∧ u32 j = v.votes ∧ st'.sta = val.addr :: st.sta ∧ st'.count = (st.count + v.votes) % U32) := by
  unfold stepBls at h
  split at h
  · cases h
  · rename_i val hval
    split at h
    · cases h
    · cases h
    · rename_i bk mk hbk hmk
      split at h
      · cases h; exact .inl ⟨rfl, rfl⟩
      · rename_i hent
        split at h
        · cases h; exact .inl ⟨rfl, rfl⟩
        · rename_i hdup
          unfold count1 at h
          split at h
          · cases h
          · cases h; exact .inl ⟨rfl, rfl⟩
          · rename_i hs
            cases h
            obtain ⟨hh, j, hp, hj, hpos, hu⟩ := sortitionOK_true hs
            have hent' : Entitled val := entitled_iff.1 (by simp [current_eq] at hent; exact hent)
            exact .inr ⟨val, mk, hh, j, hval, hent', by simpa using hdup, hmk, hp, hj, hpos, hu, rfl, rfl⟩

theorem proofToHash_some {key seed role index : Nat} {p : Option VrfProof} {h : Nat}
    (hp : proofToHash key seed role index p = some h) :
    ∃ q, p = some q ∧ q.key = key ∧ q.seed = seed ∧ q.role = role ∧ q.index = index ∧ q.hash = h := by
  cases p with
  | none => simp [proofToHash] at hp
  | some q =>
    simp only [proofToHash] at hp
    split at hp
    · rename_i hc; cases hp; exact ⟨q, rfl, hc.1, hc.2.1, hc.2.2.1, hc.2.2.2, rfl⟩
    · cases hp

/-! ### honest vote sets are accepted -/

theorem permB_refl (xs : List SigAtom) : permB xs xs = true := by
  induction xs with
  | nil => simp [permB]
  | cons a as ih => simp [permB, ih]

/-- what honest voters and an honest packer produce (any order) -/
structure HonestBallots (C : Crypto) (lb : LookBack) (seed step : Nat) (pl : Payload) (t : Nat)
    (S : List (Val × Vote)) : Prop where
  distinct : (S.map (·.1.addr)).Nodup
  member : ∀ p ∈ S, lb.sorted[p.2.idx]? = some p.1
  bls : ∀ p ∈ S, p.1.blsKey.isSome
  entitled : ∀ p ∈ S, Entitled p.1
  cred : ∀ p ∈ S, CredOK C p.1 seed step pl.index p.2.proof p.2.votes t lb.chamberStake
  stake : lb.chamberStake ≠ 0

def blsKeys (S : List (Val × Vote)) : List Nat := S.filterMap (·.1.blsKey)

theorem sortitionOK_of_cred {C : Crypto} {v : Val} {mk seed role index : Nat} {proof : Option VrfProof}
    {seats t total : Nat} (hmk : v.mainKey = some mk) (htot : total ≠ 0)
    (h : CredOK C v seed role index proof seats t total) :
    sortitionOK C mk seed role index proof seats t v.stake total = some true := by
  obtain ⟨k, hh, j, hk, hp, hj, hpos, hu⟩ := h
  have : k = mk := by rw [hmk] at hk; cases hk; rfl
  subst this
  unfold sortitionOK
  simp [htot, hp, hj, hpos, hu]

theorem loop_honest {C : Crypto} {cd : CD} {lb : LookBack} {step : Nat} :
    ∀ (S : List (Val × Vote)) (st : VState),
      HonestBallots C lb cd.seed step cd.payload cd.t S → (∀ p ∈ S, p.1.addr ∉ st.sta) → st.count < U32 →
      ∃ sta', loop (stepBls Checks.current C cd lb.sorted lb.chamberStake step) (S.map (·.2)) st =
        .cont ⟨sta', st.pubs ++ blsKeys S, (st.count + weight S) % U32⟩ := by
  intro S
  induction S with
  | nil =>
    intro st _ _ hc
    exact ⟨st.sta, by simp [loop, blsKeys, weight, Nat.mod_eq_of_lt hc]⟩
  | cons p S ih =>
    intro st hh hfresh hc
    have hp : p ∈ p :: S := List.mem_cons_self
    have hmem := hh.member p hp
    have hent := hh.entitled p hp
    have hcred := hh.cred p hp
    obtain ⟨bk, hbk⟩ := Option.isSome_iff_exists.1 (hh.bls p hp)
    obtain ⟨mk, hmk⟩ : ∃ mk, p.1.mainKey = some mk := by
      obtain ⟨k, _, _, hk, _⟩ := hcred; exact ⟨k, hk⟩
    have hsort := sortitionOK_of_cred hmk hh.stake hcred
    have hnot : st.sta.contains p.1.addr = false := by
      have := hfresh p hp
      simpa using this
    have hstep : stepBls Checks.current C cd lb.sorted lb.chamberStake step st p.2 =
        .cont ⟨p.1.addr :: st.sta, st.pubs ++ [bk], (st.count + p.2.votes) % U32⟩ := by
      unfold stepBls
      simp only [hmem, hbk, hmk]
      have he : entitled p.1 = true := entitled_iff.2 hent
      simp only [he, Bool.not_true, Bool.and_false, hnot]
      simp [count1, hsort]
    have hh' : HonestBallots C lb cd.seed step cd.payload cd.t S :=
      ⟨(by have := hh.distinct; rw [List.map_cons, List.nodup_cons] at this; exact this.2),
       fun q hq => hh.member q (List.mem_cons_of_mem _ hq),
       fun q hq => hh.bls q (List.mem_cons_of_mem _ hq),
       fun q hq => hh.entitled q (List.mem_cons_of_mem _ hq),
       fun q hq => hh.cred q (List.mem_cons_of_mem _ hq), hh.stake⟩
    have hfresh' : ∀ q ∈ S, q.1.addr ∉ (p.1.addr :: st.sta) := by
      intro q hq hm
      rcases List.mem_cons.1 hm with heq | hm'
      · have hd : p.1.addr ∉ S.map (·.1.addr) := by
          have := hh.distinct
          rw [List.map_cons, List.nodup_cons] at this
          exact this.1
        exact hd (List.mem_map.2 ⟨q, hq, heq⟩)
      · exact hfresh q (List.mem_cons_of_mem _ hq) hm'
    obtain ⟨sta', hl⟩ := ih ⟨p.1.addr :: st.sta, st.pubs ++ [bk], (st.count + p.2.votes) % U32⟩ hh' hfresh' (Nat.mod_lt _ (by decide))
    refine ⟨sta', ?_⟩
    simp only [List.map_cons, loop, hstep, hl]
    have hk : blsKeys (p :: S) = bk :: blsKeys S := by simp [blsKeys, hbk]
    simp only [hk, weight_cons, List.append_assoc, List.singleton_append, Nat.mod_add_mod]
    congr 2
    rw [Nat.add_assoc]

/-- `verifyVotes` accepts what honest voters produce, packed in any order, provided the true weight reaches the
quorum and does not overflow the uint32 accumulator -/
theorem verifyVotes_honest {C : Crypto} {cd : CD} {lb : LookBack} {step : Nat} {isPos : Bool}
    {S : List (Val × Vote)} (hb : cd.enableBls = true) (hS : S ≠ [])
    (hh : HonestBallots C lb cd.seed step cd.payload cd.t S)
    (hq : quorum isPos cd.t ≤ weight S) (hw : weight S < U32) :
    verifyVotes Checks.current C cd lb (S.map (·.2)) (some ((blsKeys S).map fun k => (k, cd.payload))) step isPos = .ok := by
  obtain ⟨sta', hl⟩ := loop_honest (C := C) (cd := cd) (lb := lb) (step := step) S ⟨[], [], 0⟩ hh (by simp) (by decide)
  unfold verifyVotes
  simp only [hb, Bool.true_and, Option.isNone_some, Bool.false_eq_true, if_false, if_true, hl]
  have hcount : (0 + weight S) % U32 = weight S := by simp [Nat.mod_eq_of_lt hw]
  have hover : overThreshold ((0 + weight S) % U32) cd.t isPos = true := by
    rw [hcount]; simpa [overThreshold] using hq
  have hne : blsKeys S ≠ [] := by
    cases S with
    | nil => exact absurd rfl hS
    | cons p S' =>
      obtain ⟨bk, hbk⟩ := Option.isSome_iff_exists.1 (hh.bls p List.mem_cons_self)
      simp [blsKeys, hbk]
  simp only [hover, Bool.not_true, Bool.false_eq_true, if_false, List.nil_append, Option.getD_some]
  have : verifyAgg Checks.current (blsKeys S) cd.payload ((blsKeys S).map fun k => (k, cd.payload)) = some true := by
    unfold verifyAgg
    have h1 : (blsKeys S).isEmpty = false := by simpa using hne
    simp [h1, permB_refl]
  simp [this]


/-- header level: what an honest proposer, honest voters and an honest packer produce is accepted
(rounds without a certificate) -/
theorem verifyMain_honest {C : Crypto} {versions : Nat → Option Params} {cp : Params} {seedHdr : LbHeader}
    {lb : LookBack} {certHdr : Option LbHeader} {certLb : LookBack} {h : Header}
    {seed ct ri : Nat} {c : Cons} {prop : Val} {S : List (Val × Vote)}
    (hb : cp.enableBls = true) (hseed : seedHdr.cons = some (seed, ct)) (hc : h.cons = some c)
    (hT : c.pT = cp.pT ∧ c.vT = cp.vT ∧ c.cT = cp.cT)
    (hprop : lb.byKey c.signer = some prop) (hE : Entitled prop)
    (hP : ProposerOK C prop seed c cp.pT lb.chamberStake) (htot : lb.chamberStake % U64 ≠ 0)
    (huc : h.uc = some ⟨ri, S.map (·.2), some ((blsKeys S).map fun k => (k, ⟨h.hash, c.round, ri⟩))⟩)
    (hS : S ≠ []) (hh : HonestBallots C lb seed Gen.stepPrecommit ⟨h.hash, c.round, ri⟩ cp.vT S)
    (hq : quorum true cp.vT ≤ weight S) (hw : weight S < U32) (hcert : isCertRound h.number = false) :
    verifyMain Checks.current C versions cp seedHdr lb certHdr certLb h = .ok := by
  obtain ⟨k, hh', j, hmk, hsig, hp, hj, hsub, hu, hpr⟩ := hP
  unfold verifyMain
  simp only [hseed, hc]
  have h1 : (Checks.current.thresholds && !(c.pT == cp.pT && c.vT == cp.vT && c.cT == cp.cT)) = false := by
    simp [hT.1, hT.2.1, hT.2.2]
  have h2 : (c.signer == Signer.bad) = false := by rw [hsig]; rfl
  simp only [h1, h2, Bool.false_eq_true, if_false, hprop]
  rw [hsig]
  have h3 : (Checks.current.proposerEntitled && !(entitled prop && decide (0 < c.subUsers))) = false := by
    simp [entitled_iff.2 hE, hsub]
  have h4 : priorityOK C k seed c.roundIndex c prop.stake lb.chamberStake = some true := by
    unfold priorityOK
    simp [htot, hp, hT.1, hj, hu, hpr]
  simp only [h3, Bool.false_eq_true, if_false, h4, huc]
  have hv := verifyVotes_honest (C := C) (cd := { enableBls := cp.enableBls, seed := seed, payload := ⟨h.hash, c.round, ri⟩, t := c.vT })
    (lb := lb) (step := Gen.stepPrecommit) (isPos := true) (S := S) hb hS (by simpa [hT.2.1] using hh) (by simpa [hT.2.1] using hq) hw
  simp only at hv
  simp [hv, hcert]


/-! ### the secp256k1 branch (EnableBls = false; no shipped version uses it) -/

structure InvS (C : Crypto) (cd : CD) (lb : LookBack) (step : Nat) (all : List Vote) (st : VState) (S : List (Val × Vote)) : Prop where
  sta : st.sta = S.map (·.1.addr)
  count : st.count = weight S % U32
  ballots : ValidBallotsSecp C lb cd.seed step cd.payload cd.t all S

theorem stepSecp_inv {C : Crypto} {cd : CD} {lb : LookBack} {step : Nat} {all : List Vote}
    {st st' : VState} {S : List (Val × Vote)} {v : Vote}
    (hinv : InvS C cd lb step all st S) (hv : v ∈ all)
    (h : stepSecp Checks.current C cd lb.sorted lb.chamberStake step st v = .cont st') :
    ∃ S', InvS C cd lb step all st' S' := by
  unfold stepSecp at h
  split at h
  · cases h; exact ⟨S, hinv⟩
  · rename_i k pl hsig
    split at h
    · split at h
      · cases h; exact ⟨S, hinv⟩
      · cases h
    · rename_i val hfind
      split at hfind
      · rename_i hpl
        have hmem : val ∈ lb.vals := mem_sortDesc.1 (List.mem_of_find?_eq_some hfind)
        have hmk : val.mainKey = some k := by simpa using List.find?_some hfind
        split at h
        · cases h; exact ⟨S, hinv⟩
        · rename_i hent
          split at h
          · cases h; exact ⟨S, hinv⟩
          · rename_i hdup
            unfold count1 at h
            split at h
            · cases h
            · cases h; exact ⟨S, hinv⟩
            · rename_i hs
              cases h
              obtain ⟨hh, j, hp, hj, hpos, hu⟩ := sortitionOK_true hs
              have hent' : Entitled val := entitled_iff.1 (by simp [current_eq] at hent; exact hent)
              have hnot : val.addr ∉ S.map (·.1.addr) := by rw [← hinv.sta]; simpa using hdup
              refine ⟨(val, v) :: S, ⟨by simp [hinv.sta], ?_, ⟨?_, ?_, ?_, ?_, ?_⟩⟩⟩
              · show (st.count + v.votes) % U32 = weight ((val, v) :: S) % U32
                rw [weight_cons, hinv.count, Nat.mod_add_mod, Nat.add_comm]
              · simp only [List.map_cons, List.nodup_cons]; exact ⟨hnot, hinv.ballots.distinct⟩
              · intro p hp'
                rcases List.mem_cons.1 hp' with rfl | hp''
                · exact ⟨hmem, hv⟩
                · exact hinv.ballots.member p hp''
              · intro p hp'
                rcases List.mem_cons.1 hp' with rfl | hp''
                · exact hent'
                · exact hinv.ballots.entitled p hp''
              · intro p hp'
                rcases List.mem_cons.1 hp' with rfl | hp''
                · exact ⟨k, hh, j, hmk, hp, hj, hpos, hu⟩
                · exact hinv.ballots.cred p hp''
              · intro p hp'
                rcases List.mem_cons.1 hp' with rfl | hp''
                · exact ⟨k, hmk, by rw [hsig, hpl]⟩
                · exact hinv.ballots.signed p hp''
      · cases hfind

theorem loopS_inv {C : Crypto} {cd : CD} {lb : LookBack} {step : Nat} {all : List Vote} :
    ∀ (vs : List Vote) (st st' : VState) (S : List (Val × Vote)),
      InvS C cd lb step all st S → (∀ v ∈ vs, v ∈ all) →
      loop (stepSecp Checks.current C cd lb.sorted lb.chamberStake step) vs st = .cont st' →
      ∃ S', InvS C cd lb step all st' S' := by
  intro vs
  induction vs with
  | nil => intro st st' S hinv _ h; simp [loop] at h; cases h; exact ⟨S, hinv⟩
  | cons v vs ih =>
    intro st st' S hinv hall h
    simp only [loop] at h
    split at h
    · rename_i st1 hst1
      obtain ⟨S1, hinv1⟩ := stepSecp_inv hinv (hall v List.mem_cons_self) hst1
      exact ih st1 st' S1 hinv1 (fun w hw => hall w (List.mem_cons_of_mem _ hw)) h
    · cases h

theorem loop_stop_ne_ok (f : VState → Vote → Step) (hf : ∀ st v, f st v ≠ .stop .ok) :
    ∀ (vs : List Vote) (st : VState), loop f vs st ≠ .stop .ok := by
  intro vs
  induction vs with
  | nil => intro st; simp [loop]
  | cons v vs ih =>
    intro st
    simp only [loop]
    split
    · exact ih _
    · rename_i r hr; intro hc; cases hc; exact hf _ _ hr

theorem stepSecp_ne_ok (ck : Checks) (C : Crypto) (cd : CD) (vs : List Val) (total step : Nat) (st : VState) (v : Vote) :
    stepSecp ck C cd vs total step st v ≠ .stop .ok := by
  unfold stepSecp
  split
  · simp
  · split
    · split <;> simp
    · split
      · simp
      · split
        · simp
        · unfold count1; split <;> simp

/-- `verifyVotes`, secp256k1 branch, current checks: acceptance ⇒ a valid ballot set with a quorum of seats -/
theorem verifyVotes_sound_secp {C : Crypto} {cd : CD} {lb : LookBack} {votes : List Vote} {agg : Option (List SigAtom)}
    {step : Nat} {isPos : Bool} (hb : cd.enableBls = false)
    (h : verifyVotes Checks.current C cd lb votes agg step isPos = .ok) :
    ∃ S, ValidBallotsSecp C lb cd.seed step cd.payload cd.t votes S ∧ quorum isPos cd.t ≤ weight S := by
  unfold verifyVotes at h
  simp only [hb, Bool.false_and, Bool.false_eq_true, if_false] at h
  split at h
  · rename_i r hr
    subst h
    exact absurd hr (loop_stop_ne_ok _ (stepSecp_ne_ok _ _ _ _ _ _) _ _)
  · rename_i st hst
    have h0 : InvS C cd lb step votes ⟨[], [], 0⟩ [] :=
      ⟨rfl, by simp [weight], ⟨by simp, by simp, by simp, by simp, by simp⟩⟩
    obtain ⟨S, hinv⟩ := loopS_inv votes _ st [] h0 (fun v hv => hv) hst
    split at h
    · cases h
    · rename_i hover
      have hq : quorum isPos cd.t ≤ st.count := quorum_le_of_over (by simpa using hover)
      refine ⟨S, hinv.ballots, ?_⟩
      rw [hinv.count] at hq
      exact Nat.le_trans hq (Nat.mod_le _ _)


/-- certificate rounds: acceptance implies that the certificate votes passed `verifyVotes` under the seed and the
committee size recorded on the certificate look-back header, the certificate step and the 0.585 fraction
(NB: with header.Validator's round index) -/
theorem verifyMain_cert {C : Crypto} {versions : Nat → Option Params} {cp : Params} {seedHdr : LbHeader}
    {lb : LookBack} {certHdr : Option LbHeader} {certLb : LookBack} {h : Header}
    (hok : verifyMain Checks.current C versions cp seedHdr lb certHdr certLb h = .ok)
    (hcert : isCertRound h.number = true) :
    ∃ ch cseed ct yp cu c uc, certHdr = some ch ∧ ch.cons = some (cseed, ct) ∧ versions ch.version = some yp ∧
      h.cert = some cu ∧ h.cons = some c ∧ h.uc = some uc ∧
      verifyVotes Checks.current C
        { enableBls := yp.enableBls, seed := cseed, payload := ⟨h.hash, c.round, uc.roundIndex⟩, t := ct }
        certLb cu.votes cu.agg Gen.stepCertificate false = .ok := by
  unfold verifyMain at hok
  split at hok
  · cases hok
  · split at hok
    · cases hok
    · rename_i c hc
      split at hok
      · cases hok
      · split at hok
        · cases hok
        · split at hok
          · split at hok
            · cases hok
            · split at hok
              · cases hok
              · cases hok
              · split at hok
                · cases hok
                · rename_i uc huc
                  dsimp only at hok
                  split at hok
                  · split at hok
                    · cases hok
                    · rename_i ch hch
                      split at hok
                      · cases hok
                      · rename_i cseed ct hcc
                        split at hok
                        · cases hok
                        · rename_i yp hyp
                          split at hok
                          · cases hok
                          · rename_i cu hcu
                            exact ⟨hch, cseed, ct, yp, cu, c, uc, rfl, hcc, hyp, hcu, hc, huc, hok⟩
                  · rename_i hr
                    exact absurd hok hr
          · cases hok

end YouVerif.C01
