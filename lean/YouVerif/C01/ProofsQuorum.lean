/-
C01 — the float64 quorum of `OverThreshold` against the rational floor, for every uint32 committee size.

Port of the C03 owner's proof (lean/YouVerif/C03/ProofsQuorum.lean: `rne53_cases`, `rne53_upper`, `rne53_lower'`,
`rne53_ge_mul`, `prod685`, `prod585`) to this property's float model (`roundSig53` with the fuel-based `bitLen`, the
mantissas regenerated into `Gen.posFracMan` / `Gen.certFracMan`). Core Lean only.
-/
import YouVerif.C01.Model
namespace YouVerif.C01

/-- a number below 2^k has at most k binary digits (whatever the fuel) -/
theorem bitLenF_le : ∀ (fuel n k : Nat), n < 2 ^ k → bitLenF fuel n ≤ k := by
  intro fuel
  induction fuel with
  | zero => intro n k _; simp [bitLenF]
  | succ f ih =>
    intro n k h
    unfold bitLenF
    split
    · exact Nat.zero_le _
    · rename_i hn
      cases k with
      | zero => simp at h; exact absurd h hn
      | succ k' =>
        have : n / 2 < 2 ^ k' := by
          rw [Nat.pow_succ] at h; omega
        exact Nat.succ_le_succ (ih (n / 2) k' this)

theorem bitLen_le {n k : Nat} (h : n < 2 ^ k) : bitLen n ≤ k := bitLenF_le 192 n k h

/-- numbers of at most 53 digits are not rounded -/
theorem roundSig53_small (n : Nat) (h : bitLen n ≤ 53) : roundSig53 n = n := by
  unfold roundSig53; simp [h]

/-- the two outcomes of the rounding: with `k2 = 2^k` the unit of the last kept bit, `n = q * k2 + r`, the result is
`q * k2` (then `r ≤ k2 / 2`) or `(q + 1) * k2` (then `k2 / 2 ≤ r`) -/
theorem roundSig53_cases (n : Nat) (h : ¬ bitLen n ≤ 53) :
    ∃ q r k2 : Nat, k2 = 2 ^ (bitLen n - 53) ∧ n = q * k2 + r ∧ r < k2 ∧ q = n / k2 ∧
      ((roundSig53 n = q * k2 ∧ 2 * r ≤ k2) ∨ (roundSig53 n = q * k2 + k2 ∧ k2 ≤ 2 * r)) := by
  refine ⟨n / 2 ^ (bitLen n - 53), n % 2 ^ (bitLen n - 53), 2 ^ (bitLen n - 53), rfl, ?_, ?_, rfl, ?_⟩
  · rw [Nat.mul_comm]; exact (Nat.div_add_mod _ _).symm
  · exact Nat.mod_lt _ (Nat.two_pow_pos _)
  · unfold roundSig53
    simp only [h, if_false]
    generalize hk : bitLen n - 53 = k
    have hr : n % 2 ^ k < 2 ^ k := Nat.mod_lt _ (Nat.two_pow_pos _)
    cases k with
    | zero => omega
    | succ k' =>
      simp only [Nat.add_sub_cancel]
      have h2 : 2 ^ (k' + 1) = 2 * 2 ^ k' := by rw [Nat.pow_succ, Nat.mul_comm]
      rw [h2] at hr ⊢
      generalize 2 ^ k' = hf at *
      generalize n % (2 * hf) = r at *
      generalize n / (2 * hf) = q at *
      split
      · right
        refine ⟨by rw [Nat.add_mul, Nat.one_mul], by omega⟩
      · left
        refine ⟨rfl, by omega⟩

/-- never below the truncation to a multiple of the unit of the last kept bit -/
theorem roundSig53_lower (n : Nat) (h : ¬ bitLen n ≤ 53) :
    n / 2 ^ (bitLen n - 53) * 2 ^ (bitLen n - 53) ≤ roundSig53 n := by
  obtain ⟨q, r, k2, hk2, hn, hr, hq, hc⟩ := roundSig53_cases n h
  rw [← hk2, ← hq]
  omega

/-- `roundSig53 n ≤ n + half ulp` -/
theorem roundSig53_upper (n : Nat) : 2 * roundSig53 n ≤ 2 * n + 2 ^ (bitLen n - 53) := by
  by_cases h : bitLen n ≤ 53
  · rw [roundSig53_small n h]; exact Nat.le_add_right _ _
  · obtain ⟨q, r, k2, hk2, hn, hr, hq, hc⟩ := roundSig53_cases n h
    rw [← hk2]
    omega

/-- `n - half ulp ≤ roundSig53 n`: together with `roundSig53_upper`, a correct rounding to nearest -/
theorem roundSig53_lower' (n : Nat) : 2 * n ≤ 2 * roundSig53 n + 2 ^ (bitLen n - 53) := by
  by_cases h : bitLen n ≤ 53
  · rw [roundSig53_small n h]; exact Nat.le_add_right _ _
  · obtain ⟨q, r, k2, hk2, hn, hr, hq, hc⟩ := roundSig53_cases n h
    rw [← hk2]
    omega

/-- a product of a 32-bit integer and a 53-bit mantissa has its last kept bit at exponent ≤ 32 -/
theorem ulp_le (P : Nat) (hP : P < 2 ^ 85) : 2 ^ (bitLen P - 53) ≤ 2 ^ 32 := by
  apply Nat.pow_le_pow_right (by decide)
  have := bitLen_le hP
  omega

/-- rounding never crosses a multiple of 2^53 downwards (the unit of the last kept bit divides 2^53) -/
theorem roundSig53_ge_mul (n P : Nat) (hP : P < 2 ^ 85) (h : n * 2 ^ 53 ≤ P) : n * 2 ^ 53 ≤ roundSig53 P := by
  by_cases hs : bitLen P ≤ 53
  · rw [roundSig53_small P hs]; exact h
  · have hk : bitLen P - 53 ≤ 53 := by
      have := bitLen_le hP
      omega
    refine Nat.le_trans ?_ (roundSig53_lower P hs)
    generalize bitLen P - 53 = k at hk
    have e : n * 2 ^ 53 = (n * 2 ^ (53 - k)) * 2 ^ k := by
      rw [Nat.mul_assoc, ← Nat.pow_add]; congr 2; omega
    rw [e] at h ⊢
    apply Nat.mul_le_mul_right
    exact (Nat.le_div_iff_mul_le (Nat.two_pow_pos k)).mpr h

/-- `float64(T) = T` for a 32-bit integer -/
theorem f64OfU64_small (t : Nat) (h : t < 2 ^ 32) : f64OfU64 t = t := by
  unfold f64OfU64
  have h1 : t % U64 = t := Nat.mod_eq_of_lt (by unfold U64; omega)
  rw [h1]
  exact roundSig53_small t (bitLen_le (k := 53) (by omega))

/-- the truncated float64 product `float64(T) * 0.685`; uses `posFracMan * 1000 = 685 * 2^53 + 480` -/
theorem prod685 (T : Nat) (hT : T < 2 ^ 32) : roundSig53 (Gen.posFracMan * T) / 2 ^ 53 = 685 * T / 1000 := by
  have hP : Gen.posFracMan * T < 2 ^ 85 := by unfold Gen.posFracMan; omega
  have hB : (685 * T / 1000) * 2 ^ 53 ≤ roundSig53 (Gen.posFracMan * T) := by
    apply roundSig53_ge_mul _ _ hP
    unfold Gen.posFracMan; omega
  have hU := roundSig53_upper (Gen.posFracMan * T)
  have hk := ulp_le _ hP
  generalize 2 ^ (bitLen (Gen.posFracMan * T) - 53) = u at *
  generalize roundSig53 (Gen.posFracMan * T) = R at *
  unfold Gen.posFracMan at *
  simp only [Nat.reducePow] at *
  omega

/-- the truncated float64 product `float64(T) * 0.585`; uses `certFracMan * 1000 + 320 = 585 * 2^53` -/
theorem prod585 (T : Nat) (hT : T < 2 ^ 32) :
    585 * T / 1000 - 1 ≤ roundSig53 (Gen.certFracMan * T) / 2 ^ 53 ∧
    roundSig53 (Gen.certFracMan * T) / 2 ^ 53 ≤ 585 * T / 1000 := by
  have hP : Gen.certFracMan * T < 2 ^ 85 := by unfold Gen.certFracMan; omega
  have hU := roundSig53_upper (Gen.certFracMan * T)
  have hL := roundSig53_lower' (Gen.certFracMan * T)
  have hk := ulp_le _ hP
  generalize 2 ^ (bitLen (Gen.certFracMan * T) - 53) = u at *
  generalize roundSig53 (Gen.certFracMan * T) = R at *
  unfold Gen.certFracMan at *
  simp only [Nat.reducePow] at *
  omega

/-- the precommit quorum is exactly the rational floor for every 32-bit committee size -/
theorem quorum685_exact (T : Nat) (hT : T < 2 ^ 32) : quorum true T = 685 * T / 1000 := by
  have hs : Gen.posFracShift = 53 := rfl
  unfold quorum mulFloor
  simp only [if_true, f64OfU64_small T hT, hs, prod685 T hT]
  unfold u32OfFloat U32
  split <;> omega

/-- the certificate quorum is the rational floor or one less -/
theorem quorum585_bounds (T : Nat) (hT : T < 2 ^ 32) :
    585 * T / 1000 - 1 ≤ quorum false T ∧ quorum false T ≤ 585 * T / 1000 := by
  have h := prod585 T hT
  have hs : Gen.certFracShift = 53 := rfl
  unfold quorum mulFloor
  simp only [Bool.false_eq_true, if_false, f64OfU64_small T hT, hs]
  generalize roundSig53 (Gen.certFracMan * T) / 2 ^ 53 = t at *
  unfold u32OfFloat U32
  split <;> omega

end YouVerif.C01
