/-
Untyped RLP: items, canonical encoder, strict decoder (mirrors rlp/decode.go's Stream checks:
canonical single byte, canonical sizes, no leading zero in long lengths, no element larger than its
container, no trailing bytes at top level).  Core Lean only.  Theorems about it live in
YouVerif/C14.
-/
import YouVerif.Common.Hex
namespace YouVerif.Common.Rlp
open YouVerif.Common

inductive Item where
  | str  : List UInt8 → Item
  | list : List Item → Item
  deriving Repr, Inhabited, BEq

def encodeLength (len : Nat) (offset : Nat) : List UInt8 :=
  if len < 56 then [UInt8.ofNat (offset + len)]
  else
    let lb := bytesOfNatBE len
    UInt8.ofNat (offset + 55 + lb.length) :: lb

mutual
  def encode : Item → List UInt8
    | .str bs =>
      match bs with
      | [b] => if b.toNat < 128 then [b] else encodeLength 1 128 ++ [b]
      | _ => encodeLength bs.length 128 ++ bs
    | .list items =>
      let payload := encodeList items
      encodeLength payload.length 192 ++ payload
  def encodeList : List Item → List UInt8
    | [] => []
    | i :: is => encode i ++ encodeList is
end

inductive Err where
  | eof | nonCanonicalSize | nonCanonicalByte | tooLarge | trailing | fuel
  deriving Repr, BEq, DecidableEq

/-- Decode the header at the front of `bs`: (isList, payloadLength, headerLength). -/
def decodeHeader (bs : List UInt8) : Except Err (Bool × Nat × Nat) :=
  match bs with
  | [] => .error .eof
  | b :: rest =>
    let t := b.toNat
    if t < 128 then .ok (false, 1, 0)           -- single byte, its own payload
    else if t < 184 then
      let n := t - 128
      -- canonical: a single byte < 0x80 must be encoded as itself
      if n = 1 then
        match rest with
        | [] => .error .eof
        | c :: _ => if c.toNat < 128 then .error .nonCanonicalByte else .ok (false, 1, 1)
      else .ok (false, n, 1)
    else if t < 192 then
      let ll := t - 183
      if rest.length < ll then .error .eof else
      let lb := rest.take ll
      match lb with
      | [] => .error .eof
      | l0 :: _ =>
        if l0 = 0 then .error .nonCanonicalSize else
        let n := natOfBytesBE lb
        if n < 56 then .error .nonCanonicalSize else .ok (false, n, 1 + ll)
    else if t < 248 then .ok (true, t - 192, 1)
    else
      let ll := t - 247
      if rest.length < ll then .error .eof else
      let lb := rest.take ll
      match lb with
      | [] => .error .eof
      | l0 :: _ =>
        if l0 = 0 then .error .nonCanonicalSize else
        let n := natOfBytesBE lb
        if n < 56 then .error .nonCanonicalSize else .ok (true, n, 1 + ll)

mutual
  /-- Decode one item from the front; returns the item and the rest. Fuel bounds recursion depth by input length. -/
  def decodeItem (fuel : Nat) (bs : List UInt8) : Except Err (Item × List UInt8) :=
    match fuel with
    | 0 => .error .fuel
    | fuel + 1 =>
      match decodeHeader bs with
      | .error e => .error e
      | .ok (isList, n, h) =>
        let body := bs.drop h
        if body.length < n then .error .tooLarge else
        let payload := body.take n
        let rest := body.drop n
        if isList then
          match decodeItems fuel payload with
          | .error e => .error e
          | .ok items => .ok (.list items, rest)
        else .ok (.str payload, rest)
  def decodeItems (fuel : Nat) (bs : List UInt8) : Except Err (List Item) :=
    match fuel with
    | 0 => .error .fuel
    | fuel + 1 =>
      match bs with
      | [] => .ok []
      | _ =>
        match decodeItem fuel bs with
        | .error e => .error e
        | .ok (i, rest) =>
          match decodeItems fuel rest with
          | .error e => .error e
          | .ok is => .ok (i :: is)
end

/-- Strict top-level decode: exactly one item, no trailing bytes. -/
def decode (bs : List UInt8) : Except Err Item :=
  match decodeItem (2 * bs.length + 2) bs with
  | .error e => .error e
  | .ok (i, []) => .ok i
  | .ok (_, _ :: _) => .error .trailing

/-- Helpers to build items. -/
def ofNat (n : Nat) : Item := .str (bytesOfNatBE n)
def ofBytes (b : List UInt8) : Item := .str b

partial def Item.render : Item → String
  | .str b => "s:" ++ hexOfList b
  | .list is => "[" ++ String.intercalate "," (is.map Item.render) ++ "]"

end YouVerif.Common.Rlp
