/-
Keccak-256 (the pre-NIST padding 0x01 used by Ethereum), executable, core Lean only.
It is *modelled, not verified*: theorems treat the hash as an uninterpreted function; this
implementation exists so that drivers can reproduce trie roots and hashes byte for byte, and it is
compared with Go's implementation on every run of the checks that use it.
-/
namespace YouVerif.Common.Keccak

def roundConstants : Array UInt64 := #[
  0x0000000000000001, 0x0000000000008082, 0x800000000000808A, 0x8000000080008000,
  0x000000000000808B, 0x0000000080000001, 0x8000000080008081, 0x8000000000008009,
  0x000000000000008A, 0x0000000000000088, 0x0000000080008009, 0x000000008000000A,
  0x000000008000808B, 0x800000000000008B, 0x8000000000008089, 0x8000000000008003,
  0x8000000000008002, 0x8000000000000080, 0x000000000000800A, 0x800000008000000A,
  0x8000000080008081, 0x8000000000008080, 0x0000000080000001, 0x8000000080008008]

/-- rotation offsets indexed by x + 5*y -/
def rotc : Array UInt64 := #[
   0,  1, 62, 28, 27,
  36, 44,  6, 55, 20,
   3, 10, 43, 25, 39,
  41, 45, 15, 21,  8,
  18,  2, 61, 56, 14]

@[inline] def rotl (x : UInt64) (n : UInt64) : UInt64 :=
  if n == 0 then x else (x <<< n) ||| (x >>> (64 - n))

def round (a : Array UInt64) (rc : UInt64) : Array UInt64 := Id.run do
  -- theta
  let mut c : Array UInt64 := Array.replicate 5 0
  for x in [0:5] do
    c := c.set! x (a[x]! ^^^ a[x+5]! ^^^ a[x+10]! ^^^ a[x+15]! ^^^ a[x+20]!)
  let mut a := a
  for x in [0:5] do
    let d := c[(x+4)%5]! ^^^ rotl c[(x+1)%5]! 1
    for y in [0:5] do
      a := a.set! (x+5*y) (a[x+5*y]! ^^^ d)
  -- rho + pi
  let mut b : Array UInt64 := Array.replicate 25 0
  for x in [0:5] do
    for y in [0:5] do
      b := b.set! (y + 5*((2*x+3*y)%5)) (rotl a[x+5*y]! rotc[x+5*y]!)
  -- chi
  for x in [0:5] do
    for y in [0:5] do
      a := a.set! (x+5*y) (b[x+5*y]! ^^^ ((~~~ b[(x+1)%5+5*y]!) &&& b[(x+2)%5+5*y]!))
  -- iota
  a := a.set! 0 (a[0]! ^^^ rc)
  return a

def permute (a : Array UInt64) : Array UInt64 := Id.run do
  let mut a := a
  for i in [0:24] do
    a := round a roundConstants[i]!
  return a

def rate : Nat := 136

/-- XOR a 136-byte block (given as a function from index to byte) into the state. -/
def absorbBlock (st : Array UInt64) (blk : Nat → UInt8) : Array UInt64 := Id.run do
  let mut st := st
  for i in [0:17] do
    let mut w : UInt64 := 0
    for j in [0:8] do
      w := w ||| ((blk (8*i+j)).toUInt64 <<< (UInt64.ofNat (8*j)))
    st := st.set! i (st[i]! ^^^ w)
  return st

def hashBytes (data : ByteArray) : ByteArray := Id.run do
  let n := data.size
  let mut st : Array UInt64 := Array.replicate 25 0
  let full := n / rate
  for k in [0:full] do
    st := absorbBlock st (fun i => data.get! (k*rate + i))
    st := permute st
  let rem := n - full*rate
  let last : Nat → UInt8 := fun i =>
    let b : UInt8 := if i < rem then data.get! (full*rate + i) else 0
    let b := if i == rem then b ^^^ 0x01 else b
    if i == rate - 1 then b ^^^ 0x80 else b
  st := absorbBlock st last
  st := permute st
  let mut out := ByteArray.emptyWithCapacity 32
  for i in [0:4] do
    for j in [0:8] do
      out := out.push ((st[i]! >>> (UInt64.ofNat (8*j))).toUInt8)
  return out

def hash (data : List UInt8) : List UInt8 :=
  (hashBytes (ByteArray.mk data.toArray)).toList

end YouVerif.Common.Keccak
