/-
Common helpers for the line protocol spoken between the Go harnesses and the Lean drivers.
Core Lean only (no Mathlib) so that drivers link as native executables.
-/
namespace YouVerif.Common

def hexDigit (n : Nat) : Char :=
  if n < 10 then Char.ofNat (48 + n) else Char.ofNat (87 + n)

def hexOfByte (b : UInt8) : String :=
  String.ofList [hexDigit (b.toNat / 16), hexDigit (b.toNat % 16)]

def hexOfBytes (bs : ByteArray) : String := Id.run do
  let mut s := ""
  for b in bs do
    s := s ++ hexOfByte b
  return s

def hexOfList (bs : List UInt8) : String :=
  String.join (bs.map hexOfByte)

def hexVal? (c : Char) : Option Nat :=
  if '0' ≤ c ∧ c ≤ '9' then some (c.toNat - 48)
  else if 'a' ≤ c ∧ c ≤ 'f' then some (c.toNat - 87)
  else if 'A' ≤ c ∧ c ≤ 'F' then some (c.toNat - 55)
  else none

/-- Parse an even-length hex string (no 0x prefix; "-" or "" mean empty). -/
def bytesOfHex? (s : String) : Option (List UInt8) :=
  if s == "-" then some [] else
  let rec go : List Char → List UInt8 → Option (List UInt8)
    | [], acc => some acc.reverse
    | [_], _ => none
    | a :: b :: rest, acc =>
      match hexVal? a, hexVal? b with
      | some x, some y => go rest (UInt8.ofNat (x * 16 + y) :: acc)
      | _, _ => none
  go s.toList []

def byteArrayOfHex? (s : String) : Option ByteArray :=
  (bytesOfHex? s).map fun l => ByteArray.mk l.toArray

/-- big-endian bytes → Nat -/
def natOfBytesBE (bs : List UInt8) : Nat :=
  bs.foldl (fun acc b => acc * 256 + b.toNat) 0

/-- Nat → minimal big-endian bytes (0 ↦ []) -/
def bytesOfNatBE (n : Nat) : List UInt8 :=
  let rec go (fuel : Nat) (n : Nat) (acc : List UInt8) : List UInt8 :=
    match fuel with
    | 0 => acc
    | fuel + 1 => if n = 0 then acc else go fuel (n / 256) (UInt8.ofNat (n % 256) :: acc)
  go (n + 1) n []

/-- Nat → fixed-width big-endian bytes (truncating on the left) -/
def bytesOfNatBEFixed (width : Nat) (n : Nat) : List UInt8 :=
  (List.range width).reverse.map fun i => UInt8.ofNat ((n / 256 ^ i) % 256)

/-- Split a protocol line into fields (single spaces; trailing newline removed). -/
def fields (line : String) : List String :=
  let l := line.trimAscii.toString
  if l.isEmpty then [] else l.splitOn " "

def int? (s : String) : Option Int := s.toInt?
def nat? (s : String) : Option Nat := s.toNat?

/-- Generic stdin→stdout loop for a stateful line-protocol model. -/
partial def runLoop {σ : Type} (init : σ) (step : σ → String → σ × String) : IO Unit := do
  let stdin ← IO.getStdin
  let stdout ← IO.getStdout
  let rec loop (s : σ) (n : Nat) : IO Unit := do
    let line ← stdin.getLine
    if line.isEmpty then
      stdout.flush
      return ()
    let (s', out) := step s line
    stdout.putStrLn out
    -- flush on every line: the harness may interleave request/response
    stdout.flush
    loop s' (n + 1)
  loop init 0

end YouVerif.Common
