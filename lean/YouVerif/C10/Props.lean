/-
C10 — property theorems.  "Committed state is exactly recoverable and its roots depend only on content."
Model: YouVerif/C10/Model.lean (hand-written, tied to core/state by the correspondence harness go/cmd/c10).
`P : Prim` (Keccak-256 and the secure-trie root function) is uninterpreted throughout.
-/
import YouVerif.C10.Proofs
namespace YouVerif.C10

/-! ## 1. roots are a function of content -/

/-- extensional equality of the three stores (as the leaves their tries hold) -/
def TEq (t₁ t₂ : Tries) : Prop :=
  CEq t₁.acct t₂.acct ∧ CEq (valContent t₁.val) (valContent t₂.val) ∧ CEq (stkContent t₁.stk) (stkContent t₂.stk)

/-- Roots depend only on content: two triples of stores holding the same leaves — whatever the order, grouping or
number of writes that produced them (shadowed older bindings, deletes, re-writes) — have the same three roots. -/
theorem roots_content_only (P : Prim) (t₁ t₂ : Tries) (h : TEq t₁ t₂) : rootsOf P t₁ = rootsOf P t₂ := by
  obtain ⟨h1, h2, h3⟩ := h
  simp [rootsOf, norm_ext h1, norm_ext h2, norm_ext h3]

/-- test (non-vacuity): two different write histories of the same content -/
example : TEq { acct := cput (cput (cput [] [1] [7]) [2] [8]) [1] [9] } { acct := cput (cput [] [1] [9]) [2] [8] } := by
  refine ⟨?_, CEq.refl _, CEq.refl _⟩
  intro k
  simp only [cget_cput, cget_nil]
  by_cases h1 : ([1] : Bytes) = k
  · subst h1; simp
  · by_cases h2 : ([2] : Bytes) = k <;> simp [h1, h2]


/-- Content level: folding a set of writes with distinct keys into a store gives the same content — hence
(`roots_content_only`) the same root — in any order. -/
theorem writes_order_independent (P : Prim) (c : Content) (l₁ l₂ : List (Bytes × Bytes)) (hp : l₁.Perm l₂)
    (hn : (l₁.map (·.1)).Nodup) :
    CEq (writeAll c l₁) (writeAll c l₂) ∧ P.root (norm (writeAll c l₁)) = P.root (norm (writeAll c l₂)) :=
  ⟨writeAll_perm c l₁ l₂ hp hn, by rw [norm_ext (writeAll_perm c l₁ l₂ hp hn)]⟩

/-- writes to distinct keys commute, and for one key the last write wins -/
theorem writes_commute_last_wins (c : Content) (k₁ v₁ k₂ v₂ : Bytes) :
    (k₁ ≠ k₂ → CEq (cput (cput c k₁ v₁) k₂ v₂) (cput (cput c k₂ v₂) k₁ v₁)) ∧ CEq (cput (cput c k₁ v₁) k₁ v₂) (cput c k₁ v₂) :=
  ⟨cput_comm c k₁ v₁ k₂ v₂, cput_last_wins c k₁ v₁ v₂⟩

/-- test (non-vacuity of the distinct-keys hypothesis) -/
example : (([([1], [7]), ([2], [8])] : List (Bytes × Bytes)).map (·.1)).Nodup := by decide

/-! ## 2. the flush does not depend on the iteration order of the dirty sets (Go maps) -/

/-- IntermediateRoot iterates `journal.dirties`, `stateObjectsPending`, `validatorObjectsDirty` and
`stakingRecordsDirty` in Go map order.  For every permutation of all four, the account leaves, the validator
record leaves and the staking record leaves written are the same.  (The index / statistics singletons are covered
by `flush_order_independent_statement` below.) -/
theorem flush_order_independent (P : Prim) (del : Bool) (s : St) (j p d r : List Bytes)
    (hj : j.Perm s.acctJ) (hp : p.Perm s.acctP) (hd : d.Perm s.valD) (hr : r.Perm s.recD) :
    let s' := { s with acctJ := j, acctP := p, valD := d, recD := r }
    CEq (iroot P del s').t.acct (iroot P del s).t.acct ∧
    CEq (iroot P del s').t.val.vals (iroot P del s).t.val.vals ∧
    CEq (iroot P del s').t.stk.recs (iroot P del s).t.stk.recs := by
  intro s'
  refine ⟨?_, ?_, ?_⟩
  · intro a
    rw [iroot_acct_get, iroot_acct_get, finalise_get, finalise_get]
    simp only [s', hj.mem_iff, hp.mem_iff]
  · intro a
    rw [iroot_vals_get, iroot_vals_get]
    simp only [s', hd.mem_iff]
  · intro k
    rw [iroot_recs_get, iroot_recs_get]
    simp only [s', hr.mem_iff]

/-- full statement (all leaves of all three tries, i.e. including the saved index and statistics).  Not proved: the
statistics are decremented with a *clamped* subtraction when a validator is deleted at the flush, which commutes
only while no clamp fires (deleted validators have zero stake and token in every generated history). -/
def flush_order_independent_statement : Prop :=
  ∀ (P : Prim) (del : Bool) (s : St) (j p d r : List Bytes), j.Perm s.acctJ → p.Perm s.acctP → d.Perm s.valD → r.Perm s.recD →
    (∀ a v, a ∈ s.valD → aget s.vals a = some v → wd del v = true → v.stake = 0 ∧ v.token = 0) →
    TEq (iroot P del { s with acctJ := j, acctP := p, valD := d, recD := r }).t (iroot P del s).t

/-! ## 3. the flush depends on the logical state only (regrouping of writes and flush points) -/

/-- cache coherence: a live object that is neither journal-dirty nor pending is exactly what the trie holds -/
def CohA (P : Prim) (s : St) : Prop :=
  ∀ a o, aget s.accts a = some o → a ∉ s.acctJ → a ∉ s.acctP → cget s.t.acct a = acctLeaf P o

/-- after IntermediateRoot the leaf of every live object is the encoding of the (finalised) object — also of the
objects flushed by earlier IntermediateRoot calls, wherever those were placed -/
theorem iroot_leaf_of_live (P : Prim) (del : Bool) (s : St) (h : CohA P s) (a : Bytes) (o : Acct)
    (ho : aget (finalise del s).accts a = some o) : cget (iroot P del s).t.acct a = acctLeaf P o := by
  rw [iroot_acct_get]
  by_cases hd : a ∈ s.acctJ ∨ a ∈ s.acctP
  · rw [if_pos hd, ho]; rfl
  · rw [if_neg hd]
    have hj : a ∉ s.acctJ := fun h' => hd (Or.inl h')
    have hp : a ∉ s.acctP := fun h' => hd (Or.inr h')
    rw [finalise_get, if_neg hj] at ho
    exact h a o ho hj hp

/-- Two states — reached by any histories, with any placement of Finalise / IntermediateRoot calls and any dirty
bookkeeping — that hold the same (finalised) live objects and the same leaves where no object is live, flush to the
same account trie content; hence (`roots_content_only`) to the same root. -/
theorem flush_depends_on_objects_only (P : Prim) (del : Bool) (s₁ s₂ : St) (h₁ : CohA P s₁) (h₂ : CohA P s₂)
    (hv : ∀ a, aget (finalise del s₁).accts a = aget (finalise del s₂).accts a)
    (hb : ∀ a, aget (finalise del s₁).accts a = none → cget s₁.t.acct a = cget s₂.t.acct a) :
    CEq (iroot P del s₁).t.acct (iroot P del s₂).t.acct := by
  intro a
  cases ho : aget (finalise del s₁).accts a with
  | some o => rw [iroot_leaf_of_live P del s₁ h₁ a o ho, iroot_leaf_of_live P del s₂ h₂ a o ((hv a).symm.trans ho)]
  | none =>
    have ho2 : aget (finalise del s₂).accts a = none := (hv a).symm.trans ho
    rw [iroot_acct_get, iroot_acct_get, ho, ho2]
    simp [hb a ho]

/-! ## 4. commit, then reopen from the three roots -/

-- (section rewritten below once the whole-history theorems are in place)

/-! ## 5. a copy is equal to and independent of the original (value semantics) -/

/-- On the model `Copy` is the identity and states are values: whatever is done to the original afterwards, the copy
shows and flushes to what the original showed and would have flushed to at the copy point, and vice versa.  (That the
real `Copy` has value semantics is an aliasing property: observed on the real objects by the harness — this is where
the three defects F-C10a/b/c were found.) -/
theorem copy_equal_independent (P : Prim) (s : St) (opsOrig opsCopy : List Op) (del : Bool) :
    obs P (copy s) = obs P s ∧ roots P (iroot P del (copy s)) = roots P (iroot P del s) ∧
    (run P s opsOrig, run P (copy s) opsCopy) = (run P s opsOrig, run P s opsCopy) :=
  ⟨rfl, rfl, rfl⟩

end YouVerif.C10
