/-
C10 — property theorems.  "Committed state is exactly recoverable and its roots depend only on content."
Model: YouVerif/C10/Model.lean (hand-written, tied to core/state by the correspondence harness go/cmd/c10).
`P : Prim` (Keccak-256 and the secure-trie root function) is uninterpreted throughout.
-/
import YouVerif.C10.Proofs
import YouVerif.C10.ProofsInv
namespace YouVerif.C10

/-! ## 1. roots are a function of content -/

/-- extensional equality of the three stores (as the leaves their tries hold) -/
def TEq (t₁ t₂ : Tries) : Prop :=
  CEq t₁.acct t₂.acct ∧ CEq (valContent t₁.val) (valContent t₂.val) ∧ CEq (stkContent t₁.stk) (stkContent t₂.stk)

/-- Roots depend only on content: two triples of stores holding the same leaves — whatever the order, grouping or
number of writes that produced them (shadowed older bindings, deletes, re-writes) — have the same three roots. -/
theorem roots_content_only (P : Prim) (t₁ t₂ : Tries) (h : TEq t₁ t₂) : rootsOf P t₁ = rootsOf P t₂ := by
  obtain ⟨h1, h2, h3⟩ := h
  simp [rootsOf, norm_ext h1, norm_ext h2, norm_ext h3]

/-- test (non-vacuity): two different write histories of the same content -/
example : TEq { acct := cput (cput (cput [] [1] [7]) [2] [8]) [1] [9] } { acct := cput (cput [] [1] [9]) [2] [8] } := by
  refine ⟨?_, CEq.refl _, CEq.refl _⟩
  intro k
  simp only [cget_cput, cget_nil]
  by_cases h1 : ([1] : Bytes) = k
  · subst h1; simp
  · by_cases h2 : ([2] : Bytes) = k <;> simp [h1, h2]


/-- Content level: folding a set of writes with distinct keys into a store gives the same content — hence
(`roots_content_only`) the same root — in any order. -/
theorem writes_order_independent (P : Prim) (c : Content) (l₁ l₂ : List (Bytes × Bytes)) (hp : l₁.Perm l₂)
    (hn : (l₁.map (·.1)).Nodup) :
    CEq (writeAll c l₁) (writeAll c l₂) ∧ P.root (norm (writeAll c l₁)) = P.root (norm (writeAll c l₂)) :=
  ⟨writeAll_perm c l₁ l₂ hp hn, by rw [norm_ext (writeAll_perm c l₁ l₂ hp hn)]⟩

/-- writes to distinct keys commute, and for one key the last write wins -/
theorem writes_commute_last_wins (c : Content) (k₁ v₁ k₂ v₂ : Bytes) :
    (k₁ ≠ k₂ → CEq (cput (cput c k₁ v₁) k₂ v₂) (cput (cput c k₂ v₂) k₁ v₁)) ∧ CEq (cput (cput c k₁ v₁) k₁ v₂) (cput c k₁ v₂) :=
  ⟨cput_comm c k₁ v₁ k₂ v₂, cput_last_wins c k₁ v₁ v₂⟩

/-- test (non-vacuity of the distinct-keys hypothesis) -/
example : (([([1], [7]), ([2], [8])] : List (Bytes × Bytes)).map (·.1)).Nodup := by decide

/-! ## 2. the flush does not depend on the iteration order of the dirty sets (Go maps) -/

/-- IntermediateRoot iterates `journal.dirties`, `stateObjectsPending`, `validatorObjectsDirty` and
`stakingRecordsDirty` in Go map order.  For every permutation of all four, the account leaves, the validator
record leaves and the staking record leaves written are the same.  (Index / statistics singletons and the roots:
`flush_order_independent_full` below.) -/
theorem flush_order_independent (P : Prim) (del : Bool) (s : St) (j p d r : List Bytes)
    (hj : j.Perm s.acctJ) (hp : p.Perm s.acctP) (hd : d.Perm s.valD) (hr : r.Perm s.recD) :
    let s' := { s with acctJ := j, acctP := p, valD := d, recD := r }
    CEq (iroot P del s').t.acct (iroot P del s).t.acct ∧
    CEq (iroot P del s').t.val.vals (iroot P del s).t.val.vals ∧
    CEq (iroot P del s').t.stk.recs (iroot P del s).t.stk.recs := by
  intro s'
  refine ⟨?_, ?_, ?_⟩
  · intro a
    rw [iroot_acct_get, iroot_acct_get, finalise_get, finalise_get]
    simp only [s', hj.mem_iff, hp.mem_iff]
  · intro a
    rw [iroot_vals_get, iroot_vals_get]
    simp only [s', hd.mem_iff]
  · intro k
    rw [iroot_recs_get, iroot_recs_get]
    simp only [s', hr.mem_iff]

/-- **All leaves, hence all three roots.**  Under the explicit condition that no clamp fires at this flush (`NoClamp`:
every validator the flush deletes has zero stake and zero token — what `IsInvalid` means below 2^64; C08 proves
`clamp_never_fires` of its own model under its invariant) the saved index, statistics, withdraw queue and pending
relationships are byte-identical for every permutation of the four dirty sets; with 20-byte validator keys the three
stores hold the same leaves and the three roots are equal. -/
theorem flush_order_independent_full (P : Prim) (del : Bool) (s : St) (j p d r : List Bytes)
    (hj : j.Perm s.acctJ) (hp : p.Perm s.acctP) (hd : d.Perm s.valD) (hr : r.Perm s.recD) (hz : NoClamp del s)
    (hk : Addr20 (iroot P del { s with acctJ := j, acctP := p, valD := d, recD := r }).t.val.vals)
    (hk' : Addr20 (iroot P del s).t.val.vals) :
    TEq (iroot P del { s with acctJ := j, acctP := p, valD := d, recD := r }).t (iroot P del s).t ∧
    roots P (iroot P del { s with acctJ := j, acctP := p, valD := d, recD := r }) = roots P (iroot P del s) := by
  obtain ⟨h1, h2, h3⟩ := flush_order_independent P del s j p d r hj hp hd hr
  obtain ⟨s1, s2, s3, s4⟩ := iroot_singles_perm P del s j p d r hd hz
  have ht : TEq (iroot P del { s with acctJ := j, acctP := p, valD := d, recD := r }).t (iroot P del s).t :=
    ⟨h1, CEq_valContent _ _ hk hk' h2 s1 s2 s3, CEq_stkContent _ _ h3 s4⟩
  exact ⟨ht, roots_content_only P _ _ ht⟩

/-- test (non-vacuity): a state whose flush deletes a zero-stake validator satisfies `NoClamp` -/
example : NoClamp true { vals := [([7], { token := 0, stake := 0 })], valD := [[7]] } := by
  intro a v _ hv _
  simp only [aget] at hv
  split at hv
  · simp at hv; subst hv; exact ⟨rfl, rfl⟩
  · simp at hv


/-- **A validator's delegation list does not depend on the order in which its delegators arrive.**  `dinsert` is the
sorted insert of `Validator.UpdateDelegationFrom` (what `UpdateDelegation` / the staking module perform for a non-empty
delegation: `dlgUpdate`); inserting any set of delegations with distinct delegators into a sorted list yields, for every
permutation of the arrivals, the same list, which is strictly sorted and in which the lookup finds every delegator. -/
theorem delegations_order_independent (l xs ys : List Dlg) (hs : DSorted l) (hp : xs.Perm ys)
    (hn : (xs.map (·.delegator)).Nodup) :
    dinsertAll l xs = dinsertAll l ys ∧ DSorted (dinsertAll l xs) ∧ (∀ x ∈ xs, dfind (dinsertAll l xs) x.delegator = some x) ∧
    (∀ x : Dlg, x.isEmpty = false → (dlgUpdate l x).1 = dinsert x l) := by
  refine ⟨dinsertAll_perm l xs ys hs hp hn, dinsertAll_sorted xs l hs, fun x hx => dfind_dinsertAll_mem xs l x hn hx, ?_⟩
  intro x hx
  unfold dlgUpdate
  cases dfind l x.delegator <;> simp [hx]

/-- test: three delegators arriving as d1,d3,d2 and as d2,d1,d3 give the list d1,d2,d3 -/
example : dinsertAll [] [⟨[1], 1, 1⟩, ⟨[3], 3, 3⟩, ⟨[2], 2, 2⟩] = [⟨[1], 1, 1⟩, ⟨[2], 2, 2⟩, ⟨[3], 3, 3⟩] ∧
    dinsertAll [] [⟨[2], 2, 2⟩, ⟨[1], 1, 1⟩, ⟨[3], 3, 3⟩] = [⟨[1], 1, 1⟩, ⟨[2], 2, 2⟩, ⟨[3], 3, 3⟩] := by decide

/-! ## 3. the flush depends on the logical state only (regrouping of writes and flush points) -/

/-- cache coherence: a live object that is neither journal-dirty nor pending is exactly what the trie holds -/
def CohA (P : Prim) (s : St) : Prop :=
  ∀ a o, aget s.accts a = some o → a ∉ s.acctJ → a ∉ s.acctP → cget s.t.acct a = acctLeaf P o

/-- after IntermediateRoot the leaf of every live object is the encoding of the (finalised) object — also of the
objects flushed by earlier IntermediateRoot calls, wherever those were placed -/
theorem iroot_leaf_of_live (P : Prim) (del : Bool) (s : St) (h : CohA P s) (a : Bytes) (o : Acct)
    (ho : aget (finalise del s).accts a = some o) : cget (iroot P del s).t.acct a = acctLeaf P o := by
  rw [iroot_acct_get]
  by_cases hd : a ∈ s.acctJ ∨ a ∈ s.acctP
  · rw [if_pos hd, ho]; rfl
  · rw [if_neg hd]
    have hj : a ∉ s.acctJ := fun h' => hd (Or.inl h')
    have hp : a ∉ s.acctP := fun h' => hd (Or.inr h')
    rw [finalise_get, if_neg hj] at ho
    exact h a o ho hj hp

/-- Two states — reached by any histories, with any placement of Finalise / IntermediateRoot calls and any dirty
bookkeeping — that hold the same (finalised) live objects and the same leaves where no object is live, flush to the
same account trie content; hence (`roots_content_only`) to the same root. -/
theorem flush_depends_on_objects_only (P : Prim) (del : Bool) (s₁ s₂ : St) (h₁ : CohA P s₁) (h₂ : CohA P s₂)
    (hv : ∀ a, aget (finalise del s₁).accts a = aget (finalise del s₂).accts a)
    (hb : ∀ a, aget (finalise del s₁).accts a = none → cget s₁.t.acct a = cget s₂.t.acct a) :
    CEq (iroot P del s₁).t.acct (iroot P del s₂).t.acct := by
  intro a
  cases ho : aget (finalise del s₁).accts a with
  | some o => rw [iroot_leaf_of_live P del s₁ h₁ a o ho, iroot_leaf_of_live P del s₂ h₂ a o ((hv a).symm.trans ho)]
  | none =>
    have ho2 : aget (finalise del s₂).accts a = none := (hv a).symm.trans ho
    rw [iroot_acct_get, iroot_acct_get, ho, ho2]
    simp [hb a ho]

/-! ## 4. every reachable state is coherent -/

/-- Every state reached from the empty state by any operation sequence (writes, Finalise, IntermediateRoot, Commit,
Copy, Commit+New in any order) satisfies the cache-coherence invariants: a clean live account / validator / staking
record is exactly what its trie holds, the pending relationships agree with their leaf, every leaf without a live object
is the encoding of an object whose storage trie, code and delegation list are in the content-addressed database.
(Proved operation by operation: `InvA_step`, `InvVSR_step`.) -/
theorem reachable_coherent (P : Prim) (ops : List Op) :
    CohA P (run P {} ops) ∧ CohV (run P {} ops) ∧ CohS (run P {} ops) ∧ CohR (run P {} ops) ∧ InvA P (run P {} ops) :=
  have hA := InvA_run P ops (InvA_empty P)
  have hV := InvVSR_run P ops InvVSR_empty
  ⟨hA.a1, hV.cv, hV.cs, hV.cr, hA⟩

/-- `flush_depends_on_objects_only` for all histories, without coherence hypotheses: two operation sequences that end
with the same (finalised) live objects and the same untouched leaves flush to the same account content and root. -/
theorem flush_depends_on_objects_only_reachable (P : Prim) (del : Bool) (ops₁ ops₂ : List Op)
    (hv : ∀ a, aget (finalise del (run P {} ops₁)).accts a = aget (finalise del (run P {} ops₂)).accts a)
    (hb : ∀ a, aget (finalise del (run P {} ops₁)).accts a = none → cget (run P {} ops₁).t.acct a = cget (run P {} ops₂).t.acct a) :
    (rootsOf P (iroot P del (run P {} ops₁)).t).root = (rootsOf P (iroot P del (run P {} ops₂)).t).root := by
  have h := flush_depends_on_objects_only P del _ _ (reachable_coherent P ops₁).1 (reachable_coherent P ops₂).1 hv hb
  simp [rootsOf, norm_ext h]

/-! ## 5. commit, then reopen from the three roots -/

/-- two different contents under one trie root, or two different byte strings under one hash -/
def Collision (P : Prim) : Prop :=
  (∃ c₁ c₂ : Content, c₁ ≠ c₂ ∧ P.root c₁ = P.root c₂) ∨ (∃ b₁ b₂ : Bytes, b₁ ≠ b₂ ∧ P.H b₁ = P.H b₂)

/-- **Reopen equality, for every history.**  After any operation sequence from the empty state and a `Commit`, `New` from
the three returned roots succeeds and the reopened state shows exactly what the live object shows — accounts with
storage, code, delegation balance and delegation list, validators, statistics, withdraw queue, staking records, pending
relationships (`obs`, the full enumeration) — **or a hash / trie-root collision exists**.  No injectivity axiom.
Visible side conditions: the hash never returns the empty string (Keccak returns 32 bytes), and every value stored in the
tries and the blob store is shorter than 2^64 bytes (the size bound of C14's RLP round trip `decode_encode`, which is
used here through `dec_enc`; nothing else is assumed about the codec). -/
theorem reopen_eq (P : Prim) (ops : List Op) (del : Bool) (hlen : ∀ b, P.H b ≠ [])
    (hsz : ∀ b ∈ storedValues (commit P del (run P {} ops)), b.length < 2 ^ 64) :
    (∃ s', openSt (commit P del (run P {} ops)).db (roots P (commit P del (run P {} ops))) = some s' ∧
        obs P s' = obs P (commit P del (run P {} ops))) ∨ Collision P := by
  by_cases hc : Collision P
  · exact Or.inr hc
  · left
    have hi : Inj P := by
      refine ⟨?_, ?_⟩
      · intro c₁ c₂ h
        apply Classical.byContradiction
        intro hne
        exact hc (Or.inl ⟨c₁, c₂, hne, h⟩)
      · intro b₁ b₂ h
        apply Classical.byContradiction
        intro hne
        exact hc (Or.inr ⟨b₁, b₂, hne, h⟩)
    exact reopen_obs P del _ (InvA_run P ops (InvA_empty P)) (InvVSR_run P ops InvVSR_empty) hi hlen hsz

/-- the validator-trie and staking-trie part needs neither collision-freeness nor the hash: every validator and staking
record, the statistics, the queue and the relationships of the reopened state are the live ones, for every history -/
theorem reopen_eq_validators_records (P : Prim) (ops : List Op) (del : Bool)
    (hsz : ∀ b ∈ storedValues (commit P del (run P {} ops)), b.length < 2 ^ 64) :
    openSt (commit P del (run P {} ops)).db (roots P (commit P del (run P {} ops))) = some (reopened (commit P del (run P {} ops))) ∧
    (∀ a, getVal (reopened (commit P del (run P {} ops))) a = getVal (commit P del (run P {} ops)) a) ∧
    (∀ k, getSRec (reopened (commit P del (run P {} ops))) k = getSRec (commit P del (run P {} ops)) k) := by
  have hV := InvVSR_run P ops InvVSR_empty
  have hdec : ∀ b ∈ storedValues (commit P del (run P {} ops)), DecOK b := fun b hb => decOK_of_small b (hsz b hb)
  have hget : ∀ (c : Content) (k : Bytes), (∀ b ∈ c.map (·.2), b ∈ storedValues (commit P del (run P {} ops))) → DecOK (cget c k) := by
    intro c k hc
    rcases cget_mem_or_nil c k with h | h
    · rw [h]; exact decOK_nil
    · exact hdec _ (hc _ h)
  refine ⟨?_, ?_, ?_⟩
  · exact reopen_loads P del _ hV.cr (hdec _ (by simp [storedValues])) (hdec _ (by simp [storedValues]))
      (hdec _ (by simp [storedValues])) (hdec _ (by simp [storedValues]))
  · intro a
    exact reopen_getVal P del _ (fun a => hget _ a (fun b hb => by simp [storedValues, hb])) hV.cv (reopened (commit P del (run P {} ops))) rfl rfl a
  · intro k
    exact reopen_getSRec P del _ (fun k => hget _ k (fun b hb => by simp [storedValues, hb])) hV.cs (reopened (commit P del (run P {} ops))) rfl rfl k

/-- test (non-vacuity): a hash that never returns the empty string exists; the size condition is about concrete data
(2^64 bytes = 16 EiB per stored value) and holds of every state a machine can hold -/
example : ∃ P : Prim, ∀ b, P.H b ≠ [] := ⟨⟨fun _ => [0], fun _ => []⟩, fun _ => by simp⟩

/-! ## 6. a copy is equal to and independent of the original — false of the code that exists (F-C10d) -/

/-- the clause as the property states it: at every copy point of every history, the copy shows what the original shows
under every subsequent operation sequence -/
def copy_equal_statement : Prop :=
  ∀ (P : Prim) (ops₀ ops : List Op), obs P (run P (copy (run P {} ops₀)) ops) = obs P (run P (run P {} ops₀) ops)

/-- **Counterexample (known finding F-C10d, replayed on the real code: corpus/C10/resurrected-balance.replay).**
`a` is funded, self-destructs, is credited 7 in the same transaction, the state is committed.  The deleted object stays
in the live cache with balance 7; `CreateAccount(a)` on the live object carries the 7 over, on a `Copy()` (which does not
take clean deleted objects along) the new account has balance 0. -/
theorem copy_equal_counterexample : ¬ copy_equal_statement := by
  intro h
  have := congrArg Obs.accts (h ⟨fun _ => [0], fun _ => [1]⟩
    [.setBalance [1] 5, .finalise true, .suicide [1], .addBalance [1] 7, .commit true] [.createContract [1]])
  revert this
  decide

/-- no deleted object in the live cache holds a non-zero balance (true as long as nothing is credited to an account
after it self-destructed in the same transaction) -/
def NoResidue (s : St) : Prop := ∀ a o, aget s.accts a = some o → o.deleted = true → o.balance = 0

/-- the balance `CreateAccount(a)` would carry over -/
def carried (P : Prim) (s : St) (a : Bytes) : Nat := match rawAcct P s a with | some o => o.balance | none => 0

/-- the guarded clause (NOT proved as a whole): with `NoResidue` at the copy point and along the continuation the copy
shows what the original shows under every subsequent operation sequence.  Proved below: everything at the copy point. -/
def copy_equal_guarded_statement : Prop :=
  ∀ (P : Prim) (ops₀ ops : List Op), (∀ pre, pre <+: ops → NoResidue (run P (run P {} ops₀) pre)) →
    obs P (run P (copy (run P {} ops₀)) ops) = obs P (run P (run P {} ops₀) ops)

/-- **What holds at every copy point of every history**: the copy shows exactly what the original shows (the full
enumeration), every account getter agrees, it is coherent again (so all flush / reopen theorems apply to it), and — under
the explicit hypothesis `NoResidue` — also the one hidden quantity a later operation can read, the balance
`CreateAccount` carries over, agrees.  (Independence from the original is value semantics in the model; aliasing in the
real `Copy` is observed by the harness only.) -/
theorem copy_equal_partial (P : Prim) (ops₀ : List Op) :
    let s := run P {} ops₀
    obs P (copy s) = obs P s ∧ (∀ a, getAcct P (copy s) a = getAcct P s a) ∧ InvA P (copy s) ∧
    (NoResidue s → ∀ a, carried P (copy s) a = carried P s a) := by
  intro s
  have hA : InvA P s := InvA_run P ops₀ (InvA_empty P)
  have hraw : ∀ a, rawAcct P (copy s) a = if dropKey s a = true then none else rawAcct P s a := by
    intro a
    unfold rawAcct
    rw [copy_get]
    by_cases hd : dropKey s a = true
    · obtain ⟨o, h1, h2, h3, h4, _⟩ := dropKey_spec hd
      have hl := hA.a1 a o h1 h3 h4
      simp only [acctLeaf, h2, if_true] at hl
      have e1 : (copy s).t = s.t := rfl
      simp [hd, e1, hl]
    · have e1 : (copy s).t = s.t := rfl
      have e2 : (copy s).db = s.db := rfl
      simp [hd, e1, e2]
  have hget : ∀ a, getAcct P (copy s) a = getAcct P s a := by
    intro a
    unfold getAcct
    rw [hraw]
    by_cases hd : dropKey s a = true
    · obtain ⟨o, h1, h2, _⟩ := dropKey_spec hd
      simp [hd, rawAcct, h1, h2]
    · simp [hd]
  refine ⟨?_, hget, InvA_copy hA, ?_⟩
  · simp only [obs, Obs.mk.injEq]
    refine ⟨?_, rfl, rfl, rfl, rfl, rfl⟩
    have hk : acctKeys (copy s) = acctKeys s := by
      unfold acctKeys
      apply sortKeys_ext
      intro x
      have e1 : (copy s).t = s.t := rfl
      rw [e1]
      simp only [List.mem_append]
      constructor
      · rintro (h | h)
        · obtain ⟨o, ho⟩ := aget_some_of_mem_keys _ _ h
          rw [copy_get] at ho
          by_cases hd : dropKey s x = true
          · rw [if_pos hd] at ho; simp at ho
          · rw [if_neg hd] at ho
            rcases hA.a4 x o ho with h' | h' | h'
            · left
              have : ∃ o, aget s.accts x = some o := ⟨o, ho⟩
              exact mem_keys_of_aget _ _ this
            · left; exact mem_keys_of_aget _ _ ⟨o, ho⟩
            · exact Or.inr h'
        · exact Or.inr h
      · rintro (h | h)
        · obtain ⟨o, ho⟩ := aget_some_of_mem_keys _ _ h
          by_cases hd : dropKey s x = true
          · obtain ⟨o', h1, _, h3, h4, _⟩ := dropKey_spec hd
            rcases hA.a4 x o' h1 with h' | h' | h'
            · exact absurd h' h3
            · exact absurd h' h4
            · exact Or.inr h'
          · left
            apply mem_keys_of_aget
            exact ⟨o, by rw [copy_get, if_neg hd]; exact ho⟩
        · exact Or.inr h
    rw [hk]
    apply filterMap_congr'
    intro a _
    rw [hget a]
  · intro hn a
    unfold carried
    rw [hraw]
    by_cases hd : dropKey s a = true
    · obtain ⟨o, h1, h2, _⟩ := dropKey_spec hd
      simp [hd, rawAcct, h1, hn a o h1 h2]
    · simp [hd]

/-- test (non-vacuity): `NoResidue` holds of a state with a self-destructed, committed account nobody credited -/
example : NoResidue (run ⟨fun _ => [0], fun _ => [1]⟩ {} [.setBalance [1] 5, .finalise true, .suicide [1], .commit true]) := by
  intro a o h hd
  by_cases ha : a = [1]
  · subst ha
    have : aget (run ⟨fun _ => [0], fun _ => [1]⟩ {} [.setBalance [1] 5, .finalise true, .suicide [1], .commit true]).accts [1]
        = some { balance := 0, suicided := true, deleted := true } := by decide
    rw [this] at h; simp at h; rw [← h]
  · have : aget (run ⟨fun _ => [0], fun _ => [1]⟩ {} [.setBalance [1] 5, .finalise true, .suicide [1], .commit true]).accts a = none := by
      have e : (run ⟨fun _ => [0], fun _ => [1]⟩ {} [.setBalance [1] 5, .finalise true, .suicide [1], .commit true]).accts
          = [([1], { balance := 0, suicided := true, deleted := true }), ([1], { balance := 0, suicided := true }),
             ([1], { balance := 5 })] := by decide
      rw [e]
      have ha' : ¬ ([1] : Bytes) = a := fun e => ha e.symm
      simp [aget, ha']
    rw [this] at h; simp at h

end YouVerif.C10
