/-
C10 — property theorems.  "Committed state is exactly recoverable and its roots depend only on content."
Model: YouVerif/C10/Model.lean (hand-written, tied to core/state by the correspondence harness go/cmd/c10).
`P : Prim` (Keccak-256 and the secure-trie root function) is uninterpreted throughout.
-/
import YouVerif.C10.Proofs
namespace YouVerif.C10

/-- extensional equality of the three stores (as the leaves their tries hold) -/
def TEq (t₁ t₂ : Tries) : Prop :=
  CEq t₁.acct t₂.acct ∧ CEq (valContent t₁.val) (valContent t₂.val) ∧ CEq (stkContent t₁.stk) (stkContent t₂.stk)

/-- Roots depend only on content: two triples of stores holding the same leaves — whatever the order, grouping or
number of writes that produced them (shadowed older bindings, deletes, re-writes) — have the same three roots. -/
theorem roots_content_only (P : Prim) (t₁ t₂ : Tries) (h : TEq t₁ t₂) : rootsOf P t₁ = rootsOf P t₂ := by
  obtain ⟨h1, h2, h3⟩ := h
  simp [rootsOf, norm_ext h1, norm_ext h2, norm_ext h3]

end YouVerif.C10
