/-
Executable instance of `Prim` for the driver: Keccak-256 and the root hash of a *secure* Merkle-Patricia
trie built directly from its canonical content (keys are hashed, hence all 64 nibbles long and
prefix-free: branch value slots stay empty).  The theorems of C10 never look inside: they treat
`Prim.root` as an uninterpreted function of the canonical content (C13 is about the trie itself).
Compared with the Go tries byte for byte on every flush of every correspondence case.
-/
import YouVerif.C10.Model
import YouVerif.Common.Keccak
namespace YouVerif.C10
open YouVerif.Common YouVerif.Common.Rlp

def nibbles (b : Bytes) : List Nat := b.flatMap (fun x => [x.toNat / 16, x.toNat % 16])

def packNibs : List Nat → Bytes
  | a :: b :: t => UInt8.ofNat (a * 16 + b) :: packNibs t
  | _ => []

/-- hex-prefix (compact) encoding -/
def hexPrefix (nibs : List Nat) (leaf : Bool) : Bytes :=
  let flag := if leaf then 2 else 0
  match nibs.length % 2, nibs with
  | 1, n :: t => UInt8.ofNat ((flag + 1) * 16 + n) :: packNibs t
  | _, _ => UInt8.ofNat (flag * 16) :: packNibs nibs

def commonPrefix : List Nat → List Nat → List Nat
  | a :: as, b :: bs => if a = b then a :: commonPrefix as bs else []
  | _, _ => []

/-- a child reference: nodes shorter than 32 bytes are embedded, others replaced by their hash -/
def nodeRef (it : Item) : Item :=
  let e := Rlp.encode it
  if e.length < 32 then it else .str (Keccak.hash e)

/-- node for a non-empty set of (remaining nibbles, value) with distinct, equally long keys -/
def mptNode : Nat → List (List Nat × Bytes) → Item
  | 0, _ => .str []
  | _, [] => .str []
  | _, [(k, v)] => .list [.str (hexPrefix k true), .str v]
  | fuel + 1, (k, v) :: rest =>
    let items := (k, v) :: rest
    let p := rest.foldl (fun p kv => commonPrefix p kv.1) k
    if p.length > 0 then
      .list [.str (hexPrefix p false), nodeRef (mptNode fuel (items.map (fun kv => (kv.1.drop p.length, kv.2))))]
    else
      .list ((List.range 16).map (fun i =>
                nodeRef (mptNode fuel ((items.filter (fun kv => kv.1.head? == some i)).map (fun kv => (kv.1.drop 1, kv.2)))))
             ++ [.str []])

def mptRootExec (c : Content) : Bytes :=
  Keccak.hash (Rlp.encode (mptNode 70 (c.map (fun kv => (nibbles (Keccak.hash kv.1), kv.2)))))

def execPrim : Prim := { H := Keccak.hash, root := mptRootExec }

end YouVerif.C10
