/-
C10 — invariants of reachable states: the cache-coherence invariants are preserved by every operation of
`step`, hence hold after every history from the empty state.  Also: C14's untyped RLP round trip imported
into C10's vocabulary.
-/
import YouVerif.C10.Proofs
import YouVerif.C14.ProofsUntyped
namespace YouVerif.C10
open YouVerif.Common.Rlp YouVerif.C14

/-! ## C14's theorems about Common/Rlp.lean -/

/-- round trip of the untyped codec (C14 `decode_encode`), size bound visible -/
theorem dec_enc (i : Item) (h : (enc i).length < 2 ^ 64) : dec (enc i) = some i := by
  unfold dec enc at *
  have hf := fits_of_len i h
  have hn := need_le i
  have := (complete_both (2 * (encode i).length + 2)).1 i [] hf (by omega)
  simp only [List.append_nil] at this
  simp [decode, this]

/-- accept ⇒ canonical (C14 `encode_decode`): what decodes is the encoding of what it decodes to -/
theorem enc_of_dec (b : Bytes) (i : Item) (h : dec b = some i) : enc i = b := by
  unfold dec at h
  unfold enc
  cases hd : decode b with
  | error e => rw [hd] at h; simp at h
  | ok i' =>
    rw [hd] at h
    simp at h
    subst h
    unfold decode at hd
    split at hd
    · simp at hd
    · next i'' hd' =>
      simp at hd; subst hd
      have := decodeItem_sound' _ _ _ _ hd'
      simpa using this.symm
    · simp at hd

theorem decOK_of_small (b : Bytes) (h : b.length < 2 ^ 64) : DecOK b := by
  intro i hi
  subst hi
  exact dec_enc i h

/-! ## shapes, inverse direction -/

theorem mapM_pB_inv : ∀ (items : List Item) (l : List Bytes), items.mapM pB = some l → l.map iB = items := by
  intro items
  induction items with
  | nil => intro l h; simp at h; subst h; rfl
  | cons x t ih =>
    intro l h
    simp only [List.mapM_cons, Option.bind_eq_bind, Option.bind_eq_some_iff, Option.pure_def] at h
    obtain ⟨b, hb, bs, hbs, hl⟩ := h
    simp at hl
    subst hl
    cases x with
    | list _ => simp [pB] at hb
    | str y =>
      simp [pB] at hb; subst hb
      simp [iB, ih bs hbs]

theorem bytesList_inv (i : Item) (l : List Bytes) (h : bytesListOfItem i = some l) : bytesListItem l = i := by
  cases i with
  | str _ => simp [bytesListOfItem] at h
  | list items =>
    simp only [bytesListOfItem] at h
    simp [bytesListItem, iL, mapM_pB_inv items l h]

/-! ## New -/

theorem openSt_some {db : Db} {r : Roots} {s' : St} (h : openSt db r = some s') :
    s'.db = db ∧ s'.accts = [] ∧ s'.acctJ = [] ∧ s'.acctP = [] ∧ s'.acctU = [] ∧ s'.vals = [] ∧ s'.valD = [] ∧
    s'.recs = [] ∧ s'.recD = [] ∧ s'.relatsDirty = false ∧
    aget db.acctT r.root = some s'.t.acct ∧ aget db.valT r.valRoot = some s'.t.val ∧ aget db.stkT r.stakingRoot = some s'.t.stk ∧
    loadList s'.t.stk.relats = some s'.relats ∧ loadList s'.t.val.index = some s'.index ∧
    loadStat s'.t.val.stat = some s'.stat ∧ loadQueue s'.t.val.queue = some s'.queue := by
  unfold openSt at h
  simp only [Option.bind_eq_some_iff] at h
  obtain ⟨acct, ha, val, hv, stk, hk, index, hi, stat, hst, queue, hq, relats, hr, hs⟩ := h
  simp at hs
  subst hs
  exact ⟨rfl, rfl, rfl, rfl, rfl, rfl, rfl, rfl, rfl, rfl, ha, hv, hk, hr, hi, hst, hq⟩



/-! ## validators, staking records, pending relationships: invariants of every operation -/

/-- live staking records have their key in the dirty set or in the trie -/
def KeysS (s : St) : Prop := ∀ k r, aget s.recs k = some r → k ∈ s.recD ∨ k ∈ s.t.stk.recs.map (·.1)

structure InvVSR (s : St) : Prop where
  cv : CohV s
  cs : CohS s
  cr : CohR s
  ks : KeysS s

theorem InvVSR_of_eq {s s' : St} (h : InvVSR s) (h1 : s'.vals = s.vals) (h2 : s'.valD = s.valD) (h3 : s'.t.val.vals = s.t.val.vals)
    (h4 : s'.recs = s.recs) (h5 : s'.recD = s.recD) (h6 : s'.t.stk = s.t.stk) (h7 : s'.relats = s.relats)
    (h8 : s'.relatsDirty = s.relatsDirty) : InvVSR s' := by
  refine ⟨?_, ?_, ?_, ?_⟩
  · intro a v; rw [h1, h2, h3]; exact h.cv a v
  · intro k r; rw [h4, h5, h6]; exact h.cs k r
  · unfold CohR; rw [h6, h7, h8]; exact h.cr
  · intro k r; rw [h4, h5, h6]; exact h.ks k r

theorem InvVSR_putVal {s : St} (h : InvVSR s) (a : Bytes) (v : Val) (st : Stat) : InvVSR { putVal s a v with stat := st } := by
  refine ⟨?_, h.cs, h.cr, h.ks⟩
  intro a' v' hv hd
  simp only [putVal, aget_aput, mem_addIfNew, not_or] at hv hd
  have hne : ¬ a = a' := fun e => hd.1 e.symm
  rw [if_neg hne] at hv
  exact h.cv a' v' hv hd.2

theorem mem_keys_foldl_putOpt (f : Bytes → Option Bytes) (l : List Bytes) (c : Content) (k : Bytes) :
    (k ∈ c.map (·.1) → k ∈ (l.foldl (putOpt f) c).map (·.1)) ∧
    (k ∈ l → (f k).isSome → k ∈ (l.foldl (putOpt f) c).map (·.1)) := by
  induction l generalizing c with
  | nil => simp
  | cons a t ih =>
    simp only [List.foldl_cons]
    have hstep : k ∈ c.map (·.1) → k ∈ (putOpt f c a).map (·.1) := by
      intro hk; unfold putOpt; cases f a <;> simp [cput, hk]
    constructor
    · intro hk; exact (ih (putOpt f c a)).1 (hstep hk)
    · intro hk hs
      rcases List.mem_cons.mp hk with h | h
      · subst h
        apply (ih (putOpt f c k)).1
        unfold putOpt
        cases hf : f k with
        | none => rw [hf] at hs; simp at hs
        | some v => simp [cput]
      · exact (ih (putOpt f c a)).2 h hs

theorem iroot_fields_vsr (P : Prim) (del : Bool) (s : St) :
    (iroot P del s).valD = [] ∧ (iroot P del s).recD = [] ∧ (iroot P del s).relats = s.relats := by
  unfold iroot
  obtain ⟨_, _, _, _, f5, _, f7⟩ := flushRelats_frame2 (flushRecs (saveSingles (flushVals del (flushAccts P (finalise del s)))))
  refine ⟨?_, ?_, ?_⟩
  · rw [f5]; simp [flushRecs, saveSingles, flushVals]
  · rw [f7]; simp [flushRecs]
  · unfold flushRelats
    have : (flushRecs (saveSingles (flushVals del (flushAccts P (finalise del s))))).relats = s.relats := by
      simp only [flushRecs, saveSingles, flushVals]
      rw [(foldl_flushVal_frame2 del _ _).1]
      simp [flushAccts, finalise]
    split <;> simp [this]

theorem InvVSR_iroot (P : Prim) (del : Bool) {s : St} (h : InvVSR s) : InvVSR (iroot P del s) := by
  obtain ⟨e1, e2, e3⟩ := iroot_fields_vsr P del s
  refine ⟨?_, ?_, ?_, ?_⟩
  · intro a v hv _; exact iroot_cohV P del s h.cv a v hv
  · intro k r hr _; exact iroot_cohS P del s h.cs k r hr
  · intro _; exact iroot_relats_saved P del s h.cr
  · intro k r hr
    right
    rw [iroot_recs_live] at hr
    rw [iroot_recs, flushRec_eq]
    rcases h.ks k r hr with hd | hk
    · exact (mem_keys_foldl_putOpt _ _ _ k).2 hd (by simp [hr])
    · exact (mem_keys_foldl_putOpt _ _ _ k).1 hk

theorem InvVSR_open {db : Db} {r : Roots} {s' : St} (h : openSt db r = some s') : InvVSR s' := by
  obtain ⟨_, _, _, _, _, hv, _, hr, _, hrd, _, _, _, hl, _⟩ := openSt_some h
  refine ⟨?_, ?_, ?_, ?_⟩
  · intro a v hv'; rw [hv] at hv'; simp [aget] at hv'
  · intro k r' hr'; rw [hr] at hr'; simp [aget] at hr'
  · intro _
    unfold loadList at hl
    by_cases he : s'.t.stk.relats = []
    · rw [if_pos he] at hl; simp at hl; exact Or.inr ⟨he, hl⟩
    · rw [if_neg he] at hl
      simp only [Option.bind_eq_some_iff] at hl
      obtain ⟨i, hi, hb⟩ := hl
      left
      rw [bytesList_inv i _ hb]
      exact (enc_of_dec _ _ hi).symm
  · intro k r' hr'; rw [hr] at hr'; simp [aget] at hr'

theorem InvVSR_updateValF {s : St} (h : InvVSR s) (a : Bytes) (v : Val) : InvVSR (updateValF s a v) := by
  unfold updateValF
  split
  · split
    · exact InvVSR_of_eq (InvVSR_putVal h a v s.stat) rfl rfl rfl rfl rfl rfl rfl rfl
    · exact InvVSR_putVal h a v _
  · exact h

theorem InvVSR_updDelegatorF (P : Prim) {s : St} (h : InvVSR s) (a v : Bytes) (d : Int) (del : Bool) :
    InvVSR (updDelegatorF P s a v d del) := by
  unfold updDelegatorF
  split
  · exact InvVSR_of_eq h rfl rfl rfl rfl rfl rfl rfl rfl
  · exact h

theorem InvVSR_step (P : Prim) {s : St} (h : InvVSR s) (op : Op) : InvVSR (step P s op) := by
  cases op with
  | setBalance a n => exact InvVSR_of_eq h rfl rfl rfl rfl rfl rfl rfl rfl
  | addBalance a n => exact InvVSR_of_eq h rfl rfl rfl rfl rfl rfl rfl rfl
  | subBalance a n => exact InvVSR_of_eq h rfl rfl rfl rfl rfl rfl rfl rfl
  | setNonce a n => exact InvVSR_of_eq h rfl rfl rfl rfl rfl rfl rfl rfl
  | setCode a c => exact InvVSR_of_eq h rfl rfl rfl rfl rfl rfl rfl rfl
  | setState a k v =>
    simp only [step]
    split
    · exact h
    · exact InvVSR_of_eq h rfl rfl rfl rfl rfl rfl rfl rfl
  | suicide a =>
    simp only [step]
    split
    · exact InvVSR_of_eq h rfl rfl rfl rfl rfl rfl rfl rfl
    · exact h
  | createContract a => exact InvVSR_of_eq h rfl rfl rfl rfl rfl rfl rfl rfl
  | updDelegator a v d del => exact InvVSR_updDelegatorF P h a v d del
  | createVal a v =>
    simp only [step]
    split
    · exact h
    · exact InvVSR_putVal h a v _
  | updateVal a v => exact InvVSR_updateValF h a v
  | setDlg a d st tk =>
    simp only [step]
    split
    · exact InvVSR_updateValF h a _
    · exact h
  | delegate d a amt =>
    simp only [step]
    split
    · exact h
    · split
      · exact h
      · split
        · exact h
        · exact InvVSR_updDelegatorF P (InvVSR_updateValF h a _) _ _ _ _
  | statRewards i k n => exact InvVSR_of_eq h rfl rfl rfl rfl rfl rfl rfl rfl
  | addWithdraw w => exact InvVSR_of_eq h rfl rfl rfl rfl rfl rfl rfl rfl
  | removeWithdraw idx => exact InvVSR_of_eq h rfl rfl rfl rfl rfl rfl rfl rfl
  | addStakingRecord k tx fv =>
    simp only [step]
    refine ⟨h.cv, ?_, h.cr, ?_⟩
    · intro k' r' hr hd
      simp only [aget_aput, mem_addIfNew, not_or] at hr hd
      have hne : ¬ k = k' := fun e => hd.1 e.symm
      rw [if_neg hne] at hr
      exact h.cs k' r' hr hd.2
    · intro k' r' hr
      simp only [aget_aput] at hr
      by_cases hk : k = k'
      · left; simp [mem_addIfNew, hk]
      · rw [if_neg hk] at hr
        rcases h.ks k' r' hr with h' | h'
        · left; simp [mem_addIfNew, h']
        · right; exact h'
  | addPendingRel k =>
    simp only [step]
    split
    · exact h
    · refine ⟨h.cv, h.cs, ?_, h.ks⟩
      intro hd; simp at hd
  | resetStaking =>
    simp only [step]
    refine ⟨h.cv, ?_, ?_, ?_⟩
    · intro k r hr; simp [aget] at hr
    · intro _; right; exact ⟨rfl, rfl⟩
    · intro k r hr; simp [aget] at hr
  | finalise del => exact InvVSR_of_eq h rfl rfl rfl rfl rfl rfl rfl rfl
  | iroot del => exact InvVSR_iroot P del h
  | commit del => exact InvVSR_of_eq (InvVSR_iroot P del h) rfl rfl rfl rfl rfl rfl rfl rfl
  | copy => exact InvVSR_of_eq h rfl rfl rfl rfl rfl rfl rfl rfl
  | reopen del =>
    simp only [step]
    cases ho : openSt (commit P del s).db (roots P (commit P del s)) with
    | none => exact InvVSR_of_eq (InvVSR_iroot P del h) rfl rfl rfl rfl rfl rfl rfl rfl
    | some s' => exact InvVSR_open ho

theorem InvVSR_empty : InvVSR {} := by
  refine ⟨?_, ?_, ?_, ?_⟩
  · intro a v h; simp [aget] at h
  · intro k r h; simp [aget] at h
  · intro _; right; exact ⟨rfl, rfl⟩
  · intro k r h; simp [aget] at h

theorem InvVSR_run (P : Prim) (ops : List Op) {s : St} (h : InvVSR s) : InvVSR (run P s ops) := by
  induction ops generalizing s with
  | nil => exact h
  | cons op t ih => exact ih (InvVSR_step P h op)




/-! ## accounts and the content-addressed database -/

/-- everything the leaf of `o` refers to is in the database -/
def Stored (P : Prim) (db : Db) (o : Acct) : Prop :=
  (storageRoot P o, o.storage) ∈ db.storT ∧ (o.code = [] ∨ (P.H o.code, o.code) ∈ db.blobs) ∧
  (o.dlgs = [] ∨ (P.H (dlgsBlob o.dlgs), dlgsBlob o.dlgs) ∈ db.blobs)

/-- the database is content-addressed: every entry sits under the hash / root of what it holds -/
def DbOK (P : Prim) (db : Db) : Prop := (∀ e ∈ db.blobs, e.1 = P.H e.2) ∧ (∀ e ∈ db.storT, e.1 = P.root (norm e.2))

structure InvA (P : Prim) (s : St) : Prop where
  a1 : ∀ a o, aget s.accts a = some o → a ∉ s.acctJ → a ∉ s.acctP → cget s.t.acct a = acctLeaf P o
  a2 : ∀ a, aget s.accts a = none → cget s.t.acct a ≠ [] → ∃ o, cget s.t.acct a = encAcct P o ∧ Stored P s.db o
  a3 : ∀ a o, aget s.accts a = some o → o.deleted = false → a ∉ s.acctJ → a ∉ s.acctU → Stored P s.db o
  a4 : ∀ a o, aget s.accts a = some o → a ∈ s.acctJ ∨ a ∈ s.acctP ∨ a ∈ s.t.acct.map (·.1)
  a5 : DbOK P s.db
  a6 : ∀ a, a ∈ s.acctP → a ∈ s.acctU

theorem InvA_of_eq {P : Prim} {s s' : St} (h : InvA P s) (h1 : s'.db = s.db) (h2 : s'.t.acct = s.t.acct) (h3 : s'.accts = s.accts)
    (h4 : s'.acctJ = s.acctJ) (h5 : s'.acctP = s.acctP) (h6 : s'.acctU = s.acctU) : InvA P s' := by
  refine ⟨?_, ?_, ?_, ?_, ?_, ?_⟩
  · intro a o; rw [h2, h3, h4, h5]; exact h.a1 a o
  · intro a; rw [h1, h2, h3]; exact h.a2 a
  · intro a o; rw [h1, h3, h4, h6]; exact h.a3 a o
  · intro a o; rw [h2, h3, h4, h5]; exact h.a4 a o
  · rw [h1]; exact h.a5
  · intro a; rw [h5, h6]; exact h.a6 a

theorem InvA_putAcct {P : Prim} {s : St} (h : InvA P s) (a : Bytes) (o : Acct) : InvA P (putAcct s a o) := by
  refine ⟨?_, ?_, ?_, ?_, h.a5, h.a6⟩
  · intro a' o' ho hj hp
    simp only [putAcct, aget_aput, mem_addIfNew, not_or] at ho hj hp
    rw [if_neg (fun e => hj.1 e.symm)] at ho
    exact h.a1 a' o' ho hj.2 hp
  · intro a' ho
    simp only [putAcct, aget_aput] at ho
    by_cases e : a = a'
    · rw [if_pos e] at ho; simp at ho
    · rw [if_neg e] at ho; exact h.a2 a' ho
  · intro a' o' ho hd hj hu
    simp only [putAcct, aget_aput, mem_addIfNew, not_or] at ho hj hu
    rw [if_neg (fun e => hj.1 e.symm)] at ho
    exact h.a3 a' o' ho hd hj.2 hu
  · intro a' o' ho
    simp only [putAcct, aget_aput, mem_addIfNew] at ho ⊢
    by_cases e : a = a'
    · left; left; exact e.symm
    · rw [if_neg e] at ho
      rcases h.a4 a' o' ho with h' | h' | h'
      · left; right; exact h'
      · right; left; exact h'
      · right; right; exact h'

theorem finalise_fields (del : Bool) (s : St) :
    (finalise del s).db = s.db ∧ (finalise del s).t = s.t ∧ (finalise del s).acctJ = [] ∧
    (∀ a, a ∈ (finalise del s).acctP ↔ a ∈ s.acctJ ∨ a ∈ s.acctP) ∧ (∀ a, a ∈ (finalise del s).acctU ↔ a ∈ s.acctJ ∨ a ∈ s.acctU) := by
  refine ⟨rfl, rfl, rfl, ?_, ?_⟩
  · intro a; simp only [finalise]; exact mem_foldl_addIfNew _ _ _
  · intro a; simp only [finalise]; exact mem_foldl_addIfNew _ _ _

theorem finFlag_deleted_false {del : Bool} {o o' : Acct} (h : finFlag del o = o') (hd : o'.deleted = false) : o = o' := by
  unfold finFlag at h
  by_cases hc : (o.suicided || (del && o.empty)) = true
  · rw [if_pos hc] at h; subst h; simp at hd
  · rw [if_neg hc] at h; exact h

theorem InvA_finalise {P : Prim} {s : St} (h : InvA P s) (del : Bool) : InvA P (finalise del s) := by
  obtain ⟨e1, e2, e3, e4, e5⟩ := finalise_fields del s
  refine ⟨?_, ?_, ?_, ?_, ?_, ?_⟩
  · intro a o ho _ hp
    rw [e4] at hp
    have hj : a ∉ s.acctJ := fun x => hp (Or.inl x)
    rw [finalise_get, if_neg hj] at ho
    rw [e2]; exact h.a1 a o ho hj (fun x => hp (Or.inr x))
  · intro a ho
    rw [finalise_get] at ho
    have : aget s.accts a = none := by
      by_cases hj : a ∈ s.acctJ
      · rw [if_pos hj] at ho; cases hg : aget s.accts a with
        | none => rfl
        | some o => rw [hg] at ho; simp at ho
      · rw [if_neg hj] at ho; exact ho
    rw [e1, e2]; exact h.a2 a this
  · intro a o ho hd _ hu
    rw [e5] at hu
    have hj : a ∉ s.acctJ := fun x => hu (Or.inl x)
    rw [finalise_get, if_neg hj] at ho
    rw [e1]; exact h.a3 a o ho hd hj (fun x => hu (Or.inr x))
  · intro a o ho
    rw [e2, e4]
    rw [finalise_get] at ho
    have : ∃ o0, aget s.accts a = some o0 := by
      by_cases hj : a ∈ s.acctJ
      · rw [if_pos hj] at ho; cases hg : aget s.accts a with
        | none => rw [hg] at ho; simp at ho
        | some o0 => exact ⟨o0, rfl⟩
      · rw [if_neg hj] at ho; exact ⟨o, ho⟩
    obtain ⟨o0, h0⟩ := this
    rcases h.a4 a o0 h0 with h' | h' | h'
    · right; left; exact Or.inl h'
    · right; left; exact Or.inr h'
    · right; right; exact h'
  · rw [e1]; exact h.a5
  · intro a ha
    rw [e4] at ha; rw [e5]
    rcases ha with h' | h'
    · exact Or.inl h'
    · exact Or.inr (h.a6 a h')

theorem InvA_flushAccts {P : Prim} {s : St} (h : InvA P s) : InvA P (flushAccts P s) := by
  have hget : ∀ a, cget (flushAccts P s).t.acct a =
      if a ∈ s.acctP then ((aget s.accts a).map (acctLeaf P)).getD (cget s.t.acct a) else cget s.t.acct a := by
    intro a; simp only [flushAccts]; rw [flushAcct_eq, cget_foldl_put]
  refine ⟨?_, ?_, ?_, ?_, h.a5, ?_⟩
  · intro a o ho hj _
    rw [hget]
    have ho' : aget s.accts a = some o := ho
    by_cases hp : a ∈ s.acctP
    · rw [if_pos hp, ho']; rfl
    · rw [if_neg hp]; exact h.a1 a o ho' hj hp
  · intro a ho
    have ho' : aget s.accts a = none := ho
    rw [hget, ho']
    have : (if a ∈ s.acctP then (Option.map (acctLeaf P) none).getD (cget s.t.acct a) else cget s.t.acct a) = cget s.t.acct a := by
      split <;> rfl
    rw [this]
    exact h.a2 a ho'
  · intro a o ho hd hj hu; exact h.a3 a o ho hd hj hu
  · intro a o ho
    have ho' : aget s.accts a = some o := ho
    rcases h.a4 a o ho' with h' | h' | h'
    · left; exact h'
    · right; right
      simp only [flushAccts]; rw [flushAcct_eq]
      exact (mem_keys_foldl_putOpt _ _ _ a).2 h' (by simp [ho'])
    · right; right
      simp only [flushAccts]; rw [flushAcct_eq]
      exact (mem_keys_foldl_putOpt _ _ _ a).1 h'
  · intro a ha; simp [flushAccts] at ha




theorem flushVal_frameA (del : Bool) (s : St) (a : Bytes) :
    (flushVal del s a).db = s.db ∧ (flushVal del s a).t.acct = s.t.acct ∧ (flushVal del s a).accts = s.accts ∧
    (flushVal del s a).acctJ = s.acctJ ∧ (flushVal del s a).acctP = s.acctP ∧ (flushVal del s a).acctU = s.acctU := by
  unfold flushVal
  cases aget s.vals a with
  | none => simp
  | some v => by_cases h : (v.deleted || (del && v.isInvalid)) = true <;> simp [h]

theorem foldl_flushVal_frameA (del : Bool) (l : List Bytes) (s : St) :
    (l.foldl (flushVal del) s).db = s.db ∧ (l.foldl (flushVal del) s).t.acct = s.t.acct ∧ (l.foldl (flushVal del) s).accts = s.accts ∧
    (l.foldl (flushVal del) s).acctJ = s.acctJ ∧ (l.foldl (flushVal del) s).acctP = s.acctP ∧ (l.foldl (flushVal del) s).acctU = s.acctU := by
  induction l generalizing s with
  | nil => simp
  | cons a t ih =>
    simp only [List.foldl_cons]
    obtain ⟨a1, a2, a3, a4, a5, a6⟩ := flushVal_frameA del s a
    obtain ⟨b1, b2, b3, b4, b5, b6⟩ := ih (flushVal del s a)
    exact ⟨b1.trans a1, b2.trans a2, b3.trans a3, b4.trans a4, b5.trans a5, b6.trans a6⟩

theorem flushRelats_frameA (s : St) :
    (flushRelats s).db = s.db ∧ (flushRelats s).t.acct = s.t.acct ∧ (flushRelats s).accts = s.accts ∧
    (flushRelats s).acctJ = s.acctJ ∧ (flushRelats s).acctP = s.acctP ∧ (flushRelats s).acctU = s.acctU := by
  unfold flushRelats; split <;> simp

/-- the account-side fields after IntermediateRoot are those after Finalise + the account flush -/
theorem iroot_fieldsA (P : Prim) (del : Bool) (s : St) :
    (iroot P del s).db = (flushAccts P (finalise del s)).db ∧ (iroot P del s).t.acct = (flushAccts P (finalise del s)).t.acct ∧
    (iroot P del s).accts = (flushAccts P (finalise del s)).accts ∧ (iroot P del s).acctJ = (flushAccts P (finalise del s)).acctJ ∧
    (iroot P del s).acctP = (flushAccts P (finalise del s)).acctP ∧ (iroot P del s).acctU = (flushAccts P (finalise del s)).acctU := by
  unfold iroot
  obtain ⟨a1, a2, a3, a4, a5, a6⟩ := flushRelats_frameA (flushRecs (saveSingles (flushVals del (flushAccts P (finalise del s)))))
  obtain ⟨b1, b2, b3, b4, b5, b6⟩ := foldl_flushVal_frameA del (flushAccts P (finalise del s)).valD (flushAccts P (finalise del s))
  rw [a1, a2, a3, a4, a5, a6]
  simp only [flushRecs, saveSingles, flushVals]
  exact ⟨b1, b2, b3, b4, b5, b6⟩

theorem InvA_iroot {P : Prim} {s : St} (h : InvA P s) (del : Bool) : InvA P (iroot P del s) := by
  obtain ⟨a1, a2, a3, a4, a5, a6⟩ := iroot_fieldsA P del s
  exact InvA_of_eq (InvA_flushAccts (InvA_finalise h del)) a1 a2 a3 a4 a5 a6

theorem iroot_JP (P : Prim) (del : Bool) (s : St) : (iroot P del s).acctJ = [] ∧ (iroot P del s).acctP = [] := by
  obtain ⟨_, _, _, a4, a5, _⟩ := iroot_fieldsA P del s
  rw [a4, a5]; exact ⟨rfl, rfl⟩

/-! ### Commit -/

theorem commitAcct_mono (P : Prim) (accts : List (Bytes × Acct)) (db : Db) (a : Bytes) :
    (∀ e, e ∈ db.blobs → e ∈ (commitAcct P accts db a).blobs) ∧ (∀ e, e ∈ db.storT → e ∈ (commitAcct P accts db a).storT) := by
  unfold commitAcct
  cases aget accts a with
  | none => exact ⟨fun _ h => h, fun _ h => h⟩
  | some o =>
    by_cases hd : o.deleted = true
    · simp [hd]
    · by_cases hc : o.code = [] <;> by_cases hl : o.dlgs = [] <;> simp [hd, hc, hl, aput] <;> grind

theorem foldl_commitAcct_mono (P : Prim) (accts : List (Bytes × Acct)) (l : List Bytes) (db : Db) :
    (∀ e, e ∈ db.blobs → e ∈ (l.foldl (commitAcct P accts) db).blobs) ∧ (∀ e, e ∈ db.storT → e ∈ (l.foldl (commitAcct P accts) db).storT) := by
  induction l generalizing db with
  | nil => exact ⟨fun _ h => h, fun _ h => h⟩
  | cons a t ih =>
    simp only [List.foldl_cons]
    obtain ⟨m1, m2⟩ := commitAcct_mono P accts db a
    obtain ⟨n1, n2⟩ := ih (commitAcct P accts db a)
    exact ⟨fun e h => n1 e (m1 e h), fun e h => n2 e (m2 e h)⟩

theorem Stored_mono {P : Prim} {db db' : Db} {o : Acct} (h : Stored P db o)
    (m1 : ∀ e, e ∈ db.blobs → e ∈ db'.blobs) (m2 : ∀ e, e ∈ db.storT → e ∈ db'.storT) : Stored P db' o := by
  obtain ⟨s1, s2, s3⟩ := h
  exact ⟨m2 _ s1, s2.imp id (m1 _), s3.imp id (m1 _)⟩

theorem commitAcct_stores (P : Prim) (accts : List (Bytes × Acct)) (db : Db) (a : Bytes) (o : Acct)
    (ho : aget accts a = some o) (hd : o.deleted = false) : Stored P (commitAcct P accts db a) o := by
  unfold commitAcct Stored
  rw [ho]
  by_cases hc : o.code = [] <;> by_cases hl : o.dlgs = [] <;> simp [hd, hc, hl, aput, dlgsHash]

theorem foldl_commitAcct_stores (P : Prim) (accts : List (Bytes × Acct)) (l : List Bytes) (db : Db) (a : Bytes) (o : Acct)
    (ha : a ∈ l) (ho : aget accts a = some o) (hd : o.deleted = false) : Stored P (l.foldl (commitAcct P accts) db) o := by
  induction l generalizing db with
  | nil => simp at ha
  | cons x t ih =>
    simp only [List.foldl_cons]
    by_cases hx : a = x
    · subst hx
      obtain ⟨m1, m2⟩ := foldl_commitAcct_mono P accts t (commitAcct P accts db a)
      exact Stored_mono (commitAcct_stores P accts db a o ho hd) m1 m2
    · have : a ∈ t := by rcases List.mem_cons.mp ha with h | h; exact absurd h hx; exact h
      exact ih (commitAcct P accts db x) this

theorem commitAcct_dbOK (P : Prim) (accts : List (Bytes × Acct)) (db : Db) (a : Bytes) (h : DbOK P db) :
    DbOK P (commitAcct P accts db a) := by
  unfold commitAcct
  cases aget accts a with
  | none => exact h
  | some o =>
    obtain ⟨h1, h2⟩ := h
    by_cases hd : o.deleted = true
    · simp [hd]; exact ⟨h1, h2⟩
    · by_cases hc : o.code = [] <;> by_cases hl : o.dlgs = [] <;>
        simp [hd, hc, hl, aput, DbOK, dlgsHash, storageRoot] <;> grind

theorem foldl_commitAcct_dbOK (P : Prim) (accts : List (Bytes × Acct)) (l : List Bytes) (db : Db) (h : DbOK P db) :
    DbOK P (l.foldl (commitAcct P accts) db) := by
  induction l generalizing db with
  | nil => exact h
  | cons a t ih => exact ih _ (commitAcct_dbOK P accts db a h)

theorem commit_fields (P : Prim) (del : Bool) (s : St) :
    (commit P del s).t = (iroot P del s).t ∧ (commit P del s).accts = (iroot P del s).accts ∧
    (commit P del s).acctJ = (iroot P del s).acctJ ∧ (commit P del s).acctP = (iroot P del s).acctP ∧ (commit P del s).acctU = [] ∧
    (commit P del s).db.blobs = ((iroot P del s).acctU.foldl (commitAcct P (iroot P del s).accts) (iroot P del s).db).blobs ∧
    (commit P del s).db.storT = ((iroot P del s).acctU.foldl (commitAcct P (iroot P del s).accts) (iroot P del s).db).storT :=
  ⟨rfl, rfl, rfl, rfl, rfl, rfl, rfl⟩

theorem InvA_commit {P : Prim} {s : St} (h : InvA P s) (del : Bool) : InvA P (commit P del s) := by
  have hi := InvA_iroot h del
  obtain ⟨hJ, hP⟩ := iroot_JP P del s
  obtain ⟨c1, c2, c3, c4, c5, c6, c7⟩ := commit_fields P del s
  obtain ⟨m1, m2⟩ := foldl_commitAcct_mono P (iroot P del s).accts (iroot P del s).acctU (iroot P del s).db
  have mono : ∀ o, Stored P (iroot P del s).db o → Stored P (commit P del s).db o := by
    intro o ho
    obtain ⟨s1, s2, s3⟩ := ho
    refine ⟨?_, ?_, ?_⟩
    · rw [c7]; exact m2 _ s1
    · rw [c6]; exact s2.imp id (m1 _)
    · rw [c6]; exact s3.imp id (m1 _)
  refine ⟨?_, ?_, ?_, ?_, ?_, ?_⟩
  · intro a o; rw [c1, c2, c3, c4]; exact hi.a1 a o
  · intro a ho hne
    rw [c2] at ho; rw [c1] at hne ⊢
    obtain ⟨o, e, st⟩ := hi.a2 a ho hne
    exact ⟨o, e, mono o st⟩
  · intro a o ho hd _ _
    rw [c2] at ho
    by_cases hu : a ∈ (iroot P del s).acctU
    · have := foldl_commitAcct_stores P (iroot P del s).accts (iroot P del s).acctU (iroot P del s).db a o hu ho hd
      obtain ⟨s1, s2, s3⟩ := this
      refine ⟨?_, ?_, ?_⟩
      · rw [c7]; exact s1
      · rw [c6]; exact s2
      · rw [c6]; exact s3
    · exact mono o (hi.a3 a o ho hd (by rw [hJ]; simp) hu)
  · intro a o; rw [c1, c2, c3, c4]; exact hi.a4 a o
  · have := foldl_commitAcct_dbOK P (iroot P del s).accts (iroot P del s).acctU (iroot P del s).db hi.a5
    unfold DbOK at this ⊢
    rw [c6, c7]; exact this
  · intro a ha; rw [c4, hP] at ha; simp at ha

/-- after Commit every leaf of the account trie is empty or the encoding of an object whose storage trie, code and
delegation list are in the database -/
theorem commit_leaves_stored {P : Prim} {s : St} (h : InvA P s) (del : Bool) (a : Bytes)
    (hne : cget (commit P del s).t.acct a ≠ []) :
    ∃ o, cget (commit P del s).t.acct a = encAcct P o ∧ Stored P (commit P del s).db o ∧
      (∀ o', aget (commit P del s).accts a = some o' → o' = o ∧ o.deleted = false) := by
  have hc := InvA_commit h del
  obtain ⟨hJ, hP⟩ := iroot_JP P del s
  have cJ : (commit P del s).acctJ = [] := hJ
  have cP : (commit P del s).acctP = [] := hP
  have cU : (commit P del s).acctU = [] := rfl
  cases ho : aget (commit P del s).accts a with
  | none =>
    obtain ⟨o, e, st⟩ := hc.a2 a ho hne
    exact ⟨o, e, st, fun o' h' => by simp at h'⟩
  | some o =>
    have hl := hc.a1 a o ho (by rw [cJ]; simp) (by rw [cP]; simp)
    have hd : o.deleted = false := by
      cases hdd : o.deleted with
      | false => rfl
      | true => rw [hl] at hne; simp [acctLeaf, hdd] at hne
    refine ⟨o, ?_, hc.a3 a o ho hd (by rw [cJ]; simp) (by rw [cU]; simp), ?_⟩
    · rw [hl]; simp [acctLeaf, hd]
    · intro o' h'; simp at h'; exact ⟨h'.symm, hd⟩

theorem InvA_open {P : Prim} {s : St} (h : InvA P s) (del : Bool) {s' : St}
    (ho : openSt (commit P del s).db (roots P (commit P del s)) = some s') : InvA P s' := by
  obtain ⟨e1, e2, e3, e4, e5, _, _, _, _, _, e11, _⟩ := openSt_some ho
  have ht : s'.t.acct = (commit P del s).t.acct := by
    have : aget (commit P del s).db.acctT (roots P (commit P del s)).root = some (commit P del s).t.acct := by
      simp [commit, aget_aput, roots]
    rw [this] at e11; simp at e11; exact e11.symm
  refine ⟨?_, ?_, ?_, ?_, ?_, ?_⟩
  · intro a o h'; rw [e2] at h'; simp [aget] at h'
  · intro a _ hne
    rw [ht] at hne ⊢; rw [e1]
    obtain ⟨o, e, st, _⟩ := commit_leaves_stored h del a hne
    exact ⟨o, e, st⟩
  · intro a o h'; rw [e2] at h'; simp [aget] at h'
  · intro a o h'; rw [e2] at h'; simp [aget] at h'
  · rw [e1]; exact (InvA_commit h del).a5
  · intro a ha; rw [e4] at ha; simp at ha

theorem InvA_updateValF {P : Prim} {s : St} (h : InvA P s) (a : Bytes) (v : Val) : InvA P (updateValF s a v) := by
  unfold updateValF
  split
  · split
    · exact InvA_of_eq h rfl rfl rfl rfl rfl rfl
    · exact InvA_of_eq h rfl rfl rfl rfl rfl rfl
  · exact h

theorem InvA_updDelegatorF {P : Prim} {s : St} (h : InvA P s) (a v : Bytes) (d : Int) (del : Bool) :
    InvA P (updDelegatorF P s a v d del) := by
  unfold updDelegatorF
  split
  · exact InvA_putAcct h _ _
  · exact h

theorem aget_filter_key {α : Type} (l : List (Bytes × α)) (p : Bytes → Bool) (a : Bytes) :
    aget (l.filter (fun kv => p kv.1)) a = if p a = true then aget l a else none := by
  induction l with
  | nil => simp [aget]
  | cons x t ih =>
    obtain ⟨k, v⟩ := x
    by_cases hk : k = a
    · subst hk
      by_cases hp : p k = true
      · simp [List.filter_cons, hp, aget]
      · simp only [List.filter_cons, hp, Bool.false_eq_true, if_false, ih]
    · by_cases hp : p k = true
      · simp only [List.filter_cons, hp, if_true, aget, hk, if_false, ih]
      · simp only [List.filter_cons, hp, Bool.false_eq_true, if_false, ih, aget, hk]

theorem mem_keys_of_aget {α : Type} (l : List (Bytes × α)) (k : Bytes) (h : ∃ v, aget l k = some v) : k ∈ l.map (·.1) := by
  induction l with
  | nil => obtain ⟨v, hv⟩ := h; simp [aget] at hv
  | cons x t ih =>
    obtain ⟨k0, v0⟩ := x
    by_cases hk : k0 = k
    · simp [hk]
    · obtain ⟨v, hv⟩ := h
      simp only [aget, hk, if_false] at hv
      simp [ih ⟨v, hv⟩]

theorem copy_get (s : St) (a : Bytes) : aget (copy s).accts a = if dropKey s a = true then none else aget s.accts a := by
  unfold copy
  simp only
  rw [aget_filter_key s.accts (fun k => !dropKey s k) a]
  cases dropKey s a <;> simp

theorem dropKey_spec {s : St} {a : Bytes} (h : dropKey s a = true) :
    ∃ o, aget s.accts a = some o ∧ o.deleted = true ∧ a ∉ s.acctJ ∧ a ∉ s.acctP ∧ a ∉ s.acctU := by
  unfold dropKey at h
  cases ho : aget s.accts a with
  | none => rw [ho] at h; simp at h
  | some o =>
    rw [ho] at h
    simp only [Bool.and_eq_true, Bool.not_eq_true', List.contains_eq_mem, decide_eq_false_iff_not] at h
    exact ⟨o, rfl, h.1.1.1, h.1.1.2, h.1.2, h.2⟩

/-- Copy keeps the invariant: a forgotten object was deleted and clean, so its leaf is empty -/
theorem InvA_copy {P : Prim} {s : St} (h : InvA P s) : InvA P (copy s) := by
  have hf : (copy s).db = s.db ∧ (copy s).t = s.t ∧ (copy s).acctJ = s.acctJ ∧ (copy s).acctP = s.acctP ∧ (copy s).acctU = s.acctU :=
    ⟨rfl, rfl, rfl, rfl, rfl⟩
  obtain ⟨f1, f2, f3, f4, f5⟩ := hf
  have hsub : ∀ a o, aget (copy s).accts a = some o → aget s.accts a = some o := by
    intro a o ho
    rw [copy_get] at ho
    by_cases hd : dropKey s a = true
    · rw [if_pos hd] at ho; simp at ho
    · rw [if_neg hd] at ho; exact ho
  refine ⟨?_, ?_, ?_, ?_, ?_, ?_⟩
  · intro a o ho; rw [f2, f3, f4]; exact h.a1 a o (hsub a o ho)
  · intro a ho hne
    rw [f1, f2] at *
    rw [copy_get] at ho
    by_cases hd : dropKey s a = true
    · obtain ⟨o, h1, h2, h3, h4, _⟩ := dropKey_spec hd
      have := h.a1 a o h1 h3 h4
      simp [acctLeaf, h2] at this
      exact absurd this hne
    · rw [if_neg hd] at ho; exact h.a2 a ho hne
  · intro a o ho; rw [f1, f3, f5]; exact h.a3 a o (hsub a o ho)
  · intro a o ho; rw [f2, f3, f4]; exact h.a4 a o (hsub a o ho)
  · rw [f1]; exact h.a5
  · intro a; rw [f4, f5]; exact h.a6 a

theorem InvA_step (P : Prim) {s : St} (h : InvA P s) (op : Op) : InvA P (step P s op) := by
  cases op with
  | setBalance a n => exact InvA_putAcct h _ _
  | addBalance a n => exact InvA_putAcct h _ _
  | subBalance a n => exact InvA_putAcct h _ _
  | setNonce a n => exact InvA_putAcct h _ _
  | setCode a c => exact InvA_putAcct h _ _
  | setState a k v =>
    simp only [step]
    split
    · exact h
    · exact InvA_putAcct h _ _
  | suicide a =>
    simp only [step]
    split
    · exact InvA_putAcct h _ _
    · exact h
  | createContract a => exact InvA_putAcct h _ _
  | updDelegator a v d del => exact InvA_updDelegatorF h a v d del
  | createVal a v =>
    simp only [step]
    split
    · exact h
    · exact InvA_of_eq h rfl rfl rfl rfl rfl rfl
  | updateVal a v => exact InvA_updateValF h a v
  | setDlg a d st tk =>
    simp only [step]
    split
    · exact InvA_updateValF h a _
    · exact h
  | delegate d a amt =>
    simp only [step]
    split
    · exact h
    · split
      · exact h
      · split
        · exact h
        · exact InvA_updDelegatorF (InvA_updateValF h a _) _ _ _ _
  | statRewards i k n => exact InvA_of_eq h rfl rfl rfl rfl rfl rfl
  | addWithdraw w => exact InvA_of_eq h rfl rfl rfl rfl rfl rfl
  | removeWithdraw idx => exact InvA_of_eq h rfl rfl rfl rfl rfl rfl
  | addStakingRecord k tx fv => exact InvA_of_eq h rfl rfl rfl rfl rfl rfl
  | addPendingRel k =>
    simp only [step]
    split
    · exact h
    · exact InvA_of_eq h rfl rfl rfl rfl rfl rfl
  | resetStaking => exact InvA_of_eq h rfl rfl rfl rfl rfl rfl
  | finalise del => exact InvA_finalise h del
  | iroot del => exact InvA_iroot h del
  | commit del => exact InvA_commit h del
  | copy => exact InvA_copy h
  | reopen del =>
    simp only [step]
    cases ho : openSt (commit P del s).db (roots P (commit P del s)) with
    | none => exact InvA_commit h del
    | some s' => exact InvA_open h del ho

theorem InvA_empty (P : Prim) : InvA P {} := by
  refine ⟨?_, ?_, ?_, ?_, ?_, ?_⟩
  · intro a o h; simp [aget] at h
  · intro a _ h; simp [cget] at h
  · intro a o h; simp [aget] at h
  · intro a o h; simp [aget] at h
  · exact ⟨fun e h => by simp at h, fun e h => by simp at h⟩
  · intro a h; simp at h

theorem InvA_run (P : Prim) (ops : List Op) {s : St} (h : InvA P s) : InvA P (run P s ops) := by
  induction ops generalizing s with
  | nil => exact h
  | cons op t ih => exact ih (InvA_step P h op)




/-! ## resolving an account leaf in the database -/

theorem aget_of_mem {α : Type} (l : List (Bytes × α)) (k : Bytes) (v : α) (h : (k, v) ∈ l) :
    ∃ v', aget l k = some v' ∧ (k, v') ∈ l := by
  induction l with
  | nil => simp at h
  | cons x t ih =>
    obtain ⟨k0, v0⟩ := x
    by_cases hk : k0 = k
    · subst hk; exact ⟨v0, by simp [aget], by simp⟩
    · have : (k, v) ∈ t := by
        rcases List.mem_cons.mp h with h' | h'
        · simp at h'; exact absurd h'.1.symm hk
        · exact h'
      obtain ⟨v', h1, h2⟩ := ih this
      exact ⟨v', by simp [aget, hk, h1], List.mem_cons_of_mem _ h2⟩

/-- no two different values under one hash / one trie root; the hash is never the empty string -/
structure Inj (P : Prim) : Prop where
  root : ∀ c₁ c₂, P.root c₁ = P.root c₂ → c₁ = c₂
  hash : ∀ b₁ b₂, P.H b₁ = P.H b₂ → b₁ = b₂

theorem decAcct_encAcct (P : Prim) (db : Db) (o : Acct) (hi : Inj P) (hlen : ∀ b, P.H b ≠ []) (hok : DbOK P db) (hst : Stored P db o)
    (d1 : DecOK (encAcct P o)) (d2 : o.dlgs ≠ [] → DecOK (dlgsBlob o.dlgs)) :
    ∃ o', decAcct P db (encAcct P o) = some o' ∧ o'.obs = o.obs ∧ o'.deleted = false := by
  obtain ⟨s1, s2, s3⟩ := hst
  obtain ⟨k1, k2⟩ := hok
  -- storage
  have hS : ∃ c', loadStorage P db (storageRoot P o) = some c' ∧ norm c' = norm o.storage := by
    unfold loadStorage
    by_cases he : storageRoot P o = P.root []
    · rw [if_pos he]
      refine ⟨[], rfl, ?_⟩
      have := hi.root _ _ he
      rw [this]; rfl
    · rw [if_neg he]
      obtain ⟨c', h1, h2⟩ := aget_of_mem _ _ _ s1
      refine ⟨c', h1, ?_⟩
      have := k2 _ h2
      exact (hi.root _ _ this).symm
  -- code
  have hC : loadCode P db (P.H o.code) = some o.code := by
    unfold loadCode
    by_cases he : P.H o.code = P.H []
    · rw [if_pos he, hi.hash _ _ he]
    · rw [if_neg he]
      rcases s2 with h0 | hm
      · rw [h0] at he; exact absurd rfl he
      · obtain ⟨b', h1, h2⟩ := aget_of_mem _ _ _ hm
        have := k1 _ h2
        rw [h1, hi.hash _ _ this]
  -- delegations
  have hD : loadDlgs db (dlgsHash P o.dlgs) = some o.dlgs := by
    unfold loadDlgs dlgsHash
    by_cases he : o.dlgs = []
    · simp [he]
    · rw [if_neg he, if_neg (hlen _)]
      rcases s3 with h0 | hm
      · exact absurd h0 he
      · obtain ⟨b', h1, h2⟩ := aget_of_mem _ _ _ hm
        have := k1 _ h2
        have hb : b' = dlgsBlob o.dlgs := (hi.hash _ _ this).symm
        rw [h1, hb]
        have := (d2 he).dec_enc (i := bytesListItem o.dlgs)
        simp only [Option.bind_some]
        unfold dlgsBlob
        rw [this]
        simp
  obtain ⟨c', hS1, hS2⟩ := hS
  refine ⟨{ nonce := o.nonce, balance := o.balance, code := o.code, storage := c', delBal := o.delBal, dlgs := o.dlgs }, ?_, ?_, rfl⟩
  · unfold decAcct
    have : dec (encAcct P o) = some (acctItem P o) := d1.dec_enc
    rw [this]
    simp only [acctItem, iL, pB_iB, pN_iN, Option.bind_some, hS1, hC, hD]
  · simp [Acct.obs, hS2]




/-! ## key sets in canonical order -/

theorem cget_unit (l : List Bytes) (k : Bytes) : cget (l.map (fun a => (a, ([1] : Bytes)))) k = if k ∈ l then [1] else [] := by
  induction l with
  | nil => simp
  | cons x t ih =>
    simp only [List.map_cons, cget_cons, ih, List.mem_cons]
    by_cases h : x = k
    · simp [h]
    · have h' : ¬ k = x := fun e => h e.symm
      simp [h, h']

theorem sortKeys_ext {l₁ l₂ : List Bytes} (h : ∀ x, x ∈ l₁ ↔ x ∈ l₂) : sortKeys l₁ = sortKeys l₂ := by
  unfold sortKeys
  rw [norm_ext]
  intro k
  rw [cget_unit, cget_unit]
  simp [h k]

theorem sorted_mem_get (n : Content) (hs : SortedC n) (k v : Bytes) (h : (k, v) ∈ n) : cget n k = v := by
  induction n with
  | nil => simp at h
  | cons x t ih =>
    obtain ⟨k0, v0⟩ := x
    rcases List.mem_cons.mp h with h' | h'
    · simp at h'; rw [h'.1, h'.2, cget_cons]; simp
    · have hne : k0 ≠ k := fun e => sorted_head_absent hs (k, v) h' e.symm
      rw [cget_cons, if_neg hne]
      exact ih (List.pairwise_cons.mp hs).2 h'

theorem mem_sortKeys (l : List Bytes) (x : Bytes) : x ∈ sortKeys l ↔ x ∈ l := by
  unfold sortKeys
  constructor
  · intro h
    obtain ⟨kv, hkv, hx⟩ := List.mem_map.mp h
    obtain ⟨k, v⟩ := kv
    simp at hx; subst hx
    have h1 := sorted_mem_get _ (norm_sorted _) k v hkv
    have h2 := norm_noEmpty _ (k, v) hkv
    rw [norm_get, cget_unit] at h1
    by_cases hm : k ∈ l
    · exact hm
    · rw [if_neg hm] at h1; exact absurd h1.symm h2
  · intro h
    have h1 : cget (norm (l.map (fun a => (a, ([1] : Bytes))))) x = [1] := by rw [norm_get, cget_unit, if_pos h]
    apply Classical.byContradiction
    intro hc
    have := cget_absent (norm (l.map (fun a => (a, ([1] : Bytes))))) x (fun kv hkv e => hc (List.mem_map.mpr ⟨kv, hkv, e⟩))
    rw [this] at h1; simp at h1

theorem sortKeys_idem (l : List Bytes) : sortKeys (sortKeys l) = sortKeys l :=
  sortKeys_ext (mem_sortKeys l)

theorem aget_some_of_mem_keys {α : Type} (l : List (Bytes × α)) (k : Bytes) (h : k ∈ l.map (·.1)) : ∃ v, aget l k = some v := by
  induction l with
  | nil => simp at h
  | cons x t ih =>
    obtain ⟨k0, v0⟩ := x
    by_cases hk : k0 = k
    · exact ⟨v0, by simp [aget, hk]⟩
    · have : k ∈ t.map (·.1) := by
        rcases List.mem_cons.mp h with h' | h'
        · exact absurd h'.symm hk
        · exact h'
      obtain ⟨v, hv⟩ := ih this
      exact ⟨v, by simp [aget, hk, hv]⟩

/-! ## Commit, then New: the whole enumeration -/

/-- everything stored in the three tries and the blob store after `s` -/
def storedValues (s : St) : List Bytes :=
  s.t.acct.map (·.2) ++ s.t.val.vals.map (·.2) ++ [s.t.val.index, s.t.val.stat, s.t.val.queue] ++ s.t.stk.recs.map (·.2)
    ++ [s.t.stk.relats] ++ s.db.blobs.map (·.2)

theorem cget_mem_or_nil (c : Content) (k : Bytes) : cget c k = [] ∨ cget c k ∈ c.map (·.2) := by
  induction c with
  | nil => left; rfl
  | cons x t ih =>
    obtain ⟨k0, v0⟩ := x
    rw [cget_cons]
    by_cases h : k0 = k
    · right; simp [h]
    · rw [if_neg h]; rcases ih with h' | h'
      · left; exact h'
      · right; simp [h']

theorem decOK_nil : DecOK [] := by
  intro i hi
  exact decOK_of_small [] (by simp) i hi

def acctRow (a : Bytes) (x : Option Acct) : Option (Bytes × AcctObs) :=
  match x with
  | some o => if o.blank then none else some (a, o.obs)
  | none => none

theorem blank_of_obs {o₁ o₂ : Acct} (h : o₁.obs = o₂.obs) : o₁.blank = o₂.blank := by
  simp only [Acct.obs, AcctObs.mk.injEq] at h
  obtain ⟨h1, h2, h3, h4, h5, h6⟩ := h
  simp [Acct.blank, h1, h2, h3, h4, h5, h6]

theorem acctRow_congr (a : Bytes) {x y : Option Acct} (h : x.map Acct.obs = y.map Acct.obs) : acctRow a x = acctRow a y := by
  cases x with
  | none => cases y with
    | none => rfl
    | some o => simp at h
  | some o₁ => cases y with
    | none => simp at h
    | some o₂ =>
      simp at h
      simp [acctRow, blank_of_obs h, h]

theorem obs_eq_rows (P : Prim) (s : St) :
    (obs P s).accts = (acctKeys s).filterMap (fun a => acctRow a (getAcct P s a)) := by
  unfold obs acctRow
  rfl




theorem encAcct_ne_nil (P : Prim) (o : Acct) : encAcct P o ≠ [] := by
  unfold encAcct acctItem; exact enc_list_ne_nil _

/-- an account read through the reopened state shows what the live object shows -/
theorem getAcct_reopen (P : Prim) (del : Bool) (s : St) (hA : InvA P s) (hi : Inj P) (hlen : ∀ b, P.H b ≠ [])
    (hdec : ∀ b ∈ storedValues (commit P del s), DecOK b) (s' : St)
    (ht : s'.t = (commit P del s).t) (hdb : s'.db = (commit P del s).db) (hl : s'.accts = []) (a : Bytes) :
    (getAcct P s' a).map Acct.obs = (getAcct P (commit P del s) a).map Acct.obs := by
  have hc := InvA_commit hA del
  obtain ⟨hJ, hP⟩ := iroot_JP P del s
  have cJ : (commit P del s).acctJ = [] := hJ
  have cP : (commit P del s).acctP = [] := hP
  unfold getAcct rawAcct
  rw [hl, ht, hdb]
  simp only [aget]
  by_cases hb : cget (commit P del s).t.acct a = []
  · -- empty leaf: absent on both sides
    simp only [hb, if_true]
    cases ho : aget (commit P del s).accts a with
    | none => simp
    | some o =>
      have hleaf := hc.a1 a o ho (by rw [cJ]; simp) (by rw [cP]; simp)
      rw [hb] at hleaf
      have hd : o.deleted = true := by
        cases hdd : o.deleted with
        | true => rfl
        | false => simp [acctLeaf, hdd] at hleaf; exact absurd hleaf (encAcct_ne_nil P o)
      simp [hd]
  · obtain ⟨o, e, st, hlive⟩ := commit_leaves_stored hA del a hb
    have hmem : cget (commit P del s).t.acct a ∈ storedValues (commit P del s) := by
      rcases cget_mem_or_nil (commit P del s).t.acct a with h | h
      · exact absurd h hb
      · simp [storedValues, h]
    have d1 : DecOK (encAcct P o) := by rw [← e]; exact hdec _ hmem
    have d2 : o.dlgs ≠ [] → DecOK (dlgsBlob o.dlgs) := by
      intro hne
      rcases st.2.2 with h0 | hm
      · exact absurd h0 hne
      · apply hdec
        simp only [storedValues, List.mem_append, List.mem_map]
        right
        exact ⟨_, hm, rfl⟩
    obtain ⟨o'', hd1, hd2, hd3⟩ := decAcct_encAcct P (commit P del s).db o hi hlen hc.a5 st d1 d2
    have hne := encAcct_ne_nil P o
    simp only [hb, if_false, e, hne, hd1, hd3, Bool.false_eq_true, Option.map_some, hd2]
    cases ho : aget (commit P del s).accts a with
    | none => simp [hd1, hd3, hd2, hne]
    | some o' =>
      obtain ⟨e', hdel⟩ := hlive o' ho
      subst e'
      simp [hdel]




theorem commit_fields_vsr (P : Prim) (del : Bool) (s : St) :
    (commit P del s).recD = [] ∧ (commit P del s).valD = [] := by
  obtain ⟨e1, e2, _⟩ := iroot_fields_vsr P del s
  exact ⟨e2, e1⟩

theorem filterMap_congr' {α β : Type} {f g : α → Option β} (l : List α) (h : ∀ x ∈ l, f x = g x) : l.filterMap f = l.filterMap g := by
  induction l with
  | nil => rfl
  | cons a t ih =>
    simp only [List.filterMap_cons, h a List.mem_cons_self]
    rw [ih (fun x hx => h x (List.mem_cons_of_mem _ hx))]

/-- what `New` builds from a committed state -/
def reopened (sc : St) : St :=
  { db := sc.db, t := sc.t, index := sortKeys sc.index, stat := sc.stat, queue := sc.queue, relats := sc.relats }

/-- **Commit, then New from the three roots: the reopened state shows exactly what the live object shows** -/
theorem reopen_obs (P : Prim) (del : Bool) (s : St) (hA : InvA P s) (hV : InvVSR s) (hi : Inj P) (hlen : ∀ b, P.H b ≠ [])
    (hsz : ∀ b ∈ storedValues (commit P del s), b.length < 2 ^ 64) :
    ∃ s', openSt (commit P del s).db (roots P (commit P del s)) = some s' ∧ obs P s' = obs P (commit P del s) := by
  have hdec : ∀ b ∈ storedValues (commit P del s), DecOK b := fun b hb => decOK_of_small b (hsz b hb)
  have hget : ∀ (c : Content) (k : Bytes), (∀ b ∈ c.map (·.2), b ∈ storedValues (commit P del s)) → DecOK (cget c k) := by
    intro c k hc
    rcases cget_mem_or_nil c k with h | h
    · rw [h]; exact decOK_nil
    · exact hdec _ (hc _ h)
  have h1 : DecOK (commit P del s).t.val.index := hdec _ (by simp [storedValues])
  have h2 : DecOK (commit P del s).t.val.stat := hdec _ (by simp [storedValues])
  have h3 : DecOK (commit P del s).t.val.queue := hdec _ (by simp [storedValues])
  have h4 : DecOK (commit P del s).t.stk.relats := hdec _ (by simp [storedValues])
  have hopen : openSt (commit P del s).db (roots P (commit P del s)) = some (reopened (commit P del s)) :=
    reopen_loads P del s hV.cr h1 h2 h3 h4
  refine ⟨_, hopen, ?_⟩
  have hc := InvA_commit hA del
  obtain ⟨hJ, hP⟩ := iroot_JP P del s
  obtain ⟨hrD, _⟩ := commit_fields_vsr P del s
  have hvc : InvVSR (commit P del s) := InvVSR_of_eq (InvVSR_iroot P del hV) rfl rfl rfl rfl rfl rfl rfl rfl
  simp only [obs, Obs.mk.injEq]
  refine ⟨?_, ?_, rfl, rfl, ?_, rfl⟩
  · -- accounts
    have hk : acctKeys (reopened (commit P del s)) = acctKeys (commit P del s) := by
      unfold acctKeys
      apply sortKeys_ext
      intro x
      have ea : (reopened (commit P del s)).accts = [] := rfl
      have et : (reopened (commit P del s)).t = (commit P del s).t := rfl
      rw [ea, et]
      simp only [List.map_nil, List.nil_append, List.mem_append]
      constructor
      · exact Or.inr
      · rintro (h | h)
        · obtain ⟨o, ho⟩ := aget_some_of_mem_keys _ _ h
          rcases hc.a4 x o ho with h' | h' | h'
          · have : (commit P del s).acctJ = [] := hJ
            rw [this] at h'; simp at h'
          · have : (commit P del s).acctP = [] := hP
            rw [this] at h'; simp at h'
          · exact h'
        · exact h
    rw [hk]
    apply filterMap_congr'
    intro a _
    have := acctRow_congr a (getAcct_reopen P del s hA hi hlen hdec
      (reopened (commit P del s)) rfl rfl rfl a)
    exact this
  · -- validators
    show List.filterMap _ (sortKeys (sortKeys (commit P del s).index)) = _
    rw [sortKeys_idem]
    apply filterMap_congr'
    intro a _
    rw [reopen_getVal P del s (fun a => hget _ a (fun b hb => by simp [storedValues, hb])) hV.cv (reopened (commit P del s)) rfl rfl a]
  · -- staking records
    have hk : recKeys (reopened (commit P del s)) = recKeys (commit P del s) := by
      unfold recKeys
      apply sortKeys_ext
      intro x
      have ea : (reopened (commit P del s)).recs = [] := rfl
      have et : (reopened (commit P del s)).t = (commit P del s).t := rfl
      rw [ea, et]
      simp only [List.map_nil, List.nil_append, List.mem_append]
      constructor
      · exact Or.inr
      · rintro (h | h)
        · obtain ⟨r, hr⟩ := aget_some_of_mem_keys _ _ h
          rcases hvc.ks x r hr with h' | h'
          · rw [hrD] at h'; simp at h'
          · exact h'
        · exact h
    rw [hk]
    apply filterMap_congr'
    intro k _
    rw [reopen_getSRec P del s (fun k => hget _ k (fun b hb => by simp [storedValues, hb])) hV.cs (reopened (commit P del s)) rfl rfl k]




/-! ## the statistics under a permuted validator flush -/

theorem modify_comm (st : Stat) (i j : Nat) (f g : KStat → KStat) (h : ∀ k, f (g k) = g (f k)) :
    (st.modify i f).modify j g = (st.modify j g).modify i f := by
  rcases i with _|_|_|_|_|_|i <;> rcases j with _|_|_|_|_|_|j <;> simp [Stat.modify, h]

def applyMods (st : Stat) (l : List Nat) (f : KStat → KStat) : Stat := l.foldl (fun s i => s.modify i f) st

theorem applyMods_modify (st : Stat) (l : List Nat) (j : Nat) (f g : KStat → KStat) (h : ∀ k, f (g k) = g (f k)) :
    (applyMods st l f).modify j g = applyMods (st.modify j g) l f := by
  induction l generalizing st with
  | nil => rfl
  | cons i t ih =>
    simp only [applyMods, List.foldl_cons] at ih ⊢
    rw [ih (st.modify i f), modify_comm st i j f g h]

theorem applyMods_comm (st : Stat) (l m : List Nat) (f g : KStat → KStat) (h : ∀ k, f (g k) = g (f k)) :
    applyMods (applyMods st l f) m g = applyMods (applyMods st m g) l f := by
  induction m generalizing st with
  | nil => rfl
  | cons j t ih =>
    have e1 : applyMods (applyMods st l f) (j :: t) g = applyMods ((applyMods st l f).modify j g) t g := rfl
    have e2 : applyMods st (j :: t) g = applyMods (st.modify j g) t g := rfl
    rw [e1, e2, applyMods_modify st l j f g h, ih]

theorem forVal_eq (st : Stat) (v : Val) (f : KStat → KStat) : st.forVal v f = applyMods st [2 + v.role, kindOfRole v.role, 0] f := rfl

/-- a validator deleted at the flush that holds neither stake nor token: no clamped subtraction can fire -/
def ZeroStake (v : Val) : Prop := v.stake = 0 ∧ v.token = 0

theorem subVal_comm (v w : Val) (hv : ZeroStake v) (hw : ZeroStake w) (k : KStat) :
    (k.subVal w).subVal v = (k.subVal v).subVal w := by
  obtain ⟨v1, v2⟩ := hv
  obtain ⟨w1, w2⟩ := hw
  unfold KStat.subVal
  by_cases a : v.status = 1 <;> by_cases b : w.status = 1 <;> simp [a, b, v1, v2, w1, w2, clampSub]

theorem decrStat_comm (st : Stat) (v w : Val) (hv : ZeroStake v) (hw : ZeroStake w) :
    decrStat (decrStat st v) w = decrStat (decrStat st w) v := by
  unfold decrStat
  rw [forVal_eq, forVal_eq, forVal_eq, forVal_eq]
  exact applyMods_comm st _ _ _ _ (fun k => subVal_comm v w hv hw k)

def statStep (del : Bool) (vals : List (Bytes × Val)) (st : Stat) (a : Bytes) : Stat :=
  match aget vals a with
  | some v => if wd del v then decrStat st v else st
  | none => st

theorem decrStat_vflag (del : Bool) (st : Stat) (v : Val) : decrStat st (vflag del v) = decrStat st v := by
  by_cases h : wd del v = true
  · rw [vflag_pos h]; rfl
  · rw [vflag_neg h]

theorem flushVal_stat (del : Bool) (s : St) (a : Bytes) : (flushVal del s a).stat = statStep del s.vals s.stat a := by
  unfold flushVal statStep wd
  cases aget s.vals a with
  | none => rfl
  | some v => by_cases h : (v.deleted || (del && v.isInvalid)) = true <;> simp [h]

theorem statStep_stable (del : Bool) (s : St) (a : Bytes) : statStep del (flushVal del s a).vals = statStep del s.vals := by
  funext st x
  unfold statStep
  rw [(flushVal_get del s a x).1]
  by_cases hx : a = x
  · rw [if_pos hx]
    cases aget s.vals x with
    | none => rfl
    | some v => simp [wd_vflag, decrStat_vflag]
  · rw [if_neg hx]

theorem foldl_flushVal_stat (del : Bool) (l : List Bytes) (s : St) :
    (l.foldl (flushVal del) s).stat = l.foldl (statStep del s.vals) s.stat := by
  induction l generalizing s with
  | nil => rfl
  | cons a t ih =>
    simp only [List.foldl_cons]
    rw [ih (flushVal del s a), statStep_stable, flushVal_stat]

/-- no clamp fires: every validator this flush deletes has zero stake and zero token -/
def NoClamp (del : Bool) (s : St) : Prop :=
  ∀ a v, a ∈ s.valD → aget s.vals a = some v → wd del v = true → ZeroStake v

theorem flushVals_stat_perm (del : Bool) (s : St) (d : List Bytes) (hd : d.Perm s.valD) (hz : NoClamp del s) :
    (d.foldl (flushVal del) s).stat = (s.valD.foldl (flushVal del) s).stat := by
  rw [foldl_flushVal_stat, foldl_flushVal_stat]
  apply List.Perm.foldl_eq' hd
  intro x hx y hy st
  unfold statStep
  cases hvx : aget s.vals x with
  | none => rfl
  | some v =>
    cases hvy : aget s.vals y with
    | none => rfl
    | some w =>
      by_cases h1 : wd del v = true <;> by_cases h2 : wd del w = true <;> simp [h1, h2]
      exact decrStat_comm st v w (hz x v (hd.mem_iff.mp hx) hvx h1) (hz y w (hd.mem_iff.mp hy) hvy h2)




/-! ## the validator index under a permuted validator flush -/

def dq (del : Bool) (vals : List (Bytes × Val)) (x : Bytes) : Bool :=
  match aget vals x with | some v => wd del v | none => false
def uq (del : Bool) (vals : List (Bytes × Val)) (x : Bytes) : Bool :=
  match aget vals x with | some v => !wd del v | none => false

theorem dq_uq_stable (del : Bool) (s : St) (a : Bytes) :
    dq del (flushVal del s a).vals = dq del s.vals ∧ uq del (flushVal del s a).vals = uq del s.vals := by
  constructor <;> funext x <;> simp only [dq, uq] <;> rw [(flushVal_get del s a x).1] <;> by_cases hx : a = x
  · rw [if_pos hx]; cases aget s.vals x <;> simp [wd_vflag]
  · rw [if_neg hx]
  · rw [if_pos hx]; cases aget s.vals x <;> simp [wd_vflag]
  · rw [if_neg hx]

theorem flushVal_index (del : Bool) (s : St) (a x : Bytes) :
    x ∈ (flushVal del s a).index ↔
      (dq del s.vals a = true ∧ x ∈ s.index ∧ x ≠ a) ∨ (uq del s.vals a = true ∧ (x = a ∨ x ∈ s.index)) ∨
      (dq del s.vals a = false ∧ uq del s.vals a = false ∧ x ∈ s.index) := by
  unfold flushVal dq uq wd
  cases aget s.vals a with
  | none => simp
  | some v =>
    by_cases h : (v.deleted || (del && v.isInvalid)) = true
    · simp [h, List.mem_filter]
    · simp [h, mem_addIfNew]

theorem foldl_flushVal_index (del : Bool) (l : List Bytes) (s : St) (x : Bytes) :
    x ∈ (l.foldl (flushVal del) s).index ↔
      (x ∈ s.index ∧ ¬ (x ∈ l ∧ dq del s.vals x = true)) ∨ (x ∈ l ∧ uq del s.vals x = true) := by
  induction l generalizing s with
  | nil => simp
  | cons a t ih =>
    simp only [List.foldl_cons, List.mem_cons]
    rw [ih (flushVal del s a), (dq_uq_stable del s a).1, (dq_uq_stable del s a).2, flushVal_index]
    have hex : ¬ (dq del s.vals x = true ∧ uq del s.vals x = true) := by
      unfold dq uq; cases aget s.vals x <;> simp
    by_cases hxa : x = a
    · subst hxa
      cases hd : dq del s.vals x <;> cases hu : uq del s.vals x <;> simp_all
    · cases hd : dq del s.vals a <;> cases hu : uq del s.vals a <;> simp_all

/-- the index after the validator flush is the same set for every order of the dirty set -/
theorem flushVals_index_perm (del : Bool) (s : St) (d : List Bytes) (hd : d.Perm s.valD) :
    sortKeys (d.foldl (flushVal del) s).index = sortKeys (s.valD.foldl (flushVal del) s).index := by
  apply sortKeys_ext
  intro x
  rw [foldl_flushVal_index, foldl_flushVal_index]
  simp only [hd.mem_iff]




theorem iroot_stat_index (P : Prim) (del : Bool) (s : St) :
    (iroot P del s).stat = (s.valD.foldl (flushVal del) (flushAccts P (finalise del s))).stat ∧
    (iroot P del s).index = (s.valD.foldl (flushVal del) (flushAccts P (finalise del s))).index ∧
    (iroot P del s).queue = s.queue := by
  unfold iroot
  obtain ⟨f1, f2, f3, _⟩ := flushRelats_frame2 (flushRecs (saveSingles (flushVals del (flushAccts P (finalise del s)))))
  rw [f1, f2, f3]
  refine ⟨?_, ?_, ?_⟩
  · simp [flushRecs, saveSingles, flushVals, flushAccts, finalise]
  · simp [flushRecs, saveSingles, flushVals, flushAccts, finalise]
  · simp only [flushRecs, saveSingles, flushVals]
    rw [(foldl_flushVal_frame2 del _ _).2.2.1]
    simp [flushAccts, finalise]

theorem iroot_relats_bytes (P : Prim) (del : Bool) (s : St) :
    (iroot P del s).t.stk.relats = if s.relatsDirty then enc (bytesListItem s.relats) else s.t.stk.relats := by
  unfold iroot
  have hX : (flushRecs (saveSingles (flushVals del (flushAccts P (finalise del s))))).relatsDirty = s.relatsDirty ∧
      (flushRecs (saveSingles (flushVals del (flushAccts P (finalise del s))))).relats = s.relats ∧
      (flushRecs (saveSingles (flushVals del (flushAccts P (finalise del s))))).t.stk.relats = s.t.stk.relats := by
    simp only [flushRecs, saveSingles, flushVals]
    rw [(foldl_flushVal_frame2 del _ _).1, (foldl_flushVal_frame2 del _ _).2.1, (foldl_flushVal_frame del _ _).2.1]
    simp [flushAccts, finalise]
  obtain ⟨x1, x2, x3⟩ := hX
  unfold flushRelats
  by_cases hd : s.relatsDirty = true
  · rw [if_pos (by rw [x1]; exact hd), if_pos hd]; simp [x2]
  · rw [if_neg (by rw [x1]; exact hd), if_neg hd]; exact x3

/-- **the singleton leaves under permuted dirty sets**: saved index, statistics (no clamp firing), withdraw queue and
pending relationships are byte-identical -/
theorem iroot_singles_perm (P : Prim) (del : Bool) (s : St) (j p d r : List Bytes) (hd : d.Perm s.valD) (hz : NoClamp del s) :
    (iroot P del { s with acctJ := j, acctP := p, valD := d, recD := r }).t.val.index = (iroot P del s).t.val.index ∧
    (iroot P del { s with acctJ := j, acctP := p, valD := d, recD := r }).t.val.stat = (iroot P del s).t.val.stat ∧
    (iroot P del { s with acctJ := j, acctP := p, valD := d, recD := r }).t.val.queue = (iroot P del s).t.val.queue ∧
    (iroot P del { s with acctJ := j, acctP := p, valD := d, recD := r }).t.stk.relats = (iroot P del s).t.stk.relats := by
  obtain ⟨a1, a2, a3⟩ := iroot_singles P del { s with acctJ := j, acctP := p, valD := d, recD := r }
  obtain ⟨b1, b2, b3⟩ := iroot_singles P del s
  obtain ⟨c1, c2, c3⟩ := iroot_stat_index P del { s with acctJ := j, acctP := p, valD := d, recD := r }
  obtain ⟨e1, e2, e3⟩ := iroot_stat_index P del s
  refine ⟨?_, ?_, ?_, ?_⟩
  · rw [a1, b1, c2, e2]
    congr 2
    apply sortKeys_ext
    intro x
    rw [foldl_flushVal_index, foldl_flushVal_index]
    simp [flushAccts, finalise, hd.mem_iff]
  · rw [a2, b2, c1, e1, foldl_flushVal_stat, foldl_flushVal_stat]
    congr 2
    have := flushVals_stat_perm del s d hd hz
    rw [foldl_flushVal_stat, foldl_flushVal_stat] at this
    simpa [flushAccts, finalise] using this
  · rw [a3, b3, c3, e3]
  · rw [iroot_relats_bytes, iroot_relats_bytes]




/-- validator keys are 20-byte addresses -/
def Addr20 (c : Content) : Prop := ∀ kv ∈ c, kv.1.length = 20

theorem valKey_inj (a b : Bytes) (ha : a.length = 20) (hb : b.length = 20) (h : valKey a = valKey b) : a = b := by
  unfold valKey at h
  by_cases h1 : a = zeroAddr <;> by_cases h2 : b = zeroAddr
  · rw [h1, h2]
  · rw [if_pos h1, if_neg h2] at h
    have : b = [] := List.self_eq_append_right.mp h
    rw [this] at hb; simp at hb
  · rw [if_neg h1, if_pos h2] at h
    have : a = [] := List.self_eq_append_right.mp h.symm
    rw [this] at ha; simp at ha
  · rw [if_neg h1, if_neg h2] at h
    exact List.append_cancel_left h

def valMap (c : Content) : Content := c.map (fun kv => (valKey kv.1, withFlag flagVal kv.2))

theorem cget_valMap (c : Content) (hc : Addr20 c) (a : Bytes) (ha : a.length = 20) :
    cget (valMap c) (valKey a) = withFlag flagVal (cget c a) := by
  induction c with
  | nil => simp [valMap, withFlag]
  | cons x t ih =>
    obtain ⟨k0, v0⟩ := x
    have h0 : k0.length = 20 := hc (k0, v0) (by simp)
    have ht : Addr20 t := fun kv h => hc kv (List.mem_cons_of_mem _ h)
    have ih' := ih ht
    simp only [valMap, List.map_cons, cget_cons] at ih' ⊢
    by_cases hk : k0 = a
    · subst hk; simp
    · have : ¬ valKey k0 = valKey a := fun e => hk (valKey_inj k0 a h0 ha e)
      rw [if_neg this, if_neg hk]; exact ih'

theorem cget_valMap_other (c : Content) (hc : Addr20 c) (k : Bytes) (hk : ∀ a : Bytes, a.length = 20 → valKey a ≠ k) :
    cget (valMap c) k = [] := by
  apply cget_absent
  intro kv hkv
  obtain ⟨x, hx, e⟩ := List.mem_map.mp hkv
  rw [← e]
  exact hk x.1 (hc x hx)

theorem CEq_valMap (c₁ c₂ : Content) (h1 : Addr20 c₁) (h2 : Addr20 c₂) (h : CEq c₁ c₂) : CEq (valMap c₁) (valMap c₂) := by
  intro k
  by_cases hk : ∃ a : Bytes, a.length = 20 ∧ valKey a = k
  · obtain ⟨a, ha, e⟩ := hk
    rw [← e, cget_valMap c₁ h1 a ha, cget_valMap c₂ h2 a ha, h a]
  · have hk' : ∀ a : Bytes, a.length = 20 → valKey a ≠ k := fun a ha e => hk ⟨a, ha, e⟩
    rw [cget_valMap_other c₁ h1 k hk', cget_valMap_other c₂ h2 k hk']

theorem CEq_append_left (l c₁ c₂ : Content) (h : CEq c₁ c₂) : CEq (l ++ c₁) (l ++ c₂) := by
  intro k
  induction l with
  | nil => exact h k
  | cons x t ih =>
    obtain ⟨k0, v0⟩ := x
    simp only [List.cons_append, cget_cons, ih]

theorem CEq_valContent (p₁ p₂ : ValPart) (h1 : Addr20 p₁.vals) (h2 : Addr20 p₂.vals) (hv : CEq p₁.vals p₂.vals)
    (hi : p₁.index = p₂.index) (hs : p₁.stat = p₂.stat) (hq : p₁.queue = p₂.queue) : CEq (valContent p₁) (valContent p₂) := by
  unfold valContent
  rw [hi, hs, hq]
  exact CEq_append_left _ _ _ (CEq_valMap _ _ h1 h2 hv)

theorem CEq_stkContent (p₁ p₂ : StkPart) (hr : CEq p₁.recs p₂.recs) (hl : p₁.relats = p₂.relats) : CEq (stkContent p₁) (stkContent p₂) := by
  unfold stkContent
  rw [hl]
  intro k
  simp only [cget_cons, hr k]




/-! ## a validator's delegation list: sorted insert, independent of the arrival order -/

def DSorted (l : List Dlg) : Prop := l.Pairwise (fun x y => blt x.delegator y.delegator = true)

theorem dfind_cons (y : Dlg) (t : List Dlg) (k : Bytes) : dfind (y :: t) k = if y.delegator = k then some y else dfind t k := rfl

theorem dinsert_cons (x y : Dlg) (t : List Dlg) :
    dinsert x (y :: t) = if blt x.delegator y.delegator = true then x :: y :: t else if x.delegator = y.delegator then x :: t else y :: dinsert x t := rfl

theorem dfind_dinsert (x : Dlg) (l : List Dlg) (k : Bytes) :
    dfind (dinsert x l) k = if x.delegator = k then some x else dfind l k := by
  induction l with
  | nil => simp [dinsert, dfind]
  | cons y t ih =>
    rw [dinsert_cons]
    cases h1 : blt x.delegator y.delegator with
    | true => simp [dfind_cons]
    | false =>
      simp only [Bool.false_eq_true, if_false]
      by_cases h2 : x.delegator = y.delegator
      · simp only [h2, if_true, dfind_cons]; by_cases h3 : y.delegator = k <;> simp [h3]
      · simp only [h2, if_false, dfind_cons, ih]
        by_cases h3 : y.delegator = k
        · subst h3; simp [h2]
        · simp [h3]

theorem dinsert_mem (x : Dlg) (l : List Dlg) (y : Dlg) (hy : y ∈ dinsert x l) : y = x ∨ y ∈ l := by
  induction l with
  | nil => simp [dinsert] at hy; exact Or.inl hy
  | cons z t ih =>
    rw [dinsert_cons] at hy
    cases h1 : blt x.delegator z.delegator with
    | true =>
      simp only [h1, if_true] at hy
      rcases List.mem_cons.mp hy with h | h
      · exact Or.inl h
      · exact Or.inr h
    | false =>
      simp only [h1, Bool.false_eq_true, if_false] at hy
      by_cases h2 : x.delegator = z.delegator
      · simp only [h2, if_true] at hy
        rcases List.mem_cons.mp hy with h | h
        · exact Or.inl h
        · exact Or.inr (List.mem_cons_of_mem _ h)
      · simp only [h2, if_false] at hy
        rcases List.mem_cons.mp hy with h | h
        · right; rw [h]; exact List.mem_cons_self
        · rcases ih h with h' | h'
          · exact Or.inl h'
          · exact Or.inr (List.mem_cons_of_mem _ h')

/-- the sorted insert keeps the list strictly sorted -/
theorem dinsert_sorted (x : Dlg) (l : List Dlg) (hs : DSorted l) : DSorted (dinsert x l) := by
  induction l with
  | nil => simp [dinsert, DSorted]
  | cons z t ih =>
    unfold DSorted at hs ⊢
    rw [List.pairwise_cons] at hs
    obtain ⟨hx, ht⟩ := hs
    rw [dinsert_cons]
    cases h1 : blt x.delegator z.delegator with
    | true =>
      simp only [if_true]
      rw [List.pairwise_cons]
      refine ⟨?_, List.pairwise_cons.mpr ⟨hx, ht⟩⟩
      intro y hy
      rcases List.mem_cons.mp hy with h | h
      · rw [h]; exact h1
      · exact blt_trans _ _ _ h1 (hx y h)
    | false =>
      simp only [Bool.false_eq_true, if_false]
      by_cases h2 : x.delegator = z.delegator
      · simp only [h2, if_true]
        rw [List.pairwise_cons]
        exact ⟨fun y hy => by rw [h2]; exact hx y hy, ht⟩
      · simp only [h2, if_false]
        rw [List.pairwise_cons]
        refine ⟨?_, ih ht⟩
        intro y hy
        rcases dinsert_mem x t y hy with h | h
        · rw [h]
          cases h3 : blt z.delegator x.delegator with
          | true => rfl
          | false => exact absurd (blt_trichotomy _ _ h1 h3) h2
        · exact hx y h

theorem dfind_absent (l : List Dlg) (k : Bytes) (h : ∀ y ∈ l, y.delegator ≠ k) : dfind l k = none := by
  induction l with
  | nil => rfl
  | cons y t ih =>
    rw [dfind_cons, if_neg (h y List.mem_cons_self)]
    exact ih (fun z hz => h z (List.mem_cons_of_mem _ hz))

theorem dsorted_head_absent {y : Dlg} {t : List Dlg} (hs : DSorted (y :: t)) : ∀ z ∈ t, z.delegator ≠ y.delegator := by
  intro z hz heq
  have := (List.pairwise_cons.mp hs).1 z hz
  rw [heq, blt_irrefl] at this
  exact Bool.noConfusion this

theorem dfind_key {l : List Dlg} {k : Bytes} {y : Dlg} (h : dfind l k = some y) : y.delegator = k ∧ y ∈ l := by
  induction l with
  | nil => simp [dfind] at h
  | cons z t ih =>
    rw [dfind_cons] at h
    by_cases hz : z.delegator = k
    · rw [if_pos hz] at h; simp at h; subst h; exact ⟨hz, List.mem_cons_self⟩
    · rw [if_neg hz] at h; exact ⟨(ih h).1, List.mem_cons_of_mem _ (ih h).2⟩

/-- a strictly sorted delegation list is determined by its lookup function -/
theorem dsorted_ext : ∀ (a b : List Dlg), DSorted a → DSorted b → (∀ k, dfind a k = dfind b k) → a = b := by
  intro a
  induction a with
  | nil =>
    intro b _ _ he
    cases b with
    | nil => rfl
    | cons y u => have := he y.delegator; simp [dfind] at this
  | cons x t ih =>
    intro b hsa hsb he
    cases b with
    | nil => have := he x.delegator; simp [dfind] at this
    | cons y u =>
      have hsa' := List.pairwise_cons.mp hsa
      have hsb' := List.pairwise_cons.mp hsb
      have hk : x.delegator = y.delegator := by
        apply blt_trichotomy
        · cases h : blt x.delegator y.delegator with
          | false => rfl
          | true =>
            have habs : dfind (y :: u) x.delegator = none := by
              apply dfind_absent
              intro z hz heq
              rcases List.mem_cons.mp hz with hz | hz
              · rw [hz] at heq; rw [heq, blt_irrefl] at h; exact Bool.noConfusion h
              · have := blt_trans _ _ _ h (hsb'.1 z hz)
                rw [heq, blt_irrefl] at this; exact Bool.noConfusion this
            have := he x.delegator
            rw [habs, dfind_cons, if_pos rfl] at this
            simp at this
        · cases h : blt y.delegator x.delegator with
          | false => rfl
          | true =>
            have habs : dfind (x :: t) y.delegator = none := by
              apply dfind_absent
              intro z hz heq
              rcases List.mem_cons.mp hz with hz | hz
              · rw [hz] at heq; rw [heq, blt_irrefl] at h; exact Bool.noConfusion h
              · have := blt_trans _ _ _ h (hsa'.1 z hz)
                rw [heq, blt_irrefl] at this; exact Bool.noConfusion this
            have := he y.delegator
            rw [habs, dfind_cons, if_pos rfl] at this
            simp at this
      have hxy : x = y := by
        have := he x.delegator
        rw [dfind_cons, if_pos rfl, dfind_cons, if_pos hk.symm] at this
        simpa using this
      subst hxy
      have het : ∀ k, dfind t k = dfind u k := by
        intro k
        by_cases hkk : x.delegator = k
        · subst hkk
          rw [dfind_absent t _ (dsorted_head_absent hsa), dfind_absent u _ (dsorted_head_absent hsb)]
        · have := he k; simpa [dfind_cons, hkk] using this
      rw [ih u hsa'.2 hsb'.2 het]

def dinsertAll (l : List Dlg) (xs : List Dlg) : List Dlg := xs.foldl (fun l x => dinsert x l) l

theorem dinsertAll_sorted (xs l : List Dlg) (hs : DSorted l) : DSorted (dinsertAll l xs) := by
  induction xs generalizing l with
  | nil => exact hs
  | cons x t ih => exact ih _ (dinsert_sorted x l hs)

theorem dfind_dinsertAll_absent (xs l : List Dlg) (k : Bytes) (h : ∀ x ∈ xs, x.delegator ≠ k) : dfind (dinsertAll l xs) k = dfind l k := by
  induction xs generalizing l with
  | nil => rfl
  | cons x t ih =>
    have := ih (dinsert x l) (fun y hy => h y (List.mem_cons_of_mem _ hy))
    simp only [dinsertAll, List.foldl_cons] at this ⊢
    rw [this, dfind_dinsert, if_neg (h x List.mem_cons_self)]

theorem dfind_dinsertAll_mem (xs l : List Dlg) (x : Dlg) (hn : (xs.map (·.delegator)).Nodup) (hm : x ∈ xs) :
    dfind (dinsertAll l xs) x.delegator = some x := by
  induction xs generalizing l with
  | nil => simp at hm
  | cons y t ih =>
    simp only [List.map_cons, List.nodup_cons] at hn
    simp only [dinsertAll, List.foldl_cons]
    rcases List.mem_cons.mp hm with h | h
    · subst h
      have := dfind_dinsertAll_absent t (dinsert x l) x.delegator
        (fun z hz heq => hn.1 (heq ▸ List.mem_map_of_mem (f := (·.delegator)) hz))
      simp only [dinsertAll] at this
      rw [this, dfind_dinsert, if_pos rfl]
    · have := ih (dinsert y l) hn.2 h
      simpa [dinsertAll] using this

/-- **the delegation list does not depend on the order in which delegators arrive**: inserting a set of delegations
with distinct delegators into a sorted list gives the same (sorted) list for every permutation -/
theorem dinsertAll_perm (l xs ys : List Dlg) (hs : DSorted l) (hp : xs.Perm ys) (hn : (xs.map (·.delegator)).Nodup) :
    dinsertAll l xs = dinsertAll l ys := by
  apply dsorted_ext _ _ (dinsertAll_sorted xs l hs) (dinsertAll_sorted ys l hs)
  intro k
  have hn2 : (ys.map (·.delegator)).Nodup := (hp.map _).nodup_iff.mp hn
  by_cases hk : ∃ x ∈ xs, x.delegator = k
  · obtain ⟨x, hx, e⟩ := hk
    rw [← e, dfind_dinsertAll_mem xs l x hn hx, dfind_dinsertAll_mem ys l x hn2 (hp.mem_iff.mp hx)]
  · have h1 : ∀ x ∈ xs, x.delegator ≠ k := fun x hx e => hk ⟨x, hx, e⟩
    have h2 : ∀ x ∈ ys, x.delegator ≠ k := fun x hx => h1 x (hp.mem_iff.mpr hx)
    rw [dfind_dinsertAll_absent xs l k h1, dfind_dinsertAll_absent ys l k h2]


end YouVerif.C10
