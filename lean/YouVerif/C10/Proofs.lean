/-
C10 — helper lemmas: content maps (get/put, canonical form), association lists, folds of writes.
-/
import YouVerif.C10.Model
namespace YouVerif.C10

/-! ## content maps -/

@[simp] theorem cget_nil (k : Bytes) : cget [] k = [] := rfl

theorem cget_cput (c : Content) (k v k' : Bytes) :
    cget (cput c k v) k' = if k = k' then v else cget c k' := by
  simp [cput, cget]

theorem aget_aput {α : Type} (l : List (Bytes × α)) (k : Bytes) (v : α) (k' : Bytes) :
    aget (aput l k v) k' = if k = k' then some v else aget l k' := by
  simp [aput, aget]

theorem CEq.refl (c : Content) : CEq c c := fun _ => rfl
theorem CEq.symm {a b : Content} (h : CEq a b) : CEq b a := fun k => (h k).symm
theorem CEq.trans {a b c : Content} (h₁ : CEq a b) (h₂ : CEq b c) : CEq a c := fun k => (h₁ k).trans (h₂ k)

/-- write `f k` at `k` when it is defined -/
def putOpt (f : Bytes → Option Bytes) (c : Content) (k : Bytes) : Content := (f k).elim c (fun v => cput c k v)

/-- a fold of writes whose value is a function of the key: the result at `k'` does not depend on the order -/
theorem cget_foldl_put (f : Bytes → Option Bytes) (l : List Bytes) (c : Content) (k' : Bytes) :
    cget (l.foldl (putOpt f) c) k' = if k' ∈ l then (f k').getD (cget c k') else cget c k' := by
  induction l generalizing c with
  | nil => simp
  | cons a t ih =>
    simp only [List.foldl_cons, ih, List.mem_cons, putOpt]
    by_cases hk : k' = a
    · subst hk
      cases hf : f k' with
      | none => simp
      | some v => by_cases hm : k' ∈ t <;> simp [hm, cget_cput]
    · have hk' : ¬ a = k' := fun h => hk h.symm
      cases hf : f a with
      | none => simp [hk]
      | some v => by_cases hm : k' ∈ t <;> simp [hm, hk, hk', cget_cput]

/-! ## the key order -/


theorem blt_irrefl (a : Bytes) : blt a a = false := by
  induction a with
  | nil => rfl
  | cons x t ih => simp [blt, ih]

theorem blt_trichotomy : ∀ (a b : Bytes), blt a b = false → blt b a = false → a = b := by
  intro a
  induction a with
  | nil => intro b; cases b <;> simp [blt]
  | cons x t ih =>
    intro b
    cases b with
    | nil => simp [blt]
    | cons y u =>
      simp only [blt]
      intro h1 h2
      by_cases hxy : x.toNat < y.toNat
      · simp [hxy] at h1
      · by_cases hyx : y.toNat < x.toNat
        · simp [hyx] at h2
        · simp [hxy, hyx] at h1 h2
          have : x = y := UInt8.toNat_inj.mp (by omega)
          rw [this, ih u h1 h2]

theorem blt_trans : ∀ (a b c : Bytes), blt a b = true → blt b c = true → blt a c = true := by
  intro a
  induction a with
  | nil => intro b c; cases b <;> cases c <;> simp [blt]
  | cons x t ih =>
    intro b c
    cases b with
    | nil => simp [blt]
    | cons y u =>
      cases c with
      | nil => simp [blt]
      | cons z w =>
        simp only [blt]
        intro h1 h2
        by_cases hxy : x.toNat < y.toNat
        · by_cases hyz : y.toNat < z.toNat
          · have : x.toNat < z.toNat := by omega
            simp [this]
          · by_cases hzy : z.toNat < y.toNat
            · simp [hyz, hzy] at h2
            · have : x.toNat < z.toNat := by omega
              simp [this]
        · by_cases hyx : y.toNat < x.toNat
          · simp [hxy, hyx] at h1
          · simp [hxy, hyx] at h1
            by_cases hyz : y.toNat < z.toNat
            · have : x.toNat < z.toNat := by omega
              simp [this]
            · by_cases hzy : z.toNat < y.toNat
              · simp [hyz, hzy] at h2
              · simp [hyz, hzy] at h2
                have h3 : ¬ x.toNat < z.toNat := by omega
                have h4 : ¬ z.toNat < x.toNat := by omega
                simp [h3, h4, ih u w h1 h2]

/-! ## canonical form -/


/-- strictly sorted by key -/
def SortedC (c : Content) : Prop := c.Pairwise (fun x y => blt x.1 y.1 = true)
def NoEmpty (c : Content) : Prop := ∀ x ∈ c, x.2 ≠ []

theorem cget_absent (c : Content) (k : Bytes) (h : ∀ x ∈ c, x.1 ≠ k) : cget c k = [] := by
  induction c with
  | nil => rfl
  | cons x t ih =>
    obtain ⟨k', v⟩ := x
    have h1 : k' ≠ k := h (k', v) (by simp)
    show (if k' = k then v else cget t k) = []
    simp only [h1, if_false]
    exact ih (fun y hy => h y (by simp [hy]))

theorem cget_cons (k' v : Bytes) (t : Content) (k : Bytes) : cget ((k', v) :: t) k = if k' = k then v else cget t k := rfl

theorem cinsert_cons (k v k0 v0 : Bytes) (t : Content) :
    cinsert k v ((k0, v0) :: t) = if blt k k0 = true then (k, v) :: (k0, v0) :: t else if k = k0 then (k, v) :: t else (k0, v0) :: cinsert k v t := rfl

theorem cget_cinsert (k v : Bytes) (c : Content) (k' : Bytes) :
    cget (cinsert k v c) k' = if k = k' then v else cget c k' := by
  induction c with
  | nil => simp [cinsert, cget_cons]
  | cons x t ih =>
    obtain ⟨k0, v0⟩ := x
    rw [cinsert_cons]
    cases h1 : blt k k0 with
    | true => simp [cget_cons]
    | false =>
      simp only [Bool.false_eq_true, if_false]
      by_cases h2 : k = k0
      · subst h2; simp only [if_true, cget_cons]; by_cases h3 : k = k' <;> simp [h3]
      · simp only [h2, if_false, cget_cons, ih]
        by_cases h3 : k0 = k'
        · subst h3; simp [h2]
        · simp [h3]

theorem cinsert_mem (k v : Bytes) (c : Content) (y : Bytes × Bytes) (hy : y ∈ cinsert k v c) : y = (k, v) ∨ y ∈ c := by
  induction c with
  | nil => simp [cinsert] at hy; exact Or.inl hy
  | cons x t ih =>
    obtain ⟨k0, v0⟩ := x
    rw [cinsert_cons] at hy
    cases h1 : blt k k0 with
    | true =>
      simp only [h1, if_true] at hy
      rcases List.mem_cons.mp hy with h | h
      · exact Or.inl h
      · exact Or.inr h
    | false =>
      simp only [h1, Bool.false_eq_true, if_false] at hy
      by_cases h2 : k = k0
      · simp only [h2, if_true] at hy
        rcases List.mem_cons.mp hy with h | h
        · left; rw [h, h2]
        · right; exact List.mem_cons_of_mem _ h
      · simp only [h2, if_false] at hy
        rcases List.mem_cons.mp hy with h | h
        · right; rw [h]; exact List.mem_cons_self
        · rcases ih h with h' | h'
          · left; exact h'
          · right; exact List.mem_cons_of_mem _ h'

theorem cinsert_sorted (k v : Bytes) (c : Content) (hs : SortedC c) : SortedC (cinsert k v c) := by
  induction c with
  | nil => simp [cinsert, SortedC]
  | cons x t ih =>
    obtain ⟨k0, v0⟩ := x
    unfold SortedC at hs ⊢
    rw [List.pairwise_cons] at hs
    obtain ⟨hx, ht⟩ := hs
    rw [cinsert_cons]
    cases h1 : blt k k0 with
    | true =>
      simp only [if_true]
      rw [List.pairwise_cons]
      refine ⟨?_, List.pairwise_cons.mpr ⟨hx, ht⟩⟩
      intro y hy
      rcases List.mem_cons.mp hy with h | h
      · rw [h]; exact h1
      · exact blt_trans _ _ _ h1 (hx y h)
    | false =>
      simp only [Bool.false_eq_true, if_false]
      by_cases h2 : k = k0
      · subst h2
        simp only [if_true]
        exact List.pairwise_cons.mpr ⟨hx, ht⟩
      · simp only [h2, if_false]
        rw [List.pairwise_cons]
        refine ⟨?_, ih ht⟩
        intro y hy
        rcases cinsert_mem k v t y hy with h | h
        · rw [h]
          cases h3 : blt k0 k with
          | true => rfl
          | false => exact absurd (blt_trichotomy k k0 h1 h3) h2
        · exact hx y h

theorem foldr_cinsert_get (c : Content) (k : Bytes) :
    cget (c.foldr (fun kv acc => cinsert kv.1 kv.2 acc) []) k = cget c k := by
  induction c with
  | nil => rfl
  | cons x t ih =>
    obtain ⟨k0, v0⟩ := x
    simp only [List.foldr_cons, cget_cinsert, ih, cget_cons]

theorem foldr_cinsert_sorted (c : Content) : SortedC (c.foldr (fun kv acc => cinsert kv.1 kv.2 acc) []) := by
  induction c with
  | nil => simp [SortedC]
  | cons x t ih => exact cinsert_sorted _ _ _ ih

theorem sorted_head_absent {k v : Bytes} {t : Content} (hs : SortedC ((k, v) :: t)) : ∀ x ∈ t, x.1 ≠ k := by
  unfold SortedC at hs
  rw [List.pairwise_cons] at hs
  intro x hx heq
  have := hs.1 x hx
  rw [heq, blt_irrefl] at this
  exact Bool.noConfusion this

theorem cget_filter_sorted (c : Content) (hs : SortedC c) (k : Bytes) :
    cget (c.filter (fun kv => kv.2 ≠ [])) k = cget c k := by
  induction c with
  | nil => rfl
  | cons x t ih =>
    obtain ⟨k0, v0⟩ := x
    have ht : SortedC t := (List.pairwise_cons.mp hs).2
    by_cases hv : v0 = []
    · subst hv
      simp only [List.filter_cons, ne_eq, not_true_eq_false, decide_false, Bool.false_eq_true, if_false, ih ht, cget]
      by_cases hk : k0 = k
      · subst hk; simp only [if_true]; exact cget_absent t k0 (sorted_head_absent hs)
      · simp [hk]
    · simp only [List.filter_cons, ne_eq, hv, not_false_eq_true, decide_true, if_true, cget, ih ht]

theorem norm_get (c : Content) (k : Bytes) : cget (norm c) k = cget c k := by
  unfold norm
  rw [cget_filter_sorted _ (foldr_cinsert_sorted c), foldr_cinsert_get]

theorem norm_sorted (c : Content) : SortedC (norm c) := by
  unfold norm SortedC
  exact List.Pairwise.filter _ (foldr_cinsert_sorted c)

theorem norm_noEmpty (c : Content) : NoEmpty (norm c) := by
  intro x hx
  unfold norm at hx
  have := (List.mem_filter.mp hx).2
  simpa using this

/-- a strictly sorted content without empty values is determined by its `cget` -/
theorem sorted_ext : ∀ (a b : Content), SortedC a → SortedC b → NoEmpty a → NoEmpty b → CEq a b → a = b := by
  intro a
  induction a with
  | nil =>
    intro b _ _ _ hb he
    cases b with
    | nil => rfl
    | cons y u =>
      obtain ⟨k, v⟩ := y
      have h1 := he k
      rw [cget_cons] at h1
      simp only [cget_nil, if_true] at h1
      exact absurd h1.symm (hb (k, v) (by simp))
  | cons x t ih =>
    intro b hsa hsb hna hnb he
    obtain ⟨k1, v1⟩ := x
    cases b with
    | nil =>
      have h1 := he k1
      rw [cget_cons] at h1
      simp only [cget_nil, if_true] at h1
      exact absurd h1 (hna (k1, v1) (by simp))
    | cons y u =>
      obtain ⟨k2, v2⟩ := y
      have hv1 : v1 ≠ [] := hna (k1, v1) (by simp)
      have hv2 : v2 ≠ [] := hnb (k2, v2) (by simp)
      have hat := sorted_head_absent hsa
      have hbu := sorted_head_absent hsb
      have hsa' := List.pairwise_cons.mp hsa
      have hsb' := List.pairwise_cons.mp hsb
      have hk : k1 = k2 := by
        apply blt_trichotomy
        · cases h : blt k1 k2 with
          | false => rfl
          | true =>
            -- k1 is below every key of b
            have habs : cget ((k2, v2) :: u) k1 = [] := by
              apply cget_absent
              intro z hz heq
              rcases List.mem_cons.mp hz with hz | hz
              · rw [hz] at heq; simp at heq; rw [heq, blt_irrefl] at h; exact Bool.noConfusion h
              · have := blt_trans _ _ _ h (hsb'.1 z hz)
                rw [heq, blt_irrefl] at this; exact Bool.noConfusion this
            have := he k1
            rw [habs, cget_cons] at this
            simp only [if_true] at this
            exact absurd this hv1
        · cases h : blt k2 k1 with
          | false => rfl
          | true =>
            have habs : cget ((k1, v1) :: t) k2 = [] := by
              apply cget_absent
              intro z hz heq
              rcases List.mem_cons.mp hz with hz | hz
              · rw [hz] at heq; simp at heq; rw [heq, blt_irrefl] at h; exact Bool.noConfusion h
              · have := blt_trans _ _ _ h (hsa'.1 z hz)
                rw [heq, blt_irrefl] at this; exact Bool.noConfusion this
            have := he k2
            rw [habs, cget_cons] at this
            simp only [if_true] at this
            exact absurd this.symm hv2
      subst hk
      have hv : v1 = v2 := by have := he k1; simpa [cget_cons] using this
      subst hv
      have het : CEq t u := by
        intro k
        by_cases hkk : k1 = k
        · subst hkk; rw [cget_absent t k1 hat, cget_absent u k1 hbu]
        · have := he k; simpa [cget_cons, hkk] using this
      rw [ih u hsa'.2 hsb'.2 (fun z hz => hna z (by simp [hz])) (fun z hz => hnb z (by simp [hz])) het]

/-- the canonical form depends only on the content as a map -/
theorem norm_ext {a b : Content} (h : CEq a b) : norm a = norm b :=
  sorted_ext _ _ (norm_sorted a) (norm_sorted b) (norm_noEmpty a) (norm_noEmpty b)
    (fun k => by rw [norm_get, norm_get, h k])




/-! ## what a flush of the validators leaves untouched -/

theorem flushVal_frame (del : Bool) (s : St) (a : Bytes) :
    (flushVal del s a).t.acct = s.t.acct ∧ (flushVal del s a).t.stk = s.t.stk ∧ (flushVal del s a).accts = s.accts
    ∧ (flushVal del s a).recs = s.recs ∧ (flushVal del s a).recD = s.recD := by
  unfold flushVal
  cases aget s.vals a with
  | none => simp
  | some v => by_cases h : (v.deleted || (del && v.isInvalid)) = true <;> simp [h]

theorem foldl_flushVal_frame (del : Bool) (l : List Bytes) (s : St) :
    (l.foldl (flushVal del) s).t.acct = s.t.acct ∧ (l.foldl (flushVal del) s).t.stk = s.t.stk ∧ (l.foldl (flushVal del) s).accts = s.accts
    ∧ (l.foldl (flushVal del) s).recs = s.recs ∧ (l.foldl (flushVal del) s).recD = s.recD := by
  induction l generalizing s with
  | nil => simp
  | cons a t ih =>
    simp only [List.foldl_cons]
    obtain ⟨a1, a2, a3, a4, a5⟩ := flushVal_frame del s a
    obtain ⟨b1, b2, b3, b4, b5⟩ := ih (flushVal del s a)
    exact ⟨b1.trans a1, b2.trans a2, b3.trans a3, b4.trans a4, b5.trans a5⟩

theorem flushRelats_frame (s : St) : (flushRelats s).t.acct = s.t.acct ∧ (flushRelats s).t.stk.recs = s.t.stk.recs
    ∧ (flushRelats s).t.val = s.t.val := by
  unfold flushRelats; split <;> simp

/-- the account trie after IntermediateRoot: the pending set of the finalised state folded into the old trie -/
theorem iroot_acct (P : Prim) (del : Bool) (s : St) :
    (iroot P del s).t.acct = (finalise del s).acctP.foldl (flushAcct P (finalise del s).accts) s.t.acct := by
  unfold iroot
  rw [(flushRelats_frame _).1]
  simp only [flushRecs, saveSingles, flushVals]
  rw [(foldl_flushVal_frame del _ _).1]
  simp [flushAccts, finalise]

theorem iroot_recs (P : Prim) (del : Bool) (s : St) :
    (iroot P del s).t.stk.recs = s.recD.foldl (flushRec s.recs) s.t.stk.recs := by
  unfold iroot
  rw [(flushRelats_frame _).2.1]
  simp only [flushRecs, saveSingles, flushVals]
  obtain ⟨_, b2, _, b4, b5⟩ := foldl_flushVal_frame del (flushAccts P (finalise del s)).valD (flushAccts P (finalise del s))
  rw [b2, b4, b5]
  simp [flushAccts, finalise]

/-! ## Finalise as a function of the key -/

def finFlag (del : Bool) (o : Acct) : Acct := if o.suicided || (del && o.empty) then { o with deleted := true } else o

theorem finFlag_idem (del : Bool) (o : Acct) : finFlag del (finFlag del o) = finFlag del o := by
  unfold finFlag
  by_cases h : (o.suicided || (del && o.empty)) = true
  · have h2 : (({ o with deleted := true } : Acct).suicided || (del && ({ o with deleted := true } : Acct).empty)) = true := by
      simpa [Acct.empty] using h
    rw [if_pos h, if_pos h2]
  · rw [if_neg h, if_neg h]

theorem finaliseAcct_get (del : Bool) (accts : List (Bytes × Acct)) (a a' : Bytes) :
    aget (finaliseAcct del accts a) a' = if a = a' then (aget accts a').map (finFlag del) else aget accts a' := by
  unfold finaliseAcct
  by_cases ha : a = a'
  · subst ha
    cases h : aget accts a with
    | none => simp [h]
    | some o =>
      by_cases hc : (o.suicided || (del && o.empty)) = true
      · simp [hc, aget_aput, finFlag]
      · simp [hc, h, finFlag]
  · cases h : aget accts a with
    | none => simp [ha]
    | some o =>
      by_cases hc : (o.suicided || (del && o.empty)) = true
      · simp [hc, aget_aput, ha]
      · simp [hc, ha]

/-- Finalise looks at each journal-dirty object once, whatever the order of the dirty set -/
theorem finalise_accts_get (del : Bool) (l : List Bytes) (accts : List (Bytes × Acct)) (a' : Bytes) :
    aget (l.foldl (finaliseAcct del) accts) a' = if a' ∈ l then (aget accts a').map (finFlag del) else aget accts a' := by
  induction l generalizing accts with
  | nil => simp
  | cons a t ih =>
    simp only [List.foldl_cons, ih, finaliseAcct_get, List.mem_cons]
    by_cases ha : a = a'
    · subst ha
      by_cases hm : a ∈ t
      · cases h : aget accts a <;> simp [hm, finFlag_idem]
      · simp [hm]
    · have ha' : ¬ a' = a := fun h => ha h.symm
      simp [ha, ha']

theorem mem_addIfNew (k x : Bytes) (l : List Bytes) : x ∈ addIfNew k l ↔ x = k ∨ x ∈ l := by
  unfold addIfNew
  by_cases h : l.contains k = true
  · simp only [h, if_true]
    constructor
    · exact Or.inr
    · rintro (h' | h')
      · rw [h']; simpa using h
      · exact h'
  · simp only [h]
    simp [or_comm]

theorem mem_foldl_addIfNew (l acc : List Bytes) (x : Bytes) :
    x ∈ l.foldl (fun l a => addIfNew a l) acc ↔ x ∈ l ∨ x ∈ acc := by
  induction l generalizing acc with
  | nil => simp
  | cons a t ih =>
    simp only [List.foldl_cons, ih, mem_addIfNew, List.mem_cons]
    constructor
    · rintro (h | h | h)
      · exact Or.inl (Or.inr h)
      · exact Or.inl (Or.inl h)
      · exact Or.inr h
    · rintro ((h | h) | h)
      · exact Or.inr (Or.inl h)
      · exact Or.inl h
      · exact Or.inr (Or.inr h)

/-- value IntermediateRoot writes for a pending key -/
def acctLeaf (P : Prim) (o : Acct) : Bytes := if o.deleted then [] else encAcct P o

theorem flushAcct_eq (P : Prim) (accts : List (Bytes × Acct)) :
    flushAcct P accts = putOpt (fun a => (aget accts a).map (acctLeaf P)) := by
  funext c a
  unfold flushAcct acctLeaf putOpt
  cases hg : aget accts a with
  | none => simp [hg]
  | some o => by_cases h : o.deleted = true <;> simp [h, hg]

/-- **the account trie after a flush, key by key** -/
theorem iroot_acct_get (P : Prim) (del : Bool) (s : St) (a : Bytes) :
    cget (iroot P del s).t.acct a =
      if a ∈ s.acctJ ∨ a ∈ s.acctP then ((aget (finalise del s).accts a).map (acctLeaf P)).getD (cget s.t.acct a)
      else cget s.t.acct a := by
  rw [iroot_acct, flushAcct_eq, cget_foldl_put]
  have hm : a ∈ (finalise del s).acctP ↔ a ∈ s.acctJ ∨ a ∈ s.acctP := by
    simp only [finalise]; exact mem_foldl_addIfNew _ _ _
  by_cases h1 : a ∈ s.acctJ ∨ a ∈ s.acctP
  · rw [if_pos (hm.mpr h1), if_pos h1]
  · rw [if_neg (fun h' => h1 (hm.mp h')), if_neg h1]

theorem finalise_get (del : Bool) (s : St) (a : Bytes) :
    aget (finalise del s).accts a = if a ∈ s.acctJ then (aget s.accts a).map (finFlag del) else aget s.accts a := by
  simp only [finalise]; exact finalise_accts_get del _ _ _




/-! ## staking records -/

theorem flushRec_eq (recs : List (Bytes × SRec)) :
    flushRec recs = putOpt (fun k => (aget recs k).map (fun r => enc (srecItem r))) := by
  funext c k
  unfold flushRec putOpt
  cases hg : aget recs k <;> simp [hg]

theorem iroot_recs_get (P : Prim) (del : Bool) (s : St) (k : Bytes) :
    cget (iroot P del s).t.stk.recs k =
      if k ∈ s.recD then ((aget s.recs k).map (fun r => enc (srecItem r))).getD (cget s.t.stk.recs k) else cget s.t.stk.recs k := by
  rw [iroot_recs, flushRec_eq, cget_foldl_put]

/-! ## validators -/

def wd (del : Bool) (v : Val) : Bool := v.deleted || (del && v.isInvalid)
def markDel (v : Val) : Val := { v with deleted := true }
def vflag (del : Bool) (v : Val) : Val := if wd del v then markDel v else v
def valLeaf (del : Bool) (v : Val) : Bytes := if wd del v then [] else enc (valItem v)

theorem wd_markDel (del : Bool) (v : Val) : wd del (markDel v) = true := by simp [wd, markDel]

theorem vflag_pos {del : Bool} {v : Val} (h : wd del v = true) : vflag del v = markDel v := by unfold vflag; rw [if_pos h]
theorem vflag_neg {del : Bool} {v : Val} (h : ¬ wd del v = true) : vflag del v = v := by unfold vflag; rw [if_neg h]

theorem wd_vflag (del : Bool) (v : Val) : wd del (vflag del v) = wd del v := by
  by_cases h : wd del v = true
  · rw [vflag_pos h, wd_markDel, h]
  · rw [vflag_neg h]

theorem vflag_idem (del : Bool) (v : Val) : vflag del (vflag del v) = vflag del v := by
  by_cases h : wd del v = true
  · rw [vflag_pos h, vflag_pos (wd_markDel del v)]; rfl
  · rw [vflag_neg h, vflag_neg h]

theorem valLeaf_vflag (del : Bool) (v : Val) : valLeaf del (vflag del v) = valLeaf del v := by
  unfold valLeaf
  rw [wd_vflag]
  by_cases h : wd del v = true
  · simp [h]
  · rw [vflag_neg h]

theorem flushVal_get (del : Bool) (s : St) (a a' : Bytes) :
    aget (flushVal del s a).vals a' = (if a = a' then (aget s.vals a').map (vflag del) else aget s.vals a') ∧
    cget (flushVal del s a).t.val.vals a' =
      (if a = a' then ((aget s.vals a').map (valLeaf del)).getD (cget s.t.val.vals a') else cget s.t.val.vals a') := by
  unfold flushVal
  by_cases ha : a = a'
  · subst ha
    cases hg : aget s.vals a with
    | none => simp [hg]
    | some v =>
      by_cases hw : (v.deleted || (del && v.isInvalid)) = true
      · simp [hw, aget_aput, cget_cput, vflag, valLeaf, wd, markDel]
      · simp [hw, hg, cget_cput, vflag, valLeaf, wd]
  · cases hg : aget s.vals a with
    | none => simp [ha]
    | some v =>
      by_cases hw : (v.deleted || (del && v.isInvalid)) = true
      · simp [hw, aget_aput, cget_cput, ha]
      · simp [hw, cget_cput, ha]

theorem foldl_flushVal_get (del : Bool) (l : List Bytes) (s : St) (a' : Bytes) :
    aget (l.foldl (flushVal del) s).vals a' = (if a' ∈ l then (aget s.vals a').map (vflag del) else aget s.vals a') ∧
    cget (l.foldl (flushVal del) s).t.val.vals a' =
      (if a' ∈ l then ((aget s.vals a').map (valLeaf del)).getD (cget s.t.val.vals a') else cget s.t.val.vals a') := by
  induction l generalizing s with
  | nil => simp
  | cons a t ih =>
    simp only [List.foldl_cons, List.mem_cons]
    obtain ⟨i1, i2⟩ := ih (flushVal del s a)
    obtain ⟨f1, f2⟩ := flushVal_get del s a a'
    rw [i1, i2, f1, f2]
    by_cases ha : a = a'
    · subst ha
      by_cases hm : a ∈ t
      · cases hg : aget s.vals a <;> simp [hm, vflag_idem, valLeaf_vflag]
      · simp [hm]
    · have ha' : ¬ a' = a := fun h => ha h.symm
      simp [ha, ha']

theorem iroot_vals (P : Prim) (del : Bool) (s : St) :
    (iroot P del s).t.val.vals = (s.valD.foldl (flushVal del) (flushAccts P (finalise del s))).t.val.vals := by
  unfold iroot
  rw [(flushRelats_frame _).2.2]
  simp [flushRecs, saveSingles, flushVals, flushAccts, finalise]

/-- **the validator records in the validator trie after a flush, key by key** -/
theorem iroot_vals_get (P : Prim) (del : Bool) (s : St) (a : Bytes) :
    cget (iroot P del s).t.val.vals a =
      if a ∈ s.valD then ((aget s.vals a).map (valLeaf del)).getD (cget s.t.val.vals a) else cget s.t.val.vals a := by
  rw [iroot_vals, (foldl_flushVal_get del _ _ a).2]
  simp [flushAccts, finalise]



open YouVerif.Common.Rlp

/-! ## numbers and record shapes round-trip -/

theorem natToBE_zero : natToBE 0 = [] := by rw [natToBE]; simp
theorem natToBE_pos (n : Nat) (h : n ≠ 0) : natToBE n = natToBE (n / 256) ++ [UInt8.ofNat (n % 256)] := by
  rw [natToBE]; simp [h]

theorem beToNat_snoc (l : Bytes) (b : UInt8) : beToNat (l ++ [b]) = beToNat l * 256 + b.toNat := by
  simp [beToNat, List.foldl_append]

theorem beToNat_natToBE (n : Nat) : beToNat (natToBE n) = n := by
  induction n using Nat.strongRecOn with
  | _ n ih =>
    by_cases h : n = 0
    · subst h; rw [natToBE_zero]; rfl
    · rw [natToBE_pos n h, beToNat_snoc, ih (n / 256) (by omega)]
      have : (UInt8.ofNat (n % 256)).toNat = n % 256 := by
        simp [UInt8.toNat_ofNat']
      rw [this]; omega

theorem natToBE_head (n : Nat) : (natToBE n).head? ≠ some 0 := by
  induction n using Nat.strongRecOn with
  | _ n ih =>
    by_cases h : n = 0
    · subst h; rw [natToBE_zero]; simp
    · rw [natToBE_pos n h]
      by_cases h2 : n / 256 = 0
      · rw [h2, natToBE_zero]
        simp only [List.nil_append, List.head?_cons, ne_eq, Option.some.injEq]
        intro hz
        have : (UInt8.ofNat (n % 256)).toNat = n % 256 := by
          simp [UInt8.toNat_ofNat']
        rw [hz] at this
        simp at this
        omega
      · have := ih (n / 256) (by omega)
        cases hl : natToBE (n / 256) with
        | nil =>
          have h3 := beToNat_natToBE (n / 256)
          rw [hl] at h3
          exact absurd h3.symm h2
        | cons x t => rw [hl] at this; simpa using this

@[simp] theorem pN_iN (n : Nat) : pN (iN n) = some n := by
  simp [pN, iN, natToBE_head, beToNat_natToBE]

@[simp] theorem pB_iB (b : Bytes) : pB (iB b) = some b := rfl

theorem mapM_map_rt {α β : Type} (f : α → β) (g : β → Option α) (h : ∀ x, g (f x) = some x) (l : List α) :
    (l.map f).mapM g = some l := by
  induction l with
  | nil => rfl
  | cons a t ih => simp [List.mapM_cons, h a, ih]

@[simp] theorem dlg_rt (d : Dlg) : dlgOfItem (dlgItem d) = some d := by
  simp [dlgOfItem, dlgItem, iL]

@[simp] theorem bytesList_rt (l : List Bytes) : bytesListOfItem (bytesListItem l) = some l := by
  simp [bytesListOfItem, bytesListItem, iL, mapM_map_rt iB pB pB_iB]

@[simp] theorem kstat_rt (k : KStat) : kstatOfItem (kstatItem k) = some k := by
  simp [kstatOfItem, kstatItem, iL]

@[simp] theorem stat_rt (s : Stat) : statOfItem (statItem s) = some s := by
  simp [statOfItem, statItem, iL]

@[simp] theorem wrec_rt (w : WRec) : wrecOfItem (wrecItem w) = some w := by
  simp [wrecOfItem, wrecItem, iL]

@[simp] theorem queue_rt (q : List WRec) : queueOfItem (queueItem q) = some q := by
  simp [queueOfItem, queueItem, iL, mapM_map_rt wrecItem wrecOfItem wrec_rt]

@[simp] theorem srec_rt (r : SRec) : srecOfItem (srecItem r) = some r := by
  simp [srecOfItem, srecItem, iL]

/-- the validator record: everything but the cache flag `deleted` is on the wire -/
theorem val_rt (v : Val) : valOfItem (valItem v) = some { v with deleted := false } := by
  simp [valOfItem, valItem, iL, mapM_map_rt dlgItem dlgOfItem dlg_rt]
  cases v.expelled <;> rfl



open YouVerif.Common.Rlp


/-! ## commit and reopen -/

theorem enc_list_ne_nil (l : List Item) : enc (iL l) ≠ [] := by
  unfold enc iL
  rw [YouVerif.Common.Rlp.encode]
  simp only [YouVerif.Common.Rlp.encodeLength]
  split <;> simp

/-- the pending-relationship leaf agrees with the in-memory list whenever the list is not dirty -/
def CohR (s : St) : Prop :=
  s.relatsDirty = false → (s.t.stk.relats = enc (bytesListItem s.relats) ∨ (s.t.stk.relats = [] ∧ s.relats = []))

theorem flushRelats_saved (s : St) (h : CohR s) :
    ((flushRelats s).t.stk.relats = enc (bytesListItem (flushRelats s).relats) ∨
      ((flushRelats s).t.stk.relats = [] ∧ (flushRelats s).relats = [])) := by
  unfold flushRelats
  by_cases hd : s.relatsDirty = true
  · simp [hd]
  · have hd' : s.relatsDirty = false := by simpa using hd
    simp only [hd, if_false]
    exact h hd'

theorem foldl_flushVal_frame2 (del : Bool) (l : List Bytes) (s : St) :
    (l.foldl (flushVal del) s).relats = s.relats ∧ (l.foldl (flushVal del) s).relatsDirty = s.relatsDirty
    ∧ (l.foldl (flushVal del) s).queue = s.queue ∧ (l.foldl (flushVal del) s).db = s.db ∧ (l.foldl (flushVal del) s).acctU = s.acctU := by
  induction l generalizing s with
  | nil => simp
  | cons a t ih =>
    simp only [List.foldl_cons]
    obtain ⟨b1, b2, b3, b4, b5⟩ := ih (flushVal del s a)
    have h : (flushVal del s a).relats = s.relats ∧ (flushVal del s a).relatsDirty = s.relatsDirty ∧ (flushVal del s a).queue = s.queue
        ∧ (flushVal del s a).db = s.db ∧ (flushVal del s a).acctU = s.acctU := by
      unfold flushVal
      cases aget s.vals a with
      | none => simp
      | some v => by_cases h : (v.deleted || (del && v.isInvalid)) = true <;> simp [h]
    exact ⟨b1.trans h.1, b2.trans h.2.1, b3.trans h.2.2.1, b4.trans h.2.2.2.1, b5.trans h.2.2.2.2⟩

theorem iroot_relats_saved (P : Prim) (del : Bool) (s : St) (h : CohR s) :
    ((iroot P del s).t.stk.relats = enc (bytesListItem (iroot P del s).relats) ∨
      ((iroot P del s).t.stk.relats = [] ∧ (iroot P del s).relats = [])) := by
  unfold iroot
  apply flushRelats_saved
  unfold CohR
  obtain ⟨_, b2, _⟩ := foldl_flushVal_frame del (flushAccts P (finalise del s)).valD (flushAccts P (finalise del s))
  obtain ⟨c1, c2, _⟩ := foldl_flushVal_frame2 del (flushAccts P (finalise del s)).valD (flushAccts P (finalise del s))
  simp only [flushRecs, saveSingles, flushVals]
  rw [b2, c1, c2]
  simpa [flushAccts, finalise, CohR] using h

theorem flushRelats_frame2 (s : St) : (flushRelats s).index = s.index ∧ (flushRelats s).stat = s.stat ∧ (flushRelats s).queue = s.queue
    ∧ (flushRelats s).vals = s.vals ∧ (flushRelats s).valD = s.valD ∧ (flushRelats s).recs = s.recs ∧ (flushRelats s).recD = s.recD := by
  unfold flushRelats; split <;> simp

/-- index, statistics and withdraw queue are saved on every IntermediateRoot -/
theorem iroot_singles (P : Prim) (del : Bool) (s : St) :
    (iroot P del s).t.val.index = enc (bytesListItem (sortKeys (iroot P del s).index)) ∧
    (iroot P del s).t.val.stat = enc (statItem (iroot P del s).stat) ∧
    (iroot P del s).t.val.queue = enc (queueItem (iroot P del s).queue) := by
  unfold iroot
  obtain ⟨f1, f2, f3, _⟩ := flushRelats_frame2 (flushRecs (saveSingles (flushVals del (flushAccts P (finalise del s)))))
  rw [(flushRelats_frame _).2.2, f1, f2, f3]
  simp [flushRecs, saveSingles]

/-- `b` decodes back to whatever item it is the encoding of (C14: true of every `b` shorter than 2^64 bytes) -/
def DecOK (b : Bytes) : Prop := ∀ i, enc i = b → dec b = some i

theorem DecOK.dec_enc {i : Item} (h : DecOK (enc i)) : dec (enc i) = some i := h i rfl

/-- **Commit then New**: the reopened state holds exactly the three committed tries, and the statistics, withdraw queue,
validator index and pending relationships it loads are the live ones -/
theorem reopen_loads (P : Prim) (del : Bool) (s : St) (hr : CohR s)
    (h1 : DecOK (commit P del s).t.val.index) (h2 : DecOK (commit P del s).t.val.stat)
    (h3 : DecOK (commit P del s).t.val.queue) (h4 : DecOK (commit P del s).t.stk.relats) :
    openSt (commit P del s).db (roots P (commit P del s)) =
      some { db := (commit P del s).db, t := (commit P del s).t, index := sortKeys (commit P del s).index,
             stat := (commit P del s).stat, queue := (commit P del s).queue, relats := (commit P del s).relats } := by
  obtain ⟨i1, i2, i3⟩ := iroot_singles P del s
  have hrel := iroot_relats_saved P del s hr
  have ht : (commit P del s).t = (iroot P del s).t := rfl
  have hst : (commit P del s).stat = (iroot P del s).stat := rfl
  have hq : (commit P del s).queue = (iroot P del s).queue := rfl
  have hi : (commit P del s).index = (iroot P del s).index := rfl
  have hrl : (commit P del s).relats = (iroot P del s).relats := rfl
  have hroots : roots P (commit P del s) = roots P (iroot P del s) := rfl
  rw [ht] at h1 h2 h3 h4
  rw [i1] at h1; rw [i2] at h2; rw [i3] at h3
  have d1 := h1.dec_enc
  have d2 := h2.dec_enc
  have d3 := h3.dec_enc
  have ha : aget (commit P del s).db.acctT (roots P (iroot P del s)).root = some (iroot P del s).t.acct := by
    simp [commit, aget_aput]
  have hv : aget (commit P del s).db.valT (roots P (iroot P del s)).valRoot = some (iroot P del s).t.val := by
    simp [commit, aget_aput]
  have hk : aget (commit P del s).db.stkT (roots P (iroot P del s)).stakingRoot = some (iroot P del s).t.stk := by
    simp [commit, aget_aput]
  have e1 : (iroot P del s).t.val.index ≠ [] := by rw [i1]; exact enc_list_ne_nil _
  have e2 : (iroot P del s).t.val.stat ≠ [] := by rw [i2]; exact enc_list_ne_nil _
  have e3 : (iroot P del s).t.val.queue ≠ [] := by rw [i3]; exact enc_list_ne_nil _
  rw [hroots, ht, hst, hq, hi, hrl]
  unfold openSt
  rcases hrel with hrel | ⟨hrel1, hrel2⟩
  · have e4 : (iroot P del s).t.stk.relats ≠ [] := by rw [hrel]; exact enc_list_ne_nil _
    simp only [ha, hv, hk, loadList, loadStat, loadQueue, e1, e2, e3, e4, if_false, Option.bind_some]
    rw [hrel] at h4
    have d4 := h4.dec_enc
    rw [i1, i2, i3, hrel]
    simp only [d1, d2, d3, d4, Option.bind_some, bytesList_rt, stat_rt, queue_rt]
  · simp only [ha, hv, hk, loadList, loadStat, loadQueue, e1, e2, e3, hrel1, if_true, if_false, Option.bind_some]
    rw [i1, i2, i3]
    simp only [d1, d2, d3, Option.bind_some, bytesList_rt, stat_rt, queue_rt, hrel2]




/-- leaf of a clean live validator -/
def valLeaf' (v : Val) : Bytes := if v.deleted then [] else enc (valItem v)

def CohV (s : St) : Prop := ∀ a v, aget s.vals a = some v → a ∉ s.valD → cget s.t.val.vals a = valLeaf' v
def CohS (s : St) : Prop := ∀ k r, aget s.recs k = some r → k ∉ s.recD → cget s.t.stk.recs k = enc (srecItem r)

theorem valLeaf'_vflag (del : Bool) (v : Val) : valLeaf' (vflag del v) = valLeaf del v := by
  unfold valLeaf' valLeaf
  by_cases h : wd del v = true
  · rw [vflag_pos h]; simp [h, markDel]
  · rw [vflag_neg h]
    have hd : v.deleted = false := by
      cases hv : v.deleted with
      | false => rfl
      | true => exact absurd (by simp [wd, hv]) h
    simp [h, hd]

theorem iroot_vals_live (P : Prim) (del : Bool) (s : St) :
    (iroot P del s).vals = (s.valD.foldl (flushVal del) (flushAccts P (finalise del s))).vals := by
  unfold iroot
  rw [(flushRelats_frame2 _).2.2.2.1]
  simp [flushRecs, saveSingles, flushVals, flushAccts, finalise]

/-- after IntermediateRoot every live validator is what the validator trie holds -/
theorem iroot_cohV (P : Prim) (del : Bool) (s : St) (h : CohV s) (a : Bytes) (v : Val)
    (hv : aget (iroot P del s).vals a = some v) : cget (iroot P del s).t.val.vals a = valLeaf' v := by
  rw [iroot_vals_live, (foldl_flushVal_get del _ _ a).1] at hv
  rw [iroot_vals_get]
  have hs : (flushAccts P (finalise del s)).vals = s.vals := by simp [flushAccts, finalise]
  rw [hs] at hv
  by_cases hd : a ∈ s.valD
  · rw [if_pos hd] at hv
    rw [if_pos hd]
    cases h0 : aget s.vals a with
    | none => rw [h0] at hv; simp at hv
    | some v0 =>
      rw [h0] at hv
      simp only [Option.map_some, Option.some.injEq] at hv
      rw [← hv, valLeaf'_vflag]
      simp
  · rw [if_neg hd] at hv
    rw [if_neg hd]
    exact h a v hv hd

theorem val_undeleted (v : Val) (h : v.deleted = false) : ({ v with deleted := false } : Val) = v := by
  cases v; simp_all

/-- **reopened validators = live validators** -/
theorem reopen_getVal (P : Prim) (del : Bool) (s : St) (hrt : ∀ a, DecOK (cget (commit P del s).t.val.vals a)) (h : CohV s) (s' : St)
    (ht : s'.t = (commit P del s).t) (hl : s'.vals = []) (a : Bytes) : getVal s' a = getVal (commit P del s) a := by
  have hcv : (commit P del s).vals = (iroot P del s).vals := rfl
  have hct : (commit P del s).t = (iroot P del s).t := rfl
  unfold getVal
  rw [hl, ht, hcv, hct]
  simp only [aget]
  cases hv : aget (iroot P del s).vals a with
  | none => rfl
  | some v =>
    have hleaf := iroot_cohV P del s h a v hv
    simp only [hleaf]
    unfold valLeaf'
    by_cases hd : v.deleted = true
    · simp [hd]
    · have hd' : v.deleted = false := by simpa using hd
      have hne : enc (valItem v) ≠ [] := enc_list_ne_nil _
      have hda := hrt a
      rw [hct, hleaf] at hda
      unfold valLeaf' at hda
      simp only [hd', Bool.false_eq_true, if_false] at hda
      simp only [hd', Bool.false_eq_true, if_false, hne, decVal, hda.dec_enc, Option.bind_some, val_rt, val_undeleted v hd']

theorem iroot_recs_live (P : Prim) (del : Bool) (s : St) : (iroot P del s).recs = s.recs := by
  unfold iroot
  rw [(flushRelats_frame2 _).2.2.2.2.2.1]
  simp only [flushRecs, saveSingles, flushVals]
  rw [(foldl_flushVal_frame del _ _).2.2.2.1]
  simp [flushAccts, finalise]

theorem iroot_cohS (P : Prim) (del : Bool) (s : St) (h : CohS s) (k : Bytes) (r : SRec)
    (hr : aget (iroot P del s).recs k = some r) : cget (iroot P del s).t.stk.recs k = enc (srecItem r) := by
  rw [iroot_recs_live] at hr
  rw [iroot_recs_get]
  by_cases hd : k ∈ s.recD
  · rw [if_pos hd, hr]; rfl
  · rw [if_neg hd]; exact h k r hr hd

/-- **reopened staking records = live staking records** -/
theorem reopen_getSRec (P : Prim) (del : Bool) (s : St) (hrt : ∀ k, DecOK (cget (commit P del s).t.stk.recs k)) (h : CohS s) (s' : St)
    (ht : s'.t = (commit P del s).t) (hl : s'.recs = []) (k : Bytes) : getSRec s' k = getSRec (commit P del s) k := by
  have hcv : (commit P del s).recs = (iroot P del s).recs := rfl
  have hct : (commit P del s).t = (iroot P del s).t := rfl
  unfold getSRec
  rw [hl, ht, hcv, hct]
  simp only [aget]
  cases hv : aget (iroot P del s).recs k with
  | none => rfl
  | some r =>
    have hleaf := iroot_cohS P del s h k r hv
    have hne : enc (srecItem r) ≠ [] := enc_list_ne_nil _
    have hda := hrt k
    rw [hct, hleaf] at hda
    simp only [hleaf, hne, if_false, decSRec, hda.dec_enc, Option.bind_some, srec_rt]



/-! ## sets of writes -/


def writeAll (c : Content) (l : List (Bytes × Bytes)) : Content := l.foldl (fun c kv => cput c kv.1 kv.2) c

theorem writeAll_get_absent (l : List (Bytes × Bytes)) (c : Content) (k : Bytes) (h : ∀ kv ∈ l, kv.1 ≠ k) :
    cget (writeAll c l) k = cget c k := by
  induction l generalizing c with
  | nil => rfl
  | cons x t ih =>
    simp only [writeAll, List.foldl_cons]
    have := ih (cput c x.1 x.2) (fun kv hkv => h kv (List.mem_cons_of_mem _ hkv))
    simp only [writeAll] at this
    rw [this, cget_cput, if_neg (h x List.mem_cons_self)]

theorem writeAll_get_mem (l : List (Bytes × Bytes)) (c : Content) (k v : Bytes) (hn : (l.map (·.1)).Nodup) (hm : (k, v) ∈ l) :
    cget (writeAll c l) k = v := by
  induction l generalizing c with
  | nil => simp at hm
  | cons x t ih =>
    simp only [List.map_cons, List.nodup_cons] at hn
    simp only [writeAll, List.foldl_cons]
    rcases List.mem_cons.mp hm with h | h
    · subst h
      have := writeAll_get_absent t (cput c k v) k (fun kv hkv heq => hn.1 (heq ▸ List.mem_map_of_mem (f := (·.1)) hkv))
      simp only [writeAll] at this
      rw [this, cget_cput, if_pos rfl]
    · have := ih (cput c x.1 x.2) hn.2 h
      simpa [writeAll] using this

/-- folding a set of writes with distinct keys into a content gives the same content in any order -/
theorem writeAll_perm (c : Content) (l₁ l₂ : List (Bytes × Bytes)) (hp : l₁.Perm l₂) (hn : (l₁.map (·.1)).Nodup) :
    CEq (writeAll c l₁) (writeAll c l₂) := by
  intro k
  have hn2 : (l₂.map (·.1)).Nodup := (hp.map _).nodup_iff.mp hn
  by_cases hk : ∃ v, (k, v) ∈ l₁
  · obtain ⟨v, hv⟩ := hk
    rw [writeAll_get_mem l₁ c k v hn hv, writeAll_get_mem l₂ c k v hn2 (hp.mem_iff.mp hv)]
  · have h1 : ∀ kv ∈ l₁, kv.1 ≠ k := fun kv hkv heq => hk ⟨kv.2, by rw [← heq]; exact hkv⟩
    have h2 : ∀ kv ∈ l₂, kv.1 ≠ k := fun kv hkv => h1 kv (hp.mem_iff.mpr hkv)
    rw [writeAll_get_absent l₁ c k h1, writeAll_get_absent l₂ c k h2]

theorem cput_comm (c : Content) (k₁ v₁ k₂ v₂ : Bytes) (h : k₁ ≠ k₂) :
    CEq (cput (cput c k₁ v₁) k₂ v₂) (cput (cput c k₂ v₂) k₁ v₁) := by
  intro k
  simp only [cget_cput]
  by_cases h1 : k₁ = k <;> by_cases h2 : k₂ = k <;> simp [h1, h2]
  exact absurd (h1.trans h2.symm) h

theorem cput_last_wins (c : Content) (k v₁ v₂ : Bytes) : CEq (cput (cput c k v₁) k v₂) (cput c k v₂) := by
  intro k'
  simp only [cget_cput]
  by_cases h1 : k = k' <;> simp [h1]


end YouVerif.C10
