/-
C10 — helper lemmas: content maps (get/put, canonical form), association lists, folds of writes.
-/
import YouVerif.C10.Model
namespace YouVerif.C10

/-! ## content maps -/

@[simp] theorem cget_nil (k : Bytes) : cget [] k = [] := rfl

theorem cget_cput (c : Content) (k v k' : Bytes) :
    cget (cput c k v) k' = if k = k' then v else cget c k' := by
  simp [cput, cget]

theorem aget_aput {α : Type} (l : List (Bytes × α)) (k : Bytes) (v : α) (k' : Bytes) :
    aget (aput l k v) k' = if k = k' then some v else aget l k' := by
  simp [aput, aget]

theorem CEq.refl (c : Content) : CEq c c := fun _ => rfl
theorem CEq.symm {a b : Content} (h : CEq a b) : CEq b a := fun k => (h k).symm
theorem CEq.trans {a b c : Content} (h₁ : CEq a b) (h₂ : CEq b c) : CEq a c := fun k => (h₁ k).trans (h₂ k)

/-- a fold of writes whose value is a function of the key: the result at `k'` does not depend on the order -/
theorem cget_foldl_put (f : Bytes → Option Bytes) (l : List Bytes) (c : Content) (k' : Bytes) :
    cget (l.foldl (fun c k => match f k with | some v => cput c k v | none => c) c) k'
      = if k' ∈ l then (match f k' with | some v => v | none => cget c k') else cget c k' := by
  induction l generalizing c with
  | nil => simp
  | cons a t ih =>
    simp only [List.foldl_cons, ih, List.mem_cons]
    by_cases hk : k' = a
    · subst hk
      cases hf : f k' with
      | none => simp
      | some v => by_cases hm : k' ∈ t <;> simp [hm, cget_cput]
    · have hk' : ¬ a = k' := fun h => hk h.symm
      cases hf : f a with
      | none => simp [hk]
      | some v => by_cases hm : k' ∈ t <;> simp [hm, hk, hk', cget_cput]


/-! ## the key order -/


theorem blt_irrefl (a : Bytes) : blt a a = false := by
  induction a with
  | nil => rfl
  | cons x t ih => simp [blt, ih]

theorem blt_trichotomy : ∀ (a b : Bytes), blt a b = false → blt b a = false → a = b := by
  intro a
  induction a with
  | nil => intro b; cases b <;> simp [blt]
  | cons x t ih =>
    intro b
    cases b with
    | nil => simp [blt]
    | cons y u =>
      simp only [blt]
      intro h1 h2
      by_cases hxy : x.toNat < y.toNat
      · simp [hxy] at h1
      · by_cases hyx : y.toNat < x.toNat
        · simp [hyx] at h2
        · simp [hxy, hyx] at h1 h2
          have : x = y := UInt8.toNat_inj.mp (by omega)
          rw [this, ih u h1 h2]

theorem blt_trans : ∀ (a b c : Bytes), blt a b = true → blt b c = true → blt a c = true := by
  intro a
  induction a with
  | nil => intro b c; cases b <;> cases c <;> simp [blt]
  | cons x t ih =>
    intro b c
    cases b with
    | nil => simp [blt]
    | cons y u =>
      cases c with
      | nil => simp [blt]
      | cons z w =>
        simp only [blt]
        intro h1 h2
        by_cases hxy : x.toNat < y.toNat
        · by_cases hyz : y.toNat < z.toNat
          · have : x.toNat < z.toNat := by omega
            simp [this]
          · by_cases hzy : z.toNat < y.toNat
            · simp [hyz, hzy] at h2
            · have : x.toNat < z.toNat := by omega
              simp [this]
        · by_cases hyx : y.toNat < x.toNat
          · simp [hxy, hyx] at h1
          · simp [hxy, hyx] at h1
            by_cases hyz : y.toNat < z.toNat
            · have : x.toNat < z.toNat := by omega
              simp [this]
            · by_cases hzy : z.toNat < y.toNat
              · simp [hyz, hzy] at h2
              · simp [hyz, hzy] at h2
                have h3 : ¬ x.toNat < z.toNat := by omega
                have h4 : ¬ z.toNat < x.toNat := by omega
                simp [h3, h4, ih u w h1 h2]

/-! ## canonical form -/


/-- strictly sorted by key -/
def SortedC (c : Content) : Prop := c.Pairwise (fun x y => blt x.1 y.1 = true)
def NoEmpty (c : Content) : Prop := ∀ x ∈ c, x.2 ≠ []

theorem cget_absent (c : Content) (k : Bytes) (h : ∀ x ∈ c, x.1 ≠ k) : cget c k = [] := by
  induction c with
  | nil => rfl
  | cons x t ih =>
    obtain ⟨k', v⟩ := x
    have h1 : k' ≠ k := h (k', v) (by simp)
    show (if k' = k then v else cget t k) = []
    simp only [h1, if_false]
    exact ih (fun y hy => h y (by simp [hy]))

theorem cget_cons (k' v : Bytes) (t : Content) (k : Bytes) : cget ((k', v) :: t) k = if k' = k then v else cget t k := rfl

theorem cinsert_cons (k v k0 v0 : Bytes) (t : Content) :
    cinsert k v ((k0, v0) :: t) = if blt k k0 = true then (k, v) :: (k0, v0) :: t else if k = k0 then (k, v) :: t else (k0, v0) :: cinsert k v t := rfl

theorem cget_cinsert (k v : Bytes) (c : Content) (k' : Bytes) :
    cget (cinsert k v c) k' = if k = k' then v else cget c k' := by
  induction c with
  | nil => simp [cinsert, cget_cons]
  | cons x t ih =>
    obtain ⟨k0, v0⟩ := x
    rw [cinsert_cons]
    cases h1 : blt k k0 with
    | true => simp [cget_cons]
    | false =>
      simp only [Bool.false_eq_true, if_false]
      by_cases h2 : k = k0
      · subst h2; simp only [if_true, cget_cons]; by_cases h3 : k = k' <;> simp [h3]
      · simp only [h2, if_false, cget_cons, ih]
        by_cases h3 : k0 = k'
        · subst h3; simp [h2]
        · simp [h3]

theorem cinsert_mem (k v : Bytes) (c : Content) (y : Bytes × Bytes) (hy : y ∈ cinsert k v c) : y = (k, v) ∨ y ∈ c := by
  induction c with
  | nil => simp [cinsert] at hy; exact Or.inl hy
  | cons x t ih =>
    obtain ⟨k0, v0⟩ := x
    rw [cinsert_cons] at hy
    cases h1 : blt k k0 with
    | true =>
      simp only [h1, if_true] at hy
      rcases List.mem_cons.mp hy with h | h
      · exact Or.inl h
      · exact Or.inr h
    | false =>
      simp only [h1, Bool.false_eq_true, if_false] at hy
      by_cases h2 : k = k0
      · simp only [h2, if_true] at hy
        rcases List.mem_cons.mp hy with h | h
        · left; rw [h, h2]
        · right; exact List.mem_cons_of_mem _ h
      · simp only [h2, if_false] at hy
        rcases List.mem_cons.mp hy with h | h
        · right; rw [h]; exact List.mem_cons_self
        · rcases ih h with h' | h'
          · left; exact h'
          · right; exact List.mem_cons_of_mem _ h'

theorem cinsert_sorted (k v : Bytes) (c : Content) (hs : SortedC c) : SortedC (cinsert k v c) := by
  induction c with
  | nil => simp [cinsert, SortedC]
  | cons x t ih =>
    obtain ⟨k0, v0⟩ := x
    unfold SortedC at hs ⊢
    rw [List.pairwise_cons] at hs
    obtain ⟨hx, ht⟩ := hs
    rw [cinsert_cons]
    cases h1 : blt k k0 with
    | true =>
      simp only [if_true]
      rw [List.pairwise_cons]
      refine ⟨?_, List.pairwise_cons.mpr ⟨hx, ht⟩⟩
      intro y hy
      rcases List.mem_cons.mp hy with h | h
      · rw [h]; exact h1
      · exact blt_trans _ _ _ h1 (hx y h)
    | false =>
      simp only [Bool.false_eq_true, if_false]
      by_cases h2 : k = k0
      · subst h2
        simp only [if_true]
        exact List.pairwise_cons.mpr ⟨hx, ht⟩
      · simp only [h2, if_false]
        rw [List.pairwise_cons]
        refine ⟨?_, ih ht⟩
        intro y hy
        rcases cinsert_mem k v t y hy with h | h
        · rw [h]
          cases h3 : blt k0 k with
          | true => rfl
          | false => exact absurd (blt_trichotomy k k0 h1 h3) h2
        · exact hx y h

theorem foldr_cinsert_get (c : Content) (k : Bytes) :
    cget (c.foldr (fun kv acc => cinsert kv.1 kv.2 acc) []) k = cget c k := by
  induction c with
  | nil => rfl
  | cons x t ih =>
    obtain ⟨k0, v0⟩ := x
    simp only [List.foldr_cons, cget_cinsert, ih, cget_cons]

theorem foldr_cinsert_sorted (c : Content) : SortedC (c.foldr (fun kv acc => cinsert kv.1 kv.2 acc) []) := by
  induction c with
  | nil => simp [SortedC]
  | cons x t ih => exact cinsert_sorted _ _ _ ih

theorem sorted_head_absent {k v : Bytes} {t : Content} (hs : SortedC ((k, v) :: t)) : ∀ x ∈ t, x.1 ≠ k := by
  unfold SortedC at hs
  rw [List.pairwise_cons] at hs
  intro x hx heq
  have := hs.1 x hx
  rw [heq, blt_irrefl] at this
  exact Bool.noConfusion this

theorem cget_filter_sorted (c : Content) (hs : SortedC c) (k : Bytes) :
    cget (c.filter (fun kv => kv.2 ≠ [])) k = cget c k := by
  induction c with
  | nil => rfl
  | cons x t ih =>
    obtain ⟨k0, v0⟩ := x
    have ht : SortedC t := (List.pairwise_cons.mp hs).2
    by_cases hv : v0 = []
    · subst hv
      simp only [List.filter_cons, ne_eq, not_true_eq_false, decide_false, Bool.false_eq_true, if_false, ih ht, cget]
      by_cases hk : k0 = k
      · subst hk; simp only [if_true]; exact cget_absent t k0 (sorted_head_absent hs)
      · simp [hk]
    · simp only [List.filter_cons, ne_eq, hv, not_false_eq_true, decide_true, if_true, cget, ih ht]

theorem norm_get (c : Content) (k : Bytes) : cget (norm c) k = cget c k := by
  unfold norm
  rw [cget_filter_sorted _ (foldr_cinsert_sorted c), foldr_cinsert_get]

theorem norm_sorted (c : Content) : SortedC (norm c) := by
  unfold norm SortedC
  exact List.Pairwise.filter _ (foldr_cinsert_sorted c)

theorem norm_noEmpty (c : Content) : NoEmpty (norm c) := by
  intro x hx
  unfold norm at hx
  have := (List.mem_filter.mp hx).2
  simpa using this

/-- a strictly sorted content without empty values is determined by its `cget` -/
theorem sorted_ext : ∀ (a b : Content), SortedC a → SortedC b → NoEmpty a → NoEmpty b → CEq a b → a = b := by
  intro a
  induction a with
  | nil =>
    intro b _ _ _ hb he
    cases b with
    | nil => rfl
    | cons y u =>
      obtain ⟨k, v⟩ := y
      have h1 := he k
      rw [cget_cons] at h1
      simp only [cget_nil, if_true] at h1
      exact absurd h1.symm (hb (k, v) (by simp))
  | cons x t ih =>
    intro b hsa hsb hna hnb he
    obtain ⟨k1, v1⟩ := x
    cases b with
    | nil =>
      have h1 := he k1
      rw [cget_cons] at h1
      simp only [cget_nil, if_true] at h1
      exact absurd h1 (hna (k1, v1) (by simp))
    | cons y u =>
      obtain ⟨k2, v2⟩ := y
      have hv1 : v1 ≠ [] := hna (k1, v1) (by simp)
      have hv2 : v2 ≠ [] := hnb (k2, v2) (by simp)
      have hat := sorted_head_absent hsa
      have hbu := sorted_head_absent hsb
      have hsa' := List.pairwise_cons.mp hsa
      have hsb' := List.pairwise_cons.mp hsb
      have hk : k1 = k2 := by
        apply blt_trichotomy
        · cases h : blt k1 k2 with
          | false => rfl
          | true =>
            -- k1 is below every key of b
            have habs : cget ((k2, v2) :: u) k1 = [] := by
              apply cget_absent
              intro z hz heq
              rcases List.mem_cons.mp hz with hz | hz
              · rw [hz] at heq; simp at heq; rw [heq, blt_irrefl] at h; exact Bool.noConfusion h
              · have := blt_trans _ _ _ h (hsb'.1 z hz)
                rw [heq, blt_irrefl] at this; exact Bool.noConfusion this
            have := he k1
            rw [habs, cget_cons] at this
            simp only [if_true] at this
            exact absurd this hv1
        · cases h : blt k2 k1 with
          | false => rfl
          | true =>
            have habs : cget ((k1, v1) :: t) k2 = [] := by
              apply cget_absent
              intro z hz heq
              rcases List.mem_cons.mp hz with hz | hz
              · rw [hz] at heq; simp at heq; rw [heq, blt_irrefl] at h; exact Bool.noConfusion h
              · have := blt_trans _ _ _ h (hsa'.1 z hz)
                rw [heq, blt_irrefl] at this; exact Bool.noConfusion this
            have := he k2
            rw [habs, cget_cons] at this
            simp only [if_true] at this
            exact absurd this.symm hv2
      subst hk
      have hv : v1 = v2 := by have := he k1; simpa [cget_cons] using this
      subst hv
      have het : CEq t u := by
        intro k
        by_cases hkk : k1 = k
        · subst hkk; rw [cget_absent t k1 hat, cget_absent u k1 hbu]
        · have := he k; simpa [cget_cons, hkk] using this
      rw [ih u hsa'.2 hsb'.2 (fun z hz => hna z (by simp [hz])) (fun z hz => hnb z (by simp [hz])) het]

/-- the canonical form depends only on the content as a map -/
theorem norm_ext {a b : Content} (h : CEq a b) : norm a = norm b :=
  sorted_ext _ _ (norm_sorted a) (norm_sorted b) (norm_noEmpty a) (norm_noEmpty b)
    (fun k => by rw [norm_get, norm_get, h k])


end YouVerif.C10
