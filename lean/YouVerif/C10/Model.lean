/-
C10 — executable content-level model of core/state's StateDB persistence layer
(statedb.go: New / Finalise / IntermediateRoot / Commit / Copy; statedb_val.go; statedb_staking.go;
state_object.go), written by hand and tied to the Go code by the correspondence harness go/cmd/c10.

The state has THREE authenticated stores (account trie, validator trie, per-period staking trie) plus
one storage trie per account and a content-addressed blob store (contract code, delegation lists).
The model keeps, like the code, a write-back cache of live objects over the *content* of each trie
(`Content` = association list raw key ↦ value bytes, first match wins, `[]` = absent) and flushes the
dirty set into the content on `IntermediateRoot`.  Roots are `P.root (norm content)`: the trie-root
function is a parameter (`Prim.root`, the secure Merkle-Patricia root in the driver, an uninterpreted
function in the theorems) applied to the canonical (sorted, deduplicated, no empty values) form of the
content, so that *roots factor through content by construction* and the theorems are about content.

Value semantics throughout: `Copy` is the identity on the model (the specification); aliasing defects
of the real `Copy` show up as correspondence / oracle disagreements with a replay.
Core Lean only (the driver links natively).
-/
import YouVerif.Common.Rlp
namespace YouVerif.C10
open YouVerif.Common YouVerif.Common.Rlp

abbrev Bytes := List UInt8

/-! ## primitives the layer is parametric in -/

/-- `H` = Keccak-256, `root` = root hash of the secure trie whose leaves are exactly the given canonical
content (raw keys; the secure trie hashes them itself). Uninterpreted in the theorems. -/
structure Prim where
  H    : Bytes → Bytes
  root : List (Bytes × Bytes) → Bytes

/-! ## content maps -/

abbrev Content := List (Bytes × Bytes)

def cget : Content → Bytes → Bytes
  | [], _ => []
  | (k', v) :: t, k => if k' = k then v else cget t k

/-- write (or, with `v = []`, delete): newest binding first -/
def cput (c : Content) (k v : Bytes) : Content := (k, v) :: c

/-- strict lexicographic order on byte strings (= bytes.Compare < 0) -/
def blt : Bytes → Bytes → Bool
  | [], [] => false
  | [], _ :: _ => true
  | _ :: _, [] => false
  | a :: as, b :: bs => if a.toNat < b.toNat then true else if b.toNat < a.toNat then false else blt as bs

/-- insert into a strictly sorted list, an existing binding of the same key wins over the older one below it -/
def cinsert (k v : Bytes) : Content → Content
  | [] => [(k, v)]
  | (k', v') :: t =>
    if blt k k' then (k, v) :: (k', v') :: t
    else if k = k' then (k, v) :: t
    else (k', v') :: cinsert k v t

/-- canonical form: strictly sorted by key, first binding of each key, absent (`[]`) values dropped -/
def norm (c : Content) : Content :=
  (c.foldr (fun kv acc => cinsert kv.1 kv.2 acc) []).filter (fun kv => kv.2 ≠ [])

/-- extensional equality of contents -/
def CEq (c₁ c₂ : Content) : Prop := ∀ k, cget c₁ k = cget c₂ k

/-! ## generic association lists for live objects -/

def aget {α : Type} : List (Bytes × α) → Bytes → Option α
  | [], _ => none
  | (k', v) :: t, k => if k' = k then some v else aget t k

def aput {α : Type} (l : List (Bytes × α)) (k : Bytes) (v : α) : List (Bytes × α) := (k, v) :: l

/-- sorted set insert (validator index, delegation lists, pending relationships) -/
def sinsert (k : Bytes) : List Bytes → List Bytes
  | [] => [k]
  | k' :: t => if blt k k' then k :: k' :: t else if k = k' then k' :: t else k' :: sinsert k t

def addIfNew (k : Bytes) (l : List Bytes) : List Bytes := if l.contains k then l else l ++ [k]

/-! ## numbers -/

def natToBE (n : Nat) : Bytes :=
  if _h : n = 0 then [] else natToBE (n / 256) ++ [UInt8.ofNat (n % 256)]
termination_by n
decreasing_by omega

def beToNat (b : Bytes) : Nat := b.foldl (fun a x => a * 256 + x.toNat) 0

def two64 : Nat := 18446744073709551616

def iN (n : Nat) : Item := .str (natToBE n)
def iB (b : Bytes) : Item := .str b
def iL (l : List Item) : Item := .list l

/-- canonical integer: no leading zero byte (rlp/decode.go rejects them) -/
def pN : Item → Option Nat
  | .str b => if b.head? = some 0 then none else some (beToNat b)
  | .list _ => none
def pB : Item → Option Bytes
  | .str b => some b
  | .list _ => none
def pL : Item → Option (List Item)
  | .list l => some l
  | .str _ => none

def enc (i : Item) : Bytes := Rlp.encode i
def dec (b : Bytes) : Option Item := match Rlp.decode b with | .ok i => some i | .error _ => none

/-! ## records and their RLP shapes (the wire structs of core/state) -/

/-- an account with everything that hangs off it (value semantics): storage is kept in trie form
(slot ↦ rlp(trimmed value)), code and delegation list inline. `suicided`/`deleted` are cache flags. -/
structure Acct where
  nonce    : Nat := 0
  balance  : Nat := 0
  code     : Bytes := []
  storage  : Content := []
  delBal   : Nat := 0
  dlgs     : List Bytes := []
  suicided : Bool := false
  deleted  : Bool := false
  deriving Repr, BEq, DecidableEq, Inhabited

structure Dlg where
  delegator : Bytes
  stake : Nat
  token : Nat
  deriving Repr, BEq, DecidableEq, Inhabited

structure Val where
  name : Bytes := []
  operator : Bytes := []
  coinbase : Bytes := []
  role : Nat := 0
  status : Nat := 0
  expelled : Bool := false
  expelExpired : Nat := 0
  lastInactive : Nat := 0
  mainPk : Bytes := []
  blsPk : Bytes := []
  token : Nat := 0
  stake : Nat := 0
  selfToken : Nat := 0
  selfStake : Nat := 0
  rewDist : Nat := 0
  rewTotal : Nat := 0
  rewLast : Nat := 0
  accept : Nat := 0
  comm : Nat := 0
  risk : Nat := 0
  dlgs : List Dlg := []
  extVer : Nat := 0
  extData : Bytes := []
  deleted : Bool := false
  deriving Repr, BEq, DecidableEq, Inhabited

structure KStat where
  onS : Nat := 0
  onT : Nat := 0
  onC : Nat := 0
  offS : Nat := 0
  offT : Nat := 0
  offC : Nat := 0
  resid : Nat := 0
  dist : Nat := 0
  deriving Repr, BEq, DecidableEq, Inhabited

/-- Kinds[Validator, Chamber, House], Roles[Chancellor, Senator, House] -/
structure Stat where
  k0 : KStat := {}
  k1 : KStat := {}
  k2 : KStat := {}
  r1 : KStat := {}
  r2 : KStat := {}
  r3 : KStat := {}
  deriving Repr, BEq, DecidableEq, Inhabited

structure WRec where
  operator : Bytes
  delegator : Bytes
  validator : Bytes
  recipient : Bytes
  nonce : Nat
  creation : Nat
  completion : Nat
  initial : Nat
  final : Nat
  finished : Nat
  txHash : Bytes
  deriving Repr, BEq, DecidableEq, Inhabited

structure SRec where
  fv : Nat := 0
  txs : List Bytes := []
  deriving Repr, BEq, DecidableEq, Inhabited

def dlgItem (d : Dlg) : Item := iL [iB d.delegator, iN d.stake, iN d.token]
def dlgOfItem : Item → Option Dlg
  | .list [a, s, t] => do some { delegator := ← pB a, stake := ← pN s, token := ← pN t }
  | _ => none

def valItem (v : Val) : Item :=
  iL [iL [iB v.name, iB v.operator, iB v.coinbase, iN v.role, iN v.status, iN v.expelExpired, iN v.lastInactive,
          iB v.mainPk, iB v.blsPk, iN v.token, iN v.stake, iN v.selfToken, iN v.selfStake, iN v.rewDist, iN v.rewTotal,
          iN v.rewLast, iN v.accept, iN v.comm, iN v.risk, iL (v.dlgs.map dlgItem), iL [iN v.extVer, iB v.extData]],
      iN (if v.expelled then 1 else 0)]

def valOfItem : Item → Option Val
  | .list [.list [name, op, cb, role, status, ee, li, mpk, bpk, token, stake, st, ss, rd, rt, rl, ac, cm, rk, .list dl,
                  .list [ev, ed]], ex] => do
    let dlgs ← dl.mapM dlgOfItem
    let e ← pN ex
    some { name := ← pB name, operator := ← pB op, coinbase := ← pB cb, role := ← pN role, status := ← pN status,
           expelled := e == 1, expelExpired := ← pN ee, lastInactive := ← pN li, mainPk := ← pB mpk, blsPk := ← pB bpk,
           token := ← pN token, stake := ← pN stake, selfToken := ← pN st, selfStake := ← pN ss, rewDist := ← pN rd,
           rewTotal := ← pN rt, rewLast := ← pN rl, accept := ← pN ac, comm := ← pN cm, risk := ← pN rk, dlgs := dlgs,
           extVer := ← pN ev, extData := ← pB ed }
  | _ => none

def kstatItem (k : KStat) : Item := iL [iN k.onS, iN k.onT, iN k.onC, iN k.offS, iN k.offT, iN k.offC, iN k.resid, iN k.dist]
def kstatOfItem : Item → Option KStat
  | .list [a, b, c, d, e, f, g, h] => do
    some { onS := ← pN a, onT := ← pN b, onC := ← pN c, offS := ← pN d, offT := ← pN e, offC := ← pN f, resid := ← pN g, dist := ← pN h }
  | _ => none

def statItem (s : Stat) : Item := iL [kstatItem s.k0, kstatItem s.k1, kstatItem s.k2, kstatItem s.r1, kstatItem s.r2, kstatItem s.r3]
def statOfItem : Item → Option Stat
  | .list [a, b, c, d, e, f] => do
    some { k0 := ← kstatOfItem a, k1 := ← kstatOfItem b, k2 := ← kstatOfItem c, r1 := ← kstatOfItem d, r2 := ← kstatOfItem e, r3 := ← kstatOfItem f }
  | _ => none

def wrecItem (w : WRec) : Item :=
  iL [iB w.operator, iB w.delegator, iB w.validator, iB w.recipient, iN w.nonce, iN w.creation, iN w.completion,
      iN w.initial, iN w.final, iN w.finished, iB w.txHash]
def wrecOfItem : Item → Option WRec
  | .list [o, d, v, r, n, c, co, i, f, fi, t] => do
    some { operator := ← pB o, delegator := ← pB d, validator := ← pB v, recipient := ← pB r, nonce := ← pN n, creation := ← pN c,
           completion := ← pN co, initial := ← pN i, final := ← pN f, finished := ← pN fi, txHash := ← pB t }
  | _ => none

/-- WithdrawQueue{Records []*WithdrawRecord} -/
def queueItem (q : List WRec) : Item := iL [iL (q.map wrecItem)]
def queueOfItem : Item → Option (List WRec)
  | .list [.list l] => l.mapM wrecOfItem
  | _ => none

def bytesListItem (l : List Bytes) : Item := iL (l.map iB)
def bytesListOfItem : Item → Option (List Bytes)
  | .list l => l.mapM pB
  | .str _ => none

def srecItem (r : SRec) : Item := iL [iN r.fv, bytesListItem r.txs]
def srecOfItem : Item → Option SRec
  | .list [f, t] => do some { fv := ← pN f, txs := ← bytesListOfItem t }
  | _ => none

/-! ## the three stores as content -/

/-- validator store, kept structured: validator records by main address, plus the three singleton records
(rlp bytes without their key prefix; `[]` = never written) -/
structure ValPart where
  vals  : Content := []
  index : Bytes := []
  stat  : Bytes := []
  queue : Bytes := []
  deriving Repr, BEq, DecidableEq, Inhabited

structure StkPart where
  recs   : Content := []
  relats : Bytes := []
  deriving Repr, BEq, DecidableEq, Inhabited

def str (s : String) : Bytes := s.toUTF8.toList
def flagVal : Bytes := str "valinfo-"
def flagIndex : Bytes := str "valindex"
def flagStat : Bytes := str "valstat"
def flagQueue : Bytes := str "valubds"
def flagRelats : Bytes := str "pendingr"
def zeroAddr : Bytes := List.replicate 20 0

/-- key of a validator record: the flag, then the address unless it is the zero address (readStakingData) -/
def valKey (a : Bytes) : Bytes := if a = zeroAddr then flagVal else flagVal ++ a

def withFlag (flag v : Bytes) : Bytes := if v = [] then [] else flag ++ v

/-- the validator trie's leaves: every value carries its flag as a prefix (updateStakingData) -/
def valContent (p : ValPart) : Content :=
  [(flagIndex, withFlag flagIndex p.index), (flagStat, withFlag flagStat p.stat), (flagQueue, withFlag flagQueue p.queue)]
    ++ p.vals.map (fun kv => (valKey kv.1, withFlag flagVal kv.2))

/-- the staking trie's leaves: records under the 40-byte delegator‖validator key (no prefix), relationships under their flag -/
def stkContent (p : StkPart) : Content :=
  (flagRelats, withFlag flagRelats p.relats) :: p.recs

structure Tries where
  acct : Content := []
  val  : ValPart := {}
  stk  : StkPart := {}
  deriving Repr, BEq, DecidableEq, Inhabited

structure Roots where
  root : Bytes
  valRoot : Bytes
  stakingRoot : Bytes
  deriving Repr, BEq, DecidableEq, Inhabited

def rootsOf (P : Prim) (t : Tries) : Roots :=
  { root := P.root (norm t.acct), valRoot := P.root (norm (valContent t.val)), stakingRoot := P.root (norm (stkContent t.stk)) }

/-! ## content-addressed database (trie nodes by root, blobs by hash); newest first -/

structure Db where
  acctT : List (Bytes × Content) := []
  valT  : List (Bytes × ValPart) := []
  stkT  : List (Bytes × StkPart) := []
  storT : List (Bytes × Content) := []
  blobs : List (Bytes × Bytes) := []
  deriving Repr, Inhabited

/-! ## account codec -/

def storageRoot (P : Prim) (a : Acct) : Bytes := P.root (norm a.storage)
def dlgsBlob (l : List Bytes) : Bytes := enc (bytesListItem l)
def dlgsHash (P : Prim) (l : List Bytes) : Bytes := if l = [] then [] else P.H (dlgsBlob l)

def acctItem (P : Prim) (a : Acct) : Item :=
  iL [iN a.nonce, iN a.balance, iB (storageRoot P a), iB (P.H a.code), iN a.delBal, iB (dlgsHash P a.dlgs)]

def encAcct (P : Prim) (a : Acct) : Bytes := enc (acctItem P a)

def loadStorage (P : Prim) (db : Db) (root : Bytes) : Option Content := if root = P.root [] then some [] else aget db.storT root
def loadCode (P : Prim) (db : Db) (ch : Bytes) : Option Bytes := if ch = P.H [] then some [] else aget db.blobs ch
def loadDlgs (db : Db) (dh : Bytes) : Option (List Bytes) :=
  if dh = [] then some [] else (aget db.blobs dh).bind (fun bl => (dec bl).bind bytesListOfItem)

/-- decode an account leaf and resolve storage trie, code and delegation list in the database -/
def decAcct (P : Prim) (db : Db) (b : Bytes) : Option Acct :=
  match dec b with
  | some (.list [n, bal, root, ch, dbal, dh]) =>
    (pB root).bind fun root => (pB ch).bind fun ch => (pB dh).bind fun dh =>
    (loadStorage P db root).bind fun storage => (loadCode P db ch).bind fun code => (loadDlgs db dh).bind fun dlgs =>
    (pN n).bind fun n => (pN bal).bind fun bal => (pN dbal).bind fun dbal =>
    some { nonce := n, balance := bal, code := code, storage := storage, delBal := dbal, dlgs := dlgs }
  | _ => none

def decVal (b : Bytes) : Option Val := (dec b).bind valOfItem
def decSRec (b : Bytes) : Option SRec := (dec b).bind srecOfItem

/-! ## the live state -/

structure St where
  db     : Db := {}
  t      : Tries := {}                      -- in-memory tries (content)
  -- accounts
  accts  : List (Bytes × Acct) := []        -- stateObjects (written ones)
  acctJ  : List Bytes := []                 -- journal.dirties
  acctP  : List Bytes := []                 -- stateObjectsPending
  acctU  : List Bytes := []                 -- stateObjectsDirty (flushed at Commit)
  -- validators
  vals   : List (Bytes × Val) := []         -- validatorObjects (written ones)
  valD   : List Bytes := []                 -- validatorJournal.dirties ∪ validatorObjectsDirty
  index  : List Bytes := []                 -- validatorIndex (a set; sorted when saved / enumerated)
  stat   : Stat := {}
  queue  : List WRec := []
  -- staking records
  recs   : List (Bytes × SRec) := []
  recD   : List Bytes := []
  relats : List Bytes := []
  relatsDirty : Bool := false
  deriving Repr, Inhabited

/-! ### views (what the getters return) -/

def rawAcct (P : Prim) (s : St) (a : Bytes) : Option Acct :=
  match aget s.accts a with
  | some o => some o
  | none => let b := cget s.t.acct a; if b = [] then none else decAcct P s.db b

def getAcct (P : Prim) (s : St) (a : Bytes) : Option Acct :=
  match rawAcct P s a with
  | some o => if o.deleted then none else some o
  | none => none

def getVal (s : St) (a : Bytes) : Option Val :=
  match aget s.vals a with
  | some v => if v.deleted then none else some v
  | none => let b := cget s.t.val.vals a; if b = [] then none else decVal b

def getSRec (s : St) (k : Bytes) : Option SRec :=
  match aget s.recs k with
  | some r => some r
  | none => let b := cget s.t.stk.recs k; if b = [] then none else decSRec b

/-! ### account writes -/

/-- write an account object and mark it journal-dirty -/
def putAcct (s : St) (a : Bytes) (o : Acct) : St :=
  { s with accts := aput s.accts a o, acctJ := addIfNew a s.acctJ }

/-- GetOrNewStateObject followed by a journaled change `f` -/
def modAcct (P : Prim) (s : St) (a : Bytes) (f : Acct → Acct) : St :=
  putAcct s a (f ((getAcct P s a).getD {}))

/-- common.TrimLeftZeroes -/
def trimZeros : Bytes → Bytes
  | [] => []
  | b :: t => if b = 0 then trimZeros t else b :: t

/-- trie form of a storage value: rlp of the trimmed bytes, `[]` for the zero value (a delete) -/
def slotEnc (v : Bytes) : Bytes := let t := trimZeros v; if t = [] then [] else enc (iB t)

def subClamp (a b : Nat) : Nat := a - b

inductive Op where
  | setBalance (a : Bytes) (n : Nat)
  | addBalance (a : Bytes) (n : Nat)
  | subBalance (a : Bytes) (n : Nat)
  | setNonce (a : Bytes) (n : Nat)
  | setCode (a code : Bytes)
  | setState (a k v : Bytes)
  | suicide (a : Bytes)
  | createContract (a : Bytes)                       -- CreateAccount; SetNonce 1   (evm.create)
  | updDelegator (a v : Bytes) (delta : Int) (del : Bool)
  | createVal (a : Bytes) (v : Val)
  | updateVal (a : Bytes) (v : Val)
  | setDlg (a d : Bytes) (stake token : Nat)          -- PartialCopy; UpdateDelegationFrom; UpdateValidator
  | delegate (d a : Bytes) (amt : Int)                 -- StateDB.UpdateDelegation
  | statRewards (idx : Nat) (kind : Nat) (amount : Nat)   -- kind 0 AddRewards, 1 SetRewardsResidue, 2 ResetRewards
  | addWithdraw (w : WRec)
  | removeWithdraw (idx : List Nat)
  | addStakingRecord (k : Bytes) (tx : Option Bytes) (fv : Option Nat)
  | addPendingRel (k : Bytes)
  | resetStaking
  | finalise (del : Bool)
  | iroot (del : Bool)
  | commit (del : Bool)
  | copy
  | reopen (del : Bool)
  deriving Repr, Inhabited

/-! ### validator statistics (ValKindStat.AddVal / SubVal: clamped big.Int subtraction, wrapping uint64 counts) -/

def clampSub (a b : Nat) : Nat := if a ≥ b then a - b else a

def KStat.addVal (k : KStat) (v : Val) : KStat :=
  if v.status = 1 then { k with onS := k.onS + v.stake, onT := k.onT + v.token, onC := (k.onC + 1) % two64 }
  else { k with offS := k.offS + v.stake, offT := k.offT + v.token, offC := (k.offC + 1) % two64 }

def KStat.subVal (k : KStat) (v : Val) : KStat :=
  if v.status = 1 then { k with onS := clampSub k.onS v.stake, onT := clampSub k.onT v.token, onC := (k.onC + two64 - 1) % two64 }
  else { k with offS := clampSub k.offS v.stake, offT := clampSub k.offT v.token, offC := (k.offC + two64 - 1) % two64 }

/-- slot 0..2 = Kinds[0..2], 3..5 = Roles[1..3] -/
def Stat.modify (s : Stat) (i : Nat) (f : KStat → KStat) : Stat :=
  match i with
  | 0 => { s with k0 := f s.k0 }
  | 1 => { s with k1 := f s.k1 }
  | 2 => { s with k2 := f s.k2 }
  | 3 => { s with r1 := f s.r1 }
  | 4 => { s with r2 := f s.r2 }
  | 5 => { s with r3 := f s.r3 }
  | _ => s

/-- params.KindOfRole: Chancellor, Senator ↦ Chamber; House ↦ House -/
def kindOfRole (r : Nat) : Nat := if r = 3 then 2 else 1

/-- the three counters a validator contributes to: its role, its kind, and KindValidator -/
def Stat.forVal (s : Stat) (v : Val) (f : KStat → KStat) : Stat :=
  ((s.modify (2 + v.role) f).modify (kindOfRole v.role) f).modify 0 f

def incrStat (s : Stat) (v : Val) : Stat := s.forVal v (fun k => k.addVal v)
def decrStat (s : Stat) (v : Val) : Stat := s.forVal v (fun k => k.subVal v)

/-- Validator.StakeEqual -/
def stakeEqual (a b : Val) : Bool := a.role == b.role && a.stake == b.stake && a.token == b.token && a.status == b.status

/-- Validator.IsInvalid: both low 64-bit words are zero -/
def Val.isInvalid (v : Val) : Bool := v.token % two64 == 0 && v.stake % two64 == 0

def putVal (s : St) (a : Bytes) (v : Val) : St :=
  { s with vals := aput s.vals a v, valD := addIfNew a s.valD, index := addIfNew a s.index }

/-- a set of keys in canonical order (ValidatorIndex.EncodeRLP sorts): the canonical form of the content
that maps each member to a unit value -/
def sortKeys (l : List Bytes) : List Bytes := (norm (l.map (fun a => (a, [1])))).map (·.1)

/-! ### flush -/

def Acct.empty (o : Acct) : Bool := o.nonce == 0 && o.balance == 0 && o.code == []

/-- Finalise: journal-dirty objects become pending; suicided (and, with the flag, empty) ones are marked deleted -/
def finaliseAcct (del : Bool) (accts : List (Bytes × Acct)) (a : Bytes) : List (Bytes × Acct) :=
  match aget accts a with
  | some o => if o.suicided || (del && o.empty) then aput accts a { o with deleted := true } else accts
  | none => accts

def finalise (del : Bool) (s : St) : St :=
  { s with accts := s.acctJ.foldl (finaliseAcct del) s.accts,
           acctP := s.acctJ.foldl (fun l a => addIfNew a l) s.acctP,
           acctU := s.acctJ.foldl (fun l a => addIfNew a l) s.acctU,
           acctJ := [] }

/-- one pending account written to (or deleted from) the account trie -/
def flushAcct (P : Prim) (accts : List (Bytes × Acct)) (c : Content) (a : Bytes) : Content :=
  match aget accts a with
  | some o => if o.deleted then cput c a [] else cput c a (encAcct P o)
  | none => c

/-- one dirty validator: deleteValidator or updateValidator -/
def flushVal (del : Bool) (s : St) (a : Bytes) : St :=
  match aget s.vals a with
  | some v =>
    if v.deleted || (del && v.isInvalid) then
      { s with vals := aput s.vals a { v with deleted := true },
               t := { s.t with val := { s.t.val with vals := cput s.t.val.vals a [] } },
               index := s.index.filter (· ≠ a),
               stat := decrStat s.stat v }
    else
      { s with t := { s.t with val := { s.t.val with vals := cput s.t.val.vals a (enc (valItem v)) } },
               index := addIfNew a s.index }
  | none => s

def flushRec (recs : List (Bytes × SRec)) (c : Content) (k : Bytes) : Content :=
  match aget recs k with
  | some r => cput c k (enc (srecItem r))
  | none => c

/-- pending accounts written to (deleted from) the account trie -/
def flushAccts (P : Prim) (s : St) : St :=
  { s with t := { s.t with acct := s.acctP.foldl (flushAcct P s.accts) s.t.acct }, acctP := [] }

/-- dirty validators written to (deleted from) the validator trie -/
def flushVals (del : Bool) (s : St) : St := { s.valD.foldl (flushVal del) s with valD := [] }

/-- saveValidatorsIndex / saveValidatorsStat / saveWithdrawQueue: always rewritten -/
def saveSingles (s : St) : St :=
  { s with t := { s.t with val := { s.t.val with index := enc (bytesListItem (sortKeys s.index)),
                                                   stat := enc (statItem s.stat),
                                                   queue := enc (queueItem s.queue) } } }

/-- updateStakingTrie: dirty records, then the pending relationships when dirty -/
def flushRecs (s : St) : St :=
  { s with t := { s.t with stk := { s.t.stk with recs := s.recD.foldl (flushRec s.recs) s.t.stk.recs } }, recD := [] }

def flushRelats (s : St) : St :=
  if s.relatsDirty then
    { s with t := { s.t with stk := { s.t.stk with relats := enc (bytesListItem s.relats) } }, relatsDirty := false }
  else s

/-- IntermediateRoot: Finalise, then write pending accounts, dirty validators, index, statistics, withdraw
queue, dirty staking records and (when dirty) the pending relationships into the three tries -/
def iroot (P : Prim) (del : Bool) (s : St) : St :=
  flushRelats (flushRecs (saveSingles (flushVals del (flushAccts P (finalise del s)))))

def roots (P : Prim) (s : St) : Roots := rootsOf P s.t

/-- blobs and storage trie of one uncommitted account -/
def commitAcct (P : Prim) (accts : List (Bytes × Acct)) (db : Db) (a : Bytes) : Db :=
  match aget accts a with
  | some o =>
    if o.deleted then db else
    let db := if o.code = [] then db else { db with blobs := aput db.blobs (P.H o.code) o.code }
    let db := if o.dlgs = [] then db else { db with blobs := aput db.blobs (dlgsHash P o.dlgs) (dlgsBlob o.dlgs) }
    { db with storT := aput db.storT (storageRoot P o) o.storage }
  | none => db

/-- Commit: IntermediateRoot, then code / delegation blobs and storage tries of the uncommitted objects, then the three tries -/
def commit (P : Prim) (del : Bool) (s : St) : St :=
  let s := iroot P del s
  let db := s.acctU.foldl (commitAcct P s.accts) s.db
  let r := roots P s
  let db := { db with acctT := aput db.acctT r.root s.t.acct, valT := aput db.valT r.valRoot s.t.val, stkT := aput db.stkT r.stakingRoot s.t.stk }
  { s with db := db, acctU := [] }

def loadList (b : Bytes) : Option (List Bytes) := if b = [] then some [] else (dec b).bind bytesListOfItem
def loadStat (b : Bytes) : Option Stat := if b = [] then some {} else (dec b).bind statOfItem
def loadQueue (b : Bytes) : Option (List WRec) := if b = [] then some [] else (dec b).bind queueOfItem

/-- state.New: open the three tries by root, load index, statistics, (lazily in Go) queue and pending relationships -/
def openSt (db : Db) (r : Roots) : Option St :=
  (aget db.acctT r.root).bind fun acct =>
  (aget db.valT r.valRoot).bind fun val =>
  (aget db.stkT r.stakingRoot).bind fun stk =>
  (loadList val.index).bind fun index =>
  (loadStat val.stat).bind fun stat =>
  (loadQueue val.queue).bind fun queue =>
  (loadList stk.relats).bind fun relats =>
  some { db := db, t := { acct := acct, val := val, stk := stk }, index := index, stat := stat, queue := queue, relats := relats }

/-- the live account objects `StateDB.Copy` does not take along: it copies the objects in `journal.dirties`,
`stateObjectsPending` and `stateObjectsDirty` only.  A clean object that is not deleted is re-read from the trie by the
copy (unobservable: cache coherence), so the model keeps it; a clean *deleted* object is gone in the copy — together
with whatever balance was credited to it after it self-destructed, which `CreateAccount` would carry over
(`createObject` takes the deleted object as `prev`). -/
def dropKey (s : St) (a : Bytes) : Bool :=
  match aget s.accts a with
  | some o => o.deleted && !s.acctJ.contains a && !s.acctP.contains a && !s.acctU.contains a
  | none => false

/-- StateDB.Copy: value semantics, except for the clean deleted objects the real copy forgets -/
def copy (s : St) : St := { s with accts := s.accts.filter (fun kv => !dropKey s kv.1) }

/-! ### operations -/

def removeIdx (q : List WRec) (idx : List Nat) : List WRec :=
  (q.zipIdx.filter (fun p => !idx.contains p.2)).map (·.1)

def statReward (k : KStat) (kind amount : Nat) : KStat :=
  match kind with
  | 0 => { k with dist := k.dist + amount }
  | 1 => { k with resid := amount }
  | _ => { k with dist := amount }

/-! ### a validator's delegation list (Validator.UpdateDelegationFrom): sorted by delegator, binary-searched -/

def stakeUnit : Nat := 1000000000000000000

def Dlg.isEmpty (d : Dlg) : Bool := d.stake == 0 && d.token == 0

def dfind : List Dlg → Bytes → Option Dlg
  | [], _ => none
  | y :: t, k => if y.delegator = k then some y else dfind t k

/-- sorted insert (replacing an entry of the same delegator) -/
def dinsert (x : Dlg) : List Dlg → List Dlg
  | [] => [x]
  | y :: t =>
    if blt x.delegator y.delegator then x :: y :: t
    else if x.delegator = y.delegator then x :: t
    else y :: dinsert x t

def dremove (k : Bytes) (l : List Dlg) : List Dlg := l.filter (fun y => y.delegator ≠ k)

/-- the new list and the CurdFlag (0 Noop, 1 Create, 2 Update, 3 Delete) -/
def dlgUpdate (l : List Dlg) (x : Dlg) : List Dlg × Nat :=
  match dfind l x.delegator with
  | none => if x.isEmpty then (l, 0) else (dinsert x l, 1)
  | some _ => if x.isEmpty then (dremove x.delegator l, 3) else (dinsert x l, 2)

/-- StateDB.UpdateValidator(new, current) -/
def updateValF (s : St) (a : Bytes) (v : Val) : St :=
  match getVal s a with
  | some old =>
    let s := putVal s a v
    if stakeEqual v old then s else { s with stat := incrStat (decrStat s.stat old) v }
  | none => s

/-- StateDB.UpdateDelegator -/
def updDelegatorF (P : Prim) (s : St) (a v : Bytes) (delta : Int) (del : Bool) : St :=
  match getAcct P s a with
  | some o =>
    let dl := if del then o.dlgs.filter (· ≠ v) else sinsert v o.dlgs
    putAcct s a { o with dlgs := dl, delBal := (Int.ofNat o.delBal + delta).toNat }
  | none => s

def step (P : Prim) (s : St) : Op → St
  | .setBalance a n => modAcct P s a (fun o => { o with balance := n })
  | .addBalance a n => modAcct P s a (fun o => { o with balance := o.balance + n })
  | .subBalance a n => modAcct P s a (fun o => { o with balance := o.balance - n })
  | .setNonce a n => modAcct P s a (fun o => { o with nonce := n })
  | .setCode a c => modAcct P s a (fun o => { o with code := c })
  | .setState a k v =>
    let cur := ((getAcct P s a).getD {}).storage
    if cget cur k = slotEnc v then s else modAcct P s a (fun o => { o with storage := cput o.storage k (slotEnc v) })
  | .suicide a =>
    match getAcct P s a with
    | some o => putAcct s a { o with suicided := true, balance := 0 }
    | none => s
  | .createContract a =>
    let bal := match rawAcct P s a with | some o => o.balance | none => 0
    putAcct s a { nonce := 1, balance := bal }
  | .updDelegator a v delta del => updDelegatorF P s a v delta del
  | .createVal a v =>
    match getVal s a with
    | some _ => s
    | none => let s := putVal s a v; { s with stat := incrStat s.stat v }
  | .updateVal a v => updateValF s a v
  | .setDlg a d stake token =>
    match getVal s a with
    | some old => updateValF s a { old with dlgs := (dlgUpdate old.dlgs ⟨d, stake, token⟩).1 }
    | none => s
  | .delegate d a amt =>
    if amt = 0 then s else
    match getVal s a with
    | none => s
    | some val =>
      let df := dfind val.dlgs d
      if df.isNone && amt < 0 then s else
      let cur := df.getD ⟨d, 0, 0⟩
      let tok := (Int.ofNat cur.token + amt).toNat
      let stk := tok / stakeUnit
      let delta : Int := Int.ofNat stk - Int.ofNat cur.stake
      let r := dlgUpdate val.dlgs ⟨d, stk, tok⟩
      let nv := { val with token := (Int.ofNat val.token + amt).toNat, stake := (Int.ofNat val.stake + delta).toNat, dlgs := r.1 }
      updDelegatorF P (updateValF s a nv) d a amt (r.2 == 3)
  | .statRewards i kind amount => { s with stat := s.stat.modify i (fun k => statReward k kind amount) }
  | .addWithdraw w => { s with queue := s.queue ++ [w] }
  | .removeWithdraw idx => { s with queue := removeIdx s.queue idx }
  | .addStakingRecord k tx fv =>
    let r := (getSRec s k).getD {}
    let r := match fv with | some n => { r with fv := n } | none => r
    let r := match tx with | some h => { r with txs := r.txs ++ [h] } | none => r
    { s with recs := aput s.recs k r, recD := addIfNew k s.recD }
  | .addPendingRel k =>
    if s.relats.contains k then s else { s with relats := sinsert k s.relats, relatsDirty := true }
  | .resetStaking => { s with t := { s.t with stk := {} }, recs := [], recD := [], relats := [], relatsDirty := false }
  | .finalise del => finalise del s
  | .iroot del => iroot P del s
  | .commit del => commit P del s
  | .copy => copy s
  | .reopen del =>
    let s' := commit P del s
    (openSt s'.db (roots P s')).getD s'

def run (P : Prim) (s : St) (ops : List Op) : St := ops.foldl (step P) s

/-! ### observation: everything the getters can show, in canonical order -/

/-- all keys of a content / association list, canonical order, no duplicates -/
def sortedKeys (ks : List Bytes) : List Bytes := ks.foldr sinsert []

/-- a blank account is indistinguishable from a non-existent one through every getter but `Exist` -/
def Acct.blank (o : Acct) : Bool :=
  o.nonce == 0 && o.balance == 0 && o.code == [] && (norm o.storage) == [] && o.delBal == 0 && o.dlgs == []

structure AcctObs where
  nonce : Nat
  balance : Nat
  code : Bytes
  storage : Content
  delBal : Nat
  dlgs : List Bytes
  deriving Repr, BEq, DecidableEq

def Acct.obs (o : Acct) : AcctObs :=
  { nonce := o.nonce, balance := o.balance, code := o.code, storage := norm o.storage, delBal := o.delBal, dlgs := o.dlgs }

structure Obs where
  accts : List (Bytes × AcctObs)
  vals  : List (Bytes × Val)
  stat  : Stat
  queue : List WRec
  recs  : List (Bytes × SRec)
  relats : List Bytes
  deriving Repr, BEq, DecidableEq

def acctKeys (s : St) : List Bytes := sortKeys (s.accts.map (·.1) ++ s.t.acct.map (·.1))
def recKeys (s : St) : List Bytes := sortKeys (s.recs.map (·.1) ++ s.t.stk.recs.map (·.1))

def obs (P : Prim) (s : St) : Obs :=
  { accts := (acctKeys s).filterMap (fun a => match getAcct P s a with
                                            | some o => if o.blank then none else some (a, o.obs)
                                            | none => none),
    vals := (sortKeys s.index).filterMap (fun a => (getVal s a).map (fun v => (a, v))),
    stat := s.stat, queue := s.queue,
    recs := (recKeys s).filterMap (fun k => (getSRec s k).map (fun r => (k, r))),
    relats := s.relats }

end YouVerif.C10
