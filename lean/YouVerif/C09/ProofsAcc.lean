/-
C09 helper lemmas, part 2: every account-side mutation is undone exactly by the journal entries it appends.
-/
import YouVerif.C09.ProofsStack
namespace YouVerif.C09

/-- data invariant of the account side: an address without object is not in `stateObjectsDirty`
(needed because `createObjectChange.revert` also deletes the address from that set) -/
def AccInv (d : AccData) : Prop := ∀ a, d.objs a = none → d.dirtyObjs a = false

theorem AccData.set_self {d : AccData} {a : Addr} {o : Obj} (h : d.objs a = some o) : d.set a o = d := by
  cases d; simp only [AccData.set] at *; congr; rw [← h]; exact upd_self _ _

theorem AccData.set_set (d : AccData) (a : Addr) (o o' : Obj) : (d.set a o).set a o' = d.set a o' := by
  simp [AccData.set]

theorem AccData.get_some {d : AccData} {a : Addr} {o : Obj} (h : d.get a = some o) :
    d.objs a = some o ∧ o.deleted = false := by
  unfold AccData.get at h
  split at h
  · rename_i o' ho'
    split at h
    · simp at h
    · simp only [Option.some.injEq] at h; subst h; exact ⟨ho', by simp_all⟩
  · simp at h

theorem AccData.get_none {d : AccData} {a : Addr} (h : d.get a = none) :
    d.objs a = none ∨ ∃ o, d.objs a = some o ∧ o.deleted = true := by
  unfold AccData.get at h
  split at h
  · rename_i o' ho'
    split at h
    · exact Or.inr ⟨o', ho', ‹_›⟩
    · simp at h
  · exact Or.inl ‹_›

theorem AccData.get_set (d : AccData) (a : Addr) {o : Obj} (h : o.deleted = false) : (d.set a o).get a = some o := by
  simp [AccData.get, AccData.set, h]

theorem AccData.modify_set (d : AccData) (a : Addr) {o : Obj} (g : Obj → Obj) (h : o.deleted = false) :
    (d.set a o).modify a g = d.set a (g o) := by
  simp only [AccData.modify, AccData.get_set d a h, AccData.set_set]

/-- `GetOrNewStateObject`: the object it returns is live in the new data, and its entries undo it -/
theorem getOrNew_spec {d : AccData} (hI : AccInv d) (a : Addr) :
    (getOrNew d a).2.1.objs a = some (getOrNew d a).1 ∧ (getOrNew d a).1.deleted = false ∧
    undoAll undoAcc (getOrNew d a).2.2 (getOrNew d a).2.1 = d := by
  unfold getOrNew
  split
  · rename_i o ho
    obtain ⟨h1, h2⟩ := AccData.get_some ho
    exact ⟨h1, h2, by first | trivial | rfl⟩
  · rename_i hn
    simp only [createObject]
    refine ⟨by simp [AccData.set], by first | trivial | rfl, ?_⟩
    rcases AccData.get_none hn with h | ⟨p, hp, _⟩
    · simp only [h, undoAll, undoAcc, AccData.set]
      have hd := hI a h
      cases d
      simp only [AccData.mk.injEq] at *
      simp only [upd_upd, true_and, and_true]
      refine ⟨?_, ?_⟩
      · rw [← h]; exact upd_self _ _
      · rw [← hd]; exact upd_self _ _
    · simp only [hp, undoAll, undoAcc, AccData.set_set]
      exact AccData.set_self hp

/-- the common shape "get or create the object, journal the old field, overwrite the field" -/
theorem undo_fieldOp {d : AccData} (hI : AccInv d) (a : Addr) (f : Obj → Obj) (e : Obj → AccEntry)
    (h : ∀ (d' : AccData) (o : Obj), o.deleted = false → undoAcc (e o) (d'.set a (f o)) = d'.set a o) :
    undoAll undoAcc (e (getOrNew d a).1 :: (getOrNew d a).2.2) ((getOrNew d a).2.1.set a (f (getOrNew d a).1)) = d := by
  obtain ⟨h1, h2, h3⟩ := getOrNew_spec hI a
  simp only [undoAll]
  rw [h _ _ h2, AccData.set_self h1, h3]

/-- guard of the account side: the one mutation no journal entry undoes is the extra `journal.dirty`
of a zero-value `AddBalance` to the RIPEMD address (known finding F-C09e) -/
def AccOpOK : AccOp → Prop
  | .addBalance a amt => ¬ (a = ripemd ∧ amt = 0)
  | _ => True

/-- **every account-side mutation is undone exactly by the entries it journals** -/
theorem applyAcc_undo {d d' : AccData} {es : List AccEntry} (op : AccOp) (hI : AccInv d) (hok : AccOpOK op)
    (h : applyAcc op d = some (d', es)) : undoAll undoAcc es d' = d := by
  cases op with
  | addBalance a amt =>
    simp only [applyAcc] at h
    split at h
    · rename_i hz
      split at h
      · simp only [Option.some.injEq, Prod.mk.injEq] at h
        obtain ⟨rfl, rfl⟩ := h
        have hne : a ≠ ripemd := fun e => hok ⟨e, hz⟩
        simp only [hne, if_false, undoAll, undoAcc]
        exact (getOrNew_spec hI a).2.2
      · simp only [Option.some.injEq, Prod.mk.injEq] at h
        obtain ⟨rfl, rfl⟩ := h
        exact (getOrNew_spec hI a).2.2
    · simp only [Option.some.injEq, Prod.mk.injEq] at h
      obtain ⟨rfl, rfl⟩ := h
      exact undo_fieldOp hI a (fun o => { o with balance := o.balance + amt }) (fun o => .balance a o.balance)
        (fun d' o ho => by simp only [undoAcc]; rw [AccData.modify_set _ _ _ (by simpa using ho)])
  | subBalance a amt =>
    simp only [applyAcc] at h
    split at h
    · simp only [Option.some.injEq, Prod.mk.injEq] at h
      obtain ⟨rfl, rfl⟩ := h
      exact (getOrNew_spec hI a).2.2
    · simp only [Option.some.injEq, Prod.mk.injEq] at h
      obtain ⟨rfl, rfl⟩ := h
      exact undo_fieldOp hI a (fun o => { o with balance := o.balance - amt }) (fun o => .balance a o.balance)
        (fun d' o ho => by simp only [undoAcc]; rw [AccData.modify_set _ _ _ (by simpa using ho)])
  | setBalance a amt =>
    simp only [applyAcc, Option.some.injEq, Prod.mk.injEq] at h
    obtain ⟨rfl, rfl⟩ := h
    exact undo_fieldOp hI a (fun o => { o with balance := amt }) (fun o => .balance a o.balance)
      (fun d' o ho => by simp only [undoAcc]; rw [AccData.modify_set _ _ _ (by simpa using ho)])
  | setNonce a n =>
    simp only [applyAcc, Option.some.injEq, Prod.mk.injEq] at h
    obtain ⟨rfl, rfl⟩ := h
    exact undo_fieldOp hI a (fun o => { o with nonce := n }) (fun o => .nonce a o.nonce)
      (fun d' o ho => by simp only [undoAcc]; rw [AccData.modify_set _ _ _ (by simpa using ho)])
  | setCode a c =>
    simp only [applyAcc, Option.some.injEq, Prod.mk.injEq] at h
    obtain ⟨rfl, rfl⟩ := h
    exact undo_fieldOp hI a (fun o => { o with code := c }) (fun o => .code a o.code)
      (fun d' o ho => by simp only [undoAcc]; rw [AccData.modify_set _ _ _ (by simpa using ho)])
  | setState a k v =>
    simp only [applyAcc] at h
    split at h
    · simp only [Option.some.injEq, Prod.mk.injEq] at h
      obtain ⟨rfl, rfl⟩ := h
      exact (getOrNew_spec hI a).2.2
    · simp only [Option.some.injEq, Prod.mk.injEq] at h
      obtain ⟨rfl, rfl⟩ := h
      exact undo_fieldOp hI a (fun o => { o with storage := upd o.storage k v }) (fun o => .storage a k (o.storage k))
        (fun d' o ho => by
          simp only [undoAcc]; rw [AccData.modify_set _ _ _ (by simpa using ho)]
          simp only [upd_upd, upd_self])
  | suicide a =>
    simp only [applyAcc] at h
    split at h
    · simp only [Option.some.injEq, Prod.mk.injEq] at h
      obtain ⟨rfl, rfl⟩ := h; rfl
    · rename_i o ho
      obtain ⟨h1, h2⟩ := AccData.get_some ho
      simp only [Option.some.injEq, Prod.mk.injEq] at h
      obtain ⟨rfl, rfl⟩ := h
      simp only [undoAll, undoAcc]
      rw [AccData.modify_set _ _ _ (by simpa using h2)]
      exact AccData.set_self h1
  | createAccount a =>
    simp only [applyAcc, createObject] at h
    split at h
    · rename_i p hp
      simp only [Option.some.injEq, Prod.mk.injEq] at h
      obtain ⟨rfl, rfl⟩ := h
      simp only [hp, undoAll, undoAcc, AccData.set_set]
      exact AccData.set_self hp
    · rename_i hp
      simp only [Option.some.injEq, Prod.mk.injEq] at h
      obtain ⟨rfl, rfl⟩ := h
      simp only [hp, undoAll, undoAcc, AccData.set]
      have hd := hI a hp
      cases d
      simp only [AccData.mk.injEq] at *
      simp only [upd_upd, true_and, and_true]
      exact ⟨by rw [← hp]; exact upd_self _ _, by rw [← hd]; exact upd_self _ _⟩
  | addLog p =>
    simp only [applyAcc, Option.some.injEq, Prod.mk.injEq] at h
    obtain ⟨rfl, rfl⟩ := h
    simp only [undoAll, undoAcc, upd_same, List.dropLast_concat, upd_upd, upd_self, Nat.add_sub_cancel]
  | addPreimage hsh p =>
    simp only [applyAcc] at h
    split at h
    · simp only [Option.some.injEq, Prod.mk.injEq] at h
      obtain ⟨rfl, rfl⟩ := h; rfl
    · rename_i hn
      simp only [Option.some.injEq, Prod.mk.injEq] at h
      obtain ⟨rfl, rfl⟩ := h
      simp only [undoAll, undoAcc, upd_upd]
      cases d; simp only [AccData.mk.injEq] at *
      simp only [true_and, and_true]; rw [← hn]; exact upd_self _ _
  | addRefund g =>
    simp only [applyAcc, Option.some.injEq, Prod.mk.injEq] at h
    obtain ⟨rfl, rfl⟩ := h; rfl
  | subRefund g =>
    simp only [applyAcc] at h
    split at h
    · simp at h
    · simp only [Option.some.injEq, Prod.mk.injEq] at h
      obtain ⟨rfl, rfl⟩ := h; rfl

/-- `UpdateDelegator` (the account half of `UpdateDelegation`) is undone by its entries -/
theorem updateDelegator_undo (d : AccData) (a toVal : Addr) (delta : Int) (del : Bool) :
    undoAll undoAcc (updateDelegator d a toVal delta del).2 (updateDelegator d a toVal delta del).1 = d := by
  unfold updateDelegator
  split
  · rfl
  · rename_i o ho
    obtain ⟨h1, h2⟩ := AccData.get_some ho
    have h2' : o.deleted = false := h2
    simp only
    by_cases c : ((!o.dlgs.contains toVal && !del) || (o.dlgs.contains toVal && del)) = true
    · simp only [c, if_true, undoAll, undoAcc]
      rw [AccData.modify_set _ _ _ (by simpa using h2'), AccData.modify_set _ _ _ (by simpa using h2')]
      exact AccData.set_self h1
    · have c1 : (!o.dlgs.contains toVal && !del) = false := by
        cases h : (!o.dlgs.contains toVal && !del) <;> simp_all
      have c2 : (o.dlgs.contains toVal && del) = false := by
        cases h : (o.dlgs.contains toVal && del) <;> simp_all
      simp only [c, c1, c2, if_false, Bool.false_eq_true, undoAll, undoAcc]
      rw [AccData.modify_set _ _ _ (by simpa using h2')]
      exact AccData.set_self h1

/-! ### the invariant is preserved -/

/-- forward mutations never remove an object and never touch `stateObjectsDirty` -/
def AccFrame (d d' : AccData) : Prop := d'.dirtyObjs = d.dirtyObjs ∧ ∀ x, d'.objs x = none → d.objs x = none

theorem AccFrame.refl (d : AccData) : AccFrame d d := ⟨rfl, fun _ h => h⟩
theorem AccFrame.trans {a b c : AccData} (h₁ : AccFrame a b) (h₂ : AccFrame b c) : AccFrame a c :=
  ⟨h₂.1.trans h₁.1, fun x h => h₁.2 x (h₂.2 x h)⟩
theorem AccFrame.inv {d d' : AccData} (h : AccFrame d d') (hI : AccInv d) : AccInv d' :=
  fun a ha => by rw [h.1]; exact hI a (h.2 a ha)

theorem AccFrame.set (d : AccData) (a : Addr) (o : Obj) : AccFrame d (d.set a o) := by
  refine ⟨rfl, fun x h => ?_⟩
  simp only [AccData.set, upd] at h
  split at h
  · simp at h
  · exact h

theorem getOrNew_frame (d : AccData) (a : Addr) : AccFrame d (getOrNew d a).2.1 := by
  unfold getOrNew
  split
  · exact AccFrame.refl d
  · simp only [createObject]; exact AccFrame.set d a _

theorem applyAcc_frame {d d' : AccData} {es : List AccEntry} (op : AccOp) (h : applyAcc op d = some (d', es)) :
    AccFrame d d' := by
  have hs := fun (a : Addr) (o : Obj) => (getOrNew_frame d a).trans (AccFrame.set (getOrNew d a).2.1 a o)
  cases op <;> simp only [applyAcc] at h
  case addBalance a amt =>
    split at h
    · split at h <;> (simp only [Option.some.injEq, Prod.mk.injEq] at h; obtain ⟨rfl, rfl⟩ := h)
      · exact ⟨(getOrNew_frame d a).1, (getOrNew_frame d a).2⟩
      · exact getOrNew_frame d a
    · simp only [Option.some.injEq, Prod.mk.injEq] at h; obtain ⟨rfl, rfl⟩ := h; exact hs _ _
  case subBalance a amt =>
    split at h <;> (simp only [Option.some.injEq, Prod.mk.injEq] at h; obtain ⟨rfl, rfl⟩ := h)
    · exact getOrNew_frame d a
    · exact hs _ _
  case setBalance a amt => simp only [Option.some.injEq, Prod.mk.injEq] at h; obtain ⟨rfl, rfl⟩ := h; exact hs _ _
  case setNonce a n => simp only [Option.some.injEq, Prod.mk.injEq] at h; obtain ⟨rfl, rfl⟩ := h; exact hs _ _
  case setCode a c => simp only [Option.some.injEq, Prod.mk.injEq] at h; obtain ⟨rfl, rfl⟩ := h; exact hs _ _
  case setState a k v =>
    split at h <;> (simp only [Option.some.injEq, Prod.mk.injEq] at h; obtain ⟨rfl, rfl⟩ := h)
    · exact getOrNew_frame d a
    · exact hs _ _
  case suicide a =>
    split at h <;> (simp only [Option.some.injEq, Prod.mk.injEq] at h; obtain ⟨rfl, rfl⟩ := h)
    · exact AccFrame.refl d
    · exact AccFrame.set d a _
  case createAccount a =>
    simp only [createObject] at h
    split at h <;> (simp only [Option.some.injEq, Prod.mk.injEq] at h; obtain ⟨rfl, rfl⟩ := h)
    · exact (AccFrame.set d a _).trans (AccFrame.set _ a _)
    · exact AccFrame.set d a _
  case addLog p => simp only [Option.some.injEq, Prod.mk.injEq] at h; obtain ⟨rfl, rfl⟩ := h; exact ⟨rfl, fun _ h => h⟩
  case addPreimage hsh p =>
    split at h <;> (simp only [Option.some.injEq, Prod.mk.injEq] at h; obtain ⟨rfl, rfl⟩ := h)
    · exact AccFrame.refl d
    · exact ⟨rfl, fun _ h => h⟩
  case addRefund g => simp only [Option.some.injEq, Prod.mk.injEq] at h; obtain ⟨rfl, rfl⟩ := h; exact ⟨rfl, fun _ h => h⟩
  case subRefund g =>
    split at h
    · simp at h
    · simp only [Option.some.injEq, Prod.mk.injEq] at h; obtain ⟨rfl, rfl⟩ := h; exact ⟨rfl, fun _ h => h⟩

theorem updateDelegator_frame (d : AccData) (a toVal : Addr) (delta : Int) (del : Bool) :
    AccFrame d (updateDelegator d a toVal delta del).1 := by
  unfold updateDelegator
  split
  · exact AccFrame.refl d
  · exact AccFrame.set d a _

end YouVerif.C09
