/-
C09 helper lemmas, part 5: the executable guard implies the propositional one; runs compose.
-/
import YouVerif.C09.ProofsMain
import YouVerif.C09.Guard
namespace YouVerif.C09

theorem KS.coversB_sound {k : KS} {v : Val} (h : k.coversB v = true) : k.covers v := by
  unfold KS.coversB at h; unfold KS.covers
  split <;> simp_all

theorem coversB_sound {s : Stat} {v : Val} (h : coversB s v = true) : Covers s v := by
  unfold coversB at h
  simp only [Bool.and_eq_true] at h
  exact ⟨KS.coversB_sound h.1.1, KS.coversB_sound h.1.2, KS.coversB_sound h.2⟩

theorem opOKB_sound {s : State} {op : Op} (h : opOKB s op = true) : OpOK s op := by
  cases op with
  | acc o =>
    cases o <;> simp only [OpOK, AccOpOK]
    case addBalance a amt =>
      simp only [opOKB, Bool.not_eq_true', Bool.and_eq_false_iff, beq_eq_false_iff_ne] at h
      intro ⟨h1, h2⟩; rcases h with h | h <;> contradiction
  | val o =>
    cases o <;> simp only [OpOK, ValOpOK]
    case create a v =>
      intro hn; simp only [opOKB, hn] at h; simpa using h
    case update a new =>
      intro old ho; simp only [opOKB, ho, Bool.or_eq_true] at h
      exact h.imp id coversB_sound
    case remove a =>
      intro v hv; simp only [opOKB, hv, Bool.and_eq_true, Bool.not_eq_true'] at h
      exact ⟨h.1, coversB_sound h.2⟩
  | deleg dlg va amt =>
    intro old new del ho hn
    simp only [opOKB, ho, hn, Bool.or_eq_true] at h
    exact h.imp id coversB_sound
  | prepare hsh i => simp only [opOKB, List.isEmpty_iff] at h; exact h
  | snapshot => trivial
  | revert id => trivial
  | finalise d => trivial
  | root d => trivial

theorem guardedB_sound {s : State} {ops : List Op} (h : guardedB s ops = true) : Guarded s ops := by
  induction ops generalizing s with
  | nil => trivial
  | cons op ops ih =>
    simp only [guardedB, Bool.and_eq_true] at h
    refine ⟨opOKB_sound h.1, fun s' hs' => ?_⟩
    have h2 := h.2
    split at h2
    · rename_i s'' hs''
      rw [hs'] at hs''; simp only [Option.some.injEq] at hs''; subst hs''; exact ih h2
    · rename_i hn; rw [hs'] at hn; simp at hn

theorem run_append {s : State} {ops₁ ops₂ : List Op} {s₁ : State} (h : run s ops₁ = some s₁) :
    run s (ops₁ ++ ops₂) = run s₁ ops₂ := by
  induction ops₁ generalizing s with
  | nil => simp only [run, Option.some.injEq] at h; subst h; rfl
  | cons op ops ih =>
    simp only [run, List.cons_append] at h ⊢
    split at h
    · exact ih h
    · simp at h

theorem Guarded.append {s : State} {ops₁ ops₂ : List Op} {s₁ : State} (h : run s ops₁ = some s₁)
    (g₁ : Guarded s ops₁) (g₂ : Guarded s₁ ops₂) : Guarded s (ops₁ ++ ops₂) := by
  induction ops₁ generalizing s with
  | nil => simp only [run, Option.some.injEq] at h; subst h; exact g₂
  | cons op ops ih =>
    simp only [run] at h
    split at h
    · rename_i s' hs'
      refine ⟨g₁.1, fun s'' hs'' => ?_⟩
      rw [hs'] at hs''; simp only [Option.some.injEq] at hs''; subst hs''
      exact ih h (g₁.2 _ hs')
    · simp at h

/-- the state right after `Snapshot()` -/
def snapshotOf (s : State) : State :=
  { s with revs := (s.nextId, s.aj.length) :: s.revs, valRevs := (s.nextId, s.vj.length) :: s.valRevs, nextId := s.nextId + 1 }

theorem step_snapshot (s : State) : step s .snapshot = some (snapshotOf s) := rfl

theorem snapshot_inv {s : State} {ga : List AG} {gv : List VG} (hI : Inv s ga gv) :
    Inv (snapshotOf s) (⟨s.nextId, (s.a, s.aj), s.revs⟩ :: ga) (⟨s.nextId, (s.v, s.vj), s.valRevs⟩ :: gv) :=
  ⟨hI.acc, hI.val, hI.ra.snapshot hI.acc, hI.rv.snapshot hI.val, by simp [snapshotOf, hI.ids]⟩

/-- reverting any live id succeeds (both searches find it) -/
theorem revert_isSome_of_inv {s : State} {ga : List AG} {gv : List VG} (hI : Inv s ga gv) {id : Nat}
    (hid : id ∈ s.liveIds) : (step s (.revert id)).isSome = true := by
  have hid' : id ∈ s.valRevs.map (·.1) := by rw [← hI.ids]; exact hid
  obtain ⟨n, older, g, gs', hf, _⟩ := hI.ra.find hid
  obtain ⟨m, volder, g', gs'', hf', _⟩ := hI.rv.find hid'
  simp only [step, revertSnap, hf, hf', Option.isSome_some]

/-- the core statement: whatever guarded calls follow a snapshot, as long as its id is still live, reverting
to it succeeds and gives back both components (data AND journals) and both revision lists exactly -/
theorem revert_of_inv {s₀ s₂ : State} {ga : List AG} {gv : List VG} {ops : List Op} (hI : Inv s₀ ga gv)
    (hg : Guarded (snapshotOf s₀) ops) (h : run (snapshotOf s₀) ops = some s₂) (hlive : s₀.nextId ∈ s₂.liveIds) :
    ∃ s₃, step s₂ (.revert s₀.nextId) = some s₃ ∧ s₃.a = s₀.a ∧ s₃.aj = s₀.aj ∧ s₃.v = s₀.v ∧ s₃.vj = s₀.vj ∧
      s₃.revs = s₀.revs ∧ s₃.valRevs = s₀.valRevs := by
  obtain ⟨ga₂, gv₂, hI₂, hma, hmv, _⟩ := run_inv (snapshot_inv hI) hg h
  have hlive' : s₀.nextId ∈ s₂.valRevs.map (·.1) := by rw [← hI₂.ids]; exact hlive
  obtain ⟨n, older, g, gs', hf, hg', hgid, hgo, hrev, _⟩ := hI₂.ra.find hlive
  obtain ⟨m, volder, g', gs'', hf', hg'', hgid', hgo', hrev', _⟩ := hI₂.rv.find hlive'
  -- the ghosts found are the ones pushed by our snapshot
  have e1 : g = ⟨s₀.nextId, (s₀.a, s₀.aj), s₀.revs⟩ := by
    have := hma g hg' (by show g.id < s₀.nextId + 1; omega)
    rcases List.mem_cons.1 this with h | h
    · exact h
    · have := hI.ra.ids_lt g h; omega
  have e2 : g' = ⟨s₀.nextId, (s₀.v, s₀.vj), s₀.valRevs⟩ := by
    have := hmv g' hg'' (by show g'.id < s₀.nextId + 1; omega)
    rcases List.mem_cons.1 this with h | h
    · exact h
    · have := hI.rv.ids_lt g' h; omega
  subst e1 e2
  simp only at hgo hgo' hrev hrev'
  refine ⟨_, by simp only [step, revertSnap, hf, hf']; rfl, ?_, ?_, ?_, ?_, hgo.symm, hgo'.symm⟩
  · show (revertTo undoAcc n (s₂.a, s₂.aj)).1 = s₀.a; rw [hrev]
  · show (revertTo undoAcc n (s₂.a, s₂.aj)).2 = s₀.aj; rw [hrev]
  · show (revertTo undoVal m (s₂.v, s₂.vj)).1 = s₀.v; rw [hrev']
  · show (revertTo undoVal m (s₂.v, s₂.vj)).2 = s₀.vj; rw [hrev']

/-- ids issued before a state and still live after a guarded run were live in that state -/
theorem live_mono {s s' : State} {ga : List AG} {gv : List VG} {ops : List Op} (hI : Inv s ga gv) (hg : Guarded s ops)
    (h : run s ops = some s') {id : Nat} (hid : id ∈ s'.liveIds) (hlt : id < s.nextId) : id ∈ s.liveIds := by
  obtain ⟨ga', gv', hI', hma, _, _⟩ := run_inv hI hg h
  have : id ∈ ga'.map (·.id) := by rw [← hI'.ra.ids]; exact hid
  obtain ⟨g, hg', rfl⟩ := List.mem_map.1 this
  have := hma g hg' hlt
  show g.id ∈ s.revs.map (·.1)
  rw [hI.ra.ids]; exact List.mem_map_of_mem this

end YouVerif.C09
