/-
C09 — executable model of go-youchain's `core/state.StateDB` snapshot/revert machinery
(statedb.go, journal.go, state_object.go, statedb_val.go, statedb_staking.go:UpdateDelegation).

Core Lean only.  Self-contained: C08/C10/C16 may reuse it.

Shape of the model
* A `State` has two journaled components, exactly like the Go object:
    account side   `a : AccData`  with undo log `aj : List AccEntry`   (Go: journal)
    validator side `v : ValData`  with undo log `vj : List ValEntry`   (Go: validatorJournal)
  plus the two revision lists (`revs`, `valRevs`: snapshot id ↦ journal length) and `nextId`.
  Journals and revision lists are kept NEWEST FIRST (Go appends at the end).
* Finite maps of the Go code are total functions with a default (`Addr → Option Obj`, `Key → Word`, …):
  the model has no notion of "which keys exist in the Go map" beyond what is observable, and
  `upd f k x` is functional update.  A driver that wants to dump a state enumerates the keys it used.
* `objs a` is the *merged* view "live state object if any, else what the account trie holds";
  `vals a` likewise for validators.  Loading an object from the trie is therefore invisible.
* Storage has three layers per object: `storage` (current value = dirtyStorage over the rest),
  `committed` (pendingStorage/originStorage/trie = value at the last Finalise of the object) and
  `trieStorage` (what the storage trie holds, i.e. what the account's `Root` commits to).
* The dirty counters of a Go journal (`journal.dirties`) are *derived*: the number of journal entries
  that dirtied the address (`dirtyCount`), plus, on the account side, `extra` — the increments made by
  `journal.dirty(addr)` for the RIPEMD address, which no journal entry undoes.
* The tries are modelled by their content (`trie*` fields); a root hash is a function of that content.
* Go panics are the outcome `none` of `step` (`revision id … cannot be reverted`, `Refund counter below
  zero`, index out of range in `RemoveWithdrawRecords`).
-/
namespace YouVerif.C09

abbrev Addr := Nat
abbrev Key := Nat
abbrev Word := Nat
abbrev Hash := Nat

/-- functional update of a total map -/
def upd {β : Type} (f : Nat → β) (k : Nat) (x : β) : Nat → β := fun i => if i = k then x else f i

@[simp] theorem upd_same {β} (f : Nat → β) (k : Nat) (x : β) : upd f k x k = x := by simp [upd]
theorem upd_other {β} (f : Nat → β) (k i : Nat) (x : β) (h : i ≠ k) : upd f k x i = f i := by simp [upd, h]
@[simp] theorem upd_upd {β} (f : Nat → β) (k : Nat) (x y : β) : upd (upd f k x) k y = upd f k y := by
  funext i; simp only [upd]; split <;> rfl
@[simp] theorem upd_self {β} (f : Nat → β) (k : Nat) : upd f k (f k) = f := by
  funext i; simp only [upd]; split <;> simp_all

/-- the address `journal.dirty` special-cases (`0x…03`) -/
def ripemd : Addr := 3
def U64 : Nat := 2 ^ 64
/-- params.StakeUint = 10^18 -/
def stakeUnit : Nat := 10 ^ 18

/-! ## Account side -/

/-- a state object (`stateObject` + its `Account` data) -/
structure Obj where
  nonce : Nat := 0
  balance : Int := 0
  code : String := ""                 -- hex text; "" ⇔ CodeHash = emptyCodeHash
  storage : Key → Word := fun _ => 0
  committed : Key → Word := fun _ => 0
  trieStorage : Key → Word := fun _ => 0
  suicided : Bool := false
  deleted : Bool := false
  dlgBalance : Int := 0               -- Account.DelegationBalance
  dlgs : List Addr := []              -- validators this account delegates to (sorted)

/-- `stateObject.empty` -/
def Obj.isEmpty (o : Obj) : Bool := o.nonce == 0 && o.balance == 0 && o.code == ""

/-- an entry of `StateDB.logs[thash]`: payload and the block-wide log index -/
structure Log where
  payload : Nat
  index : Nat
  txIndex : Nat
deriving DecidableEq, Repr

/-- what the account trie stores for an address (`Root` is represented by the storage content) -/
structure Leaf where
  nonce : Nat
  balance : Int
  code : String
  storage : Key → Word
  dlgBalance : Int
  dlgs : List Addr

structure AccData where
  objs : Addr → Option Obj := fun _ => none
  refund : Nat := 0
  logs : Hash → List Log := fun _ => []
  logSize : Nat := 0
  thash : Hash := 0
  txIndex : Nat := 0
  preimages : Hash → Option String := fun _ => none
  extra : Addr → Nat := fun _ => 0          -- journal.dirty() increments (RIPEMD hack)
  pending : Addr → Bool := fun _ => false   -- stateObjectsPending
  dirtyObjs : Addr → Bool := fun _ => false -- stateObjectsDirty
  trie : Addr → Option Leaf := fun _ => none

/-- journal.go: account-journal entry kinds, with the data their `revert` uses -/
inductive AccEntry
  | createObject (a : Addr)
  | resetObject (a : Addr) (prev : Obj)
  | suicide (a : Addr) (prev : Bool) (prevBalance : Int)
  | balance (a : Addr) (prev : Int)
  | nonce (a : Addr) (prev : Nat)
  | storage (a : Addr) (k : Key) (prev : Word)
  | code (a : Addr) (prev : String)
  | dlgBalance (a : Addr) (prev : Int)
  | dlgs (a : Addr) (prev : List Addr)
  | refund (prev : Nat)
  | addLog (h : Hash)
  | addPreimage (h : Hash)
  | touch (a : Addr)

/-- `journalEntry.dirtied()` -/
def AccEntry.dirtied : AccEntry → Option Addr
  | .createObject a | .suicide a _ _ | .balance a _ | .nonce a _ | .storage a _ _ | .code a _
  | .dlgBalance a _ | .dlgs a _ | .touch a => some a
  | .resetObject .. | .refund _ | .addLog _ | .addPreimage _ => none

/-- `getStateObject`: the object unless flagged deleted -/
def AccData.get (d : AccData) (a : Addr) : Option Obj :=
  match d.objs a with
  | some o => if o.deleted then none else some o
  | none => none

def AccData.set (d : AccData) (a : Addr) (o : Obj) : AccData := { d with objs := upd d.objs a (some o) }

/-- modify the (non-deleted) object at `a`; Go would nil-dereference if it were missing, which cannot
happen when entries are undone in LIFO order (the theorems show the object is there) -/
def AccData.modify (d : AccData) (a : Addr) (f : Obj → Obj) : AccData :=
  match d.get a with
  | some o => d.set a (f o)
  | none => d

/-- `journalEntry.revert` for the account journal -/
def undoAcc (e : AccEntry) (d : AccData) : AccData :=
  match e with
  | .createObject a => { d with objs := upd d.objs a none, dirtyObjs := upd d.dirtyObjs a false }
  | .resetObject a prev => d.set a prev
  | .suicide a prev pb => d.modify a fun o => { o with suicided := prev, balance := pb }
  | .balance a p => d.modify a fun o => { o with balance := p }
  | .nonce a p => d.modify a fun o => { o with nonce := p }
  | .storage a k p => d.modify a fun o => { o with storage := upd o.storage k p }
  | .code a p => d.modify a fun o => { o with code := p }
  | .dlgBalance a p => d.modify a fun o => { o with dlgBalance := p }
  | .dlgs a p => d.modify a fun o => { o with dlgs := p }
  | .refund p => { d with refund := p }
  | .addLog h => { d with logs := upd d.logs h (d.logs h).dropLast, logSize := d.logSize - 1 }
  | .addPreimage h => { d with preimages := upd d.preimages h none }
  | .touch _ => d

/-- account-side mutations of the StateDB API -/
inductive AccOp
  | addBalance (a : Addr) (amt : Nat)
  | subBalance (a : Addr) (amt : Nat)
  | setBalance (a : Addr) (amt : Nat)
  | setNonce (a : Addr) (n : Nat)
  | setCode (a : Addr) (code : String)
  | setState (a : Addr) (k : Key) (v : Word)
  | suicide (a : Addr)
  | createAccount (a : Addr)
  | addLog (payload : Nat)
  | addPreimage (h : Hash) (p : String)
  | addRefund (g : Nat)
  | subRefund (g : Nat)

/-- result of a mutation: new data and the journal entries it appended, NEWEST FIRST -/
abbrev AccRes := AccData × List AccEntry

/-- `createObject`: returns the fresh object's predecessor as well -/
def createObject (d : AccData) (a : Addr) : AccData × List AccEntry × Option Obj :=
  let prev := d.objs a
  let e := match prev with
    | none => AccEntry.createObject a
    | some p => AccEntry.resetObject a p
  (d.set a {}, [e], prev)

/-- `GetOrNewStateObject` -/
def getOrNew (d : AccData) (a : Addr) : Obj × AccData × List AccEntry :=
  match d.get a with
  | some o => (o, d, [])
  | none => let (d', es, _) := createObject d a; ({}, d', es)

/-- insert into a sorted address list (`UpdateDelegationTo`, `UpdateDelegationFrom`) -/
def insertSorted (x : Addr) : List Addr → List Addr
  | [] => [x]
  | y :: ys => if x < y then x :: y :: ys else if x = y then y :: ys else y :: insertSorted x ys

def applyAcc (op : AccOp) (d : AccData) : Option AccRes :=
  match op with
  | .addBalance a amt =>
    let (o, d1, es) := getOrNew d a
    if amt = 0 then
      if o.isEmpty then
        -- stateObject.touch: a touchChange, and for RIPEMD an extra journal.dirty()
        some ({ d1 with extra := if a = ripemd then upd d1.extra a (d1.extra a + 1) else d1.extra }, .touch a :: es)
      else some (d1, es)
    else some (d1.set a { o with balance := o.balance + amt }, .balance a o.balance :: es)
  | .subBalance a amt =>
    let (o, d1, es) := getOrNew d a
    if amt = 0 then some (d1, es)
    else some (d1.set a { o with balance := o.balance - amt }, .balance a o.balance :: es)
  | .setBalance a amt =>
    let (o, d1, es) := getOrNew d a
    some (d1.set a { o with balance := amt }, .balance a o.balance :: es)
  | .setNonce a n =>
    let (o, d1, es) := getOrNew d a
    some (d1.set a { o with nonce := n }, .nonce a o.nonce :: es)
  | .setCode a c =>
    let (o, d1, es) := getOrNew d a
    some (d1.set a { o with code := c }, .code a o.code :: es)
  | .setState a k v =>
    let (o, d1, es) := getOrNew d a
    if o.storage k = v then some (d1, es)
    else some (d1.set a { o with storage := upd o.storage k v }, .storage a k (o.storage k) :: es)
  | .suicide a =>
    match d.get a with
    | none => some (d, [])
    | some o => some (d.set a { o with suicided := true, balance := 0 }, [.suicide a o.suicided o.balance])
  | .createAccount a =>
    let (d1, es, prev) := createObject d a
    match prev with
    | some p => some (d1.set a { balance := p.balance }, es)
    | none => some (d1, es)
  | .addLog p =>
    some ({ d with logs := upd d.logs d.thash (d.logs d.thash ++ [{ payload := p, index := d.logSize, txIndex := d.txIndex }]),
                   logSize := d.logSize + 1 }, [.addLog d.thash])
  | .addPreimage h p =>
    match d.preimages h with
    | some _ => some (d, [])
    | none => some ({ d with preimages := upd d.preimages h (some p) }, [.addPreimage h])
  | .addRefund g => some ({ d with refund := (d.refund + g) % U64 }, [.refund d.refund])
  | .subRefund g =>
    -- the entry is appended, then Go panics "Refund counter below zero"
    if g > d.refund then none else some ({ d with refund := d.refund - g }, [.refund d.refund])

/-- `UpdateDelegator` (statedb_staking.go): account half of `UpdateDelegation` -/
def updateDelegator (d : AccData) (a toVal : Addr) (delta : Int) (delete : Bool) : AccRes :=
  match d.get a with
  | none => (d, [])
  | some o =>
    let found := o.dlgs.contains toVal
    let changed := (!found && !delete) || (found && delete)
    let dl := if !found && !delete then insertSorted toVal o.dlgs else if found && delete then o.dlgs.erase toVal else o.dlgs
    (d.set a { o with dlgs := dl, dlgBalance := o.dlgBalance + delta },
      .dlgBalance a o.dlgBalance :: (if changed then [AccEntry.dlgs a o.dlgs] else []))

/-! ## Validator side -/

structure Deleg where
  delegator : Addr
  stake : Nat
  token : Nat
deriving DecidableEq, Repr

/-- the fields of `state.Validator` the harness varies (the others are constant per validator) -/
structure Val where
  role : Nat          -- 1 chancellor, 2 senator, 3 house
  status : Nat        -- 1 online, else offline
  token : Nat
  stake : Nat
  selfToken : Nat
  selfStake : Nat
  misc : Nat          -- CommissionRate (stands for the fields without special treatment)
  ext : Option Nat := none   -- `Ext`: none = version 0 without data; some n = version 1, Data = compact bytes of
                             -- LastActive n (`UpdateLastActive`).  A VALUE: copies of a record do not share it.
  delegs : List Deleg := []
  deleted : Bool := false
deriving DecidableEq, Repr

/-- `ValKindStat` -/
structure KS where
  onStake : Nat := 0
  onToken : Nat := 0
  onCount : Nat := 0      -- uint64, wraps
  offStake : Nat := 0
  offToken : Nat := 0
  offCount : Nat := 0
deriving DecidableEq, Repr

/-- `big.Int` subtraction guarded by `Cmp >= 0` (subStake/subToken) -/
def satSub (a b : Nat) : Nat := if a ≥ b then a - b else a

def KS.addVal (k : KS) (v : Val) : KS :=
  if v.status = 1 then { k with onStake := k.onStake + v.stake, onToken := k.onToken + v.token, onCount := (k.onCount + 1) % U64 }
  else { k with offStake := k.offStake + v.stake, offToken := k.offToken + v.token, offCount := (k.offCount + 1) % U64 }

def KS.subVal (k : KS) (v : Val) : KS :=
  if v.status = 1 then { k with onStake := satSub k.onStake v.stake, onToken := satSub k.onToken v.token, onCount := (k.onCount + U64 - 1) % U64 }
  else { k with offStake := satSub k.offStake v.stake, offToken := satSub k.offToken v.token, offCount := (k.offCount + U64 - 1) % U64 }

/-- buckets of `ValidatorsStat`: 0 all validators, 1 chamber, 2 house (kinds); 3,4,5 = roles 1,2,3 -/
abbrev Stat := Nat → KS
def kindBucket (role : Nat) : Nat := if role = 3 then 2 else 1
def roleBucket (role : Nat) : Nat := role + 2

/-- `incrValidatorsStat` as the Go code does it: role bucket, then kind bucket, then global bucket -/
def incrStatSeq (s : Stat) (v : Val) : Stat :=
  let s1 := upd s (roleBucket v.role) ((s (roleBucket v.role)).addVal v)
  let s2 := upd s1 (kindBucket v.role) ((s1 (kindBucket v.role)).addVal v)
  upd s2 0 ((s2 0).addVal v)

/-- `decrValidatorsStat`, sequential form -/
def decrStatSeq (s : Stat) (v : Val) : Stat :=
  let s1 := upd s (roleBucket v.role) ((s (roleBucket v.role)).subVal v)
  let s2 := upd s1 (kindBucket v.role) ((s1 (kindBucket v.role)).subVal v)
  upd s2 0 ((s2 0).subVal v)

/-- `incrValidatorsStat`: the three buckets are pairwise different, so the sequential updates amount to one
pointwise update (`incrStat_eq_seq` in ProofsVal.lean).  This form looks the old map up ONCE per lookup, which
keeps long undo chains linear when the model is executed. -/
def incrStat (s : Stat) (v : Val) : Stat := fun i =>
  if i = roleBucket v.role ∨ i = kindBucket v.role ∨ i = 0 then (s i).addVal v else s i

/-- `decrValidatorsStat` -/
def decrStat (s : Stat) (v : Val) : Stat := fun i =>
  if i = roleBucket v.role ∨ i = kindBucket v.role ∨ i = 0 then (s i).subVal v else s i

/-- `Validator.StakeEqual` -/
def stakeEqual (x y : Val) : Bool := x.role == y.role && x.stake == y.stake && x.token == y.token && x.status == y.status

/-- a withdraw record: identity (operator, nonce) used by `WithdrawQueue.Delete`, and a payload -/
structure WRec where
  operator : Addr
  nonce : Nat
  amount : Nat
deriving DecidableEq, Repr

structure ValData where
  vals : Addr → Option Val := fun _ => none    -- validatorObjects merged with the validator trie
  index : Addr → Bool := fun _ => false        -- validatorIndex (in memory)
  stat : Stat := fun _ => {}
  queue : List WRec := []                      -- withdrawQueue.Records
  dirtyObjs : List Addr := []                  -- validatorObjectsDirty (ascending, no duplicates)
  trieVals : Addr → Option Val := fun _ => none
  trieIndex : Addr → Bool := fun _ => false
  trieStat : Stat := fun _ => {}
  trieQueue : List WRec := []

inductive ValEntry
  | create (a : Addr)
  | update (a : Addr) (old new : Val)
  | delete (a : Addr) (old : Val)              -- `old` carries the previous `deleted` flag
  | addWithdraw (r : WRec)
  | delWithdraw (prev : List WRec)             -- the queue before RemoveWithdrawRecords

def ValEntry.dirtied : ValEntry → Option Addr
  | .create a | .update a _ _ | .delete a _ => some a
  | .addWithdraw _ | .delWithdraw _ => none

/-- `getValidator`: nil for a validator flagged deleted -/
def ValData.get (d : ValData) (a : Addr) : Option Val :=
  match d.vals a with
  | some v => if v.deleted then none else some v
  | none => none

/-- `setValidator` -/
def ValData.setVal (d : ValData) (a : Addr) (v : Val) : ValData :=
  { d with vals := upd d.vals a (some v), index := upd d.index a true }

/-- index of the LAST record with the same (operator, nonce) — `WithdrawQueue.Delete` -/
def lastMatch (r : WRec) : List WRec → Option Nat
  | [] => none
  | x :: xs =>
    match lastMatch r xs with
    | some i => some (i + 1)
    | none => if x.operator = r.operator ∧ x.nonce = r.nonce then some 0 else none

/-- `journalEntry.revert` for the validator journal -/
def undoVal (e : ValEntry) (d : ValData) : ValData :=
  match e with
  | .create a =>
    -- Go type-asserts the loaded object (panics if absent; it is present in LIFO order)
    let st := match d.vals a with | some v => decrStat d.stat v | none => d.stat
    { d with stat := st, vals := upd d.vals a none, index := upd d.index a false }
  | .update a old new =>
    let d1 := d.setVal a old
    if stakeEqual new old then d1 else { d1 with stat := incrStat (decrStat d1.stat new) old }
  | .delete a old =>
    let d1 := d.setVal a old
    { d1 with stat := incrStat d1.stat old }
  | .addWithdraw r =>
    if d.queue.length > 0 then
      match lastMatch r d.queue with
      | some i => { d with queue := d.queue.eraseIdx i }
      | none => d      -- Go: slice bounds out of range [:-1]
    else d
  | .delWithdraw prev => { d with queue := prev }

inductive ValOp
  | create (a : Addr) (v : Val)
  | update (a : Addr) (new : Val)             -- UpdateValidator(new, current validator at a)
  | remove (a : Addr)                         -- GetValidatorByMainAddr(a); RemoveValidator(a)
  | addWithdraw (r : WRec)
  | removeWithdraws (idx : List Nat)

abbrev ValRes := ValData × List ValEntry

/-- `WithdrawQueue.RemoveRecords` -/
def removeIdx (q : List WRec) (idx : List Nat) : List WRec :=
  (q.zipIdx.filter fun p => !idx.contains p.2).map (·.1)

/-- `UpdateValidator(new, old)` given the current validator `old` -/
def updateVal (d : ValData) (a : Addr) (old new : Val) : ValRes :=
  let d1 := d.setVal a new
  let d2 := if stakeEqual new old then d1 else { d1 with stat := incrStat (decrStat d1.stat old) new }
  (d2, [.update a old new])

def applyVal (op : ValOp) (d : ValData) : Option ValRes :=
  match op with
  | .create a v =>
    match d.get a with
    | some _ => some (d, [])
    | none => let d1 := d.setVal a v; some ({ d1 with stat := incrStat d1.stat v }, [.create a])
  | .update a new =>
    match d.get a with
    | none => some (d, [])
    | some old => some (updateVal d a old new)
  | .remove a =>
    -- after the preceding Get the object is live; RemoveValidator does not look at `deleted`
    match d.vals a with
    | none => some (d, [])
    | some v => some ({ d with vals := upd d.vals a (some { v with deleted := true }), stat := decrStat d.stat v }, [.delete a v])
  | .addWithdraw r => some ({ d with queue := d.queue ++ [r] }, [.addWithdraw r])
  | .removeWithdraws idx =>
    if idx.all (· < d.queue.length) then some ({ d with queue := removeIdx d.queue idx }, [.delWithdraw d.queue])
    else none

/-- `Validator.UpdateDelegationFrom` on a copy of the list; returns the new list and whether the entry was deleted -/
def updateDelegList (l : List Deleg) (x : Deleg) : List Deleg × Bool :=
  let isEmpty := x.stake = 0 ∧ x.token = 0
  let rec ins : List Deleg → List Deleg
    | [] => [x]
    | y :: ys => if x.delegator < y.delegator then x :: y :: ys else if x.delegator = y.delegator then x :: ys else y :: ins ys
  if l.any (·.delegator = x.delegator) then
    if isEmpty then (l.filter (·.delegator ≠ x.delegator), true) else (ins l, false)
  else if isEmpty then (l, false) else (ins l, false)

/-- validator half of `StateDB.UpdateDelegation(d, val, tokenChanged)`; `none` = the early `Noop` returns.
Returns the new validator and the `delete` flag passed on to `UpdateDelegator`. -/
def delegationNewVal (v : Val) (dlg : Addr) (amt : Int) : Option (Val × Bool) :=
  if amt = 0 then none else
  let cur := v.delegs.find? (·.delegator = dlg)
  if cur.isNone && amt < 0 then none else
  let df := cur.getD { delegator := dlg, stake := 0, token := 0 }
  let token' := (Int.ofNat df.token + amt).toNat
  let stake' := token' / stakeUnit
  let (l, del) := updateDelegList v.delegs { delegator := dlg, stake := stake', token := token' }
  some ({ v with token := (Int.ofNat v.token + amt).toNat, stake := (Int.ofNat v.stake + (Int.ofNat stake' - Int.ofNat df.stake)).toNat, delegs := l }, del)

/-! ## The two journals as stacks -/

/-- pop `k` entries (newest first), undoing each -/
def popN {σ ε : Type} (undo : ε → σ → σ) : Nat → σ × List ε → σ × List ε
  | 0, c => c
  | _ + 1, (d, []) => (d, [])
  | k + 1, (d, e :: j) => popN undo k (undo e d, j)

/-- `journal.revert(statedb, snapshot)`: undo down to journal length `n` -/
def revertTo {σ ε : Type} (undo : ε → σ → σ) (n : Nat) (c : σ × List ε) : σ × List ε :=
  popN undo (c.2.length - n) c

/-- number of journal entries that dirtied `a` (= `journal.dirties[a]` without the RIPEMD extras) -/
def accDirtyCount (j : List AccEntry) (a : Addr) : Nat := (j.filter fun e => e.dirtied = some a).length
def valDirtyCount (j : List ValEntry) (a : Addr) : Nat := (j.filter fun e => e.dirtied = some a).length

/-! ## Whole StateDB -/

structure State where
  a : AccData := {}
  aj : List AccEntry := []
  v : ValData := {}
  vj : List ValEntry := []
  revs : List (Nat × Nat) := []       -- validRevisions, newest first: (id, journal length)
  valRevs : List (Nat × Nat) := []    -- valValidRevisions
  nextId : Nat := 0

def init : State := {}

inductive Op
  | acc (o : AccOp)
  | val (o : ValOp)
  | deleg (dlg val : Addr) (amt : Int)     -- UpdateDelegation(dlg, GetValidatorByMainAddr(val), amt)
  | prepare (thash : Hash) (txIndex : Nat)
  | snapshot
  | revert (id : Nat)
  | finalise (deleteEmpty : Bool)
  | root (deleteEmpty : Bool)              -- IntermediateRoot

/-- `journal.dirties[a]` of the account journal -/
def State.accDirty (s : State) (a : Addr) : Nat := accDirtyCount s.aj a + s.a.extra a
def State.valDirty (s : State) (a : Addr) : Nat := valDirtyCount s.vj a

/-- `sort.Search` for `id` in a revision list (ids ascending in Go = descending here): the entries above
`id` are dropped; the search succeeds when the next one carries exactly `id`.
Returns the journal length recorded for `id` and the list of OLDER revisions. -/
def findRev (id : Nat) : List (Nat × Nat) → Option (Nat × List (Nat × Nat))
  | [] => none
  | (i, n) :: rest => if i > id then findRev id rest else if i = id then some (n, rest) else none

/-- `RevertToSnapshot` (after the repair: each list is truncated at its own index) -/
def revertSnap (s : State) (id : Nat) : Option State :=
  match findRev id s.revs with
  | none => none
  | some (n, older) =>
    let (a', aj') := revertTo undoAcc n (s.a, s.aj)
    match findRev id s.valRevs with
    | none => none
    | some (m, valOlder) =>
      let (v', vj') := revertTo undoVal m (s.v, s.vj)
      some { s with a := a', aj := aj', v := v', vj := vj', revs := older, valRevs := valOlder }

/-- insert into an ascending duplicate-free list -/
def insertAsc (x : Addr) : List Addr → List Addr
  | [] => [x]
  | y :: ys => if x < y then x :: y :: ys else if x = y then y :: ys else y :: insertAsc x ys

/-- `Finalise` on one dirtied live object -/
def finaliseObj (del : Bool) (o : Obj) : Obj :=
  if o.suicided || (del && o.isEmpty) then { o with deleted := true } else { o with committed := o.storage }

/-- `Finalise`: account objects.  An address is hit when the journal dirtied it and a live object exists. -/
def finaliseAcc (del : Bool) (dirty : Addr → Nat) (d : AccData) : AccData :=
  { d with
    objs := fun a =>
      match d.objs a with
      | some o => if dirty a > 0 then some (finaliseObj del o) else some o
      | none => none
    pending := fun a => if dirty a > 0 then (d.objs a).isSome || d.pending a else d.pending a
    dirtyObjs := fun a => if dirty a > 0 then (d.objs a).isSome || d.dirtyObjs a else d.dirtyObjs a
    refund := 0
    extra := fun _ => 0 }

/-- `Finalise`: validators whose journal dirtied them and that are live become `validatorObjectsDirty` -/
def finaliseVal (j : List ValEntry) (d : ValData) : ValData :=
  { d with dirtyObjs := j.foldl (fun acc e =>
      match e.dirtied with
      | some a => if (d.vals a).isSome then insertAsc a acc else acc
      | none => acc) d.dirtyObjs }

/-- `Finalise` + `clearJournalAndRefund` (after the repair: both revision lists are reset) -/
def finalise (del : Bool) (s : State) : State :=
  { s with a := finaliseAcc del s.accDirty s.a, aj := [], v := finaliseVal s.vj s.v, vj := [], revs := [], valRevs := [] }

/-- `Validator.IsInvalid`: low 64 bits of token and stake are zero -/
def Val.isInvalid (v : Val) : Bool := v.token % U64 == 0 && v.stake % U64 == 0

def leafOf (o : Obj) : Leaf :=
  { nonce := o.nonce, balance := o.balance, code := o.code, storage := o.storage, dlgBalance := o.dlgBalance, dlgs := o.dlgs }

/-- `updateRoot` of a pending object -/
def flushObj (o : Obj) : Obj :=
  if o.deleted then o else { o with committed := o.storage, trieStorage := o.storage }

/-- `IntermediateRoot` after its `Finalise`: flush pending objects into the account trie -/
def flushAcc (d : AccData) : AccData :=
  { d with
    objs := fun a =>
      match d.objs a with
      | some o => if d.pending a then some (flushObj o) else some o
      | none => none
    trie := fun a =>
      if d.pending a then
        match d.objs a with
        | some o => if o.deleted then none else some (leafOf o)
        | none => d.trie a
      else d.trie a
    pending := fun _ => false }

def flushValOne (del : Bool) (d : ValData) (a : Addr) : ValData :=
  match d.vals a with
  | none => d
  | some v =>
    if v.deleted || (del && v.isInvalid) then
      -- deleteValidator
      { d with vals := upd d.vals a (some { v with deleted := true }), trieVals := upd d.trieVals a none,
               index := upd d.index a false, stat := decrStat d.stat v }
    else { d with trieVals := upd d.trieVals a (some v), index := upd d.index a true }

def flushVal (del : Bool) (d : ValData) : ValData :=
  let d1 := d.dirtyObjs.foldl (flushValOne del) d
  { d1 with dirtyObjs := [], trieIndex := d1.index, trieStat := d1.stat, trieQueue := d1.queue }

def intermediateRoot (del : Bool) (s : State) : State :=
  let s1 := finalise del s
  { s1 with a := flushAcc s1.a, v := flushVal del s1.v }

/-- one StateDB API call; `none` = the Go code panics -/
def step (s : State) : Op → Option State
  | .acc o =>
    match applyAcc o s.a with
    | none => none
    | some (d, es) => some { s with a := d, aj := es ++ s.aj }
  | .val o =>
    match applyVal o s.v with
    | none => none
    | some (d, es) => some { s with v := d, vj := es ++ s.vj }
  | .deleg dlg va amt =>
    match s.v.get va with
    | none => some s                       -- the harness does not call UpdateDelegation with a nil validator
    | some old =>
      match delegationNewVal old dlg amt with
      | none => some s
      | some (new, del) =>
        let (vd, ves) := updateVal s.v va old new
        let (ad, aes) := updateDelegator s.a dlg va amt del
        some { s with v := vd, vj := ves ++ s.vj, a := ad, aj := aes ++ s.aj }
  | .prepare h i => some { s with a := { s.a with thash := h, txIndex := i } }
  | .snapshot =>
    some { s with revs := (s.nextId, s.aj.length) :: s.revs, valRevs := (s.nextId, s.vj.length) :: s.valRevs,
                  nextId := s.nextId + 1 }
  | .revert id => revertSnap s id
  | .finalise del => some (finalise del s)
  | .root del => some (intermediateRoot del s)

def run (s : State) : List Op → Option State
  | [] => some s
  | op :: ops => match step s op with
    | some s' => run s' ops
    | none => none

/-- `Commit(true)` followed by `state.New` at the committed roots on the same database: the new StateDB sees
exactly what the tries hold; live objects (deleted ones included), logs, preimages, journals, revision lists and
the id counter are gone.  NOT an `Op`: the theorems quantify over states reachable from a fresh StateDB; the
driver uses this to continue a case on a reopened StateDB (objects then have a non-trivial trie/origin layer),
which is covered by correspondence and by the implementation-level oracle only. -/
def reopen (s : State) : State :=
  let s1 := intermediateRoot true s
  { a := { objs := fun a => (s1.a.trie a).map fun l =>
             { nonce := l.nonce, balance := l.balance, code := l.code, storage := l.storage, committed := l.storage,
               trieStorage := l.storage, dlgBalance := l.dlgBalance, dlgs := l.dlgs }
           trie := s1.a.trie }
    v := { vals := s1.v.trieVals, index := s1.v.trieIndex, stat := s1.v.trieStat, queue := s1.v.trieQueue,
           trieVals := s1.v.trieVals, trieIndex := s1.v.trieIndex, trieStat := s1.v.trieStat, trieQueue := s1.v.trieQueue } }

/-- ids of the snapshots that may be reverted to -/
def State.liveIds (s : State) : List Nat := s.revs.map (·.1)

/-! ## The code before the repair (F-C09a), kept to state what was wrong -/

/-- `clearJournalAndRefund` before the repair: `valValidRevisions` was not reset -/
def finaliseLegacy (del : Bool) (s : State) : State :=
  { finalise del s with valRevs := s.valRevs }

/-- `RevertToSnapshot` before the repair: both lists were cut at the account list's index, i.e. the
validator list kept as many of its OLDEST entries as the account list kept -/
def revertSnapLegacy (s : State) (id : Nat) : Option State :=
  match revertSnap s id with
  | none => none
  | some s' => some { s' with valRevs := s.valRevs.drop (s.valRevs.length - s'.revs.length) }

def stepLegacy (s : State) : Op → Option State
  | .revert id => revertSnapLegacy s id
  | .finalise del => some (finaliseLegacy del s)
  | .root del => let s1 := finaliseLegacy del s; some { s1 with a := flushAcc s1.a, v := flushVal del s1.v }
  | op => step s op

def runLegacy (s : State) : List Op → Option State
  | [] => some s
  | op :: ops => match stepLegacy s op with
    | some s' => runLegacy s' ops
    | none => none

end YouVerif.C09
