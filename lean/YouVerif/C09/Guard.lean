/-
C09: executable version of the guards the theorems assume about each API call (`OpOK` in ProofsMain.lean).
Core Lean only: the driver evaluates it on every op it executes, so the harness can report how many of the
compared ops lie inside the theorems' hypotheses.
-/
import YouVerif.C09.Model
namespace YouVerif.C09

def KS.coversB (k : KS) (v : Val) : Bool :=
  if v.status = 1 then decide (v.stake ≤ k.onStake) && decide (v.token ≤ k.onToken)
  else decide (v.stake ≤ k.offStake) && decide (v.token ≤ k.offToken)

def coversB (s : Stat) (v : Val) : Bool :=
  (s (roleBucket v.role)).coversB v && (s (kindBucket v.role)).coversB v && (s 0).coversB v

def opOKB (s : State) : Op → Bool
  | .acc (.addBalance a amt) => !(a == ripemd && amt == 0)
  | .acc _ => true
  | .val (.create a _) =>
    match s.v.get a with
    | some _ => true
    | none => (s.v.vals a).isNone
  | .val (.update a new) =>
    match s.v.get a with
    | none => true
    | some old => stakeEqual new old || coversB s.v.stat old
  | .val (.remove a) =>
    match s.v.vals a with
    | none => true
    | some v => !v.deleted && coversB s.v.stat v
  | .val _ => true
  | .deleg dlg va amt =>
    match s.v.get va with
    | none => true
    | some old =>
      match delegationNewVal old dlg amt with
      | none => true
      | some (new, _) => stakeEqual new old || coversB s.v.stat old
  | .prepare _ _ => s.revs.isEmpty
  | _ => true

def guardedB : State → List Op → Bool
  | _, [] => true
  | s, op :: ops => opOKB s op && match step s op with
    | some s' => guardedB s' ops
    | none => true

end YouVerif.C09
