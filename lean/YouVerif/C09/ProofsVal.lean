/-
C09 helper lemmas, part 3: every validator-side mutation is undone exactly by the journal entries it appends
(under the guard that the statistics cover what is subtracted: the Go subtraction is guarded by `Cmp >= 0`).
-/
import YouVerif.C09.ProofsStack
namespace YouVerif.C09

/-! ### statistics -/

/-- the uint64 counters are in range -/
def KS.WF (k : KS) : Prop := k.onCount < U64 ∧ k.offCount < U64
def StatWF (s : Stat) : Prop := ∀ b, (s b).WF

/-- the bucket holds at least the validator's stake and token on the side its status selects, so that the
guarded subtraction (`subStake`: only when `Cmp >= 0`) really subtracts -/
def KS.covers (k : KS) (v : Val) : Prop :=
  if v.status = 1 then v.stake ≤ k.onStake ∧ v.token ≤ k.onToken else v.stake ≤ k.offStake ∧ v.token ≤ k.offToken

def Covers (s : Stat) (v : Val) : Prop :=
  (s (roleBucket v.role)).covers v ∧ (s (kindBucket v.role)).covers v ∧ (s 0).covers v

theorem U64_pos : 0 < U64 := by unfold U64; exact Nat.pos_of_ne_zero (by decide)

theorem KS.addVal_WF {k : KS} (hk : k.WF) (v : Val) : (k.addVal v).WF := by
  unfold KS.addVal KS.WF
  split
  · exact ⟨Nat.mod_lt _ U64_pos, hk.2⟩
  · exact ⟨hk.1, Nat.mod_lt _ U64_pos⟩

theorem KS.subVal_WF {k : KS} (hk : k.WF) (v : Val) : (k.subVal v).WF := by
  unfold KS.subVal KS.WF
  split
  · exact ⟨Nat.mod_lt _ U64_pos, hk.2⟩
  · exact ⟨hk.1, Nat.mod_lt _ U64_pos⟩

theorem wrap_inc_dec {c : Nat} (h : c < U64) : ((c + 1) % U64 + U64 - 1) % U64 = c := by
  by_cases hc : c + 1 = U64
  · have e1 : (c + 1) % U64 = 0 := by rw [hc]; exact Nat.mod_self _
    rw [e1]
    have e2 : 0 + U64 - 1 = c := by omega
    rw [e2]; exact Nat.mod_eq_of_lt h
  · have e1 : (c + 1) % U64 = c + 1 := Nat.mod_eq_of_lt (by omega)
    rw [e1]
    have e2 : c + 1 + U64 - 1 = c + U64 := by omega
    rw [e2, Nat.add_mod_right]; exact Nat.mod_eq_of_lt h

theorem wrap_dec_inc {c : Nat} (h : c < U64) : ((c + U64 - 1) % U64 + 1) % U64 = c := by
  have hp := U64_pos
  by_cases hc : c = 0
  · subst hc
    have e0 : 0 + U64 - 1 = U64 - 1 := by omega
    have e1 : (U64 - 1) % U64 = U64 - 1 := Nat.mod_eq_of_lt (by omega)
    rw [e0, e1]
    have e2 : U64 - 1 + 1 = U64 := by omega
    rw [e2]; exact Nat.mod_self _
  · have e0 : c + U64 - 1 = (c - 1) + U64 := by omega
    rw [e0, Nat.add_mod_right]
    have e1 : (c - 1) % U64 = c - 1 := Nat.mod_eq_of_lt (by omega)
    rw [e1]
    have e2 : c - 1 + 1 = c := by omega
    rw [e2]; exact Nat.mod_eq_of_lt h

theorem satSub_add (a b : Nat) : satSub (a + b) b = a := by
  unfold satSub; rw [if_pos (Nat.le_add_left _ _)]; omega

theorem add_satSub {a b : Nat} (h : b ≤ a) : satSub a b + b = a := by
  unfold satSub; rw [if_pos h]; omega

/-- adding a validator and taking it out again -/
theorem KS.sub_add {k : KS} (hk : k.WF) (v : Val) : (k.addVal v).subVal v = k := by
  unfold KS.addVal KS.subVal
  by_cases hs : v.status = 1
  · simp only [hs, if_true, satSub_add, wrap_inc_dec hk.1]
  · simp only [hs, if_false, satSub_add, wrap_inc_dec hk.2]

/-- taking a covered validator out and adding it again -/
theorem KS.add_sub {k : KS} (hk : k.WF) {v : Val} (hc : k.covers v) : (k.subVal v).addVal v = k := by
  unfold KS.covers at hc
  unfold KS.addVal KS.subVal
  by_cases hs : v.status = 1
  · simp only [hs, if_true] at hc ⊢
    simp only [add_satSub hc.1, add_satSub hc.2, wrap_dec_inc hk.1]
  · simp only [hs, if_false] at hc ⊢
    simp only [add_satSub hc.1, add_satSub hc.2, wrap_dec_inc hk.2]

theorem buckets_distinct (r : Nat) : roleBucket r ≠ kindBucket r ∧ roleBucket r ≠ 0 ∧ kindBucket r ≠ 0 := by
  unfold roleBucket kindBucket; split <;> omega

/-- `incrStat` touches exactly the role, kind and global bucket, each once -/
theorem incrStat_apply (s : Stat) (v : Val) (i : Nat) :
    incrStat s v i = if i = roleBucket v.role ∨ i = kindBucket v.role ∨ i = 0 then (s i).addVal v else s i := rfl

theorem decrStat_apply (s : Stat) (v : Val) (i : Nat) :
    decrStat s v i = if i = roleBucket v.role ∨ i = kindBucket v.role ∨ i = 0 then (s i).subVal v else s i := rfl

/-- the pointwise form equals the three sequential bucket updates of the Go code -/
theorem incrStat_eq_seq (s : Stat) (v : Val) : incrStat s v = incrStatSeq s v := by
  obtain ⟨h1, h2, h3⟩ := buckets_distinct v.role
  funext i
  simp only [incrStat, incrStatSeq, upd]
  by_cases a : i = 0
  · subst a; simp [Ne.symm h2, Ne.symm h3]
  · by_cases b : i = kindBucket v.role
    · subst b; simp [a, Ne.symm h1]
    · by_cases c : i = roleBucket v.role
      · subst c; simp [a, b]
      · simp [a, b, c]

theorem decrStat_eq_seq (s : Stat) (v : Val) : decrStat s v = decrStatSeq s v := by
  obtain ⟨h1, h2, h3⟩ := buckets_distinct v.role
  funext i
  simp only [decrStat, decrStatSeq, upd]
  by_cases a : i = 0
  · subst a; simp [Ne.symm h2, Ne.symm h3]
  · by_cases b : i = kindBucket v.role
    · subst b; simp [a, Ne.symm h1]
    · by_cases c : i = roleBucket v.role
      · subst c; simp [a, b]
      · simp [a, b, c]

theorem incrStat_WF {s : Stat} (h : StatWF s) (v : Val) : StatWF (incrStat s v) := by
  intro b; rw [incrStat_apply]; split
  · exact KS.addVal_WF (h b) v
  · exact h b

theorem decrStat_WF {s : Stat} (h : StatWF s) (v : Val) : StatWF (decrStat s v) := by
  intro b; rw [decrStat_apply]; split
  · exact KS.subVal_WF (h b) v
  · exact h b

theorem decr_incr {s : Stat} (h : StatWF s) (v : Val) : decrStat (incrStat s v) v = s := by
  funext i; rw [decrStat_apply, incrStat_apply]; split
  · exact KS.sub_add (h i) v
  · rfl

theorem incr_decr {s : Stat} (h : StatWF s) {v : Val} (hc : Covers s v) : incrStat (decrStat s v) v = s := by
  funext i; rw [incrStat_apply, decrStat_apply]; split
  · rename_i hi
    refine KS.add_sub (h i) ?_
    rcases hi with rfl | rfl | rfl
    · exact hc.1
    · exact hc.2.1
    · exact hc.2.2
  · rfl

/-! ### data invariant of the validator side -/

structure ValInv (d : ValData) : Prop where
  /-- a live, not deleted validator is in the in-memory index -/
  idx : ∀ a v, d.vals a = some v → v.deleted = false → d.index a = true
  /-- an address without validator object is not in the index -/
  none : ∀ a, d.vals a = none → d.index a = false
  stat : StatWF d.stat

theorem ValData.get_some {d : ValData} {a : Addr} {v : Val} (h : d.get a = some v) :
    d.vals a = some v ∧ v.deleted = false := by
  unfold ValData.get at h
  split at h
  · rename_i v' hv'
    split at h
    · simp at h
    · simp only [Option.some.injEq] at h; subst h; exact ⟨hv', by simp_all⟩
  · simp at h

theorem ValInv.setVal {d : ValData} (h : ValInv d) (a : Addr) (v : Val) : ValInv (d.setVal a v) := by
  refine ⟨fun x w hw hd => ?_, fun x hx => ?_, h.stat⟩
  · simp only [ValData.setVal, upd] at hw ⊢
    split
    · rfl
    · rename_i hne; simp only [hne, if_false] at hw; exact h.idx x w hw hd
  · simp only [ValData.setVal, upd] at hx ⊢
    split at hx
    · simp at hx
    · rename_i hne; simp only [hne, if_false]; exact h.none x hx

theorem ValInv.withStat {d : ValData} (h : ValInv d) {s : Stat} (hs : StatWF s) : ValInv { d with stat := s } :=
  ⟨h.idx, h.none, hs⟩

/-! ### the withdraw queue -/

theorem lastMatch_append_self (r : WRec) (q : List WRec) : lastMatch r (q ++ [r]) = some q.length := by
  induction q with
  | nil => simp [lastMatch]
  | cons x q ih => simp only [List.cons_append, lastMatch, ih, List.length_cons]

theorem eraseIdx_append_last (r : WRec) (q : List WRec) : (q ++ [r]).eraseIdx q.length = q := by
  induction q with
  | nil => rfl
  | cons x q ih => simp only [List.cons_append, List.length_cons, List.eraseIdx_cons_succ, ih]

/-! ### the mutations -/

/-- guard of a validator-side mutation in data `d` -/
def ValOpOK (d : ValData) : ValOp → Prop
  | .create a _ => d.get a = none → d.vals a = none
  | .update a new => ∀ old, d.get a = some old → stakeEqual new old = true ∨ Covers d.stat old
  | .remove a => ∀ v, d.vals a = some v → v.deleted = false ∧ Covers d.stat v
  | _ => True

theorem updateVal_undo {d : ValData} (hI : ValInv d) {a : Addr} {old new : Val} (hget : d.get a = some old)
    (hok : stakeEqual new old = true ∨ Covers d.stat old) :
    undoAll undoVal (updateVal d a old new).2 (updateVal d a old new).1 = d := by
  obtain ⟨h1, h2⟩ := ValData.get_some hget
  have hidx := hI.idx a old h1 h2
  simp only [updateVal, undoAll, undoVal]
  by_cases he : stakeEqual new old = true
  · simp only [he, if_true, ValData.setVal, upd_upd]
    cases d; simp only [ValData.mk.injEq] at *
    simp only [true_and, and_true]
    exact ⟨by rw [← h1]; exact upd_self _ _, by rw [← hidx]; exact upd_self _ _⟩
  · have hc : Covers d.stat old := by rcases hok with h | h; exact absurd h he; exact h
    simp only [he, if_false, Bool.false_eq_true, ValData.setVal, upd_upd]
    have hs : incrStat (decrStat (incrStat (decrStat d.stat old) new) new) old = d.stat := by
      rw [decr_incr (decrStat_WF hI.stat old) new, incr_decr hI.stat hc]
    cases d; simp only [ValData.mk.injEq] at *
    simp only [true_and, and_true]
    exact ⟨by rw [← h1]; exact upd_self _ _, by rw [← hidx]; exact upd_self _ _, hs⟩

theorem updateVal_inv {d : ValData} (hI : ValInv d) (a : Addr) (old new : Val) : ValInv (updateVal d a old new).1 := by
  simp only [updateVal]
  split
  · exact hI.setVal a new
  · exact (hI.setVal a new).withStat (incrStat_WF (decrStat_WF hI.stat old) new)

/-- **every validator-side mutation is undone exactly by the entries it journals** -/
theorem applyVal_undo {d d' : ValData} {es : List ValEntry} (op : ValOp) (hI : ValInv d) (hok : ValOpOK d op)
    (h : applyVal op d = some (d', es)) : undoAll undoVal es d' = d := by
  cases op with
  | create a v =>
    simp only [applyVal] at h
    split at h
    · simp only [Option.some.injEq, Prod.mk.injEq] at h; obtain ⟨rfl, rfl⟩ := h; rfl
    · rename_i hn
      have hv : d.vals a = none := hok hn
      have hi := hI.none a hv
      simp only [Option.some.injEq, Prod.mk.injEq] at h; obtain ⟨rfl, rfl⟩ := h
      simp only [undoAll, undoVal, ValData.setVal, upd_same, upd_upd, decr_incr hI.stat v]
      cases d; simp only [ValData.mk.injEq] at *
      simp only [and_true]
      exact ⟨by rw [← hv]; exact upd_self _ _, by rw [← hi]; exact upd_self _ _⟩
  | update a new =>
    simp only [applyVal] at h
    split at h
    · simp only [Option.some.injEq, Prod.mk.injEq] at h; obtain ⟨rfl, rfl⟩ := h; rfl
    · rename_i old hget
      simp only [Option.some.injEq] at h
      have := updateVal_undo hI (new := new) hget (hok old hget)
      rw [h] at this; exact this
  | remove a =>
    simp only [applyVal] at h
    split at h
    · simp only [Option.some.injEq, Prod.mk.injEq] at h; obtain ⟨rfl, rfl⟩ := h; rfl
    · rename_i v hv
      obtain ⟨hd, hc⟩ := hok v hv
      have hidx := hI.idx a v hv hd
      simp only [Option.some.injEq, Prod.mk.injEq] at h; obtain ⟨rfl, rfl⟩ := h
      simp only [undoAll, undoVal, ValData.setVal, upd_upd, incr_decr hI.stat hc]
      cases d; simp only [ValData.mk.injEq] at *
      simp only [and_true]
      exact ⟨by rw [← hv]; exact upd_self _ _, by rw [← hidx]; exact upd_self _ _⟩
  | addWithdraw r =>
    simp only [applyVal, Option.some.injEq, Prod.mk.injEq] at h; obtain ⟨rfl, rfl⟩ := h
    simp only [undoAll, undoVal, lastMatch_append_self, eraseIdx_append_last, List.length_append, List.length_cons,
      List.length_nil, Nat.zero_add, Nat.lt_add_one_of_le (Nat.zero_le _), if_true]
  | removeWithdraws idx =>
    simp only [applyVal] at h
    split at h
    · simp only [Option.some.injEq, Prod.mk.injEq] at h; obtain ⟨rfl, rfl⟩ := h; rfl
    · simp at h

theorem applyVal_inv {d d' : ValData} {es : List ValEntry} (op : ValOp) (hI : ValInv d)
    (h : applyVal op d = some (d', es)) : ValInv d' := by
  cases op with
  | create a v =>
    simp only [applyVal] at h
    split at h
    · simp only [Option.some.injEq, Prod.mk.injEq] at h; obtain ⟨rfl, rfl⟩ := h; exact hI
    · simp only [Option.some.injEq, Prod.mk.injEq] at h; obtain ⟨rfl, rfl⟩ := h
      exact (hI.setVal a v).withStat (incrStat_WF hI.stat v)
  | update a new =>
    simp only [applyVal] at h
    split at h
    · simp only [Option.some.injEq, Prod.mk.injEq] at h; obtain ⟨rfl, rfl⟩ := h; exact hI
    · rename_i old hget
      simp only [Option.some.injEq] at h
      have := updateVal_inv hI a old new
      rw [h] at this; exact this
  | remove a =>
    simp only [applyVal] at h
    split at h
    · simp only [Option.some.injEq, Prod.mk.injEq] at h; obtain ⟨rfl, rfl⟩ := h; exact hI
    · rename_i v hv
      simp only [Option.some.injEq, Prod.mk.injEq] at h; obtain ⟨rfl, rfl⟩ := h
      refine ⟨fun x w hw hd => ?_, fun x hx => ?_, decrStat_WF hI.stat v⟩
      · simp only [upd] at hw
        split at hw
        · simp only [Option.some.injEq] at hw; subst hw; simp at hd
        · exact hI.idx x w hw hd
      · simp only [upd] at hx
        split at hx
        · simp at hx
        · exact hI.none x hx
  | addWithdraw r =>
    simp only [applyVal, Option.some.injEq, Prod.mk.injEq] at h; obtain ⟨rfl, rfl⟩ := h
    exact ⟨hI.idx, hI.none, hI.stat⟩
  | removeWithdraws idx =>
    simp only [applyVal] at h
    split at h
    · simp only [Option.some.injEq, Prod.mk.injEq] at h; obtain ⟨rfl, rfl⟩ := h
      exact ⟨hI.idx, hI.none, hI.stat⟩
    · simp at h

end YouVerif.C09
