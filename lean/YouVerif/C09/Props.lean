/-
C09 — property theorems (only).  "Reverting to a state snapshot restores exactly the snapshotted state."
All statements are about the model in YouVerif/C09/Model.lean (tied to /repo by the correspondence harness).
-/
import YouVerif.C09.Model
namespace YouVerif.C09.Props
open YouVerif.C09

/-- F-C09a witness: tx1 `Snapshot; Finalise`, tx2 `Snapshot a; Snapshot b; Revert b; Revert a`. -/
def nestedAfterFinalise : List Op := [.snapshot, .finalise true, .snapshot, .snapshot, .revert 2, .revert 1]

/-- On the code BEFORE the repair the witness panics (`revision id 1 cannot be reverted`) … -/
theorem legacy_nested_revert_after_finalise_crashes : (runLegacy init nestedAfterFinalise).isNone = true := by decide

/-- … on the repaired code it does not. -/
theorem nested_revert_after_finalise_ok : (run init nestedAfterFinalise).isSome = true := by decide

end YouVerif.C09.Props
