/-
C09 — property theorems (only).
"After any sequence of state modifications, reverting to an earlier snapshot makes every observable of the
state equal to what it was when the snapshot was taken, for arbitrarily nested snapshots and for snapshots
taken in any transaction of a block.  Reverting a valid snapshot never fails."

All statements are about the executable model of `core/state.StateDB` in YouVerif/C09/Model.lean (two
journals, two revision lists, Finalise, IntermediateRoot), which the correspondence harness go/cmd/c09 compares
with the real StateDB after every operation.  Vocabulary:
  `run s ops = some s'`  the API calls `ops` executed from `s` without a Go panic
  `Guarded s ops`        every call meets its guard `OpOK` (ProofsMain.lean) in the state it is made in:
                           - no zero-value AddBalance to the RIPEMD address 0x03 (known finding F-C09e),
                           - CreateValidator not over a live object flagged deleted,
                           - UpdateValidator / RemoveValidator / UpdateDelegation only when the statistics hold at
                             least the stake and token they subtract (Go subtracts only when `Cmp >= 0`),
                           - `Prepare` only between transactions (it is not journalled, by design)
  `snapshotOf s`         the state after `Snapshot()`; the id it returns is `s.nextId`
  `s.liveIds`            ids in `validRevisions`
The conclusions are equalities of the WHOLE account-side data `State.a` (objects with balance, nonce, code,
all three storage layers, self-destruct/deleted flags, delegation data; refund; logs; preimages; pending and
dirty sets; account-trie content) and validator-side data `State.v` (validators with all modelled fields,
index, statistics, withdraw queue, dirty set, validator-trie content), and of both journals and revision lists.
-/
import YouVerif.C09.ProofsGuard
namespace YouVerif.C09.Props
open YouVerif.C09

/-- states reachable from a fresh StateDB by guarded API calls (any number of transactions, any nesting) -/
def Reachable (s : State) : Prop := ∃ ops, Guarded init ops ∧ run init ops = some s

theorem reachable_inv {s : State} (h : Reachable s) : ∃ ga gv, Inv s ga gv := by
  obtain ⟨ops, hg, hr⟩ := h
  obtain ⟨ga, gv, hI, _⟩ := run_inv init_inv hg hr
  exact ⟨ga, gv, hI⟩

/-- **Revert restores.**  Take a snapshot in any reachable state `s₀` (any transaction of a block, any call
depth), run any guarded calls — mutations of both kinds, further snapshots, reverts of inner snapshots —
and, provided the id is still live, revert to it: the revert succeeds and the account data, the validator
data, both journals and both revision lists are exactly those of `s₀`. -/
theorem revert_restores {s₀ s₂ : State} {ops : List Op} (h₀ : Reachable s₀)
    (hg : Guarded (snapshotOf s₀) ops) (hr : run (snapshotOf s₀) ops = some s₂) (hlive : s₀.nextId ∈ s₂.liveIds) :
    ∃ s₃, step s₂ (.revert s₀.nextId) = some s₃ ∧ s₃.a = s₀.a ∧ s₃.aj = s₀.aj ∧ s₃.v = s₀.v ∧ s₃.vj = s₀.vj ∧
      s₃.revs = s₀.revs ∧ s₃.valRevs = s₀.valRevs := by
  obtain ⟨ga, gv, hI⟩ := reachable_inv h₀
  exact revert_of_inv hI hg hr hlive

/-- **Resulting roots.**  Whatever is computed from the reverted state afterwards equals what would have been
computed from the snapshotted state: in particular the trie contents `IntermediateRoot` produces (the roots
are hashes of these), for either value of `deleteEmptyObjects`, and any other observable `f`. -/
theorem revert_restores_roots {s₀ s₂ : State} {ops : List Op} (h₀ : Reachable s₀)
    (hg : Guarded (snapshotOf s₀) ops) (hr : run (snapshotOf s₀) ops = some s₂) (hlive : s₀.nextId ∈ s₂.liveIds) :
    ∃ s₃, step s₂ (.revert s₀.nextId) = some s₃ ∧
      (∀ del, (intermediateRoot del s₃).a = (intermediateRoot del s₀).a ∧ (intermediateRoot del s₃).v = (intermediateRoot del s₀).v) ∧
      (∀ {β : Type} (f : AccData → List AccEntry → ValData → List ValEntry → β), f s₃.a s₃.aj s₃.v s₃.vj = f s₀.a s₀.aj s₀.v s₀.vj) := by
  obtain ⟨s₃, hs, ha, haj, hv, hvj, _, _⟩ := revert_restores h₀ hg hr hlive
  refine ⟨s₃, hs, fun del => ?_, fun f => by rw [ha, haj, hv, hvj]⟩
  have hd : s₃.accDirty = s₀.accDirty := by funext a; simp only [State.accDirty, ha, haj]
  simp only [intermediateRoot, finalise, hd, ha, hv, hvj, and_self]

/-- **Reverting a valid snapshot never fails**: in every reachable state, for every id in `validRevisions`,
`RevertToSnapshot(id)` does not panic. -/
theorem revert_never_fails {s : State} (h : Reachable s) {id : Nat} (hid : id ∈ s.liveIds) :
    (step s (.revert id)).isSome = true := by
  obtain ⟨ga, gv, hI⟩ := reachable_inv h
  exact revert_isSome_of_inv hI hid

/-- **Nesting.**  Outer snapshot in `s₀`, calls `ops₁`, inner snapshot in `s₁`, calls `ops₂` reaching `s₂`, both
ids still live.  Then (a) reverting the inner one restores `s₁`, after which reverting the outer one restores
`s₀`; and (b) reverting the outer one directly (the inner frame returned normally) restores `s₀` as well. -/
theorem nested {s₀ s₁ s₂ : State} {ops₁ ops₂ : List Op} (h₀ : Reachable s₀)
    (g₁ : Guarded (snapshotOf s₀) ops₁) (r₁ : run (snapshotOf s₀) ops₁ = some s₁)
    (g₂ : Guarded (snapshotOf s₁) ops₂) (r₂ : run (snapshotOf s₁) ops₂ = some s₂)
    (houter : s₀.nextId ∈ s₂.liveIds) (hinner : s₁.nextId ∈ s₂.liveIds) :
    (∃ s₃ s₄, step s₂ (.revert s₁.nextId) = some s₃ ∧ s₃.a = s₁.a ∧ s₃.v = s₁.v ∧
        step s₃ (.revert s₀.nextId) = some s₄ ∧ s₄.a = s₀.a ∧ s₄.v = s₀.v) ∧
    (∃ s₄, step s₂ (.revert s₀.nextId) = some s₄ ∧ s₄.a = s₀.a ∧ s₄.v = s₀.v) := by
  obtain ⟨ga, gv, hI⟩ := reachable_inv h₀
  obtain ⟨ga₁, gv₁, hI₁, _, _, hle⟩ := run_inv (snapshot_inv hI) g₁ r₁
  have hle' : s₀.nextId + 1 ≤ s₁.nextId := hle
  -- the whole trace from the outer snapshot to s₂
  have gsnap : Guarded s₁ (.snapshot :: ops₂) :=
    ⟨trivial, fun s' hs' => by rw [step_snapshot] at hs'; simp only [Option.some.injEq] at hs'; subst hs'; exact g₂⟩
  have rsnap : run s₁ (.snapshot :: ops₂) = some s₂ := by simp only [run, step_snapshot]; exact r₂
  have gall : Guarded (snapshotOf s₀) (ops₁ ++ .snapshot :: ops₂) := Guarded.append r₁ g₁ gsnap
  have rall : run (snapshotOf s₀) (ops₁ ++ .snapshot :: ops₂) = some s₂ := by rw [run_append r₁]; exact rsnap
  refine ⟨?_, ?_⟩
  · obtain ⟨s₃, hs₃, ha, haj, hv, hvj, hrevs, hvrevs⟩ := revert_of_inv hI₁ g₂ r₂ hinner
    -- the outer id was live in s₁, hence is live in s₃
    have hlive₁ : s₀.nextId ∈ s₁.liveIds := by
      have := live_mono (snapshot_inv hI₁) g₂ r₂ houter (by show s₀.nextId < s₁.nextId + 1; omega)
      simp only [State.liveIds, snapshotOf, List.map_cons, List.mem_cons] at this
      rcases this with h | h
      · omega
      · exact h
    have hlive₃ : s₀.nextId ∈ s₃.liveIds := by simp only [State.liveIds, hrevs]; exact hlive₁
    have grev : Guarded s₂ [.revert s₁.nextId] := ⟨trivial, fun _ _ => trivial⟩
    have rrev : run s₂ [.revert s₁.nextId] = some s₃ := by simp only [run, hs₃]
    obtain ⟨s₄, hs₄, ha₄, _, hv₄, _⟩ :=
      revert_of_inv hI (Guarded.append rall gall grev) (by rw [run_append rall]; exact rrev) hlive₃
    exact ⟨s₃, s₄, hs₃, ha, hv, hs₄, ha₄, hv₄⟩
  · obtain ⟨s₄, hs₄, ha₄, _, hv₄, _⟩ := revert_of_inv hI gall rall houter
    exact ⟨s₄, hs₄, ha₄, hv₄⟩

/-! ### The defect that was repaired (F-C09a) -/

/-- witness: tx1 `Snapshot; Finalise`, tx2 `Snapshot a; Snapshot b; Revert b; Revert a` -/
def nestedAfterFinalise : List Op := [.snapshot, .finalise true, .snapshot, .snapshot, .revert 2, .revert 1]

/-- On the code BEFORE the repair (`finaliseLegacy`, `revertSnapLegacy`: `valValidRevisions` not reset, both
lists cut at the account list's index) the witness panics `revision id 1 cannot be reverted`, although id 1
is in `validRevisions`: `revert_never_fails` was false of that code. -/
theorem legacy_nested_revert_after_finalise_crashes : (runLegacy init nestedAfterFinalise).isNone = true := by decide

theorem nested_revert_after_finalise_ok : (run init nestedAfterFinalise).isSome = true := by decide

/-! ### The guard that cannot be dropped (open finding F-C09e) -/

/-- an empty account at the RIPEMD address exists (created with `deleteEmptyObjects = false`); a snapshot is
taken, the address is touched by a zero-value `AddBalance`, the snapshot is reverted -/
def ripemdTouch : List Op :=
  [.acc (.setNonce ripemd 0), .root false, .snapshot, .acc (.addBalance ripemd 0), .revert 0]
def ripemdNoTouch : List Op := [.acc (.setNonce ripemd 0), .root false, .snapshot, .revert 0]

/-- The dirty counter of the address survives the revert (`journal.dirty` has no journal entry), so the next
`Finalise(true)` deletes the account although the touch was reverted; without the touch it stays. -/
theorem ripemd_touch_survives_revert :
    ((run init ripemdTouch).map fun s => (s.accDirty ripemd, ((finalise true s).a.objs ripemd).map (·.deleted))) = some (1, some true) ∧
    ((run init ripemdNoTouch).map fun s => (s.accDirty ripemd, ((finalise true s).a.objs ripemd).map (·.deleted))) = some (0, some false) := by
  decide

/-! ### The hypotheses are satisfiable (tests on literals, not theorems) -/

/-- a two-transaction trace with validators, accounts, a withdraw record, a delegation and nested snapshots -/
def sampleTrace : List Op :=
  [ .val (.create 1000 { role := 1, status := 1, token := 50, stake := 50, selfToken := 50, selfStake := 50, misc := 1000 }),
    .acc (.addBalance 256 7), .snapshot, .finalise true,
    .prepare 1 1, .snapshot,                                            -- id 1 (outer, second transaction)
    .acc (.setState 256 1 9), .val (.update 1000 { role := 2, status := 0, token := 40, stake := 40, selfToken := 50, selfStake := 50, misc := 1001 }),
    .snapshot,                                                          -- id 2 (inner)
    .val (.remove 1000), .val (.addWithdraw ⟨256, 0, 5⟩), .acc (.suicide 256), .deleg 256 1000 5,
    .revert 2, .val (.removeWithdraws []), .acc (.addLog 3) ]

example : guardedB init sampleTrace = true := by decide
example : ((run init sampleTrace).map (·.liveIds)) = some [1] := by decide
/-- the guarded prefix reaches a state; `revert_restores`/`nested` apply to it (id 1 is live at the end) -/
example : ∃ s, Reachable s ∧ 1 ∈ s.liveIds := by
  have hg : Guarded init sampleTrace := guardedB_sound (by decide)
  have hs : (run init sampleTrace).isSome = true := by decide
  obtain ⟨s, hs'⟩ := Option.isSome_iff_exists.1 hs
  refine ⟨s, ⟨sampleTrace, hg, hs'⟩, ?_⟩
  have : ((run init sampleTrace).map (·.liveIds)) = some [1] := by decide
  rw [hs'] at this; simp only [Option.map_some, Option.some.injEq] at this; rw [this]; simp

end YouVerif.C09.Props
