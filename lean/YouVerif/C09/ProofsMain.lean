/-
C09 helper lemmas, part 4: the global invariant.  Every live snapshot id has a ghost copy of both
components taken when the snapshot was made, and both revision lists are sound for the current components.
-/
import YouVerif.C09.ProofsAcc
import YouVerif.C09.ProofsVal
namespace YouVerif.C09

abbrev AG := Ghost AccData AccEntry
abbrev VG := Ghost ValData ValEntry

structure Inv (s : State) (ga : List AG) (gv : List VG) : Prop where
  acc : AccInv s.a
  val : ValInv s.v
  ra : RevOK undoAcc AccInv (s.a, s.aj) s.nextId s.revs ga
  rv : RevOK undoVal ValInv (s.v, s.vj) s.nextId s.valRevs gv
  ids : s.revs.map (·.1) = s.valRevs.map (·.1)

/-- guard of one API call in state `s` (what the theorems assume about the caller) -/
def OpOK (s : State) : Op → Prop
  | .acc o => AccOpOK o
  | .val o => ValOpOK s.v o
  | .deleg dlg va amt => ∀ old new del, s.v.get va = some old → delegationNewVal old dlg amt = some (new, del) →
      stakeEqual new old = true ∨ Covers s.v.stat old
  | .prepare _ _ => s.revs = []      -- `Prepare` is not journalled: it is called between transactions
  | _ => True

theorem init_inv : Inv init [] [] :=
  ⟨fun _ _ => rfl, ⟨fun _ _ h => by simp [init] at h, fun _ _ => rfl, fun _ => ⟨U64_pos, U64_pos⟩⟩, .nil _ _, .nil _ _, rfl⟩

theorem findRev_mem {id : Nat} {revs : List (Nat × Nat)} {n o} (h : findRev id revs = some (n, o)) :
    id ∈ revs.map (·.1) := by
  induction revs with
  | nil => simp [findRev] at h
  | cons x r ih =>
    obtain ⟨i, m⟩ := x
    simp only [findRev] at h
    split at h
    · exact List.mem_cons_of_mem _ (ih h)
    · split at h
      · rename_i he; simp [he]
      · simp at h

/-! ### Finalise and IntermediateRoot keep the data invariants -/

theorem finaliseAcc_inv {d : AccData} (h : AccInv d) (del : Bool) (dirty : Addr → Nat) : AccInv (finaliseAcc del dirty d) := by
  intro a ha
  simp only [finaliseAcc] at ha ⊢
  have hn : d.objs a = none := by
    split at ha
    · split at ha <;> simp at ha
    · assumption
  simp only [hn, Option.isSome_none, Bool.false_or, h a hn, ite_self]

theorem flushAcc_inv {d : AccData} (h : AccInv d) : AccInv (flushAcc d) := by
  intro a ha
  simp only [flushAcc] at ha ⊢
  have hn : d.objs a = none := by
    split at ha
    · split at ha <;> simp at ha
    · assumption
  exact h a hn

theorem finaliseVal_inv {d : ValData} (h : ValInv d) (j : List ValEntry) : ValInv (finaliseVal j d) :=
  ⟨h.idx, h.none, h.stat⟩

theorem flushValOne_inv {d : ValData} (h : ValInv d) (del : Bool) (a : Addr) : ValInv (flushValOne del d a) := by
  unfold flushValOne
  split
  · exact h
  · rename_i v hv
    split
    · refine ⟨fun x w hw hd => ?_, fun x hx => ?_, decrStat_WF h.stat v⟩
      · simp only [upd] at hw ⊢
        split at hw
        · simp only [Option.some.injEq] at hw; subst hw; simp at hd
        · rename_i hne; simp only [hne, if_false]; exact h.idx x w hw hd
      · simp only [upd] at hx ⊢
        split at hx
        · simp at hx
        · rename_i hne; simp only [hne, if_false]; exact h.none x hx
    · refine ⟨fun x w hw hd => ?_, fun x hx => ?_, h.stat⟩
      · simp only [upd]
        split
        · rfl
        · exact h.idx x w hw hd
      · simp only [upd]
        split
        · rename_i he; subst he; simp only at hx; rw [hv] at hx; simp at hx
        · exact h.none x hx

theorem flushVal_inv {d : ValData} (h : ValInv d) (del : Bool) : ValInv (flushVal del d) := by
  have : ∀ (l : List Addr) (d : ValData), ValInv d → ValInv (l.foldl (flushValOne del) d) := by
    intro l
    induction l with
    | nil => intro d h; exact h
    | cons a l ih => intro d h; exact ih _ (flushValOne_inv h del a)
  have h1 := this d.dirtyObjs d h
  exact ⟨h1.idx, h1.none, h1.stat⟩

/-! ### one step -/

theorem step_inv {s s' : State} {ga : List AG} {gv : List VG} {op : Op} (hI : Inv s ga gv) (hok : OpOK s op)
    (h : step s op = some s') :
    ∃ ga' gv', Inv s' ga' gv' ∧ (∀ g ∈ ga', g.id < s.nextId → g ∈ ga) ∧ (∀ g ∈ gv', g.id < s.nextId → g ∈ gv) ∧
      s.nextId ≤ s'.nextId := by
  cases op with
  | acc o =>
    simp only [step] at h
    split at h
    · simp at h
    · rename_i d es happ
      simp only [Option.some.injEq] at h; subst h
      exact ⟨ga, gv, ⟨(applyAcc_frame o happ).inv hI.acc, hI.val, hI.ra.append d es (applyAcc_undo o hI.acc hok happ), hI.rv, hI.ids⟩,
        fun g hg _ => hg, fun g hg _ => hg, Nat.le_refl _⟩
  | val o =>
    simp only [step] at h
    split at h
    · simp at h
    · rename_i d es happ
      simp only [Option.some.injEq] at h; subst h
      exact ⟨ga, gv, ⟨hI.acc, applyVal_inv o hI.val happ, hI.ra, hI.rv.append d es (applyVal_undo o hI.val hok happ), hI.ids⟩,
        fun g hg _ => hg, fun g hg _ => hg, Nat.le_refl _⟩
  | deleg dlg va amt =>
    simp only [step] at h
    split at h
    · simp only [Option.some.injEq] at h; subst h
      exact ⟨ga, gv, hI, fun g hg _ => hg, fun g hg _ => hg, Nat.le_refl _⟩
    · rename_i old hget
      split at h
      · simp only [Option.some.injEq] at h; subst h
        exact ⟨ga, gv, hI, fun g hg _ => hg, fun g hg _ => hg, Nat.le_refl _⟩
      · rename_i new del hnew
        simp only [Option.some.injEq] at h; subst h
        have hv := updateVal_undo hI.val (new := new) hget (hok old new del hget hnew)
        have ha := updateDelegator_undo s.a dlg va amt del
        exact ⟨ga, gv, ⟨(updateDelegator_frame s.a dlg va amt del).inv hI.acc, updateVal_inv hI.val va old new,
            hI.ra.append _ _ ha, hI.rv.append _ _ hv, hI.ids⟩,
          fun g hg _ => hg, fun g hg _ => hg, Nat.le_refl _⟩
  | prepare hsh i =>
    simp only [step, Option.some.injEq] at h; subst h
    have hr : s.revs = [] := hok
    have hvr : s.valRevs = [] := by
      have := hI.ids; rw [hr] at this; simpa using this.symm
    have hga : ga = [] := by have := hI.ra; rw [hr] at this; cases this; rfl
    have hgv : gv = [] := by have := hI.rv; rw [hvr] at this; cases this; rfl
    subst hga hgv
    refine ⟨[], [], ⟨fun a ha => hI.acc a ha, hI.val, ?_, hI.rv, hI.ids⟩, fun g hg _ => hg, fun g hg _ => hg, Nat.le_refl _⟩
    simp only [hr]; exact .nil _ _
  | snapshot =>
    simp only [step, Option.some.injEq] at h; subst h
    refine ⟨⟨s.nextId, (s.a, s.aj), s.revs⟩ :: ga, ⟨s.nextId, (s.v, s.vj), s.valRevs⟩ :: gv,
      ⟨hI.acc, hI.val, hI.ra.snapshot hI.acc, hI.rv.snapshot hI.val, by simp [hI.ids]⟩, ?_, ?_, Nat.le_succ _⟩
    · intro g hg hlt
      rcases List.mem_cons.1 hg with rfl | hg
      · simp at hlt
      · exact hg
    · intro g hg hlt
      rcases List.mem_cons.1 hg with rfl | hg
      · simp at hlt
      · exact hg
  | revert id =>
    simp only [step, revertSnap] at h
    split at h
    · simp at h
    · rename_i n older hfa
      split at h
      · simp at h
      · rename_i m valOlder hfv
        simp only [Option.some.injEq] at h; subst h
        obtain ⟨n', older', g, gs', hf, hg, hgid, hgo, hrev, hP, hok', hsub⟩ := hI.ra.find (findRev_mem hfa)
        obtain ⟨m', volder', g', gs'', hf', hg', hgid', hgo', hrev', hP', hok'', hsub'⟩ := hI.rv.find (findRev_mem hfv)
        rw [hfa] at hf; rw [hfv] at hf'
        simp only [Option.some.injEq, Prod.mk.injEq] at hf hf'
        obtain ⟨rfl, rfl⟩ := hf; obtain ⟨rfl, rfl⟩ := hf'
        have hidlt : id < s.nextId := by have := hI.ra.ids_lt g hg; omega
        refine ⟨gs', gs'', ⟨?_, ?_, ?_, ?_, findRev_ids hI.ids hfa hfv⟩, fun x hx _ => hsub x hx, fun x hx _ => hsub' x hx, Nat.le_refl _⟩
        · show AccInv (revertTo undoAcc n (s.a, s.aj)).1; rw [hrev]; exact hP
        · show ValInv (revertTo undoVal m (s.v, s.vj)).1; rw [hrev']; exact hP'
        · show RevOK undoAcc AccInv ((revertTo undoAcc n (s.a, s.aj)).1, (revertTo undoAcc n (s.a, s.aj)).2) s.nextId older gs'
          rw [hrev]; exact hok'.bound_mono (Nat.le_of_lt hidlt)
        · show RevOK undoVal ValInv ((revertTo undoVal m (s.v, s.vj)).1, (revertTo undoVal m (s.v, s.vj)).2) s.nextId valOlder gs''
          rw [hrev']; exact hok''.bound_mono (Nat.le_of_lt hidlt)
  | finalise del =>
    simp only [step, Option.some.injEq] at h; subst h
    exact ⟨[], [], ⟨finaliseAcc_inv hI.acc _ _, finaliseVal_inv hI.val _, .nil _ _, .nil _ _, rfl⟩,
      fun g hg _ => by simp at hg, fun g hg _ => by simp at hg, Nat.le_refl _⟩
  | root del =>
    simp only [step, Option.some.injEq] at h; subst h
    exact ⟨[], [], ⟨flushAcc_inv (finaliseAcc_inv hI.acc _ _), flushVal_inv (finaliseVal_inv hI.val _) _, .nil _ _, .nil _ _, rfl⟩,
      fun g hg _ => by simp at hg, fun g hg _ => by simp at hg, Nat.le_refl _⟩

/-! ### runs -/

/-- every call of the sequence meets its guard in the state it is made in -/
def Guarded : State → List Op → Prop
  | _, [] => True
  | s, op :: ops => OpOK s op ∧ ∀ s', step s op = some s' → Guarded s' ops

theorem run_inv {s s' : State} {ga : List AG} {gv : List VG} {ops : List Op} (hI : Inv s ga gv) (hg : Guarded s ops)
    (h : run s ops = some s') :
    ∃ ga' gv', Inv s' ga' gv' ∧ (∀ g ∈ ga', g.id < s.nextId → g ∈ ga) ∧ (∀ g ∈ gv', g.id < s.nextId → g ∈ gv) ∧
      s.nextId ≤ s'.nextId := by
  induction ops generalizing s ga gv with
  | nil =>
    simp only [run, Option.some.injEq] at h; subst h
    exact ⟨ga, gv, hI, fun g hg _ => hg, fun g hg _ => hg, Nat.le_refl _⟩
  | cons op ops ih =>
    simp only [run] at h
    split at h
    · rename_i s₁ hs₁
      obtain ⟨ga₁, gv₁, hI₁, ha₁, hv₁, hle₁⟩ := step_inv hI hg.1 hs₁
      obtain ⟨ga₂, gv₂, hI₂, ha₂, hv₂, hle₂⟩ := ih hI₁ (hg.2 s₁ hs₁) h
      exact ⟨ga₂, gv₂, hI₂, fun g hg hlt => ha₁ g (ha₂ g hg (by omega)) hlt, fun g hg hlt => hv₁ g (hv₂ g hg (by omega)) hlt, by omega⟩
    · simp at h

end YouVerif.C09
