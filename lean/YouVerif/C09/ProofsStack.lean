/-
C09 helper lemmas, part 1: a journal as a stack of undo entries (generic in the data and entry types),
and revision lists checked against ghost copies of the component at snapshot time.
-/
import YouVerif.C09.Model
namespace YouVerif.C09

variable {σ ε : Type}

/-- undo a list of entries, newest first -/
def undoAll (undo : ε → σ → σ) : List ε → σ → σ
  | [], d => d
  | e :: es, d => undoAll undo es (undo e d)

theorem popN_zero (undo : ε → σ → σ) (c : σ × List ε) : popN undo 0 c = c := by
  cases c; rfl

theorem popN_nil (undo : ε → σ → σ) (k : Nat) (d : σ) : popN undo k (d, []) = (d, []) := by
  cases k <;> rfl

theorem popN_add (undo : ε → σ → σ) (a b : Nat) (c : σ × List ε) :
    popN undo (a + b) c = popN undo b (popN undo a c) := by
  induction a generalizing c with
  | zero => simp [popN_zero]
  | succ a ih =>
    obtain ⟨d, j⟩ := c
    cases j with
    | nil => simp [popN_nil]
    | cons e j =>
      have : a + 1 + b = (a + b) + 1 := by omega
      rw [this]; simp only [popN]; exact ih _

theorem popN_append (undo : ε → σ → σ) (es j : List ε) (d : σ) :
    popN undo es.length (d, es ++ j) = (undoAll undo es d, j) := by
  induction es generalizing d with
  | nil => simp [popN_zero, undoAll]
  | cons e es ih => simp only [List.length_cons, List.cons_append, popN, undoAll]; exact ih _

theorem popN_length (undo : ε → σ → σ) (k : Nat) (c : σ × List ε) :
    (popN undo k c).2.length = c.2.length - k := by
  induction k generalizing c with
  | zero => simp [popN_zero]
  | succ k ih =>
    obtain ⟨d, j⟩ := c
    cases j with
    | nil => simp [popN_nil]
    | cons e j => simp only [popN, List.length_cons]; rw [ih]; simp

theorem revertTo_self (undo : ε → σ → σ) (c : σ × List ε) : revertTo undo c.2.length c = c := by
  simp [revertTo, popN_zero]

theorem revertTo_length (undo : ε → σ → σ) (n : Nat) (c : σ × List ε) (h : n ≤ c.2.length) :
    (revertTo undo n c).2.length = n := by
  simp only [revertTo, popN_length]; omega

/-- a mutation whose own entries undo it is invisible to any earlier snapshot -/
theorem revertTo_append (undo : ε → σ → σ) (es j : List ε) (d d' : σ) (n : Nat)
    (hundo : undoAll undo es d' = d) (hn : n ≤ j.length) :
    revertTo undo n (d', es ++ j) = revertTo undo n (d, j) := by
  simp only [revertTo, List.length_append]
  have : es.length + j.length - n = es.length + (j.length - n) := by omega
  rw [this, popN_add, popN_append, hundo]

theorem revertTo_revertTo (undo : ε → σ → σ) (m n : Nat) (c : σ × List ε) (hmn : m ≤ n) (hn : n ≤ c.2.length) :
    revertTo undo m (revertTo undo n c) = revertTo undo m c := by
  have hl := revertTo_length undo n c hn
  show popN undo ((revertTo undo n c).2.length - m) (revertTo undo n c) = popN undo (c.2.length - m) c
  rw [hl]
  have : c.2.length - m = (c.2.length - n) + (n - m) := by omega
  rw [this, popN_add]; rfl

/-! ### Revision lists against ghost copies -/

/-- what a snapshot remembers (ghost): its id, the whole component (data and journal) when it was taken,
and the revision list below it -/
structure Ghost (σ ε : Type) where
  id : Nat
  comp : σ × List ε
  older : List (Nat × Nat)

/-- `RevOK undo P c bound revs gs`: the revision list `revs` (newest first) of the component `c` is sound:
ids strictly decrease below `bound`, every recorded journal length is within the journal, and reverting `c`
to it yields exactly the ghost copy (which satisfies the data invariant `P`); the older revisions are sound
for that copy. -/
inductive RevOK (undo : ε → σ → σ) (P : σ → Prop) : σ × List ε → Nat → List (Nat × Nat) → List (Ghost σ ε) → Prop
  | nil (c bound) : RevOK undo P c bound [] []
  | cons (c bound id n rest gs) :
      id < bound → n ≤ c.2.length → P (revertTo undo n c).1 →
      RevOK undo P (revertTo undo n c) id rest gs →
      RevOK undo P c bound ((id, n) :: rest) (⟨id, revertTo undo n c, rest⟩ :: gs)

theorem RevOK.ids {undo : ε → σ → σ} {P c bound revs gs} (h : RevOK undo P c bound revs gs) :
    revs.map (·.1) = gs.map (·.id) := by
  induction h with
  | nil => rfl
  | cons c bound id n rest gs _ _ _ _ ih => simp [ih]

theorem RevOK.bound_mono {undo : ε → σ → σ} {P c bound revs gs} (h : RevOK undo P c bound revs gs)
    {b' : Nat} (hb : bound ≤ b') : RevOK undo P c b' revs gs := by
  cases h with
  | nil => exact .nil _ _
  | cons c bound id n rest gs h1 h2 h3 h4 => exact .cons _ _ _ _ _ _ (by omega) h2 h3 h4

theorem RevOK.ids_lt {undo : ε → σ → σ} {P c bound revs gs} (h : RevOK undo P c bound revs gs) :
    ∀ g ∈ gs, g.id < bound := by
  induction h with
  | nil => simp
  | cons c bound id n rest gs h1 _ _ _ ih =>
    intro g hg
    rcases List.mem_cons.1 hg with rfl | hg
    · exact h1
    · exact Nat.lt_trans (ih g hg) h1

/-- a mutation that its own entries undo keeps every revision sound, with the SAME ghosts -/
theorem RevOK.append {undo : ε → σ → σ} {P d j bound revs gs} (h : RevOK undo P (d, j) bound revs gs)
    (d' : σ) (es : List ε) (hundo : undoAll undo es d' = d) : RevOK undo P (d', es ++ j) bound revs gs := by
  cases h with
  | nil => exact .nil _ _
  | cons c bound id n rest gs h1 h2 h3 h4 =>
    have e : revertTo undo n (d', es ++ j) = revertTo undo n (d, j) := revertTo_append undo es j d d' n hundo h2
    rw [← e] at h3 h4 ⊢
    exact .cons _ _ _ _ _ _ h1 (by simp at h2 ⊢; omega) h3 h4

/-- taking a snapshot -/
theorem RevOK.snapshot {undo : ε → σ → σ} {P c bound revs gs} (h : RevOK undo P c bound revs gs) (hP : P c.1) :
    RevOK undo P c (bound + 1) ((bound, c.2.length) :: revs) (⟨bound, c, revs⟩ :: gs) := by
  have := RevOK.cons (undo := undo) (P := P) c (bound + 1) bound c.2.length revs gs (by omega) (Nat.le_refl _)
  rw [revertTo_self] at this
  exact this hP h

/-- a recorded journal length found by the search is within the journal -/
theorem RevOK.find_le {undo : ε → σ → σ} {P c bound revs gs} (h : RevOK undo P c bound revs gs)
    {id n : Nat} {older} (hf : findRev id revs = some (n, older)) : n ≤ c.2.length := by
  induction h with
  | nil => simp [findRev] at hf
  | cons c bound i m rest gs h1 h2 h3 h4 ih =>
    simp only [findRev] at hf
    split at hf
    · have := ih hf
      have hl := revertTo_length undo m c h2
      omega
    · split at hf
      · simp only [Option.some.injEq, Prod.mk.injEq] at hf; omega
      · simp at hf

/-- the search of `RevertToSnapshot` succeeds on every id of a sound list, and what it finds is the ghost -/
theorem RevOK.find {undo : ε → σ → σ} {P c bound revs gs} (h : RevOK undo P c bound revs gs)
    {id : Nat} (hid : id ∈ revs.map (·.1)) :
    ∃ n older g gs', findRev id revs = some (n, older) ∧ g ∈ gs ∧ g.id = id ∧ g.older = older ∧
      revertTo undo n c = g.comp ∧ P g.comp.1 ∧ RevOK undo P g.comp id older gs' ∧
      (∀ x ∈ gs', x ∈ gs) := by
  induction h with
  | nil => simp at hid
  | cons c bound i n rest gs h1 h2 h3 h4 ih =>
    simp only [findRev]
    by_cases hgt : i > id
    · simp only [hgt, if_true]
      have hid' : id ∈ rest.map (·.1) := by
        simp only [List.map_cons, List.mem_cons] at hid
        rcases hid with rfl | hid
        · omega
        · exact hid
      obtain ⟨n', older, g, gs', hf, hg, hgid, hgo, hrev, hP, hok, hsub⟩ := ih hid'
      refine ⟨n', older, g, gs', hf, List.mem_cons_of_mem _ hg, hgid, hgo, ?_, hP, hok, fun x hx => List.mem_cons_of_mem _ (hsub x hx)⟩
      -- n' ≤ n: it is within the journal of the copy, whose length is n
      have hn' : n' ≤ n := by
        have hl := revertTo_length undo n c h2
        have := h4.find_le hf
        omega
      rw [← hrev, revertTo_revertTo undo n' n c hn' h2]
    · simp only [hgt, if_false]
      have hle : i ≤ id := by omega
      have hmem : id = i := by
        simp only [List.map_cons, List.mem_cons] at hid
        rcases hid with h | hid
        · exact h
        · -- ids of the rest are below i
          have := h4.ids
          rw [this] at hid
          obtain ⟨g, hg, rfl⟩ := List.mem_map.1 hid
          have := h4.ids_lt g hg
          omega
      subst hmem
      simp only [if_true]
      exact ⟨n, rest, ⟨id, revertTo undo n c, rest⟩, gs, rfl, List.mem_cons_self, rfl, rfl, rfl, h3, h4, fun x hx => List.mem_cons_of_mem _ hx⟩

/-- two lists with the same ids are cut at the same place -/
theorem findRev_ids {id : Nat} {r₁ r₂ : List (Nat × Nat)} (h : r₁.map (·.1) = r₂.map (·.1))
    {n₁ n₂ o₁ o₂} (h₁ : findRev id r₁ = some (n₁, o₁)) (h₂ : findRev id r₂ = some (n₂, o₂)) :
    o₁.map (·.1) = o₂.map (·.1) := by
  induction r₁ generalizing r₂ with
  | nil => simp [findRev] at h₁
  | cons x r₁ ih =>
    cases r₂ with
    | nil => simp at h
    | cons y r₂ =>
      obtain ⟨i, a⟩ := x; obtain ⟨i', b⟩ := y
      simp only [List.map_cons, List.cons.injEq] at h
      obtain ⟨rfl, h⟩ := h
      simp only [findRev] at h₁ h₂
      split at h₁
      · rename_i hgt; simp only [hgt, if_true] at h₂; exact ih h h₁ h₂
      · rename_i hgt; simp only [hgt, if_false] at h₂
        split at h₁
        · rename_i heq
          simp only [heq, if_true, Option.some.injEq, Prod.mk.injEq] at h₁ h₂
          rw [← h₁.2, ← h₂.2]; exact h
        · simp at h₁

end YouVerif.C09
