module sidechainv5parent

go 1.21

require (
	github.com/youchainhq/go-youchain v0.0.0
	verifharness v0.0.0
)

require (
	github.com/aristanetworks/goarista v0.0.0-20180907105523-ff33da284e76 // indirect
	github.com/go-stack/stack v1.8.0 // indirect
	github.com/golang/snappy v0.0.1 // indirect
	github.com/hashicorp/golang-lru v0.5.0 // indirect
	github.com/influxdata/influxdb1-client v0.0.0-20190402204710-8ff2fc3824fc // indirect
	github.com/mattn/go-colorable v0.0.9 // indirect
	github.com/mattn/go-isatty v0.0.9 // indirect
	github.com/nanyan/golz4 v1.0.0 // indirect
	github.com/rcrowley/go-metrics v0.0.0-20190826022208-cac0b30c2563 // indirect
	github.com/syndtr/goleveldb v1.0.0 // indirect
	github.com/youchainhq/bls v0.9.0 // indirect
	golang.org/x/crypto v0.0.0-20200423211502-4bdfaf469ed5 // indirect
	golang.org/x/sys v0.0.0-20190904154756-749cb33beabd // indirect
	gopkg.in/karalabe/cookiejar.v2 v2.0.0-20150724131613-8dcd6a7f4951 // indirect
	gopkg.in/natefinch/lumberjack.v2 v2.0.0-20170531160350-a96e63847dc3 // indirect
)

replace verifharness => /verif/go

replace github.com/youchainhq/go-youchain => /repo

replace github.com/lucas-clemente/quic-go v0.14.5 => github.com/youchainhq/quic-go v0.14.5
