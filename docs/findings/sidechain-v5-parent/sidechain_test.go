package sidechainv5parent

// Reproduction: a multi-block YouV5 side chain offered to a node whose head is on another branch.
//
// Branch X and branch Y share a prefix; a node imports prefix+X, then is offered Y
// (shorter / equal / longer than X; in one InsertChain call or block by block), under the solo engine and under a
// consensus.Ucon stand-in whose header verdicts mirror ucon's (ErrExistCanonical etc.) without the cryptographic seal.

import (
	"fmt"
	"math/big"
	"runtime/debug"
	"strings"
	"testing"
	"time"

	"github.com/youchainhq/go-youchain/common"
	"github.com/youchainhq/go-youchain/consensus"
	"github.com/youchainhq/go-youchain/consensus/solo"
	"github.com/youchainhq/go-youchain/core"
	"github.com/youchainhq/go-youchain/core/state"
	"github.com/youchainhq/go-youchain/core/types"
	"github.com/youchainhq/go-youchain/event"
	"github.com/youchainhq/go-youchain/local"
	"github.com/youchainhq/go-youchain/logging"
	"github.com/youchainhq/go-youchain/params"
	"github.com/youchainhq/go-youchain/staking"
	"github.com/youchainhq/go-youchain/youdb"

	"verifharness/cmd/c07/chainkit"
)

func init() {
	chainkit.Init()
	logging.Verbosity(logging.LvlCrit)
}

// ---- Ucon stand-in (copy of /verif/go/cmd/c11/engine.go) ---------------------------------------------------------

const allowedFuture = 15

type vEngine struct {
	*solo.Solo
	now uint64
}

func newVEngine(now uint64) *vEngine {
	return &vEngine{Solo: solo.NewFallbackSolo(true, 0, 1, 0), now: now}
}

func (e *vEngine) verifyHeader(chain consensus.ChainReader, header *types.Header, parents []*types.Header) error {
	if _, err := chain.VersionForRoundWithParents(header.Number.Uint64(), parents); err != nil {
		return err
	}
	if header.Time > e.now+allowedFuture {
		return consensus.ErrFutureBlock
	}
	number := header.Number.Uint64()
	if number == 0 {
		return nil
	}
	var parent *types.Header
	if len(parents) > 0 {
		parent = parents[len(parents)-1]
	} else {
		parent = chain.GetHeader(header.ParentHash, number-1)
	}
	if parent == nil || parent.Number.Uint64() != number-1 || parent.Hash() != header.ParentHash {
		return consensus.ErrUnknownAncestor
	}
	if header.Time <= parent.Time {
		return consensus.ErrOlderBlockTime
	}
	local := chain.GetHeaderByNumber(number)
	if local != nil && header.Hash() != local.Hash() {
		return consensus.ErrExistCanonical
	}
	return nil
}

func (e *vEngine) VerifyHeader(chain consensus.ChainReader, header *types.Header, seal bool) error {
	return e.verifyHeader(chain, header, nil)
}

func (e *vEngine) VerifyHeaders(chain consensus.ChainReader, headers []*types.Header, seals []bool) (chan<- struct{}, <-chan error) {
	abort := make(chan struct{}, 1)
	results := make(chan error, len(headers))
	for i, h := range headers {
		results <- e.verifyHeader(chain, h, headers[:i])
	}
	return abort, results
}

func (e *vEngine) VerifySeal(chain consensus.ChainReader, header *types.Header) error { return nil }
func (e *vEngine) HandleMsg(data []byte, receivedAt time.Time) error                  { return nil }
func (e *vEngine) NewChainHead(block *types.Block)                                    {}
func (e *vEngine) GetLookBackBlockNumber(cp *params.CaravelParams, num *big.Int, lbType params.LookBackType) *big.Int {
	return big.NewInt(0)
}
func (e *vEngine) VerifySideChainHeader(cp *params.CaravelParams, seedHeader *types.Header, vldReader state.ValidatorReader, certHeader *types.Header, certVldReader state.ValidatorReader, block *types.Block, parents []*types.Block) error {
	p := parents[len(parents)-1].Header()
	h := block.Header()
	if h.Number.Uint64() != p.Number.Uint64()+1 || h.ParentHash != p.Hash() {
		return consensus.ErrUnknownAncestor
	}
	return nil
}
func (e *vEngine) VerifyAcHeader(chain consensus.ChainReader, acHeader *types.Header, verifiedAcParents []*types.Header) error {
	return nil
}

var _ consensus.Ucon = (*vEngine)(nil)

// ---- nodes ----------------------------------------------------------------------------------------------------------

func newNode(t *testing.T, g *core.Genesis, ucon bool) *chainkit.Node {
	db := youdb.NewMemDatabase()
	if _, err := g.Commit(db); err != nil {
		t.Fatal(err)
	}
	mux := event.NewMux()
	var eng consensus.Engine
	var s *solo.Solo
	if ucon {
		v := newVEngine(1 << 40)
		eng, s = v, v.Solo
	} else {
		s = solo.NewFallbackSolo(true, 0, 1, 0)
		eng = s
	}
	bc, err := core.NewBlockChain(db, eng, mux, params.ArchiveNode, local.NewDetailDB(nil, false))
	if err != nil {
		t.Fatal(err)
	}
	s.SetChain(bc)
	st := staking.NewStaking(nil)
	st.Register(bc.Processor())
	if err := st.Start(bc, eng); err != nil {
		t.Fatal(err)
	}
	return &chainkit.Node{DB: db, BC: bc, Staking: st, Mux: mux}
}

func you(n int64) *big.Int {
	return new(big.Int).Mul(big.NewInt(n), new(big.Int).Exp(big.NewInt(10), big.NewInt(18), nil))
}

// genesis contract: SSTORE(0, BLOCKHASH(NUMBER-2))
var (
	bhAddr = common.HexToAddress("0x00000000000000000000000000000000000b10c4")
	bhCode = []byte{0x60, 0x02, 0x43, 0x03, 0x40, 0x60, 0x00, 0x55, 0x00}
)

var version = params.YouV5

func config() chainkit.Config {
	yp := params.Versions[version]
	cfg := chainkit.Config{Alloc: map[common.Address]*big.Int{}, Code: map[common.Address][]byte{bhAddr: bhCode}, Version: version}
	cfg.Alloc[yp.RewardsPoolAddress] = you(100000)
	for i := 0; i < 2; i++ {
		u := chainkit.Addr(chainkit.Key("user", i))
		cfg.Alloc[u] = you(3000000)
		cfg.Vals = append(cfg.Vals, chainkit.ValSpec{Main: chainkit.Key("val", i), Bls: []byte{1, 2, 3, byte(i)},
			Operator: u, Coinbase: chainkit.Addr(chainkit.Key("cb", i)), Role: params.RoleChancellor, Token: you(int64(1000 + 100*i)), Status: 1})
	}
	return cfg
}

type forks struct {
	g      *core.Genesis
	prefix types.Blocks
	x, y   types.Blocks
	stop   func()
}

// build: prefix of p blocks, branch X of nx blocks (coinbase val0), branch Y of ny blocks (coinbase val1).
func build(t *testing.T, p, nx, ny int) *forks { return buildTx(t, p, nx, ny, false) }

func buildTx(t *testing.T, p, nx, ny int, callBlockhash bool) *forks {
	k1, err := chainkit.New(config())
	if err != nil {
		t.Fatal(err)
	}
	k2, err := chainkit.New(config())
	if err != nil {
		t.Fatal(err)
	}
	f := &forks{g: k1.Genesis, stop: func() { k1.Stop(); k2.Stop() }}
	cb0 := chainkit.Addr(chainkit.Key("val", 0))
	cb1 := chainkit.Addr(chainkit.Key("val", 1))
	nonce := uint64(0)
	mk := func(k *chainkit.Kit, cb common.Address) *types.Block {
		var txs []*types.Transaction
		if callBlockhash && k == k2 {
			tx, err := types.SignTx(types.NewTransaction(nonce, bhAddr, new(big.Int), 100000, big.NewInt(1000000000), nil), k.Signer, chainkit.Key("user", 0))
			if err != nil {
				t.Fatal(err)
			}
			nonce++
			txs = append(txs, tx)
		}
		b, err := k.Build(cb, txs, nil)
		if err != nil || b.Block == nil {
			t.Fatalf("build: %v %s", err, b.Panic)
		}
		for _, o := range b.Outcomes {
			if !o.Included {
				t.Fatalf("tx not included: %s", o.Err)
			}
		}
		if err := k.Import(b.Block); err != nil {
			t.Fatal(err)
		}
		return b.Block
	}
	for i := 0; i < p; i++ {
		b := mk(k1, cb0)
		if err := k2.Import(b); err != nil {
			t.Fatal(err)
		}
		f.prefix = append(f.prefix, b)
	}
	for i := 0; i < nx; i++ {
		f.x = append(f.x, mk(k1, cb0))
	}
	for i := 0; i < ny; i++ {
		f.y = append(f.y, mk(k2, cb1))
	}
	return f
}

// insert: one InsertChain call; a panic becomes an outcome (and the node is wedged: chainMu is held).
func insert(n *chainkit.Node, bs types.Blocks) (res string) {
	defer func() {
		if r := recover(); r != nil {
			st := string(debug.Stack())
			where := ""
			for _, l := range strings.Split(st, "\n") {
				if strings.Contains(l, "checkAndUpgradeValidatorsToYouV5") || strings.Contains(l, "verifyAllSideChainBlocks") {
					where += " <- " + strings.TrimSpace(l)
				}
			}
			res = fmt.Sprintf("PANIC: %v%s", r, where)
		}
	}()
	if err := n.BC.InsertChain(bs); err != nil {
		return "err: " + err.Error()
	}
	return "ok"
}

// wedged: does a further InsertChain return? (chainMu is locked without defer in InsertChain)
func wedged(n *chainkit.Node, bs types.Blocks) bool {
	done := make(chan struct{})
	go func() {
		defer func() { recover(); close(done) }()
		_ = n.BC.InsertChain(bs)
	}()
	select {
	case <-done:
		return false
	case <-time.After(2 * time.Second):
		return true
	}
}

func TestSideChainV5(t *testing.T) {
	type sc struct{ p, nx, ny int }
	scs := []sc{{3, 3, 2}, {3, 3, 3}, {3, 2, 3}, {3, 1, 2}, {3, 3, 1}, {3, 1, 1}, {3, 2, 5}, {20, 3, 4}, {13, 2, 6}, {13, 6, 4}, {3, 2, 12}, {3, 14, 12}, {3, 2, 40}}
	panics, rejected := 0, 0
	for _, s := range scs {
		f := build(t, s.p, s.nx, s.ny)
		for _, ucon := range []bool{false, true} {
			for _, oneCall := range []bool{true, false} {
				n := newNode(t, f.g, ucon)
				if r := insert(n, f.prefix); r != "ok" {
					t.Fatalf("prefix: %s", r)
				}
				if r := insert(n, f.x); r != "ok" {
					t.Fatalf("branch X: %s", r)
				}
				var outs []string
				if oneCall {
					outs = append(outs, insert(n, f.y))
				} else {
					for _, b := range f.y {
						outs = append(outs, insert(n, types.Blocks{b}))
					}
				}
				isPanic := false
				for _, o := range outs {
					if strings.HasPrefix(o, "PANIC") {
						isPanic = true
					}
				}
				w := false
				if isPanic {
					panics++
					w = wedged(n, f.x)
				}
				stored := 0
				for _, b := range f.y {
					if !isPanic && n.BC.HasBlock(b.Hash(), b.NumberU64()) {
						stored++
					}
				}
				head := "?"
				if !isPanic {
					h := n.BC.CurrentBlock()
					switch {
					case h.Hash() == f.x[len(f.x)-1].Hash():
						head = "X-tip"
					case h.Hash() == f.y[len(f.y)-1].Hash():
						head = "Y-tip"
					default:
						head = fmt.Sprintf("#%d", h.NumberU64())
					}
				}
				eng := map[bool]string{false: "solo", true: "ucon-standin"}[ucon]
				mode := map[bool]string{true: "one-call", false: "block-by-block"}[oneCall]
				t.Logf("prefix=%d X=%d Y=%d %-12s %-14s -> %v  stored=%d/%d head=%s wedged=%v", s.p, s.nx, s.ny, eng, mode, outs, stored, len(f.y), head, w)
				if !isPanic {
					n.Stop()
				}
				// an honest fork offered from the fork point in one call must be accepted and stored; the longer one wins
				// (block by block the ucon path refuses the second block with an error -- the first one was stored without
				// state --, which is logged above and not judged here)
				if oneCall && (outs[0] != "ok" || stored != len(f.y) || (s.ny > s.nx && head != "Y-tip")) {
					rejected++
				}
			}
		}
		f.stop()
	}
	if panics > 0 {
		t.Errorf("%d scenario(s) panicked inside InsertChain", panics)
	}
	if rejected > 0 {
		t.Errorf("%d honest side chain(s) offered in one call not accepted (or the longer one not adopted)", rejected)
	}
}

// A side-chain block that reads the hash of one of its own side-chain ancestors (EVM BLOCKHASH) is executed by
// verifyAllSideChainBlocks against a chain reader that does not know that ancestor. YouV4: no end-block panic, so
// the block is rejected with a state root mismatch instead; YouV5: the end-block hook panics first.
func TestSideChainBlockhash(t *testing.T) {
	for _, v := range []params.YouVersion{params.YouV4, params.YouV5} {
		version = v
		f := buildTx(t, 3, 2, 3, true)
		for _, ucon := range []bool{false, true} {
			n := newNode(t, f.g, ucon)
			if r := insert(n, f.prefix); r != "ok" {
				t.Fatalf("prefix: %s", r)
			}
			if r := insert(n, f.x); r != "ok" {
				t.Fatalf("branch X: %s", r)
			}
			r := insert(n, f.y)
			if len(r) > 160 {
				r = r[:160] + "..."
			}
			eng := map[bool]string{false: "solo", true: "ucon-standin"}[ucon]
			t.Logf("version=%d blockhash-calling side chain of 3 over a head of 2, %s, one call -> %s", v, eng, r)
			if r != "ok" {
				t.Errorf("version %d %s: honest side chain not accepted: %s", v, eng, r)
			} else if n.BC.CurrentBlock().Hash() != f.y[2].Hash() {
				t.Errorf("version %d %s: longer side chain did not become the head", v, eng)
			}
		}
		f.stop()
	}
	version = params.YouV5
}
