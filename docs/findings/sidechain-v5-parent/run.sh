#!/bin/sh
# Runs the witness against /repo's working tree, or against another tree: VERIF_REPO=/tmp/some-worktree ./run.sh
# (e.g. `git -C /repo worktree add -q /tmp/sc-wt ae80439~1` for the tree before the repair).
set -e
cd "$(dirname "$0")"
export GOFLAGS=-mod=mod GOPROXY=off GOSUMDB=off GOTOOLCHAIN=local
repo="${VERIF_REPO:-/repo}"
tmp="$(mktemp -d)"
trap 'rm -rf "$tmp"' EXIT
sed "s#=> /repo#=> $repo#" go.mod > "$tmp/go.mod"
cp "$repo/go.sum" "$tmp/go.sum"
go test -modfile="$tmp/go.mod" -count=1 -v . 2>&1 | grep -v '^\s*$' | cut -c1-260
