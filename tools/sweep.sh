#!/bin/bash
# tools/sweep.sh <tier> <parallel> Cnn...   — run ./check for several properties (unchanged tree), print one summary line each.
# Intended for `vp run --with-repo -- tools/sweep.sh thorough 4 C01 C02 …` (snapshot) or directly in /verif.
tier="$1"; par="$2"; shift 2
export GOFLAGS=-mod=mod GOPROXY=off GOSUMDB=off GOTOOLCHAIN=local
[ -n "${VP_RUN_REPO:-}" ] && export VERIF_REPO="$VP_RUN_REPO"
cd "$(dirname "$0")/.."
mkdir -p .build/sweep
run1() { p="$1"; t0=$(date +%s); ./check "$p" --tier "$tier" > ".build/sweep/$p-$tier.log" 2>&1; rc=$?
  echo "SWEEP $p tier=$tier exit=$rc wall=$(( $(date +%s) - t0 ))s violations=$(grep -c '^VIOLATION' .build/sweep/$p-$tier.log) known=$(grep -c '^KNOWN-FINDING' .build/sweep/$p-$tier.log)"; }
export -f run1; export tier
printf '%s\n' "$@" | xargs -P "$par" -I{} bash -c 'run1 {}'
echo SWEEP-DONE
