#!/bin/bash
# tools/baseline.sh [repo-dir]   — runs the pinned suite (guard off) over a tree and compares with /root/.vp/BASELINE.json stable_pass.
# Use: vp run --with-repo --timeout 90m -- bash -c 'tools/baseline.sh $VP_RUN_REPO'
R=${1:-/repo}
cd "$R" && export GOFLAGS=-mod=mod GOPROXY=off GOSUMDB=off && git log --oneline | head -1
go test -vet=off -count=1 -timeout 25m -json ./... 2>/dev/null | python3 -c '
import sys,json
res={}
for l in sys.stdin:
    try: e=json.loads(l)
    except Exception: continue
    if e.get("Test") and e.get("Action") in ("pass","fail","skip"):
        res[e["Package"]+"::"+e["Test"]]=e["Action"]
b=json.load(open("/root/.vp/BASELINE.json"))
sp=b["stable_pass"]
bad=[t for t in sp if res.get(t)!="pass"]
print("stable_pass",len(sp),"now passing",len(sp)-len(bad))
for t in bad: print("NOT-PASS",t,res.get(t))
'
echo BASELINE-DONE
