#!/bin/bash
# tools/seedtest.sh <PROPERTY> <patch.diff> [tier]  — run a check against a scratch worktree of /repo with a patch applied.
# Never touches /repo's working tree. Prints the check's VIOLATION / KNOWN-FINDING lines and its exit code.
set -u
pid="$1"; patch="$(readlink -f "$2")"; tier="${3:-quick}"
wt="/tmp/seedtest-$pid-$$"
git -C /repo worktree add -q "$wt" HEAD || exit 2
if ! git -C "$wt" apply "$patch"; then echo "patch does not apply"; git -C /repo worktree remove --force "$wt"; exit 2; fi
cd "$(dirname "$0")/.."
VERIF_REPO="$wt" ./check "$pid" --tier "$tier" > "/tmp/seedtest-$pid-$$.log" 2>&1
rc=$?
grep -E "^(VIOLATION|KNOWN-FINDING)|broken obligation|failure:" "/tmp/seedtest-$pid-$$.log" | head -12
echo "seedtest $pid $(basename "$(dirname "$patch")")/$(basename "$patch"): exit=$rc (log /tmp/seedtest-$pid-$$.log)"
git -C /repo worktree remove --force "$wt"
exit $rc
