#!/usr/bin/env python3
"""Regenerate /verif/MANIFEST.json from props/*.json (claimed checks) and tools/not_applicable.json."""
import json, os, glob, subprocess
ROOT = os.path.dirname(os.path.dirname(os.path.abspath(__file__)))
ids = [json.loads(l)["id"] for l in open(os.path.join(ROOT, "properties.jsonl"))]
checks, claimed = [], set()
# the lead lists a property here once its check has been run on the unchanged tree and integrated
integrated = set(open(os.path.join(ROOT, "tools", "claimed.txt")).read().split())
for p in sorted(glob.glob(os.path.join(ROOT, "props", "C*.json"))):
    c = json.load(open(p))
    if c.get("disabled") or c["id"] not in integrated:
        continue
    claimed.add(c["id"])
    checks.append({
        "property_id": c["id"],
        "quick_cmd": "./check %s --tier quick" % c["id"],
        "thorough_cmd": "./check %s --tier thorough" % c["id"],
        "evidence_file": "/verif/evidence/%s.json" % c["id"],
        "replay_cmd_template": "./check %s --replay {path}" % c["id"],
        "engine": "lean4-proof+correspondence",
        "level_claimed": {"category": c["level"]["category"], "text": c["level"]["text"], "design_ref": c["level"].get("design_ref", "DESIGN.md section 5")},
        "level_note": c["level_note"],
        "technique": c["technique"],
    })
na_file = os.path.join(ROOT, "tools", "not_applicable.json")
na_reasons = json.load(open(na_file)) if os.path.exists(na_file) else {}
na = [{"property_id": i, "reason": na_reasons.get(i, "not claimed yet: the model, theorems and correspondence harness for this property are not built yet (design in DESIGN.md section 5); the technique itself applies")}
      for i in ids if i not in claimed]
hooks = subprocess.run(["git", "-C", "/repo", "log", "--format=%h %s", "--grep=^verif-hook:"], capture_output=True, text=True).stdout.strip().splitlines()
m = {
    "version": 1,
    "setup_cmd": "./setup.sh",
    "hooks": {
        "guard": "verif",
        "enable": "go build -tags verif (harness module /verif/go replaces github.com/youchainhq/go-youchain => /repo); hook files are add-only *_verif.go / verif_hooks*.go with `//go:build verif`",
        "baseline_off_cmd": "cd /repo && GOFLAGS=-mod=mod go test -vet=off -count=1 -timeout 25m ./...",
        "source_commits": [h.split()[0] for h in hooks],
        "add_only": True,
    },
    "engines": [{"name": "lean4-proof+correspondence", "path": "/verif/check",
                 "serves_properties": sorted(claimed),
                 "kind_free_text": "Lean 4 theorems about executable models (hand-written or regenerated from the Go source by translators), tied to /repo on every run by regenerating the model and/or by differential correspondence between the compiled Lean driver and the real Go code on seeded inputs; implementation-level oracle searches for a failing input when a proof or the tie breaks"}],
    "checks": checks,
    "not_applicable": na,
    "notes": "All checks: ./check <id> --tier quick|thorough; VERIF_SEED selects the PRNG seed. KNOWN_FINDINGS.txt lists open findings (printed as KNOWN-FINDING, exit 0) and fixed ones (witness kept in corpus/, reported again if it returns). DESIGN.md explains models, theorems, ties and trusted base.",
}
json.dump(m, open(os.path.join(ROOT, "MANIFEST.json"), "w"), indent=1)
print("MANIFEST.json: %d checks, %d not claimed" % (len(checks), len(na)))
