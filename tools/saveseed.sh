#!/bin/bash
# tools/saveseed.sh <PROPERTY> <n> <outdir> <pkg> <TestRegex> <detected:yes|no> "<how detected / what the check printed>"
pid="$1"; n="$2"; out="$3"; pkg="$4"; tst="$5"; det="$6"; how="$7"
d="$(dirname "$0")/../seeded/$pid-$n"; mkdir -p "$d"
cp "$out/change$n.diff" "$d/patch.diff"; cp "$out/change${n}_demo_test.go" "$d/demo_test.go"; cp "$out/change$n.md" "$d/notes.md"
python3 - "$pid" "$n" "$pkg" "$tst" "$det" "$how" "$d" <<'PY'
import json,sys
pid,n,pkg,tst,det,how,d=sys.argv[1:]
notes=open(d+'/notes.md').read()
json.dump({"id":"%s-%s"%(pid,n),"property":pid,
 "author":"independent sub-agent given only the property text and its own scratch worktree (nothing from /verif)",
 "what_and_needs":"see notes.md (written by the author: what the change is, which clause it breaks, what it needs in order to manifest)",
 "demo":{"place_in":pkg,"run":"go test -count=1 -run '%s' ./%s/"%(tst,pkg)},
 "confirmed_by_lead":"tools/confirm_seed.sh %s <out> %s %s %s: demo passes on the unchanged tree, fails with the patch; go build ./... ok; existing tests of the touched package pass with the patch"%(pid,n,pkg,tst),
 "check_run":"tools/seedtest.sh %s seeded/%s-%s/patch.diff (scratch worktree, VERIF_REPO)"%(pid,pid,n),
 "detected":det=="yes","detection":how},open(d+'/meta.json','w'),indent=1)
PY
echo saved $d
