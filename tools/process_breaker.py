#!/usr/bin/env python3
"""tools/process_breaker.py Cnn [--thorough-if-missed]
Confirms the two independently written breaking changes in /tmp/brk-Cnn-out (demo passes unchanged, fails with the
patch, touched package's tests still pass), runs ./check Cnn against a scratch worktree with each patch, and stores
the change under seeded/Cnn-k/ with a meta.json saying whether and how it was detected. Never touches /repo's tree."""
import sys, os, re, subprocess, json, shutil, glob, time
ROOT = os.path.dirname(os.path.dirname(os.path.abspath(__file__)))
ENV = dict(os.environ, GOFLAGS="-mod=mod", GOPROXY="off", GOSUMDB="off", GOTOOLCHAIN="local")

def sh(cmd, cwd=None, timeout=3600, env=ENV):
    p = subprocess.run(cmd, cwd=cwd, env=env, stdout=subprocess.PIPE, stderr=subprocess.STDOUT, text=True, errors="replace", timeout=timeout, shell=isinstance(cmd, str))
    return p.returncode, p.stdout

def main():
    pid = sys.argv[1]
    thorough = "--thorough-if-missed" in sys.argv
    out = "/tmp/brk-%s-out" % pid
    offset = 0
    for a in sys.argv:
        if a.startswith("--src="): out = a[6:]
        if a.startswith("--offset="): offset = int(a[9:])       # second-wave changes are stored as Cnn-3, Cnn-4
    for k in (1, 2):
        n = k + offset
        demo = "%s/change%d_demo_test.go" % (out, k)
        diff = "%s/change%d.diff" % (out, k)
        # idempotent + safe for two runners working through overlapping lists
        dd = os.path.join(ROOT, "seeded", "%s-%d" % (pid, n))
        if os.path.exists(dd + "/meta.json") and os.path.exists(diff) and open(dd + "/patch.diff").read() == open(diff).read():
            print("%s-%d: already processed" % (pid, n)); continue
        try:
            os.mkdir("/tmp/pb-lock-%s-%d" % (pid, n))
        except FileExistsError:
            print("%s-%d: being processed by another runner" % (pid, n)); continue
        if not (os.path.exists(demo) and os.path.exists(diff)):
            print("%s-%d: missing files" % (pid, n)); continue
        src = open(demo).read()
        first = src.splitlines()[0]
        m = re.search(r"(?:[Pp]lace[^:]*:|in)\s*`?([A-Za-z0-9_/\.]+?)/?`?[\s,(;]", first + " ")
        pkgdecl = re.search(r"^package (\w+)", src, re.M).group(1)
        pkg = m.group(1).strip("/") if m else None
        if not pkg or not os.path.isdir("/repo/" + pkg):
            # fall back: a directory touched by the diff whose package name matches
            cands = sorted(set(os.path.dirname(x) for x in re.findall(r"^\+\+\+ b/(\S+)", open(diff).read(), re.M)))
            pkg = next((c for c in cands if os.path.basename(c) == pkgdecl.replace("_test", "")), cands[0] if cands else None)
        tests = re.findall(r"^func (Test\w+)", src, re.M)
        rx = "^(" + "|".join(tests) + ")$"
        wt = "/tmp/confirm-%s-%d-%d" % (pid, n, os.getpid())
        sh(["git", "-C", "/repo", "worktree", "add", "-q", wt, "HEAD"])
        res = {"pkg": pkg, "tests": tests}
        try:
            shutil.copy(demo, "%s/%s/zz_seed_demo_test.go" % (wt, pkg))
            rc0, o0 = sh(["go", "test", "-count=1", "-run", rx, "./%s/" % pkg], cwd=wt)
            res["demo_unchanged"] = "pass" if rc0 == 0 else "FAIL"
            rca, oa = sh(["git", "-C", wt, "apply", diff])
            if rca != 0:
                res["apply"] = "does not apply: " + oa[-200:]
            else:
                rcb, ob = sh(["go", "build", "./..."], cwd=wt)
                res["build"] = "ok" if rcb == 0 else "FAIL"
                rc1, o1 = sh(["go", "test", "-count=1", "-run", rx, "./%s/" % pkg], cwd=wt)
                res["demo_patched"] = "fail" if rc1 != 0 else "PASSES(!)"
                os.remove("%s/%s/zz_seed_demo_test.go" % (wt, pkg))
                pkgs = sorted(set(os.path.dirname(x) for x in re.findall(r"^\+\+\+ b/(\S+)", open(diff).read(), re.M)))
                bad = []
                for p in pkgs:
                    rc2, o2 = sh(["go", "test", "-count=1", "./%s/" % p], cwd=wt, timeout=1500)
                    if rc2 != 0 and "no test files" not in o2:
                        bad.append(p + ": " + " | ".join(l for l in o2.splitlines() if l.startswith("--- FAIL"))[:200])
                res["existing_tests"] = "ok" if not bad else "FAIL " + "; ".join(bad)
        finally:
            sh(["git", "-C", "/repo", "worktree", "remove", "--force", wt])
        # run the check
        det, how = False, ""
        for tier in (["quick", "thorough"] if thorough else ["quick"]):
            wt2 = "/tmp/seedtest-%s-%d-%d" % (pid, n, os.getpid())
            sh(["git", "-C", "/repo", "worktree", "add", "-q", wt2, "HEAD"])
            sh(["git", "-C", wt2, "apply", diff])
            t0 = time.time()
            rc, o = sh(["./check", pid, "--tier", tier], cwd=ROOT, env=dict(ENV, VERIF_REPO=wt2), timeout=7200)
            sh(["git", "-C", "/repo", "worktree", "remove", "--force", wt2])
            vio = [l for l in o.splitlines() if l.startswith("VIOLATION")]
            why = [l for l in o.splitlines() if re.search(r"(oracle|correspondence|corpus|probe|crash) failure:|broken obligation|proof build FAILED|translator FAILED", l)]
            if rc == 1 and vio:
                det = True
                how = "%s tier (%.0fs): %d VIOLATION line(s); first: %s; reason(s): %s" % (tier, time.time() - t0, len(vio), vio[0][:160], " || ".join(w[:220] for w in why[:3]))
                break
            else:
                how += "%s tier (%.0fs): not detected (exit %d). " % (tier, time.time() - t0, rc)
        res["detected"] = det; res["detection"] = how
        d = os.path.join(ROOT, "seeded", "%s-%d" % (pid, n))
        os.makedirs(d, exist_ok=True)
        shutil.copy(diff, d + "/patch.diff"); shutil.copy(demo, d + "/demo_test.go")
        if os.path.exists("%s/change%d.md" % (out, k)):
            shutil.copy("%s/change%d.md" % (out, k), d + "/notes.md")
        json.dump({"id": "%s-%d" % (pid, n), "property": pid,
                   "author": "independent sub-agent given only the property text and its own scratch worktree (nothing from /verif)",
                   "what_and_needs": "see notes.md (written by the author: what the change is, which clause it breaks, what it needs in order to manifest)",
                   "demo": {"place_in": pkg, "run": "go test -count=1 -run '%s' ./%s/" % (rx, pkg)},
                   "confirmed_by_lead": {k: res.get(k) for k in ("demo_unchanged", "build", "demo_patched", "existing_tests", "apply") if k in res},
                   "check_run": "./check %s against a scratch worktree with the patch applied (VERIF_REPO), tools/process_breaker.py" % pid,
                   "detected": det, "detection": how}, open(d + "/meta.json", "w"), indent=1)
        print("%s-%d: pkg=%s unchanged=%s patched=%s existing=%s detected=%s :: %s" % (pid, n, pkg, res.get("demo_unchanged"), res.get("demo_patched"), res.get("existing_tests"), det, how[:300]))

if __name__ == "__main__":
    main()
