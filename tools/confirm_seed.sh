#!/bin/bash
# tools/confirm_seed.sh <PROPERTY> <outdir> <n> <pkgdir> <TestNameRegex> [extra pkgs for existing tests]
# Confirms an independently written breaking change: demo passes on the unchanged tree, fails with the change,
# and the touched packages' existing tests still pass with the change. Works in a scratch worktree only.
set -u
pid="$1"; out="$2"; n="$3"; pkg="$4"; tst="$5"; shift 5
export GOFLAGS=-mod=mod GOPROXY=off GOSUMDB=off GOTOOLCHAIN=local
wt="/tmp/confirm-$pid-$n-$$"
git -C /repo worktree add -q "$wt" HEAD || exit 2
demo="$out/change${n}_demo_test.go"
cp "$demo" "$wt/$pkg/zz_seed_demo_test.go"
echo "== demo on unchanged tree (expect PASS)"
(cd "$wt" && go test -count=1 -run "$tst" "./$pkg/" 2>&1 | tail -3); a=${PIPESTATUS[0]}
git -C "$wt" apply "$out/change$n.diff" || { echo "patch does not apply"; git -C /repo worktree remove --force "$wt"; exit 2; }
echo "== build with change"
(cd "$wt" && go build ./... 2>&1 | tail -3)
echo "== demo with change (expect FAIL)"
(cd "$wt" && go test -count=1 -run "$tst" "./$pkg/" 2>&1 | tail -5)
rm "$wt/$pkg/zz_seed_demo_test.go"
echo "== existing tests of touched packages with change (expect ok)"
for p in "$pkg" "$@"; do (cd "$wt" && go test -count=1 "./$p/" 2>&1 | tail -2); done
git -C /repo worktree remove --force "$wt"
