#!/bin/bash
# tools/integrate.sh Cnn… — run each check on the unchanged tree, validate evidence, regenerate MANIFEST.json, commit.
cd "$(dirname "$0")/.."
for pid in "$@"; do
  s=$(date +%s)
  ./check "$pid" --tier quick > ".build/integrate-$pid.log" 2>&1; rc=$?
  e=$(( $(date +%s) - s ))
  v=$(grep -c '^VIOLATION' ".build/integrate-$pid.log")
  k=$(grep -c '^KNOWN-FINDING' ".build/integrate-$pid.log")
  ok=$(python3-vt -c "import json,jsonschema; jsonschema.validate(json.load(open('evidence/$pid.json')), json.load(open('/root/.vp/EVIDENCE.schema.json'))); print('valid')" 2>&1 | tail -1)
  echo "$pid: exit=$rc violations=$v known=$k wall=${e}s evidence=$ok"
done
python3 tools/mkmanifest.py
python3-vt -c "import json,jsonschema; jsonschema.validate(json.load(open('MANIFEST.json')), json.load(open('/root/.vp/MANIFEST.schema.json'))); print('manifest valid')"
