#!/usr/bin/env python3
"""tools/recheck_seeds.py [ids…] — re-run ./check (quick, then thorough) against scratch worktrees for seeded changes that
were NOT detected when first tried (or the given ids) and record the outcome in meta.json under `after_strengthening`."""
import sys, os, json, glob, subprocess, re, time
ROOT = os.path.dirname(os.path.dirname(os.path.abspath(__file__)))
ENV = dict(os.environ, GOFLAGS="-mod=mod", GOPROXY="off", GOSUMDB="off", GOTOOLCHAIN="local")
ids = sys.argv[1:]
for f in sorted(glob.glob(os.path.join(ROOT, "seeded", "*", "meta.json"))):
    m = json.load(open(f))
    if ids and m["id"] not in ids: continue
    if not ids and (m.get("detected") or (m.get("after_strengthening") or {}).get("detected")): continue
    pid = m["property"]; d = os.path.dirname(f)
    out = {"detected": False, "detection": ""}
    for tier in ("quick", "thorough"):
        wt = "/tmp/recheck-%s-%d" % (m["id"], os.getpid())
        subprocess.run(["git", "-C", "/repo", "worktree", "add", "-q", wt, "HEAD"])
        subprocess.run(["git", "-C", wt, "apply", os.path.join(d, "patch.diff")])
        t0 = time.time()
        p = subprocess.run(["./check", pid, "--tier", tier], cwd=ROOT, env=dict(ENV, VERIF_REPO=wt), stdout=subprocess.PIPE, stderr=subprocess.STDOUT, text=True, errors="replace")
        subprocess.run(["git", "-C", "/repo", "worktree", "remove", "--force", wt])
        vio = [l for l in p.stdout.splitlines() if l.startswith("VIOLATION")]
        why = [l for l in p.stdout.splitlines() if re.search(r"(oracle|correspondence|corpus|probe|crash) failure:|broken obligation|proof build FAILED|translator FAILED", l)]
        if p.returncode == 1 and vio:
            out = {"detected": True, "detection": "%s tier (%.0fs): %d VIOLATION line(s); first: %s; reason(s): %s" % (tier, time.time() - t0, len(vio), vio[0][:160], " || ".join(w[:220] for w in why[:2]))}
            break
        out["detection"] += "%s tier (%.0fs): not detected (exit %d). " % (tier, time.time() - t0, p.returncode)
    out["repo_head"] = subprocess.run(["git", "-C", "/repo", "rev-parse", "--short", "HEAD"], stdout=subprocess.PIPE, text=True).stdout.strip()
    out["verif_head"] = subprocess.run(["git", "-C", ROOT, "rev-parse", "--short", "HEAD"], stdout=subprocess.PIPE, text=True).stdout.strip()
    m["after_strengthening"] = out
    json.dump(m, open(f, "w"), indent=1)
    print(m["id"], out["detected"], out["detection"][:200], flush=True)
