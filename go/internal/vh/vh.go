// Package vh is the shared skeleton of the verification harnesses: one seeded PRNG, the line
// protocol to the compiled Lean drivers, result/replay files, delta-debugging shrinker.
//
// Every harness binary (cmd/cNN) speaks the same CLI, consumed by /verif/check:
//
//	cNN run    -tier quick|thorough -seed N -driver <lean driver exe> -out <result.json> -replaydir <dir>
//	cNN replay -driver <exe> <replay file>        (exit 0 = no longer fails, 1 = still fails)
//	cNN gen    -out <dir>                         (optional: translator that regenerates Lean sources)
package vh

import (
	"bufio"
	"crypto/sha256"
	"encoding/hex"
	"encoding/json"
	"flag"
	"fmt"
	"io"
	"os"
	"os/exec"
	"path/filepath"
	"sort"
	"strings"
	"time"
)

// ---------------------------------------------------------------------------------------------
// PRNG: splitmix64, every random choice of a harness derives from one of these.

type RNG struct{ s uint64 }

// NewRNG hashes the seed first: splitmix64 states for seed and seed+1 would otherwise be the same
// stream shifted by one output, and VERIF_SEED=1..n would explore nearly identical cases.
func NewRNG(seed uint64) *RNG {
	z := seed + 0x9E3779B97F4A7C15
	z = (z ^ (z >> 30)) * 0xBF58476D1CE4E5B9
	z = (z ^ (z >> 27)) * 0x94D049BB133111EB
	z ^= z >> 31
	z = (z ^ (z >> 33)) * 0xFF51AFD7ED558CCD
	z ^= z >> 33
	return &RNG{s: z}
}

func (r *RNG) U64() uint64 {
	r.s += 0x9E3779B97F4A7C15
	z := r.s
	z = (z ^ (z >> 30)) * 0xBF58476D1CE4E5B9
	z = (z ^ (z >> 27)) * 0x94D049BB133111EB
	return z ^ (z >> 31)
}
func (r *RNG) Intn(n int) int {
	if n <= 0 {
		return 0
	}
	return int(r.U64() % uint64(n))
}
func (r *RNG) Bool() bool           { return r.U64()&1 == 1 }
func (r *RNG) Chance(p int) bool    { return r.Intn(100) < p } // p percent
func (r *RNG) Range(lo, hi int) int { return lo + r.Intn(hi-lo+1) }
func (r *RNG) Bytes(n int) []byte {
	b := make([]byte, n)
	for i := range b {
		b[i] = byte(r.U64())
	}
	return b
}
func (r *RNG) Fork() *RNG { return NewRNG(r.U64()) }

// Pick returns a random element index weighted by w.
func (r *RNG) Weighted(w []int) int {
	t := 0
	for _, x := range w {
		t += x
	}
	k := r.Intn(t)
	for i, x := range w {
		if k < x {
			return i
		}
		k -= x
	}
	return len(w) - 1
}

// ---------------------------------------------------------------------------------------------
// Lean driver process (line in, line out).

type Driver struct {
	cmd  *exec.Cmd
	in   io.WriteCloser
	out  *bufio.Reader
	Path string
}

func StartDriver(path string, args ...string) (*Driver, error) {
	cmd := exec.Command(path, args...)
	in, err := cmd.StdinPipe()
	if err != nil {
		return nil, err
	}
	out, err := cmd.StdoutPipe()
	if err != nil {
		return nil, err
	}
	cmd.Stderr = os.Stderr
	if err := cmd.Start(); err != nil {
		return nil, err
	}
	return &Driver{cmd: cmd, in: in, out: bufio.NewReaderSize(out, 1<<20), Path: path}, nil
}

// Ask sends one line and reads one line back.
func (d *Driver) Ask(line string) (string, error) {
	if strings.ContainsAny(line, "\n\r") {
		return "", fmt.Errorf("protocol line contains newline: %q", line)
	}
	if _, err := io.WriteString(d.in, line+"\n"); err != nil {
		return "", err
	}
	resp, err := d.out.ReadString('\n')
	if err != nil {
		return "", fmt.Errorf("driver closed: %v", err)
	}
	return strings.TrimRight(resp, "\r\n"), nil
}

func (d *Driver) Close() {
	d.in.Close()
	done := make(chan struct{})
	go func() { d.cmd.Wait(); close(done) }()
	select {
	case <-done:
	case <-time.After(5 * time.Second):
		d.cmd.Process.Kill()
	}
}

// RunBatch starts a fresh driver, feeds all lines, returns all response lines (one per input line).
func RunBatch(path string, lines []string, args ...string) ([]string, error) {
	cmd := exec.Command(path, args...)
	cmd.Stdin = strings.NewReader(strings.Join(lines, "\n") + "\n")
	cmd.Stderr = os.Stderr
	outb, err := cmd.Output()
	if err != nil {
		return nil, fmt.Errorf("driver %s: %v", path, err)
	}
	s := strings.TrimRight(string(outb), "\n")
	if s == "" {
		return nil, nil
	}
	return strings.Split(s, "\n"), nil
}

// ---------------------------------------------------------------------------------------------
// Result file consumed by /verif/check.

type Failure struct {
	Kind    string `json:"kind"`    // correspondence | oracle | corpus | crash
	Matcher string `json:"matcher"` // name of the known-finding matcher the (shrunk) input satisfies, or ""
	What    string `json:"what"`
	Replay  string `json:"replay"`
}

type Probe struct {
	ID         string `json:"id"`
	Reproduced bool   `json:"reproduced"`
	What       string `json:"what"`
}

type Result struct {
	Property     string                 `json:"property"`
	Tier         string                 `json:"tier"`
	Seed         uint64                 `json:"seed"`
	Evaluations  int                    `json:"evaluations"`
	Nontrivial   int                    `json:"distinct_nontrivial"`
	Rule         string                 `json:"rule"`
	Samples      []interface{}          `json:"samples"`
	Distribution map[string]int         `json:"distribution"`
	TracesVsImpl int                    `json:"traces_validated_against_impl"`
	Failures     []Failure              `json:"failures"`
	Probes       []Probe                `json:"known_probes"`
	Partial      []string               `json:"partial"`
	Extra        map[string]interface{} `json:"extra,omitempty"`
	seen         map[string]bool
}

func NewResult(prop, tier string, seed uint64) *Result {
	return &Result{Property: prop, Tier: tier, Seed: seed, Distribution: map[string]int{}, seen: map[string]bool{},
		Samples: []interface{}{}, Failures: []Failure{}, Probes: []Probe{}, Partial: []string{}, Extra: map[string]interface{}{}}
}

// Count records one evaluated case: canon is its canonical form (hashed for distinctness),
// nontrivial says whether it meets the property's non-triviality rule.
func (r *Result) Count(canon string, nontrivial bool) {
	r.Evaluations++
	if !nontrivial {
		return
	}
	h := sha256.Sum256([]byte(canon))
	k := hex.EncodeToString(h[:12])
	if !r.seen[k] {
		r.seen[k] = true
		r.Nontrivial++
	}
}
func (r *Result) Dist(key string)         { r.Distribution[key]++ }
func (r *Result) DistN(key string, n int) { r.Distribution[key] += n }
func (r *Result) Sample(s interface{}) {
	if len(r.Samples) < 5 {
		r.Samples = append(r.Samples, s)
	}
}
func (r *Result) Fail(kind, matcher, what, replay string) {
	// keep the result file bounded
	if len(r.Failures) < 50 {
		r.Failures = append(r.Failures, Failure{kind, matcher, what, replay})
	}
}
func (r *Result) Write(path string) error {
	b, err := json.MarshalIndent(r, "", " ")
	if err != nil {
		return err
	}
	return os.WriteFile(path, b, 0o644)
}

// WriteReplay writes a self-contained replay file and returns its path.
func WriteReplay(dir, prop, name string, seed uint64, header []string, body []string) string {
	os.MkdirAll(dir, 0o755)
	p := filepath.Join(dir, fmt.Sprintf("%s-%s.replay", prop, name))
	var sb strings.Builder
	fmt.Fprintf(&sb, "# property %s\n# seed %d\n", prop, seed)
	for _, h := range header {
		fmt.Fprintf(&sb, "# %s\n", h)
	}
	for _, l := range body {
		sb.WriteString(l)
		sb.WriteByte('\n')
	}
	os.WriteFile(p, []byte(sb.String()), 0o644)
	return p
}

// ReadReplay returns the non-comment lines and the comment lines of a replay/corpus file.
func ReadReplay(path string) (body []string, comments []string, err error) {
	b, err := os.ReadFile(path)
	if err != nil {
		return nil, nil, err
	}
	for _, l := range strings.Split(string(b), "\n") {
		l = strings.TrimRight(l, "\r")
		if l == "" {
			continue
		}
		if strings.HasPrefix(l, "#") {
			comments = append(comments, strings.TrimSpace(l[1:]))
		} else {
			body = append(body, l)
		}
	}
	return
}

// RepoRoot is the go-youchain tree the harness was built against (/repo, or a scratch worktree in
// mutation self-tests). Translators and anything else that reads sources must use it.
func RepoRoot() string {
	if r := os.Getenv("VERIF_REPO"); r != "" {
		return r
	}
	return "/repo"
}

// CorpusFiles lists /verif/corpus/<prop>/* sorted.
func CorpusFiles(prop string) []string {
	root := os.Getenv("VERIF_ROOT")
	if root == "" {
		root = "/verif"
	}
	m, _ := filepath.Glob(filepath.Join(root, "corpus", prop, "*"))
	sort.Strings(m)
	return m
}

// ---------------------------------------------------------------------------------------------
// ddmin-style shrinking of an op list: fails(ops) must be deterministic.

func Shrink(ops []string, fails func([]string) bool) []string {
	if !fails(ops) {
		return ops
	}
	n := 2
	for len(ops) >= 2 {
		chunk := (len(ops) + n - 1) / n
		reduced := false
		for i := 0; i < len(ops); i += chunk {
			j := i + chunk
			if j > len(ops) {
				j = len(ops)
			}
			cand := append(append([]string{}, ops[:i]...), ops[j:]...)
			if len(cand) > 0 && fails(cand) {
				ops = cand
				if n > 2 {
					n--
				}
				reduced = true
				break
			}
		}
		if !reduced {
			if chunk == 1 {
				break
			}
			n *= 2
			if n > len(ops) {
				n = len(ops)
			}
		}
	}
	return ops
}

// ---------------------------------------------------------------------------------------------
// CLI skeleton.

type Ctx struct {
	Tier      string
	Seed      uint64
	Driver    string
	Out       string
	ReplayDir string
	Search    bool // the proof or generated model broke: spend the budget on the implementation-level oracle
	Res       *Result
	R         *RNG
}

func (c *Ctx) Thorough() bool { return c.Tier == "thorough" }

// Pick chooses quick or thorough size.
func (c *Ctx) N(quick, thorough int) int {
	if c.Thorough() {
		return thorough
	}
	return quick
}

type Harness struct {
	Property string
	Run      func(c *Ctx) error                                   // fills c.Res
	Replay   func(c *Ctx, body, comments []string) (bool, string) // stillFails, description
	Gen      func(outDir string) error                            // optional translator
}

func Main(h Harness) {
	if len(os.Args) < 2 {
		fmt.Fprintln(os.Stderr, "usage: run|replay|gen ...")
		os.Exit(2)
	}
	sub := os.Args[1]
	fs := flag.NewFlagSet(sub, flag.ExitOnError)
	tier := fs.String("tier", "quick", "")
	seed := fs.Uint64("seed", 1, "")
	driver := fs.String("driver", "", "")
	out := fs.String("out", "", "")
	replaydir := fs.String("replaydir", "/verif/replays", "")
	search := fs.Bool("search", false, "")
	fs.Parse(os.Args[2:])
	c := &Ctx{Tier: *tier, Seed: *seed, Driver: *driver, Out: *out, ReplayDir: *replaydir, Search: *search}
	c.R = NewRNG(*seed)
	c.Res = NewResult(h.Property, *tier, *seed)
	switch sub {
	case "run":
		err := h.Run(c)
		if err != nil {
			// a harness that cannot run is a broken tie, reported as such by check
			c.Res.Fail("crash", "", "harness error: "+err.Error(), "")
		}
		if *out != "" {
			if werr := c.Res.Write(*out); werr != nil {
				fmt.Fprintln(os.Stderr, werr)
				os.Exit(2)
			}
		}
		if err != nil {
			fmt.Fprintln(os.Stderr, "harness error:", err)
			os.Exit(3)
		}
	case "replay":
		if h.Replay == nil || fs.NArg() < 1 {
			fmt.Fprintln(os.Stderr, "replay not supported / no file")
			os.Exit(2)
		}
		body, comments, err := ReadReplay(fs.Arg(0))
		if err != nil {
			fmt.Fprintln(os.Stderr, err)
			os.Exit(2)
		}
		still, what := h.Replay(c, body, comments)
		fmt.Println(what)
		if still {
			os.Exit(1)
		}
	case "gen":
		if h.Gen == nil {
			fmt.Fprintln(os.Stderr, "no translator for this property")
			os.Exit(2)
		}
		outDir := *out
		if err := h.Gen(outDir); err != nil {
			fmt.Fprintln(os.Stderr, "gen error:", err)
			os.Exit(1)
		}
	default:
		fmt.Fprintln(os.Stderr, "unknown subcommand", sub)
		os.Exit(2)
	}
}
