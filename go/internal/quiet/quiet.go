// Package quiet silences go-youchain's library logging (it logs at INFO to stdout from library code);
// harness binaries keep stdout for their own output.
package quiet

import "github.com/youchainhq/go-youchain/logging"

func init() { Silence() }

// Silence routes everything below Crit to nowhere.
func Silence() { logging.Verbosity(logging.LvlCrit) }
