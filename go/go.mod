module verifharness

go 1.21

require (
	github.com/youchainhq/go-youchain v0.0.0
	gonum.org/v1/gonum v0.0.0-20190628223043-536a303fd62f
)

require (
	github.com/ALTree/bigfloat v0.0.0-20180506151649-b176f1e721fc // indirect
	github.com/aristanetworks/goarista v0.0.0-20180907105523-ff33da284e76 // indirect
	github.com/ccding/go-stun v0.1.2 // indirect
	github.com/cheekybits/genny v1.0.0 // indirect
	github.com/deckarep/golang-set v1.7.1 // indirect
	github.com/go-stack/stack v1.8.0 // indirect
	github.com/golang/protobuf v1.3.0 // indirect
	github.com/golang/snappy v0.0.1 // indirect
	github.com/hashicorp/golang-lru v0.5.0 // indirect
	github.com/huin/goupnp v0.0.0-20180415215157-1395d1447324 // indirect
	github.com/influxdata/influxdb1-client v0.0.0-20190402204710-8ff2fc3824fc // indirect
	github.com/jackpal/go-nat-pmp v0.0.0-20170405195558-28a68d0c24ad // indirect
	github.com/lucas-clemente/quic-go v0.14.5 // indirect
	github.com/marten-seemann/qtls v0.4.1 // indirect
	github.com/mattn/go-colorable v0.0.9 // indirect
	github.com/mattn/go-isatty v0.0.9 // indirect
	github.com/minio/blake2b-simd v0.0.0-20160723061019-3f5f724cb5b1 // indirect
	github.com/minio/sha256-simd v0.1.1-0.20190913151208-6de447530771 // indirect
	github.com/mr-tron/base58 v1.1.3 // indirect
	github.com/multiformats/go-multiaddr v0.0.0-20180721003118-d6ad8896def6 // indirect
	github.com/multiformats/go-multihash v0.0.13 // indirect
	github.com/multiformats/go-varint v0.0.5 // indirect
	github.com/nanyan/golz4 v1.0.0 // indirect
	github.com/pborman/uuid v0.0.0-20180827223501-4c1ecd6722e8 // indirect
	github.com/rcrowley/go-metrics v0.0.0-20190826022208-cac0b30c2563 // indirect
	github.com/rs/cors v0.0.0-20180826180256-dc7332ab32be // indirect
	github.com/spaolacci/murmur3 v1.1.0 // indirect
	github.com/syndtr/goleveldb v1.0.0 // indirect
	github.com/youchainhq/bls v0.9.0 // indirect
	golang.org/x/crypto v0.0.0-20200423211502-4bdfaf469ed5 // indirect
	golang.org/x/exp v0.0.0-20190125153040-c74c464bbbf2 // indirect
	golang.org/x/net v0.0.0-20200226121028-0de0cce0169b // indirect
	golang.org/x/sys v0.0.0-20190904154756-749cb33beabd // indirect
	golang.org/x/text v0.3.0 // indirect
	gopkg.in/karalabe/cookiejar.v2 v2.0.0-20150724131613-8dcd6a7f4951 // indirect
	gopkg.in/natefinch/lumberjack.v2 v2.0.0-20170531160350-a96e63847dc3 // indirect
)

replace github.com/youchainhq/go-youchain => /repo

replace github.com/lucas-clemente/quic-go v0.14.5 => github.com/youchainhq/quic-go v0.14.5
