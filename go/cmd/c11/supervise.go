package main

// `c11 run` is a thin parent: the cases run in a child process (same binary, C11_CHILD=1).  A fatal error of the Go
// runtime in the code under test (stack overflow of an unbounded recursion, deadlock, os.Exit from logging.Crit) cannot be
// recovered in-process; the child therefore journals the case (and crash-prefix sub-case) in flight to a fixed file, and
// when it dies the parent turns the journal into a `crash` failure with a replay file and continues with a new child:
// first in cautious mode (a node whose head differs from the uncrashed node's after re-importing the interrupted blocks is
// reported as wedged WITHOUT offering the further block), and past the case if it dies at the same place again.

import (
	"bytes"
	"encoding/json"
	"fmt"
	"io"
	"os"
	"os/exec"
	"path/filepath"
	"runtime/debug"
	"strconv"
	"strings"
	"sync"

	"verifharness/internal/vh"
)

// ---- journal (child side) ------------------------------------------------------------------------------------------------

type journal struct {
	f     *os.File
	idx   int
	name  string
	lines []string
}

var (
	jr       *journal
	caseIdx  int  // index of the case in flight (same enumeration in every child: generation is deterministic)
	resumeAt int  // cases below this index were handled by an earlier child
	cautious bool // a child died before: do not offer the further block to a node that did not rejoin
)

func inflightPath(dir string) string { return filepath.Join(dir, "C11-inflight.replay") }

func (j *journal) write(call, k int, phase string) {
	if j == nil || j.f == nil {
		return
	}
	var sb strings.Builder
	fmt.Fprintf(&sb, "# inflight case=%d name=%s call=%d k=%d phase=%s\n", j.idx, j.name, call, k, phase)
	for _, l := range j.lines {
		sb.WriteString(l)
		sb.WriteByte('\n')
	}
	b := []byte(sb.String())
	j.f.WriteAt(b, 0)
	j.f.Truncate(int64(len(b)))
}

// enter registers the next case; false = already handled by an earlier child.
func enter(name string, lines []string) bool {
	caseIdx++
	if caseIdx-1 < resumeAt {
		return false
	}
	if jr != nil {
		jr.idx, jr.name, jr.lines = caseIdx-1, name, lines
		jr.write(-1, -1, "start")
	}
	return true
}

func sub(call, k int, phase string) {
	if jr != nil && jr.lines != nil {
		jr.write(call, k, phase)
	}
}

// ---- parent ------------------------------------------------------------------------------------------------------------------

type tailBuf struct {
	mu   sync.Mutex
	b    []byte
	head []byte // the first 16 KiB: a fatal error prints its reason first, then a long goroutine dump
}

func (t *tailBuf) Write(p []byte) (int, error) {
	t.mu.Lock()
	if len(t.head) < 1<<14 {
		t.head = append(t.head, p...)
	}
	t.b = append(t.b, p...)
	if len(t.b) > 1<<16 {
		t.b = t.b[len(t.b)-(1<<15):]
	}
	t.mu.Unlock()
	return len(p), nil
}

func merge(dst *vh.Result, src *vh.Result) {
	dst.Evaluations += src.Evaluations
	dst.Nontrivial += src.Nontrivial
	dst.TracesVsImpl += src.TracesVsImpl
	for k, v := range src.Distribution {
		dst.Distribution[k] += v
	}
	if dst.Rule == "" {
		dst.Rule = src.Rule
	}
	if len(dst.Samples) == 0 {
		dst.Samples = src.Samples
	}
	if len(dst.Partial) == 0 {
		dst.Partial = src.Partial
	}
	for _, f := range src.Failures {
		dst.Fail(f.Kind, f.Matcher, f.What, f.Replay)
	}
	for _, p := range src.Probes {
		dup := false
		for _, q := range dst.Probes {
			if q.ID == p.ID {
				dup = true
			}
		}
		if !dup {
			dst.Probes = append(dst.Probes, p)
		}
	}
}

func superviseRun(c *vh.Ctx) error {
	if os.Getenv("C11_CHILD") == "1" {
		debug.SetMaxStack(64 << 20) // an unbounded recursion dies fast
		resumeAt, _ = strconv.Atoi(os.Getenv("C11_RESUME"))
		cautious = os.Getenv("C11_CAUTIOUS") == "1"
		if f, err := os.OpenFile(inflightPath(c.ReplayDir), os.O_CREATE|os.O_RDWR|os.O_TRUNC, 0o644); err == nil {
			jr = &journal{f: f}
			defer func() { f.Close(); os.Remove(inflightPath(c.ReplayDir)) }()
		}
		return run(c)
	}
	self, err := os.Executable()
	if err != nil {
		return err
	}
	resume, deaths, lastDeath := 0, 0, ""
	caut := false
	for round := 0; ; round++ {
		tmp := fmt.Sprintf("%s.child%d", c.Out, round)
		if c.Out == "" {
			tmp = filepath.Join(os.TempDir(), fmt.Sprintf("c11-child-%d-%d.json", os.Getpid(), round))
		}
		os.Remove(tmp)
		args := []string{"run", "-tier", c.Tier, "-seed", fmt.Sprint(c.Seed), "-driver", c.Driver, "-out", tmp, "-replaydir", c.ReplayDir}
		if c.Search {
			args = append(args, "-search")
		}
		cmd := exec.Command(self, args...)
		cmd.Env = append(os.Environ(), "C11_CHILD=1", fmt.Sprintf("C11_RESUME=%d", resume))
		if caut {
			cmd.Env = append(cmd.Env, "C11_CAUTIOUS=1")
		}
		tail := &tailBuf{}
		cmd.Stdout = os.Stdout
		cmd.Stderr = io.MultiWriter(tail)
		runErr := cmd.Run()
		code := 0
		if runErr != nil {
			code = -1
			if ee, ok := runErr.(*exec.ExitError); ok {
				code = ee.ExitCode()
			}
		}
		if b, e := os.ReadFile(tmp); e == nil {
			var r vh.Result
			if json.Unmarshal(b, &r) == nil && r.Distribution != nil {
				merge(c.Res, &r)
			}
		}
		os.Remove(tmp)
		if code == 0 {
			return nil
		}
		if code == 3 { // the child reported a harness error through its result file
			os.Stderr.Write(tail.b)
			return fmt.Errorf("child harness error")
		}
		// the child died: fatal error in the code under test
		deaths++
		jb, _ := os.ReadFile(inflightPath(c.ReplayDir))
		os.Remove(inflightPath(c.ReplayDir))
		hdr, body := "", []string{}
		for i, l := range strings.Split(string(jb), "\n") {
			if i == 0 {
				hdr = l
			} else if l != "" {
				body = append(body, l)
			}
		}
		var idx, call, k int
		var name, phase string
		fmt.Sscanf(hdr, "# inflight case=%d name=%s call=%d k=%d phase=%s", &idx, &name, &call, &k, &phase)
		// the essential stderr lines of the death
		var why []string
		for _, l := range strings.Split(string(tail.head)+"\n"+string(tail.b), "\n") {
			if strings.Contains(l, "fatal error") || strings.Contains(l, "stack overflow") || strings.Contains(l, "exceeds") || strings.HasPrefix(l, "panic:") || strings.Contains(l, "all goroutines are asleep") {
				why = append(why, strings.TrimSpace(l))
			}
			if len(why) >= 4 {
				break
			}
		}
		if len(why) == 0 {
			why = []string{fmt.Sprintf("child exit code %d", code)}
		}
		var keep []string
		for _, l := range body {
			if strings.HasPrefix(l, "X ") && k >= 0 && l != fmt.Sprintf("X %d", call) {
				continue
			}
			keep = append(keep, l)
		}
		what := fmt.Sprintf("fatal: the process died (%s) while running case %s, call %d", strings.Join(why, " | "), name, call)
		if k >= 0 {
			what += fmt.Sprintf(", crash after %d primitive writes, phase %s (restart / re-import of the interrupted blocks / import of one further valid block)", k, phase)
		}
		if len(jb) == 0 {
			what = "fatal: the harness child died without a journal: " + strings.Join(why, " | ")
		}
		rp := vh.WriteReplay(c.ReplayDir, "C11", fmt.Sprintf("fatal-%s-%d", name, deaths), c.Seed, []string{"crash: " + what}, keep)
		c.Res.Fail("crash", "", what, rp)
		c.Res.Dist("child-process-died")
		here := fmt.Sprintf("%d/%d/%d/%s", idx, call, k, phase)
		switch {
		case deaths >= 12 || len(jb) == 0:
			return nil // enough: the failures are reported
		case !caut:
			caut, resume = true, idx // once more, cautiously
		case phase == "further" && here != lastDeath:
			resume = idx
		default:
			resume = idx + 1 // cautious mode does not help here: go past this case
		}
		lastDeath = here
	}
}

var _ = bytes.MinRead
