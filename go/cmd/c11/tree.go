package main

// Block trees built with core.GenerateChain + the solo engine over a private generator database
// (every generated block's state is kept there, so forks can start from any generated block).

import (
	"crypto/ecdsa"
	"fmt"
	"math/big"

	"github.com/youchainhq/go-youchain/common"
	"github.com/youchainhq/go-youchain/consensus/solo"
	"github.com/youchainhq/go-youchain/core"
	"github.com/youchainhq/go-youchain/core/types"
	"github.com/youchainhq/go-youchain/crypto"
	"github.com/youchainhq/go-youchain/params"
	"github.com/youchainhq/go-youchain/youdb"
)

const genesisTime = 1500000000

func key(i int) *ecdsa.PrivateKey {
	h := crypto.Keccak256([]byte(fmt.Sprintf("verif-c11-key-%d", i)))
	k, err := crypto.ToECDSA(h)
	if err != nil {
		panic(err)
	}
	return k
}

var (
	nKeys = 4
	keys  []*ecdsa.PrivateKey
	addrs []common.Address
)

func initKeys() {
	if keys != nil {
		return
	}
	for i := 0; i < nKeys; i++ {
		k := key(i)
		keys = append(keys, k)
		addrs = append(addrs, crypto.PubkeyToAddress(k.PublicKey))
	}
}

func gspec() *core.Genesis {
	initKeys()
	g := &core.Genesis{NetworkId: params.NetworkIdForTestCase, CurrVersion: params.YouCurrentVersion, Timestamp: genesisTime,
		Alloc: core.GenesisAlloc{}}
	for _, a := range addrs {
		g.Alloc[a] = core.GenesisAccount{Balance: new(big.Int).Mul(big.NewInt(1000000), big.NewInt(1000000000000))}
	}
	return g
}

// txSpec: sender key index -> one plain transfer with the sender's next nonce on that branch.
type txSpec struct {
	from, to int
	amount   int64
}

type forest struct {
	gdb     *youdb.MemDatabase
	genesis *types.Block
	proc    *core.StateProcessor
	eng     *solo.Solo
}

func newForest() *forest {
	gdb := youdb.NewMemDatabase()
	g := gspec().MustCommit(gdb)
	eng := solo.NewSolo()
	return &forest{gdb: gdb, genesis: g, proc: core.NewStateProcessor(nil, eng), eng: eng}
}

// child builds one valid block on parent (whose state is in the generator database).
// salt makes siblings with equal transactions distinct (goes into Extra); dt is the timestamp increment.
func (f *forest) child(parent *types.Block, txs []txSpec, salt byte, dt uint64) *types.Block {
	signer := types.MakeSigner(big.NewInt(0))
	blocks, _ := core.GenerateChain(parent, f.eng, f.gdb, 1, f.proc, func(i int, g *core.BlockGen) {
		g.SetCoinbase(common.Address{19: salt})
		g.SetExtra([]byte{salt})
		g.Header().Time = parent.Time() + dt
		for _, t := range txs {
			tx, err := types.SignTx(types.NewTransaction(g.TxNonce(addrs[t.from]), addrs[t.to], big.NewInt(t.amount), params.TxGas, big.NewInt(1), nil), signer, keys[t.from])
			if err != nil {
				panic(err)
			}
			g.AddTx(tx)
		}
	})
	return blocks[0]
}

// reheader returns the block with a mutated header (hash changes) and the same body.
func reheader(b *types.Block, mut func(h *types.Header)) *types.Block {
	h := b.Header()
	mut(h)
	return types.NewBlockWithHeader(h).WithBody(b.Body())
}
