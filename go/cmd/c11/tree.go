package main

// Block trees built with core.GenerateChain + the solo engine over a private generator database
// (every generated block's state is kept there, so forks can start from any generated block).

import (
	"crypto/ecdsa"
	"fmt"
	"math/big"

	"github.com/youchainhq/go-youchain/common"
	"github.com/youchainhq/go-youchain/consensus/solo"
	"github.com/youchainhq/go-youchain/core"
	"github.com/youchainhq/go-youchain/core/state"
	"github.com/youchainhq/go-youchain/core/types"
	"github.com/youchainhq/go-youchain/core/vm"
	"github.com/youchainhq/go-youchain/crypto"
	"github.com/youchainhq/go-youchain/local"
	"github.com/youchainhq/go-youchain/params"
	"github.com/youchainhq/go-youchain/youdb"
)

// Two fixtures make block execution depend on the block's OWN ancestry, as real YOUChain blocks do (staking end-block
// hook reads the parent header and VersionForRound; contracts read BLOCKHASH):
//   - bhAddr: a contract that stores BLOCKHASH(number-1) and BLOCKHASH(number-2); transaction spec "<from>-b-0";
//   - in strict mode an end-of-block hook on the processor that fetches the parent header through the chain reader it is
//     given, asks it VersionForRound(number), and writes parent.Root into the storage of hookAddr.  The builder's hook
//     looks the parent up in the forest (ground truth); the importer's hook uses the chain reader the code under test
//     hands it: a nil parent panics (as staking.checkAndUpgradeValidatorsToYouV5 dereferences it), a failing
//     VersionForRound returns an error without the write (as the staking hook returns without its receipt).
var (
	bhAddr   = common.HexToAddress("0xb10c4a5400000000000000000000000000000011")
	hookAddr = common.HexToAddress("0x400c000000000000000000000000000000000011")
	// PUSH1 1 NUMBER SUB BLOCKHASH PUSH1 0 SSTORE  PUSH1 2 NUMBER SUB BLOCKHASH PUSH1 1 SSTORE  STOP
	bhCode = common.FromHex("6001430340600055600243034060015500")
)

func hookWrite(st *state.StateDB, parent *types.Header) {
	st.SetState(hookAddr, common.Hash{}, parent.Root)
	st.SetState(hookAddr, common.Hash{31: 1}, common.BigToHash(parent.Number))
}

// importerHook is registered on the BlockChain's processor in strict mode.
func importerHook(chain vm.ChainReader, header *types.Header, txs []*types.Transaction, st *state.StateDB, seal bool, rec local.DetailRecorder) (*types.Receipt, []byte, error) {
	parent := chain.GetHeader(header.ParentHash, header.Number.Uint64()-1)
	if parent == nil {
		panic(fmt.Sprintf("end-block hook: the chain reader does not know the parent header of block %d", header.Number.Uint64()))
	}
	if _, err := chain.VersionForRound(header.Number.Uint64()); err != nil {
		return nil, nil, err
	}
	hookWrite(st, parent)
	return nil, nil, nil
}

const genesisTime = 1500000000

func key(i int) *ecdsa.PrivateKey {
	h := crypto.Keccak256([]byte(fmt.Sprintf("verif-c11-key-%d", i)))
	k, err := crypto.ToECDSA(h)
	if err != nil {
		panic(err)
	}
	return k
}

var (
	nKeys = 4
	keys  []*ecdsa.PrivateKey
	addrs []common.Address
)

func initKeys() {
	if keys != nil {
		return
	}
	for i := 0; i < nKeys; i++ {
		k := key(i)
		keys = append(keys, k)
		addrs = append(addrs, crypto.PubkeyToAddress(k.PublicKey))
	}
}

func gspec() *core.Genesis {
	initKeys()
	g := &core.Genesis{NetworkId: params.NetworkIdForTestCase, CurrVersion: params.YouCurrentVersion, Timestamp: genesisTime,
		Alloc: core.GenesisAlloc{}}
	for _, a := range addrs {
		g.Alloc[a] = core.GenesisAccount{Balance: new(big.Int).Mul(big.NewInt(1000000), big.NewInt(1000000000000))}
	}
	g.Alloc[bhAddr] = core.GenesisAccount{Balance: big.NewInt(1), Code: bhCode}
	g.Alloc[hookAddr] = core.GenesisAccount{Balance: big.NewInt(1)}
	return g
}

// txSpec: sender key index -> one plain transfer with the sender's next nonce on that branch; to = -1: a call of the
// BLOCKHASH contract.
type txSpec struct {
	from, to int
	amount   int64
}

type forest struct {
	gdb     *youdb.MemDatabase
	genesis *types.Block
	proc    *core.StateProcessor
	eng     *solo.Solo
	hdrs    map[common.Hash]*types.Header // every header the forest built (and mutants): the builder's chain view
}

// core.ChainContext of the builder
func (f *forest) VersionForRound(r uint64) (*params.YouParams, error) {
	yp := params.Versions[params.YouCurrentVersion]
	return &yp, nil
}
func (f *forest) GetHeader(h common.Hash, n uint64) *types.Header {
	if hd := f.hdrs[h]; hd != nil && hd.Number.Uint64() == n {
		return hd
	}
	return nil
}

func newForest(strict bool) *forest {
	gdb := youdb.NewMemDatabase()
	g := gspec().MustCommit(gdb)
	eng := solo.NewSolo()
	f := &forest{gdb: gdb, genesis: g, proc: core.NewStateProcessor(nil, eng), eng: eng, hdrs: map[common.Hash]*types.Header{}}
	f.hdrs[g.Hash()] = g.Header()
	if strict {
		f.proc.AddEndBlockHook("c11-parent", func(chain vm.ChainReader, header *types.Header, txs []*types.Transaction, st *state.StateDB, seal bool, rec local.DetailRecorder) (*types.Receipt, []byte, error) {
			parent := f.hdrs[header.ParentHash]
			if parent == nil {
				panic("builder: unknown parent")
			}
			hookWrite(st, parent)
			return nil, nil, nil
		})
	}
	return f
}

// child builds one valid block on parent (whose state is in the generator database).
// salt makes siblings with equal transactions distinct (goes into Extra); dt is the timestamp increment.
func (f *forest) child(parent *types.Block, txs []txSpec, salt byte, dt uint64) *types.Block {
	signer := types.MakeSigner(big.NewInt(0))
	blocks, _ := core.GenerateChain(parent, f.eng, f.gdb, 1, f.proc, func(i int, g *core.BlockGen) {
		g.SetCoinbase(common.Address{19: salt})
		g.SetExtra([]byte{salt})
		g.Header().Time = parent.Time() + dt
		for _, t := range txs {
			raw := types.NewTransaction(g.TxNonce(addrs[t.from]), bhAddr, big.NewInt(0), 100000, big.NewInt(1), nil)
			if t.to >= 0 {
				raw = types.NewTransaction(g.TxNonce(addrs[t.from]), addrs[t.to], big.NewInt(t.amount), params.TxGas, big.NewInt(1), nil)
			}
			tx, err := types.SignTx(raw, signer, keys[t.from])
			if err != nil {
				panic(err)
			}
			g.AddTxWithChain(f, tx)
		}
	})
	f.hdrs[blocks[0].Hash()] = blocks[0].Header()
	return blocks[0]
}

// reheader returns the block with a mutated header (hash changes) and the same body.
func reheader(b *types.Block, mut func(h *types.Header)) *types.Block {
	h := b.Header()
	mut(h)
	return types.NewBlockWithHeader(h).WithBody(b.Body())
}
