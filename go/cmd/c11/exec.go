package main

// Running a case on the real core.BlockChain, observing it, and the implementation-level oracle
// (the property's statement evaluated directly on the real code's observable behaviour).

import (
	"fmt"
	"sort"
	"strings"

	"github.com/youchainhq/go-youchain/common"
	"github.com/youchainhq/go-youchain/consensus"
	"github.com/youchainhq/go-youchain/core"
	"github.com/youchainhq/go-youchain/core/rawdb"
	"github.com/youchainhq/go-youchain/core/types"
	"github.com/youchainhq/go-youchain/event"
	"github.com/youchainhq/go-youchain/local"
	"github.com/youchainhq/go-youchain/params"
	"github.com/youchainhq/go-youchain/youdb"
)

type chain struct {
	k     *kase
	under *youdb.MemDatabase
	db    *recDB
	bc    *core.BlockChain
	mux   *event.TypeMux
	dead  string // set when the real code panicked: InsertChain holds chainMu without defer, the object is unusable
}

func (k *kase) engine() consensus.Engine {
	if k.mode == "strict" {
		return newVEngine(engineNow)
	}
	return k.f.eng
}

// open starts a BlockChain on the given database (restart = open on a frozen copy).
func (k *kase) open(under *youdb.MemDatabase) (c *chain, startPrims []prim, err error) {
	defer func() {
		if r := recover(); r != nil {
			err = fmt.Errorf("panic in NewBlockChain: %v", r)
		}
	}()
	db := newRecDB(under)
	db.inflate = k.inflate
	mux := new(event.TypeMux)
	db.start()
	bc, e := core.NewBlockChain(db, k.engine(), mux, params.ArchiveNode, local.FakeDetailDB())
	startPrims = db.stop()
	if e != nil {
		return nil, startPrims, e
	}
	if k.mode == "strict" {
		bc.Processor().AddEndBlockHook("c11-parent", importerHook)
	}
	return &chain{k: k, under: under, db: db, bc: bc, mux: mux}, startPrims, nil
}

func (c *chain) close() {
	if c != nil && c.bc != nil && c.dead == "" {
		c.bc.Stop()
	}
}

func (k *kase) fresh() (*chain, error) {
	under := youdb.NewMemDatabase()
	gspec().MustCommit(under)
	c, _, err := k.open(under)
	return c, err
}

// insert runs one InsertChain call, recording its primitive writes. Panics become an outcome.
func (c *chain) insert(ids []int) (res string, prims []prim) {
	if c.dead != "" {
		return c.dead, nil
	}
	c.db.start()
	func() {
		defer func() {
			if r := recover(); r != nil {
				res = fmt.Sprintf("panic: %v", r)
				c.dead = res
			}
		}()
		if err := c.bc.InsertChain(c.k.blocks(ids)); err != nil {
			res = "err"
		} else {
			res = "ok"
		}
	}()
	prims = c.db.stop()
	return
}

func (c *chain) idOf(h common.Hash) string {
	if h == (common.Hash{}) {
		return "-"
	}
	if id, ok := c.k.byHash[h]; ok {
		return fmt.Sprint(id)
	}
	return "?"
}

// observe: canonical text of everything the model also prints.
func (c *chain) observe() string {
	k := c.k
	var sb strings.Builder
	fmt.Fprintf(&sb, "head=%s canon=", c.idOf(c.bc.CurrentBlock().Hash()))
	for n := uint64(0); n <= k.obsH; n++ {
		if n > 0 {
			sb.WriteByte(',')
		}
		sb.WriteString(c.idOf(rawdb.ReadCanonicalHash(c.under, n)))
	}
	sb.WriteString(" look=")
	first := true
	for t, th := range k.txHash {
		bh, num, idx := rawdb.ReadTxLookupEntry(c.under, th)
		if bh == (common.Hash{}) {
			continue
		}
		if !first {
			sb.WriteByte(',')
		}
		first = false
		fmt.Fprintf(&sb, "%d:%s:%d:%d", t, c.idOf(bh), num, idx)
	}
	sb.WriteString(" stored=")
	for i, id := range k.order {
		n := k.nodes[id]
		v := 0
		if rawdb.HasBody(c.under, n.blk.Hash(), n.num) {
			v |= 1
		}
		if rawdb.ReadHeaderNumber(c.under, n.blk.Hash()) != nil {
			v |= 2
		}
		if rawdb.HasHeader(c.under, n.blk.Hash(), n.num) {
			v |= 4
		}
		if c.bc.HasState(n.blk.Root()) {
			v |= 8
		}
		if i > 0 {
			sb.WriteByte(',')
		}
		fmt.Fprintf(&sb, "%d:%x", id, v)
	}
	fmt.Fprintf(&sb, " hb=%s hh=%s", c.idOf(rawdb.ReadHeadBlockHash(c.under)), c.idOf(rawdb.ReadHeadHeaderHash(c.under)))
	return sb.String()
}

// ---- canonical form of the primitive write list -------------------------------------------------------

func (k *kase) tok(e kv) (string, keyClass) {
	ki := classify(e.key)
	id := func(h common.Hash) string {
		if x, ok := k.byHash[h]; ok {
			return fmt.Sprint(x)
		}
		return "?"
	}
	del := ""
	if e.val == nil {
		del = "!"
	}
	switch ki.class {
	case kBody:
		return del + "b" + id(ki.hash), ki.class
	case kHdrNum:
		return del + "n" + id(ki.hash), ki.class
	case kHdr:
		return del + "h" + id(ki.hash), ki.class
	case kCanon:
		if e.val == nil {
			return fmt.Sprintf("!c%d", ki.num), ki.class
		}
		return fmt.Sprintf("c%d=%s", ki.num, id(common.BytesToHash(e.val))), ki.class
	case kHeadHdr:
		return del + "H" + id(common.BytesToHash(e.val)), ki.class
	case kHeadBlk:
		return del + "K" + id(common.BytesToHash(e.val)), ki.class
	case kLookup:
		t := "?"
		if x, ok := k.txID[ki.hash]; ok {
			t = fmt.Sprint(x)
		}
		if e.val == nil {
			return "d" + t, ki.class
		}
		return "l" + t, ki.class // target is compared through the observed lookup table
	case kReceipts:
		return del + "r" + id(ki.hash), ki.class
	case kState:
		return "S", ki.class
	}
	return fmt.Sprintf("other(%x)", e.key), ki.class
}

// canonWrites returns the canonical token list and, for every raw prefix length 0..len(prims), the number of
// canonical tokens completed by that prefix (a run of state-class writes is one token `S`, complete only when
// its last non-empty primitive is written; empty batches are dropped; inside a batch the last write per key
// wins and tokens are sorted).
func (k *kase) canonWrites(prims []prim) (toks []string, done []int) {
	type cp struct {
		tok   string
		state bool
		empty bool
	}
	var cs []cp
	for _, p := range prims {
		if len(p.kvs) == 0 {
			cs = append(cs, cp{empty: true})
			continue
		}
		if !p.batch {
			t, cl := k.tok(p.kvs[0])
			cs = append(cs, cp{tok: t, state: cl == kState})
			continue
		}
		last := map[string]string{}
		allState := true
		for _, e := range p.kvs {
			t, cl := k.tok(e)
			if cl != kState {
				allState = false
			}
			last[string(e.key)] = t
		}
		if allState {
			cs = append(cs, cp{tok: "S", state: true})
			continue
		}
		var ts []string
		for _, t := range last {
			ts = append(ts, t)
		}
		sort.Strings(ts)
		cs = append(cs, cp{tok: "[" + strings.Join(ts, " ") + "]"})
	}
	done = make([]int, len(prims)+1)
	for i, c := range cs {
		done[i+1] = done[i]
		if c.empty {
			continue
		}
		if c.state {
			// does the run continue?
			cont := false
			for j := i + 1; j < len(cs); j++ {
				if cs[j].empty {
					continue
				}
				cont = cs[j].state
				break
			}
			if cont {
				continue
			}
			toks = append(toks, "S")
			done[i+1]++
			continue
		}
		toks = append(toks, c.tok)
		done[i+1]++
	}
	return
}

// atomicSwitch: the canonical index must switch atomically: within the import of one block (from one body write to the
// next) at most ONE primitive carries canonical-hash / tx-lookup / head-marker keys, and it is a batch.  Size-independent:
// looks only at the recorded primitive list of a call.
func atomicSwitch(prims []prim) string {
	n := 0
	for i, p := range prims {
		index, body := false, false
		for _, e := range p.kvs {
			switch classify(e.key).class {
			case kCanon, kLookup, kHeadBlk, kHeadHdr:
				index = true
			case kBody:
				body = true
			}
		}
		if body {
			n = 0
		}
		if !index {
			continue
		}
		n++
		if !p.batch {
			return fmt.Sprintf("atomic: primitive %d writes a canonical-hash/lookup/head-marker key outside a batch", i)
		}
		if n > 1 {
			return fmt.Sprintf("atomic: primitive %d is the %d. write carrying canonical-hash/lookup/head-marker keys within one block import (the index switch must be exactly one Batch.Write)", i, n)
		}
	}
	return ""
}

// ---- the oracle: Consistent ----------------------------------------------------------------------------

// consistent evaluates the property's "consistent chain" on a running BlockChain. Empty result = consistent.
func (c *chain) consistent() []string {
	var bad []string
	k := c.k
	bc := c.bc
	head := bc.CurrentBlock()
	if head == nil {
		return []string{"no current block"}
	}
	hn := head.NumberU64()
	if hn > 100000 {
		return []string{fmt.Sprintf("head number %d absurd", hn)}
	}
	// 1. number -> hash index from genesis to head is a parent-linked chain ending in the head
	var prev *types.Block
	for n := uint64(0); n <= hn; n++ {
		hd := bc.GetHeaderByNumber(n)
		b := bc.GetBlockByNumber(n)
		if hd == nil || b == nil {
			bad = append(bad, fmt.Sprintf("index: no canonical header/block at %d (head %d)", n, hn))
			prev = nil
			continue
		}
		if b.NumberU64() != n {
			bad = append(bad, fmt.Sprintf("index: canonical block at %d has number %d", n, b.NumberU64()))
		}
		if n == 0 && b.Hash() != k.f.genesis.Hash() {
			bad = append(bad, "index: canonical block 0 is not the genesis")
		}
		if n > 0 && prev != nil && b.ParentHash() != prev.Hash() {
			bad = append(bad, fmt.Sprintf("index: canonical block %d (node %s) is not a child of canonical block %d (node %s)", n, c.idOf(b.Hash()), n-1, c.idOf(prev.Hash())))
		}
		if n == hn && b.Hash() != head.Hash() {
			bad = append(bad, fmt.Sprintf("index: canonical block at head height %d is node %s, head is node %s", n, c.idOf(b.Hash()), c.idOf(head.Hash())))
		}
		// 4. no invalid block canonical
		if id, ok := k.byHash[b.Hash()]; !ok {
			bad = append(bad, fmt.Sprintf("canonical block %d unknown to the tree", n))
		} else if !k.validFor(k.nodes[id]) {
			bad = append(bad, fmt.Sprintf("invalid: node %d (%s) is canonical at %d", id, k.nodes[id].kind, n))
		}
		prev = b
	}
	if ch := bc.CurrentHeader(); ch == nil || ch.Hash() != head.Hash() {
		bad = append(bad, "current header differs from current block")
	}
	// 2. head state available
	func() {
		defer func() {
			if r := recover(); r != nil {
				bad = append(bad, fmt.Sprintf("state: State() panicked: %v", r))
			}
		}()
		if _, err := bc.State(); err != nil {
			bad = append(bad, "state: head state not available: "+err.Error())
		}
	}()
	// 3. transaction lookups: (a) every entry points into a canonical block <= head holding that tx at that index;
	//    (b) every transaction of a canonical block has its entry
	for _, key := range c.under.Keys() {
		ki := classify(key)
		if ki.class != kLookup {
			continue
		}
		bh, num, idx := rawdb.ReadTxLookupEntry(c.under, ki.hash)
		t := "?"
		if x, ok := k.txID[ki.hash]; ok {
			t = fmt.Sprint(x)
		}
		if num > hn || rawdb.ReadCanonicalHash(c.under, num) != bh {
			bad = append(bad, fmt.Sprintf("lookup: tx %s points to non-canonical node %s at %d (head %d)", t, c.idOf(bh), num, hn))
			continue
		}
		body := rawdb.ReadBody(c.under, bh, num)
		if body == nil || int(idx) >= len(body.Transactions) || body.Transactions[idx].Hash() != ki.hash {
			bad = append(bad, fmt.Sprintf("lookup: tx %s entry (node %s, %d, %d) does not hold that transaction", t, c.idOf(bh), num, idx))
		}
	}
	for n := uint64(1); n <= hn; n++ {
		b := bc.GetBlockByNumber(n)
		if b == nil {
			continue
		}
		for i, tx := range b.Transactions() {
			bh, num, idx := rawdb.ReadTxLookupEntry(c.under, tx.Hash())
			if bh != b.Hash() || num != n || idx != uint64(i) {
				bad = append(bad, fmt.Sprintf("lookup: tx %d of canonical block %d (node %s) has entry (node %s, %d, %d)", i, n, c.idOf(b.Hash()), c.idOf(bh), num, idx))
			}
		}
	}
	return bad
}

// headKey: head + head state root, what "same head and state" compares.
func (c *chain) headKey() string {
	h := c.bc.CurrentBlock()
	ok := "state"
	if _, err := c.bc.State(); err != nil {
		ok = "nostate"
	}
	return fmt.Sprintf("%s/%x/%s", c.idOf(h.Hash()), h.Root().Bytes()[:4], ok)
}
