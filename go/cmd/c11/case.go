package main

// A case = engine mode + block tree (valid nodes built by the generator, mutants derived from them) +
// a schedule of InsertChain calls (+ which calls get the crash-prefix enumeration).
// The text form is the replay-file format; everything is rebuilt deterministically from it.
//
//	MODE solo|strict
//	N <id> <parent> <salt> <dt> <from>-<to>-<amt>,...|-       valid block on node <parent> (0 = genesis)
//	M <id> <base> <kind> [<newparent>]                         mutant of node <base>
//	I <id> <id> ...                                            one InsertChain call
//	X <call index>                                             crash-enumerate that call
//	P <name>                                                   (comment-like) directed probe tag

import (
	"fmt"
	"math/big"
	"strconv"
	"strings"

	"github.com/youchainhq/go-youchain/common"
	"github.com/youchainhq/go-youchain/core/types"
	"github.com/youchainhq/go-youchain/crypto"
)

const (
	engineNow  = genesisTime + 100000 // frozen clock of the strict engine
	nearFuture = engineNow + allowedFuture + 5
	farFuture  = 4000000000 // beyond wall clock + 30 s for the next decades
)

type node struct {
	id       int
	parent   int // node id of the parent, -1 when the parent hash is unknown to the tree
	base     int // for mutants: the valid node they derive from; else = id
	kind     string
	line     string
	blk      *types.Block
	txRootOK bool
	execOK   bool
	tclass   int // 0 fine, 1 near future (strict engine queues it), 2 far future (strict engine: hard error)
	older    bool
	txs      []int // tx ids
	root     int   // state root id
	num      uint64
}

type kase struct {
	mode  string
	nodes map[int]*node
	order []int // definition order of node ids
	calls [][]int
	crash map[int]bool
	lines []string
	f     *forest

	byHash     map[common.Hash]int
	txID       map[common.Hash]int
	txHash     []common.Hash
	rootID     map[common.Hash]int
	maxH       uint64
	expectHead int    // P expecthead <id>: the honest longer fork whose tip must be the head after all calls (0: none)
	inflate    int    // P inflate <n>: the recording database reports batch sizes n times larger (reaches size thresholds)
	obsH       uint64 // heights 0..obsH are observed (fixed when the case is built)
}

func fakeHash(tag string, id int) common.Hash {
	return crypto.Keccak256Hash([]byte(fmt.Sprintf("verif-c11-%s-%d", tag, id)))
}

func (k *kase) rootOf(h common.Hash) int {
	if id, ok := k.rootID[h]; ok {
		return id
	}
	id := len(k.rootID)
	k.rootID[h] = id
	return id
}

func (k *kase) register(n *node) {
	n.num = n.blk.NumberU64()
	n.root = k.rootOf(n.blk.Root())
	n.txs = nil
	for _, tx := range n.blk.Transactions() {
		id, ok := k.txID[tx.Hash()]
		if !ok {
			id = len(k.txHash)
			k.txID[tx.Hash()] = id
			k.txHash = append(k.txHash, tx.Hash())
		}
		n.txs = append(n.txs, id)
	}
	k.nodes[n.id] = n
	k.f.hdrs[n.blk.Hash()] = n.blk.Header()
	k.order = append(k.order, n.id)
	k.byHash[n.blk.Hash()] = n.id
	if n.num > k.maxH && n.num < 1000 {
		k.maxH = n.num
	}
}

func parseTxs(s string) ([]txSpec, error) {
	if s == "-" || s == "" {
		return nil, nil
	}
	var out []txSpec
	for _, p := range strings.Split(s, ",") {
		q := strings.Split(p, "-")
		if len(q) != 3 {
			return nil, fmt.Errorf("bad tx spec %q", p)
		}
		a, e1 := strconv.Atoi(q[0])
		b, e2 := strconv.Atoi(q[1])
		if q[1] == "b" { // call of the BLOCKHASH contract
			b, e2 = -1, nil
		}
		c, e3 := strconv.ParseInt(q[2], 10, 64)
		if e1 != nil || e2 != nil || e3 != nil || a < 0 || a >= nKeys || b < -1 || b >= nKeys {
			return nil, fmt.Errorf("bad tx spec %q", p)
		}
		out = append(out, txSpec{a, b, c})
	}
	return out, nil
}

// buildCase parses the text form and builds every block. Lines it cannot build are reported as an error
// (the shrinker treats such candidates as "does not fail").
func buildCase(lines []string) (k *kase, err error) {
	defer func() {
		if r := recover(); r != nil {
			k, err = nil, fmt.Errorf("case does not build: %v", r)
		}
	}()
	mode := "solo"
	for _, l := range lines {
		if f := strings.Fields(l); len(f) == 2 && f[0] == "MODE" {
			mode = f[1]
		}
	}
	k = &kase{mode: mode, nodes: map[int]*node{}, crash: map[int]bool{}, f: newForest(mode == "strict"),
		byHash: map[common.Hash]int{}, txID: map[common.Hash]int{}, rootID: map[common.Hash]int{}}
	g := &node{id: 0, parent: -1, base: 0, kind: "genesis", blk: k.f.genesis, txRootOK: true, execOK: true}
	k.register(g)
	for _, l := range lines {
		if _, err := buildInto(k, l); err != nil {
			return nil, err
		}
	}
	k.lines = lines
	k.obsH = k.maxH + 1
	return k, nil
}

// buildInto applies one definition line to a case.
func buildInto(k *kase, l string) (*kase, error) {
	f := strings.Fields(l)
	if len(f) == 0 {
		return k, nil
	}
	switch f[0] {
	case "MODE":
		k.mode = f[1]
	case "P":
		if len(f) == 3 && f[1] == "expecthead" {
			k.expectHead, _ = strconv.Atoi(f[2])
		}
		if len(f) == 3 && f[1] == "inflate" {
			k.inflate, _ = strconv.Atoi(f[2])
		}
	case "N":
		if len(f) != 6 {
			return k, fmt.Errorf("bad N line %q", l)
		}
		id, _ := strconv.Atoi(f[1])
		p, _ := strconv.Atoi(f[2])
		salt, _ := strconv.Atoi(f[3])
		dt, _ := strconv.Atoi(f[4])
		txs, e := parseTxs(f[5])
		if e != nil {
			return k, e
		}
		pn := k.nodes[p]
		if pn == nil || pn.base != pn.id || k.nodes[id] != nil || dt < 1 {
			return k, fmt.Errorf("N line %q: parent must be an existing valid node, id fresh", l)
		}
		b := k.f.child(pn.blk, txs, byte(salt), uint64(dt))
		k.register(&node{id: id, parent: p, base: id, kind: "valid", line: l, blk: b, txRootOK: true, execOK: true})
	case "M":
		if len(f) < 4 {
			return k, fmt.Errorf("bad M line %q", l)
		}
		id, _ := strconv.Atoi(f[1])
		bs, _ := strconv.Atoi(f[2])
		kind := f[3]
		bn := k.nodes[bs]
		if bn == nil || bn.base != bn.id || bn.id == 0 || k.nodes[id] != nil {
			return k, fmt.Errorf("M line %q: base must be an existing valid non-genesis node, id fresh", l)
		}
		n := &node{id: id, parent: bn.parent, base: bs, kind: kind, line: l, txRootOK: true, execOK: true}
		pn := k.nodes[bn.parent]
		switch kind {
		case "badroot":
			n.blk = reheader(bn.blk, func(h *types.Header) { h.Root = fakeHash("root", id) })
			n.execOK = false
		case "ghostroot": // claims the parent's (available) state root although it carries transactions
			if len(bn.blk.Transactions()) == 0 {
				return k, fmt.Errorf("ghostroot needs a base with transactions")
			}
			n.blk = reheader(bn.blk, func(h *types.Header) { h.Root = pn.blk.Root() })
			n.execOK = false
		case "badtx":
			n.blk = reheader(bn.blk, func(h *types.Header) { h.TxHash = fakeHash("txroot", id) })
			n.txRootOK = false
		case "badgas":
			n.blk = reheader(bn.blk, func(h *types.Header) { h.GasUsed++ })
			n.execOK = false
		case "badparent":
			n.blk = reheader(bn.blk, func(h *types.Header) { h.ParentHash = fakeHash("parent", id) })
			n.parent = -1
		case "badnum":
			n.blk = reheader(bn.blk, func(h *types.Header) { h.Number = new(big.Int).Add(h.Number, big.NewInt(1)) })
		case "near":
			n.blk = reheader(bn.blk, func(h *types.Header) { h.Time = nearFuture })
			n.tclass = 1
		case "far":
			n.blk = reheader(bn.blk, func(h *types.Header) { h.Time = farFuture })
			n.tclass = 2
		case "older":
			n.blk = reheader(bn.blk, func(h *types.Header) { h.Time = pn.blk.Time() })
			n.older = true
		case "reparent": // same block, attached to a mutant of its parent that claims the same state root
			if len(f) != 5 {
				return k, fmt.Errorf("bad reparent line %q", l)
			}
			np, _ := strconv.Atoi(f[4])
			npn := k.nodes[np]
			if npn == nil || npn.base != bn.parent || npn.blk.Root() != pn.blk.Root() || npn.blk.NumberU64() != pn.blk.NumberU64() {
				return k, fmt.Errorf("reparent %q: new parent must be a same-root same-number mutant of the base's parent", l)
			}
			n.blk = reheader(bn.blk, func(h *types.Header) { h.ParentHash = npn.blk.Hash() })
			n.parent = np
			n.older = bn.blk.Time() <= npn.blk.Time()
			for _, tx := range bn.blk.Transactions() {
				if tx.To() != nil && *tx.To() == bhAddr {
					n.execOK = false // BLOCKHASH(number-1) is now another hash: the claimed state root no longer fits
				}
			}
		default:
			return k, fmt.Errorf("unknown mutant kind %q", kind)
		}
		if _, dup := k.byHash[n.blk.Hash()]; dup {
			return k, fmt.Errorf("mutant %q equals an existing block", l)
		}
		k.register(n)
	case "I":
		var ids []int
		for _, s := range f[1:] {
			id, e := strconv.Atoi(s)
			if e != nil || k.nodes[id] == nil || id == 0 {
				return k, fmt.Errorf("I line %q: unknown node", l)
			}
			ids = append(ids, id)
		}
		if len(ids) == 0 {
			return k, fmt.Errorf("empty I line")
		}
		k.calls = append(k.calls, ids)
	case "X":
		ci, _ := strconv.Atoi(f[1])
		k.crash[ci] = true
	default:
		return k, fmt.Errorf("unknown line %q", l)
	}
	return k, nil
}

// validFor: is the node a valid block under the engine mode (the harness' ground truth by construction)?
func (k *kase) validFor(n *node) bool {
	if n.id == 0 {
		return true
	}
	if !n.txRootOK || !n.execOK || n.parent < 0 || n.kind == "badnum" {
		return false
	}
	if k.mode == "strict" && (n.tclass != 0 || n.older) {
		return false
	}
	return true
}

// chainValid: the node and all its ancestors are valid.
func (k *kase) chainValid(n *node) bool {
	for n.id != 0 {
		if !k.validFor(n) {
			return false
		}
		n = k.nodes[n.parent]
		if n == nil {
			return false
		}
	}
	return true
}

func (k *kase) blocks(ids []int) types.Blocks {
	var out types.Blocks
	for _, id := range ids {
		out = append(out, k.nodes[id].blk)
	}
	return out
}

// model lines: block universe for the Lean driver
func (k *kase) modelDefs() []string {
	mode := 0
	if k.mode == "strict" {
		mode = 1
	}
	out := []string{fmt.Sprintf("RESET %d %d", mode, k.obsH+1)}
	b2i := func(b bool) int {
		if b {
			return 1
		}
		return 0
	}
	for _, id := range k.order {
		n := k.nodes[id]
		p := n.parent
		if p < 0 {
			p = 900000 + n.id // an id that is never defined: unknown parent hash
		}
		s := fmt.Sprintf("B %d %d %d %d %d %d %d %d", n.id, p, n.num, n.root, b2i(n.txRootOK), b2i(n.execOK), n.tclass, b2i(n.older))
		for _, t := range n.txs {
			s += fmt.Sprintf(" %d", t)
		}
		out = append(out, s)
	}
	return out
}
