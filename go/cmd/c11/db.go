package main

// recDB: a youdb.Database wrapper that records every primitive write reaching the underlying
// MemDatabase.  A primitive is one Put, one Delete, or one Batch.Write (atomic, possibly many keys).
// No source hook is needed: core.NewBlockChain takes the database as a parameter.
//
// A crash after exactly k primitives of an import is reconstructed as  snapshot-before-import + first k
// recorded primitives  (the same bytes the real code wrote, in the same order).

import (
	"bytes"
	"encoding/binary"
	"sort"
	"sync"

	"github.com/youchainhq/go-youchain/common"
	"github.com/youchainhq/go-youchain/youdb"
)

type kv struct {
	key []byte
	val []byte // nil = delete
}

type prim struct {
	batch bool
	kvs   []kv
}

type recDB struct {
	mu    sync.Mutex
	under *youdb.MemDatabase
	log   []prim
	rec   bool
	// inflate multiplies what a batch reports as ValueSize: with a large factor every size threshold in the code under
	// test (youdb.IdealBatchSize is a constant) is reached by small batches, so any chunked Write shows up on small cases
	inflate int
}

func newRecDB(under *youdb.MemDatabase) *recDB { return &recDB{under: under} }

func cp(b []byte) []byte { return append([]byte{}, b...) }

func (d *recDB) Put(key, value []byte) error {
	d.mu.Lock()
	if d.rec {
		d.log = append(d.log, prim{kvs: []kv{{cp(key), cp(value)}}})
	}
	d.mu.Unlock()
	return d.under.Put(key, value)
}
func (d *recDB) Delete(key []byte) error {
	d.mu.Lock()
	if d.rec {
		d.log = append(d.log, prim{kvs: []kv{{cp(key), nil}}})
	}
	d.mu.Unlock()
	return d.under.Delete(key)
}
func (d *recDB) Has(key []byte) (bool, error)   { return d.under.Has(key) }
func (d *recDB) Get(key []byte) ([]byte, error) { return d.under.Get(key) }
func (d *recDB) Close()                         {}
func (d *recDB) NewBatch() youdb.Batch          { return &recBatch{db: d} }

func (d *recDB) start() {
	d.mu.Lock()
	d.log, d.rec = nil, true
	d.mu.Unlock()
}
func (d *recDB) stop() []prim {
	d.mu.Lock()
	l := d.log
	d.log, d.rec = nil, false
	d.mu.Unlock()
	return l
}

type recBatch struct {
	db   *recDB
	kvs  []kv
	size int
}

func (b *recBatch) Put(key, value []byte) error {
	b.kvs = append(b.kvs, kv{cp(key), cp(value)})
	b.size += len(value)
	return nil
}
func (b *recBatch) Delete(key []byte) error {
	b.kvs = append(b.kvs, kv{cp(key), nil})
	b.size++
	return nil
}
func (b *recBatch) Write() error {
	b.db.mu.Lock()
	if b.db.rec {
		b.db.log = append(b.db.log, prim{batch: true, kvs: append([]kv{}, b.kvs...)})
	}
	b.db.mu.Unlock()
	for _, e := range b.kvs {
		if e.val == nil {
			b.db.under.Delete(e.key)
		} else {
			b.db.under.Put(e.key, e.val)
		}
	}
	return nil
}
func (b *recBatch) ValueSize() int {
	if b.db.inflate > 1 {
		return b.size * b.db.inflate
	}
	return b.size
}
func (b *recBatch) Reset() { b.kvs, b.size = nil, 0 }

// snapshot / restore of the underlying MemDatabase
type snapshot map[string][]byte

func snap(m *youdb.MemDatabase) snapshot {
	s := snapshot{}
	for _, k := range m.Keys() {
		v, err := m.Get(k)
		if err == nil {
			s[string(k)] = cp(v)
		}
	}
	return s
}

func (s snapshot) materialise(prefix []prim) *youdb.MemDatabase {
	m := youdb.NewMemDatabase()
	for k, v := range s {
		m.Put([]byte(k), v)
	}
	for _, p := range prefix {
		for _, e := range p.kvs {
			if e.val == nil {
				m.Delete(e.key)
			} else {
				m.Put(e.key, e.val)
			}
		}
	}
	return m
}

// ---- classification of a key (schema of core/rawdb/schema.go) ---------------------------------------

type keyClass int

const (
	kOther keyClass = iota
	kBody
	kHdrNum
	kHdr
	kCanon
	kHeadHdr
	kHeadBlk
	kHeadOther // LastFast etc. (none in this codebase, kept for mutations)
	kLookup
	kReceipts
	kState // trie node / code / preimage
)

type keyInfo struct {
	class keyClass
	hash  common.Hash // block hash or tx hash where the key carries one
	num   uint64
}

func classify(key []byte) keyInfo {
	switch {
	case bytes.Equal(key, []byte("LastHeader")):
		return keyInfo{class: kHeadHdr}
	case bytes.Equal(key, []byte("LastBlock")):
		return keyInfo{class: kHeadBlk}
	case len(key) == 10 && key[0] == 'h' && key[9] == 'n':
		return keyInfo{class: kCanon, num: binary.BigEndian.Uint64(key[1:9])}
	case len(key) == 41 && key[0] == 'h':
		return keyInfo{class: kHdr, num: binary.BigEndian.Uint64(key[1:9]), hash: common.BytesToHash(key[9:])}
	case len(key) == 41 && key[0] == 'b':
		return keyInfo{class: kBody, num: binary.BigEndian.Uint64(key[1:9]), hash: common.BytesToHash(key[9:])}
	case len(key) == 41 && key[0] == 'r':
		return keyInfo{class: kReceipts, num: binary.BigEndian.Uint64(key[1:9]), hash: common.BytesToHash(key[9:])}
	case len(key) == 33 && key[0] == 'H':
		return keyInfo{class: kHdrNum, hash: common.BytesToHash(key[1:])}
	case len(key) == 33 && key[0] == 'l':
		return keyInfo{class: kLookup, hash: common.BytesToHash(key[1:])}
	case len(key) == 32:
		return keyInfo{class: kState}
	case bytes.HasPrefix(key, []byte("secure-key-")):
		return keyInfo{class: kState}
	}
	return keyInfo{class: kOther}
}

func sortedKeys(s snapshot) []string {
	ks := make([]string, 0, len(s))
	for k := range s {
		ks = append(ks, k)
	}
	sort.Strings(ks)
	return ks
}
