package main

// C11 harness: runs generated block trees / offer schedules on the real core.BlockChain with a recording
// database, evaluates the property's statement on it (oracle), enumerates crash prefixes of selected imports
// (restart on the frozen copy, Consistent, not wedged), and diffs everything against the Lean model.

import (
	"fmt"
	"os"
	"strings"

	"github.com/youchainhq/go-youchain/core/rawdb"
	"github.com/youchainhq/go-youchain/params"
	"verifharness/internal/quiet"
	"verifharness/internal/vh"
)

type failure struct {
	kind  string // correspondence | oracle | crash
	class string // first word: index state lookup invalid restart wedged panic writes model
	what  string
	call  int
	k     int // crash prefix (-1: none)
}

func (f failure) String() string {
	if f.k >= 0 {
		return fmt.Sprintf("call %d, crash after %d primitive writes: %s", f.call, f.k, f.what)
	}
	return fmt.Sprintf("call %d: %s", f.call, f.what)
}

type stats struct {
	calls, prefixes, reorgs, known, invalidOffered, errs, sideStores, repairs, rejoinExact int
	traces                                                                                 int
	refusedNoParentState                                                                   int
	nontrivial                                                                             bool
	canon                                                                                  []string
	writeLists                                                                             [][]string // per call
}

func classOf(msg string) string {
	i := strings.IndexAny(msg, ": ")
	if i < 0 {
		return msg
	}
	return msg[:i]
}

// extendable: a fresh valid child for node h (the "one further valid block"), added to the case. ok=false when h
// cannot be extended by a block that is valid for the engine.
func (k *kase) extend(h *node, nextID *int) (int, bool) {
	if !k.chainValid(h) {
		return 0, false
	}
	id := *nextID
	*nextID += 2
	var lines []string
	if h.base == h.id {
		lines = []string{fmt.Sprintf("N %d %d 77 1 -", id, h.id)}
	} else {
		// head is a same-root mutant that the engine accepts (e.g. a future-dated block under solo)
		if h.blk.Root() != k.nodes[h.base].blk.Root() {
			return 0, false
		}
		lines = []string{fmt.Sprintf("N %d %d 77 1 -", id+1, h.base), fmt.Sprintf("M %d %d reparent %d", id, id+1, h.id)}
	}
	for _, l := range lines {
		if err := k.addLine(l); err != nil {
			return 0, false
		}
	}
	return id, true
}

// addLine builds one more N/M line into an existing case.
func (k *kase) addLine(l string) (err error) {
	defer func() {
		if r := recover(); r != nil {
			err = fmt.Errorf("%v", r)
		}
	}()
	k2, e := buildInto(k, l)
	_ = k2
	return e
}

type modelIO struct {
	drv *vh.Driver
	err error
}

func (m *modelIO) ask(l string) string {
	if m == nil || m.drv == nil || m.err != nil {
		return ""
	}
	s, e := m.drv.Ask(l)
	if e != nil {
		m.err = e
	}
	return s
}

// runCase executes one case; returns the failures found (first per class) and statistics.
func runCase(k *kase, m *modelIO) (fails []failure, st stats) {
	seen := map[string]bool{}
	addFail := func(f failure) {
		f.class = classOf(f.what)
		key := f.kind + "/" + f.class
		if !seen[key] {
			seen[key] = true
			fails = append(fails, f)
		}
	}
	haveModel := m != nil && m.drv != nil
	sent := 0
	sendDefs := func() {
		defs := k.modelDefs()
		if sent == 0 {
			m.ask(defs[0])
			sent = 1
		}
		for ; sent < len(defs); sent++ {
			if r := m.ask(defs[sent]); r != "ok" && m.err == nil {
				addFail(failure{kind: "correspondence", what: "model: driver rejects definition " + defs[sent] + ": " + r, call: -1, k: -1})
			}
		}
	}
	if haveModel {
		sendDefs()
	}
	c, err := k.fresh()
	if err != nil {
		addFail(failure{kind: "oracle", what: "restart: NewBlockChain on a fresh genesis database fails: " + err.Error(), call: -1, k: -1})
		return
	}
	defer func() { c.close() }()
	nextID := 5000
	for ci, ids := range k.calls {
		st.calls++
		var s0 snapshot
		if k.crash[ci] {
			s0 = snap(c.under)
		}
		headBefore := c.bc.CurrentBlock().Hash()
		for _, id := range ids {
			if !k.validFor(k.nodes[id]) {
				st.invalidOffered++
				st.nontrivial = true
			}
		}
		// observation (not a violation of C11): under the ucon path a valid chain whose first block's parent is stored
		// WITHOUT state (a fork delivered block by block) is refused; counted for the evidence
		parentNoState := false
		if pn := k.nodes[k.nodes[ids[0]].parent]; pn != nil && k.chainValid(k.nodes[ids[len(ids)-1]]) {
			parentNoState = rawdb.HasBody(c.under, pn.blk.Hash(), pn.num) && !c.bc.HasState(pn.blk.Root())
		}
		sub(ci, -1, "import")
		res, prims := c.insert(ids)
		if parentNoState && res == "err" {
			st.refusedNoParentState++
		}
		toks, done := k.canonWrites(prims)
		st.writeLists = append(st.writeLists, toks)
		if a := atomicSwitch(prims); a != "" {
			addFail(failure{kind: "oracle", what: a, call: ci, k: -1})
		}
		if strings.HasPrefix(res, "panic") {
			addFail(failure{kind: "crash", what: "panic: InsertChain panicked: " + res, call: ci, k: -1})
			return
		}
		if res == "err" {
			st.errs++
		}
		for _, t := range toks {
			if strings.HasPrefix(t, "[") && strings.Count(t, " c") >= 1 && strings.Contains(t, " d") || strings.Count(t, "=") > 1 {
				st.reorgs++
				st.nontrivial = true
				break
			}
		}
		if len(toks) == 0 && res == "ok" {
			st.known++
			st.nontrivial = true
		}
		if c.bc.CurrentBlock().Hash() == headBefore && len(toks) > 0 && res == "ok" {
			st.sideStores++
		}
		obs := c.observe()
		goLine := fmt.Sprintf("R %s %s w=%s", res, obs, strings.Join(toks, " "))
		st.canon = append(st.canon, goLine)
		for _, b := range c.consistent() {
			addFail(failure{kind: "oracle", what: b, call: ci, k: -1})
		}
		if haveModel {
			l := "I"
			for _, id := range ids {
				l += fmt.Sprintf(" %d", id)
			}
			ml := m.ask(l)
			st.traces++
			if ml != goLine && m.err == nil {
				addFail(failure{kind: "correspondence", what: "model: import differs\n  go:   " + goLine + "\n  lean: " + ml, call: ci, k: -1})
			}
		}
		if !k.crash[ci] {
			continue
		}
		st.nontrivial = true
		// ---- crash-prefix enumeration of this call ---------------------------------------------------------
		headNode := k.nodes[k.byHash[c.bc.CurrentBlock().Hash()]]
		child, hasChild := k.extend(headNode, &nextID)
		// reference: a node that never crashed, after the same history plus the further block
		ref, err := k.fresh()
		if err != nil {
			continue
		}
		for j := 0; j <= ci; j++ {
			ref.insert(k.calls[j])
		}
		u1 := ref.headKey()
		if hasChild {
			ref.insert([]int{child})
		}
		u2 := ref.headKey()
		ref.close()
		var mtuples []string
		if haveModel {
			sendDefs()
			cl := "X -1"
			if hasChild {
				cl = fmt.Sprintf("X %d", child)
			}
			mtuples = strings.Split(m.ask(cl), "|")
		}
		for kx := 0; kx <= len(prims); kx++ {
			st.prefixes++
			sub(ci, kx, "restart")
			r, _, err := k.open(s0.materialise(prims[:kx]))
			if err != nil {
				addFail(failure{kind: "oracle", what: "restart: NewBlockChain on the crashed database fails: " + err.Error(), call: ci, k: kx})
				continue
			}
			recID := r.idOf(r.bc.CurrentBlock().Hash())
			if recID != r.idOf(headOfDB(r)) {
				st.repairs++
			}
			cons := "1"
			for _, b := range r.consistent() {
				cons = "0"
				addFail(failure{kind: "oracle", what: b, call: ci, k: kx})
			}
			sub(ci, kx, "reimport")
			res1, _ := r.insert(ids)
			if strings.HasPrefix(res1, "panic") {
				addFail(failure{kind: "crash", what: "panic: re-import after restart panicked: " + res1, call: ci, k: kx})
			}
			h1 := r.headKey()
			h1id := r.idOf(r.bc.CurrentBlock().Hash())
			for _, b := range r.consistent() {
				addFail(failure{kind: "oracle", what: b + " (after re-import of the interrupted blocks)", call: ci, k: kx})
			}
			if h1 == u1 {
				st.rejoinExact++
			}
			if cautious && h1 != u1 {
				// a further-block import killed the process earlier in this run: report the node that did not rejoin as it is
				addFail(failure{kind: "oracle", what: fmt.Sprintf("wedged: after restart and re-import of the interrupted blocks the head is %s, a node that never crashed has %s (the further valid block is not offered: that import killed the process earlier in this run)", h1, u1), call: ci, k: kx})
				r.close()
				continue
			}
			if hasChild {
				sub(ci, kx, "further")
				res2, _ := r.insert([]int{child})
				if strings.HasPrefix(res2, "panic") {
					addFail(failure{kind: "crash", what: "panic: import of the further block after restart panicked: " + res2, call: ci, k: kx})
				}
			}
			h2 := r.headKey()
			h2id := r.idOf(r.bc.CurrentBlock().Hash())
			if h2 != u2 {
				addFail(failure{kind: "oracle", what: fmt.Sprintf("wedged: after restart, re-import of the interrupted blocks and one further valid block the head is %s, a node that never crashed has %s", h2, u2), call: ci, k: kx})
			}
			r.close()
			if haveModel && m.err == nil {
				mi := done[kx] + 1 // tuple 0 is the header U=..
				goT := fmt.Sprintf("%d:%s:%s:%s:%s", done[kx], recID, cons, h1id, h2id)
				if mi >= len(mtuples) {
					addFail(failure{kind: "correspondence", what: fmt.Sprintf("model: crash analysis has %d prefixes, go needs prefix %d", len(mtuples)-1, done[kx]), call: ci, k: kx})
				} else if mtuples[mi] != goT {
					addFail(failure{kind: "correspondence", what: "model: crash prefix differs (prefix:recoveredHead:consistent:headAfterReimport:headAfterFurtherBlock)\n  go:   " + goT + "\n  lean: " + mtuples[mi], call: ci, k: kx})
				}
				st.traces++
			}
		}
	}
	// adoption: an honest, longer fork offered from the fork point in one call must be the head now (as on a node that
	// saw that fork first)
	if k.expectHead != 0 {
		if got := c.idOf(c.bc.CurrentBlock().Hash()); got != fmt.Sprint(k.expectHead) {
			addFail(failure{kind: "oracle", what: fmt.Sprintf("adopt: the honest longer fork (tip node %d) offered in one call from the fork point was not adopted: head is node %s", k.expectHead, got), call: len(k.calls) - 1, k: -1})
		} else if _, err := c.bc.State(); err != nil {
			addFail(failure{kind: "oracle", what: "adopt: head state of the adopted fork not available", call: len(k.calls) - 1, k: -1})
		}
	}
	if m != nil && m.err != nil {
		addFail(failure{kind: "correspondence", what: "model: driver error: " + m.err.Error(), call: -1, k: -1})
	}
	return
}

func headOfDB(c *chain) (h [32]byte) {
	b, _ := c.under.Get([]byte("LastBlock"))
	copy(h[:], b)
	return
}

// ---- known-finding matchers (predicates over the shrunk failing case) -------------------------------------

// ghost-state-ancestor (F-C11b): an invalid block is canonical, it claims a state root another block of the tree
// also has (an empty block, or a block claiming its parent's root, so HasBlockAndState holds for it although it
// was only ever stored by the side-chain path / never validated), and the tree holds a child of it (it became
// canonical as an ANCESTOR in the reorg of a later import, which validates only the new tip).
func matcherFor(k *kase, f failure) string {
	if f.class != "invalid" {
		return ""
	}
	var id int
	if _, err := fmt.Sscanf(f.what, "invalid: node %d", &id); err != nil {
		return ""
	}
	n := k.nodes[id]
	if n == nil {
		return ""
	}
	shared, hasChild := false, false
	for _, o := range k.nodes {
		if o.id != n.id && o.root == n.root {
			shared = true
		}
		if o.parent == n.id {
			hasChild = true
		}
	}
	if shared && hasChild {
		return "ghost-state-ancestor"
	}
	return ""
}

// directed probe of the open finding F-C11b (run on every check)
// node 3 is imported with its state; node 4 is its wrong-tx-root twin (same claimed root): stored by the side-chain path it
// "has block and state" at once; node 6, a child of 4 above the head, is then imported on the direct path and the reorg
// makes 4 canonical.
var ghostProbe = []string{"MODE strict", "N 3 0 2 3 -", "M 4 3 badtx", "N 5 3 2 3 -", "M 6 5 reparent 4", "I 3", "I 4", "I 6"}

func runProbe(c *vh.Ctx, m *modelIO) {
	k, err := buildCase(ghostProbe)
	if err != nil {
		c.Res.Probes = append(c.Res.Probes, vh.Probe{ID: "F-C11b", Reproduced: false, What: "probe does not build: " + err.Error()})
		return
	}
	fs, _ := runCase(k, m)
	rep := false
	what := "a block with a wrong transaction root, stored by the side-chain path, did not become canonical"
	for _, f := range fs {
		if f.kind == "oracle" && matcherFor(k, f) == "ghost-state-ancestor" {
			rep = true
			what = f.String()
		} else {
			// anything else on the probe (e.g. the model disagreeing) is a failure of its own
			c.Res.Fail(f.kind, "", "probe F-C11b: "+f.String(), vh.WriteReplay(c.ReplayDir, "C11", "probe-ghost-"+f.class, c.Seed, []string{f.kind + ": " + f.String()}, ghostProbe))
		}
	}
	c.Res.Probes = append(c.Res.Probes, vh.Probe{ID: "F-C11b", Reproduced: rep, What: what})
}

// ---- shrinking + replay files --------------------------------------------------------------------------------

func failsSame(lines []string, drvPath string, kind, class string) (bool, failure) {
	k, err := buildCase(lines)
	if err != nil || len(k.calls) == 0 {
		return false, failure{}
	}
	var m *modelIO
	if drvPath != "" && kind == "correspondence" {
		d, e := vh.StartDriver(drvPath)
		if e == nil {
			m = &modelIO{drv: d}
			defer d.Close()
		}
	}
	fs, _ := runCase(k, m)
	for _, f := range fs {
		if f.kind == kind && f.class == class {
			return true, f
		}
	}
	return false, failure{}
}

func shrinkCase(lines []string, drvPath string, f failure) ([]string, failure) {
	// X lines: keep only the crashing call's
	var base []string
	for _, l := range lines {
		if strings.HasPrefix(l, "X ") && (f.k < 0 || l != fmt.Sprintf("X %d", f.call)) {
			continue
		}
		base = append(base, l)
	}
	if ok, _ := failsSame(base, drvPath, f.kind, f.class); !ok {
		base = lines
	}
	// X indices refer to call positions: shrink calls only after the crashing call is pinned by content.
	// Strategy: drop trailing calls after the failing one, then ddmin over earlier I lines re-indexing X.
	var head, is []string
	for _, l := range base {
		if strings.HasPrefix(l, "I ") {
			is = append(is, l)
		} else if !strings.HasPrefix(l, "X ") {
			head = append(head, l)
		}
	}
	target := f.call
	if target < 0 || target >= len(is) {
		target = len(is) - 1
	}
	is = is[:target+1]
	pinned := is[target]
	mk := func(pre []string) []string {
		out := append(append([]string{}, head...), pre...)
		out = append(out, pinned)
		if f.k >= 0 {
			out = append(out, fmt.Sprintf("X %d", len(pre)))
		}
		return out
	}
	pre := is[:target]
	if ok, _ := failsSame(mk(pre), drvPath, f.kind, f.class); ok {
		if len(pre) > 0 {
			pre = vh.Shrink(pre, func(c []string) bool { ok, _ := failsSame(mk(c), drvPath, f.kind, f.class); return ok })
			if ok, _ := failsSame(mk(nil), drvPath, f.kind, f.class); ok {
				pre = nil
			}
		}
		base = mk(pre)
	}
	// drop unused node lines (from the end: children before parents)
	for i := len(base) - 1; i >= 0; i-- {
		if !strings.HasPrefix(base[i], "N ") && !strings.HasPrefix(base[i], "M ") {
			continue
		}
		cand := append(append([]string{}, base[:i]...), base[i+1:]...)
		if ok, _ := failsSame(cand, drvPath, f.kind, f.class); ok {
			base = cand
		}
	}
	_, f2 := failsSame(base, drvPath, f.kind, f.class)
	if f2.what == "" {
		return lines, f
	}
	return base, f2
}

func reportFailure(c *vh.Ctx, name string, lines []string, f failure) {
	small, f2 := shrinkCase(lines, c.Driver, f)
	k, _ := buildCase(small)
	matcher := ""
	if k != nil {
		matcher = matcherFor(k, f2)
	}
	hdr := []string{f2.kind + ": " + strings.ReplaceAll(f2.String(), "\n", " // ")}
	if k != nil && f2.call >= 0 && f2.call < len(k.calls) {
		// the write list of the failing call, for the reader
		if fs, st := runCase(k, nil); len(fs) >= 0 && f2.call < len(st.writeLists) {
			hdr = append(hdr, "primitive writes of call "+fmt.Sprint(f2.call)+": "+strings.Join(st.writeLists[f2.call], " "))
		}
	}
	rp := vh.WriteReplay(c.ReplayDir, "C11", name, c.Seed, hdr, small)
	c.Res.Fail(f2.kind, matcher, f2.String(), rp)
}

// ---- run ------------------------------------------------------------------------------------------------------

func run(c *vh.Ctx) error {
	quiet.Silence()
	params.InitNetworkId(params.NetworkIdForTestCase)
	res := c.Res
	res.Rule = "case = engine (solo | header-checking ucon stand-in) + block tree (depth <= 12, <= 3 branches, mutants of 9 kinds) + schedule of InsertChain calls + crash-enumerated calls; non-trivial when a reorg, a known-block re-offer, an invalid block or a crash-prefix enumeration is involved; distinct by the canonical text of all observations"
	var m *modelIO
	if c.Driver != "" {
		d, err := vh.StartDriver(c.Driver)
		if err != nil {
			return err
		}
		defer d.Close()
		m = &modelIO{drv: d}
	}
	nfail := map[string]int{}
	doCase := func(name string, lines []string) {
		if !enter(name, lines) {
			return
		}
		defer func() {
			if c.Out != "" && os.Getenv("C11_CHILD") == "1" {
				res.Write(c.Out) // the parent merges this if the process dies later
			}
		}()
		k, err := buildCase(lines)
		if err != nil {
			res.Dist("case-unbuildable")
			return
		}
		fs, st := runCase(k, m)
		res.Count(strings.Join(st.canon, "\n"), st.nontrivial)
		res.TracesVsImpl += st.traces
		res.DistN("calls", st.calls)
		res.DistN("crash-prefixes", st.prefixes)
		res.DistN("calls-with-reorg", st.reorgs)
		res.DistN("calls-all-known", st.known)
		res.DistN("calls-error", st.errs)
		res.DistN("calls-stored-without-head-change", st.sideStores)
		res.DistN("invalid-blocks-offered", st.invalidOffered)
		res.DistN("restarts-with-repair", st.repairs)
		res.DistN("valid-chain-refused-parent-stored-without-state", st.refusedNoParentState)
		res.DistN("rejoin-exact-before-further-block", st.rejoinExact)
		res.Dist("mode-" + k.mode)
		if len(res.Samples) < 3 {
			res.Sample(map[string]interface{}{"case": lines, "observations": st.canon})
		}
		for _, f := range fs {
			if nfail[f.kind+f.class] < 2 {
				nfail[f.kind+f.class]++
				reportFailure(c, fmt.Sprintf("%s-%s", name, f.class), lines, f)
			} else {
				res.Fail(f.kind, "", f.String(), "")
			}
		}
	}
	// corpus first
	for _, fpath := range vh.CorpusFiles("C11") {
		body, _, e := vh.ReadReplay(fpath)
		if e != nil {
			continue
		}
		if !enter("corpus", body) {
			continue
		}
		k, err := buildCase(body)
		if err != nil {
			res.Fail("corpus", "", "corpus file does not build: "+fpath+": "+err.Error(), fpath)
			continue
		}
		fs, _ := runCase(k, m)
		res.Dist("corpus")
		for _, f := range fs {
			res.Fail("corpus", matcherFor(k, f), "corpus witness fails again: "+fpath+": "+f.String(), fpath)
		}
	}
	if enter("probe", ghostProbe) {
		runProbe(c, m)
	}
	// exhaustive small family
	for _, mode := range []string{"solo", "strict"} {
		fam := smallFamily(mode)
		for i, lines := range fam {
			if !c.Thorough() && i%3 != int(c.Seed%3) {
				continue // quick: a third of the 24 orders per seed
			}
			doCase(fmt.Sprintf("small-%s-%d", mode, i), lines)
		}
	}
	// long forks in one call (side-chain verification executes blocks whose ancestors are not stored yet)
	type fk struct {
		p, x, y int
		crash   bool
	}
	forks := []fk{{1, 1, 2, true}, {0, 2, 3, true}, {2, 2, 2, true}, {1, 3, 2, false}, {1, 2, 12, false}, {2, 1, 20, false}, {1, 2, 40, false}}
	if c.Thorough() {
		forks = append(forks, fk{1, 2, 12, true}, fk{3, 5, 9, true}, fk{0, 1, 33, false}, fk{4, 8, 40, false}, fk{2, 12, 12, true})
	}
	for i, f := range forks {
		for _, mode := range []string{"strict", "solo"} {
			doCase(fmt.Sprintf("fork-%s-%d", mode, i), forkCase(mode, f.p, f.x, f.y, f.crash))
			res.Dist("fork-in-one-call")
		}
	}
	// size thresholds: the same fork shapes and small orders with a database that reports batch sizes 4096 times larger
	// (every youdb.IdealBatchSize chunking in the code under test is then hit by small batches), crash-enumerated
	inflated := [][]string{forkCase("solo", 1, 2, 3, true), forkCase("strict", 1, 2, 3, true), forkCase("solo", 2, 3, 6, true), forkCase("strict", 0, 2, 5, true)}
	for _, mode := range []string{"solo", "strict"} {
		fam := smallFamily(mode)
		inflated = append(inflated, fam[int(c.Seed)%len(fam)])
		if c.Thorough() {
			inflated = append(inflated, fam...)
		}
	}
	for i, lines := range inflated {
		doCase(fmt.Sprintf("inflate-%d", i), append(append([]string{}, lines...), "P inflate 4096"))
		res.Dist("inflated-batch-size")
	}
	// heavy reorg for real: a branch of full blocks is displaced and re-adopted by one import whose index batch exceeds
	// youdb.IdealBatchSize; every crash point of that import is enumerated
	heavy := [][2]int{{31, 100}}
	if c.Thorough() {
		heavy = append(heavy, [2]int{12, 300}, [2]int{40, 120})
	}
	for i, h := range heavy {
		doCase(fmt.Sprintf("heavy-%d", i), heavyCase(h[0], h[1]))
		res.Dist("heavy-reorg")
	}
	// random structured cases
	n := c.N(300, 2400)
	if c.Search {
		n *= 3
	}
	for i := 0; i < n; i++ {
		mode := "solo"
		if i%2 == 1 {
			mode = "strict"
		}
		maxDepth := 8
		if c.Thorough() || i%5 == 0 {
			maxDepth = 12
		}
		lines := genCase(c.R.Fork(), mode, maxDepth, c.Thorough() && i%4 == 0)
		doCase(fmt.Sprintf("s%d-%d", c.Seed, i), lines)
	}
	res.Partial = append(res.Partial,
		"durability below the youdb.Database interface is not modelled: a crash is a prefix of the Put/Delete/Batch.Write sequence, a batch is atomic",
		"the ucon side-chain verifier is exercised with a header-checking stand-in engine (no seals, no validator set)")
	if m != nil && m.err != nil {
		return m.err
	}
	return nil
}

func replay(c *vh.Ctx, body, comments []string) (bool, string) {
	quiet.Silence()
	params.InitNetworkId(params.NetworkIdForTestCase)
	k, err := buildCase(body)
	if err != nil {
		return false, "replay does not build: " + err.Error()
	}
	var m *modelIO
	if c.Driver != "" {
		if d, e := vh.StartDriver(c.Driver); e == nil {
			defer d.Close()
			m = &modelIO{drv: d}
		}
	}
	fs, st := runCase(k, m)
	var msgs []string
	for _, f := range fs {
		msgs = append(msgs, f.kind+": "+f.String())
	}
	for i, w := range st.writeLists {
		msgs = append(msgs, fmt.Sprintf("writes of call %d: %s", i, strings.Join(w, " ")))
	}
	return len(fs) > 0, strings.Join(msgs, "\n")
}
