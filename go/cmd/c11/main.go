package main

import (
	"verifharness/internal/vh"
)

func main() {
	vh.Main(vh.Harness{Property: "C11", Run: superviseRun, Replay: replay})
}
