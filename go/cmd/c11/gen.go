package main

// Seeded structured generator of cases (block tree + offer schedule), plus the exhaustive small family and
// the malformed stream (non-contiguous calls, unknown parents, re-offers).

import (
	"fmt"
	"strings"

	"verifharness/internal/vh"
)

type gnode struct {
	id, parent int
	num        int
	txs        string
	hasTx      bool
	salt       int
}

func genTxs(r *vh.RNG) string {
	if r.Chance(45) {
		return "-"
	}
	n := r.Range(1, 2)
	var p []string
	for i := 0; i < n; i++ {
		if r.Chance(30) {
			p = append(p, fmt.Sprintf("%d-b-0", r.Intn(nKeys))) // BLOCKHASH of the two nearest ancestors into storage
		} else {
			p = append(p, fmt.Sprintf("%d-%d-%d", r.Intn(nKeys), r.Intn(nKeys), r.Range(1, 9)))
		}
	}
	return strings.Join(p, ",")
}

var mutKinds = []string{"badroot", "ghostroot", "badtx", "badgas", "badparent", "badnum", "near", "far", "older"}

func genCase(r *vh.RNG, mode string, maxDepth int, crashAll bool) []string {
	lines := []string{"MODE " + mode}
	nodes := map[int]*gnode{0: {id: 0, parent: -1}}
	var valid []int
	next := 1
	add := func(parent int, txs string, salt int) int {
		id := next
		next++
		g := &gnode{id: id, parent: parent, num: nodes[parent].num + 1, txs: txs, hasTx: txs != "-", salt: salt}
		nodes[id] = g
		valid = append(valid, id)
		lines = append(lines, fmt.Sprintf("N %d %d %d %d %s", id, parent, salt, r.Range(1, 9), txs))
		return id
	}
	d := r.Range(2, maxDepth)
	if r.Chance(30) {
		d = r.Range(1, 4)
	}
	tips := [][]int{}
	path := []int{}
	p := 0
	for i := 0; i < d; i++ {
		p = add(p, genTxs(r), 1)
		path = append(path, p)
	}
	tips = append(tips, path)
	pathTo := func(id int) []int {
		var rev []int
		for id != 0 {
			rev = append(rev, id)
			id = nodes[id].parent
		}
		out := make([]int, len(rev))
		for i := range rev {
			out[i] = rev[len(rev)-1-i]
		}
		return out
	}
	nb := r.Weighted([]int{2, 5, 3})
	for b := 0; b < nb; b++ {
		from := 0
		if r.Chance(75) && len(valid) > 0 {
			from = valid[r.Intn(len(valid))]
		}
		if nodes[from].num >= maxDepth {
			from = 0
		}
		ln := r.Range(1, 4)
		if nodes[from].num+ln > maxDepth {
			ln = maxDepth - nodes[from].num
		}
		p := from
		for i := 0; i < ln; i++ {
			txs := genTxs(r)
			if i == 0 && r.Chance(40) {
				// same transactions as an existing sibling: the tx is then in both forks
				for _, v := range valid {
					if nodes[v].parent == from && nodes[v].hasTx {
						txs = nodes[v].txs
						break
					}
				}
			}
			p = add(p, txs, b+2)
		}
		tips = append(tips, pathTo(p))
	}
	// mutants
	nm := r.Weighted([]int{3, 4, 2, 1})
	type mut struct {
		id, base int
		kind     string
	}
	var muts []mut
	for m := 0; m < nm; m++ {
		base := valid[r.Intn(len(valid))]
		kind := mutKinds[r.Intn(len(mutKinds))]
		if kind == "ghostroot" && !nodes[base].hasTx {
			kind = "badtx"
		}
		id := next
		next++
		lines = append(lines, fmt.Sprintf("M %d %d %s", id, base, kind))
		muts = append(muts, mut{id, base, kind})
		pth := append(pathTo(nodes[base].parent), id)
		// a child re-attached to a same-root mutant
		if (kind == "badtx" || kind == "near" || kind == "far" || kind == "older") && r.Chance(60) {
			for _, v := range valid {
				if nodes[v].parent == base {
					cid := next
					next++
					lines = append(lines, fmt.Sprintf("M %d %d reparent %d", cid, v, id))
					pth = append(pth, cid)
					break
				}
			}
		}
		tips = append(tips, pth)
	}
	// schedule: split every path into segments
	var segs [][]int
	for _, pth := range tips {
		for i := 0; i < len(pth); {
			n := r.Range(1, 4)
			if i+n > len(pth) {
				n = len(pth) - i
			}
			segs = append(segs, pth[i:i+n])
			i += n
		}
	}
	switch r.Intn(3) {
	case 0: // as generated: branch after branch (later branches re-offer shared prefixes = known blocks)
	case 1: // interleave: random order
		for i := len(segs) - 1; i > 0; i-- {
			j := r.Intn(i + 1)
			segs[i], segs[j] = segs[j], segs[i]
		}
	case 2: // mild disorder: swap a few neighbours
		for s := 0; s < 2 && len(segs) > 1; s++ {
			i := r.Intn(len(segs) - 1)
			segs[i], segs[i+1] = segs[i+1], segs[i]
		}
	}
	// re-offers and malformed calls
	if r.Chance(35) {
		segs = append(segs, segs[r.Intn(len(segs))])
	}
	if r.Chance(25) {
		segs = append(segs, tips[r.Intn(len(tips))]) // a whole branch again
	}
	if r.Chance(12) && len(valid) >= 2 {
		a, b := valid[r.Intn(len(valid))], valid[r.Intn(len(valid))]
		at := r.Intn(len(segs) + 1)
		segs = append(segs[:at], append([][]int{{a, b}}, segs[at:]...)...) // most likely non-contiguous
	}
	if len(segs) > 14 {
		segs = segs[:14]
	}
	for _, s := range segs {
		l := "I"
		for _, id := range s {
			l += fmt.Sprintf(" %d", id)
		}
		lines = append(lines, l)
	}
	if crashAll {
		for i := range segs {
			lines = append(lines, fmt.Sprintf("X %d", i))
		}
	} else {
		lines = append(lines, fmt.Sprintf("X %d", len(segs)-1))
		if len(segs) > 1 {
			lines = append(lines, fmt.Sprintf("X %d", r.Intn(len(segs)-1)))
		}
	}
	return lines
}

// long forks offered in ONE call to a node on another branch (the ucon side-chain verifier re-executes them before any
// of them is stored): prefix p, branch X of x blocks imported first, then branch Y of y blocks; every block of Y calls the
// BLOCKHASH contract, and in strict mode every block runs the end-block hook.
func forkCase(mode string, p, x, y int, crashLast bool) []string {
	lines := []string{"MODE " + mode}
	id := 1
	par := 0
	var pre, xs, ys []int
	for i := 0; i < p; i++ {
		lines = append(lines, fmt.Sprintf("N %d %d 1 3 %d-b-0", id, par, i%nKeys))
		pre = append(pre, id)
		par = id
		id++
	}
	fork := par
	for i := 0; i < x; i++ {
		lines = append(lines, fmt.Sprintf("N %d %d 1 3 -", id, par))
		xs = append(xs, id)
		par = id
		id++
	}
	par = fork
	for i := 0; i < y; i++ {
		lines = append(lines, fmt.Sprintf("N %d %d 2 2 %d-b-0", id, par, i%nKeys))
		ys = append(ys, id)
		par = id
		id++
	}
	call := func(ids []int) {
		if len(ids) == 0 {
			return
		}
		l := "I"
		for _, i := range ids {
			l += fmt.Sprintf(" %d", i)
		}
		lines = append(lines, l)
	}
	n := 0
	if len(pre)+len(xs) > 0 {
		call(append(append([]int{}, pre...), xs...))
		n++
	}
	call(ys)
	if crashLast {
		lines = append(lines, fmt.Sprintf("X %d", n))
	}
	if y > x {
		lines = append(lines, fmt.Sprintf("P expecthead %d", ys[len(ys)-1]))
	}
	return lines
}

// heavyCase: branch A of n blocks with t transfers each is imported, displaced by a sibling B1 (solo adopts it), then
// re-adopted by the import of A(n+1): that one WriteBlockWithState stages n*t lookups and n+1 canonical hashes.
func heavyCase(n, t int) []string {
	lines := []string{"MODE solo"}
	var txs []string
	for i := 0; i < t; i++ {
		txs = append(txs, fmt.Sprintf("%d-%d-1", i%nKeys, (i+1)%nKeys))
	}
	spec := strings.Join(txs, ",")
	call := "I"
	for i := 1; i <= n; i++ {
		lines = append(lines, fmt.Sprintf("N %d %d 1 2 %s", i, i-1, spec))
		call += fmt.Sprintf(" %d", i)
	}
	lines = append(lines, fmt.Sprintf("N %d %d 1 2 -", n+1, n), fmt.Sprintf("N %d 0 2 2 -", n+2))
	lines = append(lines, call, fmt.Sprintf("I %d", n+2), fmt.Sprintf("I %d", n+1), "X 2", fmt.Sprintf("P expecthead %d", n+1))
	return lines
}

// exhaustive small family: one fixed tree (trunk 1-2-3 with transactions, fork 4-5-6-7 from genesis sharing the
// first transaction), segments offered in every order.
func smallFamily(mode string) [][]string {
	tree := []string{"MODE " + mode,
		"N 1 0 1 3 0-1-5", "N 2 1 1 3 1-2-3", "N 3 2 1 3 -",
		"N 4 0 2 3 0-1-5,2-3-1", "N 5 4 2 3 -", "N 6 5 2 3 3-0-1", "N 7 6 2 3 -"}
	segs := []string{"I 1 2", "I 3", "I 4 5", "I 6 7"}
	var out [][]string
	var perm func(a []int, n int)
	perm = func(a []int, n int) {
		if n == 1 {
			c := append([]string{}, tree...)
			for _, i := range a {
				c = append(c, segs[i])
			}
			c = append(c, "X 3", "X 2", "X 1")
			out = append(out, c)
			return
		}
		for i := 0; i < n; i++ {
			perm(a, n-1)
			if n%2 == 0 {
				a[i], a[n-1] = a[n-1], a[i]
			} else {
				a[0], a[n-1] = a[n-1], a[0]
			}
		}
	}
	perm([]int{0, 1, 2, 3}, 4)
	return out
}
