package main

// vEngine: the harness' second consensus engine.  It implements consensus.Ucon, so core.BlockChain takes its
// ucon code paths (verifyAllSideChainBlocks runs Process+ValidateState over side-chain blocks), and its header
// verification mirrors consensus/ucon/consensus.go verifyHeader/verifyCascadingFields WITHOUT the cryptographic
// seal: future timestamp -> ErrFutureBlock, unknown/ill-numbered parent -> ErrUnknownAncestor, time not after
// the parent's -> ErrOlderBlockTime, a different canonical block at the same height -> ErrExistCanonical.
// These are exactly the verdicts insertChain's dispatch switches on; the plain solo engine (all verdicts nil)
// is the other engine the harness runs.
//
// Verdicts are computed eagerly inside VerifyHeaders (one legal schedule of ucon's verifier goroutine), so a
// run is deterministic.

import (
	"math/big"
	"time"

	"github.com/youchainhq/go-youchain/consensus"
	"github.com/youchainhq/go-youchain/consensus/solo"
	"github.com/youchainhq/go-youchain/core/state"
	"github.com/youchainhq/go-youchain/core/types"
	"github.com/youchainhq/go-youchain/params"
)

const allowedFuture = 15 // seconds, params AllowedFutureBlockTime of the test table

type vEngine struct {
	*solo.Solo
	now uint64 // frozen clock of the case
}

func newVEngine(now uint64) *vEngine { return &vEngine{Solo: solo.NewSolo(), now: now} }

func (e *vEngine) verifyHeader(chain consensus.ChainReader, header *types.Header, parents []*types.Header) error {
	if _, err := chain.VersionForRoundWithParents(header.Number.Uint64(), parents); err != nil {
		return err
	}
	if header.Time > e.now+allowedFuture {
		return consensus.ErrFutureBlock
	}
	number := header.Number.Uint64()
	if number == 0 {
		return nil
	}
	var parent *types.Header
	if len(parents) > 0 {
		parent = parents[len(parents)-1]
	} else {
		parent = chain.GetHeader(header.ParentHash, number-1)
	}
	if parent == nil || parent.Number.Uint64() != number-1 || parent.Hash() != header.ParentHash {
		return consensus.ErrUnknownAncestor
	}
	if header.Time <= parent.Time {
		return consensus.ErrOlderBlockTime
	}
	local := chain.GetHeaderByNumber(number)
	if local != nil && header.Hash() != local.Hash() {
		return consensus.ErrExistCanonical
	}
	return nil
}

func (e *vEngine) VerifyHeader(chain consensus.ChainReader, header *types.Header, seal bool) error {
	return e.verifyHeader(chain, header, nil)
}

func (e *vEngine) VerifyHeaders(chain consensus.ChainReader, headers []*types.Header, seals []bool) (chan<- struct{}, <-chan error) {
	abort := make(chan struct{}, 1) // as ucon: buffered, insertChain sends on it in the ErrExistCanonical branch
	results := make(chan error, len(headers))
	for i, h := range headers {
		results <- e.verifyHeader(chain, h, headers[:i])
	}
	return abort, results
}

func (e *vEngine) VerifySeal(chain consensus.ChainReader, header *types.Header) error { return nil }

// consensus.Ucon
func (e *vEngine) HandleMsg(data []byte, receivedAt time.Time) error { return nil }
func (e *vEngine) NewChainHead(block *types.Block)                   {}
func (e *vEngine) GetLookBackBlockNumber(cp *params.CaravelParams, num *big.Int, lbType params.LookBackType) *big.Int {
	return big.NewInt(0) // look-back is always the genesis: no validator set in this harness
}
func (e *vEngine) VerifySideChainHeader(cp *params.CaravelParams, seedHeader *types.Header, vldReader state.ValidatorReader, certHeader *types.Header, certVldReader state.ValidatorReader, block *types.Block, parents []*types.Block) error {
	// mirrors the cascading part of ucon's VerifySideChainHeader
	p := parents[len(parents)-1].Header()
	h := block.Header()
	if h.Number.Uint64() != p.Number.Uint64()+1 || h.ParentHash != p.Hash() {
		return consensus.ErrUnknownAncestor
	}
	return nil
}
func (e *vEngine) VerifyAcHeader(chain consensus.ChainReader, acHeader *types.Header, verifiedAcParents []*types.Header) error {
	return nil
}

var _ consensus.Ucon = (*vEngine)(nil)
