package main

// The block-building path, mirrored from miner/worker.go (package miner cannot be linked into a Go 1.23 harness: quic-go's
// init panics): commitNewWork (header, version state, state at the parent with the staking root for a new block,
// IntermediateRoot), commitTransaction (snapshot, ApplyTransaction, revert on error), commitTransactions (the candidate loop
// over the REAL types.TransactionsByPriceAndNonce with the worker's treatment of every error class), EndBlock(isSeal=true),
// FinalizeAndAssemble. Same construction as chainkit.Work, plus the gas pool and the error values the candidate loop needs.

import (
	"fmt"
	"math/big"

	"github.com/youchainhq/go-youchain/common"
	"github.com/youchainhq/go-youchain/core"
	"github.com/youchainhq/go-youchain/core/state"
	"github.com/youchainhq/go-youchain/core/types"
	"github.com/youchainhq/go-youchain/core/vm"
	"github.com/youchainhq/go-youchain/local"
	"github.com/youchainhq/go-youchain/params"

	"verifharness/cmd/c07/chainkit"
)

type work struct {
	node     *chainkit.Node
	signer   types.Signer
	Header   *types.Header
	State    *state.StateDB
	coinbase common.Address
	gp       *core.GasPool
	vmCfg    *vm.Config
	included []*types.Transaction
	receipts []*types.Receipt
}

type applyOutcome struct {
	included bool
	err      error  // ApplyTransaction's error (tx refused, state reverted)
	panicked string // the real code panicked
	receipt  *types.Receipt
}

type builtBlock struct {
	Block      *types.Block
	EndReceipt *types.Receipt
	Panic      string
}

func beginWork(n *chainkit.Node, signer types.Signer, coinbase common.Address) (*work, error) {
	bc := n.BC
	parent := bc.CurrentBlock()
	num := new(big.Int).Add(parent.Number(), big.NewInt(1))
	header := &types.Header{ParentHash: parent.Hash(), Number: num, Time: parent.Time() + 1, Coinbase: coinbase,
		GasLimit: core.CalcGasLimit(parent), GasRewards: big.NewInt(0), Subsidy: big.NewInt(0)}
	if err := core.ProcessYouVersionState(parent.Header(), header); err != nil {
		return nil, err
	}
	st, _, err := n.NextState()
	if err != nil {
		return nil, err
	}
	st.IntermediateRoot(true)
	vmCfg, err := core.PrepareVMConfig(bc, num.Uint64(), *bc.GetVMConfig())
	if err != nil {
		return nil, err
	}
	return &work{node: n, signer: signer, Header: header, State: st, coinbase: coinbase, gp: new(core.GasPool).AddGas(header.GasLimit), vmCfg: vmCfg}, nil
}

// apply = worker.commitTransaction (plus state.Prepare as commitTransactions does before it).
func (w *work) apply(tx *types.Transaction) (o applyOutcome) {
	bc := w.node.BC
	w.State.Prepare(tx.Hash(), common.Hash{}, len(w.included))
	snap := w.State.Snapshot()
	func() {
		defer func() {
			if r := recover(); r != nil {
				o.panicked = fmt.Sprintf("%v", r)
			}
		}()
		rc, _, e := bc.Processor().ApplyTransaction(tx, w.signer, w.State, bc, w.Header, &w.coinbase, &w.Header.GasUsed, w.Header.GasRewards, w.gp, w.vmCfg, local.FakeRecorder())
		if e != nil {
			o.err = e
			w.State.RevertToSnapshot(snap)
			return
		}
		o.included, o.receipt = true, rc
	}()
	if o.included {
		w.included = append(w.included, tx)
		w.receipts = append(w.receipts, o.receipt)
	}
	return
}

// candidateLoop = worker.commitTransactions without the interrupt: candidates grouped by sender (nonce-sorted, as the pool
// hands them over), ordered by price and nonce; per error class exactly the worker's Pop / Shift. Returns per-class counts.
func (w *work) candidateLoop(groups map[common.Address]types.Transactions, onApply func(tx *types.Transaction, o applyOutcome)) map[string]int {
	stats := map[string]int{}
	txs := types.NewTransactionsByPriceAndNonce(w.signer, groups)
	for {
		if w.gp.Gas() < params.TxGas {
			stats["stopped: pool below TxGas"]++
			break
		}
		tx := txs.Peek()
		if tx == nil {
			break
		}
		o := w.apply(tx)
		if onApply != nil {
			onApply(tx, o)
		}
		if o.panicked != "" {
			stats["panic"]++
			txs.Shift()
			continue
		}
		switch o.err {
		case core.ErrGasLimitReached:
			stats["refused: gas limit reached (pop)"]++
			txs.Pop()
		case core.ErrNonceTooLow:
			stats["refused: nonce too low (shift)"]++
			txs.Shift()
		case core.ErrNonceTooHigh:
			stats["refused: nonce too high (pop)"]++
			txs.Pop()
		case nil:
			stats["included"]++
			txs.Shift()
		default:
			stats["refused: "+errClass(o.err)+" (shift)"]++
			txs.Shift()
		}
	}
	return stats
}

func errClass(err error) string {
	switch err {
	case vm.ErrInsufficientBalance:
		return "can pay gas but not value"
	case vm.ErrOutOfGas:
		return "intrinsic gas above the tx gas"
	}
	s := err.Error()
	if s == "insufficient balance to pay for gas" {
		return "cannot pay gas"
	}
	if len(s) > 40 {
		s = s[:40]
	}
	return s
}

// finish = EndBlock + FinalizeAndAssemble. slashData == nil: isSeal=true; otherwise the forged-SlashData path (isSeal=false).
func (w *work) finish(slashData []byte) (*builtBlock, error) {
	bc := w.node.BC
	res := &builtBlock{}
	isSeal := true
	if slashData != nil {
		w.Header.SlashData = slashData
		isSeal = false
	}
	func() {
		defer func() {
			if r := recover(); r != nil {
				res.Panic = fmt.Sprintf("%v", r)
			}
		}()
		recs, _, _ := bc.Processor().EndBlock(bc, w.Header, w.included, w.State, isSeal, local.FakeRecorder())
		for _, r := range recs {
			if r != nil {
				w.receipts = append(w.receipts, r)
				res.EndReceipt = r
			}
		}
	}()
	if res.Panic != "" {
		return res, nil
	}
	blk, err := bc.Engine().FinalizeAndAssemble(bc, w.Header, w.State, w.included, w.receipts)
	if err != nil {
		return nil, err
	}
	res.Block = blk
	return res, nil
}
