package main

// Correspondence of the Lean model (lean/YouVerif/C06/Model.lean, driver drv_c06) with the real code, on the blocks the
// chain oracle has just executed:
//
//	RP   blockRewards + rewardsToPool: the real functions run in isolation (hook VerifC06RewardsToPool) on a fresh StateDB at
//	     the block's parent with the block's GasRewards; the model gets the same statistics twice, with two different
//	     iteration orders for each of the two map loops; subsidy, proposer reward, residue and the three role pools must
//	     equal Go's in both.
//	DR   distributeRewards (hook VerifC06DistributeRewards) on a fresh StateDB: role pools after, reward per validator,
//	     forced-settlement set; two orders of the final map loop.
//	SL   slashing vs replaySlashing: the builder's pool before EndBlock (round, resolvable signer) and the validators of
//	     the parent state go to the model; confirmed ids (= header.SlashData), pending ids (= pool afterwards), and
//	     token/offline/expelled/expelExpired of every validator after the block must equal Go's; the model also replays
//	     its SlashData with a foreign head and must print replay=same.
//	SORT GetValidators order (sync.Map.Range order is arbitrary) vs the model's sort.
//
// A disagreement is written as an "L" replay (the driver line + Go's answer).

import (
	"fmt"
	"math/big"
	"sort"
	"strings"

	"github.com/youchainhq/go-youchain/common"
	"github.com/youchainhq/go-youchain/core/state"
	"github.com/youchainhq/go-youchain/crypto"
	"github.com/youchainhq/go-youchain/params"
	"github.com/youchainhq/go-youchain/rlp"
	"github.com/youchainhq/go-youchain/staking"

	"verifharness/cmd/c07/chainkit"
	"verifharness/internal/vh"
)

var roles = []params.ValidatorRole{params.RoleChancellor, params.RoleSenator, params.RoleHouse}

func statNums(st *state.ValidatorsStat) string {
	var f []string
	for _, r := range roles {
		s := st.GetByRole(r)
		f = append(f, fmt.Sprint(s.GetCount()), s.GetOnlineStake().String(), s.GetRewardsDistributable().String())
	}
	return strings.Join(f, " ")
}

func randOrder(r *vh.RNG, keys string) string {
	b := []byte(keys)
	for i := len(b) - 1; i > 0; i-- {
		j := r.Intn(i + 1)
		b[i], b[j] = b[j], b[i]
	}
	if len(b) == 0 {
		return "-"
	}
	return string(b)
}

func presentRoles(st *state.ValidatorsStat) string {
	s := ""
	for i, r := range roles {
		if st.GetByRole(r).GetCount() > 0 {
			s += fmt.Sprint(i + 1)
		}
	}
	return s
}

// statConsistent: the statistics agree with the validator records (property C08's invariant). distributeRewards calls
// logging.Crit (process exit) otherwise, so the isolated call is made only on consistent states.
func statConsistent(st *state.StateDB, stat *state.ValidatorsStat) bool {
	cnt := map[params.ValidatorRole]uint64{}
	stk := map[params.ValidatorRole]*big.Int{}
	for _, r := range roles {
		stk[r] = new(big.Int)
	}
	for _, v := range st.GetValidators().List() {
		if _, ok := stk[v.Role]; !ok {
			return false
		}
		sum := new(big.Int).Set(v.SelfStake)
		for _, d := range v.Delegations {
			sum.Add(sum, d.Stake)
		}
		if sum.Cmp(v.Stake) != 0 {
			return false
		}
		if v.IsOnline() {
			cnt[v.Role]++
			stk[v.Role].Add(stk[v.Role], v.Stake)
			if v.Stake.Sign() == 0 && v.Role != params.RoleHouse {
				return false
			}
		}
	}
	for _, r := range roles {
		s := stat.GetByRole(r)
		if s.GetCount() != cnt[r] || s.GetOnlineStake().Cmp(stk[r]) != 0 {
			return false
		}
	}
	return true
}

var corrFails = map[string]int{}

type leanFail struct {
	line, goOut, leanOut string
}

func askBoth(drv *vh.Driver, mk func(o ...string) string, goOut string, orders [][]string) (*leanFail, error) {
	for _, o := range orders {
		line := mk(o...)
		out, err := drv.Ask(line)
		if err != nil {
			return nil, err
		}
		if out != goOut {
			return &leanFail{line, goOut, out}, nil
		}
	}
	return nil, nil
}

func correspond(c *vh.Ctx, drv *vh.Driver, s *session, br *blockRec, scenario []string) error {
	if br.block == nil {
		return nil
	}
	res := c.Res
	report := func(kind string, f *leanFail) {
		corrFails[kind]++
		if corrFails[kind] > 5 {
			return // keep room in the bounded failure list for oracle failures
		}
		rp := vh.WriteReplay(c.ReplayDir, "C06", fmt.Sprintf("corr-%s-%d-%d", kind, len(res.Failures), br.num), c.Seed,
			[]string{"correspondence: Lean model and Go disagree on " + kind, "go:   " + f.goOut, "lean: " + f.leanOut,
				"(the line below is what the driver was asked; the Go side of an L replay is re-derived only by re-running the chain)"},
			[]string{"L " + f.line, "G " + f.goOut})
		res.Fail("correspondence", "", kind+": go="+f.goOut+" lean="+f.leanOut, rp)
	}
	node := s.w.kit.B
	bc := node.BC
	blk := br.block
	yp, err := bc.VersionForRound(blk.NumberU64())
	if err != nil {
		return err
	}
	sample := c.R.Chance(50) || br.periodEnd || br.nEv > 0

	// ---- RP -------------------------------------------------------------------------------------------------------
	if sample {
		st, _, err := parentState(node, blk, false)
		if err != nil {
			return err
		}
		stat, _ := st.GetValidatorsStat()
		proposer := st.GetValidatorByMainAddr(blk.Coinbase())
		if stat != nil && proposer != nil {
			pool := st.GetBalance(yp.RewardsPoolAddress)
			before := statNums(stat)
			residue := stat.GetRewardResidue()
			keys := presentRoles(stat)
			propBefore := new(big.Int).Set(proposer.RewardsTotal)
			hdr := blk.Header()
			hdr.Subsidy = new(big.Int)
			v5 := 0
			if hdr.CurrVersion >= params.YouV5 {
				v5 = 1
			}
			goOut := ""
			func() {
				defer func() {
					if r := recover(); r != nil {
						goOut = "crash"
					}
				}()
				staking.VerifC06RewardsToPool(bc, yp, st, hdr)
				after, _ := st.GetValidatorsStat()
				p2 := st.GetValidatorByMainAddr(blk.Coinbase())
				goOut = fmt.Sprintf("ok %s %s %s %s %s %s", hdr.Subsidy, new(big.Int).Sub(p2.RewardsTotal, propBefore), after.GetRewardResidue(),
					after.GetByRole(roles[0]).GetRewardsDistributable(), after.GetByRole(roles[1]).GetRewardsDistributable(), after.GetByRole(roles[2]).GetRewardsDistributable())
			}()
			mk := func(o ...string) string {
				return fmt.Sprintf("RP %d %d %d %d %d %d %s %s %s %s %d %s %s", v5, yp.RewardsDistRatio[roles[0]], yp.RewardsDistRatio[roles[1]], yp.RewardsDistRatio[roles[2]],
					yp.SubsidyThreshold, yp.SubsidyCoeff, pool, hdr.GasRewards, before, residue, int(proposer.Role), o[0], o[1])
			}
			f, err := askBoth(drv, mk, goOut, [][]string{{randOrder(c.R, keys), randOrder(c.R, keys)}, {randOrder(c.R, keys), randOrder(c.R, keys)}})
			if err != nil {
				return err
			}
			res.TracesVsImpl++
			res.Dist("lean-RP-" + strings.Fields(goOut)[0])
			if f != nil {
				report("rewardsToPool", f)
			}
		}
	}

	// ---- DR -------------------------------------------------------------------------------------------------------
	if sample {
		st, _, err := parentState(node, blk, false)
		if err != nil {
			return err
		}
		stat, _ := st.GetValidatorsStat()
		if stat != nil && statConsistent(st, stat) {
			var vals []*state.Validator
			hdr := blk.Header()
			if hdr.CurrVersion >= params.YouV5 {
				vals = st.GetValidatorsForUpdate()
			} else {
				vals = st.GetValidators().List()
			}
			type vb struct {
				addr  common.Address
				total *big.Int
			}
			var befores []vb
			var vf []string
			for _, v := range vals {
				befores = append(befores, vb{v.MainAddress(), new(big.Int).Set(v.RewardsTotal)})
				off := 0
				if v.IsOffline() {
					off = 1
				}
				vf = append(vf, fmt.Sprintf("%d %s %d %d", int(v.Role), v.Stake, off, v.RewardsLastSettled))
			}
			before := statNums(stat)
			tot := stat.GetStakeByKind(params.KindValidator)
			keys := presentRoles(stat)
			gap := yp.MaxRewardsPeriod * yp.StakingTrieFrequency
			goOut := ""
			var settled map[common.Address]bool
			func() {
				defer func() {
					if r := recover(); r != nil {
						goOut = "crash"
					}
				}()
				set, e := node.Staking.VerifC06DistributeRewards(bc, yp, st, hdr)
				if e != nil {
					goOut = "err"
					return
				}
				settled = map[common.Address]bool{}
				for _, a := range set {
					settled[a] = true
				}
				after, _ := st.GetValidatorsStat()
				goOut = fmt.Sprintf("ok %s %s %s", after.GetByRole(roles[0]).GetRewardsDistributable(), after.GetByRole(roles[1]).GetRewardsDistributable(), after.GetByRole(roles[2]).GetRewardsDistributable())
			}()
			line := func(o ...string) string {
				return fmt.Sprintf("DR %s %s %d %d %s %d %s", o[0], tot, hdr.Number.Uint64(), gap, before, len(vals), strings.Join(vf, " "))
			}
			for rep := 0; rep < 2; rep++ {
				l := strings.TrimRight(line(randOrder(c.R, keys)), " ")
				out, err := drv.Ask(l)
				if err != nil {
					return err
				}
				// canonicalise: for validators Go force-settled, the reward is not observable (the settlement overwrites the record); mask both sides
				goFull, leanFull := goOut, out
				if strings.HasPrefix(goOut, "ok") && strings.HasPrefix(out, "ok") {
					parts := strings.Split(out, " | ")
					if len(parts) == 3 {
						rw, se := strings.Fields(parts[1]), strings.Fields(parts[2])
						var grw, gse []string
						for i, b := range befores {
							v := st.GetValidatorByMainAddr(b.addr)
							if settled[b.addr] {
								gse = append(gse, "1")
								grw = append(grw, "x")
								if i < len(rw) {
									rw[i] = "x"
								}
							} else {
								gse = append(gse, "0")
								if v == nil {
									grw = append(grw, "gone")
								} else {
									grw = append(grw, new(big.Int).Sub(v.RewardsTotal, b.total).String())
								}
							}
						}
						goFull = goOut + " | " + strings.Join(grw, " ") + " | " + strings.Join(gse, " ")
						leanFull = parts[0] + " | " + strings.Join(rw, " ") + " | " + strings.Join(se, " ")
					}
				}
				if goFull != leanFull {
					report("distributeRewards", &leanFail{l, goFull, leanFull})
					break
				}
			}
			res.TracesVsImpl++
			res.Dist("lean-DR-" + strings.Fields(goOut)[0])
		} else {
			res.Dist("lean-DR-skipped-stat-not-consistent-with-records")
		}
	}

	// ---- SORT -----------------------------------------------------------------------------------------------------
	if sample {
		st, _, err := parentState(node, blk, true)
		if err != nil {
			return err
		}
		list := st.GetValidators().List()
		var goAddrs, f []string
		// hand the model the validators in address order (any order will do: that is the theorem)
		idx := make([]int, len(list))
		for i := range idx {
			idx[i] = i
		}
		sort.Slice(idx, func(a, b int) bool { return c.R.Bool() })
		for _, v := range list {
			goAddrs = append(goAddrs, new(big.Int).SetBytes(v.MainAddress().Bytes()).String())
		}
		for _, i := range idx {
			v := list[i]
			f = append(f, fmt.Sprintf("%d %s %s", v.Stake.Uint64(), v.Token, new(big.Int).SetBytes(v.MainAddress().Bytes())))
		}
		l := strings.TrimRight(fmt.Sprintf("SORT %d %s", len(list), strings.Join(f, " ")), " ")
		out, err := drv.Ask(l)
		if err != nil {
			return err
		}
		res.TracesVsImpl++
		res.Dist("lean-SORT")
		if g := strings.Join(goAddrs, " "); out != g {
			report("GetValidators order", &leanFail{l, g, out})
		}
	}

	// ---- SL -------------------------------------------------------------------------------------------------------
	if len(br.poolBefore) > 0 && !br.forged && !br.periodEnd && !br.sameKind {
		pre, _, err := parentState(node, blk, false)
		if err != nil {
			return err
		}
		post, err := node.HeadState()
		if err != nil {
			return err
		}
		addrNum := func(a common.Address) string { return new(big.Int).SetBytes(a.Bytes()).String() }
		type tuple struct{ tok, off, ex, ee, take string }
		var vf, goVals []string
		seen := map[string]string{}
		ambiguous := false
		vals := pre.GetValidatorsForUpdate()
		for _, v := range vals {
			a := v.MainAddress()
			pv := post.GetValidatorByMainAddr(a)
			if pv == nil {
				ambiguous = true
				break
			}
			take := new(big.Int).Sub(v.Token, pv.Token)
			if take.Sign() < 0 {
				ambiguous = true
				break
			}
			b := func(x bool) int {
				if x {
					return 1
				}
				return 0
			}
			key := fmt.Sprintf("%s %d %d %d", v.Token, b(v.IsOffline()), b(v.Expelled), v.ExpelExpired)
			total := new(big.Int)
			if t, ok := br.slashTot[a]; ok {
				total = t
			}
			tk := total.String() + " " + take.String()
			if t, ok := seen[key]; ok && t != tk {
				ambiguous = true
			}
			seen[key] = tk
			vf = append(vf, fmt.Sprintf("%s %s %s", addrNum(a), key, tk))
			goVals = append(goVals, fmt.Sprintf("%s:%s:%d:%d:%d", addrNum(a), pv.Token, b(pv.IsOffline()), b(pv.Expelled), pv.ExpelExpired))
		}
		if !ambiguous {
			ids := func(evs []staking.Evidence) string {
				var o []string
				for _, e := range evs {
					o = append(o, fmt.Sprint(s.evs[crypto.Keccak256Hash(e.Data)].id))
				}
				return strings.Join(o, ",")
			}
			var ef []string
			for _, e := range br.poolBefore {
				in := s.evs[crypto.Keccak256Hash(e.Data)]
				sg := "-"
				if in.valid {
					sg = addrNum(chainkitAddrOfVal(in.vk))
				}
				wf := 1
				if in.kind == "garbage" || in.kind == "one" {
					wf = 0
				}
				ef = append(ef, fmt.Sprintf("%d %d %d %s", in.id, wf, in.round, sg))
			}
			var conf []staking.Evidence
			if sd := blk.Header().SlashData; len(sd) > 0 {
				if err := rlp.DecodeBytes(sd, &conf); err != nil {
					return fmt.Errorf("builder's SlashData does not decode: %v", err)
				}
			}
			nSlashLogs := br.slashLogs
			l := fmt.Sprintf("SL %d %d %d %d %d %s %d %s", blk.NumberU64(), blk.NumberU64()+uint64(c.R.Intn(5)), yp.MaxEvidenceExpiredIn, yp.ExpelledRoundForDoubleSign,
				len(vals), strings.Join(vf, " "), len(br.poolBefore), strings.Join(ef, " "))
			out, err := drv.Ask(l)
			if err != nil {
				return err
			}
			// lean: ok c=.. p=.. logs=a:t,.. pen=.. vals=.. replay=same ; compare c, p, number of logs, vals, replay
			canonLean := out
			if f := strings.Fields(out); len(f) == 7 && f[0] == "ok" {
				n := 0
				if lg := strings.TrimPrefix(f[3], "logs="); lg != "" {
					n = len(strings.Split(lg, ","))
				}
				canonLean = fmt.Sprintf("ok %s %s logs=%d %s %s", f[1], f[2], n, f[5], f[6])
			}
			goOut := fmt.Sprintf("ok c=%s p=%s logs=%d vals=%s replay=same", ids(conf), ids(br.poolAfter), nSlashLogs, strings.Join(goVals, ","))
			res.TracesVsImpl++
			res.Dist("lean-SL")
			if len(conf) > 0 {
				res.Dist("lean-SL-with-confirmed-evidence")
			}
			if canonLean != goOut {
				report("slashing-replaySlashing", &leanFail{l, goOut, canonLean})
			}
		} else {
			res.Dist("lean-SL-skipped-ambiguous")
		}
	}
	return nil
}

func chainkitAddrOfVal(vk int) common.Address { return chainkit.Addr(chainkit.Key("val", vk)) }

// replayLean re-asks the driver the recorded line and compares with the recorded Go answer (canonical forms are
// recomputed by the same code paths only in a full run; here the raw answers are shown).
func replayLean(c *vh.Ctx, body []string) (bool, string) {
	if c.Driver == "" || len(body) < 2 {
		return false, "no driver / incomplete L replay"
	}
	drv, err := vh.StartDriver(c.Driver)
	if err != nil {
		return false, err.Error()
	}
	defer drv.Close()
	out, _ := drv.Ask(strings.TrimPrefix(body[0], "L "))
	g := strings.TrimPrefix(body[1], "G ")
	return !leanAgrees(out, g), "go=" + g + " lean=" + out
}

// leanAgrees compares a raw driver answer with a recorded canonical Go answer, field-wise on the fields Go recorded.
func leanAgrees(lean, goOut string) bool {
	if lean == goOut {
		return true
	}
	lf, gf := strings.Fields(lean), strings.Fields(goOut)
	if len(lf) == 0 || len(gf) == 0 || lf[0] != gf[0] {
		return false
	}
	// SL answers: compare c=, p=, vals=, replay=
	if strings.Contains(goOut, " c=") {
		get := func(fs []string, p string) string {
			for _, f := range fs {
				if strings.HasPrefix(f, p) {
					return f
				}
			}
			return ""
		}
		for _, p := range []string{"c=", "p=", "vals=", "replay="} {
			if get(lf, p) != get(gf, p) {
				return false
			}
		}
		return true
	}
	// DR answers with masked rewards
	if strings.Contains(goOut, " | ") {
		lp, gp := strings.Split(lean, " | "), strings.Split(goOut, " | ")
		if len(lp) != 3 || len(gp) != 3 || lp[0] != gp[0] || lp[2] != gp[2] {
			return false
		}
		lr, gr := strings.Fields(lp[1]), strings.Fields(gp[1])
		if len(lr) != len(gr) {
			return false
		}
		for i := range lr {
			if gr[i] != "x" && gr[i] != lr[i] {
				return false
			}
		}
		return true
	}
	return false
}
