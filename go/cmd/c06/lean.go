package main

import "verifharness/internal/vh"

func correspond(c *vh.Ctx, drv *vh.Driver, s *session, br *blockRec, scenario []string) error { return nil }
func replayLean(c *vh.Ctx, body []string) (bool, string)                                       { return false, "" }
