package main

import (
	"fmt"
	"os"

	"github.com/youchainhq/go-youchain/common"
	"github.com/youchainhq/go-youchain/core/state"
	"github.com/youchainhq/go-youchain/local"

	"verifharness/cmd/c07/chainkit"
	"verifharness/internal/quiet"
	"verifharness/internal/vh"
)

// debugStaking: run a scenario up to its last block, then execute the last block repeatedly and print the staking records
// of every execution whose staking root differs from the first one.
func debugStaking(path string) {
	quiet.Silence()
	chainkit.Init()
	body, _, _ := vh.ReadReplay(path)
	s, rest, err := newSession(body, 0)
	if err != nil {
		fmt.Println(err)
		os.Exit(2)
	}
	bl := splitBlocks(rest)
	for _, b := range bl {
		s.runBlock(b)
		if s.rr.viol != nil {
			fmt.Println("viol:", s.rr.viol.what[:120])
			break
		}
	}
	last := s.rr.blocks[len(s.rr.blocks)-1]
	blk := last.block
	fmt.Println("block", blk.NumberU64(), "txs", len(blk.Transactions()), "header stakingRoot", blk.Header().StakingRoot.String())
	dump := func(st *state.StateDB) string {
		out := ""
		v0 := chainkit.Addr(chainkit.Key("val", 0))
		u6 := chainkit.Addr(chainkit.Key("user", 6))
		for _, k := range [][2]common.Address{{common.Address{}, v0}, {u6, v0}} {
			r := st.GetStakingRecord(k[0], k[1])
			if r == nil {
				out += "  nil\n"
			} else {
				out += fmt.Sprintf("  direct %s %s final=%s txs=%d\n", k[0].String()[:10], k[1].String()[:10], r.FinalValue, len(r.TxHashes))
			}
		}
		out += fmt.Sprintf("  pendingcount v0=%d u6=%d exist=%v\n", st.ValidatorPendingCount(v0), st.DelegatorPendingCount(u6), st.PendingRelationshipExist(u6, v0))
		err := st.ForEachStakingRecord(func(d, v common.Address, r *state.Record) error {
			out += fmt.Sprintf("  %s %s final=%s txs=%d\n", d.String()[:10], v.String()[:10], r.FinalValue, len(r.TxHashes))
			return nil
		})
		out += fmt.Sprintf("  foreach err=%v\n", err)
		return out
	}
	seen := map[common.Hash]bool{}
	node := s.w.kit.A
	for i := 0; i < 40; i++ {
		st, _, err := parentState(node, blk, i%2 == 0)
		if err != nil {
			fmt.Println(err)
			return
		}
		yp, _ := node.BC.VersionForRound(blk.NumberU64())
		_, err = node.BC.Processor().Process(yp, blk, st, *node.BC.GetVMConfig(), local.FakeRecorder())
		_, _, sr := st.IntermediateRoot(true)
		if !seen[sr] {
			seen[sr] = true
			fmt.Println("run", i, "err", err, "stakingRoot", sr.String())
			fmt.Print(dump(st))
		}
	}
}

// debugK5: run a scenario and print status of each tx of the last block and k5's storage slots.
func debugK5(path string) {
	quiet.Silence()
	chainkit.Init()
	body, _, _ := vh.ReadReplay(path)
	rr, err := execScenario(body, 4)
	if err != nil {
		fmt.Println(err)
		return
	}
	if rr.viol != nil {
		fmt.Println("viol:", rr.viol.what)
	}
	last := rr.blocks[len(rr.blocks)-1]
	fmt.Println("included", len(last.block.Transactions()), "failed", last.nFailed, "skipped", last.nSkipped, "gasUsed", last.block.GasUsed())
}
