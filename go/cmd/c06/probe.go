package main

// Fork scenarios ("F" replay files): two solo nodes share a chain prefix, then each builds its own block at the same height;
// one of the two sibling blocks carries genuine double-sign evidence. Every node must accept the other node's block
// (the property's second sentence: a block assembled by the builder path is accepted unchanged by the import path of
// another node) -- whatever that node's own head is.
//
// Replay text:
//
//	F prefix=<n> victim=<valKey> evoffset=<k> [vals=<n>] [moved=1]
//
// prefix blocks are built by validator 0 on node A and imported by both; then node A builds block prefix+1 with an
// evidence against <victim> for round prefix+evoffset (evoffset 0 = the slashable round) and imports it itself; node B
// builds its own sibling block prefix+1 (a different coinbase) and imports it; then node B is offered A's block.

import (
	"fmt"
	"math/big"
	"strconv"
	"strings"

	"github.com/youchainhq/go-youchain/core/types"
	"github.com/youchainhq/go-youchain/rlp"
	"github.com/youchainhq/go-youchain/staking"

	"verifharness/cmd/c07/chainkit"
)

type forkOutcome struct {
	slashed     int    // evidences the builder confirmed into SlashData
	ownErr      string // builder's node importing its own block
	siblingErr  string // node with a sibling head importing the builder's block
	freshErr    string // (control) a node whose head is the parent importing the builder's block
	reexecDiffs []string
}

func parseKV(line string) map[string]int {
	m := map[string]int{}
	for _, f := range strings.Fields(line)[1:] {
		kv := strings.SplitN(f, "=", 2)
		if len(kv) == 2 {
			n, _ := strconv.Atoi(kv[1])
			m[kv[0]] = n
		}
	}
	return m
}

func runFork(line string) (*forkOutcome, error) {
	kv := parseKV(line)
	prefix, victim, evoff := kv["prefix"], kv["victim"], kv["evoffset"]
	nv := kv["vals"]
	if nv < 2 {
		nv = 3
	}
	if prefix < 1 || prefix > 200 || victim < 1 || victim >= nv || nv > 8 {
		return nil, fmt.Errorf("bad fork scenario %q", line)
	}
	hdr := []string{"W users=4 pool=100000000000000000000000 ver=5"}
	for i := 0; i < nv; i++ {
		hdr = append(hdr, fmt.Sprintf("GV %d %d %s 1", i, 1+i%2, youN(int64(1000+100*i))))
	}
	// three independent databases: A (builder), B (gets a sibling head), C (control: head stays at the parent)
	w, _, err := parseWorld(hdr)
	if err != nil {
		return nil, err
	}
	if err := w.start(); err != nil {
		return nil, err
	}
	defer w.stop()
	w2, _, _ := parseWorld(hdr)
	if err := w2.start(); err != nil {
		return nil, err
	}
	defer w2.stop()
	A, B, C := w.kit.A, w.kit.B, w2.kit.B
	cb0 := chainkit.Addr(chainkit.Key("val", 0))
	cb1 := chainkit.Addr(chainkit.Key("val", 1))
	for i := 0; i < prefix; i++ {
		b, err := w.kit.Build(cb0, nil, nil)
		if err != nil || b.Block == nil {
			return nil, fmt.Errorf("prefix block %d: %v %s", i+1, err, b.Panic)
		}
		if err := w.kit.Import(b.Block); err != nil {
			return nil, err
		}
		if err := C.BC.InsertChain(types.Blocks{b.Block}); err != nil {
			return nil, err
		}
	}
	out := &forkOutcome{}
	// B's own sibling first (built on the common parent through a kit whose builder node is B)
	kitB := &chainkit.Kit{A: B, B: C, Genesis: w.kit.Genesis, Signer: w.kit.Signer}
	sib, err := kitB.Build(cb1, nil, nil)
	if err != nil || sib.Block == nil {
		return nil, fmt.Errorf("sibling block: %v", err)
	}
	// A's block with the evidence
	round := prefix + evoff
	if round < 0 {
		round = 0
	}
	ev, _, err := w.makeEvidence(A, victim, uint64(round), "ok")
	if err != nil {
		return nil, err
	}
	work, err := beginWork(w.kit.A, w.kit.Signer, cb0)
	if err != nil {
		return nil, err
	}
	if kv["moved"] == 1 {
		// the builder's head moves to the sibling while the block is under construction (miner/worker.go builds on the
		// parent it read at the start of commitNewWork; an import can complete before EndBlock runs)
		if err := A.BC.InsertChain(types.Blocks{sib.Block}); err != nil {
			return nil, fmt.Errorf("A rejects the sibling: %v", err)
		}
	}
	A.Staking.VerifC06SetEvidences(nil)
	A.Staking.VerifC06AddEvidence(ev)
	blkA, err := work.finish(nil)
	if err != nil || blkA.Block == nil {
		return nil, fmt.Errorf("evidence block: %v %s", err, blkA.Panic)
	}
	if sd := blkA.Block.Header().SlashData; len(sd) > 0 {
		var conf []staking.Evidence
		if rlp.DecodeBytes(sd, &conf) == nil {
			out.slashed = len(conf)
		}
	}
	if err := A.BC.InsertChain(types.Blocks{blkA.Block}); err != nil {
		out.ownErr = err.Error()
	}
	if err := B.BC.InsertChain(types.Blocks{sib.Block}); err != nil {
		return nil, fmt.Errorf("B rejects its own sibling: %v", err)
	}
	if B.BC.CurrentBlock().Hash() != sib.Block.Hash() {
		return nil, fmt.Errorf("sibling did not become B's head")
	}
	if err := B.BC.InsertChain(types.Blocks{blkA.Block}); err != nil {
		out.siblingErr = err.Error()
	} else if !B.BC.HasBlockAndState(blkA.Block.Hash(), blkA.Block.NumberU64()) {
		out.siblingErr = "block not stored with state"
	}
	if err := C.BC.InsertChain(types.Blocks{blkA.Block}); err != nil {
		out.freshErr = err.Error()
	}
	// re-execution on the node whose head is the sibling
	r := reexecMirror(B, blkA.Block, true)
	out.reexecDiffs = compareToHeader(r, blkA.Block.Header())
	_ = big.NewInt
	return out, nil
}

// forkFails: the property fails on this fork scenario when the builder's node accepts its block and another node does not.
func forkFails(o *forkOutcome) (bool, string) {
	if o.ownErr != "" {
		return true, "the builder's own node rejects the block it assembled: " + o.ownErr
	}
	if o.freshErr != "" {
		return true, "a node whose head is the parent rejects the builder's block: " + o.freshErr
	}
	if o.siblingErr != "" {
		return true, fmt.Sprintf("a block with %d confirmed evidence(s), accepted by its builder's node and by a node whose head is the parent, is rejected by a node whose head is a sibling block at the same height: %s", o.slashed, o.siblingErr)
	}
	if len(o.reexecDiffs) > 0 {
		return true, "re-execution on the node with a sibling head does not reproduce the header: " + strings.Join(o.reexecDiffs, "; ")
	}
	return false, fmt.Sprintf("accepted by all three nodes (%d evidence(s) confirmed)", o.slashed)
}
