package main

// "H" scenarios: import HISTORY and ENTRY POINT independence. One builder's chain A (prefix + a1..an, crossing at least one
// staking-period end, with staking transactions that stay pending in its early blocks) and a sibling branch B (b1..bm, m < n,
// built by another node on the same prefix) are shown to fresh nodes in different orders and through different entry points:
//
//	main          prefix, A block by block                                       (reference, solo)
//	zigzag        solo: a1, b1, a2, b2, ... (every import is a reorg: one-block, then multi-block [a2,a1], [b2,b1], ...), rest of A
//	b-then-batch  solo: prefix+B, then all of A in ONE InsertChain call (reorg on the first block)
//	ucon-onecall  Ucon-type stand-in engine: prefix+B, then all of A in one call  (ErrExistCanonical -> insertSidechain ->
//	              verifyAllSideChainBlocks on ONE carried-over StateDB -> re-import)
//	ucon-stored   stand-in: prefix, part of A, B offered in one call (shorter: verified and stored only), rest of A
//
// Oracle: every node accepts every block of A it is offered, ends with A's tip as head, has A canonical at every height with
// block + state, the receipts it stored hash to the headers' receipt roots, every transaction of A resolves through the tx
// lookup to its block of A, and re-executing A's period-end blocks on that node reproduces their headers.
//
//	H seed=<s> prefix=<p> a=<n> b=<m> [period=1] [plain=1] [long=1]

import (
	"fmt"
	"math/big"
	"strings"
	"time"

	"github.com/youchainhq/go-youchain/consensus"
	"github.com/youchainhq/go-youchain/consensus/solo"
	"github.com/youchainhq/go-youchain/core"
	"github.com/youchainhq/go-youchain/core/rawdb"
	"github.com/youchainhq/go-youchain/core/state"
	"github.com/youchainhq/go-youchain/core/types"
	"github.com/youchainhq/go-youchain/event"
	"github.com/youchainhq/go-youchain/local"
	"github.com/youchainhq/go-youchain/params"
	"github.com/youchainhq/go-youchain/staking"
	"github.com/youchainhq/go-youchain/youdb"

	"verifharness/cmd/c07/chainkit"
	"verifharness/internal/vh"
)

// ---- Ucon-type stand-in engine (copy of go/cmd/c11/engine.go): consensus.Ucon without the cryptographic seal; header
// verdicts mirror consensus/ucon verifyHeader/verifyCascadingFields, in particular "another canonical block at this height"
// -> ErrExistCanonical, which routes insertChain to the side-chain import.

type vEngine struct {
	*solo.Solo
	now uint64
}

func (e *vEngine) verifyHeader(chain consensus.ChainReader, header *types.Header, parents []*types.Header) error {
	if _, err := chain.VersionForRoundWithParents(header.Number.Uint64(), parents); err != nil {
		return err
	}
	if header.Time > e.now+15 {
		return consensus.ErrFutureBlock
	}
	number := header.Number.Uint64()
	if number == 0 {
		return nil
	}
	var parent *types.Header
	if len(parents) > 0 {
		parent = parents[len(parents)-1]
	} else {
		parent = chain.GetHeader(header.ParentHash, number-1)
	}
	if parent == nil || parent.Number.Uint64() != number-1 || parent.Hash() != header.ParentHash {
		return consensus.ErrUnknownAncestor
	}
	if header.Time <= parent.Time {
		return consensus.ErrOlderBlockTime
	}
	if local := chain.GetHeaderByNumber(number); local != nil && header.Hash() != local.Hash() {
		return consensus.ErrExistCanonical
	}
	return nil
}

func (e *vEngine) VerifyHeader(chain consensus.ChainReader, header *types.Header, seal bool) error {
	return e.verifyHeader(chain, header, nil)
}

func (e *vEngine) VerifyHeaders(chain consensus.ChainReader, headers []*types.Header, seals []bool) (chan<- struct{}, <-chan error) {
	abort := make(chan struct{}, 1)
	results := make(chan error, len(headers))
	for i, h := range headers {
		results <- e.verifyHeader(chain, h, headers[:i])
	}
	return abort, results
}

func (e *vEngine) VerifySeal(chain consensus.ChainReader, header *types.Header) error { return nil }
func (e *vEngine) HandleMsg(data []byte, receivedAt time.Time) error                  { return nil }
func (e *vEngine) NewChainHead(block *types.Block)                                    {}
func (e *vEngine) GetLookBackBlockNumber(cp *params.CaravelParams, num *big.Int, lbType params.LookBackType) *big.Int {
	return big.NewInt(0)
}
func (e *vEngine) VerifySideChainHeader(cp *params.CaravelParams, seedHeader *types.Header, vldReader state.ValidatorReader, certHeader *types.Header, certVldReader state.ValidatorReader, block *types.Block, parents []*types.Block) error {
	p := parents[len(parents)-1].Header()
	h := block.Header()
	if h.Number.Uint64() != p.Number.Uint64()+1 || h.ParentHash != p.Hash() {
		return consensus.ErrUnknownAncestor
	}
	return nil
}
func (e *vEngine) VerifyAcHeader(chain consensus.ChainReader, acHeader *types.Header, verifiedAcParents []*types.Header) error {
	return nil
}

var _ consensus.Ucon = (*vEngine)(nil)

func newHNode(g *core.Genesis, ucon bool) (*chainkit.Node, error) {
	db := youdb.NewMemDatabase()
	if _, err := g.Commit(db); err != nil {
		return nil, err
	}
	mux := event.NewMux()
	s := solo.NewFallbackSolo(true, 0, 1, 0)
	var eng consensus.Engine = s
	if ucon {
		eng = &vEngine{Solo: s, now: 1 << 40}
	}
	bc, err := core.NewBlockChain(db, eng, mux, params.ArchiveNode, local.NewDetailDB(nil, false))
	if err != nil {
		return nil, err
	}
	s.SetChain(bc)
	st := staking.NewStaking(nil)
	st.Register(bc.Processor())
	if err := st.Start(bc, eng); err != nil {
		return nil, err
	}
	return &chainkit.Node{DB: db, BC: bc, Staking: st, Mux: mux}, nil
}

type hInfo struct {
	pendingInA1 int // staking txs included in a1 (stay pending until the period end)
	periodEnds  int
	histories   int
}

// buildBranch runs generated blocks on a session (proposer forced to cbKey), returns the built blocks.
func buildBranch(s *session, prof *genProfile, r *vh.RNG, n int, cbKey int, extra func(num uint64, idx int) []string) (types.Blocks, error) {
	var out types.Blocks
	for i := 0; i < n; i++ {
		st, _, err := s.w.kit.A.NextState()
		if err != nil {
			return nil, err
		}
		bl := prof.genBlock(r, s.w, st)
		if prof.plain {
			bl = []string{bl[0], fmt.Sprintf("T %d x1 %d", r.Intn(8), r.Intn(1000))}
		}
		bl[0] = fmt.Sprintf("B %d", cbKey)
		if extra != nil {
			bl = append(bl, extra(s.w.kit.A.BC.CurrentBlock().NumberU64()+1, i)...)
		}
		if err := s.runBlock(bl); err != nil {
			return nil, err
		}
		if s.rr.viol != nil {
			return nil, fmt.Errorf("VIOL %s: %s", s.rr.viol.kind, s.rr.viol.what)
		}
		if s.rr.stopErr != "" {
			return nil, fmt.Errorf("STOP %s", s.rr.stopErr)
		}
		b := s.rr.blocks[len(s.rr.blocks)-1]
		if b.block == nil {
			return nil, fmt.Errorf("STOP block skipped: %s", b.skipped)
		}
		out = append(out, b.block)
	}
	return out, nil
}

func runHistory(line string) (fails bool, what string, info hInfo, err error) {
	defer func() {
		if r := recover(); r != nil {
			fails, what = true, fmt.Sprintf("crash: the import path panicked: %v", r)
		}
	}()
	kv := parseKV(line)
	p, la, lb, seed := kv["prefix"], kv["a"], kv["b"], kv["seed"]
	if p < 0 || p > 120 || la < 2 || la > 120 || lb < 1 || lb >= la {
		return false, "", info, fmt.Errorf("bad H scenario %q", line)
	}
	r := vh.NewRNG(uint64(seed))
	header := []string{"W users=8 pool=100000000000000000000000 ver=5",
		"GV 0 1 " + youN(2000).String() + " 1", "GV 1 2 " + youN(1000).String() + " 1", "GV 2 3 " + youN(300).String() + " 1"}
	prof := &genProfile{lazy: map[int]bool{}, nextKey: 3, txPerBlk: 3, plain: kv["plain"] == 1 || kv["long"] == 1}
	sa, _, err := newSession(header, 1)
	if err != nil {
		return false, "", info, err
	}
	defer sa.close()
	stopped := func(e error) (bool, string, hInfo, error) {
		// a violation met while building (the chain oracle's business) is reported; a deterministic stop makes the scenario void
		if strings.HasPrefix(e.Error(), "VIOL ") {
			return true, strings.TrimPrefix(e.Error(), "VIOL "), info, nil
		}
		if strings.HasPrefix(e.Error(), "STOP ") {
			return false, "void: " + e.Error(), info, nil
		}
		return false, "", info, e
	}
	// period layout (period=1): staking transactions are forced at fixed positions of the staking period relative to the fork:
	// the LAST block of the previous period (takes effect at once, must not be applied again), the period's FIRST block, an
	// interior block, the block right before the period end and the period-end block itself. Whichever of these lie on the
	// fork are pending records whose transactions a node can only find by walking the block's own ancestry.
	freq0 := sa.w.yp.StakingTrieFrequency
	forced := func(num uint64, idx int) []string {
		if kv["long"] == 1 {
			// long layout: two validator withdrawals requested in block 2 and nothing else that touches the withdraw queue; they
			// enter the queue at the first period end, are released WithdrawDelay blocks later at a period end where no record is
			// added or discarded, and at least two more period ends follow (the fork starts before the release).
			if num == 2 {
				return []string{"VW 1 1 u5 " + youN(int64(r.Range(20, 200))).String(), "VW 0 0 u6 " + youN(int64(r.Range(5, 90))).String()}
			}
			return nil
		}
		if kv["period"] != 1 {
			return nil
		}
		amt := func() string { return youN(int64(r.Range(3, 60))).String() }
		switch num % freq0 {
		case freq0 - 1: // period end (also the last block of the "previous" period for the next one)
			return []string{"VD 2 2 " + amt(), "DA 5 0 " + amt()}
		case 0:
			return []string{"VD 1 1 " + amt(), "DA 4 0 " + amt(), "VW 0 0 u5 " + youN(int64(r.Range(1, 20))).String()}
		case 6:
			return []string{"VD 0 0 " + amt(), "DA 6 1 " + amt()}
		case freq0 - 2:
			return []string{"VD 2 2 " + amt(), "DA 7 0 " + amt(), "VD 1 1 " + amt()}
		}
		return nil
	}
	var prefixExtra func(uint64, int) []string
	if kv["period"] == 1 || kv["long"] == 1 {
		prefixExtra = forced
	}
	prefix, e := buildBranch(sa, prof, r.Fork(), p, 0, prefixExtra)
	if e != nil {
		return stopped(e)
	}
	// branch B on a second pair of nodes that have the prefix
	sb, _, err := newSession(header, 1)
	if err != nil {
		return false, "", info, err
	}
	defer sb.close()
	for _, n := range []*chainkit.Node{sb.w.kit.A, sb.w.kit.B} {
		if len(prefix) > 0 {
			if err := n.BC.InsertChain(prefix); err != nil {
				return true, "disagree: a fresh node rejects the prefix in one batch: " + err.Error(), info, nil
			}
		}
	}
	// staking transactions that stay pending from a1 to the period end: deposit by validator 1's operator, a delegation, a withdrawal
	firstA := []string{fmt.Sprintf("VD 1 1 %s", youN(int64(r.Range(5, 90)))), fmt.Sprintf("DA 4 0 %s", youN(int64(r.Range(20, 90)))),
		fmt.Sprintf("VW 0 0 u5 %s", youN(int64(r.Range(1, 40)))), genK5(r, 6)}
	if prof.plain {
		firstA = nil
	}
	extraA := func(num uint64, idx int) []string {
		if kv["period"] == 1 || kv["long"] == 1 {
			return forced(num, idx)
		}
		if idx == 0 {
			return firstA
		}
		return nil
	}
	A, e := buildBranch(sa, prof, r.Fork(), la, 0, extraA)
	if e != nil {
		return stopped(e)
	}
	profB := &genProfile{lazy: map[int]bool{}, nextKey: 20, txPerBlk: 2}
	B, e := buildBranch(sb, profB, r.Fork(), lb, 1, func(num uint64, idx int) []string {
		if idx == 0 {
			return []string{fmt.Sprintf("VD 0 0 %s", youN(7))}
		}
		return nil
	})
	if e != nil {
		return stopped(e)
	}
	info.pendingInA1 = len(A[0].Transactions())
	if kv["period"] == 1 {
		info.pendingInA1 = 0
		for _, b := range A {
			if m := b.NumberU64() % freq0; m == 0 || m == 6 || m >= freq0-2 {
				info.pendingInA1 += len(b.Transactions())
			}
		}
	}
	freq := sa.w.yp.StakingTrieFrequency
	for _, b := range A {
		if (b.NumberU64()+1)%freq == 0 {
			info.periodEnds++
		}
	}
	g := sa.w.kit.Genesis
	tip := A[len(A)-1]
	one := func(n *chainkit.Node, name string, bs types.Blocks, must bool) (bool, string) {
		if len(bs) == 0 {
			return false, ""
		}
		if err := n.BC.InsertChain(bs); err != nil && must {
			return true, fmt.Sprintf("disagree: node with import history %q rejects block(s) %d..%d of the builder's chain: %v", name, bs[0].NumberU64(), bs[len(bs)-1].NumberU64(), err)
		}
		return false, ""
	}
	each := func(n *chainkit.Node, name string, bs types.Blocks, must bool) (bool, string) {
		for _, b := range bs {
			if f, w := one(n, name, types.Blocks{b}, must); f {
				return f, w
			}
		}
		return false, ""
	}
	type step struct {
		bs    types.Blocks
		batch bool
		must  bool // a rejection is a failure (blocks of A always; B where it was built by an honest builder as well)
	}
	histories := []struct {
		name  string
		ucon  bool
		steps []step
	}{
		{"main", false, []step{{prefix, false, true}, {A, false, true}}},
		{"b-then-batch", false, []step{{prefix, true, true}, {B, true, true}, {A, true, true}}},
		{"ucon-onecall", true, []step{{prefix, true, true}, {B, false, true}, {A, true, true}}},
		{"ucon-stored", true, []step{{prefix, false, true}, {A[:lb], false, true}, {B, true, true}, {A[lb:], false, true}}},
	}
	// zigzag: a1 b1 a2 b2 ... then the rest of A
	var zz []step
	zz = append(zz, step{prefix, true, true})
	for i := 0; i < lb; i++ {
		zz = append(zz, step{types.Blocks{A[i]}, false, true}, step{types.Blocks{B[i]}, false, true})
	}
	zz = append(zz, step{A[lb:], false, true})
	histories = append(histories, struct {
		name  string
		ucon  bool
		steps []step
	}{"zigzag", false, zz})

	for _, h := range histories {
		n, err := newHNode(g, h.ucon)
		if err != nil {
			return false, "", info, err
		}
		info.histories++
		f, w := false, ""
		for _, st := range h.steps {
			if st.batch {
				f, w = one(n, h.name, st.bs, st.must)
			} else {
				f, w = each(n, h.name, st.bs, st.must)
			}
			if f {
				break
			}
		}
		if !f {
			f, w = checkEndState(n, h.name, A, tip, freq)
		}
		n.Stop()
		if f {
			return true, w, info, nil
		}
	}
	return false, "", info, nil
}

func checkEndState(n *chainkit.Node, name string, A types.Blocks, tip *types.Block, freq uint64) (bool, string) {
	bc := n.BC
	pre := fmt.Sprintf("disagree: node with import history %q ", name)
	if h := bc.CurrentBlock(); h.Hash() != tip.Hash() {
		return true, pre + fmt.Sprintf("accepted every block but its head is block %d %x, the builder's tip is %d %x", h.NumberU64(), h.Hash().Bytes()[:4], tip.NumberU64(), tip.Hash().Bytes()[:4])
	}
	for _, b := range A {
		if c := bc.GetBlockByNumber(b.NumberU64()); c == nil || c.Hash() != b.Hash() {
			return true, pre + fmt.Sprintf("does not have the builder's block %d canonical", b.NumberU64())
		}
		if !bc.HasBlockAndState(b.Hash(), b.NumberU64()) {
			return true, pre + fmt.Sprintf("has no state for the builder's block %d", b.NumberU64())
		}
		if rs := bc.GetReceiptsByHash(b.Hash()); types.DeriveSha(rs) != b.ReceiptHash() {
			return true, pre + fmt.Sprintf("stored receipts of block %d that do not hash to the header's receipt root", b.NumberU64())
		}
		for _, tx := range b.Transactions() {
			if _, bh, _, _ := rawdb.ReadTransaction(n.DB, tx.Hash()); bh != b.Hash() {
				return true, pre + fmt.Sprintf("cannot resolve transaction %x of canonical block %d through the tx lookup index although the block is canonical (a multi-block reorg must index the re-canonicalised blocks)", tx.Hash().Bytes()[:4], b.NumberU64())
			}
		}
		if (b.NumberU64()+1)%freq == 0 {
			if d := compareToHeader(reexecProcess(n, b, true), b.Header()); len(d) > 0 {
				return true, fmt.Sprintf("nondeterminism: re-execution of period-end block %d on the node with import history %q does not reproduce the header: %s", b.NumberU64(), name, strings.Join(d, "; "))
			}
		}
	}
	return false, ""
}
