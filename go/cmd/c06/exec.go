package main

// Runs a scenario on the real code and evaluates the property's statement on what the real code does:
//
//	(1) the block is built by the worker-equivalent builder of chainkit (ApplyTransaction per tx under a snapshot,
//	    EndBlock(isSeal=true) with the staking module's own evidence pool, FinalizeAndAssemble) on node A,
//	(2) it is imported by InsertChain into node A and into node B (independent database, own staking module),
//	(3) it is re-executed K times on fresh StateDBs opened at the parent roots, alternating between the two databases,
//	    between a warm and a cold trie-node cache, and between the real Process+ValidateState path and a mirrored path
//	    that exposes GasRewards and Subsidy; Go re-randomises map iteration order on every `range`, so every
//	    repetition explores other orders of every map the execution iterates.
//
// Everything an execution commits to must be identical in all runs and equal to the built header:
// state/validator/staking roots, receipts (status, cumulative gas, logs), receipt root, bloom, gas used, GasRewards,
// Subsidy; the builder's SlashData is what the importers replay.

import (
	"bytes"
	"fmt"
	"math/big"
	"os"
	"sort"
	"strings"

	"github.com/youchainhq/go-youchain/common"
	"github.com/youchainhq/go-youchain/core"
	"github.com/youchainhq/go-youchain/core/state"
	"github.com/youchainhq/go-youchain/core/types"
	"github.com/youchainhq/go-youchain/crypto"
	"github.com/youchainhq/go-youchain/local"
	"github.com/youchainhq/go-youchain/params"
	"github.com/youchainhq/go-youchain/rlp"
	"github.com/youchainhq/go-youchain/staking"

	"verifharness/cmd/c07/chainkit"
)

// execResult is everything one execution of a block commits to, canonical text.
type execResult struct {
	root, valRoot, stakingRoot common.Hash
	receiptHash                common.Hash
	receiptsDigest             common.Hash // keccak of the consensus RLP of all receipts (status, cumulative gas, bloom, logs)
	bloom                      types.Bloom
	gasUsed                    uint64
	gasRewards, subsidy        string // "" when the path does not expose it
	nLogs                      int
	err                        string // Process / ValidateState error, or "panic: ..."
}

func (r execResult) key(withHidden bool) string {
	s := fmt.Sprintf("root=%x val=%x stk=%x rh=%x rd=%x bloom=%x gas=%d logs=%d err=%s", r.root, r.valRoot, r.stakingRoot, r.receiptHash,
		r.receiptsDigest, crypto.Keccak256(r.bloom[:])[:8], r.gasUsed, r.nLogs, r.err)
	if withHidden {
		s += fmt.Sprintf(" gasRewards=%s subsidy=%s", r.gasRewards, r.subsidy)
	}
	return s
}

func digestReceipts(rs types.Receipts) (common.Hash, int) {
	b, err := rlp.EncodeToBytes(rs)
	if err != nil {
		return common.Hash{}, 0
	}
	n := 0
	for _, r := range rs {
		n += len(r.Logs)
	}
	return crypto.Keccak256Hash(b), n
}

// parentState opens a fresh StateDB for executing blk on node n. cold = with a brand-new trie-node cache.
func parentState(n *chainkit.Node, blk *types.Block, cold bool) (*state.StateDB, *types.Block, error) {
	bc := n.BC
	parent := bc.GetBlock(blk.ParentHash(), blk.NumberU64()-1)
	if parent == nil {
		return nil, nil, fmt.Errorf("parent of block %d unknown", blk.NumberU64())
	}
	yp, err := bc.VersionForRound(blk.NumberU64())
	if err != nil {
		return nil, nil, err
	}
	sroot := core.StakingRootForNewBlock(yp.StakingTrieFrequency, parent.Header())
	var st *state.StateDB
	if cold {
		st, err = state.New(parent.Root(), parent.ValRoot(), sroot, state.NewDatabase(n.DB))
	} else {
		st, err = bc.StateAt(parent.Root(), parent.ValRoot(), sroot)
	}
	return st, parent, err
}

// reexecProcess = what insertChain does with a block: Process, then ValidateState against the header.
func reexecProcess(n *chainkit.Node, blk *types.Block, cold bool) (res execResult) {
	defer func() {
		if r := recover(); r != nil {
			res.err = fmt.Sprintf("panic: %v", r)
		}
	}()
	bc := n.BC
	st, parent, err := parentState(n, blk, cold)
	if err != nil {
		res.err = "state: " + err.Error()
		return
	}
	yp, _ := bc.VersionForRound(blk.NumberU64())
	pr, err := bc.Processor().Process(yp, blk, st, *bc.GetVMConfig(), local.FakeRecorder())
	if err != nil {
		res.err = "process: " + err.Error()
		return
	}
	if err := bc.Validator().ValidateState(blk, parent, st, pr.Recs, pr.UsedGas); err != nil {
		res.err = "validate: " + err.Error()
	}
	res.root, res.valRoot, res.stakingRoot = st.IntermediateRoot(true)
	res.receiptHash = types.DeriveSha(pr.Recs)
	res.receiptsDigest, res.nLogs = digestReceipts(pr.Recs)
	res.bloom = types.CreateBloom(pr.Recs)
	res.gasUsed = pr.UsedGas
	return
}

// reexecMirror mirrors StateProcessor.Process statement by statement on a header copy whose GasRewards/Subsidy start at zero,
// so that the recomputed values are visible (Process keeps them in a private copy).
func reexecMirror(n *chainkit.Node, blk *types.Block, cold bool) (res execResult) {
	defer func() {
		if r := recover(); r != nil {
			res.err = fmt.Sprintf("panic: %v", r)
		}
	}()
	bc := n.BC
	st, _, err := parentState(n, blk, cold)
	if err != nil {
		res.err = "state: " + err.Error()
		return
	}
	header := blk.Header()
	header.Subsidy = new(big.Int)
	usedGas := new(uint64)
	gasRewards := new(big.Int)
	gp := new(core.GasPool).AddGas(blk.GasLimit())
	vmCfg, err := core.PrepareVMConfig(bc, blk.NumberU64(), *bc.GetVMConfig())
	if err != nil {
		res.err = "vmcfg: " + err.Error()
		return
	}
	signer := types.MakeSigner(header.Number)
	var receipts types.Receipts
	for i, tx := range blk.Transactions() {
		st.Prepare(tx.Hash(), blk.Hash(), i)
		rc, _, e := bc.Processor().ApplyTransaction(tx, signer, st, bc, header, nil, usedGas, gasRewards, gp, vmCfg, local.FakeRecorder())
		if e != nil {
			res.err = "apply: " + e.Error()
			return
		}
		receipts = append(receipts, rc)
	}
	recs, _, _ := bc.Processor().EndBlock(bc, header, blk.Transactions(), st, false, local.FakeRecorder())
	for _, r := range recs {
		if r != nil {
			receipts = append(receipts, r)
		}
	}
	res.root, res.valRoot, res.stakingRoot = st.IntermediateRoot(true)
	res.receiptHash = types.DeriveSha(receipts)
	res.receiptsDigest, res.nLogs = digestReceipts(receipts)
	res.bloom = types.CreateBloom(receipts)
	res.gasUsed = *usedGas
	res.gasRewards, res.subsidy = gasRewards.String(), header.Subsidy.String()
	return
}

// queueText: the withdraw queue as execution sees it.
func queueText(st *state.StateDB) string {
	q := st.GetWithdrawQueue()
	if q == nil {
		return ""
	}
	var o []string
	for _, r := range q.Records {
		o = append(o, fmt.Sprintf("%x:%d:%s:%d", r.TxHash.Bytes()[:3], r.Finished, r.FinalBalance, r.CompletionHeight))
	}
	return strings.Join(o, " ")
}

func headerResult(h *types.Header) execResult {
	return execResult{root: h.Root, valRoot: h.ValRoot, stakingRoot: h.StakingRoot, receiptHash: h.ReceiptHash, bloom: h.Bloom,
		gasUsed: h.GasUsed, gasRewards: h.GasRewards.String(), subsidy: h.Subsidy.String()}
}

// compareToHeader lists the header commitments an execution result does not reproduce.
func compareToHeader(r execResult, h *types.Header) []string {
	var d []string
	if r.err != "" {
		d = append(d, "error "+r.err)
	}
	if r.root != h.Root {
		d = append(d, fmt.Sprintf("state root %x != header %x", r.root, h.Root))
	}
	if r.valRoot != h.ValRoot {
		d = append(d, fmt.Sprintf("validator root %x != header %x", r.valRoot, h.ValRoot))
	}
	if r.stakingRoot != h.StakingRoot {
		d = append(d, fmt.Sprintf("staking root %x != header %x", r.stakingRoot, h.StakingRoot))
	}
	if r.receiptHash != h.ReceiptHash {
		d = append(d, "receipt root differs from header")
	}
	if r.bloom != h.Bloom {
		d = append(d, "bloom differs from header")
	}
	if r.gasUsed != h.GasUsed {
		d = append(d, fmt.Sprintf("gas used %d != header %d", r.gasUsed, h.GasUsed))
	}
	if r.gasRewards != "" && r.gasRewards != h.GasRewards.String() {
		d = append(d, fmt.Sprintf("GasRewards %s != header %s", r.gasRewards, h.GasRewards))
	}
	if r.subsidy != "" && r.subsidy != h.Subsidy.String() {
		d = append(d, fmt.Sprintf("Subsidy %s != header %s", r.subsidy, h.Subsidy))
	}
	return d
}

// ---- scenario execution ------------------------------------------------------------------------------

type blockRec struct {
	num       uint64
	lines     []string
	block     *types.Block
	nTx       int
	nContract int // contract calls offered
	nStaking  int
	nFailed   int // included with failed status
	nSkipped  int // refused by the builder
	nEv       int
	nSlashed  int // evidences confirmed into SlashData
	forged    bool
	periodEnd bool
	endLogs   int
	slashLogs int                         // logs with the slashing topic in the end-block receipt
	slashTot  map[common.Address]*big.Int // penalty total per validator as logged (SlashDataV5.Total)
	reruns    int
	skipped   string // block not built (ill-formed proposer)

	worker      bool           // built through the worker's candidate loop
	workerStats map[string]int // per error class
	candGas     uint64         // sum of the candidates' gas limits
	gasLimit    uint64

	poolBefore, poolAfter []staking.Evidence // the builder's evidence pool when EndBlock started / after it
	sameKind              bool               // an evidence of kind "same" is in the pool (F-C05a territory, excluded from the model comparison)
}

// evInfo is what the harness knows about an evidence it made (keyed by the keccak of its data).
type evInfo struct {
	id    int
	round uint64
	vk    int
	kind  string
	valid bool
}

type violation struct {
	kind string // "disagree" (builder vs importer) | "nondeterminism" | "crash"
	what string
	at   int // index of the block in the scenario (B line ordinal)
}

type runResult struct {
	childBlocks int // blocks re-executed in a fresh child process
	w           *world
	blocks      []blockRec
	viol        *violation
	stopErr     string // scenario cannot continue for a reason that is not a violation (deterministic panic of the builder)
}

func splitBlocks(lines []string) [][]string {
	var out [][]string
	for _, l := range lines {
		if strings.HasPrefix(l, "B ") {
			out = append(out, []string{l})
		} else if len(out) > 0 {
			out[len(out)-1] = append(out[len(out)-1], l)
		}
	}
	return out
}

type session struct {
	w   *world
	rr  *runResult
	k   int // re-executions per block
	evs map[common.Hash]evInfo
}

func newSession(header []string, k int) (*session, []string, error) {
	w, rest, err := parseWorld(header)
	if err != nil {
		return nil, nil, err
	}
	if err := w.start(); err != nil {
		return nil, nil, err
	}
	return &session{w: w, rr: &runResult{w: w}, k: k, evs: map[common.Hash]evInfo{}}, rest, nil
}

func (s *session) close() { s.w.stop() }

func execScenario(lines []string, k int) (*runResult, error) {
	s, rest, err := newSession(lines, k)
	if err != nil {
		return nil, err
	}
	defer s.close()
	for _, bl := range splitBlocks(rest) {
		if err := s.runBlock(bl); err != nil {
			return nil, err
		}
		if s.rr.viol != nil || s.rr.stopErr != "" {
			break
		}
	}
	if err := s.finishChain(); err != nil {
		return nil, err
	}
	return s.rr, nil
}

// finishChain: the blocks whose result could depend on process history (contract calls, evidences, worker blocks, period
// ends; at most maxChild, latest first) are re-executed once more in a fresh child process on a dump of node B's database.
const maxChild = 8

func (s *session) finishChain() error {
	rr := s.rr
	if rr.viol != nil || s.k == 0 {
		return nil
	}
	var nums []uint64
	at := map[uint64]int{}
	for i := len(rr.blocks) - 1; i >= 0 && len(nums) < maxChild; i-- {
		b := rr.blocks[i]
		if b.block == nil {
			continue
		}
		if b.nContract > 0 || b.nEv > 0 || b.worker || b.periodEnd || len(nums) == 0 {
			nums = append(nums, b.num)
			at[b.num] = i
		}
	}
	what, err := childReexec(s.w.kit.B, nums)
	if err != nil {
		return err
	}
	rr.childBlocks = len(nums)
	if what != "" {
		idx := len(rr.blocks) - 1
		var n uint64
		fmt.Sscanf(strings.TrimPrefix(what, "re-execution of accepted block "), "%d", &n)
		if i, ok := at[n]; ok {
			idx = i
		}
		rr.viol = &violation{kind: "nondeterminism", at: idx, what: what}
	}
	return nil
}

// runBlock builds, imports, re-executes and records one block. bl[0] is the B line. A returned error means the scenario
// text is ill-formed (never a property violation).
func (s *session) runBlock(bl []string) error {
	w, rr := s.w, s.rr
	at := len(rr.blocks)
	bo, err := parseOp(bl[0])
	if err != nil {
		return err
	}
	cbKey := bo.user()
	if cbKey < 0 || cbKey >= maxValKeys {
		return fmt.Errorf("bad proposer in %q", bl[0])
	}
	coinbase := chainkit.Addr(chainkit.Key("val", cbKey))
	pre, _, err := w.kit.A.NextState()
	if err != nil {
		return err
	}
	br := blockRec{lines: bl}
	if pre.GetValidatorByMainAddr(coinbase) == nil {
		// rewardsToPool calls logging.Crit (os.Exit) when the proposer is not a validator; such a header cannot come out of
		// consensus. The scenario is ill-formed here: skip the block.
		br.skipped = "proposer is not a validator"
		rr.blocks = append(rr.blocks, br)
		return nil
	}
	stat, _ := pre.GetValidatorsStat()
	if stat == nil || stat.GetCountOfKind(params.KindValidator) == 0 {
		// no online validator at all: rewardsToPool divides by sumOfPortions = 0 for builder and importer alike
		br.skipped = "no online validator"
		rr.blocks = append(rr.blocks, br)
		return nil
	}
	work, err := beginWork(w.kit.A, w.kit.Signer, coinbase)
	if err != nil {
		return err
	}
	br.num = work.Header.Number.Uint64()
	parentNum := br.num - 1
	var evs []staking.Evidence
	forged := false
	workerMode := false
	for _, l := range bl[1:] {
		if strings.TrimSpace(l) == "WK" {
			workerMode = true
		}
	}
	// worker mode: candidates grouped by sender, nonces assigned from the state at the start of the block
	groups := map[common.Address]types.Transactions{}
	given := map[common.Address]uint64{}
	kindOf := map[common.Hash]string{}
	account := func(kind string, out applyOutcome) {
		br.nTx++
		if kind == "K" {
			br.nContract++
		}
		if !out.included {
			br.nSkipped++
			return
		}
		if kind != "T" && kind != "K" {
			br.nStaking++
		}
		if out.receipt.Status == types.ReceiptStatusFailed {
			br.nFailed++
		}
	}
	for _, l := range bl[1:] {
		o, err := parseOp(l)
		if err != nil {
			return err
		}
		switch o.kind {
		case "FS":
			forged = true
			continue
		case "WK":
			continue
		case "EV":
			vk := o.user()
			if vk < 0 || vk >= maxValKeys {
				return fmt.Errorf("bad validator key in %q", l)
			}
			var off int64
			fmt.Sscan(o.f[1], &off)
			round := int64(parentNum) + off
			if round < 0 {
				round = 0
			}
			ev, valid, err := w.makeEvidence(w.kit.A, vk, uint64(round), o.f[2])
			if err != nil {
				return err
			}
			hk := crypto.Keccak256Hash(ev.Data)
			if _, dup := s.evs[hk]; !dup {
				s.evs[hk] = evInfo{id: len(s.evs) + 1, round: uint64(round), vk: vk, kind: o.f[2], valid: valid}
			}
			evs = append(evs, ev)
			br.nEv++
			continue
		}
		if workerMode {
			tx, err := w.makeTx(o, func(a common.Address) uint64 { n := work.State.GetNonce(a) + given[a]; given[a]++; return n })
			if err != nil {
				return err
			}
			from, _ := types.Sender(w.kit.Signer, tx)
			groups[from] = append(groups[from], tx)
			kindOf[tx.Hash()] = o.kind
			br.candGas += tx.Gas()
			continue
		}
		tx, err := w.makeTx(o, work.State.GetNonce)
		if err != nil {
			return err
		}
		out := work.apply(tx)
		if out.panicked != "" {
			// a panic inside ApplyTransaction is the same for builder and importer only if the importer gets the tx at all;
			// the builder (miner/worker.go) would die here. Reported as a crash (not C06's claim unless it is order dependent).
			rr.stopErr = fmt.Sprintf("block %d: ApplyTransaction panicked on %q: %s", br.num, l, out.panicked)
			rr.blocks = append(rr.blocks, br)
			return nil
		}
		account(o.kind, out)
	}
	if workerMode {
		br.worker = true
		br.gasLimit = work.Header.GasLimit
		for a := range groups {
			sort.Stable(types.TxByNonce(groups[a])) // the pool hands over nonce-sorted lists
		}
		br.workerStats = work.candidateLoop(groups, func(tx *types.Transaction, o applyOutcome) {
			if o.panicked == "" {
				account(kindOf[tx.Hash()], o)
			}
		})
		if br.workerStats["panic"] > 0 {
			rr.stopErr = fmt.Sprintf("block %d: ApplyTransaction panicked in the worker loop", br.num)
			rr.blocks = append(rr.blocks, br)
			return nil
		}
	}
	var slashData []byte
	if forged {
		br.forged = true
		if len(evs) == 0 {
			slashData = []byte{0xc0}
		} else {
			slashData, err = rlp.EncodeToBytes(evs)
			if err != nil {
				return err
			}
		}
	} else {
		for _, e := range evs {
			w.kit.A.Staking.VerifC06AddEvidence(e)
		}
	}
	br.poolBefore = w.kit.A.Staking.VerifC06Evidences()
	for _, e := range br.poolBefore {
		if s.evs[crypto.Keccak256Hash(e.Data)].kind == "same" {
			br.sameKind = true
		}
	}
	built, err := work.finish(slashData)
	if err != nil {
		return err
	}
	br.poolAfter = w.kit.A.Staking.VerifC06Evidences()
	if built.Panic != "" {
		rr.stopErr = fmt.Sprintf("block %d: EndBlock panicked in the builder: %s", br.num, built.Panic)
		rr.blocks = append(rr.blocks, br)
		return nil
	}
	blk := built.Block
	br.block = blk
	h := blk.Header()
	br.periodEnd = (br.num+1)%w.yp.StakingTrieFrequency == 0
	if built.EndReceipt != nil {
		br.endLogs = len(built.EndReceipt.Logs)
		for _, l := range built.EndReceipt.Logs {
			if len(l.Topics) == 1 && l.Topics[0] == common.StringToHash(staking.LogTopicSlashing) {
				br.slashLogs++
				var sd staking.SlashDataV5
				if rlp.DecodeBytes(l.Data, &sd) == nil && sd.Total != nil {
					if br.slashTot == nil {
						br.slashTot = map[common.Address]*big.Int{}
					}
					br.slashTot[sd.MainAddress] = sd.Total
				}
			}
		}
	}
	if len(h.SlashData) > 0 && !forged {
		var conf []staking.Evidence
		if rlp.DecodeBytes(h.SlashData, &conf) == nil {
			br.nSlashed = len(conf)
		}
	}
	liveQueue := queueText(work.State)
	// (2) import into both nodes
	if err := w.kit.Import(blk); err != nil {
		rr.blocks = append(rr.blocks, br)
		rr.viol = &violation{kind: "disagree", at: at, what: fmt.Sprintf("block %d assembled by the builder path (%d txs, %d evidences, forged=%v, slashData=%d bytes) is not accepted by the import path: %v",
			br.num, len(blk.Transactions()), br.nEv, forged, len(h.SlashData), err)}
		return nil
	}
	// (2b) reopen: what the live state object of the builder holds after the block (withdraw queue: Finished flags, balances)
	// must be what a state reopened from the block's roots shows; otherwise the next block, which starts from a FRESH StateDB,
	// executes on other data than a StateDB carried across blocks (side-chain verification) does.
	if hs, err := w.kit.B.HeadState(); err == nil {
		if re := queueText(hs); re != liveQueue && os.Getenv("C06_NOREOPEN") == "" {
			rr.blocks = append(rr.blocks, br)
			rr.viol = &violation{kind: "nondeterminism", at: at, what: fmt.Sprintf("after block %d the withdraw queue reopened from the block's roots differs from the builder's live state object (a carried-over StateDB and a fresh one execute the next block on different data): live [%s] reopened [%s]", br.num, liveQueue, re)}
			return nil
		}
	}
	// (3) K re-executions
	var first *execResult
	for i := 0; i < s.k; i++ {
		node := w.kit.B
		if i%2 == 1 {
			node = w.kit.A
		}
		cold := i%4 >= 2
		if i > 0 {
			dirtyPool(w, node, blk, i) // a different interpreter history before every repetition
		}
		var r execResult
		if i%3 == 1 {
			r = reexecMirror(node, blk, cold)
		} else {
			r = reexecProcess(node, blk, cold)
		}
		br.reruns++
		if d := compareToHeader(r, h); len(d) > 0 {
			rr.blocks = append(rr.blocks, br)
			rr.viol = &violation{kind: "nondeterminism", at: at, what: fmt.Sprintf("re-execution %d of accepted block %d (node %s, cold=%v) does not reproduce the header: %s",
				i, br.num, map[bool]string{true: "A", false: "B"}[node == w.kit.A], cold, strings.Join(d, "; "))}
			return nil
		}
		if first == nil {
			first = &r
		} else if r.key(false) != first.key(false) {
			rr.blocks = append(rr.blocks, br)
			rr.viol = &violation{kind: "nondeterminism", at: at, what: fmt.Sprintf("two executions of block %d differ: %s  VS  %s", br.num, first.key(false), r.key(false))}
			return nil
		}
	}
	// head state of both nodes is the block's state
	if !bytes.Equal(w.kit.A.BC.CurrentBlock().Root().Bytes(), w.kit.B.BC.CurrentBlock().Root().Bytes()) {
		rr.viol = &violation{kind: "disagree", at: at, what: "heads differ after import"}
	}
	rr.blocks = append(rr.blocks, br)
	return nil
}
