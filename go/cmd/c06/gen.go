package main

// Seeded, state-aware scenario generator: mostly valid operations (it looks at the real state between blocks to know who
// is a validator, who operates it, who delegates) plus a malformed stream (wrong sender, unknown validator, values below
// minimum / above balance, bad nonce, too little gas, garbage payloads), plus evidences (genuine double signs for the one
// slashable round, future/old rounds, invalid signatures, unknown signer index, repeated validator) through the builder's
// pool, and blocks finished through the forged-SlashData path.

import (
	"fmt"
	"math/big"
	"sort"
	"strings"

	"github.com/youchainhq/go-youchain/core/state"
	"github.com/youchainhq/go-youchain/params"

	"verifharness/cmd/c07/chainkit"
	"verifharness/internal/vh"
)

type genProfile struct {
	lazy     map[int]bool // validator keys that never propose (inactivity penalties at period ends)
	nextKey  int
	txPerBlk int
	evRate   int // percent of blocks that carry evidence
	heavy    bool
	gasLim   uint64 // genesis gas limit of the world (0 = default 30M)
	wkRate   int    // percent of blocks built through the worker's candidate loop
	plain    bool   // (H scenarios) transfers only
}

func genWorld(r *vh.RNG) ([]string, *genProfile) {
	p := &genProfile{lazy: map[int]bool{}, txPerBlk: r.Range(1, 5), evRate: []int{0, 6, 12, 25}[r.Intn(4)], heavy: r.Chance(20)}
	pool := youN(100000)
	switch r.Intn(6) {
	case 0:
		pool = youN(int64(r.Range(20, 400))) // runs dry during the chain
	case 1:
		pool = new(big.Int)
	case 2:
		pool = new(big.Int).Add(youN(int64(r.Range(100, 900))), big.NewInt(int64(r.Intn(1000000))))
	}
	ver := 5
	if r.Chance(12) {
		ver = 4 // pre-V5 reward split (proposer's own role) and validator iteration through GetValidators().List()
	}
	hdr := fmt.Sprintf("W users=8 pool=%s ver=%d", pool, ver)
	switch r.Intn(5) {
	case 0:
		p.gasLim, p.wkRate = 1500000, 20
	case 1:
		p.gasLim, p.wkRate = 3000000, 15
	default:
		p.wkRate = 4
	}
	if p.gasLim != 0 {
		hdr += fmt.Sprintf(" gl=%d", p.gasLim)
	}
	lines := []string{hdr}
	n := r.Range(3, 7)
	odd := func() *big.Int { return big.NewInt(int64(r.Intn(1000000000)) * int64(r.Intn(1000000000))) }
	for k := 0; k < n; k++ {
		role := 1 + r.Intn(3)
		if k == 0 {
			role = 1 + r.Intn(2) // key 0: an always-online, always-proposing chamber validator keeps the chain alive
		}
		min := map[int]int64{1: 1000, 2: 500, 3: 100}[role]
		tok := youN(min + int64(r.Intn(int(min))))
		if r.Chance(60) {
			tok.Add(tok, odd())
		}
		if k > 0 && r.Chance(25) {
			tok = youN(min) // equal stakes: ties in the stake-sorted validator list
		}
		status := 1
		if k > 0 && r.Chance(15) {
			status = 0
		}
		if k > 0 && role != 3 && r.Chance(35) {
			p.lazy[k] = true
		}
		lines = append(lines, fmt.Sprintf("GV %d %d %s %d", k, role, tok, status))
	}
	p.nextKey = n
	return lines, p
}

type valView struct {
	key      int
	operator int
	v        *state.Validator
}

func (w *world) valViews(st *state.StateDB) []valView {
	var out []valView
	for _, v := range st.GetValidators().List() {
		k, ok := w.keyOf[v.MainAddress()]
		if !ok {
			continue
		}
		vv := valView{key: k, operator: -1, v: v}
		for u := 0; u < w.users; u++ {
			if chainkit.Addr(w.userKey[u]) == v.OperatorAddress {
				vv.operator = u
			}
		}
		out = append(out, vv)
	}
	sort.Slice(out, func(i, j int) bool { return out[i].key < out[j].key })
	return out
}

func (w *world) userOf(a [20]byte) int {
	for u := 0; u < w.users; u++ {
		if chainkit.Addr(w.userKey[u]) == a {
			return u
		}
	}
	return -1
}

func amountAround(r *vh.RNG, base *big.Int) *big.Int {
	v := new(big.Int).Set(base)
	switch r.Intn(6) {
	case 0:
	case 1:
		v.Sub(v, big.NewInt(int64(r.Range(1, 1000))))
	case 2:
		v.Add(v, big.NewInt(int64(r.Range(1, 1000))))
	case 3:
		v.Div(v, big.NewInt(2))
	case 4:
		v.Mul(v, big.NewInt(int64(r.Range(2, 5))))
	case 5:
		v.Add(v, new(big.Int).Mul(big.NewInt(int64(r.Intn(1000000000))), big.NewInt(int64(r.Intn(1000000000)))))
	}
	if v.Sign() < 0 {
		v.SetInt64(0)
	}
	return v
}

// estimated gas really used by a candidate line (for sizing worker blocks)
func estGas(l string) uint64 {
	switch {
	case strings.HasPrefix(l, "T "):
		return 21000
	case strings.HasPrefix(l, "K "):
		f := strings.Fields(l)
		switch f[2] {
		case "4":
			return 95000
		case "5":
			return 200000
		}
		return 30000
	}
	return 150000
}

// genWorkerBlock: a candidate set for miner/worker.go's loop: acceptable candidates whose estimated real gas is 1.2-2.5x the
// block gas limit (so the pool boundary is hit), interleaved with refused ones of every class.
func (p *genProfile) genWorkerBlock(r *vh.RNG, w *world, st *state.StateDB, gasLimit uint64) []string {
	target := gasLimit * uint64(r.Range(12, 25)) / 10
	if gasLimit > 5000000 {
		target = uint64(r.Range(10, 40)) * 150000 // default worlds: a few dozen candidates, the boundary is hit by large gas limits
	}
	base := p.genBlockN(r, w, st, 1)
	lines := []string{base[0], "WK"}
	var tail []string
	for _, l := range base[1:] {
		if strings.HasPrefix(l, "EV ") || l == "FS" {
			tail = append(tail, l)
		}
	}
	var est uint64
	for est < target && len(lines) < 140 {
		var l string
		u := r.Intn(w.users)
		switch r.Weighted([]int{18, 22, 14, 18, 28}) {
		case 0:
			l = fmt.Sprintf("T %d x%d %d", u, r.Intn(3), r.Intn(1000000))
		case 1:
			l = fmt.Sprintf("K %d 4 %064x%064x%064x%064x 0", u, r.Range(0, 40)*4, r.Intn(3)*r.Intn(1000), 1+r.Intn(1000), r.Intn(2)*r.Intn(1000))
		case 2:
			l = genK5(r, u)
		case 3:
			// a few staking candidates out of the ordinary generator
			b := p.genBlockN(r, w, st, 3)
			for _, x := range b[1:] {
				if !strings.HasPrefix(x, "EV ") && x != "FS" && !strings.Contains(x, " n=") {
					l = x
					break
				}
			}
		case 4: // refused candidates
			big := gasLimit * uint64(r.Range(3, 11)) / 10
			switch r.Intn(7) {
			case 0:
				l = fmt.Sprintf("T %d u1 1000 n=%d", u, r.Range(2, 4)) // nonce too high: the sender's later candidates go with it
			case 1:
				l = fmt.Sprintf("T %d u1 1000 n=-1", u) // nonce too low once the previous one is in
			case 2:
				l = fmt.Sprintf("T %d u1 1000 p=1000000000000", u) // cannot pay for the gas
			case 3:
				l = fmt.Sprintf("T %d x1 %s g=%d", u, youN(4000000), big) // can pay the gas, not the value; large reservation
			case 4:
				l = fmt.Sprintf("T %d x2 %s g=%d", u, youN(1600000), 21000+uint64(r.Intn(3))*uint64(big)) // affordable alone, not twice
			case 5:
				l = fmt.Sprintf("T %d u2 5 g=%d", u, []int{20000, 20999, 100}[r.Intn(3)]) // intrinsic gas above the tx gas
			case 6:
				l = fmt.Sprintf("T %d u3 7 g=%d", u, big) // gas limit above what may be left in the pool
			}
		}
		if l == "" {
			continue
		}
		if !strings.Contains(l, " p=") && r.Chance(60) {
			l += fmt.Sprintf(" p=%d", []int{1, 2, 3, 7, 33, 250}[r.Intn(6)])
		}
		est += estGas(l)
		lines = append(lines, l)
	}
	return append(lines, tail...)
}

func genK5(r *vh.RNG, u int) string {
	word := func() string {
		switch r.Intn(8) {
		case 0, 1, 2:
			return fmt.Sprintf("%064x", 0)
		case 3:
			return strings.Repeat("f", 64) // -1
		case 4:
			return fmt.Sprintf("%064x", 256+r.Intn(1000)) // shift >= 256, SIGNEXTEND out of range
		case 5:
			return "8" + strings.Repeat("0", 63) // minimum signed
		default:
			return fmt.Sprintf("%064x", r.Intn(40))
		}
	}
	return fmt.Sprintf("K %d 5 %s%s%s 0", u, word(), word(), word())
}

func (p *genProfile) genBlock(r *vh.RNG, w *world, st *state.StateDB) []string {
	return p.genBlockN(r, w, st, 0)
}

func (p *genProfile) genBlockN(r *vh.RNG, w *world, st *state.StateDB, force int) []string {
	vals := w.valViews(st)
	var cands []int
	for _, v := range vals {
		if v.v.IsOnline() && !p.lazy[v.key] {
			cands = append(cands, v.key)
		}
	}
	cb := 0
	if len(cands) > 0 && !r.Chance(30) {
		cb = cands[r.Intn(len(cands))]
	}
	lines := []string{fmt.Sprintf("B %d", cb)}
	ntx := r.Intn(p.txPerBlk + 1)
	if r.Chance(10) {
		ntx += r.Intn(5)
	}
	if p.heavy && r.Chance(30) {
		ntx += r.Range(16, 40) // enough transactions for ProcessSenders to fan out over goroutines
	}
	if force > 0 {
		ntx = force
	}
	pickVal := func(pred func(valView) bool) (valView, bool) {
		var c []valView
		for _, v := range vals {
			if pred == nil || pred(v) {
				c = append(c, v)
			}
		}
		if len(c) == 0 {
			return valView{}, false
		}
		return c[r.Intn(len(c))], true
	}
	addrIDs := []string{"u0", "u1", "u2", "u3", "u4", "u5", "u6", "u7", "c0", "c1", "c2", "x0", "x1", "x2", "pool", "pen", "m1", "k1"}
	for i := 0; i < ntx; i++ {
		var l string
		u := r.Intn(w.users)
		kind := r.Weighted([]int{20, 12, 8, 6, 10, 10, 7, 5, 12, 8, 4, 6})
		switch kind {
		case 0:
			val := new(big.Int).Mul(big.NewInt(int64(r.Intn(2000))), big.NewInt(1e15))
			if r.Chance(5) {
				val = youN(4000000)
			}
			l = fmt.Sprintf("T %d %s %s", u, addrIDs[r.Intn(len(addrIDs))], val)
		case 1:
			switch r.Intn(11) {
			case 8, 9, 10:
				l = genK5(r, u)
			case 0:
				l = fmt.Sprintf("K %d 0 %064x 0", u, r.Range(1, 255))
			case 1:
				l = fmt.Sprintf("K %d 0 %064x 0", u, 0)
			case 2:
				l = fmt.Sprintf("K %d 1 - %d", u, r.Intn(1000000))
			case 3:
				l = fmt.Sprintf("K %d 3 - %d", u, r.Intn(1000000))
			case 4:
				benef := contractAddr(2)
				if r.Bool() {
					benef = chainkit.Addr(chainkit.Key("fresh", 3))
				}
				l = fmt.Sprintf("K %d 2 %064x %d", u, new(big.Int).SetBytes(benef[:]), r.Intn(1000))
			default:
				// k4: four storage slots (some cleared) and a log
				l = fmt.Sprintf("K %d 4 %064x%064x%064x%064x 0", u, r.Range(0, 40)*4, r.Intn(3)*r.Intn(1000), r.Intn(3)*r.Intn(1000), r.Intn(2)*r.Intn(1000))
			}
		case 2:
			role := 1 + r.Intn(3)
			min := map[int]int64{1: 1000, 2: 500, 3: 100}[role]
			val := amountAround(r, youN(min))
			if r.Chance(50) {
				val = youN(min + int64(r.Intn(500)))
			}
			key := p.nextKey
			if key < maxValKeys-1 {
				p.nextKey++
			}
			if r.Chance(10) && len(vals) > 0 {
				key = vals[r.Intn(len(vals))].key
			}
			comm, risk := r.Intn(10001), r.Intn(10001)
			if r.Chance(30) {
				comm = 0
			}
			if r.Chance(30) {
				risk = 0
			}
			l = fmt.Sprintf("VC %d %d %d %s %d %d %d", u, key, role, val, comm, risk, r.Intn(2))
		case 3:
			if v, ok := pickVal(nil); ok {
				ops := []int{65535, 0, r.Intn(10001)}
				acc := []int{65535, 1, 1, 0}[r.Intn(4)]
				l = fmt.Sprintf("VU %d %d %d %d %d", v.operator, v.key, ops[r.Intn(3)], ops[r.Intn(3)], acc)
			}
		case 4:
			if v, ok := pickVal(nil); ok {
				val := amountAround(r, youN(int64(r.Range(1, 300))))
				if r.Chance(5) {
					val = youN(2000000)
				}
				l = fmt.Sprintf("VD %d %d %s", v.operator, v.key, val)
			}
		case 5:
			if v, ok := pickVal(nil); ok {
				var val *big.Int
				switch r.Intn(4) {
				case 0:
					val = new(big.Int).Set(v.v.SelfToken)
				case 1:
					val = amountAround(r, v.v.SelfToken)
				default:
					val = amountAround(r, youN(int64(r.Range(1, 200))))
				}
				if val.Sign() == 0 {
					val = big.NewInt(1)
				}
				l = fmt.Sprintf("VW %d %d %s %s", v.operator, v.key, []string{"u0", "u5", "x4", "c1", fmt.Sprintf("u%d", u)}[r.Intn(5)], val)
			}
		case 6:
			if v, ok := pickVal(func(v valView) bool { return v.key != 0 }); ok {
				s := 1
				if v.v.IsOnline() {
					s = 0
				}
				if r.Chance(10) {
					s = 1 - s
				}
				l = fmt.Sprintf("VS %d %d %d", v.operator, v.key, s)
			}
		case 7:
			if v, ok := pickVal(nil); ok {
				l = fmt.Sprintf("VT %d %d", v.operator, v.key)
			}
		case 8:
			v, ok := pickVal(func(v valView) bool { return v.v.AcceptDelegation == params.AcceptDelegation })
			if !ok || r.Chance(10) {
				v, ok = pickVal(nil)
			}
			if ok {
				val := amountAround(r, youN(int64(r.Range(10, 200))))
				if r.Chance(8) {
					val = youN(int64(r.Range(1, 9)))
				}
				l = fmt.Sprintf("DA %d %d %s", u, v.key, val)
			}
		case 9:
			if v, ok := pickVal(func(v valView) bool { return len(v.v.Delegations) > 0 }); ok {
				d := v.v.Delegations[r.Intn(len(v.v.Delegations))]
				du := w.userOf(d.Delegator)
				var val *big.Int
				switch r.Intn(3) {
				case 0:
					val = new(big.Int).Set(d.Token)
				case 1:
					val = amountAround(r, d.Token)
				default:
					val = amountAround(r, youN(int64(r.Range(1, 50))))
				}
				if val.Sign() == 0 {
					val = big.NewInt(1)
				}
				if du >= 0 {
					l = fmt.Sprintf("DS %d %d %s", du, v.key, val)
				}
			} else if v, ok := pickVal(nil); ok {
				l = fmt.Sprintf("DS %d %d %s", u, v.key, youN(int64(r.Range(1, 30))))
			}
		case 10:
			if v, ok := pickVal(func(v valView) bool { return len(v.v.Delegations) > 0 }); ok {
				d := v.v.Delegations[r.Intn(len(v.v.Delegations))]
				if du := w.userOf(d.Delegator); du >= 0 {
					l = fmt.Sprintf("DT %d %d", du, v.key)
				}
			}
		case 11:
			switch r.Intn(6) {
			case 0:
				l = fmt.Sprintf("VD %d %d %s", u, r.Intn(maxValKeys), youN(5))
			case 1:
				l = fmt.Sprintf("RAW %d %x", u, r.Bytes(r.Range(1, 40)))
			case 2:
				l = fmt.Sprintf("T %d u1 1000 n=%d", u, []int{-1, 1, 5}[r.Intn(3)])
			case 3:
				l = fmt.Sprintf("DA %d %d %s g=%d", u, r.Intn(4), youN(20), []int{50000, 100500, 21000}[r.Intn(3)])
			case 4:
				l = fmt.Sprintf("VC %d %d 3 %s 0 0 1 g=%d", u, p.nextKey, youN(150), []int{150000, 500000, 999999}[r.Intn(3)])
			case 5:
				l = fmt.Sprintf("VW %d %d u1 0", u, r.Intn(4))
			}
		}
		if l == "" {
			continue
		}
		if l[0] != 'R' && r.Chance(40) {
			l += fmt.Sprintf(" p=%d", []int{0, 1, 2, 7, 33, 250}[r.Intn(6)])
		}
		if l[0] == 'V' && len(l) > 3 && l[3] == '-' { // operator unknown (-1)
			continue
		}
		lines = append(lines, l)
	}
	// evidences
	if r.Chance(p.evRate) {
		nev := 1 + r.Intn(3)
		for i := 0; i < nev; i++ {
			// victims: never key 0 (the chain needs one online proposer), only validators that will survive a 2% penalty
			v, ok := pickVal(func(v valView) bool { return v.key != 0 && v.v.Stake.Sign() > 0 })
			if !ok {
				break
			}
			off := []int{0, 0, 0, 0, 1, 2, -1, -3}[r.Intn(8)]
			kind := []string{"ok", "ok", "ok", "ok", "same", "badsig", "badidx", "one", "garbage"}[r.Intn(9)]
			lines = append(lines, fmt.Sprintf("EV %d %d %s", v.key, off, kind))
			if r.Chance(20) {
				lines = append(lines, fmt.Sprintf("EV %d %d ok", v.key, off)) // the same validator twice in one block
			}
		}
		if r.Chance(15) {
			lines = append(lines, "FS")
		}
	} else if r.Chance(2) {
		lines = append(lines, "FS") // forged empty list
	}
	return lines
}
