package main

// The "world" of a C06 scenario: deterministic keys (secp256k1 + BLS), genesis allocation, genesis validators, four tiny
// contracts, and the textual operation language that scenarios, replay files and the shrinker work on.
// (Same vocabulary as the C07 harness, extended by evidences and forged SlashData; the chain itself comes from the shared
// verifharness/cmd/c07/chainkit package.)
//
// Scenario text (one item per line):
//
//	W users=<n> pool=<LU> [ver=<n>]                       world header (must be first)
//	GV <valKey> <role> <tokenLU> <status>                 genesis validator (operator = user <valKey mod users>, coinbase = c<valKey>)
//	B <valKey>                                            start a block proposed by validator <valKey> (header.Coinbase)
//	T  <u> <addrId> <valueLU>            [mods]           plain transfer
//	K  <u> <contract 0..3> <dataHex|-> <valueLU> [mods]   contract call
//	VC <u> <valKey> <role> <valueLU> <commission> <risk> <accept> [mods]   create validator
//	VU <u> <valKey> <commission> <risk> <accept> [mods]   update (65535 = keep)
//	VD <u> <valKey> <valueLU> [mods]                      deposit
//	VW <u> <valKey> <addrId> <valueLU> [mods]             withdraw to recipient
//	VS <u> <valKey> <status> [mods]                       change status
//	VT <u> <valKey> [mods]                                settle
//	DA <u> <valKey> <valueLU> [mods]   DS ... / DT <u> <valKey> [mods]      delegation add / sub / settle
//	RAW <u> <dataHex> [mods]                              staking-module tx with arbitrary payload bytes
//	EV <valKey> <roundOffset> <kind>                      evidence placed in the builder's pool before the block is sealed; the
//	                                                      evidence's round = parent number + roundOffset (0 = the one round that
//	                                                      is slashable in this block). kind: ok | same | badsig | badidx | one | garbage
//	WK                                                    worker mode: the transaction lines of this block are CANDIDATES (nonces are
//	                                                      assigned per sender from the state at the start of the block: k-th candidate of
//	                                                      a sender gets nonce+k(+offset)); the builder runs miner/worker.go's
//	                                                      commitTransactions loop over them (price-and-nonce order, Pop/Shift per error class)
//	FS                                                    finish this block through the forged path: the EV lines of this block are
//	                                                      RLP-encoded straight into header.SlashData and EndBlock runs with isSeal=false
//	mods: p=<gasPrice GLu> g=<gasLimit> n=<nonce offset, may be negative> v=<tx value LU>
//
// Address ids: u<i> user, c<i> coinbase of validator key i, m<i> main address of validator key i, k<i> contract,
// x<i> fresh address, pool, pen (rewards pool / penalty account), sm (staking module address).

import (
	"crypto/ecdsa"
	"encoding/binary"
	"encoding/hex"
	"fmt"
	"math/big"
	"strconv"
	"strings"

	"github.com/youchainhq/go-youchain/bls"
	"github.com/youchainhq/go-youchain/common"
	"github.com/youchainhq/go-youchain/core/types"
	"github.com/youchainhq/go-youchain/crypto"
	"github.com/youchainhq/go-youchain/params"
	"github.com/youchainhq/go-youchain/rlp"
	"github.com/youchainhq/go-youchain/staking"

	"verifharness/cmd/c07/chainkit"
)

var (
	you = new(big.Int).SetUint64(params.YOU)
	glu = big.NewInt(params.GLu)
)

func bigOf(s string) *big.Int {
	v, ok := new(big.Int).SetString(s, 10)
	if !ok {
		return new(big.Int)
	}
	return v
}

func youN(n int64) *big.Int { return new(big.Int).Mul(big.NewInt(n), you) }

// contracts (pre-allocated code):
//
//	k0: PUSH1 0 CALLDATALOAD PUSH1 0 SSTORE STOP     stores calldata word 0 at slot 0
//	k1: STOP                                          payable sink
//	k2: PUSH1 0 CALLDATALOAD SELFDESTRUCT             self-destructs to the address in calldata word 0
//	k3: PUSH1 0 PUSH1 0 REVERT                        always reverts
//	k4: stores calldata words 0..3 at slots word0+0..3 and emits LOG1: several storage slots and a log per call
var contractCode = [][]byte{
	{0x60, 0x00, 0x35, 0x60, 0x00, 0x55, 0x00},
	{0x00},
	{0x60, 0x00, 0x35, 0xff},
	{0x60, 0x00, 0x60, 0x00, 0xfd},
	// k4: for i in 0..3: SSTORE(calldata[0]+i, calldata[32*i]) ; LOG1(mem 0..32 = calldata[0], topic = calldata[32])
	{
		0x60, 0x00, 0x35, 0x60, 0x00, 0x35, 0x55, // sstore(cd0, cd0)
		0x60, 0x20, 0x35, 0x60, 0x00, 0x35, 0x60, 0x01, 0x01, 0x55, // sstore(cd0+1, cd32)
		0x60, 0x40, 0x35, 0x60, 0x00, 0x35, 0x60, 0x02, 0x01, 0x55, // sstore(cd0+2, cd64)
		0x60, 0x60, 0x35, 0x60, 0x00, 0x35, 0x60, 0x03, 0x01, 0x55, // sstore(cd0+3, cd96)
		0x60, 0x00, 0x35, 0x60, 0x00, 0x52, // mstore(0, cd0)
		0x60, 0x20, 0x35, 0x60, 0x20, 0x60, 0x00, 0xa1, // log1(0, 32, cd32)
		0x00,
	},
}

// k5: "pool-sensitive" arithmetic. With a = calldata[0], b = calldata[32], c = calldata[64] it stores, at slots 0x10.., the
// results of SDIV SMOD DIV MOD (a op b), ADDMOD MULMOD (a, b, c), EXP (a^b), SIGNEXTEND (a, b), SHL SHR SAR (shift a, value b).
// Zero divisors / moduli, shifts >= 256 and out-of-range SIGNEXTEND take the branches whose result cell comes straight from
// the interpreter's recycled integer pool; storing the results makes them part of the state root.
func init() {
	var code []byte
	load := func(off byte) { code = append(code, 0x60, off, 0x35) } // PUSH1 off CALLDATALOAD
	store := func(slot byte) { code = append(code, 0x60, slot, 0x55) }
	// prologue: stack = [c, b, a] (a on top). The operands of every operation are then DUPlicated, so that no cell is
	// recycled between the operand pushes and the operation: the operation's result cell comes from the pool's HISTORY
	// (cells left by earlier executions of this process), not from a cell this program has just put back.
	load(0x40)
	load(0x20)
	load(0x00)
	slot := byte(0x10)
	for _, opc := range []byte{0x05, 0x07, 0x04, 0x06, 0x0a, 0x0b, 0x1b, 0x1c, 0x1d} { // SDIV SMOD DIV MOD EXP SIGNEXTEND SHL SHR SAR
		code = append(code, 0x81, 0x81, opc) // DUP2 DUP2 op   (top = a, next = b)
		store(slot)
		slot++
	}
	for _, opc := range []byte{0x08, 0x09} { // ADDMOD MULMOD
		code = append(code, 0x82, 0x82, 0x82, opc) // DUP3 DUP3 DUP3 op   (a, b, c)
		store(slot)
		slot++
	}
	code = append(code, 0x00)
	contractCode = append(contractCode, code)

	// k6: "pool dirtier": leaves ~60 non-zero integers (a+1, a+2, ... with a = calldata[0]) in the interpreter's recycled
	// integer pool and changes no state. Never called by a scenario transaction; the harness runs it on a throw-away StateDB
	// before a re-execution to give the process a different interpreter history.
	var d []byte
	d = append(d, 0x60, 0x00, 0x35) // a
	for i := 1; i <= 30; i++ {
		d = append(d, 0x80, 0x60, byte(i), 0x01) // DUP1 PUSH1 i ADD
	}
	for i := 0; i < 31; i++ {
		d = append(d, 0x50) // POP
	}
	d = append(d, 0x00)
	contractCode = append(contractCode, d)
}

func contractAddr(i int) common.Address {
	return common.BytesToAddress([]byte{0xc0, 0xde, 0x00, byte(i + 1)})
}

// ---- BLS keys ----------------------------------------------------------------------------------------

var (
	blsMgr   = bls.NewBlsManager()
	blsCache = map[int]bls.SecretKey{}
)

func blsKey(i int) bls.SecretKey {
	if k, ok := blsCache[i]; ok {
		return k
	}
	for ctr := 0; ; ctr++ {
		h := crypto.Keccak256([]byte(fmt.Sprintf("verif-c06-bls-%d-%d", i, ctr)))
		h[0] &= 0x3f // below the group order
		k, err := blsMgr.DecSecretKey(h)
		if err == nil && k != nil {
			if _, e := k.PubKey(); e == nil {
				blsCache[i] = k
				return k
			}
		}
	}
}

func blsPub(i int) []byte {
	pk, _ := blsKey(i).PubKey()
	c := pk.Compress()
	return c.Bytes()
}

type genVal struct {
	key    int
	role   int
	token  *big.Int
	status int
}

type world struct {
	users   int
	pool    *big.Int
	ver     int
	gasLim  uint64 // genesis gas limit (0 = chainkit default)
	gvals   []genVal
	kit     *chainkit.Kit
	yp      *params.YouParams
	userKey []*ecdsa.PrivateKey
	keyOf   map[common.Address]int // validator main address -> key
}

const maxValKeys = 40

func (w *world) addrOf(id string) (common.Address, error) {
	switch id {
	case "pool":
		return w.yp.RewardsPoolAddress, nil
	case "pen":
		return w.yp.PenaltyTo, nil
	case "sm":
		return params.StakingModuleAddress, nil
	}
	if len(id) < 2 {
		return common.Address{}, fmt.Errorf("bad address id %q", id)
	}
	n, err := strconv.Atoi(id[1:])
	if err != nil || n < 0 || n > 99 {
		return common.Address{}, fmt.Errorf("bad address id %q", id)
	}
	switch id[0] {
	case 'u':
		return chainkit.Addr(chainkit.Key("user", n)), nil
	case 'c':
		return chainkit.Addr(chainkit.Key("cb", n)), nil
	case 'm':
		return chainkit.Addr(chainkit.Key("val", n)), nil
	case 'k':
		return contractAddr(n), nil
	case 'x':
		return chainkit.Addr(chainkit.Key("fresh", n)), nil
	}
	return common.Address{}, fmt.Errorf("bad address id %q", id)
}

func parseWorld(lines []string) (*world, []string, error) {
	if len(lines) == 0 || !strings.HasPrefix(lines[0], "W ") {
		return nil, nil, fmt.Errorf("scenario must start with a W line")
	}
	w := &world{users: 8, pool: youN(100000), ver: int(params.YouV5)}
	for _, f := range strings.Fields(lines[0])[1:] {
		kv := strings.SplitN(f, "=", 2)
		if len(kv) != 2 {
			continue
		}
		switch kv[0] {
		case "users":
			w.users, _ = strconv.Atoi(kv[1])
		case "pool":
			w.pool = bigOf(kv[1])
		case "ver":
			w.ver, _ = strconv.Atoi(kv[1])
		case "gl":
			w.gasLim, _ = strconv.ParseUint(kv[1], 10, 64)
		}
	}
	if w.users < 1 || w.users > 40 {
		return nil, nil, fmt.Errorf("users out of range")
	}
	if _, ok := params.Versions[params.YouVersion(w.ver)]; !ok {
		return nil, nil, fmt.Errorf("unknown version")
	}
	rest := lines[1:]
	for len(rest) > 0 && strings.HasPrefix(rest[0], "GV ") {
		f := strings.Fields(rest[0])
		if len(f) != 5 {
			return nil, nil, fmt.Errorf("bad GV line %q", rest[0])
		}
		k, _ := strconv.Atoi(f[1])
		r, _ := strconv.Atoi(f[2])
		s, _ := strconv.Atoi(f[4])
		if k < 0 || k >= maxValKeys || r < 1 || r > 3 {
			return nil, nil, fmt.Errorf("bad GV line %q", rest[0])
		}
		w.gvals = append(w.gvals, genVal{k, r, bigOf(f[3]), s})
		rest = rest[1:]
	}
	if len(w.gvals) == 0 {
		return nil, nil, fmt.Errorf("no genesis validator")
	}
	return w, rest, nil
}

func (w *world) start() error {
	v := params.Versions[params.YouVersion(w.ver)]
	w.yp = &v
	w.keyOf = map[common.Address]int{}
	for i := 0; i < maxValKeys; i++ {
		w.keyOf[chainkit.Addr(chainkit.Key("val", i))] = i
	}
	cfg := chainkit.Config{Alloc: map[common.Address]*big.Int{}, Code: map[common.Address][]byte{}, Version: params.YouVersion(w.ver), GasLimit: w.gasLim}
	for i := 0; i < w.users; i++ {
		k := chainkit.Key("user", i)
		w.userKey = append(w.userKey, k)
		cfg.Alloc[chainkit.Addr(k)] = youN(3000000)
	}
	if w.pool.Sign() > 0 {
		cfg.Alloc[w.yp.RewardsPoolAddress] = w.pool
	}
	for i, c := range contractCode {
		cfg.Code[contractAddr(i)] = c
	}
	cfg.Alloc[contractAddr(2)] = big.NewInt(12345)
	for _, g := range w.gvals {
		cfg.Vals = append(cfg.Vals, chainkit.ValSpec{Main: chainkit.Key("val", g.key), Bls: blsPub(g.key),
			Operator: chainkit.Addr(chainkit.Key("user", g.key%w.users)), Coinbase: chainkit.Addr(chainkit.Key("cb", g.key)),
			Role: params.ValidatorRole(g.role), Token: g.token, Status: uint8(g.status)})
	}
	k, err := chainkit.New(cfg)
	if err != nil {
		return err
	}
	w.kit = k
	return nil
}

func (w *world) stop() {
	if w.kit != nil {
		w.kit.Stop()
	}
}

func (w *world) headerLines() []string {
	out := []string{fmt.Sprintf("W users=%d pool=%s ver=%d", w.users, w.pool, w.ver)}
	if w.gasLim != 0 {
		out[0] += fmt.Sprintf(" gl=%d", w.gasLim)
	}
	for _, g := range w.gvals {
		out = append(out, fmt.Sprintf("GV %d %d %s %d", g.key, g.role, g.token, g.status))
	}
	return out
}

// ---- operations ----------------------------------------------------------------------------------

type op struct {
	kind string
	f    []string
	mods map[string]string
	line string
}

var opArity = map[string]int{"B": 1, "T": 3, "K": 4, "VC": 7, "VU": 5, "VD": 3, "VW": 4, "VS": 3, "VT": 2, "DA": 3, "DS": 3, "DT": 2, "RAW": 2, "EV": 3, "FS": 0, "WK": 0}

func parseOp(line string) (op, error) {
	fs := strings.Fields(line)
	if len(fs) == 0 {
		return op{}, fmt.Errorf("empty op")
	}
	o := op{kind: fs[0], mods: map[string]string{}, line: line}
	for _, x := range fs[1:] {
		if len(x) > 2 && x[1] == '=' && (x[0] == 'p' || x[0] == 'g' || x[0] == 'n' || x[0] == 'v') {
			o.mods[x[:1]] = x[2:]
		} else {
			o.f = append(o.f, x)
		}
	}
	n, ok := opArity[o.kind]
	if !ok || len(o.f) != n {
		return o, fmt.Errorf("bad op %q", line)
	}
	return o, nil
}

func (o op) user() int { n, _ := strconv.Atoi(o.f[0]); return n }
func (o op) valKey() int {
	n, _ := strconv.Atoi(o.f[1])
	if n < 0 || n >= maxValKeys {
		return 0
	}
	return n
}

func encStaking(action staking.ActionType, payload interface{}) []byte {
	bs, err := rlp.EncodeToBytes(payload)
	if err != nil {
		panic(err)
	}
	out, err := rlp.EncodeToBytes(&staking.Message{Action: action, Payload: bs})
	if err != nil {
		panic(err)
	}
	return out
}

// makeTx turns a transaction op into a signed transaction, using the given current nonce of the sender (+ offset).
func (w *world) makeTx(o op, curNonce func(common.Address) uint64) (*types.Transaction, error) {
	u := o.user()
	if u < 0 || u >= w.users {
		return nil, fmt.Errorf("no such user in %q", o.line)
	}
	key := w.userKey[u]
	from := chainkit.Addr(key)
	price := new(big.Int).Set(glu)
	if p, ok := o.mods["p"]; ok {
		price = new(big.Int).Mul(bigOf(p), glu)
	}
	nonce := curNonce(from)
	if n, ok := o.mods["n"]; ok {
		d, _ := strconv.Atoi(n)
		nonce = uint64(int64(nonce) + int64(d))
	}
	value := new(big.Int)
	if v, ok := o.mods["v"]; ok {
		value = bigOf(v)
	}
	var to common.Address
	var data []byte
	gas := uint64(1200000)
	sm := params.StakingModuleAddress
	mainOf := func() common.Address { return chainkit.Addr(chainkit.Key("val", o.valKey())) }
	u16 := func(s string) uint16 { n, _ := strconv.Atoi(s); return uint16(n) }
	switch o.kind {
	case "T":
		a, err := w.addrOf(o.f[1])
		if err != nil {
			return nil, err
		}
		to, value, gas = a, bigOf(o.f[2]), 21000
	case "K":
		c, _ := strconv.Atoi(o.f[1])
		if c < 0 || c >= len(contractCode) {
			return nil, fmt.Errorf("no such contract in %q", o.line)
		}
		to = contractAddr(c)
		if o.f[2] != "-" {
			d, err := hex.DecodeString(o.f[2])
			if err != nil {
				return nil, err
			}
			data = d
		}
		value, gas = bigOf(o.f[3]), 200000
		if c == 5 {
			gas = 400000
		}
	case "VC":
		vk := chainkit.Key("val", o.valKey())
		role, _ := strconv.Atoi(o.f[2])
		t := &staking.TxCreateValidator{Name: "v", OperatorAddress: from, Coinbase: chainkit.Addr(chainkit.Key("cb", o.valKey())),
			MainPubKey: (chainkit.ValSpec{Main: vk}).MainPub(), BlsPubKey: blsPub(o.valKey()), Value: bigOf(o.f[3]), Nonce: nonce,
			CommissionRate: u16(o.f[4]), RiskObligation: u16(o.f[5]), AcceptDelegation: u16(o.f[6]), Role: params.ValidatorRole(role)}
		to, data = sm, encStaking(staking.ValidatorCreate, t)
	case "VU":
		t := &staking.TxUpdateValidator{Nonce: nonce, MainAddress: mainOf(), CommissionRate: u16(o.f[2]), RiskObligation: u16(o.f[3]), AcceptDelegation: u16(o.f[4])}
		to, data = sm, encStaking(staking.ValidatorUpdate, t)
	case "VD":
		t := &staking.TxValidatorDeposit{MainAddress: mainOf(), Value: bigOf(o.f[2]), Nonce: nonce}
		to, data = sm, encStaking(staking.ValidatorDeposit, t)
	case "VW":
		r, err := w.addrOf(o.f[2])
		if err != nil {
			return nil, err
		}
		t := &staking.TxValidatorWithdraw{MainAddress: mainOf(), Recipient: r, Value: bigOf(o.f[3]), Nonce: nonce}
		to, data = sm, encStaking(staking.ValidatorWithDraw, t)
	case "VS":
		s, _ := strconv.Atoi(o.f[2])
		t := &staking.TxValidatorChangeStatus{MainAddress: mainOf(), Status: uint8(s), Nonce: nonce}
		to, data = sm, encStaking(staking.ValidatorChangeStatus, t)
	case "VT":
		to, data = sm, encStaking(staking.ValidatorSettle, &staking.TxValidatorSettle{MainAddress: mainOf()})
	case "DA":
		to, data = sm, encStaking(staking.DelegationAdd, &staking.TxDelegation{Validator: mainOf(), Value: bigOf(o.f[2])})
	case "DS":
		to, data = sm, encStaking(staking.DelegationSub, &staking.TxDelegation{Validator: mainOf(), Value: bigOf(o.f[2])})
	case "DT":
		to, data = sm, encStaking(staking.DelegationSettle, &staking.TxDelegationSettle{Validator: mainOf()})
	case "RAW":
		d, err := hex.DecodeString(o.f[1])
		if err != nil {
			return nil, err
		}
		to, data = sm, d
	default:
		return nil, fmt.Errorf("not a tx op: %q", o.line)
	}
	if g, ok := o.mods["g"]; ok {
		gas, _ = strconv.ParseUint(g, 10, 64)
	}
	return types.SignTx(types.NewTransaction(nonce, to, value, gas, price, data), w.kit.Signer, key)
}

// ---- evidences -----------------------------------------------------------------------------------

// makeEvidence builds an EvidenceDoubleSignV5 against validator key vk for the given round, signed with vk's BLS key.
// The signer index is the validator's position in the look-back validator set of that round, as seen by node n.
//
// valid reports whether processDoubleSignV5 will resolve a signer for it (kind "ok" and the validator is in the look-back set).
func (w *world) makeEvidence(n *chainkit.Node, vk int, round uint64, kind string) (ev staking.Evidence, valid bool, err error) {
	ev, inSet, err := w.makeEvidence0(n, vk, round, kind)
	return ev, err == nil && kind == "ok" && inSet, err
}

func (w *world) makeEvidence0(n *chainkit.Node, vk int, round uint64, kind string) (staking.Evidence, bool, error) {
	if kind == "garbage" {
		return staking.Evidence{Type: staking.EvidenceTypeDoubleSignV5, Data: []byte{0xc3, 0x01, 0x02, byte(vk), byte(round)}}, false, nil
	}
	if kind == "inactive" {
		return staking.NewEvidence(staking.EvidenceInactive{Round: round, Validators: []common.Address{chainkit.Addr(chainkit.Key("val", vk))}}), false, nil
	}
	idx := uint32(0)
	inSet := false
	rd, err := n.BC.LookBackVldReaderForRound(round, false)
	if err == nil {
		if i, ok := rd.GetValidators().GetIndex(chainkit.Addr(chainkit.Key("val", vk))); ok {
			idx = uint32(i)
			inSet = true
		} else {
			idx = uint32(rd.GetValidators().Len()) + 3 // not in the look-back set: an index nobody has
		}
	}
	if kind == "badidx" {
		idx = 1000
	}
	const roundIndex = 1
	sk := blsKey(vk)
	sign := func(h common.Hash, r uint64) []byte {
		buf := make([]byte, 4)
		binary.BigEndian.PutUint32(buf, roundIndex)
		payload := append(h.Bytes(), append(new(big.Int).SetUint64(r).Bytes(), buf...)...)
		c := sk.Sign(payload).Compress()
		return c.Bytes()
	}
	h1 := crypto.Keccak256Hash([]byte(fmt.Sprintf("blockA-%d-%d", vk, round)))
	h2 := crypto.Keccak256Hash([]byte(fmt.Sprintf("blockB-%d-%d", vk, round)))
	ev := staking.EvidenceDoubleSignV5{Round: round, RoundIndex: roundIndex, SignerIdx: idx, VoteType: staking.Prevote}
	switch kind {
	case "ok", "badidx":
		ev.Signs = []*staking.SignInfo{{Hash: h1, Sign: sign(h1, round)}, {Hash: h2, Sign: sign(h2, round)}}
	case "same":
		s := sign(h1, round)
		ev.Signs = []*staking.SignInfo{{Hash: h1, Sign: s}, {Hash: h1, Sign: s}}
	case "badsig":
		ev.Signs = []*staking.SignInfo{{Hash: h1, Sign: sign(h1, round)}, {Hash: h2, Sign: sign(h2, round+1)}}
	case "one":
		ev.Signs = []*staking.SignInfo{{Hash: h1, Sign: sign(h1, round)}}
	default:
		return staking.Evidence{}, false, fmt.Errorf("unknown evidence kind %q", kind)
	}
	return staking.NewEvidence(ev), inSet, nil
}
