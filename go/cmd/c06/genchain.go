package main

// "G" scenarios: the other block-building path of the anchored code, core.GenerateChain (chain_makers.go: BlockGen.AddTx,
// engine.FinalizeAndAssemble, no end-block hook), on a chain without the staking module: n blocks of transfers and contract
// calls (storage writes/clears, logs, the pool-sensitive arithmetic contract) are generated on one database and imported by
// InsertChain into an independent BlockChain, then re-executed with dirtied interpreter pools and in a fresh child process.
//
//	G blocks=<n> seed=<s>

import (
	"fmt"
	"math/big"

	"github.com/youchainhq/go-youchain/common"
	"github.com/youchainhq/go-youchain/consensus/solo"
	"github.com/youchainhq/go-youchain/core"
	"github.com/youchainhq/go-youchain/core/types"
	"github.com/youchainhq/go-youchain/event"
	"github.com/youchainhq/go-youchain/local"
	"github.com/youchainhq/go-youchain/params"
	"github.com/youchainhq/go-youchain/youdb"

	"verifharness/cmd/c07/chainkit"
	"verifharness/internal/vh"
)

func runGenChain(line string) (fails bool, what string, nBlocks, nTx int, err error) {
	defer func() {
		if r := recover(); r != nil {
			// BlockGen.AddTx panics when ApplyTransaction refuses a transaction; every generated transaction is acceptable
			fails, what = true, fmt.Sprintf("crash: core.GenerateChain panicked on acceptable transactions: %v", r)
		}
	}()
	kv := parseKV(line)
	n, seed := kv["blocks"], kv["seed"]
	if n < 1 || n > 64 {
		return false, "", 0, 0, fmt.Errorf("bad G scenario %q", line)
	}
	r := vh.NewRNG(uint64(seed))
	v5 := params.Versions[params.YouV5]
	w := &world{users: 4, ver: int(params.YouV5), yp: &v5, kit: &chainkit.Kit{Signer: types.MakeSigner(nil)}}
	gspec := &core.Genesis{NetworkId: params.NetworkIdForTestCase, CurrVersion: params.YouV5, GasLimit: params.GenesisGasLimit, Alloc: core.GenesisAlloc{}}
	for i := 0; i < w.users; i++ {
		k := chainkit.Key("user", i)
		w.userKey = append(w.userKey, k)
		gspec.Alloc[chainkit.Addr(k)] = core.GenesisAccount{Balance: youN(1000)}
	}
	for i, c := range contractCode {
		gspec.Alloc[contractAddr(i)] = core.GenesisAccount{Balance: new(big.Int), Code: c}
	}
	dbGen := youdb.NewMemDatabase()
	genesis, err := gspec.Commit(dbGen)
	if err != nil {
		return false, "", 0, 0, err
	}
	engine := solo.NewSolo()
	var genErr error
	blocks, _ := core.GenerateChain(genesis, engine, dbGen, n, core.NewStateProcessor(nil, engine), func(i int, gen *core.BlockGen) {
		gen.SetCoinbase(common.BytesToAddress([]byte{0xcb, byte(i)}))
		for t := r.Range(1, 6); t > 0; t-- {
			u := r.Intn(w.users)
			var l string
			switch r.Intn(4) {
			case 0:
				l = fmt.Sprintf("T %d x%d %d", u, r.Intn(3), r.Intn(100000))
			case 1:
				l = fmt.Sprintf("K %d 4 %064x%064x%064x%064x 0", u, r.Range(0, 9)*4, r.Intn(3)*r.Intn(1000), 1+r.Intn(1000), r.Intn(2)*r.Intn(1000))
			default:
				l = genK5(r, u)
			}
			o, e := parseOp(l)
			if e != nil {
				genErr = e
				return
			}
			tx, e := w.makeTx(o, gen.TxNonce)
			if e != nil {
				genErr = e
				return
			}
			gen.AddTx(tx)
			nTx++
		}
	})
	if genErr != nil {
		return false, "", 0, 0, genErr
	}
	// importer: its own database and BlockChain
	db := youdb.NewMemDatabase()
	if _, err := gspec.Commit(db); err != nil {
		return false, "", 0, 0, err
	}
	bc, err := core.NewBlockChain(db, solo.NewSolo(), new(event.TypeMux), params.ArchiveNode, local.NewDetailDB(nil, false))
	if err != nil {
		return false, "", 0, 0, err
	}
	defer bc.Stop()
	node := &chainkit.Node{DB: db, BC: bc}
	var nums []uint64
	for _, b := range blocks {
		if err := bc.InsertChain(types.Blocks{b}); err != nil {
			return true, fmt.Sprintf("disagree: block %d assembled by core.GenerateChain (%d txs) is not accepted by the import path of another node: %v", b.NumberU64(), len(b.Transactions()), err), len(blocks), nTx, nil
		}
		for k := 1; k <= 2; k++ {
			dirtyPool(w, node, b, k)
			if d := compareToHeader(reexecProcess(node, b, k == 2), b.Header()); len(d) > 0 {
				return true, fmt.Sprintf("nondeterminism: re-execution %d of accepted block %d does not reproduce the header: %v", k, b.NumberU64(), d), len(blocks), nTx, nil
			}
		}
		nums = append(nums, b.NumberU64())
	}
	if len(nums) > maxChild {
		nums = nums[len(nums)-maxChild:]
	}
	if what, err := childReexecPlain(node, nums); err != nil {
		return false, "", 0, 0, err
	} else if what != "" {
		return true, "nondeterminism: " + what, len(blocks), nTx, nil
	}
	return false, "", len(blocks), nTx, nil
}
