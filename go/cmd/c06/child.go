package main

// Re-execution in a FRESH child process (cold interpreter integer pool, cold caches, no process history at all) and the
// "pool-dirtying" run that gives the in-process re-executions different interpreter histories.
//
//	c06 reexec <dbfile> <blockNumber>...      loads the dumped chain database, opens a BlockChain + staking module on it,
//	                                          runs Process + ValidateState for each block, prints "<n> OK" or "<n> DIFF <what>"

import (
	"bufio"
	"encoding/binary"
	"fmt"
	"io"
	"math/big"
	"os"
	"os/exec"
	"strconv"
	"strings"

	"github.com/youchainhq/go-youchain/common"
	"github.com/youchainhq/go-youchain/consensus/solo"
	"github.com/youchainhq/go-youchain/core"
	"github.com/youchainhq/go-youchain/core/types"
	"github.com/youchainhq/go-youchain/event"
	"github.com/youchainhq/go-youchain/local"
	"github.com/youchainhq/go-youchain/params"
	"github.com/youchainhq/go-youchain/staking"
	"github.com/youchainhq/go-youchain/youdb"

	"verifharness/cmd/c07/chainkit"
	"verifharness/internal/quiet"
)

func dumpDB(db youdb.Database, path string) error {
	m, ok := db.(*youdb.MemDatabase)
	if !ok {
		return fmt.Errorf("not a memory database")
	}
	f, err := os.Create(path)
	if err != nil {
		return err
	}
	defer f.Close()
	w := bufio.NewWriterSize(f, 1<<20)
	var l [4]byte
	for _, k := range m.Keys() {
		v, err := m.Get(k)
		if err != nil {
			continue
		}
		binary.BigEndian.PutUint32(l[:], uint32(len(k)))
		w.Write(l[:])
		w.Write(k)
		binary.BigEndian.PutUint32(l[:], uint32(len(v)))
		w.Write(l[:])
		w.Write(v)
	}
	return w.Flush()
}

func loadDB(path string) (*youdb.MemDatabase, error) {
	f, err := os.Open(path)
	if err != nil {
		return nil, err
	}
	defer f.Close()
	r := bufio.NewReaderSize(f, 1<<20)
	db := youdb.NewMemDatabase()
	var l [4]byte
	for {
		if _, err := io.ReadFull(r, l[:]); err != nil {
			if err == io.EOF {
				return db, nil
			}
			return nil, err
		}
		k := make([]byte, binary.BigEndian.Uint32(l[:]))
		if _, err := io.ReadFull(r, k); err != nil {
			return nil, err
		}
		if _, err := io.ReadFull(r, l[:]); err != nil {
			return nil, err
		}
		v := make([]byte, binary.BigEndian.Uint32(l[:]))
		if _, err := io.ReadFull(r, v); err != nil {
			return nil, err
		}
		db.Put(k, v)
	}
}

// openNode = chainkit's node construction on an existing database (no genesis commit).
func openNode(db youdb.Database) (*chainkit.Node, error) {
	mux := event.NewMux()
	eng := solo.NewFallbackSolo(true, 0, 1, 0)
	bc, err := core.NewBlockChain(db, eng, mux, params.ArchiveNode, local.NewDetailDB(nil, false))
	if err != nil {
		return nil, err
	}
	eng.SetChain(bc)
	st := staking.NewStaking(nil)
	st.Register(bc.Processor())
	if err := st.Start(bc, eng); err != nil {
		return nil, err
	}
	return &chainkit.Node{DB: db, BC: bc, Staking: st, Mux: mux}, nil
}

func childMain(args []string, plain bool) {
	quiet.Silence()
	chainkit.Init()
	db, err := loadDB(args[0])
	if err != nil {
		fmt.Println("ERR load:", err)
		os.Exit(2)
	}
	var node *chainkit.Node
	if plain {
		var bc *core.BlockChain
		bc, err = core.NewBlockChain(db, solo.NewSolo(), new(event.TypeMux), params.ArchiveNode, local.NewDetailDB(nil, false))
		node = &chainkit.Node{DB: db, BC: bc}
	} else {
		node, err = openNode(db)
	}
	if err != nil {
		fmt.Println("ERR open:", err)
		os.Exit(2)
	}
	for _, a := range args[1:] {
		n, _ := strconv.ParseUint(a, 10, 64)
		blk := node.BC.GetBlockByNumber(n)
		if blk == nil {
			fmt.Printf("%d DIFF block not in the database\n", n)
			continue
		}
		r := reexecProcess(node, blk, true)
		if d := compareToHeader(r, blk.Header()); len(d) > 0 {
			fmt.Printf("%d DIFF %s\n", n, strings.Join(d, "; "))
		} else {
			fmt.Printf("%d OK\n", n)
		}
	}
}

// childReexec re-executes the given blocks of node's chain in a fresh process; returns the first difference.
func childReexec(node *chainkit.Node, nums []uint64) (string, error) {
	return childReexecMode(node, nums, "reexec")
}

func childReexecPlain(node *chainkit.Node, nums []uint64) (string, error) {
	return childReexecMode(node, nums, "reexec-plain")
}

func childReexecMode(node *chainkit.Node, nums []uint64, mode string) (string, error) {
	if len(nums) == 0 {
		return "", nil
	}
	f, err := os.CreateTemp("", "c06-db-*")
	if err != nil {
		return "", err
	}
	path := f.Name()
	f.Close()
	defer os.Remove(path)
	if err := dumpDB(node.DB, path); err != nil {
		return "", err
	}
	exe, err := os.Executable()
	if err != nil {
		return "", err
	}
	args := []string{mode, path}
	for _, n := range nums {
		args = append(args, fmt.Sprint(n))
	}
	out, err := exec.Command(exe, args...).Output()
	if err != nil {
		return "", fmt.Errorf("child process: %v: %s", err, string(out))
	}
	seen := 0
	for _, l := range strings.Split(strings.TrimSpace(string(out)), "\n") {
		f := strings.SplitN(l, " ", 3)
		if len(f) >= 2 && f[1] == "OK" {
			seen++
			continue
		}
		if len(f) >= 3 && f[1] == "DIFF" {
			return fmt.Sprintf("re-execution of accepted block %s in a fresh child process (cold integer pool and caches) does not reproduce the header: %s", f[0], f[2]), nil
		}
	}
	if seen != len(nums) {
		return "", fmt.Errorf("child process answered %d of %d blocks: %s", seen, len(nums), string(out))
	}
	return "", nil
}

// dirtyPool runs an unrelated program (contract k6: pushes and pops ~60 non-zero integers that depend on k) through the real
// ApplyTransaction on a throw-away StateDB, so that the interpreter's recycled integer pool holds different non-zero leftovers
// before every in-process re-execution.
func dirtyPool(w *world, node *chainkit.Node, blk *types.Block, k int) {
	defer func() { recover() }()
	st, _, err := parentState(node, blk, false)
	if err != nil {
		return
	}
	bc := node.BC
	from := chainkit.Addr(w.userKey[0])
	word := func(v uint64) string { return fmt.Sprintf("%064x", v) }
	data := word(0x2a + uint64(k)*977 + blk.NumberU64()*131)
	o, err := parseOp("K 0 6 " + data + " 0")
	if err != nil {
		return
	}
	tx, err := w.makeTx(o, func(common.Address) uint64 { return st.GetNonce(from) })
	if err != nil {
		return
	}
	hdr := blk.Header()
	vmCfg, err := core.PrepareVMConfig(bc, blk.NumberU64(), *bc.GetVMConfig())
	if err != nil {
		return
	}
	st.Prepare(tx.Hash(), blk.Hash(), 0)
	rc, _, aerr := bc.Processor().ApplyTransaction(tx, types.MakeSigner(hdr.Number), st, bc, hdr, nil, new(uint64), new(big.Int), new(core.GasPool).AddGas(10000000), vmCfg, local.FakeRecorder())
	if os.Getenv("C06_DEBUG") != "" {
		fmt.Fprintln(os.Stderr, "dirtyPool:", aerr, rc != nil && rc.Status == 1)
	}
}
