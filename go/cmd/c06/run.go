package main

import (
	"fmt"
	"os"
	"strings"
	"time"

	"github.com/youchainhq/go-youchain/core"

	"verifharness/cmd/c07/chainkit"
	"verifharness/internal/quiet"
	"verifharness/internal/vh"
)

const rule = "case = one chain (scenario) of blocks built by the worker-equivalent builder, imported by InsertChain into two independent databases and re-executed K times on fresh StateDBs; non-trivial when the chain crosses >= 1 staking-period end and contains >= 1 staking transaction that was included and >= 1 transaction that failed or was refused; fork scenarios are non-trivial when the builder confirmed >= 1 evidence; distinct by scenario text"

func main() {
	if len(os.Args) >= 3 && (os.Args[1] == "reexec" || os.Args[1] == "reexec-plain") {
		childMain(os.Args[2:], os.Args[1] == "reexec-plain")
		return
	}
	if len(os.Args) == 3 && os.Args[1] == "debug-k5" {
		debugK5(os.Args[2])
		return
	}
	if len(os.Args) == 3 && os.Args[1] == "debug-staking" {
		debugStaking(os.Args[2])
		return
	}
	vh.Main(vh.Harness{Property: "C06", Run: run, Replay: replay})
}

// oracleOnScenario runs the scenario and says whether the property fails on it.
func oracleOnScenario(lines []string, k int) (bool, string, *runResult) {
	rr, err := execScenario(lines, k)
	if err != nil {
		return false, "ill-formed scenario: " + err.Error(), nil
	}
	if rr.viol != nil {
		return true, rr.viol.kind + ": " + rr.viol.what, rr
	}
	return false, rr.stopErr, rr
}

// shrinkScenario: keep the world header, delta-debug whole blocks first, then single lines inside blocks.
func shrinkScenario(lines []string, k int, kind string) []string {
	var header, rest []string
	for i, l := range lines {
		if strings.HasPrefix(l, "B ") {
			header, rest = lines[:i], lines[i:]
			break
		}
	}
	if rest == nil {
		return lines
	}
	budget := 24
	deadline := time.Now().Add(15 * time.Second)
	fails := func(cand []string) bool {
		if budget <= 0 || time.Now().After(deadline) {
			return false
		}
		budget--
		f, what, _ := oracleOnScenario(append(append([]string{}, header...), cand...), k)
		return f && strings.HasPrefix(what, kind)
	}
	// blocks as units: replace the tx lines of a block by nothing (keep the B line: block numbers matter for periods)
	blocks := splitBlocks(rest)
	for i := range blocks {
		if len(blocks[i]) <= 1 {
			continue
		}
		var cand []string
		for j, b := range blocks {
			if j == i {
				cand = append(cand, b[0])
			} else {
				cand = append(cand, b...)
			}
		}
		if fails(cand) {
			blocks[i] = blocks[i][:1]
		}
	}
	var cur []string
	for _, b := range blocks {
		cur = append(cur, b...)
	}
	// cut the tail after the failing block
	if time.Now().After(deadline) {
		return append(append([]string{}, header...), cur...)
	}
	if f, _, rr := oracleOnScenario(append(append([]string{}, header...), cur...), k); f && rr != nil && rr.viol != nil {
		bl := splitBlocks(cur)
		if rr.viol.at+1 < len(bl) {
			cur = nil
			for _, b := range bl[:rr.viol.at+1] {
				cur = append(cur, b...)
			}
		}
	}
	return append(append([]string{}, header...), cur...)
}

func run(c *vh.Ctx) error {
	quiet.Silence()
	chainkit.Init()
	res := c.Res
	res.Rule = rule
	K := c.N(4, 8)

	// ---- corpus first (fixed-finding witnesses and minimised past failures) ---------------------------------------
	for _, f := range vh.CorpusFiles("C06") {
		body, comments, e := vh.ReadReplay(f)
		if e != nil {
			continue
		}
		still, what := replay(c, body, comments)
		res.Dist("corpus")
		if still {
			res.Fail("corpus", "", "corpus witness fails again: "+f+": "+what, f)
		}
	}

	// ---- fork scenarios: a builder's block offered to a node whose head is elsewhere --------------------------------
	nFork := c.N(12, 60)
	for i := 0; i < nFork; i++ {
		prefix := c.R.Range(1, 20)
		if i == 0 {
			prefix = 3
		}
		nv := c.R.Range(2, 5)
		evoff := []int{0, 0, 0, 0, 0, 1, -1}[c.R.Intn(7)]
		if i == 0 {
			evoff = 0
		}
		line := fmt.Sprintf("F prefix=%d victim=%d evoffset=%d vals=%d", prefix, c.R.Range(1, nv-1), evoff, nv)
		if i%3 == 2 {
			line += " moved=1"
		}
		o, err := runFork(line)
		if err != nil {
			return fmt.Errorf("fork scenario %q: %v", line, err)
		}
		res.Count(line, o.slashed > 0)
		res.Dist(fmt.Sprintf("fork-evidence-confirmed-%d", o.slashed))
		if i == 0 {
			res.Sample(map[string]interface{}{"fork": line, "confirmed": o.slashed, "sibling_head_node": map[bool]string{true: "accepted", false: o.siblingErr}[o.siblingErr == ""]})
		}
		if f, what := forkFails(o); f {
			rp := vh.WriteReplay(c.ReplayDir, "C06", fmt.Sprintf("fork-%d", i), c.Seed, []string{"oracle: builder and validator disagree", what}, []string{line})
			res.Fail("oracle", "", what, rp)
		}
	}

	// ---- import history / entry point independence ----------------------------------------------------------------------
	for i, nH := 0, c.N(10, 60); i < nH; i++ {
		p, lb := c.R.Range(0, 2), c.R.Range(1, 5)
		if i == 0 {
			p, lb = 1, 2
		}
		la := 17 - p + c.R.Range(0, 3) // crosses the period end at block 15
		if c.Thorough() && i%3 == 0 {
			lb = c.R.Range(6, 18)
			la = 33 - p + c.R.Range(0, 3) // two period ends; B crosses one as well when longer than 15-p
		}
		line := fmt.Sprintf("H seed=%d prefix=%d a=%d b=%d", c.R.Intn(1000000), p, la, lb)
		if i%2 == 1 {
			// period layout: the fork starts before / exactly at / after the first block of the second staking period
			// (blocks 16..31 on the test-case table) and runs past its end
			p = []int{11, 15, 17, 14, 15, 20}[(i/2)%6]
			lb = c.R.Range(1, 4)
			la = 33 - p + c.R.Range(0, 2)
			line = fmt.Sprintf("H seed=%d prefix=%d a=%d b=%d period=1", c.R.Intn(1000000), p, la, lb)
		}
		if i == 2 || (c.Thorough() && i%10 == 2) {
			// long layout: withdrawals requested in block 2 are released at block 79 (WithdrawDelay 64 after the first period end);
			// the fork starts before the release and covers the two following period ends (95, 111)
			p = c.R.Range(60, 76)
			line = fmt.Sprintf("H seed=%d prefix=%d a=%d b=%d long=1", c.R.Intn(1000000), p, 113-p+c.R.Range(0, 2), c.R.Range(1, 3))
		}
		f, what, info, err := runHistory(line)
		if err != nil {
			return fmt.Errorf("scenario %q: %v", line, err)
		}
		if strings.HasPrefix(what, "void:") {
			res.Dist("history-scenario-void")
			continue
		}
		res.Count(line, info.periodEnds >= 1 && info.pendingInA1 >= 1)
		res.DistN("history-import-histories", info.histories)
		res.DistN("history-period-ends-in-fork", info.periodEnds)
		res.DistN("history-txs-in-first-fork-block", info.pendingInA1)
		if i == 0 {
			res.Sample(map[string]interface{}{"history": line, "histories": []string{"main", "b-then-batch", "ucon-onecall", "ucon-stored", "zigzag"}})
		}
		if f {
			rp := vh.WriteReplay(c.ReplayDir, "C06", fmt.Sprintf("history-%d", i), c.Seed, []string{"oracle: " + what}, []string{line})
			res.Fail("oracle", "", what, rp)
		}
	}

	// ---- core.GenerateChain path (no staking module) ------------------------------------------------------------------
	for i, nG := 0, c.N(6, 40); i < nG; i++ {
		line := fmt.Sprintf("G blocks=%d seed=%d", c.R.Range(3, 12), c.R.Intn(1000000))
		f, what, nb, ntx, err := runGenChain(line)
		if err != nil {
			return fmt.Errorf("scenario %q: %v", line, err)
		}
		res.Count(line, ntx > 0)
		res.DistN("GenerateChain-blocks", nb)
		res.DistN("GenerateChain-txs", ntx)
		if f {
			rp := vh.WriteReplay(c.ReplayDir, "C06", fmt.Sprintf("genchain-%d", i), c.Seed, []string{"oracle: " + what}, []string{line})
			res.Fail("oracle", "", what, rp)
		}
	}

	// ---- generated chains ---------------------------------------------------------------------------------------------
	nChains := c.N(45, 140)
	blocksPer := c.N(70, 160)
	if c.Search {
		nChains *= 2
	}
	var drv *vh.Driver
	if c.Driver != "" {
		d, err := vh.StartDriver(c.Driver)
		if err != nil {
			return err
		}
		drv = d
		defer drv.Close()
	}
	totalBlocks, totalReruns := 0, 0
	// Bounds: a persistently failing tree must be REPORTED quickly, not explored to the end: at most maxOracleFails failing
	// chains are collected (the first two are shrunk), and no new chain is started after the time cap of the tier.
	const maxOracleFails = 4
	oracleFails, shrunk := 0, 0
	started := time.Now()
	timeCap := time.Duration(c.N(150, 1500)) * time.Second
	for ci := 0; ci < nChains; ci++ {
		if oracleFails >= maxOracleFails {
			res.Dist("chains-not-run: enough failing chains collected")
			continue
		}
		if time.Since(started) > timeCap {
			res.Dist("chains-not-run: time cap of the tier reached")
			continue
		}
		r := c.R.Fork()
		header, prof := genWorld(r)
		s, _, err := newSession(header, K)
		if err != nil {
			return err
		}
		scenario := append([]string{}, header...)
		nb := blocksPer/2 + r.Intn(blocksPer)
		for b := 0; b < nb; b++ {
			st, _, err := s.w.kit.A.NextState()
			if err != nil {
				s.close()
				return err
			}
			var bl []string
			if r.Chance(prof.wkRate) {
				bl = prof.genWorkerBlock(r, s.w, st, core.CalcGasLimit(s.w.kit.A.BC.CurrentBlock()))
			} else {
				bl = prof.genBlock(r, s.w, st)
			}
			scenario = append(scenario, bl...)
			if err := s.runBlock(bl); err != nil {
				s.close()
				return fmt.Errorf("generator produced an ill-formed block: %v", err)
			}
			if s.rr.viol != nil || s.rr.stopErr != "" {
				break
			}
			// correspondence of the Lean reward/slashing model on the block just executed
			if drv != nil {
				var cerr error
				func() {
					defer func() {
						if r := recover(); r != nil {
							// the real code panicked inside an isolated call that the model did not predict: a finding, not a harness death
							rp := vh.WriteReplay(c.ReplayDir, "C06", fmt.Sprintf("corr-panic-%d", ci), c.Seed, []string{fmt.Sprintf("panic during correspondence: %v", r)}, scenario)
							res.Fail("correspondence", "", fmt.Sprintf("panic during correspondence on block %d: %v", len(s.rr.blocks), r), rp)
						}
					}()
					cerr = correspond(c, drv, s, &s.rr.blocks[len(s.rr.blocks)-1], scenario)
				}()
				if cerr != nil {
					s.close()
					return cerr
				}
			}
		}
		if err := s.finishChain(); err != nil {
			s.close()
			return err
		}
		rr := s.rr
		s.close()
		res.DistN("blocks-re-executed-in-a-fresh-child-process", rr.childBlocks)
		periodEnds, stakingTx, failedOrRefused, evid, slashed, forged := 0, 0, 0, 0, 0, 0
		for _, b := range rr.blocks {
			if b.block == nil {
				res.Dist("block-skipped: " + b.skipped)
				continue
			}
			totalBlocks++
			totalReruns += b.reruns
			if b.periodEnd {
				periodEnds++
			}
			stakingTx += b.nStaking
			failedOrRefused += b.nFailed + b.nSkipped
			evid += b.nEv
			slashed += b.nSlashed
			if b.forged {
				forged++
			}
			res.DistN("tx-offered", b.nTx)
			res.DistN("tx-refused-by-builder", b.nSkipped)
			res.DistN("tx-included-failed", b.nFailed)
			res.DistN("tx-staking-included", b.nStaking)
			res.DistN("evidence-offered", b.nEv)
			res.DistN("evidence-confirmed-into-SlashData", b.nSlashed)
			res.DistN("end-block-logs", b.endLogs)
			if b.worker {
				res.Dist("worker-loop-blocks")
				for k, v := range b.workerStats {
					res.DistN("worker-loop "+k, v)
				}
				if b.gasLimit > 0 {
					res.Dist(fmt.Sprintf("worker-loop candidate gas / gas limit = %dx..", b.candGas/b.gasLimit))
				}
			}
			if len(b.block.Transactions()) >= 16 {
				res.Dist("block-with->=16-txs")
			}
		}
		res.DistN("blocks", len(rr.blocks))
		res.DistN("period-end-blocks", periodEnds)
		res.DistN("blocks-finished-through-forged-SlashData", forged)
		res.Dist("chain-version-" + fmt.Sprint(rr.w.ver))
		res.Count(strings.Join(scenario, "\n"), periodEnds >= 1 && stakingTx >= 1 && failedOrRefused >= 1)
		if ci < 2 {
			n := len(scenario)
			if n > 14 {
				n = 14
			}
			res.Sample(map[string]interface{}{"scenario_head": scenario[:n], "blocks": len(rr.blocks), "period_ends": periodEnds, "staking_txs": stakingTx,
				"failed_or_refused": failedOrRefused, "evidences": evid, "confirmed": slashed})
		}
		if rr.stopErr != "" {
			res.Dist("chain-stopped-by-deterministic-panic")
			fmt.Fprintln(os.Stderr, "note: chain", ci, "stopped:", rr.stopErr)
		}
		if rr.viol != nil {
			oracleFails++
			small, what := scenario, rr.viol.kind+": "+rr.viol.what
			if shrunk < 2 {
				shrunk++
				cand := shrinkScenario(scenario, K, rr.viol.kind)
				if f, w, _ := oracleOnScenario(cand, K); f && w != "" {
					small, what = cand, w
				}
			}
			rp := vh.WriteReplay(c.ReplayDir, "C06", fmt.Sprintf("chain-%d", ci), c.Seed, []string{"oracle: " + what}, small)
			res.Fail("oracle", "", what, rp)
		}
	}
	res.TracesVsImpl += 0
	res.Extra["blocks_built_imported_reexecuted"] = totalBlocks
	res.Extra["re_executions"] = totalReruns
	res.Extra["K"] = K
	res.Partial = append(res.Partial,
		"independence from map iterations that are not in the Lean model, from goroutine scheduling in ProcessSenders and from trie-node cache contents is only sampled (K re-executions per block on fresh StateDBs, warm and cold caches, two databases)")
	return nil
}

// replay file: either one "F ..." line (fork scenario), "L ..." lines (Lean correspondence lines), or a chain scenario (W, GV, B, ... lines).
func replay(c *vh.Ctx, body, comments []string) (bool, string) {
	quiet.Silence()
	chainkit.Init()
	if len(body) == 0 {
		return false, "empty replay"
	}
	if strings.HasPrefix(body[0], "F ") {
		o, err := runFork(body[0])
		if err != nil {
			return false, "ill-formed fork scenario: " + err.Error()
		}
		return forkFails(o)
	}
	if strings.HasPrefix(body[0], "L ") {
		return replayLean(c, body)
	}
	if strings.HasPrefix(body[0], "H ") {
		f, what, _, err := runHistory(body[0])
		if err != nil {
			return false, "ill-formed H scenario: " + err.Error()
		}
		return f, what
	}
	if strings.HasPrefix(body[0], "G ") {
		f, what, _, _, err := runGenChain(body[0])
		if err != nil {
			return false, "ill-formed G scenario: " + err.Error()
		}
		return f, what
	}
	f, what, _ := oracleOnScenario(body, 12) // enough repetitions to hit an order-dependent outcome with near certainty
	return f, what
}
